import CTV.Lemmas.DerTotal
import CTV.Lemmas.DerSlices
import CTV.Lemmas.DerCanonStrict
/-!
# What the decoder allocates is bounded by what it consumed

`AVal.size` (CTV.Lemmas.DerTotal) counts the octets / elements a decoded value holds (strings after transcoding, octet and bit
strings, raw contents, OID arcs, slice lengths). `parseField_size`: a successful `parseField` returns a value of size at most
twice the number of octets it consumed (the factor 2 is what the ISO 8859-1 and BMPString transcoders can reach).
-/
namespace CTV.Der

/-! ### transcoders -/

theorem utf8Enc_length (r : Nat) : (utf8Enc r).length ≤ 4 := by
  unfold utf8Enc
  simp only []
  repeat' split
  all_goals simp

theorem utf8Enc_length_byte (b : UInt8) : (utf8Enc b.toNat).length ≤ 2 := by
  have hb : b.toNat < 256 := UInt8.toNat_lt b
  unfold utf8Enc
  simp only []
  have h0 : ¬ ((0xD800 ≤ b.toNat ∧ b.toNat < 0xE000) ∨ b.toNat > 0x10FFFF) := by omega
  rw [if_neg h0]
  split
  · simp
  · split
    · simp
    · omega

theorem iso8859_length : ∀ (c : Bytes), (iso8859_1ToUTF8 c).length ≤ 2 * c.length
  | [] => by simp [iso8859_1ToUTF8]
  | b :: c => by
    have ih := iso8859_length c
    have hb := utf8Enc_length_byte b
    unfold iso8859_1ToUTF8 at ih ⊢
    simp only [List.flatMap_cons, List.length_append, List.length_cons]
    omega

theorem utf16_utf8_length : ∀ (st : Option Nat) (us : List Nat),
    ((utf16DecodeGo st us).flatMap utf8Enc).length ≤ 4 * us.length + (if st.isSome then 4 else 0)
  | none, [] => by simp [utf16DecodeGo]
  | some _, [] => by
    simp only [utf16DecodeGo, List.flatMap_cons, List.flatMap_nil, List.append_nil]
    have := utf8Enc_length 0xFFFD
    simp; omega
  | none, u :: r => by
    simp only [utf16DecodeGo]
    have i1 := utf16_utf8_length none r
    have i2 := utf16_utf8_length (some u) r
    have e1 := utf8Enc_length u
    have e2 := utf8Enc_length 0xFFFD
    simp only [Option.isSome_none, Option.isSome_some, Bool.false_eq_true, if_false, if_true] at i1 i2 ⊢
    split
    · simp only [List.flatMap_cons, List.length_append, List.length_cons]; omega
    · split
      · simp only [List.length_cons]; omega
      · simp only [List.flatMap_cons, List.length_append, List.length_cons]; omega
  | some h, v :: r => by
    simp only [utf16DecodeGo]
    have i1 := utf16_utf8_length none r
    have i2 := utf16_utf8_length (some v) r
    have e1 := utf8Enc_length v
    have e2 := utf8Enc_length 0xFFFD
    have e3 := utf8Enc_length ((h - 0xD800) * 1024 + (v - 0xDC00) + 0x10000)
    have e4 : (utf8Enc 0xFFFD).length ≤ 3 := by decide
    simp only [Option.isSome_none, Option.isSome_some, Bool.false_eq_true, if_false, if_true] at i1 i2 ⊢
    split
    · simp only [List.flatMap_cons, List.length_append, List.length_cons]; omega
    · split
      · simp only [List.flatMap_cons, List.length_append, List.length_cons]; omega
      · simp only [List.flatMap_cons, List.length_append, List.length_cons]; omega

theorem pairsBE_length : ∀ (c : Bytes), 2 * (pairsBE c).length ≤ c.length
  | [] => by simp [pairsBE]
  | [_] => by simp [pairsBE]
  | a :: b :: r => by
    have := pairsBE_length r
    simp only [pairsBE, List.length_cons]
    omega

theorem parseBMPString_length (c s : Bytes) (h : parseBMPString c = .ok s) : s.length ≤ 2 * c.length := by
  unfold parseBMPString at h
  split at h
  · cases h
  · simp only [Except.ok.injEq] at h
    subst h
    have h1 := utf16_utf8_length none (pairsBE (if c.length ≥ 2 ∧ c.drop (c.length - 2) = [0, 0] then c.take (c.length - 2) else c))
    have h2 := pairsBE_length (if c.length ≥ 2 ∧ c.drop (c.length - 2) = [0, 0] then c.take (c.length - 2) else c)
    have h3 : (if c.length ≥ 2 ∧ c.drop (c.length - 2) = [0, 0] then c.take (c.length - 2) else c).length ≤ c.length := by
      split
      · simp
      · exact Nat.le_refl _
    simp only [Option.isSome_none, Bool.false_eq_true, if_false] at h1
    unfold utf16Decode
    omega

theorem parsePrintableString_length (lax : Bool) (c s : Bytes) (h : parsePrintableString lax c = .ok s) : s.length ≤ 2 * c.length := by
  unfold parsePrintableString at h
  split at h
  · cases h; omega
  · split at h
    · cases h
    · split at h
      · cases h; exact iso8859_length c
      · split at h
        · cases h; omega
        · cases h

theorem parseStringByTag_length (lax : Bool) (tag : Nat) (c s : Bytes) (h : parseStringByTag lax tag c = .ok s) :
    s.length ≤ 2 * c.length := by
  unfold parseStringByTag at h
  split at h
  · exact parsePrintableString_length lax c s h
  · split at h
    · unfold parseNumericString at h; split at h <;> cases h; omega
    · split at h
      · unfold parseIA5String at h; split at h <;> cases h; omega
      · split at h
        · cases h; omega
        · split at h
          · unfold parseUTF8String at h; split at h <;> cases h; omega
          · split at h
            · cases h; omega
            · split at h
              · exact parseBMPString_length c s h
              · cases h

/-! ### OBJECT IDENTIFIER, BIT STRING -/

theorem parseArcs_length (d : Dialect) : ∀ (f : Nat) (bs : Bytes) (vs : List Nat), parseArcs d f bs = .ok vs → vs.length ≤ bs.length
  | 0, _, _, h => by simp [parseArcs] at h
  | f+1, [], vs, h => by simp [parseArcs] at h; subst h; simp
  | f+1, b :: bs, vs, h => by
    simp only [parseArcs] at h
    cases h0 : parseBase128 d (b :: bs) with
    | error e => rw [h0] at h; cases h
    | ok x =>
      obtain ⟨v, rest⟩ := x
      rw [h0] at h
      simp only [] at h
      have hc := (parseBase128Go_consumed d _ _ _ _ _ h0).length
      cases h1 : parseArcs d f rest with
      | error e => rw [h1] at h; cases h
      | ok ws =>
        rw [h1] at h
        cases h
        have := parseArcs_length d f rest ws h1
        simp only [List.length_cons] at hc ⊢
        omega

theorem parseOID_length (d : Dialect) (lax : Bool) (c : Bytes) (arcs : List Nat) (h : parseOID d lax c = .ok arcs) :
    arcs.length ≤ 2 * c.length := by
  unfold parseOID at h
  split at h
  · split at h
    · cases h; simp
    · cases h
  · cases h0 : parseBase128 d c with
    | error e => rw [h0] at h; cases h
    | ok x =>
      obtain ⟨v, rest⟩ := x
      rw [h0] at h
      simp only [] at h
      have hc := (parseBase128Go_consumed d _ _ _ _ _ h0).length
      cases h1 : parseArcs d (rest.length + 1) rest with
      | error e => rw [h1] at h; cases h
      | ok ws =>
        rw [h1] at h
        cases h
        have := parseArcs_length d _ rest ws h1
        simp only [List.length_append]
        split <;> (simp only [List.length_cons, List.length_nil]; omega)

theorem parseBitString_length (c : Bytes) (b : BitStr) (h : parseBitString c = .ok b) : b.bytes.length ≤ c.length := by
  cases c with
  | nil => simp [parseBitString] at h
  | cons p body =>
    simp only [parseBitString] at h
    split at h
    · cases h
    · cases h; simp

/-! ### leaves, `interface{}` -/

theorem parseLeaf_size (d : Dialect) (m : Mode) (t : ATy) (p : FP) (tl : TL) (utag : Nat) (inner consumed : Bytes) (v : AVal)
    (h : parseLeaf d m t p tl utag inner consumed = .ok v) : v.size ≤ 2 * inner.length := by
  unfold parseLeaf at h
  cases t with
  | rawValue => simp only [] at h; cases h; simp [AVal.size]; omega
  | oid =>
    simp only [] at h
    cases h0 : parseOID d m.isLax inner with
    | error e => rw [h0] at h; cases h
    | ok a => rw [h0] at h; cases h; simpa [AVal.size] using parseOID_length d _ _ _ h0
  | bitString =>
    simp only [] at h
    cases h0 : parseBitString inner with
    | error e => rw [h0] at h; cases h
    | ok b =>
      rw [h0] at h; cases h
      have := parseBitString_length _ _ h0
      simp [AVal.size]; omega
  | enum =>
    simp only [] at h
    cases h0 : parseInt32 m.isLax inner with
    | error e => rw [h0] at h; cases h
    | ok b => rw [h0] at h; cases h; simp [AVal.size]
  | flag => simp only [] at h; split at h <;> cases h; simp [AVal.size]
  | bigInt =>
    simp only [] at h
    cases h0 : parseBigInt m.isLax inner with
    | error e => rw [h0] at h; cases h
    | ok b => rw [h0] at h; cases h; simp [AVal.size]
  | bool =>
    simp only [] at h
    cases h0 : parseBool inner with
    | error e => rw [h0] at h; cases h
    | ok b => rw [h0] at h; cases h; simp [AVal.size]
  | int32 =>
    simp only [] at h
    cases h0 : parseInt32 m.isLax inner with
    | error e => rw [h0] at h; cases h
    | ok b => rw [h0] at h; cases h; simp [AVal.size]
  | int64 =>
    simp only [] at h
    cases h0 : parseInt64 m.isLax inner with
    | error e => rw [h0] at h; cases h
    | ok b => rw [h0] at h; cases h; simp [AVal.size]
  | octets => simp only [] at h; cases h; simp [AVal.size]; omega
  | time =>
    simp only [] at h
    cases h0 : (if utag = tagUTCTime then parseUTCTime inner else parseGeneralizedTime d inner) with
    | error e => rw [h0] at h; cases h
    | ok tv =>
      rw [h0] at h
      simp only [] at h
      have := (ite_error_ok h).2
      cases this; simp [AVal.size]
  | str =>
    simp only [] at h
    cases h0 : parseStringByTag m.isLax utag inner with
    | error e => rw [h0] at h; cases h
    | ok s =>
      rw [h0] at h
      simp only [] at h
      have := (ite_error_ok h).2
      cases this; simpa [AVal.size] using parseStringByTag_length _ _ _ _ h0
  | any => simp only [] at h; cases h
  | struct _ _ => simp only [] at h; cases h
  | seqOf _ _ => simp only [] at h; cases h

theorem map_ok {α β : Type} {x : Except Err α} {f : α → β} {y : β} (h : x.map f = .ok y) : ∃ a, x = .ok a ∧ y = f a := by
  cases x with
  | error e => cases h
  | ok a => cases h; exact ⟨a, rfl, rfl⟩

theorem anyInner_size (d : Dialect) (lax : Bool) (tl : TL) (inner : Bytes) (ov : Option AVal)
    (h : anyInner d lax tl inner = .ok ov) : (AVal.any ov).size ≤ 2 * inner.length := by
  unfold anyInner at h
  by_cases hc : (!tl.compound && tl.cls == 0) = true
  · rw [if_pos hc] at h
    by_cases h1 : tl.tag = tagPrintableString
    · rw [if_pos h1] at h
      obtain ⟨s, h0, rfl⟩ := map_ok h; simpa [AVal.size] using parsePrintableString_length _ _ _ h0
    rw [if_neg h1] at h
    by_cases h2 : tl.tag = tagNumericString
    · rw [if_pos h2] at h
      obtain ⟨s, h0, rfl⟩ := map_ok h
      unfold parseNumericString at h0; split at h0 <;> cases h0; simp [AVal.size]; omega
    rw [if_neg h2] at h
    by_cases h3 : tl.tag = tagIA5String
    · rw [if_pos h3] at h
      obtain ⟨s, h0, rfl⟩ := map_ok h
      unfold parseIA5String at h0; split at h0 <;> cases h0; simp [AVal.size]; omega
    rw [if_neg h3] at h
    by_cases h4 : tl.tag = tagT61String
    · rw [if_pos h4] at h; cases h; simp [AVal.size]; omega
    rw [if_neg h4] at h
    by_cases h5 : tl.tag = tagUTF8String
    · rw [if_pos h5] at h
      obtain ⟨s, h0, rfl⟩ := map_ok h
      unfold parseUTF8String at h0; split at h0 <;> cases h0; simp [AVal.size]; omega
    rw [if_neg h5] at h
    by_cases h6 : tl.tag = tagInteger
    · rw [if_pos h6] at h; obtain ⟨s, _, rfl⟩ := map_ok h; simp [AVal.size]
    rw [if_neg h6] at h
    by_cases h7 : tl.tag = tagBitString
    · rw [if_pos h7] at h
      obtain ⟨s, h0, rfl⟩ := map_ok h
      have := parseBitString_length _ _ h0
      simp [AVal.size]; omega
    rw [if_neg h7] at h
    by_cases h8 : tl.tag = tagOID
    · rw [if_pos h8] at h
      obtain ⟨s, h0, rfl⟩ := map_ok h; simpa [AVal.size] using parseOID_length _ _ _ _ h0
    rw [if_neg h8] at h
    by_cases h9 : tl.tag = tagUTCTime
    · rw [if_pos h9] at h; obtain ⟨s, _, rfl⟩ := map_ok h; simp [AVal.size]
    rw [if_neg h9] at h
    by_cases h10 : tl.tag = tagGeneralizedTime
    · rw [if_pos h10] at h; obtain ⟨s, _, rfl⟩ := map_ok h; simp [AVal.size]
    rw [if_neg h10] at h
    by_cases h11 : tl.tag = tagOctetString
    · rw [if_pos h11] at h; cases h; simp [AVal.size]; omega
    rw [if_neg h11] at h
    by_cases h12 : tl.tag = tagBMPString
    · rw [if_pos h12] at h
      obtain ⟨s, h0, rfl⟩ := map_ok h; simpa [AVal.size] using parseBMPString_length _ _ h0
    rw [if_neg h12] at h
    by_cases h13 : tl.tag = tagBoolean ∧ d.anyBool = true
    · rw [if_pos h13] at h; obtain ⟨s, _, rfl⟩ := map_ok h; simp [AVal.size]
    rw [if_neg h13] at h
    cases h; simp [AVal.size]
  · rw [if_neg hc] at h
    cases h; simp [AVal.size]

/-! ### the shell, and the recursion -/

/-- what `parseField` leaves is a suffix; the value's size plus 4 is at most twice what was consumed, unless the field was optional,
absent (size 0) and nothing was consumed -/
def SizeOK (p : FP) (v : AVal) (bs rest : Bytes) : Prop :=
  ∃ pre, bs = pre ++ rest ∧ (v.size + 4 ≤ 2 * pre.length ∨ (p.optional = true ∧ v.size = 0 ∧ pre = []))

theorem SizeOK.le {p : FP} {v : AVal} {bs rest : Bytes} (h : SizeOK p v bs rest) :
    rest.length ≤ bs.length ∧ v.size ≤ 2 * (bs.length - rest.length) := by
  obtain ⟨pre, rfl, h⟩ := h
  rcases h with h | ⟨_, h, rfl⟩
  · simp; omega
  · simp; omega

theorem parseAny_size (d : Dialect) (lax : Bool) (bs : Bytes) (v : AVal) (rest : Bytes)
    (h : parseAny d lax bs = .ok (v, rest)) : ∃ pre, bs = pre ++ rest ∧ v.size + 4 ≤ 2 * pre.length := by
  unfold parseAny at h
  cases h0 : parseTagLen d bs with
  | error e => rw [h0] at h; cases h
  | ok x =>
    obtain ⟨tl, r⟩ := x
    rw [h0] at h
    simp only [] at h
    obtain ⟨hdr, rfl, hl⟩ := parseTagLen_consumed d _ _ _ h0
    split at h
    · cases h
    · rename_i hlen
      cases h1 : anyInner d lax tl (r.take tl.len) with
      | error e => rw [h1] at h; cases h
      | ok ov =>
        rw [h1] at h
        cases h
        have := anyInner_size d lax tl _ ov h1
        refine ⟨hdr ++ r.take tl.len, by rw [List.append_assoc, List.take_append_drop], ?_⟩
        simp only [List.length_append, List.length_take] at this ⊢
        omega

theorem fieldShell_size (d : Dialect) (m : Mode) (t : ATy) (p : FP) (bs : Bytes)
    (k : TL → Nat → Bytes → Bytes → Except Err AVal)
    (hk : ∀ tl utag inner consumed v, k tl utag inner consumed = .ok v → v.size ≤ 2 * inner.length)
    (v : AVal) (rest : Bytes) (h : fieldShell d m t p bs k = .ok (v, rest)) : SizeOK p v bs rest := by
  cases fieldShell_ok d m t p bs k v rest h with
  | emptyAbsent hb ho hr hv _ => exact ⟨[], by simp [hb, hr], Or.inr ⟨ho, by rw [hv]; simp [AVal.size], rfl⟩⟩
  | any _ _ h =>
    obtain ⟨pre, e, hl⟩ := parseAny_size d _ bs v rest h
    exact ⟨pre, e, Or.inl hl⟩
  | absent _ ho hr hv _ => exact ⟨[], by simp [hr], Or.inr ⟨ho, by rw [hv]; simp [AVal.size], rfl⟩⟩
  | flagSet hh _ hv =>
    obtain ⟨pre, e, hl⟩ := header_flag_consumed _ t p bs _ hh
    exact ⟨pre, e, Or.inl (by rw [hv]; simp [AVal.size]; omega)⟩
  | body tl utag inner consumed outer hh hkk _ =>
    obtain ⟨e1, hdr, e2, hl⟩ := header_consumed _ t p bs _ _ _ _ _ _ hh
    have := hk _ _ _ _ _ hkk
    exact ⟨consumed, e1, Or.inl (by rw [e2]; simp; omega)⟩

theorem parseElemsWith_size (f : Bytes → Except Err (AVal × Bytes))
    (hf : ∀ bs v rest, f bs = .ok (v, rest) → ∃ pre, bs = pre ++ rest ∧ v.size + 4 ≤ 2 * pre.length) :
    ∀ (n : Nat) (bs : Bytes) (vs : List AVal), parseElemsWith f n bs = .ok vs → vs.length + sizeList vs ≤ 2 * bs.length
  | 0, bs, vs, h => by simp [parseElemsWith] at h; subst h; simp [sizeList]
  | n+1, bs, vs, h => by
    simp only [parseElemsWith] at h
    cases h0 : f bs with
    | error e => rw [h0] at h; cases h
    | ok x =>
      obtain ⟨v, rest⟩ := x
      rw [h0] at h
      simp only [] at h
      cases h1 : parseElemsWith f n rest with
      | error e => rw [h1] at h; cases h
      | ok ws =>
        rw [h1] at h
        cases h
        obtain ⟨pre, rfl, hl⟩ := hf _ _ _ h0
        have := parseElemsWith_size f hf n rest ws h1
        simp only [List.length_cons, sizeList, List.length_append]
        omega

mutual
/-- **the decoded value is at most twice as large as what was consumed** -/
theorem parseField_sizeOK (d : Dialect) (m : Mode) : ∀ (t : ATy) (p : FP) (bs : Bytes) (v : AVal) (rest : Bytes),
    parseField d m t p bs = .ok (v, rest) → SizeOK p v bs rest
  | .struct raw fs, p, bs, v, rest, h => by
    simp only [parseField] at h
    refine fieldShell_size d m _ p bs _ ?_ v rest h
    intro tl utag inner consumed w hw
    cases h0 : parseFields d (m.under raw) fs inner with
    | error e => rw [h0] at hw; cases hw
    | ok y =>
      obtain ⟨vs, left⟩ := y
      rw [h0] at hw
      simp only [] at hw
      have := parseFields_sizeOK d (m.under raw) fs inner vs left h0
      split at hw
      · cases hw
      · cases hw; simp only [AVal.size]; omega
  | .seqOf s e, p, bs, v, rest, h => by
    simp only [parseField] at h
    refine fieldShell_size d m _ p bs _ ?_ v rest h
    intro tl utag inner consumed w hw
    split at hw
    · cases hw
    · split at hw
      · cases hw
      · cases h0 : countElems (d.forMode m) (universalType e) (inner.length + 1) inner with
        | error err => rw [h0] at hw; cases hw
        | ok n =>
          rw [h0] at hw
          simp only [] at hw
          obtain ⟨vs, h1, rfl⟩ := map_ok hw
          have := parseElemsWith_size (parseField d m e {}) (fun bs v rest hh => by
            obtain ⟨pre, e1, hh⟩ := parseField_sizeOK d m e {} bs v rest hh
            rcases hh with hh | ⟨ho, _, _⟩
            · exact ⟨pre, e1, hh⟩
            · cases ho) n inner vs h1
          simp only [AVal.size]; omega
  | .bool, p, bs, v, rest, h => by
    simp only [parseField] at h; exact fieldShell_size d m _ p bs _ (fun _ _ _ _ _ hh => parseLeaf_size _ _ _ _ _ _ _ _ _ hh) v rest h
  | .int32, p, bs, v, rest, h => by
    simp only [parseField] at h; exact fieldShell_size d m _ p bs _ (fun _ _ _ _ _ hh => parseLeaf_size _ _ _ _ _ _ _ _ _ hh) v rest h
  | .int64, p, bs, v, rest, h => by
    simp only [parseField] at h; exact fieldShell_size d m _ p bs _ (fun _ _ _ _ _ hh => parseLeaf_size _ _ _ _ _ _ _ _ _ hh) v rest h
  | .bigInt, p, bs, v, rest, h => by
    simp only [parseField] at h; exact fieldShell_size d m _ p bs _ (fun _ _ _ _ _ hh => parseLeaf_size _ _ _ _ _ _ _ _ _ hh) v rest h
  | .enum, p, bs, v, rest, h => by
    simp only [parseField] at h; exact fieldShell_size d m _ p bs _ (fun _ _ _ _ _ hh => parseLeaf_size _ _ _ _ _ _ _ _ _ hh) v rest h
  | .bitString, p, bs, v, rest, h => by
    simp only [parseField] at h; exact fieldShell_size d m _ p bs _ (fun _ _ _ _ _ hh => parseLeaf_size _ _ _ _ _ _ _ _ _ hh) v rest h
  | .octets, p, bs, v, rest, h => by
    simp only [parseField] at h; exact fieldShell_size d m _ p bs _ (fun _ _ _ _ _ hh => parseLeaf_size _ _ _ _ _ _ _ _ _ hh) v rest h
  | .oid, p, bs, v, rest, h => by
    simp only [parseField] at h; exact fieldShell_size d m _ p bs _ (fun _ _ _ _ _ hh => parseLeaf_size _ _ _ _ _ _ _ _ _ hh) v rest h
  | .str, p, bs, v, rest, h => by
    simp only [parseField] at h; exact fieldShell_size d m _ p bs _ (fun _ _ _ _ _ hh => parseLeaf_size _ _ _ _ _ _ _ _ _ hh) v rest h
  | .rawValue, p, bs, v, rest, h => by
    simp only [parseField] at h; exact fieldShell_size d m _ p bs _ (fun _ _ _ _ _ hh => parseLeaf_size _ _ _ _ _ _ _ _ _ hh) v rest h
  | .flag, p, bs, v, rest, h => by
    simp only [parseField] at h; exact fieldShell_size d m _ p bs _ (fun _ _ _ _ _ hh => parseLeaf_size _ _ _ _ _ _ _ _ _ hh) v rest h
  | .time, p, bs, v, rest, h => by
    simp only [parseField] at h; exact fieldShell_size d m _ p bs _ (fun _ _ _ _ _ hh => parseLeaf_size _ _ _ _ _ _ _ _ _ hh) v rest h
  | .any, p, bs, v, rest, h => by
    simp only [parseField] at h; exact fieldShell_size d m _ p bs _ (fun _ _ _ _ _ hh => parseLeaf_size _ _ _ _ _ _ _ _ _ hh) v rest h
theorem parseFields_sizeOK (d : Dialect) (m : Mode) : ∀ (fs : AFields) (bs : Bytes) (vs : List AVal) (left : Bytes),
    parseFields d m fs bs = .ok (vs, left) → left.length ≤ bs.length ∧ sizeList vs ≤ 2 * (bs.length - left.length)
  | .nil, bs, vs, left, h => by
    simp [parseFields] at h
    obtain ⟨rfl, rfl⟩ := h
    simp [sizeList]
  | .cons p t rest, bs, ws, left, h => by
    obtain ⟨v, bs', vs, h1, h2, rfl⟩ := parseFields_cons d m _ _ _ _ _ _ h
    have a := (parseField_sizeOK d m t p bs v bs' h1).le
    have b := parseFields_sizeOK d m rest bs' vs left h2
    simp only [sizeList]
    omega
end

end CTV.Der
