import CTV.Tls.Codec
/-!
Facts about the regenerated range test `Gen.fieldInfoCheck` (through `Tls.Info.check`), proved by
unfolding whatever the extractor produced from `tls/tls.go` on this run.
-/
namespace Tls
open CTV

theorem count_cases {c : Nat} (h : c ≤ 8) : c = 0 ∨ c = 1 ∨ c = 2 ∨ c = 3 ∨ c = 4 ∨ c = 5 ∨ c = 6 ∨ c = 7 ∨ c = 8 := by omega

/-- What the codec proofs need: an accepted value fits into `count` bytes (any `count ≤ 8`). -/
theorem check_lt (i : Info) (v : Nat) (hc : i.count ≤ 8) (h : i.check v = true) : v < 256 ^ i.count := by
  obtain ⟨c, mn, mx, cs⟩ := i
  simp only [Info.check, Bool.and_eq_true, decide_eq_true_eq] at h
  obtain ⟨h64, h⟩ := h
  simp only at hc ⊢
  rcases count_cases hc with rfl | rfl | rfl | rfl | rfl | rfl | rfl | rfl | rfl <;>
    simp [Gen.fieldInfoCheck, U64.shl, U64.mul, U64.wrap] at h ⊢ <;> omega

/-- The documented meaning of `fieldInfo.check`, for widths up to 7 bytes. -/
theorem check_iff (i : Info) (v : Nat) (hc : i.count ≤ 7) :
    i.check v = true ↔ (v < 256 ^ i.count ∧ (i.maxlen = 0 ∨ (i.minlen ≤ v ∧ v ≤ i.maxlen))) := by
  obtain ⟨c, mn, mx, cs⟩ := i
  simp only [Info.check, Bool.and_eq_true, decide_eq_true_eq]
  simp only at hc ⊢
  have hc' : c ≤ 8 := by omega
  rcases count_cases hc' with rfl | rfl | rfl | rfl | rfl | rfl | rfl | rfl | rfl <;>
    simp [Gen.fieldInfoCheck, U64.shl, U64.mul, U64.wrap] <;> omega

end Tls

namespace Tls
open CTV

/-- `byteCount x` is the least number of bytes (1…8) that holds every value up to and including `x`. -/
theorem byteCount_spec' (x : Nat) (hx : x < 2 ^ 64) :
    1 ≤ (Gen.byteCount (Int.ofNat x)).toNat ∧ (Gen.byteCount (Int.ofNat x)).toNat ≤ 8 ∧
    x < 256 ^ (Gen.byteCount (Int.ofNat x)).toNat ∧
    (1 < (Gen.byteCount (Int.ofNat x)).toNat → 256 ^ ((Gen.byteCount (Int.ofNat x)).toNat - 1) ≤ x) := by
  unfold Gen.byteCount
  simp only [Int.ofNat_eq_natCast, decide_eq_true_eq]
  repeat' split
  all_goals simp
  all_goals omega

end Tls
