import CTV.Lemmas.DerPrefix
import CTV.Lemmas.DerSlices
/-!
# `Canon` is a sub-mode of `strict`: whatever `canon` accepts, `strict` accepts with the same value and remainder
(the canonical form only adds tests, and decodes base-128 with the minimality test switched on).
-/
namespace CTV.Der

theorem weaker_forMode (d : Dialect) : Weaker d (d.forMode .canon) := fun _ => rfl

theorem parseTagLen_mono (d d2 : Dialect) (hw : Weaker d2 d) (bs : Bytes) (tl : TL) (r : Bytes)
    (h : parseTagLen d bs = .ok (tl, r)) : parseTagLen d2 bs = .ok (tl, r) := by
  obtain ⟨hdr, rfl, _, hall⟩ := parseTagLen_cancel d bs tl r h
  exact hall d2 r hw

theorem parseBase128_mono (d d2 : Dialect) (hw : Weaker d2 d) (bs : Bytes) (v : Nat) (r : Bytes)
    (h : parseBase128 d bs = .ok (v, r)) : parseBase128 d2 bs = .ok (v, r) := by
  obtain ⟨pre, rfl, hall⟩ := parseBase128Go_cancel d bs 0 0 v r h
  exact hall d2 r hw

theorem parseArcs_mono (d d2 : Dialect) (hw : Weaker d2 d) : ∀ (f : Nat) (bs : Bytes) (vs : List Nat),
    parseArcs d f bs = .ok vs → parseArcs d2 f bs = .ok vs
  | 0, _, _, h => by simp [parseArcs] at h
  | f+1, [], vs, h => by simpa [parseArcs] using h
  | f+1, b :: bs, vs, h => by
    simp only [parseArcs] at h ⊢
    cases h0 : parseBase128 d (b :: bs) with
    | error e => rw [h0] at h; cases h
    | ok x =>
      obtain ⟨v, rest⟩ := x
      rw [h0] at h
      rw [parseBase128_mono d d2 hw _ _ _ h0]
      simp only [] at h ⊢
      cases h1 : parseArcs d f rest with
      | error e => rw [h1] at h; cases h
      | ok ws =>
        rw [h1] at h
        rw [parseArcs_mono d d2 hw f rest ws h1]
        exact h

theorem parseOID_mono (d d2 : Dialect) (hw : Weaker d2 d) (lax : Bool) (c : Bytes) (a : List Nat)
    (h : parseOID d lax c = .ok a) : parseOID d2 lax c = .ok a := by
  unfold parseOID at h ⊢
  by_cases hc : c = []
  · rw [if_pos hc] at h ⊢; exact h
  · rw [if_neg hc] at h ⊢
    cases h0 : parseBase128 d c with
    | error e => rw [h0] at h; cases h
    | ok x =>
      obtain ⟨v, rest⟩ := x
      rw [h0] at h
      rw [parseBase128_mono d d2 hw _ _ _ h0]
      simp only [] at h ⊢
      cases h1 : parseArcs d (rest.length + 1) rest with
      | error e => rw [h1] at h; cases h
      | ok ws =>
        rw [h1] at h
        rw [parseArcs_mono d d2 hw _ rest ws h1]
        exact h

theorem header_mono (d d2 : Dialect) (hw : Weaker d2 d) (t : ATy) (p : FP) (bs : Bytes) (H : Hdr)
    (h : header d t p bs = .ok H) : header d2 t p bs = .ok H := by
  unfold header at h ⊢
  cases h0 : parseTagLen d bs with
  | error e => rw [h0] at h; cases h
  | ok x =>
    obtain ⟨tl0, r1⟩ := x
    rw [h0] at h
    rw [parseTagLen_mono d d2 hw _ _ _ h0]
    simp only [] at h ⊢
    by_cases he : p.explicit = true
    · rw [if_pos he] at h ⊢
      by_cases hr : r1 = []
      · rw [if_pos hr] at h; cases h
      · rw [if_neg hr] at h ⊢
        by_cases hm : tl0.cls = (if p.application = true then 1 else 2) ∧ tl0.tag = p.tag.getD 0 ∧ (tl0.len = 0 ∨ tl0.compound = true)
        · rw [if_pos hm] at h ⊢
          have step : ∀ (A : Except Err Hdr), (if tl0.len > 0 then
                  (match parseTagLen d r1 with
                   | .error e => .error e
                   | .ok (tl, r2) => headerBody t p bs tl r2 (some (tl0.len, r1.length)))
                else A) = .ok H →
              (if tl0.len > 0 then
                  (match parseTagLen d2 r1 with
                   | .error e => .error e
                   | .ok (tl, r2) => headerBody t p bs tl r2 (some (tl0.len, r1.length)))
                else A) = .ok H := by
            intro A hA
            by_cases hl : tl0.len > 0
            · rw [if_pos hl] at hA ⊢
              cases h1 : parseTagLen d r1 with
              | error e => rw [h1] at hA; cases hA
              | ok y =>
                rw [h1] at hA
                rw [parseTagLen_mono d d2 hw _ _ _ h1]
                exact hA
            · rw [if_neg hl] at hA ⊢; exact hA
          cases t <;> first | exact h | exact step _ h
        · rw [if_neg hm] at h ⊢; exact h
    · rw [if_neg he] at h ⊢; exact h

theorem countElems_mono (d d2 : Dialect) (hw : Weaker d2 d) (u : Bool × Nat × Bool) : ∀ (f : Nat) (bs : Bytes) (n : Nat),
    countElems d u f bs = .ok n → countElems d2 u f bs = .ok n
  | 0, _, _, h => by simp [countElems] at h
  | f+1, [], n, h => by simpa [countElems] using h
  | f+1, b :: bs, n, h => by
    simp only [countElems] at h ⊢
    cases h0 : parseTagLen d (b :: bs) with
    | error e => rw [h0] at h; cases h
    | ok x =>
      obtain ⟨tl, r⟩ := x
      rw [h0] at h
      rw [parseTagLen_mono d d2 hw _ _ _ h0]
      simp only [] at h ⊢
      cases h1 : countElems d u f (r.drop tl.len) with
      | error e =>
        rw [h1] at h
        exfalso
        repeat' split at h
        all_goals first | (cases h; done) | (rename_i hq; cases hq)
      | ok m =>
        rw [h1] at h
        rw [countElems_mono d d2 hw u f _ m h1]
        exact h

/-- `c` succeeding implies `s` succeeding with the same result -/
def Sub {α : Type} (c s : Except Err α) : Prop := ∀ x, c = .ok x → s = .ok x

theorem parseGeneralizedTime_forMode (d : Dialect) (c : Bytes) :
    parseGeneralizedTime (d.forMode .canon) c = parseGeneralizedTime d c := by
  unfold parseGeneralizedTime
  have : (d.forMode .canon).genTimeFraction = d.genTimeFraction := rfl
  rw [this]

theorem ite_error_ok {α : Type} {c : Prop} [Decidable c] {e : Err} {m : Except Err α} {v : α}
    (h : (if c then Except.error e else m) = .ok v) : ¬ c ∧ m = .ok v := by
  by_cases hc : c
  · rw [if_pos hc] at h; cases h
  · rw [if_neg hc] at h; exact ⟨hc, h⟩

theorem parseLeaf_sub (d : Dialect) (t : ATy) (p : FP) (tl : TL) (utag : Nat) (inner consumed : Bytes) :
    Sub (parseLeaf (d.forMode .canon) .canon t p tl utag inner consumed) (parseLeaf d .strict t p tl utag inner consumed) := by
  intro v h
  unfold parseLeaf at h ⊢
  cases t <;> simp only [Mode.isLax, Mode.isCanon, Bool.true_and, Bool.false_and, Bool.false_eq_true, if_false] at h ⊢
  case oid =>
    cases h0 : parseOID (d.forMode .canon) false inner with
    | error e => rw [h0] at h; cases h
    | ok a => rw [h0] at h; rw [parseOID_mono _ d (weaker_forMode d) _ _ _ h0]; exact h
  case flag => exact (ite_error_ok h).2
  case time =>
    rw [parseGeneralizedTime_forMode] at h
    cases h0 : (if utag = tagUTCTime then parseUTCTime inner else parseGeneralizedTime d inner) with
    | error e => rw [h0] at h; cases h
    | ok tv =>
      rw [h0] at h
      simp only [] at h ⊢
      exact (ite_error_ok h).2
  case str =>
    cases h0 : parseStringByTag false utag inner with
    | error e => rw [h0] at h; cases h
    | ok s =>
      rw [h0] at h
      simp only [] at h ⊢
      exact (ite_error_ok h).2
  all_goals exact h

theorem parseElemsWith_sub (f g : Bytes → Except Err (AVal × Bytes)) (h : ∀ bs, Sub (f bs) (g bs)) :
    ∀ n bs, Sub (parseElemsWith f n bs) (parseElemsWith g n bs)
  | 0, _ => fun x hx => hx
  | n+1, bs => by
    intro x hx
    simp only [parseElemsWith] at hx ⊢
    cases h0 : f bs with
    | error e => rw [h0] at hx; cases hx
    | ok y =>
      obtain ⟨v, r⟩ := y
      rw [h0] at hx
      rw [h bs _ h0]
      simp only [] at hx ⊢
      cases h1 : parseElemsWith f n r with
      | error e => rw [h1] at hx; cases hx
      | ok vs =>
        rw [h1] at hx
        rw [parseElemsWith_sub f g h n r _ h1]
        exact hx

theorem fieldShell_sub (d : Dialect) (t : ATy) (p : FP) (bs : Bytes) (k1 k2 : TL → Nat → Bytes → Bytes → Except Err AVal)
    (hk : ∀ tl utag inner consumed, Sub (k1 tl utag inner consumed) (k2 tl utag inner consumed)) :
    Sub (fieldShell d .canon t p bs k1) (fieldShell d .strict t p bs k2) := by
  intro x h
  obtain ⟨v, rest⟩ := x
  have hd : d.forMode .strict = d := rfl
  cases fieldShell_ok _ _ _ _ _ _ _ _ h with
  | emptyAbsent hb ho hr hv _ =>
    subst hb hr hv
    simp [fieldShell, ho, absentResult, Mode.isCanon]
  | any _ hc _ => cases hc
  | absent hh ho hr hv _ =>
    subst hv
    rw [hr]
    have hne : bs ≠ [] := by
      intro hb; subst hb; unfold header at hh; simp [parseTagLen, parseTag] at hh
    have hany : t.isAny = false := by
      unfold fieldShell at h
      rw [if_neg hne] at h
      cases ha : t.isAny with
      | false => rfl
      | true => rw [ha] at h; simp [Mode.isCanon] at h
    have := header_mono _ d (weaker_forMode d) t p bs _ hh
    simp [fieldShell, hne, hany, hd, this, absentResult, Mode.isCanon]
  | flagSet _ hc _ => cases hc
  | body tl utag inner consumed outer hh hkk _ =>
    have hne : bs ≠ [] := by
      intro hb; subst hb; unfold header at hh; simp [parseTagLen, parseTag] at hh
    have hany : t.isAny = false := by
      unfold fieldShell at h
      rw [if_neg hne] at h
      cases ha : t.isAny with
      | false => rfl
      | true => rw [ha] at h; simp [Mode.isCanon] at h
    have := header_mono _ d (weaker_forMode d) t p bs _ hh
    simp [fieldShell, hne, hany, hd, this, Mode.isCanon, hk _ _ _ _ _ hkk]

mutual
/-- **canon ⊆ strict** -/
theorem parseField_canon_strict (d : Dialect) : ∀ (t : ATy) (p : FP) (bs : Bytes),
    Sub (parseField d .canon t p bs) (parseField d .strict t p bs)
  | .struct raw fs, p, bs => by
    simp only [parseField]
    apply fieldShell_sub
    intro tl utag inner consumed v h
    cases raw with
    | true =>
      simp only [Mode.under, Mode.isCanon, Bool.not_true, Bool.and_false, Bool.false_and, Bool.false_eq_true, if_false] at h ⊢
      exact h
    | false =>
      simp only [Mode.under] at h ⊢
      cases h0 : parseFields d .canon fs inner with
      | error e => rw [h0] at h; cases h
      | ok y =>
        obtain ⟨vs, left⟩ := y
        rw [h0] at h
        rw [parseFields_canon_strict d fs inner _ h0]
        simp only [Mode.isCanon, Bool.false_and, Bool.false_eq_true, if_false] at h ⊢
        exact (ite_error_ok h).2
  | .seqOf s e, p, bs => by
    simp only [parseField]
    apply fieldShell_sub
    intro tl utag inner consumed v h
    simp only [Mode.isCanon, Bool.false_and, Bool.false_eq_true, if_false] at h ⊢
    obtain ⟨_, h⟩ := ite_error_ok h
    obtain ⟨hany, h⟩ := ite_error_ok h
    · · rw [if_neg hany]
        cases h0 : countElems (d.forMode .canon) (universalType e) (inner.length + 1) inner with
        | error err => rw [h0] at h; cases h
        | ok n =>
          rw [h0] at h
          have : d.forMode .strict = d := rfl
          rw [this, countElems_mono _ d (weaker_forMode d) _ _ _ _ h0]
          simp only [] at h ⊢
          cases h1 : parseElemsWith (parseField d .canon e {}) n inner with
          | error err => rw [h1] at h; cases h
          | ok vs =>
            rw [h1] at h
            rw [parseElemsWith_sub _ _ (fun bs => parseField_canon_strict d e {} bs) n inner _ h1]
            exact h
  | .bool, p, bs => by simp only [parseField]; exact fieldShell_sub d _ p bs _ _ fun _ _ _ _ => parseLeaf_sub d _ p _ _ _ _
  | .int32, p, bs => by simp only [parseField]; exact fieldShell_sub d _ p bs _ _ fun _ _ _ _ => parseLeaf_sub d _ p _ _ _ _
  | .int64, p, bs => by simp only [parseField]; exact fieldShell_sub d _ p bs _ _ fun _ _ _ _ => parseLeaf_sub d _ p _ _ _ _
  | .bigInt, p, bs => by simp only [parseField]; exact fieldShell_sub d _ p bs _ _ fun _ _ _ _ => parseLeaf_sub d _ p _ _ _ _
  | .enum, p, bs => by simp only [parseField]; exact fieldShell_sub d _ p bs _ _ fun _ _ _ _ => parseLeaf_sub d _ p _ _ _ _
  | .bitString, p, bs => by simp only [parseField]; exact fieldShell_sub d _ p bs _ _ fun _ _ _ _ => parseLeaf_sub d _ p _ _ _ _
  | .octets, p, bs => by simp only [parseField]; exact fieldShell_sub d _ p bs _ _ fun _ _ _ _ => parseLeaf_sub d _ p _ _ _ _
  | .oid, p, bs => by simp only [parseField]; exact fieldShell_sub d _ p bs _ _ fun _ _ _ _ => parseLeaf_sub d _ p _ _ _ _
  | .str, p, bs => by simp only [parseField]; exact fieldShell_sub d _ p bs _ _ fun _ _ _ _ => parseLeaf_sub d _ p _ _ _ _
  | .rawValue, p, bs => by simp only [parseField]; exact fieldShell_sub d _ p bs _ _ fun _ _ _ _ => parseLeaf_sub d _ p _ _ _ _
  | .flag, p, bs => by simp only [parseField]; exact fieldShell_sub d _ p bs _ _ fun _ _ _ _ => parseLeaf_sub d _ p _ _ _ _
  | .time, p, bs => by simp only [parseField]; exact fieldShell_sub d _ p bs _ _ fun _ _ _ _ => parseLeaf_sub d _ p _ _ _ _
  | .any, p, bs => by simp only [parseField]; exact fieldShell_sub d _ p bs _ _ fun _ _ _ _ => parseLeaf_sub d _ p _ _ _ _
theorem parseFields_canon_strict (d : Dialect) : ∀ (fs : AFields) (bs : Bytes),
    Sub (parseFields d .canon fs bs) (parseFields d .strict fs bs)
  | .nil, bs => by intro x h; simpa [parseFields] using h
  | .cons p t rest, bs => by
    intro x h
    obtain ⟨ws, left⟩ := x
    obtain ⟨v, bs', vs, h1, h2, rfl⟩ := parseFields_cons d .canon _ _ _ _ _ _ h
    simp only [parseFields]
    rw [parseField_canon_strict d t p bs _ h1]
    simp only []
    rw [parseFields_canon_strict d rest bs' _ h2]
end

end CTV.Der
