import CTV.Der.Asn1
/-!
# Consumption lemmas: every parser returns a suffix of its input, headers take at least two octets,
fuel-bounded loops never run out of fuel, decoded values are bounded by the input.
-/
namespace CTV.Der

/-- `r` is what remains of `bs` after at least `k` octets were consumed -/
def Consumed (bs r : Bytes) (k : Nat) : Prop := ∃ pre, bs = pre ++ r ∧ k ≤ pre.length

theorem Consumed.length {bs r : Bytes} {k : Nat} (h : Consumed bs r k) : r.length + k ≤ bs.length := by
  obtain ⟨pre, rfl, hk⟩ := h
  simp; omega

theorem Consumed.trans {a b c : Bytes} {j k : Nat} (h1 : Consumed a b j) (h2 : Consumed b c k) : Consumed a c (j + k) := by
  obtain ⟨p1, rfl, h1⟩ := h1
  obtain ⟨p2, rfl, h2⟩ := h2
  exact ⟨p1 ++ p2, by simp, by simp; omega⟩

theorem Consumed.cons {b : UInt8} {bs r : Bytes} {k : Nat} (h : Consumed bs r k) : Consumed (b :: bs) r (k + 1) := by
  obtain ⟨pre, rfl, hk⟩ := h
  exact ⟨b :: pre, rfl, by simp; omega⟩

theorem Consumed.refl (bs : Bytes) : Consumed bs bs 0 := ⟨[], rfl, Nat.le_refl _⟩

theorem Consumed.mono {bs r : Bytes} {j k : Nat} (h : Consumed bs r k) (hj : j ≤ k) : Consumed bs r j := by
  obtain ⟨pre, rfl, hk⟩ := h
  exact ⟨pre, rfl, by omega⟩

theorem parseBase128Go_consumed (d : Dialect) : ∀ (bs : Bytes) (s acc v : Nat) (r : Bytes),
    parseBase128Go d s acc bs = .ok (v, r) → Consumed bs r 1
  | [], _, _, _, _, h => by simp [parseBase128Go] at h
  | b :: bs, s, acc, v, r, h => by
    simp only [parseBase128Go] at h
    split at h
    · cases h
    · split at h
      · cases h
      · split at h
        · split at h
          · cases h
          · cases h; exact (Consumed.refl _).cons
        · exact ((parseBase128Go_consumed d bs _ _ v r h).mono (Nat.zero_le _)).cons

theorem parseLongLen_consumed : ∀ (n acc : Nat) (bs : Bytes) (v : Nat) (r : Bytes),
    parseLongLen n acc bs = .ok (v, r) → Consumed bs r n
  | 0, _, bs, v, r, h => by simp [parseLongLen] at h; obtain ⟨_, rfl⟩ := h; exact Consumed.refl _
  | n+1, _, [], _, _, h => by simp [parseLongLen] at h
  | n+1, acc, b :: bs, v, r, h => by
    simp only [parseLongLen] at h
    split at h
    · cases h
    · split at h
      · cases h
      · exact (parseLongLen_consumed n _ bs v r h).cons

theorem parseLen_consumed (bs : Bytes) (v : Nat) (r : Bytes) (h : parseLen bs = .ok (v, r)) : Consumed bs r 1 := by
  match bs, h with
  | [], h => simp [parseLen] at h
  | l :: rest, h =>
    simp only [parseLen] at h
    split at h
    · cases h; exact (Consumed.refl _).cons
    · split at h
      · cases h
      · split at h
        · cases h
        · rename_i len r' heq
          split at h
          · cases h
          · cases h
            exact ((parseLongLen_consumed _ _ _ _ _ heq).mono (Nat.zero_le _)).cons

theorem parseTag_consumed (d : Dialect) (bs : Bytes) (c : Nat) (k : Bool) (t : Nat) (r : Bytes)
    (h : parseTag d bs = .ok (c, k, t, r)) : Consumed bs r 1 := by
  match bs, h with
  | [], h => simp [parseTag] at h
  | b :: rest, h =>
    simp only [parseTag] at h
    split at h
    · split at h
      · cases h
      · rename_i tg r' heq
        split at h
        · cases h
        · cases h
          exact ((parseBase128Go_consumed d _ _ _ _ _ heq).mono (Nat.zero_le _)).cons
    · cases h; exact (Consumed.refl _).cons

theorem parseTagLen_consumed (d : Dialect) (bs : Bytes) (tl : TL) (r : Bytes)
    (h : parseTagLen d bs = .ok (tl, r)) : Consumed bs r 2 := by
  unfold parseTagLen at h
  split at h
  · cases h
  · rename_i c k t r1 h1
    split at h
    · cases h
    · rename_i len r2 h2
      cases h
      exact (parseTag_consumed d _ _ _ _ _ h1).trans (parseLen_consumed _ _ _ h2)

/-- the counting pass never runs out of fuel: every element takes at least two octets -/
theorem countElems_fuel (d : Dialect) (u : Bool × Nat × Bool) : ∀ (f : Nat) (bs : Bytes), bs.length < f →
    countElems d u f bs ≠ .error .fuel
  | 0, _, h => by omega
  | f+1, [], _ => by simp [countElems]
  | f+1, b :: bs, hlen => by
    simp only [countElems]
    split
    · rename_i e he; intro h; cases h
      -- parseTagLen never reports `fuel`
      unfold parseTagLen at he
      split at he
      · rename_i e' h1; cases he
        unfold parseTag at h1
        split at h1
        · cases h1
        · split at h1
          · split at h1
            · rename_i e'' h2; cases h1
              exact absurd h2 (by
                intro h2
                have : ∀ (bs : Bytes) (s acc : Nat), parseBase128Go d s acc bs ≠ .error .fuel := by
                  intro bs
                  induction bs with
                  | nil => intro s acc h; simp [parseBase128Go] at h
                  | cons x xs ih =>
                    intro s acc h
                    simp only [parseBase128Go] at h
                    repeat' split at h
                    all_goals first | cases h | exact ih _ _ h
                exact this _ _ _ h2)
            · split at h1 <;> cases h1
          · cases h1
      · split at he
        · rename_i e' h2; cases he
          unfold parseLen at h2
          split at h2
          · cases h2
          · repeat' split at h2
            all_goals first | cases h2 | skip
            rename_i e'' h3
            have : ∀ (n acc : Nat) (bs : Bytes), parseLongLen n acc bs ≠ .error .fuel := by
              intro n
              induction n with
              | zero => intro acc bs h; simp [parseLongLen] at h
              | succ n ih =>
                intro acc bs h
                cases bs with
                | nil => simp [parseLongLen] at h
                | cons x xs =>
                  simp only [parseLongLen] at h
                  repeat' split at h
                  all_goals first | cases h | exact ih _ _ h
            exact this _ _ _ h3
        · cases he
    · rename_i tl r he
      have hc := (parseTagLen_consumed d _ _ _ he).length
      simp only [List.length_cons] at hc hlen
      repeat' split
      all_goals first
        | (intro h; cases h; done)
        | skip
      all_goals (
        rename_i e' he'
        intro h; cases h
        exact countElems_fuel d u f (r.drop tl.len) (by simp; omega) he')


theorem parseBase128Go_noFuel (d : Dialect) : ∀ (bs : Bytes) (s acc : Nat), parseBase128Go d s acc bs ≠ .error .fuel := by
  intro bs
  induction bs with
  | nil => intro s acc h; simp [parseBase128Go] at h
  | cons x xs ih =>
    intro s acc h
    simp only [parseBase128Go] at h
    repeat' split at h
    all_goals first | cases h | exact ih _ _ h

/-- the arc loop of `parseObjectIdentifier` never runs out of fuel: every sub-identifier takes at least one octet -/
theorem parseArcs_fuel (d : Dialect) : ∀ (f : Nat) (bs : Bytes), bs.length < f → parseArcs d f bs ≠ .error .fuel
  | 0, _, h => by omega
  | f+1, [], _ => by simp [parseArcs]
  | f+1, b :: bs, hlen => by
    simp only [parseArcs]
    cases h0 : parseBase128 d (b :: bs) with
    | error e =>
      simp only []
      intro h; cases h
      exact parseBase128Go_noFuel d _ _ _ h0
    | ok x =>
      obtain ⟨v, rest⟩ := x
      simp only []
      have hc := (parseBase128Go_consumed d _ _ _ _ _ h0).length
      cases h1 : parseArcs d f rest with
      | error e =>
        simp only []
        intro h; cases h
        exact parseArcs_fuel d f rest (by simp at hc hlen; omega) h1
      | ok vs => simp

/-! ### what the decoder allocates -/

mutual
/-- octets and elements held by a decoded value (strings, octet strings, bit strings, raw contents, OID arcs,
slice lengths). `RawContent` / `FullBytes` are views of the input and are not counted again. -/
def AVal.size : AVal → Nat
  | .bits b => b.bytes.length
  | .octets b => b.length
  | .oid a => a.length
  | .str _ s => s.length
  | .raw _ _ _ c _ => c.length
  | .any (some v) => v.size
  | .struct _ fs => sizeList fs
  | .list vs => vs.length + sizeList vs
  | _ => 0
def sizeList : List AVal → Nat
  | [] => 0
  | v :: vs => v.size + sizeList vs
end

theorem headerBody_consumed (t : ATy) (p : FP) (bs : Bytes) (tl : TL) (r2 : Bytes) (outer : Option (Nat × Nat)) (k : Nat)
    (hc : Consumed bs r2 k) (tl' : TL) (utag : Nat) (inner rest consumed : Bytes) (outer' : Option (Nat × Nat))
    (h : headerBody t p bs tl r2 outer = .ok (.body tl' utag inner rest consumed outer')) :
    bs = consumed ++ rest ∧ ∃ hdr, consumed = hdr ++ inner ∧ k ≤ hdr.length := by
  unfold headerBody at h
  split at h
  · unfold headerMiss at h; split at h <;> cases h
  · split at h
    · cases h
    · rename_i hlen
      simp only [Except.ok.injEq, Hdr.body.injEq] at h
      obtain ⟨rfl, rfl, rfl, rfl, rfl, rfl⟩ := h
      obtain ⟨pre, rfl, hk⟩ := hc
      have hl : tl.len ≤ r2.length := by omega
      have e1 : (pre ++ r2).length - (r2.drop tl.len).length = pre.length + tl.len := by
        simp; omega
      rw [e1]
      have e2 : (pre ++ r2).take (pre.length + tl.len) = pre ++ r2.take tl.len := by
        rw [List.take_append, List.take_of_length_le (by omega)]
        congr 2; omega
      rw [e2]
      refine ⟨?_, pre, rfl, hk⟩
      rw [List.append_assoc, List.take_append_drop]

theorem headerBody_notFlag (t : ATy) (p : FP) (bs : Bytes) (tl : TL) (r2 : Bytes) (outer : Option (Nat × Nat)) (rest : Bytes) :
    headerBody t p bs tl r2 outer ≠ .ok (.flagSet rest) := by
  unfold headerBody
  split
  · unfold headerMiss; split <;> (intro h; cases h)
  · split <;> (intro h; cases h)

/-- the explicit-tag part of `header`, by cases -/
theorem header_cases (d : Dialect) (t : ATy) (p : FP) (bs : Bytes) (H : Hdr) (h : header d t p bs = .ok H) :
    ∃ tl0 r1, parseTagLen d bs = .ok (tl0, r1) ∧
      (headerBody t p bs tl0 r1 none = .ok H ∨
       (∃ tl r2, parseTagLen d r1 = .ok (tl, r2) ∧ headerBody t p bs tl r2 (some (tl0.len, r1.length)) = .ok H) ∨
       H = .flagSet r1 ∨ H = .absent) := by
  unfold header at h
  cases h0 : parseTagLen d bs with
  | error e => rw [h0] at h; cases h
  | ok x =>
    obtain ⟨tl0, r1⟩ := x
    rw [h0] at h
    refine ⟨tl0, r1, rfl, ?_⟩
    simp only [] at h
    by_cases he : p.explicit = true
    · rw [if_pos he] at h
      by_cases hr : r1 = []
      · rw [if_pos hr] at h; cases h
      · rw [if_neg hr] at h
        by_cases hm : tl0.cls = (if p.application = true then 1 else 2) ∧ tl0.tag = p.tag.getD 0 ∧ (tl0.len = 0 ∨ tl0.compound = true)
        · rw [if_pos hm] at h
          split at h
          · exact Or.inl h
          · by_cases hl : tl0.len > 0
            · rw [if_pos hl] at h
              cases h1 : parseTagLen d r1 with
              | error e => rw [h1] at h; cases h
              | ok y =>
                obtain ⟨tl, r2⟩ := y
                rw [h1] at h
                exact Or.inr (Or.inl ⟨tl, r2, rfl, h⟩)
            · rw [if_neg hl] at h
              split at h
              · cases h; exact Or.inr (Or.inr (Or.inl rfl))
              · cases h
        · rw [if_neg hm] at h
          unfold headerMiss at h
          split at h
          · cases h; exact Or.inr (Or.inr (Or.inr rfl))
          · cases h
    · rw [if_neg he] at h
      exact Or.inl h

theorem header_consumed (d : Dialect) (t : ATy) (p : FP) (bs : Bytes) (tl : TL) (utag : Nat) (inner rest consumed : Bytes)
    (outer : Option (Nat × Nat)) (h : header d t p bs = .ok (.body tl utag inner rest consumed outer)) :
    bs = consumed ++ rest ∧ ∃ hdr, consumed = hdr ++ inner ∧ 2 ≤ hdr.length := by
  obtain ⟨tl0, r1, h0, hc⟩ := header_cases d t p bs _ h
  have c0 := parseTagLen_consumed d _ _ _ h0
  rcases hc with hb | ⟨tl1, r2, h1, hb⟩ | hf | ha
  · exact headerBody_consumed _ _ _ _ _ _ 2 c0 _ _ _ _ _ _ hb
  · have c1 := parseTagLen_consumed d _ _ _ h1
    exact headerBody_consumed _ _ _ _ _ _ 2 ((c0.trans c1).mono (by omega)) _ _ _ _ _ _ hb
  · cases hf
  · cases ha

theorem header_flag_consumed (d : Dialect) (t : ATy) (p : FP) (bs rest : Bytes)
    (h : header d t p bs = .ok (.flagSet rest)) : Consumed bs rest 2 := by
  obtain ⟨tl0, r1, h0, hc⟩ := header_cases d t p bs _ h
  have c0 := parseTagLen_consumed d _ _ _ h0
  rcases hc with hb | ⟨tl1, r2, h1, hb⟩ | hf | ha
  · exact absurd hb (headerBody_notFlag _ _ _ _ _ _ _)
  · exact absurd hb (headerBody_notFlag _ _ _ _ _ _ _)
  · cases hf; exact c0
  · cases ha

theorem headerBody_inner_length (t : ATy) (p : FP) (bs : Bytes) (tl0 : TL) (r2 : Bytes) (o : Option (Nat × Nat))
    (tl : TL) (utag : Nat) (inner rest consumed : Bytes) (outer : Option (Nat × Nat))
    (h : headerBody t p bs tl0 r2 o = .ok (.body tl utag inner rest consumed outer)) :
    inner.length = tl.len ∧ tl = tl0 ∧ inner = r2.take tl0.len ∧ rest = r2.drop tl0.len ∧ tl0.len ≤ r2.length ∧ tagMismatch t p tl0 = false ∧
      utag = utagOf t p tl0 ∧ outer = o := by
  unfold headerBody at h
  by_cases hm : tagMismatch t p tl0 = true
  · rw [if_pos hm] at h; unfold headerMiss at h; split at h <;> cases h
  · rw [if_neg hm] at h
    by_cases hl : tl0.len > r2.length
    · rw [if_pos hl] at h; cases h
    · rw [if_neg hl] at h
      simp only [Except.ok.injEq, Hdr.body.injEq] at h
      obtain ⟨rfl, rfl, rfl, rfl, rfl, rfl⟩ := h
      exact ⟨by simp; omega, rfl, rfl, rfl, by omega, by simpa using hm, rfl, rfl⟩

/-- **every slice is in range**: the content slice `bytes[offset : offset+t.length]` that `parseField` takes has exactly the
declared length (the `take` of the model does not truncate), on every path through explicit tags -/
theorem header_inner_length (d : Dialect) (t : ATy) (p : FP) (bs : Bytes) (tl : TL) (utag : Nat) (inner rest consumed : Bytes)
    (outer : Option (Nat × Nat)) (h : header d t p bs = .ok (.body tl utag inner rest consumed outer)) :
    inner.length = tl.len := by
  obtain ⟨tl0, r1, _, hc⟩ := header_cases d t p bs _ h
  rcases hc with hb | ⟨tl1, r2, _, hb⟩ | hf | ha
  · exact (headerBody_inner_length _ _ _ _ _ _ _ _ _ _ _ _ hb).1
  · exact (headerBody_inner_length _ _ _ _ _ _ _ _ _ _ _ _ hb).1
  · cases hf
  · cases ha

theorem parseAny_consumed (d : Dialect) (lax : Bool) (bs : Bytes) (v : AVal) (rest : Bytes)
    (h : parseAny d lax bs = .ok (v, rest)) : Consumed bs rest 2 := by
  unfold parseAny at h
  cases h0 : parseTagLen d bs with
  | error e => rw [h0] at h; cases h
  | ok x =>
    obtain ⟨tl, r⟩ := x
    rw [h0] at h
    simp only [] at h
    have c0 := parseTagLen_consumed d _ _ _ h0
    split at h
    · cases h
    · split at h
      · cases h
      · cases h
        have : Consumed r (r.drop tl.len) 0 := ⟨r.take tl.len, (List.take_append_drop _ _).symm, Nat.zero_le _⟩
        exact c0.trans this

/-- What `parseField` leaves is a suffix of what it was given; unless the field was optional and absent,
at least two octets (a header) were consumed. -/
def Shrinks (p : FP) (bs rest : Bytes) : Prop :=
  ∃ pre, bs = pre ++ rest ∧ (2 ≤ pre.length ∨ (p.optional = true ∧ pre = []))

theorem headerBody_absent_optional (t : ATy) (p : FP) (bs : Bytes) (tl : TL) (r2 : Bytes) (outer : Option (Nat × Nat))
    (h : headerBody t p bs tl r2 outer = .ok .absent) : p.optional = true := by
  unfold headerBody at h
  by_cases hm : tagMismatch t p tl = true
  · rw [if_pos hm] at h
    unfold headerMiss at h
    by_cases ho : p.optional = true
    · exact ho
    · rw [if_neg ho] at h; cases h
  · rw [if_neg hm] at h
    by_cases hl : tl.len > r2.length
    · rw [if_pos hl] at h; cases h
    · rw [if_neg hl] at h; cases h

theorem header_absent_optional (d : Dialect) (t : ATy) (p : FP) (bs : Bytes)
    (h : header d t p bs = .ok .absent) : p.optional = true := by
  unfold header at h
  cases h0 : parseTagLen d bs with
  | error e => rw [h0] at h; cases h
  | ok x =>
    obtain ⟨tl0, r1⟩ := x
    rw [h0] at h
    simp only [] at h
    by_cases he : p.explicit = true
    · rw [if_pos he] at h
      by_cases hr : r1 = []
      · rw [if_pos hr] at h; cases h
      · rw [if_neg hr] at h
        by_cases hm : tl0.cls = (if p.application = true then 1 else 2) ∧ tl0.tag = p.tag.getD 0 ∧ (tl0.len = 0 ∨ tl0.compound = true)
        · rw [if_pos hm] at h
          split at h
          · exact headerBody_absent_optional _ _ _ _ _ _ h
          · by_cases hl : tl0.len > 0
            · rw [if_pos hl] at h
              cases h1 : parseTagLen d r1 with
              | error e => rw [h1] at h; cases h
              | ok y =>
                rw [h1] at h
                exact headerBody_absent_optional _ _ _ _ _ _ h
            · rw [if_neg hl] at h
              split at h <;> cases h
        · rw [if_neg hm] at h
          unfold headerMiss at h
          by_cases ho : p.optional = true
          · exact ho
          · rw [if_neg ho] at h; cases h
    · rw [if_neg he] at h
      exact headerBody_absent_optional _ _ _ _ _ _ h

/-- The ways `fieldShell` (hence `parseField`) can succeed. -/
inductive ShellOK (d : Dialect) (m : Mode) (t : ATy) (p : FP) (bs : Bytes)
    (k : TL → Nat → Bytes → Bytes → Except Err AVal) (v : AVal) (rest : Bytes) : Prop
  | emptyAbsent (hb : bs = []) (ho : p.optional = true) (hr : rest = []) (hv : v = .absent (defaultVal t p))
      (hom : m.isCanon = true → omitted t p v = true)
  | any (ha : t.isAny = true) (hc : m.isCanon = false) (h : parseAny d m.isLax bs = .ok (v, rest))
  | absent (hh : header (d.forMode m) t p bs = .ok .absent) (ho : p.optional = true) (hr : rest = bs) (hv : v = .absent (defaultVal t p))
      (hom : m.isCanon = true → omitted t p v = true)
  | flagSet (hh : header (d.forMode m) t p bs = .ok (.flagSet rest)) (hc : m.isCanon = false) (hv : v = .flag true)
  | body (tl : TL) (utag : Nat) (inner consumed : Bytes) (outer : Option (Nat × Nat))
      (hh : header (d.forMode m) t p bs = .ok (.body tl utag inner rest consumed outer))
      (hk : k tl utag inner consumed = .ok v)
      (hcanon : m.isCanon = true → (canonParams t p && canonOuter tl (inner.length + rest.length) outer) = true ∧ omitted t p v = false)

theorem absentResult_ok (m : Mode) (t : ATy) (p : FP) (r : Bytes) (v : AVal) (rest : Bytes)
    (h : absentResult m t p r = .ok (v, rest)) : v = .absent (defaultVal t p) ∧ rest = r ∧ (m.isCanon = true → omitted t p v = true) := by
  unfold absentResult at h
  by_cases hc : (m.isCanon && !omitted t p (.absent (defaultVal t p))) = true
  · rw [if_pos hc] at h; cases h
  · rw [if_neg hc] at h; cases h
    refine ⟨rfl, rfl, ?_⟩
    intro hm
    rw [hm] at hc
    simpa using hc

theorem fieldShell_ok (d : Dialect) (m : Mode) (t : ATy) (p : FP) (bs : Bytes)
    (k : TL → Nat → Bytes → Bytes → Except Err AVal) (v : AVal) (rest : Bytes)
    (h : fieldShell d m t p bs k = .ok (v, rest)) : ShellOK d m t p bs k v rest := by
  unfold fieldShell at h
  by_cases hb : bs = []
  · rw [if_pos hb] at h
    by_cases ho : p.optional = true
    · rw [if_pos ho] at h
      obtain ⟨hv, hr, hom⟩ := absentResult_ok _ _ _ _ _ _ h
      exact .emptyAbsent hb ho hr hv hom
    · rw [if_neg ho] at h; cases h
  · rw [if_neg hb] at h
    by_cases ha : t.isAny = true
    · rw [if_pos ha] at h
      by_cases hc : m.isCanon = true
      · rw [if_pos hc] at h; cases h
      · rw [if_neg hc] at h
        exact .any ha (by simpa using hc) h
    · rw [if_neg ha] at h
      cases hh : header (d.forMode m) t p bs with
      | error e => rw [hh] at h; cases h
      | ok H =>
        rw [hh] at h
        cases H with
        | absent =>
          simp only [] at h
          obtain ⟨hv, hr, hom⟩ := absentResult_ok _ _ _ _ _ _ h
          exact .absent hh (header_absent_optional _ _ _ _ hh) hr hv hom
        | flagSet r =>
          simp only [] at h
          by_cases hc : m.isCanon = true
          · rw [if_pos hc] at h; cases h
          · rw [if_neg hc] at h; cases h
            exact .flagSet hh (by simpa using hc) rfl
        | body tl utag inner r consumed outer =>
          simp only [] at h
          by_cases hc1 : (m.isCanon && !(canonParams t p && canonOuter tl (inner.length + r.length) outer)) = true
          · rw [if_pos hc1] at h; cases h
          · rw [if_neg hc1] at h
            cases hk : k tl utag inner consumed with
            | error e => rw [hk] at h; cases h
            | ok v' =>
              rw [hk] at h
              simp only [] at h
              by_cases hc2 : (m.isCanon && omitted t p v') = true
              · rw [if_pos hc2] at h; cases h
              · rw [if_neg hc2] at h; cases h
                refine .body tl utag inner consumed outer hh hk ?_
                intro hc
                rw [hc] at hc1 hc2
                simp at hc1 hc2
                exact ⟨by simpa using hc1, hc2⟩

theorem fieldShell_shrinks (d : Dialect) (m : Mode) (t : ATy) (p : FP) (bs : Bytes)
    (k : TL → Nat → Bytes → Bytes → Except Err AVal) (v : AVal) (rest : Bytes)
    (h : fieldShell d m t p bs k = .ok (v, rest)) : Shrinks p bs rest := by
  cases fieldShell_ok d m t p bs k v rest h with
  | emptyAbsent hb ho hr _ _ => exact ⟨[], by simp [hb, hr], Or.inr ⟨ho, rfl⟩⟩
  | any _ _ h =>
    obtain ⟨pre, e, hl⟩ := parseAny_consumed d _ bs v rest h
    exact ⟨pre, e, Or.inl hl⟩
  | absent _ ho hr _ _ => exact ⟨[], by simp [hr], Or.inr ⟨ho, rfl⟩⟩
  | flagSet hh _ _ =>
    obtain ⟨pre, e, hl⟩ := header_flag_consumed _ t p bs _ hh
    exact ⟨pre, e, Or.inl hl⟩
  | body tl utag inner consumed outer hh _ _ =>
    obtain ⟨e1, hdr, e2, hl⟩ := header_consumed _ t p bs _ _ _ _ _ _ hh
    exact ⟨consumed, e1, Or.inl (by rw [e2]; simp; omega)⟩

/-- every case of `parseField` is `fieldShell` around some continuation -/
theorem parseField_is_shell (d : Dialect) (m : Mode) (t : ATy) (p : FP) (bs : Bytes) :
    ∃ k, parseField d m t p bs = fieldShell d m t p bs k := by
  cases t <;> (simp only [parseField]; exact ⟨_, rfl⟩)

/-- **input strictly shrinks**: `parseField` returns a suffix of its input, and consumed at least a
two-octet header unless the field is optional and was absent. -/
theorem parseField_shrinks (d : Dialect) (m : Mode) (t : ATy) (p : FP) (bs : Bytes) (v : AVal) (rest : Bytes)
    (h : parseField d m t p bs = .ok (v, rest)) : Shrinks p bs rest := by
  obtain ⟨k, hk⟩ := parseField_is_shell d m t p bs
  rw [hk] at h
  exact fieldShell_shrinks d m t p bs k v rest h

end CTV.Der
