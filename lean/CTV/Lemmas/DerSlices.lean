import CTV.Lemmas.DerTotal
/-!
# Raw fields are exact sub-slices: an untagged, non-optional field is decoded from exactly the element
`readTLV` finds at its position, and `RawContent` / `RawValue.FullBytes` are that element's octets.
-/
namespace CTV.Der

/-- what `readTLV` returns is the input split at the element boundary -/
theorem readTLV_split (d : Dialect) (bs : Bytes) (e : Elem) (rest : Bytes) (h : readTLV d bs = .ok (e, rest)) :
    bs = e.full ++ rest := by
  unfold readTLV at h
  cases h0 : parseTagLen d bs with
  | error err => rw [h0] at h; cases h
  | ok x =>
    obtain ⟨tl, r⟩ := x
    rw [h0] at h
    simp only [] at h
    by_cases hl : tl.len > r.length
    · rw [if_pos hl] at h; cases h
    · rw [if_neg hl] at h
      cases h
      obtain ⟨pre, rfl, _⟩ := parseTagLen_consumed d _ _ _ h0
      simp only []
      have e1 : (pre ++ r).length - r.length + tl.len = pre.length + tl.len := by simp
      rw [e1, List.take_append, List.take_of_length_le (by omega), List.append_assoc]
      congr 1
      have : pre.length + tl.len - pre.length = tl.len := by omega
      rw [this, List.take_append_drop]

/-- the raw octets a value of type `t` carries are those of element `e`: a struct's RawContent is `e.full` and
its fields were decoded from `e.content`; a RawValue is exactly `e` -/
def RawOf (d : Dialect) (m : Mode) (t : ATy) (v : AVal) (e : Elem) : Prop :=
  match t with
  | .struct raw fs => ∃ vs left, parseFields d (m.under raw) fs e.content = .ok (vs, left) ∧ v = .struct (if raw then some e.full else none) vs
  | .rawValue => v = .raw e.tl.cls e.tl.tag e.tl.compound e.content e.full
  | _ => True

/-- a plain field (no tag parameters, not optional, not `interface{}`) -/
def PlainField (p : FP) (t : ATy) : Prop := p.explicit = false ∧ p.optional = false ∧ t.isAny = false

theorem headerBody_readTLV (d : Dialect) (t : ATy) (p : FP) (bs : Bytes) (tl0 : TL) (r1 : Bytes)
    (h0 : parseTagLen d bs = .ok (tl0, r1)) (tl : TL) (utag : Nat) (inner rest consumed : Bytes) (outer : Option (Nat × Nat))
    (h : headerBody t p bs tl0 r1 none = .ok (.body tl utag inner rest consumed outer)) :
    readTLV d bs = .ok (⟨tl, inner, consumed⟩, rest) := by
  unfold headerBody at h
  by_cases hm : tagMismatch t p tl0 = true
  · rw [if_pos hm] at h; unfold headerMiss at h; split at h <;> cases h
  · rw [if_neg hm] at h
    by_cases hl : tl0.len > r1.length
    · rw [if_pos hl] at h; cases h
    · rw [if_neg hl] at h
      simp only [Except.ok.injEq, Hdr.body.injEq] at h
      obtain ⟨rfl, rfl, rfl, rfl, rfl, rfl⟩ := h
      unfold readTLV
      rw [h0]
      simp only [hl, if_false]
      congr 3
      have := (parseTagLen_consumed d _ _ _ h0).length
      simp only [List.length_drop]
      congr 1
      omega

/-- **G1.** A plain field is decoded from exactly the element at the head of the remaining input. -/
theorem plainField_readTLV (d : Dialect) (m : Mode) (t : ATy) (p : FP) (bs : Bytes) (v : AVal) (rest : Bytes)
    (hp : PlainField p t) (h : parseField d m t p bs = .ok (v, rest)) :
    ∃ e, readTLV (d.forMode m) bs = .ok (e, rest) ∧ RawOf d m t v e := by
  obtain ⟨hex, hopt, hany⟩ := hp
  -- the header part is the same for every type
  have hdr : ∀ k, fieldShell d m t p bs k = .ok (v, rest) →
      ∃ tl utag inner consumed, readTLV (d.forMode m) bs = .ok (⟨tl, inner, consumed⟩, rest) ∧ k tl utag inner consumed = .ok v := by
    intro k hk
    cases fieldShell_ok _ _ _ _ _ _ _ _ hk with
    | emptyAbsent _ ho _ _ _ => rw [hopt] at ho; cases ho
    | any ha _ _ => rw [hany] at ha; cases ha
    | absent _ ho _ _ _ => rw [hopt] at ho; cases ho
    | flagSet hh _ _ =>
      unfold header at hh
      cases h0 : parseTagLen (d.forMode m) bs with
      | error e => rw [h0] at hh; cases hh
      | ok x =>
        rw [h0] at hh; simp only [hex, Bool.false_eq_true, if_false] at hh
        exact absurd hh (headerBody_notFlag _ _ _ _ _ _ _)
    | body tl utag inner consumed outer hh hkk _ =>
      unfold header at hh
      cases h0 : parseTagLen (d.forMode m) bs with
      | error e => rw [h0] at hh; cases hh
      | ok x =>
        obtain ⟨tl0, r1⟩ := x
        rw [h0] at hh
        simp only [hex, Bool.false_eq_true, if_false] at hh
        exact ⟨tl, utag, inner, consumed, headerBody_readTLV _ _ _ _ _ _ h0 _ _ _ _ _ _ hh, hkk⟩
  cases t with
  | struct raw fs =>
    simp only [parseField] at h
    obtain ⟨tl, utag, inner, consumed, hr, hkk⟩ := hdr _ h
    refine ⟨_, hr, ?_⟩
    cases hp1 : parseFields d (m.under raw) fs inner with
    | error e => rw [hp1] at hkk; cases hkk
    | ok y =>
      obtain ⟨vs, left⟩ := y
      rw [hp1] at hkk
      simp only [] at hkk
      split at hkk
      · cases hkk
      · cases hkk; exact ⟨vs, left, hp1, rfl⟩
  | rawValue =>
    simp only [parseField] at h
    obtain ⟨tl, utag, inner, consumed, hr, hkk⟩ := hdr _ h
    refine ⟨_, hr, ?_⟩
    unfold parseLeaf at hkk
    simp only [] at hkk
    cases hkk; rfl
  | _ =>
    all_goals (
      simp only [parseField] at h
      obtain ⟨tl, utag, inner, consumed, hr, _⟩ := hdr _ h
      exact ⟨_, hr, trivial⟩)

def AFields.get? : AFields → Nat → Option (FP × ATy)
  | .nil, _ => none
  | .cons p t _, 0 => some (p, t)
  | .cons _ _ r, n+1 => r.get? n

theorem parseFields_cons (d : Dialect) (m : Mode) (p : FP) (t : ATy) (rest : AFields) (bs : Bytes) (ws : List AVal) (left : Bytes)
    (h : parseFields d m (.cons p t rest) bs = .ok (ws, left)) :
    ∃ v bs' vs, parseField d m t p bs = .ok (v, bs') ∧ parseFields d m rest bs' = .ok (vs, left) ∧ ws = v :: vs := by
  simp only [parseFields] at h
  cases h1 : parseField d m t p bs with
  | error e => rw [h1] at h; cases h
  | ok x =>
    obtain ⟨v, bs'⟩ := x
    rw [h1] at h
    simp only [] at h
    cases h2 : parseFields d m rest bs' with
    | error e => rw [h2] at h; cases h
    | ok y =>
      obtain ⟨vs, l⟩ := y
      rw [h2] at h
      cases h
      exact ⟨v, bs', vs, rfl, h2, rfl⟩

/-- Every plain field of a struct is decoded from exactly the element found by `readTLV` at its position inside
the SEQUENCE content, and its raw octets are that element's. -/
theorem parseFields_slices (d : Dialect) (m : Mode) : ∀ (fs : AFields) (bs : Bytes) (vs : List AVal) (left : Bytes),
    parseFields d m fs bs = .ok (vs, left) →
    ∀ (i : Nat) (p : FP) (t : ATy), fs.get? i = some (p, t) → PlainField p t →
      ∃ v pre post e, vs[i]? = some v ∧ bs = pre ++ e.full ++ post ∧
        readTLV (d.forMode m) (e.full ++ post) = .ok (e, post) ∧ RawOf d m t v e
  | .nil, _, _, _, _, i, _, _, hg, _ => by simp [AFields.get?] at hg
  | .cons p0 t0 rest, bs, ws, left, h, 0, p, t, hg, hp => by
    simp only [AFields.get?, Option.some.injEq, Prod.mk.injEq] at hg
    obtain ⟨rfl, rfl⟩ := hg
    obtain ⟨v, bs', vs, h1, _, rfl⟩ := parseFields_cons d m _ _ _ _ _ _ h
    obtain ⟨e, hr, hraw⟩ := plainField_readTLV d m _ _ _ _ _ hp h1
    have hs := readTLV_split _ _ _ _ hr
    refine ⟨v, [], bs', e, by simp, by simpa using hs, ?_, hraw⟩
    rw [← hs]; exact hr
  | .cons p0 t0 rest, bs, ws, left, h, i+1, p, t, hg, hp => by
    simp only [AFields.get?] at hg
    obtain ⟨v0, bs', vs, h1, h2, rfl⟩ := parseFields_cons d m _ _ _ _ _ _ h
    obtain ⟨pre0, e0, _⟩ := parseField_shrinks d m _ _ _ _ _ h1
    obtain ⟨v, pre, post, e, hv, hb, hr, hraw⟩ := parseFields_slices d m rest bs' vs left h2 i p t hg hp
    refine ⟨v, pre0 ++ pre, post, e, by simpa using hv, ?_, hr, hraw⟩
    rw [e0, hb]; simp

/-- the element's octets are its header followed by its content -/
theorem readTLV_full (d : Dialect) (bs : Bytes) (e : Elem) (rest : Bytes) (h : readTLV d bs = .ok (e, rest)) :
    ∃ hdr, e.full = hdr ++ e.content ∧ 2 ≤ hdr.length ∧ e.content.length = e.tl.len := by
  unfold readTLV at h
  cases h0 : parseTagLen d bs with
  | error err => rw [h0] at h; cases h
  | ok x =>
    obtain ⟨tl, r⟩ := x
    rw [h0] at h
    simp only [] at h
    by_cases hl : tl.len > r.length
    · rw [if_pos hl] at h; cases h
    · rw [if_neg hl] at h
      cases h
      obtain ⟨pre, rfl, hp⟩ := parseTagLen_consumed d _ _ _ h0
      refine ⟨pre, ?_, hp, by simp; omega⟩
      simp only []
      have e1 : (pre ++ r).length - r.length + tl.len = pre.length + tl.len := by simp
      rw [e1, List.take_append, List.take_of_length_le (by omega)]
      congr 1
      have : pre.length + tl.len - pre.length = tl.len := by omega
      rw [this]

/-- `es` are the consecutive elements `readTLV` finds from the start of `bs`, and `post` is what follows them -/
def ElemsAt (d : Dialect) : Bytes → List Elem → Bytes → Prop
  | bs, [], post => bs = post
  | bs, e :: es, post => ∃ bs', readTLV d bs = .ok (e, bs') ∧ ElemsAt d bs' es post

/-- one plain field at the head of a field list: it is decoded from the element at the head of the content -/
theorem plain_step (d : Dialect) (m : Mode) (t : ATy) (rest : AFields) (bs : Bytes) (ws : List AVal) (left : Bytes)
    (ht : t.isAny = false) (h : parseFields d m (.cons {} t rest) bs = .ok (ws, left)) :
    ∃ e bs' v vs, readTLV (d.forMode m) bs = .ok (e, bs') ∧ RawOf d m t v e ∧
      parseFields d m rest bs' = .ok (vs, left) ∧ ws = v :: vs := by
  obtain ⟨v, bs', vs, h1, h2, rfl⟩ := parseFields_cons d m _ _ _ _ _ _ h
  obtain ⟨e, hr, hraw⟩ := plainField_readTLV d m _ _ _ _ _ ⟨rfl, rfl, ht⟩ h1
  exact ⟨e, bs', v, vs, hr, hraw, h2, rfl⟩

end CTV.Der
