import CTV.Model.SigVerify
/-! Abstract signature schemes: the only assumption ever made about the primitives, and only in the
sign-then-verify corollaries of C05/C12. -/
namespace CTV.SigV

/-- a signature scheme over the model's keys: `sign` produces what a log puts on the wire (raw octets for RSA, a
pair for (EC)DSA), `verify` is the primitive, `correct` the usual completeness law -/
structure Scheme where
  Priv : Type
  pub : Priv → Key
  sign : Priv → Nat → Bytes → SigVal
  verify : Key → Nat → Bytes → SigVal → Bool
  correct : ∀ (k : Priv) (h : Nat) (d : Bytes), verify (pub k) h d (sign k h d) = true

/-- the primitives of a scheme, with an arbitrary hash function -/
def Scheme.prims (S : Scheme) (digest : Nat → Bytes → Bytes) : Prims := ⟨digest, S.verify⟩

end CTV.SigV
