import CTV.Lemmas.ChainCheck
/-!
The recursion fuel of the model's `buildChains` is irrelevant: every recursive call follows an increment
of the signature counter that stayed within the budget, so `budget + 1` levels are never exhausted.
-/
namespace C02
open CTV.Model.ChainCheck

def SigMono (rec : Cert → List Cert → St → Res) : Prop := ∀ i cu s, s.sigChecks ≤ (rec i cu s).st.sigChecks

theorem extend_sig_mono {rec : Cert → List Cert → St → Res} (hm : SigMono rec) (cur : List Cert) (t : CertType) (a : Res) (x : Cert) :
    a.st.sigChecks ≤ (extend rec cur t a x).st.sigChecks := by
  unfold extend
  split
  · split
    · simp
    · exact hm _ _ _
  · simp

theorem consider_sig_mono (E : Env) {rec : Cert → List Cert → St → Res} (hm : SigMono rec) (c : Cert) (cur : List Cert) (t : CertType) (a : Res) (x : Cert) :
    a.st.sigChecks ≤ (consider E rec c cur t a x).st.sigChecks := by
  unfold consider
  split
  · simp
  split
  · simp [bump]
  split
  · simp [bump]
  split
  · simp [bump]
  · have := extend_sig_mono hm cur t { bump a with err := none } x
    simp only [bump] at this ⊢
    omega

theorem foldl_consider_sig_mono (E : Env) {rec : Cert → List Cert → St → Res} (hm : SigMono rec) (c : Cert) (cur : List Cert) (t : CertType) :
    ∀ (xs : List Cert) (a : Res), a.st.sigChecks ≤ (xs.foldl (consider E rec c cur t) a).st.sigChecks
  | [], _ => Nat.le_refl _
  | x :: xs, a => by
    simp only [List.foldl_cons]
    exact Nat.le_trans (consider_sig_mono E hm c cur t a x) (foldl_consider_sig_mono E hm c cur t xs _)

theorem buildStep_sig_mono (E : Env) {rec : Cert → List Cert → St → Res} (hm : SigMono rec) (c : Cert) (cur : List Cert) (st : St) :
    st.sigChecks ≤ (buildStep E rec c cur st).st.sigChecks := by
  unfold buildStep
  exact Nat.le_trans (foldl_consider_sig_mono E hm c cur .root _ ⟨[], none, st⟩) (foldl_consider_sig_mono E hm c cur .intermediate _ _)

theorem buildChains_sig_mono (E : Env) : ∀ n, SigMono (buildChains E n)
  | 0 => fun _ _ _ => Nat.le_refl _
  | n + 1 => fun i cu s => buildStep_sig_mono E (buildChains_sig_mono E n) i cu s

/-- Two recursive-call functions that agree on every state reachable after one more in-budget signature check. -/
def AgreeAbove (k : Nat) (rec1 rec2 : Cert → List Cert → St → Res) : Prop :=
  ∀ i cu s, k < s.sigChecks → (s.sigChecks : Int) ≤ 100 → rec1 i cu s = rec2 i cu s

theorem consider_congr (E : Env) {rec1 rec2 : Cert → List Cert → St → Res} {k : Nat} (hag : AgreeAbove k rec1 rec2)
    (c : Cert) (cur : List Cert) (t : CertType) (a : Res) (x : Cert) (hk : k ≤ a.st.sigChecks) :
    consider E rec1 c cur t a x = consider E rec2 c cur t a x := by
  unfold consider
  split
  · rfl
  split
  · rfl
  rename_i hb
  split
  · rfl
  split
  · rfl
  · have hb' : ((a.st.sigChecks + 1 : Nat) : Int) ≤ 100 := by
      have hb2 : ¬ ((((a.st.sigChecks + 1 : Nat) : Int)) > 100) := by
        intro hgt
        apply hb
        simp only [bump, Gen.sigBudgetExceeded, Gen.maxChainSignatureChecks]
        exact decide_eq_true hgt
      omega
    unfold extend
    split
    · split
      · rfl
      · rw [hag x (cur ++ [x]) _ (by simp [bump]; omega) (by simpa [bump] using hb')]
    · rfl

theorem foldl_consider_congr (E : Env) {rec1 rec2 : Cert → List Cert → St → Res} {k : Nat} (hm : SigMono rec2) (hag : AgreeAbove k rec1 rec2)
    (c : Cert) (cur : List Cert) (t : CertType) : ∀ (xs : List Cert) (a : Res), k ≤ a.st.sigChecks →
      xs.foldl (consider E rec1 c cur t) a = xs.foldl (consider E rec2 c cur t) a
  | [], _, _ => rfl
  | x :: xs, a, hk => by
    simp only [List.foldl_cons]
    rw [consider_congr E hag c cur t a x hk]
    exact foldl_consider_congr E hm hag c cur t xs _ (Nat.le_trans hk (consider_sig_mono E hm c cur t a x))

theorem buildStep_congr (E : Env) {rec1 rec2 : Cert → List Cert → St → Res} (hm : SigMono rec2) (c : Cert) (cur : List Cert) (st : St)
    (hag : AgreeAbove st.sigChecks rec1 rec2) : buildStep E rec1 c cur st = buildStep E rec2 c cur st := by
  unfold buildStep
  have h1 := foldl_consider_congr E hm hag c cur .root (findPotentialParents E.roots c) ⟨[], none, st⟩ (Nat.le_refl _)
  have h2 := foldl_consider_congr E hm hag c cur .intermediate (findPotentialParents E.inter c)
    ((findPotentialParents E.roots c).foldl (consider E rec2 c cur .root) ⟨[], none, st⟩)
    (foldl_consider_sig_mono E hm c cur .root _ ⟨[], none, st⟩)
  simp only [h1, h2]

/-- **Fuel irrelevance.** Any two positive amounts of fuel that cover the remaining budget give the same result. -/
theorem buildChains_fuel (E : Env) : ∀ (n m : Nat) (c : Cert) (cur : List Cert) (st : St),
    100 < n + st.sigChecks → 100 < m + st.sigChecks → 1 ≤ n → 1 ≤ m → buildChains E n c cur st = buildChains E m c cur st
  | 0, _, _, _, _, _, _, h, _ => absurd h (by omega)
  | _, 0, _, _, _, _, _, _, h => absurd h (by omega)
  | n + 1, m + 1, c, cur, st, hn, hm, _, _ => by
    simp only [buildChains]
    apply buildStep_congr E (buildChains_sig_mono E m)
    intro i cu s hs hs100
    exact buildChains_fuel E n m i cu s (by omega) (by omega) (by omega) (by omega)

end C02
