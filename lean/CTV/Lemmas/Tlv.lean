import CTV.Der.Tlv
/-!
Round-trip lemmas for the TLV level (`CTV/Der/Tlv.lean`): the parser reads back what the encoder writes,
and — because `parseTagAndLength` refuses every non-minimal form — every accepted input *is* the encoding
of what was parsed (encodings are unique).
-/
namespace CTV.Tbs

/-! ### base-128 groups -/

theorem b128Split_append {a g r : Bytes} (x : Bytes) (h : b128Split a = some (g, r)) :
    b128Split (a ++ x) = some (g, r ++ x) := by
  induction a generalizing g r with
  | nil => simp [b128Split] at h
  | cons b rest ih =>
    simp only [b128Split, List.cons_append] at h ⊢
    split
    · rename_i hb; simp only [hb, if_true] at h; simp at h; obtain ⟨rfl, rfl⟩ := h; rfl
    · rename_i hb
      simp only [hb, if_false] at h
      cases hs : b128Split rest with
      | none => simp [hs] at h
      | some p =>
        obtain ⟨g', r'⟩ := p
        simp only [hs] at h
        simp at h; obtain ⟨rfl, rfl⟩ := h
        simp [ih hs]

theorem b128Split_eq {bs g r : Bytes} (h : b128Split bs = some (g, r)) :
    bs = g ++ r ∧ b128Split g = some (g, []) := by
  induction bs generalizing g r with
  | nil => simp [b128Split] at h
  | cons b rest ih =>
    simp only [b128Split] at h
    split at h
    · rename_i hb; simp at h; obtain ⟨rfl, rfl⟩ := h; simp [b128Split, hb]
    · rename_i hb
      cases hs : b128Split rest with
      | none => simp [hs] at h
      | some p =>
        obtain ⟨g', r'⟩ := p
        simp only [hs] at h
        simp at h; obtain ⟨rfl, rfl⟩ := h
        obtain ⟨h1, h2⟩ := ih hs
        refine ⟨by simp [h1], ?_⟩
        simp [b128Split, hb, h2]

/-! ### identifier octets -/

theorem parseTag_append {a t r : Bytes} (x : Bytes) (h : parseTag a = some (t, r)) :
    parseTag (a ++ x) = some (t, r ++ x) := by
  cases a with
  | nil => simp [parseTag] at h
  | cons b rest =>
    simp only [parseTag, List.cons_append] at h ⊢
    split
    · rename_i hb
      simp only [hb, if_true] at h
      cases hs : b128Split rest with
      | none => simp [hs] at h
      | some p =>
        obtain ⟨g, r'⟩ := p
        simp only [hs] at h
        rw [b128Split_append x hs]
        simp only
        split at h
        · rename_i hok; simp at h; obtain ⟨rfl, rfl⟩ := h; simp [hok]
        · simp at h
    · rename_i hb
      simp only [hb, if_false] at h
      simp at h; obtain ⟨rfl, rfl⟩ := h; rfl

theorem parseTag_eq {bs t r : Bytes} (h : parseTag bs = some (t, r)) :
    bs = t ++ r ∧ validTag t = true := by
  cases bs with
  | nil => simp [parseTag] at h
  | cons b rest =>
    simp only [parseTag] at h
    split at h
    · rename_i hb
      cases hs : b128Split rest with
      | none => simp [hs] at h
      | some p =>
        obtain ⟨g, r'⟩ := p
        simp only [hs] at h
        split at h
        · rename_i hok
          simp at h; obtain ⟨rfl, rfl⟩ := h
          obtain ⟨h1, h2⟩ := b128Split_eq hs
          refine ⟨by simp [h1], ?_⟩
          simp [validTag, parseTag, hb, h2, hok]
        · simp at h
    · rename_i hb
      simp at h; obtain ⟨rfl, rfl⟩ := h
      refine ⟨rfl, ?_⟩
      simp [validTag, parseTag, hb]

theorem parseTag_valid {t : Bytes} (x : Bytes) (h : validTag t = true) : parseTag (t ++ x) = some (t, x) := by
  have : parseTag t = some (t, []) := by simpa [validTag] using h
  simpa using parseTag_append x this

/-! ### big-endian helpers -/

theorem beDec_foldl (acc : Nat) (t : Bytes) :
    t.foldl (fun a (b : UInt8) => a * 256 + b.toNat) acc = acc * 256 ^ t.length + beDec t := by
  induction t generalizing acc with
  | nil => simp [beDec]
  | cons b t ih =>
    simp only [List.foldl_cons, List.length_cons, beDec]
    rw [ih, ih (0 * 256 + b.toNat)]
    rw [Nat.pow_succ, Nat.add_mul]
    simp [Nat.mul_assoc, Nat.mul_comm 256, Nat.add_assoc]

theorem beDec_cons (b : UInt8) (t : Bytes) : beDec (b :: t) = b.toNat * 256 ^ t.length + beDec t := by
  simp only [beDec, List.foldl_cons]
  rw [beDec_foldl]; simp [beDec]

theorem beEnc_head (k n : Nat) (hk : 1 ≤ k) :
    (beEnc k n).head? = some (UInt8.ofNat (n / 256 ^ (k - 1) % 256)) := by
  induction k generalizing n with
  | zero => omega
  | succ k ih =>
    cases k with
    | zero => simp [beEnc]
    | succ k =>
      have := ih (n / 256) (by omega)
      simp only [beEnc] at this ⊢
      rw [List.head?_append]
      simp only [Nat.add_sub_cancel] at this ⊢
      rw [this]
      simp only [Option.some_or]
      rw [Nat.div_div_eq_div_mul, Nat.pow_succ, Nat.mul_comm]

/-! ### length octets -/

theorem lengthLength_of_bounds (k v : Nat) (hk : 1 ≤ k) (lo : k = 1 ∨ 256 ^ (k - 1) ≤ v) (hi : v < 256 ^ k) :
    lengthLength v = k := by
  induction k generalizing v with
  | zero => omega
  | succ k ih =>
    cases k with
    | zero =>
      unfold lengthLength
      have : ¬ 255 < v := by simp at hi; omega
      simp [this]
    | succ k =>
      have lo' : 256 ^ (k + 1) ≤ v := by
        rcases lo with h | h
        · omega
        · simpa using h
      have h256 : 256 ≤ v := by
        have : 256 ^ 1 ≤ 256 ^ (k + 1) := Nat.pow_le_pow_right (by omega) (by omega)
        omega
      unfold lengthLength
      have : 255 < v := by omega
      simp only [this, if_true]
      have := ih (v / 256) (by omega) (Or.inr (by
        simp only [Nat.add_sub_cancel]
        rw [Nat.pow_succ] at lo'
        exact (Nat.le_div_iff_mul_le (by omega)).mpr lo'))
        (by rw [Nat.pow_succ] at hi; exact Nat.div_lt_of_lt_mul (by rw [Nat.mul_comm]; exact hi))
      omega

theorem lengthLength_pos (n : Nat) : 1 ≤ lengthLength n := by
  unfold lengthLength; split <;> omega

theorem lengthLength_bounds (n : Nat) :
    (lengthLength n = 1 ∨ 256 ^ (lengthLength n - 1) ≤ n) ∧ n < 256 ^ (lengthLength n) := by
  induction n using Nat.strongRecOn with
  | _ n ih =>
    unfold lengthLength
    split
    · rename_i h
      have ⟨lo, hi⟩ := ih (n / 256) (Nat.div_lt_self (by omega) (by omega))
      have hp := lengthLength_pos (n / 256)
      constructor
      · right
        simp only [Nat.add_sub_cancel]
        rcases lo with h1 | h1
        · rw [h1]; simp; omega
        · have e : 256 ^ (lengthLength (n / 256)) = 256 ^ (lengthLength (n / 256) - 1) * 256 := by
            rw [← Nat.pow_succ]; congr 1; omega
          rw [e]
          generalize 256 ^ (lengthLength (n / 256) - 1) = P at h1 ⊢
          clear e hi ih hp
          omega
      · rw [Nat.pow_succ]
        generalize 256 ^ lengthLength (n / 256) = P at hi ⊢
        clear lo ih hp
        omega
    · rename_i h; simp; omega

theorem lengthLength_le4 (n : Nat) (h : n < 2 ^ 31) : lengthLength n ≤ 4 := by
  have ⟨lo, _⟩ := lengthLength_bounds n
  rcases lo with h1 | h1
  · omega
  · by_cases hk : lengthLength n ≤ 4
    · exact hk
    · have : 256 ^ 4 ≤ 256 ^ (lengthLength n - 1) := Nat.pow_le_pow_right (by omega) (by omega)
      omega

theorem lengthLength_mono {a b : Nat} (h : a ≤ b) : lengthLength a ≤ lengthLength b := by
  have ⟨loa, _⟩ := lengthLength_bounds a
  have ⟨_, hib⟩ := lengthLength_bounds b
  have hpa := lengthLength_pos a
  have hpb := lengthLength_pos b
  rcases loa with h1 | h1
  · omega
  · by_cases hk : lengthLength a ≤ lengthLength b
    · exact hk
    · have : 256 ^ (lengthLength b) ≤ 256 ^ (lengthLength a - 1) := Nat.pow_le_pow_right (by omega) (by omega)
      omega

theorem encLen_length (n : Nat) : (encLen n).length = if n < 128 then 1 else 1 + lengthLength n := by
  unfold encLen; split <;> simp [beEnc_length]; omega

theorem encLen_length_mono {a b : Nat} (h : a ≤ b) : (encLen a).length ≤ (encLen b).length := by
  rw [encLen_length, encLen_length]
  have := lengthLength_mono h
  have := lengthLength_pos b
  split <;> split <;> omega

theorem uint8_ofNat_toNat (x : Nat) (h : x < 256) : (UInt8.ofNat x).toNat = x := by
  simp [UInt8.toNat_ofNat']; omega

theorem parseLen_encLen (n : Nat) (r : Bytes) (h : n < 2 ^ 31) : parseLen (encLen n ++ r) = some (n, r) := by
  unfold encLen
  split
  · rename_i hs
    have h1 : (UInt8.ofNat n).toNat = n := uint8_ofNat_toNat n (by omega)
    have h2 : UInt8.ofNat n < 0x80 := by rw [UInt8.lt_iff_toNat_lt, h1]; simpa using hs
    simp [parseLen, h2, h1]
  · rename_i hs
    have hk4 := lengthLength_le4 n h
    have hk1 := lengthLength_pos n
    have ⟨lo, hi⟩ := lengthLength_bounds n
    generalize hk : lengthLength n = k at *
    have h1 : (UInt8.ofNat (0x80 + k)).toNat = 0x80 + k := uint8_ofNat_toNat _ (by omega)
    have h2 : ¬ UInt8.ofNat (0x80 + k) < 0x80 := by rw [UInt8.lt_iff_toNat_lt, h1]; simp
    have hlen : (beEnc k n).length = k := beEnc_length k n
    have htake : (beEnc k n ++ r).take k = beEnc k n := take_append_len _ _ _ hlen
    have hdrop : (beEnc k n ++ r).drop k = r := drop_append_len _ _ _ hlen
    have hdec : beDec (beEnc k n) = n := beDec_beEnc k n hi
    have hhead : (beEnc k n).head? ≠ some 0 := by
      rw [beEnc_head k n hk1]
      intro hc
      have hc' := congrArg (Option.map UInt8.toNat) hc
      simp only [Option.map_some] at hc'
      rw [uint8_ofNat_toNat _ (Nat.mod_lt _ (by omega))] at hc'
      simp at hc'
      have hdl : n / 256 ^ (k - 1) < 256 := by
        apply Nat.div_lt_of_lt_mul
        have : 256 ^ k = 256 ^ (k - 1) * 256 := by rw [← Nat.pow_succ]; congr 1; omega
        omega
      rw [Nat.mod_eq_of_lt hdl] at hc'
      have hz : n / 256 ^ (k - 1) = 0 := hc'
      rw [Nat.div_eq_zero_iff] at hz
      rcases lo with l1 | l1
      · subst l1; simp at hz; omega
      · rcases hz with hz | hz
        · have : 0 < 256 ^ (k - 1) := Nat.pow_pos (by omega)
          omega
        · omega
    simp only [parseLen, List.cons_append, h2, if_false, h1, Nat.add_sub_cancel_left, htake, hdrop, hdec]
    have hk0 : ¬ k = 0 := by omega
    have hl : ¬ (beEnc k n ++ r).length < k := by simp [hlen]
    have hn1 : ¬ n < 128 := hs
    have hn2 : ¬ 2 ^ 31 ≤ n := by omega
    simp [hk0, hhead, hn1, hn2]
    omega

theorem parseLen_eq {bs : Bytes} {n : Nat} {r : Bytes} (h : parseLen bs = some (n, r)) :
    bs = encLen n ++ r ∧ n < 2 ^ 31 := by
  cases bs with
  | nil => simp [parseLen] at h
  | cons b rest =>
    simp only [parseLen] at h
    split at h
    · rename_i hb
      simp at h; obtain ⟨rfl, rfl⟩ := h
      have hlt : b.toNat < 128 := by simpa [UInt8.lt_iff_toNat_lt] using hb
      refine ⟨?_, by omega⟩
      unfold encLen
      simp [hlt]
    · rename_i hb
      have hge : 128 ≤ b.toNat := by
        have : ¬ b.toNat < 128 := by simpa [UInt8.lt_iff_toNat_lt] using hb
        omega
      have hb256 := b.toNat_lt
      split at h
      · simp at h
      · rename_i hk0
        split at h
        · simp at h
        · rename_i hlen
          split at h
          · simp at h
          · rename_i hhead
            split at h
            · simp at h
            · rename_i h128
              split at h
              · simp at h
              · rename_i h31
                simp at h; obtain ⟨rfl, rfl⟩ := h
                generalize hk : b.toNat - 0x80 = k at *
                have hk1 : 1 ≤ k := by omega
                have hl : (rest.take k).length = k := by simp; omega
                generalize hlb : rest.take k = lb at *
                have hv := beDec_lt lb
                rw [hl] at hv
                have hlo : k = 1 ∨ 256 ^ (k - 1) ≤ beDec lb := by
                  cases lb with
                  | nil => simp at hl; omega
                  | cons x t =>
                    right
                    rw [beDec_cons]
                    simp at hl hhead
                    have hx : x.toNat ≠ 0 := by
                      intro hx0; apply hhead; exact UInt8.toNat_inj.mp (by simpa using hx0)
                    have : k - 1 = t.length := by omega
                    rw [this]
                    have : 1 * 256 ^ t.length ≤ x.toNat * 256 ^ t.length := Nat.mul_le_mul_right _ (by omega)
                    omega
                have hLL := lengthLength_of_bounds k (beDec lb) hk1 hlo hv
                refine ⟨?_, by omega⟩
                unfold encLen
                have : ¬ beDec lb < 128 := by omega
                simp only [this, if_false, hLL]
                have hbe : beEnc k (beDec lb) = lb := by rw [← hl]; exact beEnc_beDec lb
                rw [hbe]
                have hb' : UInt8.ofNat (0x80 + k) = b := by
                  apply UInt8.toNat_inj.mp
                  rw [uint8_ofNat_toNat _ (by omega)]; omega
                rw [hb']
                simp only [List.cons_append, List.cons.injEq, true_and]
                rw [← hlb]; exact (List.take_append_drop k rest).symm

/-! ### TLV -/

theorem encTlv_length (t : Tlv) : (encTlv t).length = t.tag.length + (encLen t.val.length).length + t.val.length := by
  simp [encTlv]; omega

theorem parseTlv_encTlv (t : Tlv) (r : Bytes) (h : t.ok = true) : parseTlv (encTlv t ++ r) = some (t, r) := by
  simp only [Tlv.ok, Bool.and_eq_true, decide_eq_true_eq] at h
  obtain ⟨hv, hl⟩ := h
  unfold parseTlv encTlv
  rw [List.append_assoc, List.append_assoc, parseTag_valid _ hv]
  simp only
  rw [parseLen_encLen _ _ hl]
  simp

theorem parseTlv_eq {bs : Bytes} {t : Tlv} {r : Bytes} (h : parseTlv bs = some (t, r)) :
    bs = encTlv t ++ r ∧ t.ok = true := by
  unfold parseTlv at h
  cases ht : parseTag bs with
  | none => simp [ht] at h
  | some p =>
    obtain ⟨tag, r1⟩ := p
    simp only [ht] at h
    cases hl : parseLen r1 with
    | none => simp [hl] at h
    | some q =>
      obtain ⟨n, r2⟩ := q
      simp only [hl] at h
      split at h
      · simp at h
      · rename_i hn
        simp at h; obtain ⟨rfl, rfl⟩ := h
        obtain ⟨h1, hv⟩ := parseTag_eq ht
        obtain ⟨h2, h31⟩ := parseLen_eq hl
        have hlen : (r2.take n).length = n := by simp; omega
        refine ⟨?_, ?_⟩
        · simp only [encTlv, hlen]
          rw [h1, h2]; simp [List.take_append_drop]
        · simp [Tlv.ok, hv, hlen, h31]

theorem encTlv_ne_nil (t : Tlv) (h : t.ok = true) : encTlv t ≠ [] := by
  intro hc
  have := parseTlv_encTlv t [] h
  simp [hc, parseTlv, parseTag] at this

theorem concatTlvs_cons (t : Tlv) (ts : List Tlv) : concatTlvs (t :: ts) = encTlv t ++ concatTlvs ts := by
  simp [concatTlvs]

theorem concatTlvs_append (a b : List Tlv) : concatTlvs (a ++ b) = concatTlvs a ++ concatTlvs b := by
  simp [concatTlvs]

theorem splitTlvsF_concat (ts : List Tlv) (f : Nat) (hok : ∀ t ∈ ts, t.ok = true)
    (hf : (concatTlvs ts).length ≤ f) : splitTlvsF f (concatTlvs ts) = some ts := by
  induction ts generalizing f with
  | nil => cases f <;> simp [concatTlvs, splitTlvsF]
  | cons t ts ih =>
    rw [concatTlvs_cons] at hf ⊢
    have hto := hok t (by simp)
    have hne := encTlv_ne_nil t hto
    cases hc : encTlv t ++ concatTlvs ts with
    | nil => simp at hc; exact absurd hc.1 hne
    | cons b bs =>
      have hlen : 1 ≤ (encTlv t).length := by
        cases he : encTlv t with
        | nil => exact absurd he hne
        | cons _ _ => simp
      cases f with
      | zero => rw [List.length_append] at hf; omega
      | succ f =>
        simp only [splitTlvsF]
        rw [← hc, parseTlv_encTlv t _ hto]
        simp only
        rw [ih f (fun x hx => hok x (by simp [hx])) (by rw [List.length_append] at hf; omega)]

theorem splitTlvs_concat (ts : List Tlv) (hok : ∀ t ∈ ts, t.ok = true) : splitTlvs (concatTlvs ts) = some ts :=
  splitTlvsF_concat ts _ hok (Nat.le_refl _)

theorem splitTlvsF_eq (f : Nat) {bs : Bytes} {ts : List Tlv} (h : splitTlvsF f bs = some ts) :
    bs = concatTlvs ts ∧ ∀ t ∈ ts, t.ok = true := by
  induction f generalizing bs ts with
  | zero =>
    cases bs with
    | nil => simp [splitTlvsF] at h; subst h; simp [concatTlvs]
    | cons b bs => simp [splitTlvsF] at h
  | succ f ih =>
    cases bs with
    | nil => simp [splitTlvsF] at h; subst h; simp [concatTlvs]
    | cons b bs =>
      simp only [splitTlvsF] at h
      cases hp : parseTlv (b :: bs) with
      | none => simp [hp] at h
      | some p =>
        obtain ⟨t, r⟩ := p
        simp only [hp] at h
        cases hs : splitTlvsF f r with
        | none => simp [hs] at h
        | some l =>
          simp only [hs] at h
          simp at h; subst h
          obtain ⟨h1, h2⟩ := parseTlv_eq hp
          obtain ⟨h3, h4⟩ := ih hs
          refine ⟨by rw [concatTlvs_cons, h1, h3], ?_⟩
          intro x hx
          simp at hx
          rcases hx with rfl | hx
          · exact h2
          · exact h4 x hx

theorem splitTlvs_eq {bs : Bytes} {ts : List Tlv} (h : splitTlvs bs = some ts) :
    bs = concatTlvs ts ∧ ∀ t ∈ ts, t.ok = true := splitTlvsF_eq _ h

theorem parseOne_encTlv (t : Tlv) (h : t.ok = true) : parseOne (encTlv t) = some t := by
  have := parseTlv_encTlv t [] h
  simp only [List.append_nil] at this
  simp [parseOne, this]

theorem parseOne_eq {bs : Bytes} {t : Tlv} (h : parseOne bs = some t) : bs = encTlv t ∧ t.ok = true := by
  unfold parseOne at h
  split at h
  · rename_i t' hp
    simp at h; subst h
    have := parseTlv_eq hp
    simpa using this
  · simp at h

/-- encodings are unique: two TLVs with the same encoding (followed by the same rest) are equal -/
theorem encTlv_inj {a b : Tlv} (ha : a.ok = true) (hb : b.ok = true) (h : encTlv a = encTlv b) : a = b := by
  have h1 := parseOne_encTlv a ha
  have h2 := parseOne_encTlv b hb
  rw [h] at h1
  rw [h1] at h2
  exact Option.some.inj h2

theorem encTlv_length_mono (tag : Bytes) {a b : Bytes} (h : a.length ≤ b.length) :
    (encTlv ⟨tag, a⟩).length ≤ (encTlv ⟨tag, b⟩).length := by
  rw [encTlv_length, encTlv_length]
  have := encLen_length_mono h
  simp only
  omega

end CTV.Tbs
