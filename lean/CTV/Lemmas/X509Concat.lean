import CTV.Model.X509Wrap
import CTV.Lemmas.DerLocal
/-! Lemmas for the concatenation law of `ParseCertificates`. -/
namespace CTV.Model.X509
open CTV CTV.Der

theorem forMode_of_notCanon (d : Dialect) (m : Mode) (h : m.isCanon = false) : d.forMode m = d := by
  unfold Dialect.forMode; simp [h]

/-- a struct element that fills its input exactly is decoded the same way, in both modes, when more octets follow -/
theorem struct_local (d : Dialect) (m m' : Mode) (hm : m.isCanon = false) (hm' : m'.isCanon = false) (raw : Bool) (fs : AFields)
    (c more : Bytes) (v : AVal) (h : parseField d m (.struct raw fs) {} c = .ok (v, [])) :
    parseField d m' (.struct raw fs) {} (c ++ more) =
      (match parseField d m' (.struct raw fs) {} c with
       | .ok (v', _) => .ok (v', more)
       | .error e => .error e) := by
  simp only [parseField] at h ⊢
  cases fieldShell_ok _ _ _ _ _ _ _ _ h with
  | emptyAbsent _ ho _ _ _ => cases ho
  | any ha _ _ => cases ha
  | absent _ ho _ _ _ => cases ho
  | flagSet hh _ _ =>
    unfold header at hh
    cases h0 : parseTagLen (d.forMode m) c with
    | error e => rw [h0] at hh; cases hh
    | ok x =>
      rw [h0] at hh
      simp only [Bool.false_eq_true, if_false] at hh
      exact absurd hh (headerBody_notFlag _ _ _ _ _ _ _)
  | body tl utag inner consumed outer hh _ _ =>
    rw [forMode_of_notCanon d m hm] at hh
    have hh' : header (d.forMode m') (.struct raw fs) {} c = .ok (.body tl utag inner [] consumed outer) := by
      rw [forMode_of_notCanon d m' hm']; exact hh
    exact fieldShell_append d m' (.struct raw fs) {} c more rfl rfl tl utag inner consumed outer hh' _

theorem cert_local (d : Dialect) (m m' : Mode) (hm : m.isCanon = false) (hm' : m'.isCanon = false) (c more : Bytes) (v : AVal)
    (h : parseField d m Gen.ty_certificate {} c = .ok (v, [])) :
    parseField d m' Gen.ty_certificate {} (c ++ more) =
      (match parseField d m' Gen.ty_certificate {} c with
       | .ok (v', _) => .ok (v', more)
       | .error e => .error e) := by
  unfold Gen.ty_certificate at h ⊢
  exact struct_local d m m' hm hm' _ _ c more v h

theorem cert_nonempty (d : Dialect) (m : Mode) (c : Bytes) (v : AVal) (r : Bytes)
    (h : parseField d m Gen.ty_certificate {} c = .ok (v, r)) : r.length + 2 ≤ c.length := by
  obtain ⟨pre, e, hl⟩ := parseField_shrinks d m _ _ _ _ _ h
  rcases hl with hl | ⟨ho, _⟩
  · rw [e]; simp; omega
  · cases ho

/-- envelope value and "needed the lax fallback" of one certificate -/
def certVal (d : Dialect) (c : Bytes) : AVal × Bool :=
  match strictThenLax d Gen.ty_certificate c with
  | some (v, _, l) => (v, l)
  | none => (.bool false, false)

def countLax (d : Dialect) : List Bytes → Nat
  | [] => 0
  | c :: cs => (if (certVal d c).2 then 1 else 0) + countLax d cs

def concatAllB : List Bytes → Bytes
  | [] => []
  | c :: cs => c ++ concatAllB cs

/-- with the retry repaired, the first loop of `ParseCertificates` splits a concatenation of certificates into
exactly the envelopes of the pieces and counts the pieces that needed `lax` -/
theorem splitCertificates_concat (d : Dialect) : ∀ (cs : List Bytes) (fuel : Nat),
    (∀ c ∈ cs, ∃ v l, strictThenLax d Gen.ty_certificate c = some (v, [], l)) →
    (concatAllB cs).length < fuel →
    splitCertificates d true fuel (concatAllB cs) = some (cs.map fun c => (certVal d c).1, countLax d cs)
  | [], fuel, _, hf => by
    cases fuel with
    | zero => simp [concatAllB] at hf
    | succ f => simp [concatAllB, splitCertificates, countLax]
  | c :: cs, fuel, hcs, hf => by
    obtain ⟨v, l, hc⟩ := hcs c (List.mem_cons_self ..)
    have hrest : ∀ x ∈ cs, ∃ v l, strictThenLax d Gen.ty_certificate x = some (v, [], l) :=
      fun x hx => hcs x (List.mem_cons_of_mem _ hx)
    cases fuel with
    | zero => omega
    | succ f =>
      simp only [concatAllB] at hf ⊢
      have hcv : certVal d c = (v, l) := by unfold certVal; rw [hc]
      unfold strictThenLax at hc
      cases hs : parseField d .strict Gen.ty_certificate {} c with
      | ok x =>
        obtain ⟨v', r'⟩ := x
        rw [hs] at hc
        simp only [Option.some.injEq, Prod.mk.injEq] at hc
        obtain ⟨rfl, rfl, rfl⟩ := hc
        have hlen := cert_nonempty d _ _ _ _ hs
        have hne : c ++ concatAllB cs ≠ [] := by
          intro h
          have hc0 : c = [] := (List.append_eq_nil_iff.mp h).1
          subst hc0; simp at hlen
        have hloc := cert_local d .strict .strict rfl rfl c (concatAllB cs) _ hs
        rw [hs] at hloc
        simp only [] at hloc
        have ih := splitCertificates_concat d cs f hrest (by have e1 : (c ++ concatAllB cs).length = c.length + (concatAllB cs).length := List.length_append; have e2 : 2 ≤ c.length := (by simpa using hlen); omega)
        cases hcc : c ++ concatAllB cs with
        | nil => exact absurd hcc hne
        | cons b bs =>
          rw [hcc] at hloc
          simp only [splitCertificates, hloc, ih, List.map_cons, hcv, countLax]
          simp
      | error e =>
        rw [hs] at hc
        simp only [] at hc
        cases hl : parseField d .lax Gen.ty_certificate {} c with
        | error e' => rw [hl] at hc; cases hc
        | ok x =>
          obtain ⟨v', r'⟩ := x
          rw [hl] at hc
          simp only [Option.some.injEq, Prod.mk.injEq] at hc
          obtain ⟨rfl, rfl, rfl⟩ := hc
          have hlen := cert_nonempty d _ _ _ _ hl
          have hne : c ++ concatAllB cs ≠ [] := by
            intro h
            have hc0 : c = [] := (List.append_eq_nil_iff.mp h).1
            subst hc0; simp at hlen
          have hlocS := cert_local d .lax .strict rfl rfl c (concatAllB cs) _ hl
          have hlocL := cert_local d .lax .lax rfl rfl c (concatAllB cs) _ hl
          rw [hs] at hlocS
          rw [hl] at hlocL
          simp only [] at hlocS hlocL
          have ih := splitCertificates_concat d cs f hrest (by have e1 : (c ++ concatAllB cs).length = c.length + (concatAllB cs).length := List.length_append; have e2 : 2 ≤ c.length := (by simpa using hlen); omega)
          cases hcc : c ++ concatAllB cs with
          | nil => exact absurd hcc hne
          | cons b bs =>
            rw [hcc] at hlocS hlocL
            simp only [splitCertificates, hlocS, hlocL, ih, List.map_cons, hcv, countLax, if_true]
            simp; omega

theorem innerAllR_mergeHead (r : Ret) (n : Nat) (rest : List Ret) (acc : Nat) :
    innerAllR (mergeInner r n :: rest) acc =
      (match r.err with
       | .nil => innerAllR rest (acc + n)
       | .nonFatalErrors k => innerAllR rest (acc + (n + k))
       | e => ⟨false, e⟩) := by
  cases he : r.err with
  | nil =>
    simp only [mergeInner, he, finish]
    by_cases hn : n > 0
    · simp only [hn, if_true, innerAllR]
    · have : n = 0 := by omega
      subst this; simp only [Nat.lt_irrefl, if_false, innerAllR, Nat.add_zero]
  | nonFatalErrors k =>
    simp only [mergeInner, he, finish]
    by_cases hn : n + k > 0
    · simp only [hn, if_true, innerAllR]
    · have : n + k = 0 := by omega
      rw [this]; simp only [Nat.lt_irrefl, if_false, innerAllR, Nat.add_zero]
  | plain => simp only [mergeInner, he, innerAllR]
  | nonFatalErrorsPtr k => simp only [mergeInner, he, innerAllR]
  | errorsPtr fs => simp only [mergeInner, he, innerAllR]

/-- merging per certificate and then combining is the same as combining the payload results on top of the
number of lax fallbacks -/
theorem innerAllR_merge (inner : AVal → Ret) : ∀ (xs : List (AVal × Bool)) (acc : Nat),
    innerAllR (xs.map fun x => mergeInner (inner x.1) (if x.2 then 1 else 0)) acc =
    innerAllR (xs.map fun x => inner x.1) (acc + (xs.filter (·.2)).length)
  | [], acc => by simp [innerAllR]
  | (v, l) :: xs, acc => by
    rw [List.map_cons, innerAllR_mergeHead, List.map_cons]
    simp only [innerAllR]
    cases he : (inner v).err with
    | nil =>
      simp only []
      rw [innerAllR_merge inner xs]
      cases l <;> simp [Nat.add_assoc, Nat.add_comm]
    | nonFatalErrors k =>
      simp only []
      rw [innerAllR_merge inner xs]
      cases l <;> simp <;> congr 1 <;> omega
    | plain => rfl
    | nonFatalErrorsPtr k => rfl
    | errorsPtr fs => rfl

/-- the fuel of the first loop of `ParseCertificates` is immaterial once it exceeds the input length: the `none` it can
return is never fuel exhaustion (every accepted envelope consumes at least two octets) -/
theorem splitCertificates_fuel (d : Dialect) (k : Bool) : ∀ (f f' : Nat) (bs : Bytes), bs.length < f → bs.length < f' →
    splitCertificates d k f bs = splitCertificates d k f' bs
  | 0, _, _, h, _ => by omega
  | _, 0, _, _, h => by omega
  | f+1, f'+1, [], _, _ => by simp [splitCertificates]
  | f+1, f'+1, b :: bs, h, h' => by
    simp only [splitCertificates]
    cases hs : parseField d .strict Gen.ty_certificate {} (b :: bs) with
    | ok x =>
      obtain ⟨v, r⟩ := x
      have hl := cert_nonempty d _ _ _ _ hs
      simp only []
      rw [splitCertificates_fuel d k f f' r (by omega) (by omega)]
    | error e =>
      simp only []
      cases k with
      | false => rfl
      | true =>
        simp only [if_true]
        cases hl : parseField d .lax Gen.ty_certificate {} (b :: bs) with
        | error e' => rfl
        | ok x =>
          obtain ⟨v, r⟩ := x
          have hlen := cert_nonempty d _ _ _ _ hl
          simp only []
          rw [splitCertificates_fuel d true f f' r (by omega) (by omega)]

theorem countLax_eq (d : Dialect) : ∀ cs : List Bytes, countLax d cs = ((cs.map (certVal d)).filter (·.2)).length
  | [] => rfl
  | c :: cs => by
    simp only [countLax, List.map_cons, countLax_eq d cs]
    cases hb : (certVal d c).2
    · simp [List.filter_cons, hb]
    · simp [List.filter_cons, hb]; omega

end CTV.Model.X509
