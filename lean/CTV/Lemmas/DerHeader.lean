import CTV.Lemmas.DerTotal
import Mathlib.Tactic.Ring
/-!
# Header round trip: a header accepted with minimal base-128 is exactly what `encTagLen` writes.
-/
namespace CTV.Der

/-- value of little-endian digits -/
def ofLE (base : Nat) : List Nat → Nat
  | [] => 0
  | d :: ds => d + base * ofLE base ds

theorem ofLE_pos (base : Nat) (hb : 2 ≤ base) : ∀ (ds : List Nat), ds ≠ [] → ds.getLast? ≠ some 0 → 0 < ofLE base ds
  | [], h, _ => absurd rfl h
  | [x], _, hl => by
    simp [ofLE] at hl ⊢; omega
  | x :: y :: rest, _, hl => by
    have hl' : (y :: rest).getLast? ≠ some 0 := by simpa [List.getLast?_cons_cons] using hl
    have := ofLE_pos base hb (y :: rest) (by simp) hl'
    simp only [ofLE] at this ⊢
    have : 0 < base * (y + base * ofLE base rest) := Nat.mul_pos (by omega) this
    omega

/-- minimal digit strings are what `digitsRev` produces -/
theorem digitsRev_ofLE (base : Nat) (hb : 2 ≤ base) : ∀ (ds : List Nat) (fuel : Nat), ds ≠ [] → (∀ d ∈ ds, d < base) →
    (ds.length > 1 → ds.getLast? ≠ some 0) → ofLE base ds < fuel → digitsRev base fuel (ofLE base ds) = ds
  | [], _, h, _, _, _ => absurd rfl h
  | [x], fuel, _, hlt, _, hf => by
    cases fuel with
    | zero => omega
    | succ f =>
      have hx : x < base := hlt x (by simp)
      simp [digitsRev, ofLE, hx]
  | x :: y :: rest, fuel, _, hlt, hl, hf => by
    cases fuel with
    | zero => omega
    | succ f =>
      have hx : x < base := hlt x (by simp)
      have hl' : (y :: rest).getLast? ≠ some 0 := by
        have := hl (by simp)
        simpa [List.getLast?_cons_cons] using this
      have hpos := ofLE_pos base hb (y :: rest) (by simp) hl'
      have hval : ofLE base (x :: y :: rest) = x + base * ofLE base (y :: rest) := rfl
      have hge : ¬ ofLE base (x :: y :: rest) < base := by
        rw [hval]
        have : base * 1 ≤ base * ofLE base (y :: rest) := Nat.mul_le_mul_left _ hpos
        omega
      have hmod : ofLE base (x :: y :: rest) % base = x := by
        rw [hval, Nat.add_mul_mod_self_left, Nat.mod_eq_of_lt hx]
      have hdiv : ofLE base (x :: y :: rest) / base = ofLE base (y :: rest) := by
        rw [hval, Nat.add_mul_div_left _ _ (by omega : 0 < base), Nat.div_eq_of_lt hx, Nat.zero_add]
      rw [digitsRev, if_neg hge, hmod, hdiv]
      congr 1
      apply digitsRev_ofLE base hb (y :: rest) f (by simp) (fun d hd => hlt d (List.mem_cons_of_mem _ hd))
      · intro _; exact hl'
      · rw [hval] at hf
        have : 2 * ofLE base (y :: rest) ≤ base * ofLE base (y :: rest) := Nat.mul_le_mul_right _ hb
        omega

/-- big-endian bytes as little-endian digit list -/
def leDigits (bs : Bytes) : List Nat := (bs.map (·.toNat)).reverse

theorem beDec_eq_ofLE (bs : Bytes) : beDec bs = ofLE 256 (leDigits bs) := by
  induction bs using rev_ind with
  | nil => rfl
  | snoc bs b ih =>
    rw [beDec_append_single, ih]
    simp [leDigits, ofLE]
    omega

theorem beDec_foldl (ds : Bytes) : ∀ a : Nat, ds.foldl (fun acc b => acc * 256 + b.toNat) a = a * 256 ^ ds.length + beDec ds := by
  induction ds with
  | nil => intro a; simp [beDec]
  | cons x xs ih =>
    intro a
    simp only [List.foldl_cons, List.length_cons, beDec]
    rw [ih (a * 256 + x.toNat), ih (0 * 256 + x.toNat)]
    simp only [beDec]
    ring

theorem beDec_cons (b : UInt8) (ds : Bytes) : beDec (b :: ds) = b.toNat * 256 ^ ds.length + beDec ds := by
  have := beDec_foldl ds (0 * 256 + b.toNat)
  simp only [beDec, List.foldl_cons] at this ⊢
  rw [this]; ring

/-- the loop of the long form reads exactly `n` octets; the running value is never zero, so the first octet is not zero -/
theorem parseLongLen_spec : ∀ (n acc : Nat) (bs : Bytes) (v : Nat) (r : Bytes), parseLongLen n acc bs = .ok (v, r) →
    ∃ ds : Bytes, bs = ds ++ r ∧ ds.length = n ∧ v = acc * 256 ^ n + beDec ds ∧
      (acc = 0 → n > 0 → ∃ b rest, ds = b :: rest ∧ b.toNat ≠ 0)
  | 0, acc, bs, v, r, h => by
    simp [parseLongLen] at h
    obtain ⟨rfl, rfl⟩ := h
    exact ⟨[], rfl, rfl, by simp [beDec], fun _ h => absurd h (by omega)⟩
  | n+1, _, [], _, _, h => by simp [parseLongLen] at h
  | n+1, acc, b :: bs, v, r, h => by
    simp only [parseLongLen] at h
    by_cases h1 : acc ≥ 2^23
    · rw [if_pos h1] at h; cases h
    · rw [if_neg h1] at h
      by_cases h2 : acc * 256 + b.toNat = 0
      · rw [if_pos h2] at h; cases h
      · rw [if_neg h2] at h
        obtain ⟨ds, rfl, hl, hv, _⟩ := parseLongLen_spec n _ bs v r h
        refine ⟨b :: ds, rfl, by simp [hl], ?_, ?_⟩
        · rw [hv, beDec_cons, hl]; ring
        · intro ha _
          subst ha
          exact ⟨b, ds, rfl, by omega⟩

theorem map_ofNat_toNat (bs : Bytes) : (bs.map (·.toNat)).map UInt8.ofNat = bs := by
  induction bs with
  | nil => rfl
  | cons b bs ih => simp [ih]

/-- minimal big-endian bytes are what `digitsBE 256` produces -/
theorem digitsBE_beDec (b : UInt8) (rest : Bytes) (hb : b.toNat ≠ 0) :
    (digitsBE 256 (beDec (b :: rest))).map UInt8.ofNat = b :: rest := by
  unfold digitsBE
  rw [beDec_eq_ofLE]
  rw [digitsRev_ofLE 256 (by omega) (leDigits (b :: rest)) _ (by simp [leDigits])]
  · simp only [leDigits, List.reverse_reverse]
    exact map_ofNat_toNat _
  · intro d hd
    simp only [leDigits, List.mem_reverse, List.mem_map] at hd
    obtain ⟨x, _, rfl⟩ := hd
    exact x.toNat_lt
  · intro _
    simp [leDigits, hb]
  · omega

/-- **length octets**: what `parseLen` accepts is exactly what `encLen` writes -/
theorem parseLen_roundtrip (bs : Bytes) (n : Nat) (r : Bytes) (h : parseLen bs = .ok (n, r)) : bs = encLen n ++ r := by
  match bs, h with
  | [], h => simp [parseLen] at h
  | l :: r0, h =>
    simp only [parseLen] at h
    by_cases h1 : l.toNat < 128
    · rw [if_pos h1] at h
      cases h
      simp [encLen, h1]
    · rw [if_neg h1] at h
      by_cases h2 : l.toNat % 128 = 0
      · rw [if_pos h2] at h; cases h
      · rw [if_neg h2] at h
        cases h3 : parseLongLen (l.toNat % 128) 0 r0 with
        | error e => rw [h3] at h; cases h
        | ok x =>
          obtain ⟨len, r'⟩ := x
          rw [h3] at h
          simp only [] at h
          by_cases h4 : len < 128
          · rw [if_pos h4] at h; cases h
          · rw [if_neg h4] at h
            cases h
            obtain ⟨ds, rfl, hl, hv, hhead⟩ := parseLongLen_spec _ _ _ _ _ h3
            obtain ⟨b, rest, rfl, hb⟩ := hhead rfl (by omega)
            simp only [Nat.zero_mul, Nat.zero_add] at hv
            subst hv
            simp only [encLen, h4, if_false]
            rw [digitsBE_beDec b rest hb]
            have hll := l.toNat_lt
            have : UInt8.ofNat (128 + (b :: rest).length) = l := by
              rw [hl]
              have : 128 + l.toNat % 128 = l.toNat := by omega
              rw [this]; simp
            rw [this]; rfl

theorem ofLE_append_single (base : Nat) (xs : List Nat) (d : Nat) : ofLE base (xs ++ [d]) = ofLE base xs + d * base ^ xs.length := by
  induction xs with
  | nil => simp [ofLE]
  | cons x xs ih =>
    simp only [List.cons_append, ofLE, ih, List.length_cons]
    ring

/-- the 7-bit digits (most significant first) of the continuation octets -/
def low7 (init : Bytes) : List Nat := init.map (·.toNat % 128)

/-- what `parseBase128Int` reads: continuation octets, then a final octet; the value in little-endian 7-bit digits -/
theorem parseBase128Go_spec (d : Dialect) : ∀ (bs : Bytes) (s acc v : Nat) (r : Bytes), parseBase128Go d s acc bs = .ok (v, r) →
    ∃ (init : Bytes) (last : UInt8), bs = init ++ last :: r ∧ (∀ b ∈ init, b.toNat ≥ 128) ∧ last.toNat < 128 ∧
      v = ofLE 128 (last.toNat :: (low7 init).reverse) + acc * 128 ^ (init.length + 1) ∧
      (d.b128min = true → s = 0 → ∀ b rest', init = b :: rest' → b.toNat ≠ 128)
  | [], _, _, _, _, h => by simp [parseBase128Go] at h
  | b :: bs, s, acc, v, r, h => by
    simp only [parseBase128Go] at h
    by_cases h1 : s = 5
    · rw [if_pos h1] at h; cases h
    · rw [if_neg h1] at h
      by_cases h2 : (d.b128min && s == 0 && b == 0x80) = true
      · rw [if_pos h2] at h; cases h
      · rw [if_neg h2] at h
        by_cases h3 : b.toNat < 128
        · rw [if_pos h3] at h
          by_cases h4 : acc * 128 + b.toNat % 128 > 2147483647
          · rw [if_pos h4] at h; cases h
          · rw [if_neg h4] at h
            cases h
            refine ⟨[], b, rfl, by simp, h3, ?_, by intro _ _ b' r' hh; cases hh⟩
            simp [ofLE, low7]; omega
        · rw [if_neg h3] at h
          obtain ⟨init, last, rfl, hinit, hlast, hv, _⟩ := parseBase128Go_spec d bs _ _ v r h
          refine ⟨b :: init, last, rfl, ?_, hlast, ?_, ?_⟩
          · intro x hx
            cases hx with
            | head => omega
            | tail _ hx => exact hinit x hx
          · rw [hv]
            simp only [low7, List.map_cons, List.reverse_cons, List.length_cons]
            have := ofLE_append_single 128 (last.toNat :: (List.map (fun x => x.toNat % 128) init).reverse) (b.toNat % 128)
            simp only [List.cons_append] at this
            rw [this]
            simp only [List.length_cons, List.length_reverse, List.length_map]
            ring
          · intro hd hs b' r' hh
            cases hh
            intro hb
            apply h2
            have : b = 0x80 := by
              apply UInt8.toNat_inj.mp
              simpa using hb
            simp [hd, hs, this]

theorem encBase128_of_digits (lo : Nat) (his : List Nat) (n : Nat) (h : digitsRev 128 (n + 1) n = lo :: his) :
    encBase128 n = (his.reverse.map fun d => UInt8.ofNat (128 + d)) ++ [UInt8.ofNat lo] := by
  unfold encBase128; rw [h]

/-- **base-128 round trip**: what the minimal-form parser accepts from a fresh start is what `encBase128` writes -/
theorem parseBase128_roundtrip (d : Dialect) (hd : d.b128min = true) (bs : Bytes) (v : Nat) (r : Bytes)
    (h : parseBase128 d bs = .ok (v, r)) : bs = encBase128 v ++ r := by
  obtain ⟨init, last, rfl, hinit, hlast, hv, hmin⟩ := parseBase128Go_spec d bs 0 0 v r h
  simp only [Nat.zero_mul, Nat.add_zero] at hv
  have hdig : digitsRev 128 (v + 1) v = last.toNat :: (low7 init).reverse := by
    rw [hv]
    apply digitsRev_ofLE 128 (by omega) _ _ (by simp)
    · intro x hx
      rcases List.mem_cons.mp hx with rfl | hx
      · exact hlast
      · rw [List.mem_reverse] at hx
        simp only [low7, List.mem_map] at hx
        obtain ⟨y, _, rfl⟩ := hx
        omega
    · intro hlen
      cases init with
      | nil => simp [low7] at hlen
      | cons b rest' =>
        have hb := hmin hd rfl b rest' rfl
        have hb2 := hinit b (by simp)
        have hbl := b.toNat_lt
        simp only [low7, List.map_cons, List.reverse_cons]
        rw [← List.cons_append, List.getLast?_append]
        simp
        omega
    · omega
  rw [encBase128_of_digits _ _ _ hdig]
  simp only [List.reverse_reverse, low7, List.map_map, List.append_assoc, List.singleton_append]
  congr 1
  · have : ∀ (l : Bytes), (∀ b ∈ l, b.toNat ≥ 128) → l.map ((fun d => UInt8.ofNat (128 + d)) ∘ fun x => x.toNat % 128) = l := by
      intro l hl
      induction l with
      | nil => rfl
      | cons x xs ih =>
        have hx := hl x (by simp)
        have hxl := x.toNat_lt
        simp only [List.map_cons, Function.comp]
        rw [ih (fun b hb => hl b (List.mem_cons_of_mem _ hb))]
        congr 1
        have : 128 + x.toNat % 128 = x.toNat := by omega
        rw [this]; simp
    exact (this init hinit).symm
  · simp

theorem identifier_octet (b : UInt8) (t : Nat) (ht : t = b.toNat % 32) :
    UInt8.ofNat (b.toNat / 64 * 64 + (if ((b.toNat / 32) % 2 == 1) = true then 32 else 0) + t) = b := by
  have hb := b.toNat_lt
  have : b.toNat / 64 * 64 + (if ((b.toNat / 32) % 2 == 1) = true then 32 else 0) + t = b.toNat := by
    subst ht
    by_cases h : (b.toNat / 32) % 2 = 1
    · simp [h]; omega
    · simp [h]; omega
  rw [this]; simp

/-- **identifier octets**: what `parseTag` accepts (minimal base-128) is what `encTag` writes -/
theorem parseTag_roundtrip (d : Dialect) (hd : d.b128min = true) (bs : Bytes) (c : Nat) (k : Bool) (t : Nat) (r : Bytes)
    (h : parseTag d bs = .ok (c, k, t, r)) : bs = encTag c k t ++ r := by
  match bs, h with
  | [], h => simp [parseTag] at h
  | b :: rest, h =>
    simp only [parseTag] at h
    by_cases h1 : b.toNat % 32 = 31
    · rw [if_pos h1] at h
      cases h2 : parseBase128 d rest with
      | error e => rw [h2] at h; cases h
      | ok x =>
        obtain ⟨tg, r'⟩ := x
        rw [h2] at h
        simp only [] at h
        by_cases h3 : tg < 31
        · rw [if_pos h3] at h; cases h
        · rw [if_neg h3] at h
          cases h
          have hge : t ≥ 31 := by omega
          have hrt := parseBase128_roundtrip d hd _ _ _ h2
          have hid := identifier_octet b 31 h1.symm
          simp only [encTag]
          rw [if_pos hge]
          simp only [List.cons_append]
          rw [← hrt]
          congr 1
          exact hid.symm
    · rw [if_neg h1] at h
      cases h
      have hlt : ¬ b.toNat % 32 ≥ 31 := by omega
      have hid := identifier_octet b (b.toNat % 32) rfl
      simp only [encTag]
      rw [if_neg hlt]
      simp only [List.singleton_append]
      congr 1
      exact hid.symm

/-- **header round trip**: a header accepted with minimal base-128 is exactly `encTagLen` of what was read. -/
theorem parseTagLen_roundtrip (d : Dialect) (hd : d.b128min = true) (bs : Bytes) (tl : TL) (r : Bytes)
    (h : parseTagLen d bs = .ok (tl, r)) : bs = encTagLen tl ++ r := by
  unfold parseTagLen at h
  cases h1 : parseTag d bs with
  | error e => rw [h1] at h; cases h
  | ok x =>
    obtain ⟨c, k, t, r1⟩ := x
    rw [h1] at h
    simp only [] at h
    cases h2 : parseLen r1 with
    | error e => rw [h2] at h; cases h
    | ok y =>
      obtain ⟨len, r2⟩ := y
      rw [h2] at h
      cases h
      rw [parseTag_roundtrip d hd _ _ _ _ _ h1, parseLen_roundtrip _ _ _ h2]
      simp [encTagLen]

end CTV.Der
