import CTV.Model.ChainStore
/-! DER round trip of `SEQUENCE OF SEQUENCE { OCTET STRING }` as the model writes / reads it (C14). -/
namespace CTV.Model.ChainStore
open CTV

theorem ofNat_toNat_lt (n : Nat) (h : n < 256) : (UInt8.ofNat n).toNat = n := by
  simp [UInt8.toNat_ofNat']; omega

theorem beDec_minBE (f n : Nat) (h : n < 256 ^ f) : beDec (minBE f n) = n := by
  induction f generalizing n with
  | zero => simp at h; subst h; rfl
  | succ f ih =>
    unfold minBE
    by_cases h0 : n = 0
    · simp [h0, beDec]
    · simp only [h0, if_false]
      rw [beDec_append_single, ih (n / 256) (by rw [Nat.pow_succ] at h; exact Nat.div_lt_of_lt_mul (by omega)),
        ofNat_toNat_lt _ (Nat.mod_lt _ (by decide))]
      omega

theorem minBE_length_le (f n k : Nat) (h : n < 256 ^ k) : (minBE f n).length ≤ k := by
  induction f generalizing n k with
  | zero => simp [minBE]
  | succ f ih =>
    unfold minBE
    by_cases h0 : n = 0
    · simp [h0]
    · simp only [h0, if_false, List.length_append, List.length_singleton]
      cases k with
      | zero => simp at h; omega
      | succ k =>
        have := ih (n / 256) k (by rw [Nat.pow_succ] at h; exact Nat.div_lt_of_lt_mul (by omega))
        omega

theorem minBE_ne_nil (f n : Nat) (hn : 0 < n) : minBE (f + 1) n ≠ [] := by
  unfold minBE
  have : n ≠ 0 := by omega
  simp [this]

theorem minBE_head (f n : Nat) (hn : 0 < n) (h : n < 256 ^ f) : (minBE f n).head? ≠ some 0 := by
  induction f generalizing n with
  | zero => simp at h; omega
  | succ f ih =>
    unfold minBE
    have hn0 : n ≠ 0 := by omega
    simp only [hn0, if_false]
    by_cases hq : n / 256 = 0
    · have hlt : n < 256 := by omega
      have hm : minBE f (n / 256) = [] := by
        rw [hq]; cases f <;> simp [minBE]
      rw [hm]
      simp only [List.nil_append, List.head?_cons, ne_eq, Option.some.injEq]
      intro he
      have := congrArg UInt8.toNat he
      rw [ofNat_toNat_lt _ (Nat.mod_lt _ (by decide))] at this
      simp at this; omega
    · have hpos : 0 < n / 256 := by omega
      have hlt : n / 256 < 256 ^ f := by rw [Nat.pow_succ] at h; exact Nat.div_lt_of_lt_mul (by omega)
      have hne : minBE f (n / 256) ≠ [] := by
        cases f with
        | zero => simp at hlt; omega
        | succ f => exact minBE_ne_nil f _ hpos
      have := ih (n / 256) hpos hlt
      cases hm : minBE f (n / 256) with
      | nil => exact absurd hm hne
      | cons a t => rw [hm] at this; simpa using this

theorem derLen_length_le (n : Nat) (h : n < 2147483648) : (derLen n).length ≤ 5 := by
  unfold derLen
  split
  · simp
  · simp only [List.length_cons]
    have := minBE_length_le 8 n 4 (by omega)
    omega

/-- one TLV written by `derTLV` is read back by `parseTLV` -/
theorem parseTLV_derTLV (tag : UInt8) (content rest : Bytes) (h : content.length < 2147483648) :
    parseTLV tag (derTLV tag content ++ rest) = some (content, rest) := by
  unfold derTLV derLen
  by_cases hs : content.length < 128
  · simp only [hs, if_true, List.cons_append, List.append_assoc, List.nil_append]
    unfold parseTLV
    simp only [ne_eq, not_true_eq_false, if_false]
    rw [ofNat_toNat_lt _ (by omega)]
    simp only [hs, if_true, List.length_append]
    have : ¬ (content.length + rest.length < content.length) := by omega
    simp only [this, if_false]
    simp
  · simp only [hs, if_false, List.cons_append, List.append_assoc]
    have hk4 := minBE_length_le 8 content.length 4 (by omega)
    have hne := minBE_ne_nil 7 content.length (by omega)
    have hk1 : 1 ≤ (minBE 8 content.length).length := by
      cases hm : minBE 8 content.length with
      | nil => exact absurd hm hne
      | cons _ _ => simp
    have hdec := beDec_minBE 8 content.length (by omega)
    have hhead := minBE_head 8 content.length (by omega) (by omega)
    unfold parseTLV
    simp only [ne_eq, not_true_eq_false, if_false]
    rw [ofNat_toNat_lt _ (by omega)]
    have h128 : ¬ (128 + (minBE 8 content.length).length < 128) := by omega
    simp only [h128, if_false, Nat.add_sub_cancel_left]
    have hc1 : ¬ ((minBE 8 content.length).length = 0 ∨ (minBE 8 content.length).length > 4 ∨
        (minBE 8 content.length ++ (content ++ rest)).length < (minBE 8 content.length).length) := by
      simp only [List.length_append]; omega
    simp only [hc1, if_false]
    rw [take_append_len _ _ _ rfl, drop_append_len _ _ _ rfl, hdec]
    have hc2 : ¬ ((minBE 8 content.length).head? = some 0 ∨ content.length < 128 ∨ content.length ≥ 2147483648 ∨
        (content ++ rest).length < content.length) := by
      simp only [List.length_append]
      intro hh
      rcases hh with hh | hh | hh | hh
      · exact hhead hh
      · exact hs hh
      · omega
      · omega
    simp only [hc2, if_false]
    simp

theorem derTLV_length (tag : UInt8) (content : Bytes) : content.length + 2 ≤ (derTLV tag content).length := by
  unfold derTLV derLen
  split <;> simp <;> omega

def certBody (cs : List Bytes) : Bytes := cs.flatMap fun c => derTLV 0x30 (derTLV 0x04 c)

theorem certBody_cons (c : Bytes) (cs : List Bytes) : certBody (c :: cs) = derTLV 0x30 (derTLV 0x04 c) ++ certBody cs := by
  simp [certBody]

theorem parseCertSeq_certBody (cs : List Bytes) (fuel : Nat) (hf : (certBody cs).length ≤ fuel)
    (hsz : (certBody cs).length < 2147483648) : parseCertSeq fuel (certBody cs) = some cs := by
  induction cs generalizing fuel with
  | nil => cases fuel <;> rfl
  | cons c cs ih =>
    rw [certBody_cons] at hf hsz ⊢
    have h1 := derTLV_length 0x30 (derTLV 0x04 c)
    have h2 := derTLV_length 0x04 c
    simp only [List.length_append] at hf hsz
    cases fuel with
    | zero => omega
    | succ f =>
      cases hb : derTLV 0x30 (derTLV 0x04 c) ++ certBody cs with
      | nil =>
        have := congrArg List.length hb
        simp only [List.length_append, List.length_nil] at this; omega
      | cons x xs =>
        unfold parseCertSeq
        rw [← hb, parseTLV_derTLV 0x30 (derTLV 0x04 c) (certBody cs) (by omega)]
        simp only []
        have := parseTLV_derTLV 0x04 c [] (by omega)
        rw [List.append_nil] at this
        rw [this]
        simp only []
        rw [ih f (by omega) (by omega)]

/-- **DER round trip** of the stored chain form, for every chain whose DER form is shorter than 2^31 bytes
(Go's `encoding/asn1` refuses longer lengths). -/
theorem der_round_trip (cs : List Bytes) (h : (derChain cs).length < 2147483648) :
    parseDerChain (derChain cs) = some cs := by
  have hl := derTLV_length 0x30 (certBody cs)
  have hd : derChain cs = derTLV 0x30 (certBody cs) := rfl
  rw [hd] at h ⊢
  unfold parseDerChain
  have := parseTLV_derTLV 0x30 (certBody cs) [] (by omega)
  rw [List.append_nil] at this
  rw [this]
  simp only []
  exact parseCertSeq_certBody cs _ (Nat.le_refl _) (by omega)

end CTV.Model.ChainStore
