import CTV.Lemmas.RacesChrome
/-! Partial liveness for Apple-shaped policy data (a single group, the base group). -/
namespace CTV.Model.Races

structure AppleShape (r : Run) (B : Group) : Prop where
  cfg_eq : r.cfg = [B]
  nB : B.name = baseName
  ndB : B.logs.Nodup

theorem apple_names {r : Run} {B : Group} (sh : AppleShape r B) : names r.cfg = [baseName] := by
  simp [names, sh.cfg_eq, sh.nB]

theorem apple_sumOther {r : Run} {B : Group} (sh : AppleShape r B) (sub : Sub) : sumOther r.cfg sub = 0 := by
  have hf : (names r.cfg).filter (fun g => decide (g ≠ baseName)) = [] := by
    rw [apple_names sh]
    decide
  unfold sumOther
  rw [hf]
  rfl

def K1a (r : Run) (s : St) (B : Group) : Prop :=
  NoErr s → (s.sub.needs baseName ≤ 0 ∨ s.sub.needs baseName ≤ (uns r s B.logs : Int))

theorem k1a_init {r : Run} {B : Group} (wf : WF r) (sh : AppleShape r B) (hB : B.min ≤ B.logs.length) :
    K1a r (St.init r) B := by
  intro _
  have hu : uns r (St.init r) B.logs = B.logs.length := by
    unfold uns
    congr 1
    rw [List.filter_eq_self]
    intro l _
    simp [answeredB, St.init]
  have hmem : B ∈ r.cfg := by simp [sh.cfg_eq]
  have n3 := init_needs wf.names_nodup hmem
  rw [sh.nB] at n3
  refine Or.inr ?_
  rw [hu]; show (Sub.init r.cfg).needs baseName ≤ _; rw [n3]; exact hB

theorem k1a_step {r : Run} {s s' : St} {B : Group} (wf : WF r) (sh : AppleShape r B) (hi : Inv r s)
    (hk : K1a r s B) (o : Op) (hs : step r s o = some s') : K1a r s' B := by
  by_cases hsr : ∃ g l ok, o = .setResult g l ok
  · obtain ⟨g, l, ok, rfl⟩ := hsr
    obtain ⟨ha0, ha1, harest⟩ := answeredB_setResult hi g l ok hs
    obtain ⟨hinf, p, hp, hsub⟩ := step_setResult_inv hs
    have hempty := (hi.owner g l hinf).1
    intro hne'
    cases ok
    · exfalso
      rw [setResult_err] at hp
      cases hp
      exact hne' l (by rw [hsub]; simp [upd])
    · obtain ⟨p1, cs⟩ := p
      obtain ⟨h1, h2, h3, h4, h5⟩ := setResult_ok_spec hp
      have hsub1 : s'.sub = p1 := hsub
      have hne : NoErr s := by
        intro l' herr
        by_cases he : l' = l
        · subst he; rw [hempty] at herr; cases herr
        · exact hne' l' (by rw [hsub1, h3 l' he]; exact herr)
      have kB := hk hne
      have hmem : B ∈ r.cfg := by simp [sh.cfg_eq]
      have hlB : l ∈ B.logs := by
        obtain ⟨gn, hgn, hl⟩ := hi.sub_sess l (hi.infl_sub g l hinf)
        rw [apple_names sh] at hgn
        simp only [List.mem_cons, List.not_mem_nil, or_false] at hgn
        subst hgn
        exact wf.session_sub B hmem l (by rw [sh.nB]; exact hl)
      have hgl : baseName ∈ groupsOf r.cfg l := by
        simp only [groupsOf, List.mem_map, List.mem_filter, decide_eq_true_eq]
        exact ⟨B, ⟨hmem, hlB⟩, sh.nB⟩
      have hb0 := h1 baseName
      have uB : uns r s B.logs = uns r s' B.logs + 1 := uns_answer sh.ndB hlB ha0 ha1 harest
      rw [hsub1]
      by_cases hkeep : p1.needs baseName = s.sub.needs baseName ∧ 0 < s.sub.needs baseName
      · obtain ⟨_, hsum⟩ := setResult_ok_base_kept hp hgl hempty hkeep.1 hkeep.2
        rw [apple_sumOther sh] at hsum
        omega
      · omega
  · have hno : ∀ g l ok, o ≠ .setResult g l ok := fun g l ok he => hsr ⟨g, l, ok, he⟩
    have hans := answeredB_step hi o hs hno
    have hle := step_needs_le o hs baseName
    have herr : ∀ l, s.sub.results l = some .err → s'.sub.results l = some .err := by
      cases o with
      | setResult g l ok => exact absurd rfl (hno g l ok)
      | request g l =>
        simp only [step] at hs
        split at hs
        case isFalse => cases hs
        have hr : ∀ l', s.sub.results l' = some .err → (request r.cfg s.sub l).1.results l' = some .err := by
          intro l' he
          rw [request_results]
          split
          · rename_i hc; rw [hc.1] at he; rw [hc.2] at he; cases he
          · exact he
        split at hs <;> cases hs <;> exact hr
      | timerFire g l => simp only [step] at hs; split at hs <;> cases hs; exact fun _ h => h
      | abort g l => simp only [step] at hs; split at hs <;> cases hs; exact fun _ h => h
      | groupDone g => simp only [step] at hs; split at hs <;> cases hs; exact fun _ h => h
      | recv g =>
        simp only [step] at hs
        split at hs
        · split at hs <;> cases hs; exact fun _ h => h
        · cases hs
      | ctxDone => simp only [step] at hs; split at hs <;> cases hs; exact fun _ h => h
      | collect => simp only [step] at hs; split at hs <;> cases hs; exact fun _ h => h
    intro hne'
    have hne : NoErr s := fun l he => hne' l (herr l he)
    have hu : uns r s' B.logs = uns r s B.logs := uns_congr _ (fun l _ => hans l)
    rw [hu]
    rcases hk hne with h | h
    · exact Or.inl (Int.le_trans hle h)
    · exact Or.inr (Int.le_trans hle h)

theorem k1a_exec {r : Run} {B : Group} (wf : WF r) (sh : AppleShape r B) : ∀ (ops : List Op) {s : St},
    Inv r s → Live r s → K1a r s B → Inv r (exec r s ops) ∧ Live r (exec r s ops) ∧ K1a r (exec r s ops) B
  | [], _, hi, hl, hk => ⟨hi, hl, hk⟩
  | o :: os, s, hi, hl, hk => by
    unfold exec
    cases hs : step r s o with
    | none => simpa using k1a_exec wf sh os hi hl hk
    | some s' => simpa using k1a_exec wf sh os (inv_step wf hi o hs) (live_step hi hl o hs) (k1a_step wf sh hi hk o hs)

theorem apple_all_complete {r : Run} {B : Group} (wf : WF r) (sh : AppleShape r B)
    (hsess : ∀ g ∈ r.cfg, ∀ l ∈ g.logs, l ∈ r.session g.name) (hB : B.min ≤ B.logs.length) (ops : List Op)
    (hctx : (exec r (St.init r) ops).ctx = false) (hne : NoErr (exec r (St.init r) ops))
    (hfin : ∀ g ∈ names r.cfg, ∀ l ∈ r.session g, (exec r (St.init r) ops).gor g l = .finished) :
    ∀ g ∈ r.cfg, (exec r (St.init r) ops).sub.needs g.name ≤ 0 := by
  obtain ⟨hi, hl, hk⟩ := k1a_exec wf sh ops (inv_init wf) (live_init r) (k1a_init wf sh hB)
  generalize exec r (St.init r) ops = s at *
  have kB := hk hne
  have hmem : B ∈ r.cfg := by simp [sh.cfg_eq]
  intro g hg
  rw [sh.cfg_eq] at hg
  simp only [List.mem_cons, List.not_mem_nil, or_false] at hg
  subst hg
  cases hd : decide (0 < s.sub.needs g.name) with
  | false => exact Int.not_lt.mp (of_decide_eq_false hd)
  | true =>
    have hpos := of_decide_eq_true hd
    have hz : uns r s g.logs = 0 := by
      unfold uns
      rw [List.length_eq_zero_iff, List.filter_eq_nil_iff]
      intro l hlX
      have hXn : g.name ∈ names r.cfg := List.mem_map_of_mem (f := (·.name)) hmem
      have hls := hsess g hmem l hlX
      have hf := hfin g.name hXn l hls
      have hres := hl.k2 hctx g hmem l hls hf hpos
      have hgl : g.name ∈ groupsOf r.cfg l := by
        simp only [groupsOf, List.mem_map, List.mem_filter, decide_eq_true_eq]
        exact ⟨g, ⟨hmem, hlX⟩, rfl⟩
      have hsub : l ∈ s.submitted := by
        cases hd2 : decide (l ∈ s.submitted) with
        | true => exact of_decide_eq_true hd2
        | false =>
          have := hl.k3 l hres (of_decide_eq_false hd2) g.name hgl
          omega
      have : answeredB r s l = true := by
        rw [answeredB_iff]
        refine ⟨hsub, fun g' hg' hin => ?_⟩
        have hact := hi.active g' l (by rw [hin]; simp)
        have := hfin g' hg' l hact.2
        rw [hin] at this
        cases this
      simp [this]
    rw [sh.nB] at hpos ⊢
    omega

end CTV.Model.Races
