import CTV.Lemmas.RacesChrome
/-! Partial liveness for Apple-shaped policy data (a single group, the base group). -/
namespace CTV.Model.Races

structure AppleShape (r : Run) (B : Group) : Prop where
  cfg_eq : r.cfg = [B]
  nB : B.name = baseName
  ndB : B.logs.Nodup

theorem apple_names {r : Run} {B : Group} (sh : AppleShape r B) : names r.cfg = [baseName] := by
  simp [names, sh.cfg_eq, sh.nB]

theorem apple_sumOther {r : Run} {B : Group} (sh : AppleShape r B) (sub : Sub) : sumOther r.cfg sub = 0 := by
  have hf : (names r.cfg).filter (fun g => decide (g ≠ baseName)) = [] := by
    rw [apple_names sh]
    decide
  unfold sumOther
  rw [hf]
  rfl

def K1a (r : Run) (s : St) (bad : Log → Bool) (B : Group) : Prop :=
  ErrIn bad s → (s.sub.needs baseName ≤ 0 ∨ s.sub.needs baseName ≤ (uns r s bad B.logs : Int))

theorem k1a_init {r : Run} {B : Group} (bad : Log → Bool) (wf : WF r) (sh : AppleShape r B)
    (hB : B.min ≤ (B.logs.filter (fun l => !bad l)).length) : K1a r (St.init r) bad B := by
  intro _
  have hmem : B ∈ r.cfg := by simp [sh.cfg_eq]
  have n3 := init_needs wf.names_nodup hmem
  rw [sh.nB] at n3
  refine Or.inr ?_
  rw [uns_init]; show (Sub.init r.cfg).needs baseName ≤ _; rw [n3]; exact hB

theorem k1a_step {r : Run} {s s' : St} {B : Group} (bad : Log → Bool) (wf : WF r) (sh : AppleShape r B) (hi : Inv r s)
    (hk : K1a r s bad B) (o : Op) (hs : step r s o = some s') : K1a r s' bad B := by
  by_cases hsr : ∃ g l ok, o = .setResult g l ok
  · obtain ⟨g, l, ok, rfl⟩ := hsr
    obtain ⟨ha0, ha1, harest⟩ := answeredB_setResult hi g l ok hs
    obtain ⟨hinf, p, hp, hsub⟩ := step_setResult_inv hs
    have hempty := (hi.owner g l hinf).1
    intro hne'
    cases ok
    · rw [setResult_err] at hp
      cases hp
      have hbl : bad l = true := hne' l (by rw [hsub]; simp [upd])
      have hne : ErrIn bad s := by
        intro l' herr
        by_cases he : l' = l
        · subst he; rw [hempty] at herr; cases herr
        · exact hne' l' (by rw [hsub]; simp [upd, he]; exact herr)
      have hu : uns r s' bad B.logs = uns r s bad B.logs := uns_other (Or.inl hbl) harest
      have hn : s'.sub.needs = s.sub.needs := by rw [hsub]
      rw [hn, hu]
      exact hk hne
    · obtain ⟨p1, cs⟩ := p
      obtain ⟨h1, h2, h3, h4, h5⟩ := setResult_ok_spec hp
      have hsub1 : s'.sub = p1 := hsub
      have hne : ErrIn bad s := by
        intro l' herr
        by_cases he : l' = l
        · subst he; rw [hempty] at herr; cases herr
        · exact hne' l' (by rw [hsub1, h3 l' he]; exact herr)
      have kB := hk hne
      have hmem : B ∈ r.cfg := by simp [sh.cfg_eq]
      have hlB : l ∈ B.logs := by
        obtain ⟨gn, hgn, hl⟩ := hi.sub_sess l (hi.infl_sub g l hinf)
        rw [apple_names sh] at hgn
        simp only [List.mem_cons, List.not_mem_nil, or_false] at hgn
        subst hgn
        exact wf.session_sub B hmem l (by rw [sh.nB]; exact hl)
      have hgl : baseName ∈ groupsOf r.cfg l := by
        simp only [groupsOf, List.mem_map, List.mem_filter, decide_eq_true_eq]
        exact ⟨B, ⟨hmem, hlB⟩, sh.nB⟩
      have hb0 := h1 baseName
      rw [hsub1]
      have hkept : p1.needs baseName = s.sub.needs baseName → ¬ 0 < s.sub.needs baseName := by
        intro hk1 hk2
        obtain ⟨_, hsum⟩ := setResult_ok_base_kept hp hgl hempty hk1 hk2
        rw [apple_sumOther sh] at hsum
        omega
      cases hb : bad l
      · have uB : uns r s bad B.logs = uns r s' bad B.logs + 1 := uns_answer sh.ndB hlB hb ha0 ha1 harest
        by_cases hk1 : p1.needs baseName = s.sub.needs baseName
        · have := hkept hk1; omega
        · omega
      · have uB : uns r s' bad B.logs = uns r s bad B.logs := uns_other (Or.inl hb) harest
        by_cases hk1 : p1.needs baseName = s.sub.needs baseName
        · have := hkept hk1; omega
        · omega
  · have hno : ∀ g l ok, o ≠ .setResult g l ok := fun g l ok he => hsr ⟨g, l, ok, he⟩
    obtain ⟨hn, herr, hans⟩ := step_other hi o hs hno
    intro hne'
    have hne : ErrIn bad s := fun l he => hne' l (herr l he)
    have hu : uns r s' bad B.logs = uns r s bad B.logs := uns_congr _ (fun l _ _ => hans l)
    rw [hn, hu]
    exact hk hne

theorem k1a_exec {r : Run} {B : Group} (bad : Log → Bool) (wf : WF r) (sh : AppleShape r B) : ∀ (ops : List Op) {s : St},
    Inv r s → Live r s → K1a r s bad B → Inv r (exec r s ops) ∧ Live r (exec r s ops) ∧ K1a r (exec r s ops) bad B
  | [], _, hi, hl, hk => ⟨hi, hl, hk⟩
  | o :: os, s, hi, hl, hk => by
    unfold exec
    cases hs : step r s o with
    | none => simpa using k1a_exec bad wf sh os hi hl hk
    | some s' => simpa using k1a_exec bad wf sh os (inv_step wf hi o hs) (live_step hi hl o hs) (k1a_step bad wf sh hi hk o hs)

theorem apple_all_complete {r : Run} {B : Group} (bad : Log → Bool) (wf : WF r) (sh : AppleShape r B)
    (hsess : ∀ g ∈ r.cfg, ∀ l ∈ g.logs, l ∈ r.session g.name)
    (hB : B.min ≤ (B.logs.filter (fun l => !bad l)).length) (ops : List Op)
    (hctx : (exec r (St.init r) ops).ctx = false) (hne : ErrIn bad (exec r (St.init r) ops))
    (hfin : ∀ g ∈ names r.cfg, ∀ l ∈ r.session g, (exec r (St.init r) ops).gor g l = .finished ∨
      ((exec r (St.init r) ops).gor g l = .inflight ∧ bad l = true)) :
    ∀ g ∈ r.cfg, (exec r (St.init r) ops).sub.needs g.name ≤ 0 := by
  obtain ⟨hi, hl, hk⟩ := k1a_exec bad wf sh ops (inv_init wf) (live_init r) (k1a_init bad wf sh hB)
  generalize exec r (St.init r) ops = s at *
  have kB := hk hne
  have key := waiting_group_all_answered bad hi hl hsess hctx hfin
  have hmem : B ∈ r.cfg := by simp [sh.cfg_eq]
  intro g hg
  rw [sh.cfg_eq] at hg
  simp only [List.mem_cons, List.not_mem_nil, or_false] at hg
  subst hg
  cases hd : decide (0 < s.sub.needs g.name) with
  | false => exact Int.not_lt.mp (of_decide_eq_false hd)
  | true =>
    have hpos := of_decide_eq_true hd
    have := key g hmem hpos
    rw [sh.nB] at hpos ⊢
    omega

end CTV.Model.Races
