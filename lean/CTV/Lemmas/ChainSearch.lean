import CTV.Lemmas.ChainCheck
/-!
Completeness of the `buildChains` search along a target chain on which every certificate has exactly
one candidate parent (`OnTrack`), within the signature budget and starting from an empty cache.
-/
namespace C02
open CTV.Model.ChainCheck

theorem extend_chains_mono (rec : Cert → List Cert → St → Res) (cur : List Cert) (t : CertType) (a : Res) (x : Cert)
    (p : List Cert) (hp : p ∈ a.chains) : p ∈ (extend rec cur t a x).chains := by
  unfold extend
  split
  · split <;> simp [hp]
  · simp [hp]

theorem consider_chains_mono (E : Env) (rec : Cert → List Cert → St → Res) (c : Cert) (cur : List Cert) (t : CertType) (a : Res) (x : Cert)
    (p : List Cert) (hp : p ∈ a.chains) : p ∈ (consider E rec c cur t a x).chains := by
  unfold consider
  split
  · exact hp
  split
  · exact hp
  split
  · exact hp
  split
  · exact hp
  · exact extend_chains_mono rec cur t _ x p hp

theorem foldl_consider_chains_mono (E : Env) (rec : Cert → List Cert → St → Res) (c : Cert) (cur : List Cert) (t : CertType) :
    ∀ (xs : List Cert) (a : Res) (p : List Cert), p ∈ a.chains → p ∈ (xs.foldl (consider E rec c cur t) a).chains
  | [], _, _, hp => hp
  | x :: xs, a, p, hp => by
    simp only [List.foldl_cons]
    exact foldl_consider_chains_mono E rec c cur t xs _ p (consider_chains_mono E rec c cur t a x p hp)

/-- A root candidate never touches the cache and costs at most one signature check. -/
theorem consider_root_state (E : Env) (rec : Cert → List Cert → St → Res) (c : Cert) (cur : List Cert) (a : Res) (x : Cert) :
    (consider E rec c cur .root a x).st.cache = a.st.cache ∧
    (consider E rec c cur .root a x).st.sigChecks ≤ a.st.sigChecks + 1 ∧ a.st.sigChecks ≤ (consider E rec c cur .root a x).st.sigChecks := by
  unfold consider
  split
  · simp
  split
  · simp [bump]
  split
  · simp [bump]
  split
  · simp [bump]
  · simp [extend, bump]

theorem foldl_root_state (E : Env) (rec : Cert → List Cert → St → Res) (c : Cert) (cur : List Cert) :
    ∀ (xs : List Cert) (a : Res),
      (xs.foldl (consider E rec c cur .root) a).st.cache = a.st.cache ∧
      (xs.foldl (consider E rec c cur .root) a).st.sigChecks ≤ a.st.sigChecks + xs.length
  | [], a => by simp
  | x :: xs, a => by
    simp only [List.foldl_cons, List.length_cons]
    have h1 := consider_root_state E rec c cur a x
    have h2 := foldl_root_state E rec c cur xs (consider E rec c cur .root a x)
    exact ⟨h2.1.trans h1.1, by omega⟩

theorem isValid_of {t : CertType} {cur : List Cert} {c x : Cert} (hl : cur.getLast? = some c) (hn : c.issuer = x.subject)
    (hca : t = .intermediate → IsInterCA x) : isValid t cur x = true := by
  have hne := ne_nil_of_getLast? hl
  unfold isValid
  simp only [hl, flag_nameChecks]
  have h1 : (Gen.isValidNameGuard false true && Gen.isValidNameMismatch c.issuer x.subject) = false := by
    simp [Gen.isValidNameMismatch, hn]
  have h2 : (t != CertType.leaf && cur.isEmpty) = false := by
    cases cur with
    | nil => exact absurd rfl hne
    | cons _ _ => simp
  have h3 : Gen.isValidNotCA (t == CertType.intermediate) x.bcValid x.isCA = false := by
    cases t
    · simp [Gen.isValidNotCA]
    · have := hca rfl
      simp [Gen.isValidNotCA, this.1, this.2]
    · simp [Gen.isValidNotCA]
  simp [h1, h2, h3]

/-- A candidate that is new, within budget, correctly signed and valid is extended. -/
theorem consider_pass (E : Env) (rec : Cert → List Cert → St → Res) {c : Cert} {cur : List Cert} (t : CertType) (a : Res) (x : Cert)
    (hl : cur.getLast? = some c) (hnew : x.id ∉ cur.map (·.id)) (hbud : (a.st.sigChecks : Int) + 1 ≤ 100)
    (hlink : Link E.sigOK c x) (hca : t = .intermediate → IsInterCA x) :
    consider E rec c cur t a x = extend rec cur t { bump a with err := none } x := by
  unfold consider
  have h0 : (cur.any (·.equal x)) = false := by
    rw [List.any_eq_false]
    intro y hy he
    apply hnew
    have : y.id = x.id := by simpa [Cert.equal] using he
    exact List.mem_map.2 ⟨y, hy, this⟩
  have h1 : Gen.sigBudgetExceeded (((bump a).st.sigChecks : Nat) : Int) = false := by
    simp only [bump, Gen.sigBudgetExceeded, Gen.maxChainSignatureChecks]
    apply decide_eq_false
    push_cast
    omega
  have h3 := isValid_of (t := t) hl hlink.1 hca
  simp [h0, h1, hlink.2, h3]

/-- A candidate that is already in the current chain is skipped without any effect. -/
theorem consider_skip (E : Env) (rec : Cert → List Cert → St → Res) (c : Cert) (cur : List Cert) (t : CertType) (a : Res) (x : Cert)
    (h : x.id ∈ cur.map (·.id)) : consider E rec c cur t a x = a := by
  unfold consider
  have : (cur.any (·.equal x)) = true := by
    obtain ⟨y, hy, hid⟩ := List.mem_map.1 h
    exact List.any_eq_true.2 ⟨y, hy, by simp [Cert.equal, hid]⟩
  simp [this]

theorem foldl_consider_skip (E : Env) (rec : Cert → List Cert → St → Res) (c : Cert) (cur : List Cert) (t : CertType) :
    ∀ (xs : List Cert) (a : Res), (∀ x ∈ xs, x.id ∈ cur.map (·.id)) → xs.foldl (consider E rec c cur t) a = a
  | [], _, _ => rfl
  | x :: xs, a, h => by
    simp only [List.foldl_cons]
    rw [consider_skip E rec c cur t a x (h x (List.mem_cons_self ..))]
    exact foldl_consider_skip E rec c cur t xs a (fun y hy => h y (List.mem_cons_of_mem _ hy))

/-- The target chain is on the search's track: at every level the next certificate of the target is among the
candidates `findPotentialParents` offers (roots pool at the last level, intermediates pool before), and in the
intermediates pool every candidate listed before it is already part of the current chain. -/
def OnTrack (E : Env) : Cert → List Cert → List Cert → Prop
  | _, _, [] => True
  | c, _, [x] => Link E.sigOK c x ∧ x ∈ findPotentialParents E.roots c
  | c, cur, x :: y :: more =>
    Link E.sigOK c x ∧ IsInterCA x ∧
    (∃ pre post, findPotentialParents E.inter c = pre ++ x :: post ∧ ∀ z ∈ pre, z.id ∈ cur.map (·.id)) ∧
    OnTrack E x (cur ++ [x]) (y :: more)

/-- An upper bound on the signature checks the walk along the target needs: at every level one per root candidate
and one for the next certificate. -/
def cost (E : Env) : Cert → List Cert → Nat
  | _, [] => 0
  | c, x :: more => (findPotentialParents E.roots c).length + 1 + cost E x more

theorem buildStep_chains (E : Env) (rec : Cert → List Cert → St → Res) (c : Cert) (cur : List Cert) (st : St) :
    (buildStep E rec c cur st).chains =
      ((findPotentialParents E.inter c).foldl (consider E rec c cur .intermediate)
        ((findPotentialParents E.roots c).foldl (consider E rec c cur .root) ⟨[], none, st⟩)).chains := rfl

/-- **Search completeness on a track.** Starting from an empty cache and with enough budget left, the search finds
the target chain — however many other candidates the pools offer. -/
theorem search_finds (E : Env) : ∀ (rem cur : List Cert) (c : Cert) (st : St) (fuel : Nat),
    cur.getLast? = some c → ((cur ++ rem).map (·.id)).Nodup → OnTrack E c cur rem → rem ≠ [] →
    st.cache = [] → st.sigChecks + cost E c rem ≤ 100 → rem.length ≤ fuel →
    (cur ++ rem) ∈ (buildChains E fuel c cur st).chains
  | [], _, _, _, _, _, _, _, h, _, _, _ => absurd rfl h
  | [x], cur, c, st, fuel, hl, hnd, ht, _, hc, hb, hf => by
    obtain ⟨n, rfl⟩ : ∃ n, fuel = n + 1 := ⟨fuel - 1, by simp at hf; omega⟩
    simp only [buildChains, buildStep_chains]
    apply foldl_consider_chains_mono
    obtain ⟨hlink, hmem⟩ : Link E.sigOK c x ∧ x ∈ findPotentialParents E.roots c := by simpa [OnTrack] using ht
    obtain ⟨pre, post, hsplit⟩ := List.append_of_mem hmem
    rw [hsplit, List.foldl_append, List.foldl_cons]
    apply foldl_consider_chains_mono
    have hr := foldl_root_state E (buildChains E n) c cur pre ⟨[], none, st⟩
    have hnew : x.id ∉ cur.map (·.id) := by
      intro hm
      simp only [List.map_append, List.map_cons, List.map_nil] at hnd
      exact (List.nodup_append.1 hnd).2.2 _ hm _ (by simp) rfl
    have hcost : pre.length + 1 ≤ cost E c [x] := by
      simp only [cost, hsplit, List.length_append, List.length_cons]; omega
    rw [consider_pass E _ .root _ x hl hnew (by have := hr.2; simp at this ⊢; omega) hlink (by intro e; cases e)]
    simp [extend]
  | x :: y :: more, cur, c, st, fuel, hl, hnd, ht, _, hc, hb, hf => by
    obtain ⟨n, rfl⟩ : ∃ n, fuel = n + 1 := ⟨fuel - 1, by simp at hf; omega⟩
    simp only [buildChains, buildStep_chains]
    obtain ⟨hlink, hca, ⟨pre, post, hsplit, hpre⟩, ht'⟩ := ht
    have hr := foldl_root_state E (buildChains E n) c cur (findPotentialParents E.roots c) ⟨[], none, st⟩
    rw [hsplit, List.foldl_append, List.foldl_cons, foldl_consider_skip E _ c cur .intermediate pre _ hpre]
    apply foldl_consider_chains_mono
    have hnew : x.id ∉ cur.map (·.id) := by
      intro hm
      simp only [List.map_append, List.map_cons] at hnd
      exact (List.nodup_append.1 hnd).2.2 _ hm _ (by simp) rfl
    simp only [cost] at hb
    simp only [List.length_cons] at hf
    rw [consider_pass E _ .intermediate _ x hl hnew (by have := hr.2; simp at this ⊢; omega) hlink (fun _ => hca)]
    unfold extend
    simp only [bump, hr.1, hc, List.lookup]
    have ih := search_finds E (y :: more) (cur ++ [x]) x
      { sigChecks := ((findPotentialParents E.roots c).foldl (consider E (buildChains E n) c cur .root) ⟨[], none, st⟩).st.sigChecks + 1, cache := [] }
      n List.getLast?_concat (by simpa using hnd) ht' (by simp) rfl
      (by have h2 := hr.2; dsimp only at h2 ⊢
          have hcx : cost E x (y :: more) = (findPotentialParents E.roots x).length + 1 + cost E y more := rfl
          omega) (by simp; omega)
    simp only [List.append_assoc, List.singleton_append] at ih
    exact List.mem_append_right _ ih

end C02
