import CTV.Lemmas.RacesLive
/-! Partial liveness for Chrome-shaped and Apple-shaped group structures. -/
namespace CTV.Model.Races

/-! ### how each action changes `answeredB` -/

theorem answeredB_iff {r : Run} {s : St} {l : Log} :
    answeredB r s l = true ↔ l ∈ s.submitted ∧ ∀ g ∈ names r.cfg, s.gor g l ≠ .inflight := by
  simp [answeredB, List.all_eq_true]

theorem answeredB_congr {r : Run} {s s' : St} {l l' : Log}
    (h : (l' ∈ s'.submitted ∧ ∀ g ∈ names r.cfg, s'.gor g l' ≠ .inflight) ↔ (l ∈ s.submitted ∧ ∀ g ∈ names r.cfg, s.gor g l ≠ .inflight)) :
    answeredB r s' l' = answeredB r s l := by
  rw [Bool.eq_iff_iff, answeredB_iff, answeredB_iff]
  exact h

theorem answeredB_setGor_ne {r : Run} {s : St} (g : Grp) (l : Log) (x : GSt)
    (hold : s.gor g l ≠ .inflight) (hx : x ≠ .inflight) (l' : Log) :
    answeredB r (setGor s g l x) l' = answeredB r s l' := by
  apply answeredB_congr
  have key : ∀ g', (setGor s g l x).gor g' l' ≠ .inflight ↔ s.gor g' l' ≠ .inflight := by
    intro g'
    simp only [setGor]
    split
    · rename_i he
      rw [he.1, he.2]
      exact ⟨fun _ => hold, fun _ => hx⟩
    · exact Iff.rfl
  constructor
  · rintro ⟨h1, h2⟩
    exact ⟨h1, fun g' hg' => (key g').mp (h2 g' hg')⟩
  · rintro ⟨h1, h2⟩
    exact ⟨h1, fun g' hg' => (key g').mpr (h2 g' hg')⟩

/-- actions other than `setResult` leave `answeredB` unchanged -/
theorem answeredB_step {r : Run} {s s' : St} (hi : Inv r s) (o : Op) (hs : step r s o = some s')
    (ho : ∀ g l ok, o ≠ .setResult g l ok) (l' : Log) : answeredB r s' l' = answeredB r s l' := by
  cases o with
  | timerFire g l =>
    simp only [step] at hs
    split at hs
    · rename_i hc
      cases hs
      exact answeredB_setGor_ne g l _ (by rw [hc.2.2]; simp) (by split <;> simp) l'
    · cases hs
  | abort g l =>
    simp only [step] at hs
    split at hs
    · rename_i hc
      cases hs
      exact answeredB_setGor_ne g l _ (by rw [hc.2.2.2]; simp) (by simp) l'
    · cases hs
  | request g l =>
    simp only [step] at hs
    split at hs
    case isFalse => cases hs
    rename_i hchk
    have hact := hi.active g l (by rw [hchk]; simp)
    split at hs
    · rename_i hgr
      have hnone := request_granted hgr
      have hnsub : l ∉ s.submitted := fun hm => hi.sub_res l hm hnone
      cases hs
      apply answeredB_congr
      show (l' ∈ l :: s.submitted ∧ ∀ g' ∈ names r.cfg, (setGor s g l .inflight).gor g' l' ≠ .inflight) ↔ _
      by_cases he : l' = l
      · subst he
        constructor
        · rintro ⟨_, h2⟩
          have := h2 g hact.1
          simp [setGor] at this
        · rintro ⟨h1, _⟩
          exact absurd h1 hnsub
      · have h2 : ∀ g', (setGor s g l .inflight).gor g' l' = s.gor g' l' := by
          intro g'
          simp [setGor, he]
        simp only [h2, List.mem_cons, he, false_or]
    · cases hs
      have hne : s.gor g l ≠ .inflight := by rw [hchk]; simp
      exact answeredB_setGor_ne g l .finished hne (by simp) l'
  | setResult g l ok => exact absurd rfl (ho g l ok)
  | groupDone g =>
    simp only [step] at hs
    split at hs
    · cases hs; rfl
    · cases hs
  | recv g =>
    simp only [step] at hs
    split at hs
    · split at hs
      · cases hs; rfl
      · cases hs
    · cases hs
  | ctxDone =>
    simp only [step] at hs
    split at hs
    · cases hs
    · cases hs; rfl
  | collect =>
    simp only [step] at hs
    split at hs
    · cases hs; rfl
    · cases hs

/-- `setResult` for log `l` turns `l` from outstanding to answered and touches no other log -/
theorem answeredB_setResult {r : Run} {s s' : St} (hi : Inv r s) (g : Grp) (l : Log) (ok : Bool)
    (hs : step r s (.setResult g l ok) = some s') :
    answeredB r s l = false ∧ answeredB r s' l = true ∧ ∀ l', l' ≠ l → answeredB r s' l' = answeredB r s l' := by
  simp only [step] at hs
  split at hs
  case isFalse => cases hs
  rename_i hinf
  have hact := hi.active g l (by rw [hinf]; simp)
  have huniq := (hi.owner g l hinf).2
  split at hs
  case h_2 => cases hs
  rename_i p hp
  cases hs
  refine ⟨?_, ?_, ?_⟩
  · cases hb : answeredB r s l
    · rfl
    · have := (answeredB_iff.mp hb).2 g hact.1
      exact absurd hinf this
  · rw [answeredB_iff]
    refine ⟨hi.infl_sub g l hinf, ?_⟩
    intro g' _
    show (setGor s g l .finished).gor g' l ≠ .inflight
    simp only [setGor]
    split
    · simp
    · rename_i hne
      intro hin
      exact hne ⟨huniq g' hin, trivial⟩
  · intro l' hne
    apply answeredB_congr
    have h2 : ∀ g', (setGor s g l .finished).gor g' l' = s.gor g' l' := by
      intro g'
      simp [setGor, hne]
    show (l' ∈ s.submitted ∧ ∀ g' ∈ names r.cfg, (setGor s g l .finished).gor g' l' ≠ .inflight) ↔ _
    simp only [h2]

/-! ### Chrome-shaped policy data: two disjoint non-base groups that together cover the base group -/

structure ChromeShape (r : Run) (G N B : Group) : Prop where
  cfg_eq : r.cfg = [G, N, B]
  nG : G.name = 1
  nN : N.name = 2
  nB : B.name = baseName
  ndG : G.logs.Nodup
  ndN : N.logs.Nodup
  ndB : B.logs.Nodup
  disj : ∀ l ∈ G.logs, l ∉ N.logs
  subG : ∀ l ∈ G.logs, l ∈ B.logs
  subN : ∀ l ∈ N.logs, l ∈ B.logs
  cover : ∀ l ∈ B.logs, l ∈ G.logs ∨ l ∈ N.logs

theorem chrome_names {r : Run} {G N B : Group} (sh : ChromeShape r G N B) : names r.cfg = [1, 2, baseName] := by
  simp [names, sh.cfg_eq, sh.nG, sh.nN, sh.nB]

theorem chrome_groupsOf {r : Run} {G N B : Group} (sh : ChromeShape r G N B) (l : Log) :
    (1 ∈ groupsOf r.cfg l ↔ l ∈ G.logs) ∧ (2 ∈ groupsOf r.cfg l ↔ l ∈ N.logs) ∧ (baseName ∈ groupsOf r.cfg l ↔ l ∈ B.logs) := by
  simp only [groupsOf, sh.cfg_eq, List.mem_map, List.mem_filter, List.mem_cons, List.not_mem_nil, or_false, decide_eq_true_eq]
  have e1 := sh.nG
  have e2 := sh.nN
  have e3 : B.name = 0 := sh.nB
  have eb : baseName = 0 := rfl
  refine ⟨⟨?_, ?_⟩, ⟨?_, ?_⟩, ⟨?_, ?_⟩⟩
  · rintro ⟨g, ⟨hg | hg | hg, hl⟩, hn⟩ <;> subst hg
    · exact hl
    · rw [e2] at hn; cases hn
    · rw [e3] at hn; cases hn
  · intro h; exact ⟨G, ⟨Or.inl rfl, h⟩, e1⟩
  · rintro ⟨g, ⟨hg | hg | hg, hl⟩, hn⟩ <;> subst hg
    · rw [e1] at hn; cases hn
    · exact hl
    · rw [e3] at hn; cases hn
  · intro h; exact ⟨N, ⟨Or.inr (Or.inl rfl), h⟩, e2⟩
  · rintro ⟨g, ⟨hg | hg | hg, hl⟩, hn⟩ <;> subst hg
    · rw [e1, eb] at hn; cases hn
    · rw [e2, eb] at hn; cases hn
    · exact hl
  · intro h; exact ⟨B, ⟨Or.inr (Or.inr rfl), h⟩, sh.nB⟩

theorem chrome_sumOther {r : Run} {G N B : Group} (sh : ChromeShape r G N B) (sub : Sub) :
    sumOther r.cfg sub = (if sub.needs 1 > 0 then sub.needs 1 else 0) + (if sub.needs 2 > 0 then sub.needs 2 else 0) := by
  have hf : (names r.cfg).filter (fun g => decide (g ≠ baseName)) = [1, 2] := by
    rw [chrome_names sh]
    decide
  unfold sumOther
  rw [hf]
  simp only [List.foldl_cons, List.foldl_nil]
  split <;> split <;> omega

/-- the accounting that makes all-answered imply all-complete: each group's need is at most the number of its logs
outside `bad` that have not answered yet (as long as every error so far came from a `bad` log) -/
def K1 (r : Run) (s : St) (bad : Log → Bool) (G N B : Group) : Prop :=
  ErrIn bad s →
    (s.sub.needs 1 ≤ 0 ∨ s.sub.needs 1 ≤ (uns r s bad G.logs : Int)) ∧
    (s.sub.needs 2 ≤ 0 ∨ s.sub.needs 2 ≤ (uns r s bad N.logs : Int)) ∧
    (s.sub.needs baseName ≤ 0 ∨ s.sub.needs baseName ≤ (uns r s bad B.logs : Int))

theorem step_setResult_inv {r : Run} {s s' : St} {g : Grp} {l : Log} {ok : Bool}
    (hs : step r s (.setResult g l ok) = some s') :
    s.gor g l = .inflight ∧ ∃ p, setResult r.cfg s.sub l ok = some p ∧ s'.sub = p.1 := by
  simp only [step] at hs
  split at hs
  case isFalse => cases hs
  rename_i hinf
  split at hs
  case h_2 => cases hs
  rename_i p hp
  cases hs
  exact ⟨hinf, p, hp, rfl⟩

theorem uns_init (r : Run) (bad : Log → Bool) (L : List Log) :
    uns r (St.init r) bad L = (L.filter (fun l => !bad l)).length := by
  unfold uns
  congr 1

theorem k1_init {r : Run} {G N B : Group} (bad : Log → Bool) (wf : WF r) (sh : ChromeShape r G N B)
    (hG : G.min ≤ (G.logs.filter (fun l => !bad l)).length) (hN : N.min ≤ (N.logs.filter (fun l => !bad l)).length)
    (hB : B.min ≤ (B.logs.filter (fun l => !bad l)).length) : K1 r (St.init r) bad G N B := by
  intro _
  have hmem : G ∈ r.cfg ∧ N ∈ r.cfg ∧ B ∈ r.cfg := by simp [sh.cfg_eq]
  have n1 := init_needs wf.names_nodup hmem.1
  have n2 := init_needs wf.names_nodup hmem.2.1
  have n3 := init_needs wf.names_nodup hmem.2.2
  rw [sh.nG] at n1
  rw [sh.nN] at n2
  rw [sh.nB] at n3
  refine ⟨Or.inr ?_, Or.inr ?_, Or.inr ?_⟩
  · rw [uns_init]; show (Sub.init r.cfg).needs 1 ≤ _; rw [n1]; exact hG
  · rw [uns_init]; show (Sub.init r.cfg).needs 2 ≤ _; rw [n2]; exact hN
  · rw [uns_init]; show (Sub.init r.cfg).needs baseName ≤ _; rw [n3]; exact hB

/-- actions other than `setResult` change neither needs nor answers and add no error -/
theorem step_other {r : Run} {s s' : St} (hi : Inv r s) (o : Op) (hs : step r s o = some s')
    (hno : ∀ g l ok, o ≠ .setResult g l ok) :
    s'.sub.needs = s.sub.needs ∧ (∀ l, s.sub.results l = some .err → s'.sub.results l = some .err) ∧
    ∀ l, answeredB r s' l = answeredB r s l := by
  have hans := answeredB_step hi o hs hno
  have hsub : s'.sub.needs = s.sub.needs ∧ ∀ l, s.sub.results l = some .err → s'.sub.results l = some .err := by
    cases o with
    | setResult g l ok => exact absurd rfl (hno g l ok)
    | request g l =>
      simp only [step] at hs
      split at hs
      case isFalse => cases hs
      have hr : ∀ l', s.sub.results l' = some .err → (request r.cfg s.sub l).1.results l' = some .err := by
        intro l' he
        rw [request_results]
        split
        · rename_i hc; rw [hc.1] at he; rw [hc.2] at he; cases he
        · exact he
      split at hs <;> cases hs <;> exact ⟨request_needs _ _ _, hr⟩
    | timerFire g l =>
      simp only [step] at hs
      split at hs <;> cases hs
      exact ⟨rfl, fun _ h => h⟩
    | abort g l =>
      simp only [step] at hs
      split at hs <;> cases hs
      exact ⟨rfl, fun _ h => h⟩
    | groupDone g =>
      simp only [step] at hs
      split at hs <;> cases hs
      exact ⟨rfl, fun _ h => h⟩
    | recv g =>
      simp only [step] at hs
      split at hs
      · split at hs <;> cases hs
        exact ⟨rfl, fun _ h => h⟩
      · cases hs
    | ctxDone =>
      simp only [step] at hs
      split at hs <;> cases hs
      exact ⟨rfl, fun _ h => h⟩
    | collect =>
      simp only [step] at hs
      split at hs <;> cases hs
      exact ⟨rfl, fun _ h => h⟩
  exact ⟨hsub.1, hsub.2, hans⟩

theorem k1_step {r : Run} {s s' : St} {G N B : Group} (bad : Log → Bool) (wf : WF r) (sh : ChromeShape r G N B)
    (hi : Inv r s) (hk : K1 r s bad G N B) (o : Op) (hs : step r s o = some s') : K1 r s' bad G N B := by
  by_cases hsr : ∃ g l ok, o = .setResult g l ok
  · obtain ⟨g, l, ok, rfl⟩ := hsr
    obtain ⟨ha0, ha1, harest⟩ := answeredB_setResult hi g l ok hs
    obtain ⟨hinf, p, hp, hsub⟩ := step_setResult_inv hs
    have hempty := (hi.owner g l hinf).1
    intro hne'
    have hdisj : uns r s bad G.logs + uns r s bad N.logs ≤ uns r s bad B.logs := by
      unfold uns
      exact filter_disjoint_le (fun l => !answeredB r s l && !bad l) sh.ndG sh.ndN sh.disj sh.subG sh.subN
    cases ok
    · -- an error result: the log is in `bad`; needs unchanged, good outstanding logs unchanged
      rw [setResult_err] at hp
      cases hp
      have hbl : bad l = true := hne' l (by rw [hsub]; simp [upd])
      have hne : ErrIn bad s := by
        intro l' herr
        by_cases he : l' = l
        · subst he; rw [hempty] at herr; cases herr
        · exact hne' l' (by rw [hsub]; simp [upd, he]; exact herr)
      have hu : ∀ L, uns r s' bad L = uns r s bad L := fun L => uns_other (Or.inl hbl) harest
      have hn : s'.sub.needs = s.sub.needs := by rw [hsub]
      rw [hn, hu, hu, hu]
      exact hk hne
    · obtain ⟨p1, cs⟩ := p
      obtain ⟨h1, h2, h3, h4, h5⟩ := setResult_ok_spec hp
      have hsub1 : s'.sub = p1 := hsub
      have hne : ErrIn bad s := by
        intro l' herr
        by_cases he : l' = l
        · subst he; rw [hempty] at herr; cases herr
        · exact hne' l' (by rw [hsub1, h3 l' he]; exact herr)
      obtain ⟨kG, kN, kB⟩ := hk hne
      obtain ⟨g1, g2, g0⟩ := chrome_groupsOf sh l
      have hlB : l ∈ B.logs := by
        obtain ⟨gn, hgn, hl⟩ := hi.sub_sess l (hi.infl_sub g l hinf)
        rw [chrome_names sh] at hgn
        have hmem : G ∈ r.cfg ∧ N ∈ r.cfg ∧ B ∈ r.cfg := by simp [sh.cfg_eq]
        simp only [List.mem_cons, List.not_mem_nil, or_false] at hgn
        rcases hgn with rfl | rfl | rfl
        · exact sh.subG l (wf.session_sub G hmem.1 l (by rw [sh.nG]; exact hl))
        · exact sh.subN l (wf.session_sub N hmem.2.1 l (by rw [sh.nN]; exact hl))
        · exact wf.session_sub B hmem.2.2 l (by rw [sh.nB]; exact hl)
      have hcov := sh.cover l hlB
      have e1 := setResult_ok_nonbase hp 1 (by decide)
      have e2 := setResult_ok_nonbase hp 2 (by decide)
      have hb0 := h1 baseName
      -- how the outstanding good parts change: by one for the lists containing `l` when `l` is good, not at all otherwise
      have hchg : ∀ L : List Log, L.Nodup → l ∈ L → ∃ d : Nat, d ≤ 1 ∧ (bad l = false → d = 1) ∧ (bad l = true → d = 0) ∧
          uns r s bad L = uns r s' bad L + d := by
        intro L hn hl
        cases hb : bad l
        · exact ⟨1, Nat.le_refl _, fun _ => rfl, (fun h => by cases h), uns_answer hn hl hb ha0 ha1 harest⟩
        · exact ⟨0, by omega, (fun h => by cases h), fun _ => rfl, (by have := uns_other (r := r) (s := s) (s' := s') (bad := bad) (L := L) (l := l) (Or.inl hb) harest; omega)⟩
      have hpos : ∀ L : List Log, l ∈ L → bad l = false → 1 ≤ uns r s bad L := by
        intro L hl hb
        unfold uns
        exact pos_length_of_mem_filter hl (by simp [ha0, hb])
      obtain ⟨dB, dB1, dBg, dBb, uB⟩ := hchg B.logs sh.ndB hlB
      rw [hsub1]
      rcases hcov with hlG | hlN
      · have hlN : l ∉ N.logs := sh.disj l hlG
        obtain ⟨dG, dG1, dGg, dGb, uG⟩ := hchg G.logs sh.ndG hlG
        have uN : uns r s' bad N.logs = uns r s bad N.logs := uns_other (Or.inr hlN) harest
        have pG := hpos G.logs hlG
        simp only [g1.mpr hlG, if_true] at e1
        have h2n : 2 ∉ groupsOf r.cfg l := fun h => hlN (g2.mp h)
        simp only [h2n, if_false] at e2
        cases hb : bad l
        · have q1 := dGg hb; have q2 := dBg hb; have q3 := pG hb
          refine ⟨by omega, by rw [uN, e2]; exact kN, ?_⟩
          by_cases hkeep : p1.needs baseName = s.sub.needs baseName ∧ 0 < s.sub.needs baseName
          · obtain ⟨hnb, hsum⟩ := setResult_ok_base_kept hp (g0.mpr hlB) hempty hkeep.1 hkeep.2
            have hn1 : s.sub.needs 1 ≤ 0 := hnb 1 (mem_nonBase.mpr ⟨g1.mpr hlG, by decide⟩)
            rw [chrome_sumOther sh] at hsum
            have a1 : (afterNonBase r.cfg s.sub l).needs 1 = s.sub.needs 1 - 1 := by
              show (if 1 ∈ nonBase r.cfg l then _ else _) = _
              simp [mem_nonBase, g1.mpr hlG, (by decide : (1 : Grp) ≠ baseName)]
            have a2 : (afterNonBase r.cfg s.sub l).needs 2 = s.sub.needs 2 := by
              show (if 2 ∈ nonBase r.cfg l then _ else _) = _
              simp [mem_nonBase, h2n]
            rw [a1, a2] at hsum
            right
            split at hsum <;> split at hsum <;> omega
          · omega
        · have q1 := dGb hb; have q2 := dBb hb
          refine ⟨by omega, by rw [uN, e2]; exact kN, ?_⟩
          by_cases hkeep : p1.needs baseName = s.sub.needs baseName ∧ 0 < s.sub.needs baseName
          · obtain ⟨hnb, hsum⟩ := setResult_ok_base_kept hp (g0.mpr hlB) hempty hkeep.1 hkeep.2
            have hn1 : s.sub.needs 1 ≤ 0 := hnb 1 (mem_nonBase.mpr ⟨g1.mpr hlG, by decide⟩)
            rw [chrome_sumOther sh] at hsum
            have a1 : (afterNonBase r.cfg s.sub l).needs 1 = s.sub.needs 1 - 1 := by
              show (if 1 ∈ nonBase r.cfg l then _ else _) = _
              simp [mem_nonBase, g1.mpr hlG, (by decide : (1 : Grp) ≠ baseName)]
            have a2 : (afterNonBase r.cfg s.sub l).needs 2 = s.sub.needs 2 := by
              show (if 2 ∈ nonBase r.cfg l then _ else _) = _
              simp [mem_nonBase, h2n]
            rw [a1, a2] at hsum
            right
            split at hsum <;> split at hsum <;> omega
          · omega
      · have hlG : l ∉ G.logs := fun h => sh.disj l h hlN
        obtain ⟨dN, dN1, dNg, dNb, uN⟩ := hchg N.logs sh.ndN hlN
        have uG : uns r s' bad G.logs = uns r s bad G.logs := uns_other (Or.inr hlG) harest
        have pN := hpos N.logs hlN
        simp only [g2.mpr hlN, if_true] at e2
        have h1n : 1 ∉ groupsOf r.cfg l := fun h => hlG (g1.mp h)
        simp only [h1n, if_false] at e1
        cases hb : bad l
        · have q1 := dNg hb; have q2 := dBg hb; have q3 := pN hb
          refine ⟨by rw [uG, e1]; exact kG, by omega, ?_⟩
          by_cases hkeep : p1.needs baseName = s.sub.needs baseName ∧ 0 < s.sub.needs baseName
          · obtain ⟨hnb, hsum⟩ := setResult_ok_base_kept hp (g0.mpr hlB) hempty hkeep.1 hkeep.2
            have hn2 : s.sub.needs 2 ≤ 0 := hnb 2 (mem_nonBase.mpr ⟨g2.mpr hlN, by decide⟩)
            rw [chrome_sumOther sh] at hsum
            have a2 : (afterNonBase r.cfg s.sub l).needs 2 = s.sub.needs 2 - 1 := by
              show (if 2 ∈ nonBase r.cfg l then _ else _) = _
              simp [mem_nonBase, g2.mpr hlN, (by decide : (2 : Grp) ≠ baseName)]
            have a1 : (afterNonBase r.cfg s.sub l).needs 1 = s.sub.needs 1 := by
              show (if 1 ∈ nonBase r.cfg l then _ else _) = _
              simp [mem_nonBase, h1n]
            rw [a1, a2] at hsum
            right
            split at hsum <;> split at hsum <;> omega
          · omega
        · have q1 := dNb hb; have q2 := dBb hb
          refine ⟨by rw [uG, e1]; exact kG, by omega, ?_⟩
          by_cases hkeep : p1.needs baseName = s.sub.needs baseName ∧ 0 < s.sub.needs baseName
          · obtain ⟨hnb, hsum⟩ := setResult_ok_base_kept hp (g0.mpr hlB) hempty hkeep.1 hkeep.2
            have hn2 : s.sub.needs 2 ≤ 0 := hnb 2 (mem_nonBase.mpr ⟨g2.mpr hlN, by decide⟩)
            rw [chrome_sumOther sh] at hsum
            have a2 : (afterNonBase r.cfg s.sub l).needs 2 = s.sub.needs 2 - 1 := by
              show (if 2 ∈ nonBase r.cfg l then _ else _) = _
              simp [mem_nonBase, g2.mpr hlN, (by decide : (2 : Grp) ≠ baseName)]
            have a1 : (afterNonBase r.cfg s.sub l).needs 1 = s.sub.needs 1 := by
              show (if 1 ∈ nonBase r.cfg l then _ else _) = _
              simp [mem_nonBase, h1n]
            rw [a1, a2] at hsum
            right
            split at hsum <;> split at hsum <;> omega
          · omega
  · have hno : ∀ g l ok, o ≠ .setResult g l ok := fun g l ok he => hsr ⟨g, l, ok, he⟩
    obtain ⟨hn, herr, hans⟩ := step_other hi o hs hno
    intro hne'
    have hne : ErrIn bad s := fun l he => hne' l (herr l he)
    have hu : ∀ L, uns r s' bad L = uns r s bad L := fun L => uns_congr L (fun l _ _ => hans l)
    rw [hn, hu, hu, hu]
    exact hk hne

theorem k1_exec {r : Run} {G N B : Group} (bad : Log → Bool) (wf : WF r) (sh : ChromeShape r G N B) :
    ∀ (ops : List Op) {s : St}, Inv r s → Live r s → K1 r s bad G N B →
    Inv r (exec r s ops) ∧ Live r (exec r s ops) ∧ K1 r (exec r s ops) bad G N B
  | [], _, hi, hl, hk => ⟨hi, hl, hk⟩
  | o :: os, s, hi, hl, hk => by
    unfold exec
    cases hs : step r s o with
    | none => simpa using k1_exec bad wf sh os hi hl hk
    | some s' => simpa using k1_exec bad wf sh os (inv_step wf hi o hs) (live_step hi hl o hs) (k1_step bad wf sh hi hk o hs)

/-- a group that is still waiting has had every one of its logs outside `bad` answered, once every goroutine has
finished or is stuck in a request to a `bad` log -/
theorem waiting_group_all_answered {r : Run} {s : St} (bad : Log → Bool) (hi : Inv r s) (hl : Live r s)
    (hsess : ∀ g ∈ r.cfg, ∀ l ∈ g.logs, l ∈ r.session g.name) (hctx : s.ctx = false)
    (hfin : ∀ g ∈ names r.cfg, ∀ l ∈ r.session g, s.gor g l = .finished ∨ (s.gor g l = .inflight ∧ bad l = true))
    (X : Group) (hX : X ∈ r.cfg) (hpos : 0 < s.sub.needs X.name) : uns r s bad X.logs = 0 := by
  unfold uns
  rw [List.length_eq_zero_iff, List.filter_eq_nil_iff]
  intro l hlX
  cases hb : bad l
  · have hXn : X.name ∈ names r.cfg := List.mem_map_of_mem (f := (·.name)) hX
    have hls := hsess X hX l hlX
    have hf : s.gor X.name l = .finished := by
      rcases hfin X.name hXn l hls with h | h
      · exact h
      · rw [hb] at h; cases h.2
    have hres := hl.k2 hctx X hX l hls hf hpos
    have hgl : X.name ∈ groupsOf r.cfg l := by
      simp only [groupsOf, List.mem_map, List.mem_filter, decide_eq_true_eq]
      exact ⟨X, ⟨hX, hlX⟩, rfl⟩
    have hsub : l ∈ s.submitted := by
      cases hd : decide (l ∈ s.submitted) with
      | true => exact of_decide_eq_true hd
      | false =>
        have hns : l ∉ s.submitted := of_decide_eq_false hd
        have := hl.k3 l hres hns X.name hgl
        omega
    have : answeredB r s l = true := by
      rw [answeredB_iff]
      refine ⟨hsub, fun g' hg' hin => ?_⟩
      have hact := hi.active g' l (by rw [hin]; simp)
      rcases hfin g' hg' l hact.2 with h | h
      · rw [hin] at h; cases h
      · rw [hb] at h; cases h.2
    simp [this]
  · simp

/-- **Every group is complete once every request to a log outside `bad` has completed** (Chrome-shaped groups, no
cancellation, every member of a group in its session, every group keeps at least its minimum outside `bad`). -/
theorem chrome_all_complete {r : Run} {G N B : Group} (bad : Log → Bool) (wf : WF r) (sh : ChromeShape r G N B)
    (hsess : ∀ g ∈ r.cfg, ∀ l ∈ g.logs, l ∈ r.session g.name)
    (hG : G.min ≤ (G.logs.filter (fun l => !bad l)).length) (hN : N.min ≤ (N.logs.filter (fun l => !bad l)).length)
    (hB : B.min ≤ (B.logs.filter (fun l => !bad l)).length)
    (ops : List Op)
    (hctx : (exec r (St.init r) ops).ctx = false) (hne : ErrIn bad (exec r (St.init r) ops))
    (hfin : ∀ g ∈ names r.cfg, ∀ l ∈ r.session g, (exec r (St.init r) ops).gor g l = .finished ∨
      ((exec r (St.init r) ops).gor g l = .inflight ∧ bad l = true)) :
    ∀ g ∈ r.cfg, (exec r (St.init r) ops).sub.needs g.name ≤ 0 := by
  obtain ⟨hi, hl, hk⟩ := k1_exec bad wf sh ops (inv_init wf) (live_init r) (k1_init bad wf sh hG hN hB)
  generalize exec r (St.init r) ops = s at *
  obtain ⟨kG, kN, kB⟩ := hk hne
  have key := waiting_group_all_answered bad hi hl hsess hctx hfin
  have hmem : G ∈ r.cfg ∧ N ∈ r.cfg ∧ B ∈ r.cfg := by simp [sh.cfg_eq]
  intro g hg
  rw [sh.cfg_eq] at hg
  simp only [List.mem_cons, List.not_mem_nil, or_false] at hg
  rcases hg with rfl | rfl | rfl
  · cases hd : decide (0 < s.sub.needs g.name) with
    | false => exact Int.not_lt.mp (of_decide_eq_false hd)
    | true =>
      have hp := of_decide_eq_true hd
      have := key g hmem.1 hp
      rw [sh.nG] at hp ⊢
      omega
  · cases hd : decide (0 < s.sub.needs g.name) with
    | false => exact Int.not_lt.mp (of_decide_eq_false hd)
    | true =>
      have hp := of_decide_eq_true hd
      have := key g hmem.2.1 hp
      rw [sh.nN] at hp ⊢
      omega
  · cases hd : decide (0 < s.sub.needs g.name) with
    | false => exact Int.not_lt.mp (of_decide_eq_false hd)
    | true =>
      have hp := of_decide_eq_true hd
      have := key g hmem.2.2 hp
      rw [sh.nB] at hp ⊢
      omega

/-! ### from "every group complete" to "GetSCTs reports success" -/

theorem step_needs_le {r : Run} {s s' : St} (o : Op) (hs : step r s o = some s') (g : Grp) :
    s'.sub.needs g ≤ s.sub.needs g := by
  cases o with
  | setResult g0 l ok =>
    obtain ⟨_, p, hp, hsub⟩ := step_setResult_inv hs
    rw [hsub]
    exact setResult_needs_le hp g
  | request g0 l =>
    simp only [step] at hs
    split at hs
    case isFalse => cases hs
    have := request_needs r.cfg s.sub l
    split at hs <;> cases hs <;> (show (request r.cfg s.sub l).1.needs g ≤ _; rw [this]; exact Int.le_refl _)
  | timerFire g0 l => simp only [step] at hs; split at hs <;> cases hs; exact Int.le_refl _
  | abort g0 l => simp only [step] at hs; split at hs <;> cases hs; exact Int.le_refl _
  | groupDone g0 => simp only [step] at hs; split at hs <;> cases hs; exact Int.le_refl _
  | recv g0 =>
    simp only [step] at hs
    split at hs
    · split at hs <;> cases hs; exact Int.le_refl _
    · cases hs
  | ctxDone => simp only [step] at hs; split at hs <;> cases hs; exact Int.le_refl _
  | collect => simp only [step] at hs; split at hs <;> cases hs; exact Int.le_refl _

/-- what holds from the moment every group is complete, as long as the caller does not cancel -/
structure Done (r : Run) (s : St) : Prop where
  ctx : s.ctx = false
  needs : ∀ g ∈ names r.cfg, s.sub.needs g ≤ 0
  gdone : ∀ g, s.gdone g ≠ some false
  recvd : ∀ g, s.recvd g ≠ some false
  ret : ∀ ls e, s.ret = some (ls, e) → e = false

theorem done_step {r : Run} {s s' : St} (h : Done r s) (o : Op) (ho : o ≠ .ctxDone) (hs : step r s o = some s') : Done r s' := by
  have hneeds : ∀ g ∈ names r.cfg, s'.sub.needs g ≤ 0 := fun g hg => Int.le_trans (step_needs_le o hs g) (h.needs g hg)
  cases o with
  | ctxDone => exact absurd rfl ho
  | timerFire g l =>
    simp only [step] at hs
    split at hs <;> cases hs
    exact ⟨h.ctx, hneeds, h.gdone, h.recvd, h.ret⟩
  | abort g l =>
    simp only [step] at hs
    split at hs <;> cases hs
    exact ⟨h.ctx, hneeds, h.gdone, h.recvd, h.ret⟩
  | request g l =>
    simp only [step] at hs
    split at hs
    case isFalse => cases hs
    split at hs <;> cases hs <;> exact ⟨h.ctx, hneeds, h.gdone, h.recvd, h.ret⟩
  | setResult g l ok =>
    simp only [step] at hs
    split at hs
    case isFalse => cases hs
    split at hs
    case h_2 => cases hs
    cases hs
    exact ⟨h.ctx, hneeds, h.gdone, h.recvd, h.ret⟩
  | groupDone g =>
    simp only [step] at hs
    split at hs
    · rename_i hc
      cases hs
      refine ⟨h.ctx, hneeds, ?_, h.recvd, h.ret⟩
      intro g' hg'
      simp only [upd] at hg'
      split at hg'
      · rename_i he
        subst he
        have := h.needs g' hc.1
        simp [complete, this] at hg'
      · exact h.gdone g' hg'
    · cases hs
  | recv g =>
    simp only [step] at hs
    split at hs
    · rename_i b hb
      split at hs
      · cases hs
        refine ⟨h.ctx, hneeds, h.gdone, ?_, h.ret⟩
        intro g' hg'
        simp only [upd] at hg'
        split at hg'
        · rename_i he
          subst he
          simp only [Option.some.injEq] at hg'
          subst hg'
          exact h.gdone _ hb
        · exact h.recvd g' hg'
      · cases hs
    · cases hs
  | collect =>
    simp only [step] at hs
    split at hs
    · rename_i hc
      cases hs
      refine ⟨h.ctx, hneeds, h.gdone, h.recvd, ?_⟩
      intro ls e hret
      simp only [Option.some.injEq, Prod.mk.injEq] at hret
      rw [← hret.2]
      rw [List.any_eq_false]
      intro g hg
      have hall : (names r.cfg).all (fun g => (s.recvd g).isSome) = true := by
        rcases hc.2 with hcx | hall
        · rw [h.ctx] at hcx; cases hcx
        · exact hall
      rw [List.all_eq_true] at hall
      have hs := hall g hg
      cases hr : s.recvd g with
      | none => rw [hr] at hs; cases hs
      | some b =>
        cases b
        · exact absurd hr (h.recvd g)
        · simp
    · cases hs

theorem done_exec {r : Run} : ∀ (ops : List Op) {s : St}, Done r s → Op.ctxDone ∉ ops → Done r (exec r s ops)
  | [], _, h, _ => h
  | o :: os, s, h, hn => by
    unfold exec
    have hn' : Op.ctxDone ∉ os := fun hm => hn (List.mem_cons_of_mem _ hm)
    have ho : o ≠ .ctxDone := fun he => hn (he ▸ List.mem_cons_self)
    cases hs : step r s o with
    | none => simpa using done_exec os h hn'
    | some s' => simpa using done_exec os (done_step h o ho hs) hn'

end CTV.Model.Races
