import CTV.Lemmas.DerHeader
/-!
# Content round trips: what the strict decoder accepts for a primitive type is what the encoder writes for the decoded value.
-/
namespace CTV.Der

/-! ## BOOLEAN, BIT STRING -/

theorem parseBool_roundtrip (c : Bytes) (b : Bool) (h : parseBool c = .ok b) : encBool b = c := by
  match c, h with
  | [x], h =>
    simp only [parseBool] at h
    by_cases h0 : x = 0
    · rw [if_pos h0] at h; cases h; simp [encBool, h0]
    · rw [if_neg h0] at h
      by_cases h1 : x = 0xff
      · rw [if_pos h1] at h; cases h; simp [encBool, h1]
      · rw [if_neg h1] at h; cases h
  | [], h => simp [parseBool] at h
  | _ :: _ :: _, h => simp [parseBool] at h

theorem parseBitString_roundtrip (c : Bytes) (b : BitStr) (h : parseBitString c = .ok b) : encBitString b = c := by
  match c, h with
  | [], h => simp [parseBitString] at h
  | p :: body, h =>
    simp only [parseBitString] at h
    split at h
    · cases h
    · rename_i hc
      cases h
      simp only [encBitString]
      congr 1
      have hp : p.toNat ≤ 7 := by
        simp only [not_or] at hc; omega
      have hb : body = [] → p.toNat = 0 := by
        intro hb; simp only [not_or, not_and] at hc; have := hc.2.1 hb; omega
      have hlt := p.toNat_lt
      have : (8 - (body.length * 8 - p.toNat) % 8) % 8 = p.toNat := by
        cases body with
        | nil => simp [hb rfl]
        | cons x xs => simp only [List.length_cons]; omega
      rw [this]; simp

/-! ## INTEGER -/

theorem intOfBytes_snoc (b : UInt8) (c : Bytes) (x : UInt8) :
    intOfBytes ((b :: c) ++ [x]) = intOfBytes (b :: c) * 256 + x.toNat := by
  simp only [intOfBytes, List.cons_append, List.length_append, List.length_cons, List.length_nil]
  have h1 : beDec (b :: (c ++ [x])) = beDec (b :: c) * 256 + x.toNat := by
    rw [← List.cons_append, beDec_append_single]
  rw [h1]
  have h2 : (256 : Nat) ^ (c.length + 0 + 1 + 1) = 256 ^ (c.length + 1) * 256 := by
    rw [Nat.add_zero, Nat.pow_succ]
  by_cases hb : b.toNat ≥ 128
  · simp only [hb, if_true]
    rw [h2]; push_cast; ring
  · simp only [hb, if_false]
    push_cast; ring

theorem intLenGo_small (f : Nat) (i : Int) (h1 : -128 ≤ i) (h2 : i ≤ 127) : intLenGo f i = 1 := by
  cases f with
  | zero => rfl
  | succ f => simp only [intLenGo]; rw [if_neg (by omega)]

/-- minimal content octets: the length the encoder computes is the length that was read -/
theorem intLenGo_of_minimal : ∀ (c : Bytes) (b : UInt8) (f : Nat), checkInteger false (b :: c) = .ok () → c.length < f →
    intLenGo f (intOfBytes (b :: c)) = c.length + 1 := by
  intro c
  induction c using rev_ind with
  | nil =>
    intro b f _ _
    have hb := b.toNat_lt
    apply intLenGo_small
    · simp only [intOfBytes, beDec, List.foldl, List.length_nil]; split <;> omega
    · simp only [intOfBytes, beDec, List.foldl, List.length_nil]; split <;> omega
  | snoc c x ih =>
    intro b f hmin hf
    cases f with
    | zero => omega
    | succ f =>
      have hmin' : checkInteger false (b :: c) = .ok () := by
        cases c with
        | nil => rfl
        | cons y ys => simpa [checkInteger] using hmin
      have hrec := ih b f hmin' (by simp at hf; omega)
      rw [← List.cons_append, intOfBytes_snoc]
      have hx := x.toNat_lt
      -- the prefix is not a redundant sign octet, so the value needs more than one octet
      have hout : intOfBytes (b :: c) * 256 + x.toNat > 127 ∨ intOfBytes (b :: c) * 256 + x.toNat < -128 := by
        have hb := b.toNat_lt
        cases c with
        | nil =>
          -- two octets b, x: minimality says not (b = 0 ∧ x < 128) and not (b = ff ∧ x ≥ 128)
          simp only [checkInteger, Bool.false_eq_true, if_false, List.nil_append] at hmin
          split at hmin
          · cases hmin
          · rename_i hm
            simp only [not_or, not_and] at hm
            have e0 : b = 0 ↔ b.toNat = 0 := by
              constructor
              · intro h; rw [h]; rfl
              · intro h; apply UInt8.toNat_inj.mp; simpa using h
            have eff : b = 0xff ↔ b.toNat = 255 := by
              constructor
              · intro h; rw [h]; rfl
              · intro h; apply UInt8.toNat_inj.mp; simpa using h
            simp only [intOfBytes, beDec, List.foldl, List.length_nil]
            by_cases hbb : b.toNat ≥ 128
            · simp only [hbb, if_true]
              by_cases h255 : b.toNat = 255
              · have := hm.2 (eff.mpr h255); omega
              · omega
            · simp only [hbb, if_false]
              by_cases h0 : b.toNat = 0
              · have := hm.1 (e0.mpr h0); omega
              · omega
        | cons y ys =>
          -- three or more octets: already the prefix is outside one octet's range (by the induction hypothesis on its length)
          have hlen := ih b (ys.length + 2) hmin' (by simp)
          simp only [List.length_cons] at hlen
          by_cases hin : -128 ≤ intOfBytes (b :: y :: ys) ∧ intOfBytes (b :: y :: ys) ≤ 127
          · rw [intLenGo_small _ _ hin.1 hin.2] at hlen; omega
          · omega
      simp only [intLenGo]
      rw [if_pos hout]
      have hdiv : (intOfBytes (b :: c) * 256 + x.toNat) / 256 = intOfBytes (b :: c) := by omega
      rw [hdiv, hrec]
      simp; omega

theorem intLenGo_stable : ∀ (f : Nat) (i : Int), i.natAbs ≤ f → intLenGo f i = intLenGo (f + 1) i
  | 0, i, h => by
    have : i = 0 := by omega
    subst this; rfl
  | f+1, i, h => by
    simp only [intLenGo]
    by_cases hout : i > 127 ∨ i < -128
    · rw [if_pos hout, if_pos hout]
      rw [intLenGo_stable f (i / 256) (by omega)]
      simp only [intLenGo]
    · rw [if_neg hout, if_neg hout]

theorem intLenGo_stable' (i : Int) : ∀ (k : Nat), intLenGo i.natAbs i = intLenGo (i.natAbs + k) i
  | 0 => rfl
  | k+1 => by
    rw [intLenGo_stable' i k, ← Nat.add_assoc]
    exact intLenGo_stable _ _ (by omega)

/-- **INTEGER content round trip**: minimal two's-complement octets are what `int64Encoder` / `makeBigInt` write for the value -/
theorem intBytes_intOfBytes (c : Bytes) (h : checkInteger false c = .ok ()) : intBytes (intOfBytes c) = c := by
  match c, h with
  | [], h => simp [checkInteger] at h
  | b :: rest, h =>
    have hlen : intLen (intOfBytes (b :: rest)) = rest.length + 1 := by
      unfold intLen
      rw [intLenGo_stable' _ (rest.length + 1)]
      exact intLenGo_of_minimal rest b _ h (by omega)
    unfold intBytes
    simp only [hlen]
    have hlt := beDec_lt (b :: rest)
    simp only [List.length_cons] at hlt
    have hmod : (intOfBytes (b :: rest) % ((256 ^ (rest.length + 1) : Nat) : Int)).toNat = beDec (b :: rest) := by
      simp only [intOfBytes]
      split
      · have : ((beDec (b :: rest) : Int) - ((256 ^ (rest.length + 1) : Nat) : Int)) % ((256 ^ (rest.length + 1) : Nat) : Int)
            = (beDec (b :: rest) : Int) := by
          rw [Int.sub_emod, Int.emod_self, Int.sub_zero, Int.emod_emod_of_dvd _ (Int.dvd_refl _)]
          exact Int.emod_eq_of_lt (by omega) (by exact_mod_cast hlt)
        rw [this]; simp
      · rw [Int.emod_eq_of_lt (by omega) (by exact_mod_cast hlt)]; simp
    rw [hmod]
    have := beEnc_beDec (b :: rest)
    simpa using this

theorem parseBigInt_roundtrip (c : Bytes) (i : Int) (h : parseBigInt false c = .ok i) : intBytes i = c := by
  unfold parseBigInt at h
  cases hc : checkInteger false c with
  | error e => rw [hc] at h; cases h
  | ok u => rw [hc] at h; cases h; exact intBytes_intOfBytes c hc

theorem parseInt64_roundtrip (c : Bytes) (i : Int) (h : parseInt64 false c = .ok i) : intBytes i = c := by
  unfold parseInt64 at h
  cases hc : checkInteger false c with
  | error e => rw [hc] at h; cases h
  | ok u =>
    rw [hc] at h
    simp only [] at h
    split at h
    · cases h
    · cases h; exact intBytes_intOfBytes c hc

theorem parseInt32_roundtrip (c : Bytes) (i : Int) (h : parseInt32 false c = .ok i) : intBytes i = c := by
  unfold parseInt32 at h
  cases hc : parseInt64 false c with
  | error e => rw [hc] at h; cases h
  | ok v =>
    rw [hc] at h
    simp only [] at h
    split at h
    · cases h
    · cases h; exact parseInt64_roundtrip c _ hc

/-! ## OBJECT IDENTIFIER -/

theorem parseArcs_roundtrip (d : Dialect) (hd : d.b128min = true) : ∀ (f : Nat) (bs : Bytes) (vs : List Nat),
    parseArcs d f bs = .ok vs → bs = vs.flatMap encBase128
  | 0, _, _, h => by simp [parseArcs] at h
  | f+1, [], vs, h => by simp [parseArcs] at h; subst h; rfl
  | f+1, b :: bs, vs, h => by
    simp only [parseArcs] at h
    cases h0 : parseBase128 d (b :: bs) with
    | error e => rw [h0] at h; cases h
    | ok x =>
      obtain ⟨v, rest⟩ := x
      rw [h0] at h
      simp only [] at h
      cases h1 : parseArcs d f rest with
      | error e => rw [h1] at h; cases h
      | ok ws =>
        rw [h1] at h
        cases h
        rw [parseBase128_roundtrip d hd _ _ _ h0, parseArcs_roundtrip d hd f rest ws h1]
        simp

/-- **OID content round trip** (minimal base-128): what `parseObjectIdentifier` accepts is what `oidEncoder` writes -/
theorem parseOID_roundtrip (d : Dialect) (hd : d.b128min = true) (c : Bytes) (arcs : List Nat)
    (h : parseOID d false c = .ok arcs) : encOID arcs = .ok c := by
  unfold parseOID at h
  by_cases hc : c = []
  · rw [if_pos hc] at h; cases h
  · rw [if_neg hc] at h
    cases h0 : parseBase128 d c with
    | error e => rw [h0] at h; cases h
    | ok x =>
      obtain ⟨v, rest⟩ := x
      rw [h0] at h
      simp only [] at h
      cases h1 : parseArcs d (rest.length + 1) rest with
      | error e => rw [h1] at h; cases h
      | ok vs =>
        rw [h1] at h
        cases h
        have hr := parseBase128_roundtrip d hd _ _ _ h0
        have hrs := parseArcs_roundtrip d hd _ _ _ h1
        by_cases hv : v < 80
        · simp only [hv, if_true, List.cons_append, List.nil_append, encOID]
          have h40 : ¬ (v / 40 > 2 ∨ (v / 40 < 2 ∧ v % 40 ≥ 40)) := by omega
          rw [if_neg h40]
          have : v / 40 * 40 + v % 40 = v := by omega
          rw [this, hr, hrs]
        · simp only [hv, if_false, List.cons_append, List.nil_append, encOID]
          have h2 : ¬ (2 > 2 ∨ (2 < 2 ∧ v - 80 ≥ 40)) := by omega
          rw [if_neg h2]
          have : 2 * 40 + (v - 80) = v := by omega
          rw [this, hr, hrs]

/-! ## strings: the four tags `Marshal` can write decode to the content octets themselves -/

theorem parseStringByTag_id (utag : Nat) (c s : Bytes)
    (hu : utag = tagPrintableString ∨ utag = tagUTF8String ∨ utag = tagIA5String ∨ utag = tagNumericString)
    (h : parseStringByTag false utag c = .ok s) : s = c := by
  unfold parseStringByTag at h
  rcases hu with rfl | rfl | rfl | rfl
  · simp only [if_true] at h
    unfold parsePrintableString at h
    split at h
    · cases h; rfl
    · simp at h
  · simp only [tagUTF8String, tagPrintableString, tagNumericString, tagIA5String, tagT61String, Nat.reduceEqDiff, if_false, if_true] at h
    unfold parseUTF8String at h
    split at h <;> cases h; rfl
  · simp only [tagUTF8String, tagPrintableString, tagNumericString, tagIA5String, tagT61String, Nat.reduceEqDiff, if_false, if_true] at h
    unfold parseIA5String at h
    split at h <;> cases h; rfl
  · simp only [tagUTF8String, tagPrintableString, tagNumericString, tagIA5String, tagT61String, Nat.reduceEqDiff, if_false, if_true] at h
    unfold parseNumericString at h
    split at h <;> cases h; rfl

end CTV.Der
