import CTV.Der.Asn1
/-!
# Which dialect switches the decoder reads

The decoder (`parseField` in `lax` or `strict` mode) depends on the dialect only through `b128min`, `genTimeFraction` and `anyBool`;
`sortSetOf` is read by `marshalField` (and by the `canon` test) alone.
-/
namespace CTV.Der

/-- two dialects that decode alike -/
def DecEq (d1 d2 : Dialect) : Prop :=
  d1.b128min = d2.b128min ∧ d1.genTimeFraction = d2.genTimeFraction ∧ d1.anyBool = d2.anyBool

theorem parseBase128Go_deq (d1 d2 : Dialect) (h : DecEq d1 d2) : ∀ (bs : Bytes) (s acc : Nat),
    parseBase128Go d1 s acc bs = parseBase128Go d2 s acc bs
  | [], _, _ => by simp [parseBase128Go]
  | b :: bs, s, acc => by
    simp only [parseBase128Go, h.1]
    rw [parseBase128Go_deq d1 d2 h bs]

theorem parseBase128_deq (d1 d2 : Dialect) (h : DecEq d1 d2) : parseBase128 d1 = parseBase128 d2 := by
  funext bs; exact parseBase128Go_deq d1 d2 h bs 0 0

theorem parseTag_deq (d1 d2 : Dialect) (h : DecEq d1 d2) : parseTag d1 = parseTag d2 := by
  funext bs
  cases bs with
  | nil => rfl
  | cons b bs => simp only [parseTag, parseBase128_deq d1 d2 h]

theorem parseTagLen_deq (d1 d2 : Dialect) (h : DecEq d1 d2) : parseTagLen d1 = parseTagLen d2 := by
  funext bs
  simp only [parseTagLen, parseTag_deq d1 d2 h]

theorem parseArcs_deq (d1 d2 : Dialect) (h : DecEq d1 d2) : ∀ (f : Nat) (bs : Bytes), parseArcs d1 f bs = parseArcs d2 f bs
  | 0, _ => rfl
  | _+1, [] => rfl
  | f+1, b :: bs => by
    simp only [parseArcs, parseBase128_deq d1 d2 h]
    cases parseBase128 d2 (b :: bs) with
    | error e => rfl
    | ok x => simp only [parseArcs_deq d1 d2 h f]

theorem parseOID_deq (d1 d2 : Dialect) (h : DecEq d1 d2) : parseOID d1 = parseOID d2 := by
  funext lax c
  simp only [parseOID, parseBase128_deq d1 d2 h]
  split
  · rfl
  · cases parseBase128 d2 c with
    | error e => rfl
    | ok x => simp only [parseArcs_deq d1 d2 h]

theorem parseGeneralizedTime_deq (d1 d2 : Dialect) (h : DecEq d1 d2) : parseGeneralizedTime d1 = parseGeneralizedTime d2 := by
  funext c
  simp only [parseGeneralizedTime, h.2.1]

theorem countElems_deq (d1 d2 : Dialect) (h : DecEq d1 d2) (u : Bool × Nat × Bool) : ∀ (f : Nat) (bs : Bytes),
    countElems d1 u f bs = countElems d2 u f bs
  | 0, _ => rfl
  | _+1, [] => rfl
  | f+1, b :: bs => by
    simp only [countElems, parseTagLen_deq d1 d2 h]
    cases parseTagLen d2 (b :: bs) with
    | error e => rfl
    | ok x => simp only [countElems_deq d1 d2 h u f]

theorem header_deq (d1 d2 : Dialect) (h : DecEq d1 d2) : header d1 = header d2 := by
  funext t p bs
  simp only [header, parseTagLen_deq d1 d2 h]

theorem anyInner_deq (d1 d2 : Dialect) (h : DecEq d1 d2) : anyInner d1 = anyInner d2 := by
  funext lax tl inner
  simp only [anyInner, parseOID_deq d1 d2 h, parseGeneralizedTime_deq d1 d2 h, h.2.2]

theorem parseAny_deq (d1 d2 : Dialect) (h : DecEq d1 d2) : parseAny d1 = parseAny d2 := by
  funext lax bs
  simp only [parseAny, parseTagLen_deq d1 d2 h, anyInner_deq d1 d2 h]

theorem parseLeaf_deq (d1 d2 : Dialect) (h : DecEq d1 d2) : parseLeaf d1 = parseLeaf d2 := by
  funext m t p tl utag inner consumed
  simp only [parseLeaf, parseOID_deq d1 d2 h, parseGeneralizedTime_deq d1 d2 h]

theorem forMode_deq (d1 d2 : Dialect) (h : DecEq d1 d2) (m : Mode) : DecEq (d1.forMode m) (d2.forMode m) := by
  unfold Dialect.forMode
  split
  · exact ⟨rfl, h.2.1, h.2.2⟩
  · exact h

theorem fieldShell_deq (d1 d2 : Dialect) (h : DecEq d1 d2) (m : Mode) (t : ATy) (p : FP) (bs : Bytes)
    (k : TL → Nat → Bytes → Bytes → Except Err AVal) : fieldShell d1 m t p bs k = fieldShell d2 m t p bs k := by
  simp only [fieldShell, header_deq _ _ (forMode_deq d1 d2 h m), parseAny_deq d1 d2 h]

theorem under_notCanon (m : Mode) (raw : Bool) (hm : m.isCanon = false) : (m.under raw).isCanon = false := by
  cases m <;> cases raw <;> simp_all [Mode.under, Mode.isCanon]

mutual
/-- **the decoder reads three switches**: outside `canon` mode, dialects that agree on base-128 minimality, the GeneralizedTime
fraction and the `interface{}` BOOLEAN decode every input for every target alike -/
theorem parseField_deq (d1 d2 : Dialect) (h : DecEq d1 d2) (m : Mode) (hm : m.isCanon = false) : ∀ (t : ATy) (p : FP) (bs : Bytes),
    parseField d1 m t p bs = parseField d2 m t p bs
  | .struct raw fs, p, bs => by
    simp only [parseField]
    rw [fieldShell_deq d1 d2 h]
    congr 1
    funext tl utag inner consumed
    rw [parseFields_deq d1 d2 h (m.under raw) (under_notCanon m raw hm) fs inner]
  | .seqOf s e, p, bs => by
    simp only [parseField]
    rw [fieldShell_deq d1 d2 h]
    congr 1
    funext tl utag inner consumed
    have he : parseField d1 m e {} = parseField d2 m e {} := funext fun x => parseField_deq d1 d2 h m hm e {} x
    simp only [hm, Bool.false_and, Bool.false_eq_true, if_false, he, countElems_deq _ _ (forMode_deq d1 d2 h m)]
  | .bool, p, bs => by simp only [parseField, parseLeaf_deq _ _ (forMode_deq d1 d2 h m)]; exact fieldShell_deq d1 d2 h ..
  | .int32, p, bs => by simp only [parseField, parseLeaf_deq _ _ (forMode_deq d1 d2 h m)]; exact fieldShell_deq d1 d2 h ..
  | .int64, p, bs => by simp only [parseField, parseLeaf_deq _ _ (forMode_deq d1 d2 h m)]; exact fieldShell_deq d1 d2 h ..
  | .bigInt, p, bs => by simp only [parseField, parseLeaf_deq _ _ (forMode_deq d1 d2 h m)]; exact fieldShell_deq d1 d2 h ..
  | .enum, p, bs => by simp only [parseField, parseLeaf_deq _ _ (forMode_deq d1 d2 h m)]; exact fieldShell_deq d1 d2 h ..
  | .bitString, p, bs => by simp only [parseField, parseLeaf_deq _ _ (forMode_deq d1 d2 h m)]; exact fieldShell_deq d1 d2 h ..
  | .octets, p, bs => by simp only [parseField, parseLeaf_deq _ _ (forMode_deq d1 d2 h m)]; exact fieldShell_deq d1 d2 h ..
  | .oid, p, bs => by simp only [parseField, parseLeaf_deq _ _ (forMode_deq d1 d2 h m)]; exact fieldShell_deq d1 d2 h ..
  | .str, p, bs => by simp only [parseField, parseLeaf_deq _ _ (forMode_deq d1 d2 h m)]; exact fieldShell_deq d1 d2 h ..
  | .rawValue, p, bs => by simp only [parseField, parseLeaf_deq _ _ (forMode_deq d1 d2 h m)]; exact fieldShell_deq d1 d2 h ..
  | .flag, p, bs => by simp only [parseField, parseLeaf_deq _ _ (forMode_deq d1 d2 h m)]; exact fieldShell_deq d1 d2 h ..
  | .time, p, bs => by simp only [parseField, parseLeaf_deq _ _ (forMode_deq d1 d2 h m)]; exact fieldShell_deq d1 d2 h ..
  | .any, p, bs => by simp only [parseField, parseLeaf_deq _ _ (forMode_deq d1 d2 h m)]; exact fieldShell_deq d1 d2 h ..
theorem parseFields_deq (d1 d2 : Dialect) (h : DecEq d1 d2) (m : Mode) (hm : m.isCanon = false) : ∀ (fs : AFields) (bs : Bytes),
    parseFields d1 m fs bs = parseFields d2 m fs bs
  | .nil, bs => by simp only [parseFields]
  | .cons p t rest, bs => by
    simp only [parseFields]
    rw [parseField_deq d1 d2 h m hm t p bs]
    cases parseField d2 m t p bs with
    | error e => rfl
    | ok x => simp only [parseFields_deq d1 d2 h m hm rest]
end

end CTV.Der
