import CTV.Lemmas.TlsTag
import CTV.Lemmas.TlsCodec
/-!
The documented mapping table of `tls.Unmarshal` ("TLS / Go / Required Tags") as an inductive predicate on Go type
shapes with their raw tag strings, and the proof that every such shape resolves to a well-formed codec type
(`Ty.wf`, the hypothesis of `dec_enc`).
-/
set_option linter.unusedSimpArgs false
namespace Tls
open CTV

/-- The documented size clauses: `maxval:N`, `size:S` (1…8), `minlen:A,maxlen:B` (A ≤ B), for arbitrary decimal literals. -/
inductive SizeTag : List Char → Prop where
  | maxval (ds : List Char) (n : Nat) (h : parseUint 64 ds = some n) : SizeTag ("maxval:".toList ++ ds)
  | size (ds : List Char) (n : Nat) (h : parseUint 32 ds = some n) (h1 : 1 ≤ n) (h8 : n ≤ 8) : SizeTag ("size:".toList ++ ds)
  | minmax (da db : List Char) (a b : Nat) (ha : parseUint 64 da = some a) (hb : parseUint 64 db = some b) (hab : a ≤ b) :
      SizeTag ("minlen:".toList ++ da ++ ',' :: ("maxlen:".toList ++ db))

theorem parseTag_maxval' (ds : List Char) (n : Nat) (name : String) (h : parseUint 64 ds = some n) :
    parseTag ("maxval:".toList ++ ds) name = .ok (some { count := byteCount n, countSet := true, name := name }) := by
  have hc : ',' ∉ "maxval:".toList ++ ds := no_comma_kw _ _ (by decide) (parseUint_no_comma _ _ _ h)
  have hr := byteCount_range n (parseUint_lt _ _ _ h)
  unfold parseTag
  rw [splitOn_no_sep _ _ hc]
  simp only [List.foldl, tagClause_maxval none ds n h, tagFinish]
  have hf := (finalChecks_plain true (byteCount n) 0 0 0).2 ⟨hr.1, hr.2, Nat.le_refl 0, rfl⟩
  simp only [Int.ofNat_eq_natCast, Int.natCast_zero] at hf
  simp [hf]

theorem parseTag_size' (ds : List Char) (n : Nat) (name : String) (h : parseUint 32 ds = some n) (h1 : 1 ≤ n) (h8 : n ≤ 8) :
    parseTag ("size:".toList ++ ds) name = .ok (some { count := n, countSet := true, name := name }) := by
  have hc : ',' ∉ "size:".toList ++ ds := no_comma_kw _ _ (by decide) (parseUint_no_comma _ _ _ h)
  unfold parseTag
  rw [splitOn_no_sep _ _ hc]
  simp only [List.foldl, tagClause_size none ds n h, tagFinish]
  have hf := (finalChecks_plain true n 0 0 0).2 ⟨h1, h8, Nat.le_refl 0, rfl⟩
  simp only [Int.ofNat_eq_natCast, Int.natCast_zero] at hf
  simp [hf]

theorem parseTag_minmax' (da db : List Char) (a b : Nat) (name : String)
    (ha : parseUint 64 da = some a) (hb : parseUint 64 db = some b) (hab : a ≤ b) :
    parseTag ("minlen:".toList ++ da ++ ',' :: ("maxlen:".toList ++ db)) name =
      .ok (some { count := byteCount b, countSet := true, minlen := a, maxlen := b, name := name }) := by
  have hca : ',' ∉ "minlen:".toList ++ da := no_comma_kw _ _ (by decide) (parseUint_no_comma _ _ _ ha)
  have hcb : ',' ∉ "maxlen:".toList ++ db := no_comma_kw _ _ (by decide) (parseUint_no_comma _ _ _ hb)
  have hr := byteCount_range b (parseUint_lt _ _ _ hb)
  unfold parseTag
  rw [splitOn_append _ _ _ hca, splitOn_no_sep _ _ hcb]
  simp only [List.foldl, tagClause_minlen none da a ha, tagClause_maxlen _ db b hb, tagFinish]
  have hf := (finalChecks_plain true (byteCount b) a b 0).2 ⟨hr.1, hr.2, hab, rfl⟩
  simp only [Int.ofNat_eq_natCast, Int.natCast_zero] at hf
  simp [hf]

theorem parseTag_size_bad' (ds : List Char) (n : Nat) (name : String) (h : parseUint 32 ds = some n) (hb : n < 1 ∨ 8 < n) :
    parseTag ("size:".toList ++ ds) name = .error .structural := by
  have hc : ',' ∉ "size:".toList ++ ds := no_comma_kw _ _ (by decide) (parseUint_no_comma _ _ _ h)
  unfold parseTag
  rw [splitOn_no_sep _ _ hc]
  simp only [List.foldl, tagClause_size none ds n h, tagFinish]
  have hf : ¬ (Gen.tagFinalChecks true true (Int.ofNat n) (Int.ofNat 0) (Int.ofNat 0) (Int.ofNat 0) = true) := by
    rw [finalChecks_plain]; omega
  simp at hf ⊢
  simp [hf]

theorem parseTag_minmax_inverted' (da db : List Char) (a b : Nat) (name : String)
    (ha : parseUint 64 da = some a) (hb : parseUint 64 db = some b) (hab : b < a) :
    parseTag ("minlen:".toList ++ da ++ ',' :: ("maxlen:".toList ++ db)) name = .error .structural := by
  have hca : ',' ∉ "minlen:".toList ++ da := no_comma_kw _ _ (by decide) (parseUint_no_comma _ _ _ ha)
  have hcb : ',' ∉ "maxlen:".toList ++ db := no_comma_kw _ _ (by decide) (parseUint_no_comma _ _ _ hb)
  unfold parseTag
  rw [splitOn_append _ _ _ hca, splitOn_no_sep _ _ hcb]
  simp only [List.foldl, tagClause_minlen none da a ha, tagClause_maxlen _ db b hb, tagFinish]
  have hf : ¬ (Gen.tagFinalChecks true true (Int.ofNat (byteCount b)) (Int.ofNat a) (Int.ofNat b) (Int.ofNat 0) = true) := by
    rw [finalChecks_plain]; omega
  simp at hf ⊢
  simp [hf]

/-- A documented size clause parses to an info without selector whose width is 1…8 bytes. -/
theorem SizeTag.parse {t : List Char} (h : SizeTag t) (name : String) :
    ∃ i, parseTag t name = .ok (some i) ∧ i.selector = "" ∧ i.toInfo.wf = true := by
  cases h with
  | maxval ds n h =>
    have hr := byteCount_range n (parseUint_lt _ _ _ h)
    refine ⟨_, parseTag_maxval' ds n name h, rfl, ?_⟩
    rw [Info.wf_iff]; simp only [FieldInfo.toInfo]; exact ⟨trivial, hr.1, hr.2⟩
  | size ds n h h1 h8 =>
    refine ⟨_, parseTag_size' ds n name h h1 h8, rfl, ?_⟩
    rw [Info.wf_iff]; simp only [FieldInfo.toInfo]; exact ⟨trivial, h1, h8⟩
  | minmax da db a b ha hb hab =>
    have hr := byteCount_range b (parseUint_lt _ _ _ hb)
    refine ⟨_, parseTag_minmax' da db a b name ha hb hab, rfl, ?_⟩
    rw [Info.wf_iff]; simp only [FieldInfo.toInfo]; exact ⟨trivial, hr.1, hr.2⟩

theorem parseTag_empty' (name : String) (hn : name ≠ "") : parseTag [] name = .ok (some { name := name }) := by
  have h0 : tagClause none [] = none := by decide +kernel
  simp [parseTag, splitOn, List.foldl, h0, tagFinish, hn]

theorem parseTag_selector_val' (s dv : List Char) (v : Nat) (name : String) (hs : ',' ∉ s) (hne : String.ofList s ≠ "")
    (hv : parseUint 64 dv = some v) :
    parseTag ("selector:".toList ++ s ++ ',' :: ("val:".toList ++ dv)) name =
      .ok (some { selector := String.ofList s, val := v, name := name }) := by
  have hca : ',' ∉ "selector:".toList ++ s := no_comma_kw _ _ (by decide) hs
  have hcb : ',' ∉ "val:".toList ++ dv := no_comma_kw _ _ (by decide) (parseUint_no_comma _ _ _ hv)
  unfold parseTag
  rw [splitOn_append _ _ _ hca, splitOn_no_sep _ _ hcb]
  simp only [List.foldl, tagClause_selector none s, tagClause_val _ dv v hv, tagFinish]
  have hf := finalChecks_selector 0 0 v
  simp only [Int.ofNat_eq_natCast, Int.natCast_zero] at hf
  simp [hne, hf]

/-- a defined type whose underlying type is (eventually) `uint64`: `tls.Enum` and everything declared from it -/
def GoTy.enumKind : GoTy → Bool
  | .named .u64 => true
  | .named t => t.enumKind
  | _ => false

theorem resolve_enumKind : ∀ (t : GoTy), t.enumKind = true → ∀ (nm : Bool) (i : FieldInfo),
    resolve nm t (some i) = .enum i.toInfo
  | .named .u64, _, nm, i => by simp [resolve]
  | .named (.named t'), h, nm, i => by
    simp only [resolve]
    exact resolve_enumKind (.named t') (by simpa [GoTy.enumKind] using h) true i
  | .named .u8, h, _, _ | .named .u16, h, _, _ | .named .u24, h, _, _ | .named .u32, h, _, _ => by simp [GoTy.enumKind] at h
  | .named (.slice _), h, _, _ | .named (.array _ _), h, _, _ | .named (.ptr _), h, _, _ | .named (.struct _), h, _, _ => by
    simp [GoTy.enumKind] at h
  | .u8, h, _, _ | .u16, h, _, _ | .u24, h, _, _ | .u32, h, _, _ | .u64, h, _, _ => by simp [GoTy.enumKind] at h
  | .slice _, h, _, _ | .array _ _, h, _, _ | .ptr _, h, _, _ | .struct _, h, _, _ => by simp [GoTy.enumKind] at h

/-- `resolveFields` on a field whose tag parses to an info without selector -/
theorem resolveFields_plain (name : String) (tag : List Char) (t : GoTy) (rest : GoFields) (i : FieldInfo)
    (hp : parseTag tag name = .ok (some i)) (hsel : i.selector = "") :
    resolveFields (.cons name tag t rest) = .plain name (resolve false t (some i)) (resolveFields rest) := by
  rw [resolveFields, hp]
  simp [hsel]

theorem resolveFields_variant (name : String) (tag : List Char) (e : GoTy) (rest : GoFields) (i : FieldInfo)
    (hp : parseTag tag name = .ok (some i)) (hsel : i.selector ≠ "") :
    resolveFields (.cons name tag (.ptr e) rest) = .variant name i.selector i.val (resolve false e (some i)) (resolveFields rest) := by
  rw [resolveFields, hp]
  simp [hsel]

/-- strip the `type X T` wrappers: the type reflection's `Kind()` looks at -/
def GoTy.core : GoTy → GoTy
  | .named t => t.core
  | .u8 => .u8 | .u16 => .u16 | .u24 => .u24 | .u32 => .u32 | .u64 => .u64
  | .slice e => .slice e
  | .array n e => .array n e
  | .ptr e => .ptr e
  | .struct fs => .struct fs

/-- array, slice or struct: shapes for which being a defined type makes no difference to the codec -/
def GoTy.composite : GoTy → Bool
  | .slice _ => true
  | .array _ _ => true
  | .struct _ => true
  | _ => false

/-- `ct.CTExtensions`, `ct.SHA256Hash`, `ct.LogID`, `ct.DigitallySigned` …: a defined type whose underlying type is a
slice, array or struct is coded exactly like the underlying type. -/
theorem resolve_core : ∀ (t : GoTy), t.core.composite = true → ∀ (nm : Bool) (info : Option FieldInfo),
    resolve nm t info = resolve true t.core info
  | .named t', h, nm, info => by
    simp only [resolve, GoTy.core]
    exact resolve_core t' (by simpa [GoTy.core] using h) true info
  | .slice e, _, nm, info => by cases info <;> simp [resolve, GoTy.core]
  | .array n e, _, nm, info => by simp [resolve, GoTy.core]
  | .struct fs, _, nm, info => by simp [resolve, GoTy.core]
  | .u8, h, _, _ | .u16, h, _, _ | .u24, h, _, _ | .u32, h, _, _ | .u64, h, _, _ | .ptr _, h, _, _ => by
    simp [GoTy.core, GoTy.composite] at h

mutual
/-- Shapes of the documented mapping table that need no size information (defined types included: `t.core` is what
reflection's `Kind()` sees; the five fixed-width integers are recognised by identity, so they must not be wrapped). -/
inductive Sup : GoTy → Prop where
  | u8 : Sup .u8
  | u16 : Sup .u16
  | u24 : Sup .u24
  | u32 : Sup .u32
  | u64 : Sup .u64
  /-- `opaque[N]` — `[N]byte` or a defined type of it (`ct.SHA256Hash`) -/
  | arr (t : GoTy) (n : Nat) (e : GoTy) (hc : t.core = .array n e) (h : e.isU8 = true) : Sup t
  /-- `struct { }` — possibly a defined type, possibly a defined type of a defined type (`ct.DigitallySigned`) -/
  | struct (t : GoTy) (fs : GoFields) (hc : t.core = .struct fs) (h : SupF fs) : Sup t
/-- Struct fields of the documented mapping table. -/
inductive SupF : GoFields → Prop where
  | nil : SupF .nil
  /-- a field that needs no tag (a size clause on it is harmless) -/
  | plain (name : String) (tag : List Char) (t : GoTy) (rest : GoFields) (hn : name ≠ "") (ht : Sup t)
      (htag : tag = [] ∨ SizeTag tag) (hr : SupF rest) : SupF (.cons name tag t rest)
  /-- `enum` — `tls.Enum` (or a type declared from it) with `size:S` / `maxval:N` -/
  | enum (name : String) (tag : List Char) (t : GoTy) (rest : GoFields) (ht : t.enumKind = true) (htag : SizeTag tag)
      (hr : SupF rest) : SupF (.cons name tag t rest)
  /-- `opaque<N..M>` — `[]byte` (or a defined type of it: `ct.CTExtensions`) with `minlen:N,maxlen:M` -/
  | bytes (name : String) (tag : List Char) (t e : GoTy) (rest : GoFields) (hc : t.core = .slice e) (he : e.isU8 = true)
      (htag : SizeTag tag) (hr : SupF rest) : SupF (.cons name tag t rest)
  /-- `Type<N..M>` — `[]Type` whose elements are themselves in the table and occupy at least one byte -/
  | vec (name : String) (tag : List Char) (t e : GoTy) (rest : GoFields) (hc : t.core = .slice e) (he : e.isU8 = false)
      (hs : Sup e) (hp : (resolve false e none).pos = true) (htag : SizeTag tag) (hr : SupF rest) : SupF (.cons name tag t rest)
  /-- `select(T) { case e1: Type }` — `*Type` with `selector:Field,val:e1` -/
  | variant (name : String) (s dv : List Char) (v : Nat) (e : GoTy) (rest : GoFields) (hs : ',' ∉ s)
      (hne : String.ofList s ≠ "") (hv : parseUint 64 dv = some v) (he : Sup e) (hr : SupF rest) :
      SupF (.cons name ("selector:".toList ++ s ++ ',' :: ("val:".toList ++ dv)) (.ptr e) rest)
  /-- the same with a defined pointer type (`type P *Type`) -/
  | variantNamed (name : String) (s dv : List Char) (v : Nat) (e : GoTy) (rest : GoFields) (hs : ',' ∉ s)
      (hne : String.ofList s ≠ "") (hv : parseUint 64 dv = some v) (he : Sup e) (hr : SupF rest) :
      SupF (.cons name ("selector:".toList ++ s ++ ',' :: ("val:".toList ++ dv)) (.named (.ptr e)) rest)
end

theorem resolveFields_variantNamed (name : String) (tag : List Char) (e : GoTy) (rest : GoFields) (i : FieldInfo)
    (hp : parseTag tag name = .ok (some i)) (hsel : i.selector ≠ "") :
    resolveFields (.cons name tag (.named (.ptr e)) rest) = .variant name i.selector i.val (resolve false e (some i)) (resolveFields rest) := by
  rw [resolveFields, hp]
  simp [hsel]

mutual
theorem Sup.wf : ∀ {g : GoTy}, Sup g → ∀ (nm : Bool) (info : Option FieldInfo), (resolve nm g info).wf = true ∨ nm = true ∧ g.core.composite = false
  | _, .u8, nm, _ => by cases nm <;> simp [resolve, Ty.wf, GoTy.core, GoTy.composite]
  | _, .u16, nm, _ => by cases nm <;> simp [resolve, Ty.wf, GoTy.core, GoTy.composite]
  | _, .u24, nm, _ => by cases nm <;> simp [resolve, Ty.wf, GoTy.core, GoTy.composite]
  | _, .u32, nm, _ => by cases nm <;> simp [resolve, Ty.wf, GoTy.core, GoTy.composite]
  | _, .u64, nm, _ => by cases nm <;> simp [resolve, Ty.wf, GoTy.core, GoTy.composite]
  | t, .arr _ n e hc h, nm, info => by
    left
    rw [resolve_core t (by simp [hc, GoTy.composite]) nm info, hc]
    simp [resolve, h, Ty.wf]
  | t, .struct _ fs hc h, nm, info => by
    left
    rw [resolve_core t (by simp [hc, GoTy.composite]) nm info, hc]
    simp only [resolve, Ty.wf]; exact SupF.wf h
theorem SupF.wf : ∀ {fs : GoFields}, SupF fs → (resolveFields fs).wf = true
  | _, .nil => by simp [resolveFields, Fields.wf]
  | _, .plain name tag t rest hn ht htag hr => by
    have h1 := SupF.wf hr
    have hwf : ∀ info, (resolve false t info).wf = true := fun info => by
      rcases Sup.wf ht false info with h | ⟨h, _⟩
      · exact h
      · cases h
    rcases htag with rfl | htag
    · rw [resolveFields_plain name [] t rest _ (parseTag_empty' name hn) rfl]
      simp [Fields.wf, hwf, h1]
    · obtain ⟨i, hp, hsel, _⟩ := htag.parse name
      rw [resolveFields_plain name tag t rest i hp hsel]
      simp [Fields.wf, hwf, h1]
  | _, .enum name tag t rest ht htag hr => by
    obtain ⟨i, hp, hsel, hw⟩ := htag.parse name
    rw [resolveFields_plain name tag t rest i hp hsel, resolve_enumKind t ht]
    simp [Fields.wf, Ty.wf, hw, SupF.wf hr]
  | _, .bytes name tag t e rest hc he htag hr => by
    obtain ⟨i, hp, hsel, hw⟩ := htag.parse name
    rw [resolveFields_plain name tag _ rest i hp hsel, resolve_core t (by simp [hc, GoTy.composite]), hc]
    simp [resolve, he, Fields.wf, Ty.wf, hw, SupF.wf hr]
  | _, .vec name tag t e rest hc he hs hpos htag hr => by
    obtain ⟨i, hp, hsel, hw⟩ := htag.parse name
    have hwf : (resolve false e none).wf = true := by
      rcases Sup.wf hs false none with h | ⟨h, _⟩
      · exact h
      · cases h
    rw [resolveFields_plain name tag _ rest i hp hsel, resolve_core t (by simp [hc, GoTy.composite]), hc]
    simp [resolve, he, Fields.wf, Ty.wf, hw, SupF.wf hr, hwf, hpos]
  | _, .variant name s dv v e rest hs hne hv he hr => by
    have hwf : ∀ info, (resolve false e info).wf = true := fun info => by
      rcases Sup.wf he false info with h | ⟨h, _⟩
      · exact h
      · cases h
    rw [resolveFields_variant name _ e rest _ (parseTag_selector_val' s dv v name hs hne hv) hne]
    simp [Fields.wf, hwf, SupF.wf hr]
  | _, .variantNamed name s dv v e rest hs hne hv he hr => by
    have hwf : ∀ info, (resolve false e info).wf = true := fun info => by
      rcases Sup.wf he false info with h | ⟨h, _⟩
      · exact h
      · cases h
    rw [resolveFields_variantNamed name _ e rest _ (parseTag_selector_val' s dv v name hs hne hv) hne]
    simp [Fields.wf, hwf, SupF.wf hr]
end

/-- what `tls.Marshal(v)` / `tls.Unmarshal(b, &v)` see for a supported shape is well-formed -/
theorem Sup.wf_top {g : GoTy} (h : Sup g) (info : Option FieldInfo) : (resolve false g info).wf = true := by
  rcases h.wf false info with h | ⟨h, _⟩
  · exact h
  · cases h

theorem SizeTag.ofEq {t t' : List Char} (h : t = t') (ht : SizeTag t') : SizeTag t := h ▸ ht

end Tls
