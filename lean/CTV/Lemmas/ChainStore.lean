import CTV.Model.ChainStore
/-! Helper lemmas for C14: vector codec round trips, the arithmetic of Appendix F, map lemmas. -/
namespace CTV.Model.ChainStore
open CTV

/-! ### the regenerated bounds, as numbers -/
theorem certB_eq : certB = (1, 16777215) := by decide
theorem pcehHashB_eq : pcehHashB = (0, 256) := by decide
theorem cchHashB_eq : cchHashB = (0, 256) := by decide
theorem pceChainB_eq : pceChainB = (0, 16777215) := by decide
theorem ccEntriesB_eq : ccEntriesB = (0, 16777215) := by decide

theorem lenWidth_bound (m : Nat) (h : m < 4294967296) : m < 256 ^ lenWidth m := by
  unfold lenWidth
  split
  · omega
  split
  · omega
  split
  · omega
  · omega

/-! ### big-endian pieces -/

theorem beEnc_succ (w n : Nat) : beEnc (w + 1) n = beEnc w (n / 256) ++ [UInt8.ofNat (n % 256)] := rfl

theorem beDec_take_beEnc (w n : Nat) (rest : Bytes) (h : n < 256 ^ w) :
    beDec ((beEnc w n ++ rest).take w) = n := by
  rw [take_append_len _ _ _ (beEnc_length w n), beDec_beEnc w n h]

theorem drop_beEnc (w n : Nat) (rest : Bytes) : (beEnc w n ++ rest).drop w = rest :=
  drop_append_len _ _ _ (beEnc_length w n)

/-! ### vectors -/

theorem encVec_some {b : Nat × Nat} {x e : Bytes} (h : encVec b x = some e) :
    b.1 ≤ x.length ∧ x.length ≤ b.2 ∧ e = beEnc (lenWidth b.2) x.length ++ x := by
  unfold encVec at h
  split at h
  · rename_i hb; exact ⟨hb.1, hb.2, by simpa using h.symm⟩
  · cases h

theorem encVec_length {b : Nat × Nat} {x e : Bytes} (h : encVec b x = some e) : e.length = lenWidth b.2 + x.length := by
  obtain ⟨_, _, rfl⟩ := encVec_some h
  simp [beEnc_length]

theorem decVec_encVec (b : Nat × Nat) (hb : b.2 < 4294967296) (x e rest : Bytes) (h : encVec b x = some e) :
    decVec b (e ++ rest) = some (x, rest) := by
  obtain ⟨h1, h2, rfl⟩ := encVec_some h
  have hw := lenWidth_bound b.2 hb
  unfold decVec
  simp only [List.append_assoc]
  rw [beDec_take_beEnc _ _ _ (by omega), drop_beEnc]
  have hlen : ¬ ((beEnc (lenWidth b.2) x.length ++ (x ++ rest)).length < lenWidth b.2) := by
    simp [beEnc_length]
  simp only [hlen, if_false]
  have : ¬ (x.length < b.1 ∨ b.2 < x.length ∨ (x ++ rest).length < x.length) := by
    simp only [List.length_append]; omega
  simp only [this, if_false]
  simp

/-- what a successful `decVec` says about its input -/
theorem decVec_some {b : Nat × Nat} {bs x rest : Bytes} (h : decVec b bs = some (x, rest)) :
    lenWidth b.2 ≤ bs.length ∧ b.1 ≤ x.length ∧ x.length ≤ b.2 ∧
    x.length = beDec (bs.take (lenWidth b.2)) ∧ bs.drop (lenWidth b.2) = x ++ rest := by
  unfold decVec at h
  simp only at h
  split at h
  · cases h
  rename_i h0
  split at h
  · cases h
  rename_i h1
  simp only [Option.some.injEq, Prod.mk.injEq] at h
  obtain ⟨rfl, rfl⟩ := h
  have hlen : ((List.drop (lenWidth b.2) bs).take (beDec (bs.take (lenWidth b.2)))).length = beDec (bs.take (lenWidth b.2)) := by
    apply take_len; omega
  refine ⟨by omega, by omega, by omega, hlen, ?_⟩
  exact (List.take_append_drop _ _).symm

/-! ### certificate lists -/

theorem encCerts_cons {c : Bytes} {cs : List Bytes} {body : Bytes} (h : encCerts (c :: cs) = some body) :
    ∃ a b, encVec certB c = some a ∧ encCerts cs = some b ∧ body = a ++ b := by
  simp only [encCerts] at h
  cases ha : encVec certB c with
  | none => simp [ha] at h
  | some a =>
    cases hb : encCerts cs with
    | none => simp [ha, hb] at h
    | some b =>
      simp only [ha, hb, Option.some.injEq] at h
      exact ⟨a, b, rfl, rfl, h.symm⟩

theorem decCerts_encCerts (cs : List Bytes) (body : Bytes) (h : encCerts cs = some body) (fuel : Nat)
    (hf : body.length ≤ fuel) : decCerts fuel body = some cs := by
  induction cs generalizing body fuel with
  | nil =>
    simp only [encCerts, Option.some.injEq] at h
    subst h
    cases fuel <;> rfl
  | cons c cs ih =>
    obtain ⟨a, b, ha, hb, rfl⟩ := encCerts_cons h
    have hal := encVec_length ha
    have hw : lenWidth certB.2 = 3 := by rw [certB_eq]; rfl
    have hne : a ++ b ≠ [] := by
      intro hnil
      have : (a ++ b).length = 0 := by rw [hnil]; rfl
      simp only [List.length_append] at this; omega
    cases fuel with
    | zero => simp only [List.length_append] at hf; omega
    | succ f =>
      have hd := decVec_encVec certB (by rw [certB_eq]; decide) c a b ha
      cases hab : a ++ b with
      | nil => exact absurd hab hne
      | cons x xs =>
        rw [← hab]
        unfold decCerts
        rw [hab]
        simp only []
        rw [← hab, hd]
        simp only []
        rw [ih b hb f (by simp only [List.length_append] at hf; omega)]

/-! ### every layout parses as itself -/

theorem decPCEH_encPCEH (pre hash e : Bytes) (h : encPCEH pre hash = some e) : decPCEH e = some (pre, hash) := by
  unfold encPCEH at h
  cases ha : encVec certB pre with
  | none => simp [ha] at h
  | some a =>
    cases hb : encVec pcehHashB hash with
    | none => simp [ha, hb] at h
    | some b =>
      simp only [ha, hb, Option.some.injEq] at h
      subst h
      unfold decPCEH
      rw [decVec_encVec certB (by rw [certB_eq]; decide) pre a b ha]
      simp only []
      have := decVec_encVec pcehHashB (by rw [pcehHashB_eq]; decide) hash b [] hb
      rw [List.append_nil] at this
      rw [this]

theorem decCCH_encCCH (hash e : Bytes) (h : encCCH hash = some e) : decCCH e = some hash := by
  unfold encCCH at h
  unfold decCCH
  have := decVec_encVec cchHashB (by rw [cchHashB_eq]; decide) hash e [] h
  rw [List.append_nil] at this
  rw [this]

theorem encPCE_some {pre : Bytes} {cs : List Bytes} {e : Bytes} (h : encPCE pre cs = some e) :
    ∃ a body b, encVec certB pre = some a ∧ encCerts cs = some body ∧ encVec pceChainB body = some b ∧ e = a ++ b := by
  unfold encPCE at h
  cases ha : encVec certB pre with
  | none => simp [ha] at h
  | some a =>
    cases hb : encCerts cs with
    | none => simp [ha, hb] at h
    | some body =>
      simp only [ha, hb] at h
      cases hc : encVec pceChainB body with
      | none => simp [hc] at h
      | some b =>
        simp only [hc, Option.some.injEq] at h
        exact ⟨a, body, b, rfl, rfl, hc, h.symm⟩

theorem decPCE_encPCE (pre : Bytes) (cs : List Bytes) (e : Bytes) (h : encPCE pre cs = some e) : decPCE e = some (pre, cs) := by
  obtain ⟨a, body, b, ha, hb, hc, rfl⟩ := encPCE_some h
  unfold decPCE
  rw [decVec_encVec certB (by rw [certB_eq]; decide) pre a b ha]
  simp only []
  have := decVec_encVec pceChainB (by rw [pceChainB_eq]; decide) body b [] hc
  rw [List.append_nil] at this
  rw [this]
  simp only []
  rw [decCerts_encCerts cs body hb body.length (Nat.le_refl _)]

theorem encCC_some {cs : List Bytes} {e : Bytes} (h : encCC cs = some e) :
    ∃ body, encCerts cs = some body ∧ encVec ccEntriesB body = some e := by
  unfold encCC at h
  cases hb : encCerts cs with
  | none => simp [hb] at h
  | some body => simp only [hb] at h; exact ⟨body, rfl, h⟩

theorem decCC_encCC (cs : List Bytes) (e : Bytes) (h : encCC cs = some e) : decCC e = some cs := by
  obtain ⟨body, hb, hc⟩ := encCC_some h
  unfold decCC
  have := decVec_encVec ccEntriesB (by rw [ccEntriesB_eq]; decide) body e [] hc
  rw [List.append_nil] at this
  rw [this]
  simp only []
  exact decCerts_encCerts cs body hb body.length (Nat.le_refl _)

/-! ### the arithmetic of DESIGN.md Appendix F -/

/-- a 2-byte-prefixed vector read off a string that starts with a 3-byte length `x` -/
theorem decVec2_on_L3 (b : Nat × Nat) (hb : lenWidth b.2 = 2) (x : Nat) (hx : x < 16777216) (tail hh rest : Bytes)
    (h : decVec b (beEnc 3 x ++ tail) = some (hh, rest)) :
    hh.length = x / 256 ∧ hh.length + rest.length = 1 + tail.length := by
  obtain ⟨_, _, _, h4, h5⟩ := decVec_some h
  rw [hb] at h4 h5
  have e3 : beEnc 3 x ++ tail = beEnc 2 (x / 256) ++ ([UInt8.ofNat (x % 256)] ++ tail) := by
    rw [beEnc_succ 2 x, List.append_assoc]
  rw [e3] at h4 h5
  rw [beDec_take_beEnc 2 (x / 256) _ (by omega)] at h4
  rw [drop_beEnc] at h5
  have := congrArg List.length h5
  simp only [List.length_append, List.length_singleton, List.length_cons, List.length_nil] at this
  exact ⟨h4, by omega⟩

/-- a 3-byte-prefixed vector read off a string that starts with a 2-byte length `n` followed by at least one byte -/
theorem decVec3_on_L2 (b : Nat × Nat) (hb : lenWidth b.2 = 3) (n : Nat) (hn : n < 65536) (h0 : UInt8) (t x rest : Bytes)
    (h : decVec b (beEnc 2 n ++ h0 :: t) = some (x, rest)) :
    x.length = n * 256 + h0.toNat ∧ x.length + rest.length = t.length := by
  obtain ⟨_, _, _, h4, h5⟩ := decVec_some h
  rw [hb] at h4 h5
  have e3 : beEnc 2 n ++ h0 :: t = (beEnc 2 n ++ [h0]) ++ t := by simp
  rw [e3] at h4 h5
  have hl : (beEnc 2 n ++ [h0]).length = 3 := by simp [beEnc_length]
  rw [take_append_len _ _ _ hl, beDec_append_single, beDec_beEnc 2 n (by omega)] at h4
  rw [drop_append_len _ _ _ hl] at h5
  have := congrArg List.length h5
  simp only [List.length_append] at this
  exact ⟨h4, by omega⟩

/-- a `CertificateChainHash` string is not a `PrecertChainEntryHash` -/
theorem decPCEH_encCCH (hash e : Bytes) (h : encCCH hash = some e) : decPCEH e = none := by
  obtain ⟨_, h2, rfl⟩ := encVec_some h
  rw [cchHashB_eq] at h2
  have hw : lenWidth cchHashB.2 = 2 := by rw [cchHashB_eq]; rfl
  rw [hw]
  unfold decPCEH
  cases hd : decVec certB (beEnc 2 hash.length ++ hash) with
  | none => rfl
  | some p =>
    obtain ⟨pre, r⟩ := p
    exfalso
    cases hash with
    | nil =>
      obtain ⟨h1, _⟩ := decVec_some hd
      rw [certB_eq] at h1
      simp [beEnc_length, lenWidth] at h1
    | cons h0 t =>
      have := decVec3_on_L2 certB (by rw [certB_eq]; rfl) (h0 :: t).length (by simp only at h2; omega) h0 t pre r hd
      simp only [List.length_cons] at this h2
      omega

/-- a `PrecertChainEntry` string is neither hash layout -/
theorem decPCEH_encPCE (pre : Bytes) (cs : List Bytes) (e : Bytes) (h : encPCE pre cs = some e) : decPCEH e = none := by
  obtain ⟨a, body, b, ha, hb, hc, rfl⟩ := encPCE_some h
  unfold decPCEH
  rw [decVec_encVec certB (by rw [certB_eq]; decide) pre a b ha]
  simp only []
  obtain ⟨_, hc2, rfl⟩ := encVec_some hc
  rw [pceChainB_eq] at hc2
  have hw : lenWidth pceChainB.2 = 3 := by rw [pceChainB_eq]; rfl
  rw [hw]
  cases hd : decVec pcehHashB (beEnc 3 body.length ++ body) with
  | none => rfl
  | some p =>
    obtain ⟨hh, rest⟩ := p
    have := decVec2_on_L3 pcehHashB (by rw [pcehHashB_eq]; rfl) body.length (by simp only at hc2; omega) body hh rest hd
    cases rest with
    | nil => exfalso; simp only [List.length_nil] at this; omega
    | cons _ _ => rfl

theorem decCCH_encPCE (pre : Bytes) (cs : List Bytes) (e : Bytes) (h : encPCE pre cs = some e) : decCCH e = none := by
  obtain ⟨a, body, b, ha, hb, hc, rfl⟩ := encPCE_some h
  obtain ⟨_, ha2, rfl⟩ := encVec_some ha
  rw [certB_eq] at ha2
  have hw : lenWidth certB.2 = 3 := by rw [certB_eq]; rfl
  rw [hw]
  unfold decCCH
  cases hd : decVec cchHashB (beEnc 3 pre.length ++ pre ++ b) with
  | none => rfl
  | some p =>
    obtain ⟨hh, rest⟩ := p
    rw [List.append_assoc] at hd
    have := decVec2_on_L3 cchHashB (by rw [cchHashB_eq]; rfl) pre.length (by simp only at ha2; omega) (pre ++ b) hh rest hd
    cases rest with
    | nil => exfalso; simp only [List.length_nil, List.length_append] at this; omega
    | cons _ _ => rfl

/-- a `CertificateChain` string is neither hash layout -/
theorem decPCEH_encCC (cs : List Bytes) (e : Bytes) (h : encCC cs = some e) : decPCEH e = none := by
  obtain ⟨body, hb, hc⟩ := encCC_some h
  obtain ⟨_, hc2, rfl⟩ := encVec_some hc
  rw [ccEntriesB_eq] at hc2
  have hw : lenWidth ccEntriesB.2 = 3 := by rw [ccEntriesB_eq]; rfl
  rw [hw]
  unfold decPCEH
  cases hd : decVec certB (beEnc 3 body.length ++ body) with
  | none => rfl
  | some p =>
    obtain ⟨pre, r⟩ := p
    simp only []
    obtain ⟨_, _, _, h4, h5⟩ := decVec_some hd
    have hw' : lenWidth certB.2 = 3 := by rw [certB_eq]; rfl
    rw [hw'] at h4 h5
    rw [beDec_take_beEnc 3 _ _ (by simp only at hc2; omega)] at h4
    rw [drop_beEnc] at h5
    have := congrArg List.length h5
    simp only [List.length_append] at this
    have hr : r = [] := List.eq_nil_of_length_eq_zero (by omega)
    subst hr
    cases hd2 : decVec pcehHashB [] with
    | none => rfl
    | some q =>
      obtain ⟨x, y⟩ := q
      obtain ⟨h1, _⟩ := decVec_some hd2
      rw [pcehHashB_eq] at h1
      simp [lenWidth] at h1

theorem decCCH_encCC (cs : List Bytes) (e : Bytes) (h : encCC cs = some e) : decCCH e = none := by
  obtain ⟨body, hb, hc⟩ := encCC_some h
  obtain ⟨_, hc2, rfl⟩ := encVec_some hc
  rw [ccEntriesB_eq] at hc2
  have hw : lenWidth ccEntriesB.2 = 3 := by rw [ccEntriesB_eq]; rfl
  rw [hw]
  unfold decCCH
  cases hd : decVec cchHashB (beEnc 3 body.length ++ body) with
  | none => rfl
  | some p =>
    obtain ⟨hh, rest⟩ := p
    have := decVec2_on_L3 cchHashB (by rw [cchHashB_eq]; rfl) body.length (by simp only at hc2; omega) body hh rest hd
    cases rest with
    | nil => exfalso; simp only [List.length_nil] at this; omega
    | cons _ _ => rfl

/-! ### store / cache -/

theorem lookup_cons_eq (m : Map) (k v h : Bytes) :
    List.lookup h ((k, v) :: m) = if h == k then some v else m.lookup h := by
  simp only [List.lookup]
  cases h == k <;> rfl

theorem lookup_filter_ne (m : Map) (k h v : Bytes) (hl : (m.filter (fun e => e.1 != k)).lookup h = some v) :
    m.lookup h = some v := by
  induction m with
  | nil => simp at hl
  | cons e m ih =>
    obtain ⟨a, b⟩ := e
    by_cases hk : a = k
    · subst hk
      have : ((a, b) :: m).filter (fun e => e.1 != a) = m.filter (fun e => e.1 != a) := by simp [List.filter]
      rw [this] at hl
      have h1 := ih hl
      rw [lookup_cons_eq]
      by_cases hh : h = a
      · -- h = a cannot be found in the filtered list
        exfalso
        subst hh
        clear ih h1 this
        induction m with
        | nil => simp at hl
        | cons e m ih2 =>
          obtain ⟨c, d⟩ := e
          by_cases hc : c = h
          · subst hc; simp [List.filter] at hl; exact ih2 hl
          · have hne : (c != h) = true := by simpa using hc
            simp only [List.filter, hne] at hl
            rw [lookup_cons_eq] at hl
            have : (h == c) = false := by simpa using (fun e => hc e.symm)
            simp only [this, Bool.false_eq_true, if_false] at hl
            exact ih2 hl
      · have : (h == a) = false := by simpa using hh
        simp [this, h1]
    · have hne : (a != k) = true := by simpa using hk
      simp only [List.filter, hne] at hl
      rw [lookup_cons_eq] at hl ⊢
      by_cases hh : (h == a) = true
      · simpa [hh] using hl
      · simp only [hh, Bool.false_eq_true, if_false] at hl ⊢
        exact ih hl

theorem lookup_setKey (m : Map) (h v k x : Bytes) (hl : (setKey m h v).lookup k = some x) :
    (k = h ∧ x = v) ∨ m.lookup k = some x := by
  unfold setKey at hl
  rw [lookup_cons_eq] at hl
  by_cases hk : (k == h) = true
  · simp only [hk, if_true, Option.some.injEq] at hl
    exact Or.inl ⟨by simpa using hk, hl.symm⟩
  · simp only [hk, Bool.false_eq_true, if_false] at hl
    exact Or.inr (lookup_filter_ne _ _ _ _ hl)

/-- what is in the store or in the cache was handed to `storage.Add` (or written by a tamper) under that key -/
def InvK (s : State) : Prop :=
  (∀ h v, s.store.lookup h = some v → (h, v) ∈ s.known) ∧ (∀ h v, s.cache.lookup h = some v → (h, v) ∈ s.known)

/-- honest histories: every known pair is the content-addressed one and is what the store holds -/
def InvH (c : Bytes → Bytes) (s : State) : Prop :=
  ∀ h v, (h, v) ∈ s.known → v = c h ∧ s.store.lookup h = some v

/-- the cache only holds what the store holds -/
def Inv (s : State) : Prop := ∀ h v, s.cache.lookup h = some v → s.store.lookup h = some v

theorem invK_init : InvK State.init := ⟨by intro h v hl; simp [State.init] at hl, by intro h v hl; simp [State.init] at hl⟩
theorem invH_init (c : Bytes → Bytes) : InvH c State.init := by intro h v hm; simp [State.init] at hm

theorem invK_step (s : State) (op : Op) (hi : InvK s) : InvK (step s op) := by
  obtain ⟨hs, hc⟩ := hi
  cases op with
  | add k x =>
    simp only [step]
    split
    · exact ⟨fun h v hl => List.mem_cons_of_mem _ (hs h v hl), fun h v hl => List.mem_cons_of_mem _ (hc h v hl)⟩
    · refine ⟨?_, fun h v hl => List.mem_cons_of_mem _ (hc h v hl)⟩
      intro h v hl
      simp only at hl ⊢
      rw [lookup_cons_eq] at hl
      by_cases hk : (h == k) = true
      · simp only [hk, if_true, Option.some.injEq] at hl
        have : h = k := by simpa using hk
        subst this; subst hl
        exact List.mem_cons_self ..
      · simp only [hk, Bool.false_eq_true, if_false] at hl
        exact List.mem_cons_of_mem _ (hs h v hl)
  | cacheSet k x =>
    simp only [step]
    split
    · rename_i hen
      refine ⟨hs, ?_⟩
      intro h v hl
      simp only at hl ⊢
      rw [lookup_cons_eq] at hl
      by_cases hk : (h == k) = true
      · simp only [hk, if_true, Option.some.injEq] at hl
        have : h = k := by simpa using hk
        subst this; subst hl
        simpa [cacheSetEnabled] using hen
      · simp only [hk, Bool.false_eq_true, if_false] at hl
        exact hc h v hl
    · exact ⟨hs, hc⟩
  | evict k => exact ⟨hs, fun h v hl => hc h v (lookup_filter_ne _ _ _ _ hl)⟩
  | expire => exact ⟨hs, by intro h v hl; simp [step] at hl⟩
  | delete k => exact ⟨fun h v hl => hs h v (lookup_filter_ne _ _ _ _ hl), hc⟩
  | tamper k x =>
    simp only [step]
    refine ⟨?_, fun h v hl => List.mem_cons_of_mem _ (hc h v hl)⟩
    intro h v hl
    rcases lookup_setKey _ _ _ _ _ hl with ⟨rfl, rfl⟩ | hl'
    · exact List.mem_cons_self ..
    · exact List.mem_cons_of_mem _ (hs h v hl')

theorem invK_run (s : State) (ops : List Op) (hi : InvK s) : InvK (run s ops) := by
  induction ops generalizing s with
  | nil => exact hi
  | cons op ops ih => exact ih _ (invK_step s op hi)

theorem invH_step (c : Bytes → Bytes) (s : State) (op : Op) (ho : op.honest c) (hk : InvK s) (hi : InvH c s) :
    InvH c (step s op) := by
  cases op with
  | add k x =>
    simp only [Op.honest] at ho
    subst ho
    simp only [step]
    split
    · rename_i hex
      intro h v hm
      simp only at hm ⊢
      rcases List.mem_cons.mp hm with he | hm
      · simp only [Prod.mk.injEq] at he
        obtain ⟨rfl, rfl⟩ := he
        refine ⟨rfl, ?_⟩
        cases hl : s.store.lookup h with
        | none => simp [hl] at hex
        | some v' =>
          have := (hi h v' (hk.1 h v' hl)).1
          rw [this]
      · exact hi h v hm
    · rename_i hex
      intro h v hm
      simp only at hm ⊢
      rw [lookup_cons_eq]
      rcases List.mem_cons.mp hm with he | hm
      · simp only [Prod.mk.injEq] at he
        obtain ⟨rfl, rfl⟩ := he
        exact ⟨rfl, by simp⟩
      · obtain ⟨h1, h2⟩ := hi h v hm
        refine ⟨h1, ?_⟩
        by_cases hkk : (h == k) = true
        · have : h = k := by simpa using hkk
          subst this
          rw [h2] at hex; simp at hex
        · simp only [hkk, Bool.false_eq_true, if_false]; exact h2
  | cacheSet k x => simp only [step]; split <;> exact hi
  | evict k => exact hi
  | expire => exact hi
  | delete k => exact absurd ho (by simp [Op.honest])
  | tamper k x => exact absurd ho (by simp [Op.honest])

theorem invH_run (c : Bytes → Bytes) (s : State) (ops : List Op) (ho : ∀ op ∈ ops, op.honest c) (hk : InvK s) (hi : InvH c s) :
    InvH c (run s ops) := by
  induction ops generalizing s with
  | nil => exact hi
  | cons op ops ih =>
    exact ih _ (fun o hm => ho o (List.mem_cons_of_mem _ hm)) (invK_step s op hk)
      (invH_step c s op (ho op (List.mem_cons_self ..)) hk hi)

theorem inv_of (c : Bytes → Bytes) (s : State) (hk : InvK s) (hi : InvH c s) : Inv s :=
  fun h v hl => (hi h v (hk.2 h v hl)).2

theorem getByHashRaw_of_inv (s : State) (hi : Inv s) (h : Bytes) :
    getByHashRaw s {} h = match s.store.lookup h with
      | some v => .ok v
      | none => .error .unknownHash := by
  unfold getByHashRaw
  simp only [Bool.false_eq_true, if_false]
  cases hc : s.cache.lookup h with
  | none => rfl
  | some v => rw [hi h v hc]

theorem run_append (s : State) (a b : List Op) : run s (a ++ b) = run (run s a) b := by
  simp [run, List.foldl_append]

end CTV.Model.ChainStore
