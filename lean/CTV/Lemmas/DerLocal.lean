import CTV.Lemmas.DerTotal
/-!
# Locality: what follows a complete element does not influence how the element is decoded.
-/
namespace CTV.Der

theorem parseBase128Go_append (d : Dialect) (more : Bytes) : ∀ (bs : Bytes) (s acc v : Nat) (r : Bytes),
    parseBase128Go d s acc bs = .ok (v, r) → parseBase128Go d s acc (bs ++ more) = .ok (v, r ++ more)
  | [], _, _, _, _, h => by simp [parseBase128Go] at h
  | b :: bs, s, acc, v, r, h => by
    simp only [parseBase128Go, List.cons_append] at h ⊢
    by_cases h1 : s = 5
    · rw [if_pos h1] at h; cases h
    · rw [if_neg h1] at h ⊢
      by_cases h2 : (d.b128min && s == 0 && b == 0x80) = true
      · rw [if_pos h2] at h; cases h
      · rw [if_neg h2] at h ⊢
        by_cases h3 : b.toNat < 128
        · rw [if_pos h3] at h ⊢
          by_cases h4 : acc * 128 + b.toNat % 128 > 2147483647
          · rw [if_pos h4] at h; cases h
          · rw [if_neg h4] at h ⊢; cases h; rfl
        · rw [if_neg h3] at h ⊢
          exact parseBase128Go_append d more bs _ _ v r h

theorem parseLongLen_append (more : Bytes) : ∀ (n acc : Nat) (bs : Bytes) (v : Nat) (r : Bytes),
    parseLongLen n acc bs = .ok (v, r) → parseLongLen n acc (bs ++ more) = .ok (v, r ++ more)
  | 0, _, bs, v, r, h => by simp [parseLongLen] at h ⊢; obtain ⟨rfl, rfl⟩ := h; exact ⟨rfl, rfl⟩
  | n+1, _, [], _, _, h => by simp [parseLongLen] at h
  | n+1, acc, b :: bs, v, r, h => by
    simp only [parseLongLen, List.cons_append] at h ⊢
    by_cases h1 : acc ≥ 2^23
    · rw [if_pos h1] at h; cases h
    · rw [if_neg h1] at h ⊢
      by_cases h2 : acc * 256 + b.toNat = 0
      · rw [if_pos h2] at h; cases h
      · rw [if_neg h2] at h ⊢
        exact parseLongLen_append more n _ bs v r h

theorem parseLen_append (more bs : Bytes) (v : Nat) (r : Bytes) (h : parseLen bs = .ok (v, r)) :
    parseLen (bs ++ more) = .ok (v, r ++ more) := by
  match bs, h with
  | [], h => simp [parseLen] at h
  | l :: rest, h =>
    simp only [parseLen, List.cons_append] at h ⊢
    by_cases h1 : l.toNat < 128
    · rw [if_pos h1] at h ⊢; cases h; rfl
    · rw [if_neg h1] at h ⊢
      by_cases h2 : l.toNat % 128 = 0
      · rw [if_pos h2] at h; cases h
      · rw [if_neg h2] at h ⊢
        cases h3 : parseLongLen (l.toNat % 128) 0 rest with
        | error e => rw [h3] at h; cases h
        | ok x =>
          obtain ⟨len, r'⟩ := x
          rw [h3] at h
          rw [parseLongLen_append more _ _ _ _ _ h3]
          simp only [] at h ⊢
          by_cases h4 : len < 128
          · rw [if_pos h4] at h; cases h
          · rw [if_neg h4] at h ⊢; cases h; rfl

theorem parseTag_append (d : Dialect) (more bs : Bytes) (c : Nat) (k : Bool) (t : Nat) (r : Bytes)
    (h : parseTag d bs = .ok (c, k, t, r)) : parseTag d (bs ++ more) = .ok (c, k, t, r ++ more) := by
  match bs, h with
  | [], h => simp [parseTag] at h
  | b :: rest, h =>
    simp only [parseTag, List.cons_append] at h ⊢
    by_cases h1 : b.toNat % 32 = 31
    · rw [if_pos h1] at h ⊢
      cases h2 : parseBase128 d rest with
      | error e => rw [h2] at h; cases h
      | ok x =>
        obtain ⟨tg, r'⟩ := x
        rw [h2] at h
        have := parseBase128Go_append d more _ _ _ _ _ h2
        unfold parseBase128 at *
        rw [this]
        simp only [] at h ⊢
        by_cases h3 : tg < 31
        · rw [if_pos h3] at h; cases h
        · rw [if_neg h3] at h ⊢; cases h; rfl
    · rw [if_neg h1] at h ⊢; cases h; rfl

theorem parseTagLen_append (d : Dialect) (more bs : Bytes) (tl : TL) (r : Bytes)
    (h : parseTagLen d bs = .ok (tl, r)) : parseTagLen d (bs ++ more) = .ok (tl, r ++ more) := by
  unfold parseTagLen at h ⊢
  cases h1 : parseTag d bs with
  | error e => rw [h1] at h; cases h
  | ok x =>
    obtain ⟨c, k, t, r1⟩ := x
    rw [h1] at h
    rw [parseTag_append d more _ _ _ _ _ h1]
    simp only [] at h ⊢
    cases h2 : parseLen r1 with
    | error e => rw [h2] at h; cases h
    | ok y =>
      obtain ⟨len, r2⟩ := y
      rw [h2] at h
      rw [parseLen_append more _ _ _ h2]
      simp only [] at h ⊢
      cases h; rfl

/-- for a field without an explicit tag: a header that delimits a complete element ending the input delimits the
same element when more octets follow -/
theorem header_append (d : Dialect) (t : ATy) (p : FP) (c more : Bytes) (hex : p.explicit = false)
    (tl : TL) (utag : Nat) (inner consumed : Bytes) (outer : Option (Nat × Nat))
    (h : header d t p c = .ok (.body tl utag inner [] consumed outer)) :
    header d t p (c ++ more) = .ok (.body tl utag inner more consumed outer) := by
  unfold header at h ⊢
  cases h0 : parseTagLen d c with
  | error e => rw [h0] at h; cases h
  | ok x =>
    obtain ⟨tl0, r1⟩ := x
    rw [h0] at h
    rw [parseTagLen_append d more _ _ _ h0]
    simp only [hex, Bool.false_eq_true, if_false] at h ⊢
    unfold headerBody at h ⊢
    by_cases hm : tagMismatch t p tl0 = true
    · rw [if_pos hm] at h; unfold headerMiss at h; split at h <;> cases h
    · rw [if_neg hm] at h ⊢
      by_cases hl : tl0.len > r1.length
      · rw [if_pos hl] at h; cases h
      · rw [if_neg hl] at h
        have hl' : ¬ tl0.len > (r1 ++ more).length := by simp; omega
        rw [if_neg hl']
        simp only [Except.ok.injEq, Hdr.body.injEq] at h ⊢
        obtain ⟨rfl, rfl, rfl, hrest, rfl, rfl⟩ := h
        have hle : tl0.len ≤ r1.length := by omega
        have hdrop : r1.drop tl0.len = [] := hrest
        have hlen : r1.length = tl0.len := by
          have := congrArg List.length hdrop
          simp at this; omega
        refine ⟨rfl, rfl, ?_, ?_, ?_, rfl⟩
        · rw [List.take_append_of_le_length hle]
        · rw [List.drop_append_of_le_length hle, hdrop]; rfl
        · simp only [hdrop, List.length_nil, Nat.sub_zero, List.take_length]
          rw [List.drop_append_of_le_length hle, hdrop]
          simp

/-- **locality of `parseField`** for a field without explicit tag that is not `interface{}`: if the element ends the
input, then with `more` appended the outcome is the same in every mode, with `more` as the remainder. -/
theorem fieldShell_append (d : Dialect) (m : Mode) (t : ATy) (p : FP) (c more : Bytes) (hex : p.explicit = false)
    (hany : t.isAny = false) (tl : TL) (utag : Nat) (inner consumed : Bytes) (outer : Option (Nat × Nat))
    (hh : header (d.forMode m) t p c = .ok (.body tl utag inner [] consumed outer))
    (k : TL → Nat → Bytes → Bytes → Except Err AVal) :
    fieldShell d m t p (c ++ more) k =
      (match fieldShell d m t p c k with
       | .ok (v, _) => .ok (v, more)
       | .error e => .error e) := by
  have hc : c ≠ [] := by
    intro hc; subst hc
    unfold header at hh
    simp [parseTagLen, parseTag] at hh
  have hc' : c ++ more ≠ [] := by simp [hc]
  unfold fieldShell
  rw [if_neg hc, if_neg hc', hany]
  simp only [Bool.false_eq_true, if_false]
  rw [hh, header_append _ t p c more hex _ _ _ _ _ hh]
  simp only [List.length_nil, Nat.add_zero]
  -- `canonOuter` looks at the remainder only for explicit wrappers (`outer = some _`), and here `outer = none`
  have hout : outer = none := by
    unfold header at hh
    cases h0 : parseTagLen (d.forMode m) c with
    | error e => rw [h0] at hh; cases hh
    | ok x =>
      rw [h0] at hh
      simp only [hex, Bool.false_eq_true, if_false] at hh
      unfold headerBody at hh
      split at hh
      · unfold headerMiss at hh; split at hh <;> cases hh
      · split at hh
        · cases hh
        · simp only [Except.ok.injEq, Hdr.body.injEq] at hh
          exact hh.2.2.2.2.2.symm
  subst hout
  -- the two sides now differ only in the remainder
  generalize hb : (m.isCanon && !(canonParams t p && canonOuter tl inner.length none)) = b
  have hb' : (m.isCanon && !(canonParams t p && canonOuter tl (inner.length + more.length) none)) = b := hb
  rw [hb']
  cases b with
  | true => rfl
  | false =>
    simp only [Bool.false_eq_true, if_false]
    cases k tl utag inner consumed with
    | error e => rfl
    | ok v =>
      simp only []
      cases (m.isCanon && omitted t p v) <;> rfl

end CTV.Der
