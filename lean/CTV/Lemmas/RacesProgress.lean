import CTV.Lemmas.RacesTerm
/-! Progress of the `GetSCTs` race model: while it has not returned and no `SubmitToLog` call is pending, some action
other than cancellation is enabled. -/
namespace CTV.Model.Races

theorem countP_eq_length_of_all {α : Type} (L : List α) (p : α → Bool) (h : ∀ x ∈ L, p x = true) : L.countP p = L.length := by
  induction L with
  | nil => rfl
  | cons y ys ih =>
    have := ih (fun x hx => h x (List.mem_cons_of_mem _ hx))
    simp [List.countP_cons, h y List.mem_cons_self, this]

theorem progress {r : Run} {s : St} (h : Inv r s) (hret : s.ret = none)
    (hno : ∀ g l, s.gor g l ≠ .inflight) : ∃ o, o ≠ Op.ctxDone ∧ (step r s o).isSome = true := by
  by_cases h1 : ∃ g l, g ∈ names r.cfg ∧ l ∈ r.session g ∧ s.gor g l = .waiting
  · obtain ⟨g, l, hg, hl, hw⟩ := h1
    exact ⟨.timerFire g l, by simp, by simp [step, hg, hl, hw]⟩
  by_cases h2 : ∃ g l, s.gor g l = .checked
  · obtain ⟨g, l, hc⟩ := h2
    refine ⟨.request g l, by simp, ?_⟩
    simp only [step, hc, if_true]
    split <;> rfl
  -- every goroutine has finished
  have hfin : ∀ g ∈ names r.cfg, ∀ l ∈ r.session g, s.gor g l = .finished := by
    intro g hg l hl
    cases hs : s.gor g l with
    | waiting => exact absurd ⟨g, l, hg, hl, hs⟩ h1
    | checked => exact absurd ⟨g, l, hs⟩ h2
    | inflight => exact absurd hs (hno g l)
    | finished => rfl
  by_cases h3 : ∃ g, g ∈ names r.cfg ∧ s.gdone g = none
  · obtain ⟨g, hg, hd⟩ := h3
    refine ⟨.groupDone g, by simp, ?_⟩
    have : finishedCount r s g = (r.session g).length := by
      unfold finishedCount
      apply countP_eq_length_of_all
      intro l hl
      simp [hfin g hg l hl]
    simp [step, hg, hd, this]
  by_cases h4 : ∃ g, g ∈ names r.cfg ∧ s.recvd g = none
  · obtain ⟨g, hg, hr⟩ := h4
    refine ⟨.recv g, by simp, ?_⟩
    cases hd : s.gdone g with
    | none => exact absurd ⟨g, hg, hd⟩ h3
    | some b => simp [step, hd, hg, hr, hret]
  · refine ⟨.collect, by simp, ?_⟩
    have : (names r.cfg).all (fun g => (s.recvd g).isSome) = true := by
      rw [List.all_eq_true]
      intro g hg
      cases hr : s.recvd g with
      | none => exact absurd ⟨g, hg, hr⟩ h4
      | some b => rfl
    simp [step, hret, this]

end CTV.Model.Races
