import CTV.Model.ChainCheck
/-!
Helper definitions and lemmas for the C02 theorems: the declarative notions (`Link`, `Linked`,
`Good`) and the search invariant of `buildChains`.
-/
instance {ε α} [DecidableEq ε] [DecidableEq α] : DecidableEq (Except ε α)
  | .ok a, .ok b => if h : a = b then isTrue (by rw [h]) else isFalse (by intro e; cases e; exact h rfl)
  | .error a, .error b => if h : a = b then isTrue (by rw [h]) else isFalse (by intro e; cases e; exact h rfl)
  | .ok _, .error _ => isFalse (by intro e; cases e)
  | .error _, .ok _ => isFalse (by intro e; cases e)

namespace C02
open CTV.Model.ChainCheck

/-- `R` holds between every two neighbours of the list. -/
def Linked {α} (R : α → α → Prop) : List α → Prop
  | [] => True
  | [_] => True
  | a :: b :: rest => R a b ∧ Linked R (b :: rest)

theorem Linked.tail {α} {R : α → α → Prop} : ∀ {l : List α}, Linked R l → Linked R l.tail
  | [], _ => trivial
  | [_], _ => trivial
  | _ :: _ :: _, h => h.2

theorem linked_snoc {α} {R : α → α → Prop} : ∀ (l : List α) (c x : α), Linked R l → l.getLast? = some c → R c x → Linked R (l ++ [x])
  | [], _, _, _, h, _ => by simp at h
  | [a], c, x, _, h, r => by
    simp at h; subst h; exact ⟨r, trivial⟩
  | a :: b :: rest, c, x, hl, h, r => by
    have : (b :: rest).getLast? = some c := by simpa [List.getLast?_cons_cons] using h
    exact ⟨hl.1, linked_snoc (b :: rest) c x hl.2 this r⟩

/-- The child names the parent and `CheckSignatureFrom` succeeds (CA conditions, key usage, known key
algorithm, signature). -/
def Link (sigOK : SigOracle) (child parent : Cert) : Prop :=
  child.issuer = parent.subject ∧ checkSignatureFrom sigOK child parent = true

/-- What `isValid` demands of an intermediate. -/
def IsInterCA (c : Cert) : Prop := c.bcValid = true ∧ c.isCA = true

/-- A complete chain as `buildChains` returns it: from the leaf `l` over linked intermediates of the pool
(each a CA) to a member of the roots pool, no certificate twice, at most `B` long. -/
structure Good (E : Env) (l : Cert) (B : Nat) (p : List Cert) : Prop where
  head : p.head? = some l
  linked : Linked (Link E.sigOK) p
  last : ∃ r, p.getLast? = some r ∧ r ∈ E.roots
  inner : ∀ x ∈ p.tail.dropLast, x ∈ E.inter ∧ IsInterCA x
  nodup : (p.map (·.id)).Nodup
  len : 2 ≤ p.length ∧ p.length ≤ B

/-- The `currentChain` argument of an invocation `c.buildChains(…)`. -/
structure Partial (E : Env) (l c : Cert) (cur : List Cert) : Prop where
  head : cur.head? = some l
  last : cur.getLast? = some c
  linked : Linked (Link E.sigOK) cur
  inner : ∀ x ∈ cur.tail, x ∈ E.inter ∧ IsInterCA x
  nodup : (cur.map (·.id)).Nodup

def CacheGood (E : Env) (l : Cert) (B : Nat) (cache : List (Nat × List (List Cert))) : Prop :=
  ∀ kv ∈ cache, ∀ p ∈ kv.2, Good E l B p

def ResGood (E : Env) (l : Cert) (B : Nat) (r : Res) : Prop :=
  (∀ p ∈ r.chains, Good E l B p) ∧ CacheGood E l B r.st.cache

theorem flag_nameChecks : verifyFlag "DisableNameChecks" = false := by decide

theorem not_any_equal {cur : List Cert} {x : Cert} (h : cur.any (·.equal x) = false) : x.id ∉ cur.map (·.id) := by
  intro hm
  obtain ⟨y, hy, hid⟩ := List.mem_map.1 hm
  have := List.any_eq_false.1 h y hy
  simp [Cert.equal, hid] at this

theorem isValid_name {t : CertType} {cur : List Cert} {c x : Cert} (hl : cur.getLast? = some c)
    (h : isValid t cur x = true) : c.issuer = x.subject := by
  unfold isValid at h
  simp only [hl, flag_nameChecks] at h
  by_cases hn : c.issuer = x.subject
  · exact hn
  · simp [Gen.isValidNameGuard, Gen.isValidNameMismatch, hn] at h

theorem isValid_inter {cur : List Cert} {x : Cert} (h : isValid .intermediate cur x = true) : IsInterCA x := by
  unfold isValid at h
  unfold IsInterCA
  cases hb : x.bcValid <;> cases hc : x.isCA <;> simp_all [Gen.isValidNotCA]

theorem lookup_mem {β} : ∀ (l : List (Nat × β)) (k : Nat) (v : β), l.lookup k = some v → (k, v) ∈ l
  | [], _, _, h => by simp [List.lookup] at h
  | (k', v') :: rest, k, v, h => by
    simp only [List.lookup] at h
    split at h
    · rename_i heq
      have : k = k' := by simpa using heq
      simp at h; subst h; subst this; simp
    · exact List.mem_cons_of_mem _ (lookup_mem rest k v h)

theorem ne_nil_of_getLast? {α} {l : List α} {c : α} (h : l.getLast? = some c) : l ≠ [] := by
  intro e; subst e; simp at h

theorem good_snoc {E : Env} {l c : Cert} {B : Nat} {cur : List Cert} {r : Cert} (hP : Partial E l c cur)
    (hr : r ∈ E.roots) (hl : Link E.sigOK c r) (hid : r.id ∉ cur.map (·.id)) (hB : cur.length + 1 ≤ B) :
    Good E l B (cur ++ [r]) := by
  have hne := ne_nil_of_getLast? hP.last
  obtain ⟨a, t, rfl⟩ := List.exists_cons_of_ne_nil hne
  refine ⟨?_, linked_snoc _ _ _ hP.linked hP.last hl, ⟨r, List.getLast?_concat, hr⟩, ?_, ?_, ?_⟩
  · simpa using hP.head
  · intro x hx
    have : x ∈ t := by simpa [List.dropLast_concat] using hx
    exact hP.inner x (by simpa using this)
  · have := hP.nodup
    simp only [List.map_append, List.map_cons, List.map_nil]
    rw [List.nodup_append]
    refine ⟨by simpa using this, by simp, ?_⟩
    intro x hx y hy
    simp at hy; subst hy
    intro e; subst e
    exact hid (by simpa using hx)
  · simp at hB ⊢; omega

theorem partial_snoc {E : Env} {l c : Cert} {cur : List Cert} {i : Cert} (hP : Partial E l c cur)
    (hi : i ∈ E.inter) (hca : IsInterCA i) (hl : Link E.sigOK c i) (hid : i.id ∉ cur.map (·.id)) :
    Partial E l i (cur ++ [i]) := by
  have hne := ne_nil_of_getLast? hP.last
  obtain ⟨a, t, rfl⟩ := List.exists_cons_of_ne_nil hne
  refine ⟨by simpa using hP.head, List.getLast?_concat, linked_snoc _ _ _ hP.linked hP.last hl, ?_, ?_⟩
  · intro x hx
    have : x ∈ t ∨ x = i := by simpa using hx
    rcases this with h | h
    · exact hP.inner x (by simpa using h)
    · subst h; exact ⟨hi, hca⟩
  · have := hP.nodup
    simp only [List.map_append, List.map_cons, List.map_nil]
    rw [List.nodup_append]
    refine ⟨by simpa using this, by simp, ?_⟩
    intro x hx y hy
    simp at hy; subst hy
    intro e; subst e
    exact hid (by simpa using hx)

/-- `findPotentialParents` over the regenerated conditions, spelled out: when the child has an authority key
identifier, the pool members with that subject key identifier (in pool order) — and **only if there is none**
the members with the issuer's name; without an identifier, the members with the issuer's name. -/
theorem findPotentialParents_eq (pool : List Cert) (c : Cert) :
    findPotentialParents pool c =
      (match c.aki with
       | some k => if (pool.filter (fun p => p.ski == some k)).isEmpty then pool.filter (fun p => p.subject == c.issuer)
                   else pool.filter (fun p => p.ski == some k)
       | none => pool.filter (fun p => p.subject == c.issuer)) := by
  unfold findPotentialParents Gen.fppUseKeyId Gen.fppFallBackToNames
  cases h : c.aki <;> simp

theorem mem_findPotentialParents {pool : List Cert} {c x : Cert} (h : x ∈ findPotentialParents pool c) : x ∈ pool := by
  unfold findPotentialParents at h
  dsimp only at h
  repeat' split at h
  all_goals first | exact (List.mem_filter.1 h).1 | (simp at h)

theorem extend_good {E : Env} {l c : Cert} {B : Nat} {cur : List Cert} (rec : Cert → List Cert → St → Res)
    (hP : Partial E l c cur) (hB : cur.length + 1 ≤ B)
    (hrec : ∀ i st, Partial E l i (cur ++ [i]) → CacheGood E l B st.cache → ResGood E l B (rec i (cur ++ [i]) st))
    (t : CertType) (cand : Cert) (hroot : t ≠ .intermediate → cand ∈ E.roots) (hinter : t = .intermediate → cand ∈ E.inter)
    (hid : cand.id ∉ cur.map (·.id)) (hlink : Link E.sigOK c cand) (hca : t = .intermediate → IsInterCA cand)
    (a : Res) (ha : ResGood E l B a) : ResGood E l B (extend rec cur t a cand) := by
  unfold extend
  split
  · -- intermediate
    have hi := hinter rfl
    split
    · rename_i cached hlk
      have hm := lookup_mem _ _ _ hlk
      refine ⟨?_, ha.2⟩
      intro p hp
      rcases List.mem_append.1 hp with h | h
      · exact ha.1 p h
      · exact ha.2 _ hm p h
    · have hr := hrec cand a.st (partial_snoc hP hi (hca rfl) hlink hid) ha.2
      refine ⟨?_, ?_⟩
      · intro p hp
        rcases List.mem_append.1 hp with h | h
        · exact ha.1 p h
        · exact hr.1 p h
      · intro kv hkv p hp
        rcases List.mem_cons.1 hkv with h | h
        · subst h; exact hr.1 p hp
        · exact hr.2 kv h p hp
  · rename_i hni
    have hr := hroot (by intro e; exact hni e)
    refine ⟨?_, ha.2⟩
    intro p hp
    rcases List.mem_append.1 hp with h | h
    · exact ha.1 p h
    · have : p = cur ++ [cand] := by simpa using h
      subst this
      exact good_snoc hP hr hlink hid hB

/-- One candidate leaves the invariant intact. -/
theorem consider_good {E : Env} {l c : Cert} {B : Nat} {cur : List Cert} (rec : Cert → List Cert → St → Res)
    (hP : Partial E l c cur) (hB : cur.length + 1 ≤ B)
    (hrec : ∀ i st, Partial E l i (cur ++ [i]) → CacheGood E l B st.cache → ResGood E l B (rec i (cur ++ [i]) st))
    (t : CertType) (cand : Cert) (hroot : t ≠ .intermediate → cand ∈ E.roots) (hinter : t = .intermediate → cand ∈ E.inter)
    (a : Res) (ha : ResGood E l B a) : ResGood E l B (consider E rec c cur t a cand) := by
  have hb : ResGood E l B (bump a) := ⟨ha.1, ha.2⟩
  unfold consider
  split
  · exact ha
  rename_i hdup
  have hid := not_any_equal (by simpa using hdup)
  split
  · exact ⟨hb.1, hb.2⟩
  split
  · exact hb
  rename_i hsig
  split
  · exact ⟨hb.1, hb.2⟩
  rename_i hval
  have hsig' : checkSignatureFrom E.sigOK c cand = true := by simpa using hsig
  have hval' : isValid t cur cand = true := by simpa using hval
  have hlink : Link E.sigOK c cand := ⟨isValid_name hP.last hval', hsig'⟩
  exact extend_good rec hP hB hrec t cand hroot hinter hid hlink (fun e => isValid_inter (e ▸ hval')) _ ⟨hb.1, hb.2⟩

theorem foldl_consider_good {E : Env} {l c : Cert} {B : Nat} {cur : List Cert} (rec : Cert → List Cert → St → Res)
    (hP : Partial E l c cur) (hB : cur.length + 1 ≤ B)
    (hrec : ∀ i st, Partial E l i (cur ++ [i]) → CacheGood E l B st.cache → ResGood E l B (rec i (cur ++ [i]) st))
    (t : CertType) : ∀ (cands : List Cert), (∀ x ∈ cands, (t ≠ .intermediate → x ∈ E.roots) ∧ (t = .intermediate → x ∈ E.inter)) →
      ∀ a, ResGood E l B a → ResGood E l B (cands.foldl (consider E rec c cur t) a)
  | [], _, a, ha => ha
  | x :: xs, hx, a, ha => by
    simp only [List.foldl_cons]
    exact foldl_consider_good rec hP hB hrec t xs (fun y hy => hx y (List.mem_cons_of_mem _ hy)) _
      (consider_good rec hP hB hrec t x (hx x (List.mem_cons_self ..)).1 (hx x (List.mem_cons_self ..)).2 a ha)

theorem buildStep_good {E : Env} {l c : Cert} {B : Nat} {cur : List Cert} (rec : Cert → List Cert → St → Res)
    (hP : Partial E l c cur) (hB : cur.length + 1 ≤ B)
    (hrec : ∀ i st, Partial E l i (cur ++ [i]) → CacheGood E l B st.cache → ResGood E l B (rec i (cur ++ [i]) st))
    (st : St) (hst : CacheGood E l B st.cache) : ResGood E l B (buildStep E rec c cur st) := by
  unfold buildStep
  have h0 : ResGood E l B ⟨[], none, st⟩ := ⟨by simp, hst⟩
  have h1 := foldl_consider_good rec hP hB hrec .root (findPotentialParents E.roots c)
    (fun x hx => ⟨fun _ => mem_findPotentialParents hx, fun e => by cases e⟩) _ h0
  have h2 := foldl_consider_good rec hP hB hrec .intermediate (findPotentialParents E.inter c)
    (fun x hx => ⟨fun e => (e rfl).elim, fun _ => mem_findPotentialParents hx⟩) _ h1
  exact ⟨h2.1, h2.2⟩

/-- The search invariant: every chain `buildChains` returns or caches is `Good`. -/
theorem buildChains_good {E : Env} {l : Cert} {B : Nat} : ∀ (fuel : Nat) (c : Cert) (cur : List Cert) (st : St),
    Partial E l c cur → cur.length + fuel ≤ B → CacheGood E l B st.cache → ResGood E l B (buildChains E fuel c cur st)
  | 0, _, _, st, _, _, hst => ⟨by simp [buildChains], hst⟩
  | n + 1, c, cur, st, hP, hB, hst => by
    simp only [buildChains]
    refine buildStep_good _ hP (by omega) ?_ st hst
    intro i st' hP' hst'
    exact buildChains_good n i (cur ++ [i]) st' hP' (by simp; omega) hst'

theorem mem_cases_head_inner_last {α} : ∀ (p : List α) (x : α), x ∈ p → p.head? = some x ∨ x ∈ p.tail.dropLast ∨ p.getLast? = some x
  | [], _, h => by simp at h
  | a :: t, x, h => by
    rcases List.mem_cons.1 h with e | e
    · left; simp [e]
    · right
      have ht : t ≠ [] := by intro e'; subst e'; simp at e
      have hsplit := List.dropLast_concat_getLast ht
      rw [← hsplit] at e
      rcases List.mem_append.1 e with e1 | e1
      · left; simpa using e1
      · right
        have : x = t.getLast ht := by simpa using e1
        subst this
        obtain ⟨b, u, rfl⟩ := List.exists_cons_of_ne_nil ht
        simp [List.getLast?_eq_some_getLast]

/-- The abstract view of a certificate is a function of its bytes: equal `Raw` (= `id`), equal record. -/
def Coherent (cs : List Cert) : Prop := ∀ a ∈ cs, ∀ b ∈ cs, a.id = b.id → a = b

theorem map_id_eq_of_coherent {cs : List Cert} (hc : Coherent cs) : ∀ (a b : List Cert), (∀ x ∈ a, x ∈ cs) → (∀ x ∈ b, x ∈ cs) →
    a.map (·.id) = b.map (·.id) → a = b
  | [], [], _, _, _ => rfl
  | [], _ :: _, _, _, h => by simp at h
  | _ :: _, [], _, _, h => by simp at h
  | x :: xs, y :: ys, ha, hb, h => by
    simp only [List.map_cons, List.cons.injEq] at h
    have e := hc x (ha x (List.mem_cons_self ..)) y (hb y (List.mem_cons_self ..)) h.1
    rw [e, map_id_eq_of_coherent hc xs ys (fun z hz => ha z (List.mem_cons_of_mem _ hz)) (fun z hz => hb z (List.mem_cons_of_mem _ hz)) h.2]

/-! ### chainsEquivalent -/

theorem zip_all_equal : ∀ (a b : List Cert), a.length ≤ b.length →
    (a.zip b).all (fun (x, y) => x.equal y) = true → (b.take a.length).map (·.id) = a.map (·.id)
  | [], _, _, _ => by simp
  | _ :: _, [], h, _ => by simp at h
  | x :: xs, y :: ys, h, he => by
    simp only [List.zip_cons_cons, List.all_cons, Bool.and_eq_true] at he
    have ih := zip_all_equal xs ys (by simpa using h) he.2
    have : x.id = y.id := by simpa [Cert.equal] using he.1
    simp [ih, this]

/-- What the regenerated length test of `chainsEquivalent` means, whatever its shape (an `if` over `!=`s, a `switch` over
the two accepted lengths, …): it passes iff the lengths are equal or the submitted one is `len(verified) - 1` (Go `int`). -/
theorem chainsLenMismatch_iff (n m : Int) : Gen.chainsLenMismatch n m = false ↔ (n = m ∨ n = I64.sub m 1) := by
  unfold Gen.chainsLenMismatch
  by_cases h1 : n = m <;> by_cases h2 : n = I64.sub m 1 <;> simp [h1, h2]

theorem chainsEquivalent_spec {a b : List Cert} (hb : b.length < 2 ^ 62) (h : chainsEquivalent a b = true) :
    (b.length = a.length ∨ b.length = a.length + 1) ∧ (b.take a.length).map (·.id) = a.map (·.id) := by
  unfold chainsEquivalent at h
  split at h
  · simp at h
  rename_i hlen
  have hl : b.length = a.length ∨ b.length = a.length + 1 := by
    by_cases e : (a.length : Int) = b.length
    · left; omega
    · by_cases e2 : (a.length : Int) = ((b.length : Int) - 1 + 2 ^ 63) % 2 ^ 64 - 2 ^ 63
      · right; omega
      · exfalso
        have hf : Gen.chainsLenMismatch a.length b.length = false := by simpa using hlen
        rcases (chainsLenMismatch_iff _ _).1 hf with h | h
        · exact e h
        · exact e2 (by simpa [I64.sub, I64.wrap64] using h)
  exact ⟨hl, zip_all_equal a b (by omega) h⟩

/-! ### pools, parsing -/

theorem mem_addCert {pool : List Cert} {c x : Cert} (h : x ∈ addCert pool c) : x ∈ pool ∨ x = c := by
  unfold addCert at h
  split at h
  · exact Or.inl h
  · simpa using h

theorem mem_foldl_addCert : ∀ (cs pool : List Cert) (x : Cert), x ∈ cs.foldl addCert pool → x ∈ pool ∨ x ∈ cs
  | [], _, _, h => Or.inl h
  | c :: cs, pool, x, h => by
    rcases mem_foldl_addCert cs (addCert pool c) x h with h | h
    · rcases mem_addCert h with h | h
      · exact Or.inl h
      · exact Or.inr (by simp [h])
    · exact Or.inr (List.mem_cons_of_mem _ h)

theorem mem_mkPool {cs : List Cert} {x : Cert} (h : x ∈ mkPool cs) : x ∈ cs := by
  rcases mem_foldl_addCert cs [] x h with h | h
  · simp at h
  · exact h

theorem parseAll_some : ∀ (raw : List (Option Cert)) (cs : List Cert), parseAll raw = some cs → raw = cs.map some
  | [], cs, h => by simp [parseAll] at h; subst h; rfl
  | none :: _, _, h => by simp [parseAll] at h
  | some c :: rest, cs, h => by
    simp only [parseAll, Option.map_eq_some_iff] at h
    obtain ⟨cs', h1, rfl⟩ := h
    simp [parseAll_some rest cs' h1]

theorem poolContains_iff {pool : List Cert} {c : Cert} : poolContains pool c = true ↔ ∃ r ∈ pool, r.id = c.id := by
  simp [poolContains, Cert.equal]

/-! ### Verify -/

theorem partial_leaf (E : Env) (c : Cert) : Partial E c c [c] :=
  ⟨rfl, rfl, trivial, by simp, by simp⟩

theorem verify_good {E : Env} {c : Cert} {chains : List (List Cert)} (h : verify E c = .ok chains) :
    (chains = [[c]] ∧ poolContains E.roots c = true) ∨ (∀ p ∈ chains, Good E c (fuel + 1) p) := by
  unfold verify at h
  split at h
  · simp at h
  split at h
  · rename_i hc
    left
    simp only [Except.ok.injEq] at h
    exact ⟨h.symm, hc⟩
  · right
    dsimp only at h
    split at h
    · simp at h
    · simp only [Except.ok.injEq] at h
      subst h
      exact (buildChains_good fuel c [c] ⟨0, []⟩ (partial_leaf E c) (by simp; omega) (by intro kv h; simp at h)).1

/-! ### leaf filters -/

/-- The configured filters, as the property states them. -/
structure LeafOK (o : Opts) (c : Cert) : Prop where
  start : ∀ s, o.notAfterStart = some s → s ≤ c.notAfter
  limit : ∀ l, o.notAfterLimit = some l → c.notAfter < l
  onlyCA : o.acceptOnlyCA = true → c.isCA = true
  notExpired : o.rejectExpired = true → ¬ (o.now > c.notAfter)
  expired : o.rejectUnexpired = true → o.now > c.notAfter
  extIds : ∀ x ∈ c.extIds, x ∉ o.rejectExtIds
  eku : o.extKeyUsages ≠ [] → ∃ e ∈ c.ekus, e ∈ o.extKeyUsages

theorem findSome?_none {α β} (f : α → Option β) : ∀ (l : List α), l.findSome? f = none ↔ ∀ x ∈ l, f x = none
  | [] => by simp
  | a :: l => by
    simp only [List.findSome?_cons]
    cases h : f a <;> simp [h, findSome?_none f l]

theorem leafCheck_sound {o : Opts} {c : Cert} (h : ∀ name ∈ Gen.validateChainOrder, leafCheck o c name = some none) : LeafOK o c := by
  have h1 := h "notAfterStart" (by decide)
  have h2 := h "notAfterLimit" (by decide)
  have h3 := h "acceptOnlyCA" (by decide)
  have h4 := h "rejectExpired" (by decide)
  have h5 := h "rejectUnexpired" (by decide)
  have h6 := h "rejectExtIds" (by decide)
  have h7 := h "extKeyUsages" (by decide)
  simp only [leafCheck, Option.some.injEq] at h1 h2 h3 h4 h5 h6 h7
  refine ⟨?_, ?_, ?_, ?_, ?_, ?_, ?_⟩
  · intro s hs
    simp [Gen.naStartFails, hs] at h1; omega
  · intro s hs
    simp [Gen.naLimitFails, hs] at h2; omega
  · intro hca
    simpa [Gen.acceptOnlyCAFails, hca] using h3
  · intro hr
    simpa [Gen.rejectExpiredFails, Gen.expired, hr] using h4
  · intro hr
    simpa [Gen.rejectUnexpiredFails, Gen.expired, hr] using h5
  · intro x hx hm
    have : o.rejectExtIds ≠ [] := by intro e; simp [e] at hm
    simp [this] at h6
    exact h6 x hx hm
  · intro hne
    simp [hne] at h7
    obtain ⟨e, he, hm⟩ := h7
    exact ⟨e, he, hm⟩

/-- The eleven check names the model knows. -/
def knownChecks : List String :=
  ["parse", "verify", "noChains", "chainsEquivalent", "notAfterStart", "notAfterLimit", "acceptOnlyCA", "rejectExpired", "rejectUnexpired",
   "rejectExtIds", "extKeyUsages"]

/-- Every check the regenerated `ValidateChain` order names is one the model has. -/
theorem order_known : ∀ n ∈ Gen.validateChainOrder, n ∈ knownChecks := by decide

theorem leafCheck_complete {o : Opts} {c : Cert} (h : LeafOK o c) (name : String) (hk : name ∈ knownChecks) : leafCheck o c name = some none := by
  simp only [knownChecks, List.mem_cons, List.not_mem_nil, or_false] at hk
  rcases hk with rfl | rfl | rfl | rfl | rfl | rfl | rfl | rfl | rfl | rfl | rfl
  · rfl
  · rfl
  · rfl
  · rfl
  · simp only [leafCheck, Option.some.injEq]
    cases hs : o.notAfterStart with
    | none => simp [Gen.naStartFails]
    | some s => have := h.start s hs; simp [Gen.naStartFails]; omega
  · simp only [leafCheck, Option.some.injEq]
    cases hs : o.notAfterLimit with
    | none => simp [Gen.naLimitFails]
    | some s => have := h.limit s hs; simp [Gen.naLimitFails]; omega
  · simp only [leafCheck, Option.some.injEq]
    cases hca : o.acceptOnlyCA
    · simp [Gen.acceptOnlyCAFails]
    · simp [Gen.acceptOnlyCAFails, h.onlyCA hca]
  · simp only [leafCheck, Option.some.injEq]
    cases hr : o.rejectExpired
    · simp [Gen.rejectExpiredFails]
    · have := h.notExpired hr; simp [Gen.rejectExpiredFails, Gen.expired]; omega
  · simp only [leafCheck, Option.some.injEq]
    cases hr : o.rejectUnexpired
    · simp [Gen.rejectUnexpiredFails]
    · have := h.expired hr; simp [Gen.rejectUnexpiredFails, Gen.expired]; omega
  · simp only [leafCheck, Option.some.injEq, ite_eq_right_iff, reduceCtorEq, imp_false, Bool.and_eq_true, Bool.not_eq_true',
      List.isEmpty_eq_false_iff, List.any_eq_true, not_and, not_exists]
    intro _ x hx
    simpa using h.extIds x hx
  · simp only [leafCheck, Option.some.injEq]
    by_cases hne : o.extKeyUsages = []
    · simp [hne]
    · obtain ⟨e, he, hm⟩ := h.eku hne
      simp only [ite_eq_right_iff, reduceCtorEq, imp_false, Bool.and_eq_true, not_and]
      intro _
      simp
      exact ⟨e, he, hm⟩

theorem leafFilters_iff (o : Opts) (c : Cert) : leafFilters o c = none ↔ LeafOK o c := by
  unfold leafFilters
  rw [findSome?_none]
  constructor
  · intro h
    apply leafCheck_sound
    intro name hn
    have hk := leafCheck_complete (o := o) (c := c)
    have := h name hn
    cases hc : leafCheck o c name with
    | none => simp [hc] at this
    | some r => simp [hc] at this; rw [this]
  · intro h name hn
    rw [leafCheck_complete h name (order_known name hn)]

/-- What the (regenerated-shape) poison loop computes. -/
theorem poisonLoop_spec : ∀ (l : List PoisonExt) (found : Bool),
    poisonLoop found l =
      if l.any (fun x => !(x.critical && x.valueIsNull)) then .error () else .ok (found || !l.isEmpty)
  | [], found => by simp [poisonLoop, Gen.poisonLoopFinalReturn]
  | p :: rest, found => by
    obtain ⟨cr, nl⟩ := p
    have ih := poisonLoop_spec rest true
    cases cr <;> cases nl <;>
      simp [poisonLoop, Gen.poisonInvalid, Gen.poisonLoopStopsAtFirst, Gen.poisonLoopMarks, ih]

end C02
