import CTV.Lemmas.DerTotal
/-!
# A header is decoded from its own octets only: whatever follows can be replaced, and a dialect that checks less
accepts the same header.
-/
namespace CTV.Der

/-- `d2` checks no more than `d` does -/
def Weaker (d2 d : Dialect) : Prop := d2.b128min = true → d.b128min = true

theorem parseBase128Go_cancel (d : Dialect) : ∀ (bs : Bytes) (s acc v : Nat) (r : Bytes), parseBase128Go d s acc bs = .ok (v, r) →
    ∃ pre, bs = pre ++ r ∧ ∀ (d2 : Dialect) (x : Bytes), Weaker d2 d → parseBase128Go d2 s acc (pre ++ x) = .ok (v, x)
  | [], _, _, _, _, h => by simp [parseBase128Go] at h
  | b :: bs, s, acc, v, r, h => by
    simp only [parseBase128Go] at h
    by_cases h1 : s = 5
    · rw [if_pos h1] at h; cases h
    · rw [if_neg h1] at h
      by_cases h2 : (d.b128min && s == 0 && b == 0x80) = true
      · rw [if_pos h2] at h; cases h
      · rw [if_neg h2] at h
        have h2' : ∀ d2 : Dialect, Weaker d2 d → ¬ (d2.b128min && s == 0 && b == 0x80) = true := by
          intro d2 hw hc
          apply h2
          simp only [Bool.and_eq_true] at hc ⊢
          exact ⟨⟨hw hc.1.1, hc.1.2⟩, hc.2⟩
        by_cases h3 : b.toNat < 128
        · rw [if_pos h3] at h
          by_cases h4 : acc * 128 + b.toNat % 128 > 2147483647
          · rw [if_pos h4] at h; cases h
          · rw [if_neg h4] at h
            cases h
            refine ⟨[b], rfl, ?_⟩
            intro d2 x hw
            simp only [List.singleton_append, parseBase128Go]
            rw [if_neg h1, if_neg (h2' d2 hw), if_pos h3, if_neg h4]
        · rw [if_neg h3] at h
          obtain ⟨pre, rfl, hp⟩ := parseBase128Go_cancel d bs _ _ v r h
          refine ⟨b :: pre, rfl, ?_⟩
          intro d2 x hw
          simp only [List.cons_append, parseBase128Go]
          rw [if_neg h1, if_neg (h2' d2 hw), if_neg h3]
          exact hp d2 x hw

theorem parseLongLen_cancel : ∀ (n acc : Nat) (bs : Bytes) (v : Nat) (r : Bytes), parseLongLen n acc bs = .ok (v, r) →
    ∃ pre, bs = pre ++ r ∧ ∀ x, parseLongLen n acc (pre ++ x) = .ok (v, x)
  | 0, acc, bs, v, r, h => by
    simp [parseLongLen] at h
    obtain ⟨rfl, rfl⟩ := h
    exact ⟨[], rfl, fun x => by simp [parseLongLen]⟩
  | n+1, _, [], _, _, h => by simp [parseLongLen] at h
  | n+1, acc, b :: bs, v, r, h => by
    simp only [parseLongLen] at h
    by_cases h1 : acc ≥ 2^23
    · rw [if_pos h1] at h; cases h
    · rw [if_neg h1] at h
      by_cases h2 : acc * 256 + b.toNat = 0
      · rw [if_pos h2] at h; cases h
      · rw [if_neg h2] at h
        obtain ⟨pre, rfl, hp⟩ := parseLongLen_cancel n _ bs v r h
        refine ⟨b :: pre, rfl, fun x => ?_⟩
        simp only [List.cons_append, parseLongLen]
        rw [if_neg h1, if_neg h2]
        exact hp x

theorem parseLen_cancel (bs : Bytes) (v : Nat) (r : Bytes) (h : parseLen bs = .ok (v, r)) :
    ∃ pre, bs = pre ++ r ∧ ∀ x, parseLen (pre ++ x) = .ok (v, x) := by
  match bs, h with
  | [], h => simp [parseLen] at h
  | l :: rest, h =>
    simp only [parseLen] at h
    by_cases h1 : l.toNat < 128
    · rw [if_pos h1] at h; cases h
      exact ⟨[l], rfl, fun x => by simp [parseLen, h1]⟩
    · rw [if_neg h1] at h
      by_cases h2 : l.toNat % 128 = 0
      · rw [if_pos h2] at h; cases h
      · rw [if_neg h2] at h
        cases h3 : parseLongLen (l.toNat % 128) 0 rest with
        | error e => rw [h3] at h; cases h
        | ok y =>
          obtain ⟨len, r'⟩ := y
          rw [h3] at h
          simp only [] at h
          by_cases h4 : len < 128
          · rw [if_pos h4] at h; cases h
          · rw [if_neg h4] at h
            cases h
            obtain ⟨pre, rfl, hp⟩ := parseLongLen_cancel _ _ _ _ _ h3
            refine ⟨l :: pre, rfl, fun x => ?_⟩
            simp only [List.cons_append, parseLen]
            rw [if_neg h1, if_neg h2, hp x]
            simp only []
            rw [if_neg h4]

theorem parseTag_cancel (d : Dialect) (bs : Bytes) (c : Nat) (k : Bool) (t : Nat) (r : Bytes) (h : parseTag d bs = .ok (c, k, t, r)) :
    ∃ pre, bs = pre ++ r ∧ ∀ (d2 : Dialect) (x : Bytes), Weaker d2 d → parseTag d2 (pre ++ x) = .ok (c, k, t, x) := by
  match bs, h with
  | [], h => simp [parseTag] at h
  | b :: rest, h =>
    simp only [parseTag] at h
    by_cases h1 : b.toNat % 32 = 31
    · rw [if_pos h1] at h
      cases h2 : parseBase128 d rest with
      | error e => rw [h2] at h; cases h
      | ok y =>
        obtain ⟨tg, r'⟩ := y
        rw [h2] at h
        simp only [] at h
        by_cases h3 : tg < 31
        · rw [if_pos h3] at h; cases h
        · rw [if_neg h3] at h
          cases h
          obtain ⟨pre, rfl, hp⟩ := parseBase128Go_cancel d _ _ _ _ _ h2
          refine ⟨b :: pre, rfl, fun d2 x hw => ?_⟩
          simp only [List.cons_append, parseTag]
          rw [if_pos h1]
          have := hp d2 x hw
          unfold parseBase128
          rw [this]
          simp only []
          rw [if_neg h3]
    · rw [if_neg h1] at h
      cases h
      exact ⟨[b], rfl, fun d2 x _ => by simp [parseTag, h1]⟩

/-- **a header depends on its own octets only** -/
theorem parseTagLen_cancel (d : Dialect) (bs : Bytes) (tl : TL) (r : Bytes) (h : parseTagLen d bs = .ok (tl, r)) :
    ∃ hdr, bs = hdr ++ r ∧ 2 ≤ hdr.length ∧ ∀ (d2 : Dialect) (x : Bytes), Weaker d2 d → parseTagLen d2 (hdr ++ x) = .ok (tl, x) := by
  unfold parseTagLen at h
  cases h1 : parseTag d bs with
  | error e => rw [h1] at h; cases h
  | ok y =>
    obtain ⟨c, k, t, r1⟩ := y
    rw [h1] at h
    simp only [] at h
    cases h2 : parseLen r1 with
    | error e => rw [h2] at h; cases h
    | ok z =>
      obtain ⟨len, r2⟩ := z
      rw [h2] at h
      cases h
      obtain ⟨p1, rfl, hp1⟩ := parseTag_cancel d _ _ _ _ _ h1
      obtain ⟨p2, rfl, hp2⟩ := parseLen_cancel _ _ _ h2
      have l1 := (parseTag_consumed d _ _ _ _ _ h1).length
      have l2 := (parseLen_consumed _ _ _ h2).length
      refine ⟨p1 ++ p2, by simp, by simp at l1 l2 ⊢; omega, fun d2 x hw => ?_⟩
      unfold parseTagLen
      rw [List.append_assoc, hp1 d2 (p2 ++ x) hw]
      simp only []
      rw [hp2 x]

end CTV.Der
