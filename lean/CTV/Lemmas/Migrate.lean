import CTV.Model.Migrate
import CTV.Lemmas.Scan
/-! Helper lemmas for C20: bookkeeping of batches between fetcher, channel, submitters and destination. -/
set_option linter.unusedSimpArgs false
set_option linter.unusedVariables false
namespace CTV.Model.Migrate
open CTV.Model.Scan

def oneB (o : Option Batch) (i : Nat) : Nat :=
  match o with
  | some (lo, k) => inR lo (lo + k) i
  | none => 0

theorem ocnt_set (ss : List (Option Batch)) (j : Nat) (old new : Option Batch) (i : Nat)
    (h : ss[j]? = some old) : ocnt (ss.set j new) i + oneB old i = ocnt ss i + oneB new i := by
  induction ss generalizing j with
  | nil => simp at h
  | cons a t ih =>
    cases j with
    | zero =>
      simp at h; subst h
      cases a with
      | none => cases new with
        | none => simp [ocnt, oneB]
        | some r => obtain ⟨lo, k⟩ := r; simp [ocnt, oneB]; omega
      | some r => obtain ⟨lo', k'⟩ := r; cases new with
        | none => simp [ocnt, oneB]; omega
        | some r => obtain ⟨lo, k⟩ := r; simp [ocnt, oneB]; omega
    | succ j =>
      simp at h
      have := ih j h
      cases a with
      | none => simpa [ocnt] using this
      | some r => obtain ⟨lo, k⟩ := r; simp [ocnt] at this ⊢; omega

theorem bcnt_eraseIdx (l : List Batch) (b : Nat) (x : Batch) (i : Nat) (h : l[b]? = some x) :
    bcnt (l.eraseIdx b) i + inR x.1 (x.1 + x.2) i = bcnt l i := by
  induction l generalizing b with
  | nil => simp at h
  | cons a t ih =>
    obtain ⟨lo, k⟩ := a
    cases b with
    | zero => simp at h; subst h; simp [bcnt]; omega
    | succ b => simp at h; have := ih b h; simp [bcnt] at this ⊢; omega

theorem ocnt_replicate_none (n i : Nat) : ocnt (List.replicate n none) i = 0 := by
  induction n with
  | zero => simp [ocnt]
  | succ n ih => simp [List.replicate_succ, ocnt, ih]

theorem ocnt_allIdle (ss : List (Option Batch)) (i : Nat) (h : allIdle ss = true) : ocnt ss i = 0 := by
  induction ss with
  | nil => simp [ocnt]
  | cons a t ih =>
    cases a with
    | none => simp [allIdle] at h ⊢; simpa [ocnt] using ih (by simpa [allIdle] using h)
    | some r => simp [allIdle] at h

theorem bcnt_pos (l : List Batch) (i : Nat) (h : 1 ≤ bcnt l i) : ∃ b ∈ l, b.1 ≤ i ∧ i < b.1 + b.2 := by
  induction l with
  | nil => simp [bcnt] at h
  | cons a t ih =>
    obtain ⟨lo, k⟩ := a
    simp only [bcnt] at h
    have a1 := ite01 lo (lo + k) i
    by_cases hc : lo ≤ i ∧ i < lo + k
    · exact ⟨(lo, k), by simp, hc.1, hc.2⟩
    · obtain ⟨b, hb, hb'⟩ := ih (by omega)
      exact ⟨b, by simp [hb], hb'⟩

theorem mem_storeBatch (c : Cfg) (lo k : Nat) (x : Stored) (h : x ∈ storeBatch c lo k) :
    x = ⟨x.idx, c.src x.idx, c.idf x.idx (c.src x.idx)⟩ ∧ lo ≤ x.idx ∧ x.idx < lo + k := by
  induction k generalizing lo with
  | zero => simp [storeBatch] at h
  | succ k ih =>
    simp only [storeBatch, List.mem_cons] at h
    rcases h with h | h
    · subst h; simp
    · have := ih (lo+1) h; exact ⟨this.1, by omega, by omega⟩

theorem storeBatch_mem (c : Cfg) (lo k i : Nat) (h1 : lo ≤ i) (h2 : i < lo + k) :
    (⟨i, c.src i, c.idf i (c.src i)⟩ : Stored) ∈ storeBatch c lo k := by
  induction k generalizing lo with
  | zero => omega
  | succ k ih =>
    simp only [storeBatch, List.mem_cons]
    by_cases h : lo = i
    · subst h; left; rfl
    · right; exact ih (lo+1) (by omega) (by omega)

/-- a stored record is what the source holds at its index, under the configured identity hash -/
def Faithful (c : Cfg) (x : Stored) : Prop := x.payload = c.src x.idx ∧ x.idHash = c.idf x.idx x.payload

/-- every in-flight / queued / acknowledged / lost batch lies inside the range of the pass -/
def BIn (s : PSt) (b : Batch) : Prop := s.f.start0 ≤ b.1 ∧ b.1 + b.2 ≤ s.f.end_

structure PInv (c : Cfg) (dest0 : List Stored) (s : PSt) : Prop where
  fi : Inv c.env s.f
  stage : ∀ i, cnt s.f.delivered i = bcnt s.chan i + ocnt s.subs i + bcnt s.acked i + bcnt s.lost i
  lostc : s.lost ≠ [] → s.f.cancelled = true
  failc : s.failed = true → s.f.cancelled = true
  subsIn : ∀ (j : Nat) (b : Batch), s.subs[j]? = some (some b) → BIn s b
  chanIn : ∀ b ∈ s.chan, BIn s b
  added : ∀ x ∈ s.dest, x ∈ dest0 ∨ (Faithful c x ∧ s.f.start0 ≤ x.idx ∧ x.idx < s.f.end_)
  ackedIn : ∀ b ∈ s.acked, ∀ i, b.1 ≤ i → i < b.1 + b.2 → (⟨i, c.src i, c.idf i (c.src i)⟩ : Stored) ∈ s.dest
  mono : ∀ x ∈ dest0, x ∈ s.dest

theorem pinv_init (c : Cfg) (start end_ batch fetchers submitters : Nat) (dest0 : List Stored) :
    PInv c dest0 (pinit start end_ batch fetchers submitters dest0) := by
  refine ⟨inv_init c.env start end_ batch fetchers 0 false, ?_, by simp [pinit], by simp [pinit], ?_, by simp [pinit], ?_, by simp [pinit], by simp [pinit]⟩
  · intro i; simp [pinit, init, cnt, bcnt, ocnt_replicate_none]
  · intro j b h
    simp only [pinit, List.getElem?_replicate] at h
    split at h <;> simp at h
  · intro x hx; left; simpa [pinit] using hx

theorem fetch_consts (c : Cfg) (f : St) (op : Op) :
    (step c.env f op).start0 = f.start0 ∧ (fetchOpOk op = true → (step c.env f op).end_ = f.end_) := by
  refine ⟨(step_consts c.env f op).1, ?_⟩
  intro h
  cases op <;> simp [fetchOpOk] at h <;> simp only [step] <;> (repeat' split) <;> simp [deliver]

theorem fetchOk_inContract (op : Op) (h : fetchOpOk op = true) : op.inContract = true := by
  cases op <;> simp [fetchOpOk] at h <;> rfl

theorem cancel_mono (c : Cfg) (f : St) (op : Op) (h : f.cancelled = true) : (step c.env f op).cancelled = true := by
  cases op <;> simp only [step] <;> (repeat' split) <;> simp [deliver, h]

theorem step_delivered_other (c : Cfg) (f : St) (op : Op) (h : ∀ w k, op ≠ .resp w k) (h2 : ∀ w k, op ≠ .respRaw w k) :
    (step c.env f op).delivered = f.delivered := by
  cases op <;> simp only [step] <;> (repeat' split) <;> simp_all [deliver]

theorem pinv_step (c : Cfg) (dest0 : List Stored) (s : PSt) (op : POp) (h : PInv c dest0 s) : PInv c dest0 (pstep c s op) := by
  cases op with
  | fetch op =>
    simp only [pstep]
    by_cases hok : fetchOpOk op = true
    · simp only [hok, Bool.not_true, Bool.false_eq_true, if_false]
      have hic := fetchOk_inContract op hok
      have hfi := inv_step c.env s.f op hic h.fi
      have hcs := fetch_consts c s.f op
      have hend := hcs.2 hok
      cases op with
      | resp w k =>
        simp only
        split
        · rename_i lo hi hw
          split
          · rename_i hk
            have hwr := worker_in_range c.env s.f h.fi w lo hi hw
            have hstep : step c.env s.f (.resp w k) = deliver c.env s.f w lo hi k := by
              simp only [step, hw, hk, and_self, if_true]
            refine ⟨hfi, ?_, ?_, ?_, ?_, ?_, ?_, h.ackedIn, h.mono⟩
            · intro i
              have := h.stage i
              simp only [hstep, deliver, cnt_append, cnt_batchOf, bcnt]
              omega
            · intro hl; have := h.lostc hl; exact cancel_mono c s.f _ this
            · intro hf; have := h.failc hf; exact cancel_mono c s.f _ this
            · intro j b hb
              have := h.subsIn j b hb
              simp only [BIn, hcs.1, hend] at this ⊢; exact this
            · intro b hb
              simp only [List.mem_cons] at hb
              rcases hb with hb | hb
              · subst hb; simp only [BIn, hcs.1, hend]; omega
              · have := h.chanIn b hb; simp only [BIn, hcs.1, hend] at this ⊢; exact this
            · intro x hx
              have := h.added x hx
              simp only [hcs.1, hend]; exact this
          · exact h
        · exact h
      | hand w =>
        have hd := step_delivered_other c s.f (.hand w) (by simp) (by simp)
        refine ⟨hfi, ?_, ?_, ?_, ?_, ?_, ?_, h.ackedIn, h.mono⟩
        · intro i; simp only [hd]; exact h.stage i
        · intro hl; exact cancel_mono c s.f _ (h.lostc hl)
        · intro hf; exact cancel_mono c s.f _ (h.failc hf)
        · intro j b hb; have := h.subsIn j b hb; simp only [BIn, hcs.1, hend] at this ⊢; exact this
        · intro b hb; have := h.chanIn b hb; simp only [BIn, hcs.1, hend] at this ⊢; exact this
        · intro x hx; have := h.added x hx; simp only [hcs.1, hend]; exact this
      | err w =>
        have hd := step_delivered_other c s.f (.err w) (by simp) (by simp)
        refine ⟨hfi, ?_, ?_, ?_, ?_, ?_, ?_, h.ackedIn, h.mono⟩
        · intro i; simp only [hd]; exact h.stage i
        · intro hl; exact cancel_mono c s.f _ (h.lostc hl)
        · intro hf; exact cancel_mono c s.f _ (h.failc hf)
        · intro j b hb; have := h.subsIn j b hb; simp only [BIn, hcs.1, hend] at this ⊢; exact this
        · intro b hb; have := h.chanIn b hb; simp only [BIn, hcs.1, hend] at this ⊢; exact this
        · intro x hx; have := h.added x hx; simp only [hcs.1, hend]; exact this
      | abandon w =>
        have hd := step_delivered_other c s.f (.abandon w) (by simp) (by simp)
        refine ⟨hfi, ?_, ?_, ?_, ?_, ?_, ?_, h.ackedIn, h.mono⟩
        · intro i; simp only [hd]; exact h.stage i
        · intro hl; exact cancel_mono c s.f _ (h.lostc hl)
        · intro hf; exact cancel_mono c s.f _ (h.failc hf)
        · intro j b hb; have := h.subsIn j b hb; simp only [BIn, hcs.1, hend] at this ⊢; exact this
        · intro b hb; have := h.chanIn b hb; simp only [BIn, hcs.1, hend] at this ⊢; exact this
        · intro x hx; have := h.added x hx; simp only [hcs.1, hend]; exact this
      | close =>
        have hd := step_delivered_other c s.f .close (by simp) (by simp)
        refine ⟨hfi, ?_, ?_, ?_, ?_, ?_, ?_, h.ackedIn, h.mono⟩
        · intro i; simp only [hd]; exact h.stage i
        · intro hl; exact cancel_mono c s.f _ (h.lostc hl)
        · intro hf; exact cancel_mono c s.f _ (h.failc hf)
        · intro j b hb; have := h.subsIn j b hb; simp only [BIn, hcs.1, hend] at this ⊢; exact this
        · intro b hb; have := h.chanIn b hb; simp only [BIn, hcs.1, hend] at this ⊢; exact this
        · intro x hx; have := h.added x hx; simp only [hcs.1, hend]; exact this
      | cancel =>
        have hd := step_delivered_other c s.f .cancel (by simp) (by simp)
        refine ⟨hfi, ?_, ?_, ?_, ?_, ?_, ?_, h.ackedIn, h.mono⟩
        · intro i; simp only [hd]; exact h.stage i
        · intro hl; exact cancel_mono c s.f _ (h.lostc hl)
        · intro hf; exact cancel_mono c s.f _ (h.failc hf)
        · intro j b hb; have := h.subsIn j b hb; simp only [BIn, hcs.1, hend] at this ⊢; exact this
        · intro b hb; have := h.chanIn b hb; simp only [BIn, hcs.1, hend] at this ⊢; exact this
        · intro x hx; have := h.added x hx; simp only [hcs.1, hend]; exact this
      | respRaw w k => simp [fetchOpOk] at hok
      | grow n => simp [fetchOpOk] at hok
      | stop => simp [fetchOpOk] at hok
      | take m j => simp [fetchOpOk] at hok
      | proc m => simp [fetchOpOk] at hok
    · simp only [hok, Bool.not_false, if_true]; exact h
  | respDrop w k =>
    simp only [pstep]
    split
    · rename_i lo hi hw
      split
      · rename_i hk
        obtain ⟨hcan, hk1, hk2⟩ := hk
        have hfi := inv_step c.env s.f (.resp w k) rfl h.fi
        have hcs := fetch_consts c s.f (.resp w k)
        have hend := hcs.2 rfl
        have hstep : step c.env s.f (.resp w k) = deliver c.env s.f w lo hi k := by
          simp only [step, hw, hk1, hk2, and_self, if_true]
        refine ⟨hfi, ?_, ?_, ?_, ?_, ?_, ?_, h.ackedIn, h.mono⟩
        · intro i
          have := h.stage i
          simp only [hstep, deliver, cnt_append, cnt_batchOf, bcnt]
          omega
        · intro _; exact cancel_mono c s.f _ hcan
        · intro hf; exact cancel_mono c s.f _ (h.failc hf)
        · intro j b hb; have := h.subsIn j b hb; simp only [BIn, hcs.1, hend] at this ⊢; exact this
        · intro b hb; have := h.chanIn b hb; simp only [BIn, hcs.1, hend] at this ⊢; exact this
        · intro x hx; have := h.added x hx; simp only [hcs.1, hend]; exact this
      · exact h
    · exact h
  | take j b =>
    simp only [pstep]
    split
    · rename_i x hj hb
      refine ⟨h.fi, ?_, h.lostc, h.failc, ?_, ?_, h.added, h.ackedIn, h.mono⟩
      · intro i
        have := h.stage i
        have h1 := ocnt_set s.subs j none (some x) i hj
        have h2 := bcnt_eraseIdx s.chan b x i hb
        obtain ⟨lo, k⟩ := x
        simp only [oneB] at h1 h2
        show cnt s.f.delivered i = bcnt (s.chan.eraseIdx b) i + ocnt (s.subs.set j (some (lo, k))) i + bcnt s.acked i + bcnt s.lost i
        omega
      · intro j' b' hb'
        simp only [getElem?_set_cases] at hb'
        split at hb'
        · simp at hb'; subst hb'
          exact h.chanIn x (List.mem_of_getElem? hb)
        · exact h.subsIn j' b' hb'
      · intro b' hb'
        exact h.chanIn b' (List.mem_of_mem_eraseIdx hb')
    · exact h
  | ack j =>
    simp only [pstep]
    split
    · rename_i lo k hj
      have hin := h.subsIn j (lo, k) hj
      refine ⟨h.fi, ?_, h.lostc, h.failc, ?_, h.chanIn, ?_, ?_, ?_⟩
      · intro i
        have := h.stage i
        have h1 := ocnt_set s.subs j (some (lo, k)) none i hj
        simp only [oneB, bcnt] at h1 ⊢
        omega
      · intro j' b' hb'
        simp only [getElem?_set_cases] at hb'
        split at hb'
        · simp at hb'
        · exact h.subsIn j' b' hb'
      · intro x hx
        simp only [List.mem_append] at hx
        rcases hx with hx | hx
        · exact h.added x hx
        · right
          have := mem_storeBatch c lo k x hx
          simp only [BIn] at hin
          show Faithful c x ∧ s.f.start0 ≤ x.idx ∧ x.idx < s.f.end_
          refine ⟨?_, by omega, by omega⟩
          rw [this.1]; exact ⟨rfl, rfl⟩
      · intro b hb i h1 h2
        simp only [List.mem_cons] at hb
        simp only [List.mem_append]
        rcases hb with hb | hb
        · subst hb; right; exact storeBatch_mem c lo k i h1 h2
        · left; exact h.ackedIn b hb i h1 h2
      · intro x hx; simp only [List.mem_append]; left; exact h.mono x hx
    · exact h
  | ackPartial j refused =>
    simp only [pstep]
    split
    · rename_i lo k hj
      have hin := h.subsIn j (lo, k) hj
      have hfi := inv_step c.env s.f .cancel rfl h.fi
      refine ⟨hfi, ?_, ?_, ?_, ?_, h.chanIn, ?_, ?_, ?_⟩
      · intro i
        have := h.stage i
        have h1 := ocnt_set s.subs j (some (lo, k)) none i hj
        simp only [giveUp, step, oneB, bcnt] at h1 ⊢
        omega
      · intro _; simp [giveUp, step]
      · intro _; simp [giveUp, step]
      · intro j' b' hb'
        simp only [giveUp, getElem?_set_cases] at hb'
        split at hb'
        · simp at hb'
        · exact h.subsIn j' b' hb'
      · intro x hx
        simp only [giveUp, List.mem_append, List.mem_filter] at hx
        rcases hx with hx | ⟨hx, _⟩
        · exact h.added x hx
        · right
          have := mem_storeBatch c lo k x hx
          simp only [BIn] at hin
          show Faithful c x ∧ s.f.start0 ≤ x.idx ∧ x.idx < s.f.end_
          refine ⟨?_, by omega, by omega⟩
          rw [this.1]; exact ⟨rfl, rfl⟩
      · intro b hb i h1 h2
        simp only [giveUp, List.mem_append]
        left; exact h.ackedIn b hb i h1 h2
      · intro x hx; simp only [giveUp, List.mem_append]; left; exact h.mono x hx
    · exact h
  | quota j =>
    simp only [pstep]
    split
    · rename_i b hj
      split
      · exact h
      · have hfi := inv_step c.env s.f .cancel rfl h.fi
        refine ⟨hfi, ?_, ?_, ?_, ?_, h.chanIn, h.added, h.ackedIn, h.mono⟩
        · intro i
          have := h.stage i
          have h1 := ocnt_set s.subs j (some b) none i hj
          obtain ⟨lo, k⟩ := b
          simp only [giveUp, step, oneB, bcnt] at h1 ⊢
          omega
        · intro _; simp [giveUp, step]
        · intro _; simp [giveUp, step]
        · intro j' b' hb'
          simp only [giveUp, getElem?_set_cases] at hb'
          split at hb'
          · simp at hb'
          · exact h.subsIn j' b' hb'
    · exact h
  | fatal j =>
    simp only [pstep]
    split
    · rename_i b hj
      have hfi := inv_step c.env s.f .cancel rfl h.fi
      refine ⟨hfi, ?_, ?_, ?_, ?_, h.chanIn, h.added, h.ackedIn, h.mono⟩
      · intro i
        have := h.stage i
        have h1 := ocnt_set s.subs j (some b) none i hj
        obtain ⟨lo, k⟩ := b
        simp only [giveUp, step, oneB, bcnt] at h1 ⊢
        omega
      · intro _; simp [giveUp, step]
      · intro _; simp [giveUp, step]
      · intro j' b' hb'
        simp only [giveUp, getElem?_set_cases] at hb'
        split at hb'
        · simp at hb'
        · exact h.subsIn j' b' hb'
    · exact h

theorem pinv_run (c : Cfg) (dest0 : List Stored) (s : PSt) (ops : List POp) (h : PInv c dest0 s) :
    PInv c dest0 (prun c s ops) := by
  induction ops generalizing s with
  | nil => exact h
  | cons op t ih => exact ih (pstep c s op) (pinv_step c dest0 s op h)

theorem pstep_consts (c : Cfg) (s : PSt) (op : POp) :
    (pstep c s op).f.start0 = s.f.start0 ∧ (pstep c s op).f.end_ = s.f.end_ := by
  cases op with
  | fetch op =>
    simp only [pstep]
    by_cases hok : fetchOpOk op = true
    · have hcs := fetch_consts c s.f op
      have hcs2 := hcs.2 hok
      simp only [hok, Bool.not_true, Bool.false_eq_true, if_false]
      cases op with
      | resp w k =>
        simp only
        split
        · split
          · exact ⟨hcs.1, hcs2⟩
          · exact ⟨rfl, rfl⟩
        · exact ⟨rfl, rfl⟩
      | hand w => exact ⟨hcs.1, hcs2⟩
      | err w => exact ⟨hcs.1, hcs2⟩
      | abandon w => exact ⟨hcs.1, hcs2⟩
      | close => exact ⟨hcs.1, hcs2⟩
      | cancel => exact ⟨hcs.1, hcs2⟩
      | respRaw w k => simp [fetchOpOk] at hok
      | grow n => simp [fetchOpOk] at hok
      | stop => simp [fetchOpOk] at hok
      | take m j => simp [fetchOpOk] at hok
      | proc m => simp [fetchOpOk] at hok
    · simp [hok]
  | respDrop w k =>
    simp only [pstep]
    have hcs := fetch_consts c s.f (.resp w k)
    split
    · split
      · exact ⟨hcs.1, hcs.2 rfl⟩
      · exact ⟨rfl, rfl⟩
    · exact ⟨rfl, rfl⟩
  | take j b => simp only [pstep]; split <;> exact ⟨rfl, rfl⟩
  | ack j => simp only [pstep]; split <;> exact ⟨rfl, rfl⟩
  | ackPartial j refused =>
    simp only [pstep]
    split
    · simp [giveUp, step]
    · exact ⟨rfl, rfl⟩
  | quota j =>
    simp only [pstep]
    split
    · split
      · exact ⟨rfl, rfl⟩
      · simp [giveUp, step]
    · exact ⟨rfl, rfl⟩
  | fatal j =>
    simp only [pstep]
    split
    · simp [giveUp, step]
    · exact ⟨rfl, rfl⟩

theorem prun_consts (c : Cfg) (s : PSt) (ops : List POp) :
    (prun c s ops).f.start0 = s.f.start0 ∧ (prun c s ops).f.end_ = s.f.end_ := by
  induction ops generalizing s with
  | nil => exact ⟨rfl, rfl⟩
  | cons op t ih =>
    have h1 := ih (pstep c s op)
    have h2 := pstep_consts c s op
    show (prun c (pstep c s op) t).f.start0 = _ ∧ (prun c (pstep c s op) t).f.end_ = _
    exact ⟨h1.1.trans h2.1, h1.2.trans h2.2⟩

end CTV.Model.Migrate
