import CTV.Lemmas.RacesInv
/-! Termination measure of the `GetSCTs` race model. -/
namespace CTV.Model.Races

theorem sum_map_le {α : Type} (L : List α) (f f' : α → Nat) (h : ∀ x ∈ L, f' x ≤ f x) :
    (L.map f').sum ≤ (L.map f).sum := by
  induction L with
  | nil => simp
  | cons y ys ih =>
    have h1 := h y List.mem_cons_self
    have h2 := ih (fun x hx => h x (List.mem_cons_of_mem _ hx))
    simp only [List.map_cons, List.sum_cons]
    omega

theorem sum_map_lt {α : Type} (L : List α) (f f' : α → Nat) (h : ∀ x ∈ L, f' x ≤ f x)
    (x : α) (hx : x ∈ L) (hlt : f' x < f x) : (L.map f').sum + 1 ≤ (L.map f).sum := by
  induction L with
  | nil => cases hx
  | cons y ys ih =>
    have h1 := h y List.mem_cons_self
    have hle := sum_map_le ys f f' (fun z hz => h z (List.mem_cons_of_mem _ hz))
    simp only [List.map_cons, List.sum_cons]
    rcases List.mem_cons.mp hx with rfl | hx'
    · omega
    · have := ih (fun z hz => h z (List.mem_cons_of_mem _ hz)) hx'
      omega

def rank : GSt → Nat
  | .waiting => 3
  | .checked => 2
  | .inflight => 1
  | .finished => 0

def b2n (b : Bool) : Nat := if b then 1 else 0

def gorSum (r : Run) (gor : Grp → Log → GSt) : Nat :=
  ((names r.cfg).map fun g => ((r.session g).map fun l => rank (gor g l)).sum).sum

def flagSum (r : Run) (gdone recvd : Grp → Option Bool) : Nat :=
  ((names r.cfg).map fun g => b2n (gdone g).isNone + b2n (recvd g).isNone).sum

/-- every enabled action lowers this by at least one -/
def measure (r : Run) (s : St) : Nat :=
  gorSum r s.gor + flagSum r s.gdone s.recvd + b2n (!s.ctx) + b2n s.ret.isNone

/-- `measure` of the initial state -/
def bound (r : Run) : Nat :=
  3 * ((names r.cfg).map fun g => (r.session g).length).sum + 2 * (names r.cfg).length + 2

theorem gorSum_setGor {r : Run} {s : St} {g : Grp} {l : Log} {x : GSt}
    (hg : g ∈ names r.cfg) (hl : l ∈ r.session g) (hlt : rank x < rank (s.gor g l)) :
    gorSum r (setGor s g l x).gor + 1 ≤ gorSum r s.gor := by
  unfold gorSum
  have hpt : ∀ g' l', rank ((setGor s g l x).gor g' l') ≤ rank (s.gor g' l') := by
    intro g' l'
    simp only [setGor]
    split
    · rename_i he; rw [he.1, he.2]; omega
    · exact Nat.le_refl _
  apply sum_map_lt _ _ _ (fun g' _ => sum_map_le _ _ _ (fun l' _ => hpt g' l')) g hg
  apply sum_map_lt _ _ _ (fun l' _ => hpt g l') l hl
  simp [setGor, hlt]

theorem flagSum_gdone {r : Run} {gdone recvd : Grp → Option Bool} {g : Grp} {b : Bool}
    (hg : g ∈ names r.cfg) (hn : gdone g = none) :
    flagSum r (upd gdone g (some b)) recvd + 1 ≤ flagSum r gdone recvd := by
  unfold flagSum
  apply sum_map_lt _ _ _ _ g hg
  · simp [upd, hn, b2n]
  · intro g' _
    simp only [upd]
    split
    · simp [b2n]
    · exact Nat.le_refl _

theorem flagSum_recvd {r : Run} {gdone recvd : Grp → Option Bool} {g : Grp} {b : Bool}
    (hg : g ∈ names r.cfg) (hn : recvd g = none) :
    flagSum r gdone (upd recvd g (some b)) + 1 ≤ flagSum r gdone recvd := by
  unfold flagSum
  apply sum_map_lt _ _ _ _ g hg
  · simp [upd, hn, b2n]
  · intro g' _
    simp only [upd]
    split
    · simp [b2n]
    · exact Nat.le_refl _

theorem measure_step {r : Run} {s s' : St} (h : Inv r s) (o : Op) (hs : step r s o = some s') :
    measure r s' + 1 ≤ measure r s := by
  cases o with
  | timerFire g l =>
    simp only [step] at hs
    split at hs
    · rename_i hc
      cases hs
      have := gorSum_setGor (r := r) (s := s) (x := if complete s.sub g then .finished else .checked) hc.1 hc.2.1
        (by rw [hc.2.2]; split <;> simp [rank])
      simp only [measure] at *
      simp only [setGor] at *
      omega
    · cases hs
  | abort g l =>
    simp only [step] at hs
    split at hs
    · rename_i hc
      cases hs
      have := gorSum_setGor (r := r) (s := s) (x := .finished) hc.2.1 hc.2.2.1 (by rw [hc.2.2.2]; simp [rank])
      simp only [measure] at *
      simp only [setGor] at *
      omega
    · cases hs
  | request g l =>
    simp only [step] at hs
    split at hs
    · rename_i hc
      have hact := h.active g l (by rw [hc]; simp)
      split at hs
      · cases hs
        have := gorSum_setGor (r := r) (s := s) (x := .inflight) hact.1 hact.2 (by rw [hc]; simp [rank])
        simp only [measure] at *
        simp only [setGor] at *
        omega
      · cases hs
        have := gorSum_setGor (r := r) (s := s) (x := .finished) hact.1 hact.2 (by rw [hc]; simp [rank])
        simp only [measure] at *
        simp only [setGor] at *
        omega
    · cases hs
  | setResult g l ok =>
    simp only [step] at hs
    split at hs
    · rename_i hc
      have hact := h.active g l (by rw [hc]; simp)
      split at hs
      · cases hs
        have := gorSum_setGor (r := r) (s := s) (x := .finished) hact.1 hact.2 (by rw [hc]; simp [rank])
        simp only [measure] at *
        simp only [setGor] at *
        omega
      · cases hs
    · cases hs
  | groupDone g =>
    simp only [step] at hs
    split at hs
    · rename_i hc
      cases hs
      have := flagSum_gdone (r := r) (recvd := s.recvd) (b := complete s.sub g) hc.1 hc.2.1
      simp only [measure] at *
      omega
    · cases hs
  | recv g =>
    simp only [step] at hs
    split at hs
    · rename_i b hb
      split at hs
      · rename_i hc
        cases hs
        have := flagSum_recvd (r := r) (gdone := s.gdone) (b := b) hc.1 hc.2.1
        simp only [measure] at *
        omega
      · cases hs
    · cases hs
  | ctxDone =>
    simp only [step] at hs
    split at hs
    · cases hs
    · rename_i hc
      cases hs
      simp only [measure, b2n] at *
      simp [hc]
      omega
  | collect =>
    simp only [step] at hs
    split at hs
    · rename_i hc
      cases hs
      simp only [measure, b2n] at *
      simp [hc.1]
    · cases hs

theorem measure_init (r : Run) : measure r (St.init r) = bound r := by
  simp only [measure, St.init, bound, gorSum, flagSum, b2n, rank]
  have h1 : ∀ L : List Grp, (L.map fun g => ((r.session g).map fun _ => 3).sum).sum = 3 * (L.map fun g => (r.session g).length).sum := by
    intro L
    induction L with
    | nil => simp
    | cons y ys ih =>
      simp only [List.map_cons, List.sum_cons, ih]
      have : ((r.session y).map fun _ => 3).sum = 3 * (r.session y).length := by
        induction r.session y with
        | nil => simp
        | cons a as ih2 => simp only [List.map_cons, List.sum_cons, List.length_cons, ih2]; omega
      omega
  have h2 : ∀ L : List Grp, (L.map fun _ => (1 : Nat) + 1).sum = 2 * L.length := by
    intro L
    induction L with
    | nil => simp
    | cons y ys ih => simp only [List.map_cons, List.sum_cons, List.length_cons, ih]; omega
  simp [h1, h2]

theorem effective_le {r : Run} (wf : WF r) : ∀ (ops : List Op) {s : St}, Inv r s →
    effective r s ops + measure r (exec r s ops) ≤ measure r s
  | [], _, _ => by simp [effective, exec]
  | o :: os, s, h => by
    unfold effective exec
    cases hs : step r s o with
    | none => simpa using effective_le wf os h
    | some s' =>
      have h1 := measure_step h o hs
      have h2 := effective_le wf os (inv_step wf h o hs)
      simp only [Option.getD_some]
      omega

end CTV.Model.Races
