import CTV.Model.CtWire
import CTV.Lemmas.TlsCodec
import CTV.Lemmas.RfcWire
/-!
Bridge lemmas for C04: the codec types that the regenerated CT declarations resolve to, written out, and
`Tls.enc` on them in `Option` form (so that it can be compared with the `Rfc.*` encoders).
-/
set_option linter.unusedSimpArgs false
namespace CtWire
open Tls CTV

/-! ## the resolved types, written out (what RFC 6962 would make a reader expect) -/

abbrev i1 : Info := ⟨1, 0, 0, true⟩
abbrev i2 : Info := ⟨2, 0, 0, true⟩
abbrev iCert : Info := ⟨3, 1, 16777215, true⟩
abbrev iChain : Info := ⟨3, 0, 16777215, true⟩
abbrev iExt : Info := ⟨2, 0, 65535, true⟩
abbrev iSct : Info := ⟨2, 1, 65535, true⟩

def xASN1Cert : Ty := .struct (.plain "Data" (.bytes iCert) .nil)
def xPreCert : Ty := .struct (.plain "IssuerKeyHash" (.arr 32) (.plain "TBSCertificate" (.bytes iCert) .nil))
def xJSON : Ty := .struct (.plain "Data" (.bytes ⟨3, 0, 1677215, true⟩) .nil)
def xEntryFields (rest : Fields) : Fields :=
  .plain "EntryType" (.enum i2)
    (.variant "X509Entry" "EntryType" 0 xASN1Cert
    (.variant "PrecertEntry" "EntryType" 1 xPreCert
    (.variant "JSONEntry" "EntryType" 32768 xJSON rest)))
def xTimestampedEntry : Ty := .struct (.plain "Timestamp" (.uint 8) (xEntryFields (.plain "Extensions" (.bytes iExt) .nil)))
def xMerkleTreeLeaf : Ty := .struct (.plain "Version" (.enum i1) (.plain "LeafType" (.enum i1)
  (.variant "TimestampedEntry" "LeafType" 0 xTimestampedEntry .nil)))
def xDigitallySigned : Ty := .struct (.plain "Algorithm" (.struct (.plain "Hash" (.enum i1) (.plain "Signature" (.enum i1) .nil)))
  (.plain "Signature" (.bytes iExt) .nil))
def xSCT : Ty := .struct (.plain "SCTVersion" (.enum i1) (.plain "LogID" (.struct (.plain "KeyID" (.arr 32) .nil))
  (.plain "Timestamp" (.uint 8) (.plain "Extensions" (.bytes iExt) (.plain "Signature" xDigitallySigned .nil)))))
def xCertificateTimestamp : Ty := .struct (.plain "SCTVersion" (.enum i1) (.plain "SignatureType" (.enum i1)
  (.plain "Timestamp" (.uint 8) (xEntryFields (.plain "Extensions" (.bytes iExt) .nil)))))
def xTreeHeadSignature : Ty := .struct (.plain "Version" (.enum i1) (.plain "SignatureType" (.enum i1)
  (.plain "Timestamp" (.uint 8) (.plain "TreeSize" (.uint 8) (.plain "SHA256RootHash" (.arr 32) .nil)))))
def xCertificateChain : Ty := .struct (.plain "Entries" (.vec iChain xASN1Cert) .nil)
def xPrecertChainEntry : Ty := .struct (.plain "PreCertificate" xASN1Cert (.plain "CertificateChain" (.vec iChain xASN1Cert) .nil))
def xSerializedSCT : Ty := .struct (.plain "Val" (.bytes iSct) .nil)
/-- the SCT list with its outer bound as a parameter (RFC 6962 §3.3: 65535) -/
def xSCTList (maxlen : Nat) : Ty := .struct (.plain "SCTList" (.vec ⟨2, 1, maxlen, true⟩ xSerializedSCT) .nil)

theorem ty_ASN1Cert : tASN1Cert = xASN1Cert := by decide +kernel
theorem ty_PreCert : tPreCert = xPreCert := by decide +kernel
theorem ty_TimestampedEntry : tTimestampedEntry = xTimestampedEntry := by decide +kernel
theorem ty_MerkleTreeLeaf : tMerkleTreeLeaf = xMerkleTreeLeaf := by decide +kernel
theorem ty_DigitallySigned : tDigitallySigned = xDigitallySigned := by decide +kernel
theorem ty_SCT : tSCT = xSCT := by decide +kernel
theorem ty_CertificateTimestamp : tCertificateTimestamp = xCertificateTimestamp := by decide +kernel
theorem ty_TreeHeadSignature : tTreeHeadSignature = xTreeHeadSignature := by decide +kernel
theorem ty_CertificateChain : tCertificateChain = xCertificateChain := by decide +kernel
theorem ty_PrecertChainEntry : tPrecertChainEntry = xPrecertChainEntry := by decide +kernel
theorem ty_SerializedSCT : tSerializedSCT = xSerializedSCT := by decide +kernel

/-- the outer bound that the tag of `x509.SignedCertificateTimestampList.SCTList` declares -/
def sctListMaxOf : Ty → Nat
  | .struct (.plain _ (.vec i _) _) => i.maxlen
  | _ => 0
def sctListMax : Nat := sctListMaxOf tSCTList
theorem ty_SCTList : tSCTList = xSCTList sctListMax := by decide +kernel
/-- holds for `maxlen:65335` (the unchanged tree) and for `maxlen:65535` (RFC 6962 §3.3) alike -/
theorem sctListMax_le : 256 ≤ sctListMax ∧ sctListMax ≤ 65535 := by decide +kernel

/-! ## `Tls.enc` in `Option` form -/

/-- forget the error kind -/
def eo {α : Type} : Except Err α → Option α
  | .ok a => some a
  | .error _ => none

@[simp] theorem eo_ok {α : Type} (a : α) : eo (.ok a : Except Err α) = some a := rfl
@[simp] theorem eo_error {α : Type} (e : Err) : eo (.error e : Except Err α) = none := rfl

theorem enc_uint_eo (w n : Nat) : eo (enc (.uint w) (.num n)) = Rfc.uintN w n := by
  simp only [enc, Rfc.uintN]; split <;> rfl

theorem enc_enum_eo (c n : Nat) (hc : c ≤ 7) : eo (enc (.enum ⟨c, 0, 0, true⟩) (.num n)) = Rfc.uintN c n := by
  have := check_iff ⟨c, 0, 0, true⟩ n hc
  simp only [true_or, and_true] at this
  simp only [enc, Rfc.uintN]
  by_cases h : n < 256 ^ c
  · simp [h, this.2 h]
  · have : ¬ (Info.check ⟨c, 0, 0, true⟩ n = true) := fun hh => h (this.1 hh)
    simp [h, this]

theorem enc_arr_eo (k : Nat) (b : Bytes) : eo (enc (.arr k) (.bytes b)) = Rfc.opaqueFixed k b := by
  simp only [enc, Rfc.opaqueFixed]; split <;> rfl

theorem encPrefixed_eo (c mn mx : Nat) (body : Bytes) (hc : c ≤ 7) (hm : mx ≠ 0) (hmx : mx < 256 ^ c) :
    eo (encPrefixed ⟨c, mn, mx, true⟩ body) =
      if mn ≤ body.length ∧ body.length ≤ mx then some (beEnc c body.length ++ body) else none := by
  have := check_iff ⟨c, mn, mx, true⟩ body.length hc
  simp only [hm, false_or] at this
  unfold encPrefixed
  by_cases h : mn ≤ body.length ∧ body.length ≤ mx
  · have hc' : Info.check ⟨c, mn, mx, true⟩ body.length = true := this.2 ⟨by omega, h⟩
    simp [h, hc']
  · have hc' : ¬ (Info.check ⟨c, mn, mx, true⟩ body.length = true) := fun hh => h (this.1 hh).2
    simp [h, hc']

theorem encPrefixed_iCert (b : Bytes) : eo (encPrefixed iCert b) = Rfc.varVector 1 16777215 b := by
  simpa [Rfc.varVector, Rfc.lenWidth, iCert, iChain, iExt, iSct] using encPrefixed_eo 3 1 16777215 b (by decide) (by decide) (by decide)
theorem encPrefixed_iChain (b : Bytes) : eo (encPrefixed iChain b) = Rfc.varVector 0 16777215 b := by
  simpa [Rfc.varVector, Rfc.lenWidth, iCert, iChain, iExt, iSct] using encPrefixed_eo 3 0 16777215 b (by decide) (by decide) (by decide)
theorem encPrefixed_iExt (b : Bytes) : eo (encPrefixed iExt b) = Rfc.varVector 0 65535 b := by
  simpa [Rfc.varVector, Rfc.lenWidth, iCert, iChain, iExt, iSct] using encPrefixed_eo 2 0 65535 b (by decide) (by decide) (by decide)
theorem encPrefixed_iSct (b : Bytes) : eo (encPrefixed iSct b) = Rfc.varVector 1 65535 b := by
  simpa [Rfc.varVector, Rfc.lenWidth, iCert, iChain, iExt, iSct] using encPrefixed_eo 2 1 65535 b (by decide) (by decide) (by decide)

theorem enc_bytes_eo (i : Info) (b : Bytes) : eo (enc (.bytes i) (.bytes b)) = eo (encPrefixed i b) := by
  simp only [enc]

theorem enc_struct_eo (fs : Fields) (vs : List Val) : eo (enc (.struct fs) (.struct vs)) = eo (encFields [] [] [] fs vs) := by
  simp only [enc]

theorem enc_vec_eo (i : Info) (e : Ty) (vs : List Val) :
    eo (enc (.vec i e) (.list vs)) = (eo (encListWith (enc e) vs)).bind fun body => eo (encPrefixed i body) := by
  simp only [enc]
  cases encListWith (enc e) vs <;> simp

theorem encListWith_map_eo {α : Type} (e : Ty) (f : α → Val) (g : α → Option Bytes)
    (h : ∀ x, eo (enc e (f x)) = g x) (xs : List α) :
    eo (encListWith (enc e) (xs.map f)) = Rfc.concatAll g xs := by
  induction xs with
  | nil => simp [encListWith, Rfc.concatAll]
  | cons x xs ih =>
    simp only [List.map, encListWith, Rfc.concatAll]
    rw [← h x, ← ih]
    cases enc e (f x) <;> simp
    cases encListWith (enc e) (xs.map f) <;> simp

theorem encFields_nil_eo (env : Env) (men tak : List String) :
    eo (encFields env men tak .nil []) = if allTaken men tak then some [] else none := by
  simp only [encFields]; split <;> rfl

theorem encFields_plain_eo (env : Env) (men tak : List String) (name : String) (t : Ty) (rest : Fields) (v : Val) (vs : List Val) :
    eo (encFields env men tak (.plain name t rest) (v :: vs)) =
      (eo (enc t v)).bind fun x => (eo (encFields (envPush env name t v) men tak rest vs)).bind fun y => some (x ++ y) := by
  simp only [encFields]
  cases enc t v <;> simp
  cases encFields (envPush env name t v) men tak rest vs <;> simp

theorem encFields_unchosen_eo (env : Env) (men tak : List String) (name sel : String) (val choice : Nat) (t : Ty) (rest : Fields)
    (vs : List Val) (hl : env.lookup sel = some choice) (hne : choice ≠ val) :
    eo (encFields env men tak (.variant name sel val t rest) (.absent :: vs)) = eo (encFields env (sel :: men) tak rest vs) := by
  simp only [encFields, hl, hne, ne_eq, not_false_eq_true, if_true]

theorem encFields_chosen_eo (env : Env) (men tak : List String) (name sel : String) (val : Nat) (t : Ty) (rest : Fields)
    (v : Val) (vs : List Val) (hl : env.lookup sel = some val) (ht : tak.contains sel = false) (hv : v ≠ .absent) :
    eo (encFields env men tak (.variant name sel val t rest) (v :: vs)) =
      (eo (enc t v)).bind fun x => (eo (encFields env (sel :: men) (sel :: tak) rest vs)).bind fun y => some (x ++ y) := by
  simp only [encFields, hl, ne_eq, not_true_eq_false, if_false, ht, Bool.false_eq_true]
  cases v <;> first | exact absurd rfl hv | skip
  all_goals
    cases enc t _ <;> simp
    cases encFields env (sel :: men) (sel :: tak) rest vs <;> simp

/-! ## decoders agree as soon as encoders do -/

theorem eo_eq_some {α : Type} (r : Except Err α) (a : α) : eo r = some a ↔ r = .ok a := by
  cases r <;> simp [eo]

/-- RFC-accepted ⇒ accepted by the codec with the same value and rest (needs only "every RFC encoding is what the codec produces"). -/
theorem dec_of_rfc {α : Type} (T : Ty) (hw : T.wf = true) (toVal : α → Val) (encR : α → Option Bytes)
    (decR : Bytes → Option (α × Bytes))
    (hE : ∀ x a, encR x = some a → enc T (toVal x) = .ok a)
    (h2 : ∀ bs x r, decR bs = some (x, r) → ∃ a, encR x = some a ∧ bs = a ++ r)
    (bs : Bytes) (x : α) (r : Bytes) (h : decR bs = some (x, r)) : dec T bs = .ok (toVal x, r) := by
  obtain ⟨a, ha, rfl⟩ := h2 bs x r h
  exact Tls.dec_enc T (toVal x) a r hw (hE x a ha)

/-- accepted by the codec with an RFC-shaped value ⇒ RFC-accepted (needs only "whatever the codec produces is the RFC encoding"). -/
theorem rfc_of_dec {α : Type} (T : Ty) (toVal : α → Val) (encR : α → Option Bytes)
    (decR : Bytes → Option (α × Bytes))
    (hE : ∀ x a, enc T (toVal x) = .ok a → encR x = some a)
    (h1 : ∀ x a r, encR x = some a → decR (a ++ r) = some (x, r))
    (bs : Bytes) (x : α) (r : Bytes) (h : dec T bs = .ok (toVal x, r)) : decR bs = some (x, r) := by
  obtain ⟨u, rfl, hu⟩ := Tls.enc_dec T bs r (toVal x) h
  exact h1 x u r (hE x u hu)

theorem dec_agree {α : Type} (T : Ty) (hw : T.wf = true) (toVal : α → Val) (encR : α → Option Bytes)
    (decR : Bytes → Option (α × Bytes))
    (hE : ∀ x, eo (enc T (toVal x)) = encR x)
    (h1 : ∀ x a r, encR x = some a → decR (a ++ r) = some (x, r))
    (h2 : ∀ bs x r, decR bs = some (x, r) → ∃ a, encR x = some a ∧ bs = a ++ r)
    (bs : Bytes) (x : α) (r : Bytes) : dec T bs = .ok (toVal x, r) ↔ decR bs = some (x, r) := by
  constructor
  · exact rfc_of_dec T toVal encR decR (fun x a h => by rw [← hE x, h]; rfl) h1 bs x r
  · exact dec_of_rfc T hw toVal encR decR (fun x a h => by rw [← eo_eq_some, hE x, h]) h2 bs x r

theorem wf_ASN1Cert : xASN1Cert.wf = true := by decide
theorem wf_PreCert : xPreCert.wf = true := by decide
theorem wf_TimestampedEntry : xTimestampedEntry.wf = true := by decide
theorem wf_MerkleTreeLeaf : xMerkleTreeLeaf.wf = true := by decide
theorem wf_DigitallySigned : xDigitallySigned.wf = true := by decide
theorem wf_SCT : xSCT.wf = true := by decide
theorem wf_CertificateChain : xCertificateChain.wf = true := by decide
theorem wf_PrecertChainEntry : xPrecertChainEntry.wf = true := by decide
theorem wf_SCTList (m : Nat) : (xSCTList m).wf = true := by
  simp [xSCTList, xSerializedSCT, Ty.wf, Fields.wf, Info.wf, Ty.pos, Fields.pos]

/-! ## inverting `enc`: the shape of any value the encoder accepts (used for "accepts exactly") -/

theorem enc_uint_inv (w : Nat) (v : Val) (x : Bytes) (h : enc (.uint w) v = .ok x) : ∃ n, v = .num n := by
  cases v <;> simp only [enc] at h <;> first | exact ⟨_, rfl⟩ | cases h

theorem enc_enum_inv (i : Info) (v : Val) (x : Bytes) (h : enc (.enum i) v = .ok x) : ∃ n, v = .num n := by
  cases v <;> simp only [enc] at h <;> first | exact ⟨_, rfl⟩ | cases h

theorem enc_arr_inv (k : Nat) (v : Val) (x : Bytes) (h : enc (.arr k) v = .ok x) : ∃ b, v = .bytes b := by
  cases v <;> simp only [enc] at h <;> first | exact ⟨_, rfl⟩ | cases h

theorem enc_bytes_inv (i : Info) (v : Val) (x : Bytes) (h : enc (.bytes i) v = .ok x) : ∃ b, v = .bytes b := by
  cases v <;> simp only [enc] at h <;> first | exact ⟨_, rfl⟩ | cases h

theorem enc_struct_inv (fs : Fields) (v : Val) (x : Bytes) (h : enc (.struct fs) v = .ok x) :
    ∃ vs, v = .struct vs ∧ encFields [] [] [] fs vs = .ok x := by
  cases v <;> simp only [enc] at h <;> first | exact ⟨_, rfl, h⟩ | cases h

theorem enc_vec_inv (i : Info) (e : Ty) (v : Val) (x : Bytes) (h : enc (.vec i e) v = .ok x) :
    ∃ vs body, v = .list vs ∧ encListWith (enc e) vs = .ok body := by
  cases v <;> simp only [enc] at h <;> try (cases h; done)
  rename_i vs
  cases hb : encListWith (enc e) vs with
  | error err => rw [hb] at h; cases h
  | ok body => exact ⟨vs, body, rfl, hb⟩

theorem encFields_nil_inv (env : Env) (men tak : List String) (vs : List Val) (x : Bytes)
    (h : encFields env men tak .nil vs = .ok x) : vs = [] ∧ allTaken men tak = true := by
  cases vs with
  | nil =>
    simp only [encFields] at h
    split at h
    · rename_i ht; exact ⟨rfl, ht⟩
    · cases h
  | cons v vs => simp [encFields] at h

theorem encFields_plain_inv (env : Env) (men tak : List String) (name : String) (t : Ty) (rest : Fields) (vs : List Val) (x : Bytes)
    (h : encFields env men tak (.plain name t rest) vs = .ok x) :
    ∃ v vs' a b, vs = v :: vs' ∧ enc t v = .ok a ∧ encFields (envPush env name t v) men tak rest vs' = .ok b := by
  cases vs with
  | nil => simp [encFields] at h
  | cons v vs' =>
    simp only [encFields] at h
    split at h
    · cases h
    rename_i a ha
    split at h
    · cases h
    rename_i b hb
    exact ⟨v, vs', a, b, rfl, ha, hb⟩

/-- a variant field: either it is not the chosen one and the value is `absent`, or it is and the value encodes -/
theorem encFields_variant_inv (env : Env) (men tak : List String) (name sel : String) (val : Nat) (t : Ty) (rest : Fields)
    (vs : List Val) (x : Bytes) (h : encFields env men tak (.variant name sel val t rest) vs = .ok x) :
    ∃ v vs' choice, vs = v :: vs' ∧ env.lookup sel = some choice ∧
      ((choice ≠ val ∧ v = .absent ∧ encFields env (sel :: men) tak rest vs' = .ok x) ∨
       (choice = val ∧ ∃ a b, enc t v = .ok a ∧ encFields env (sel :: men) (sel :: tak) rest vs' = .ok b)) := by
  cases vs with
  | nil => simp [encFields] at h
  | cons v vs' =>
    simp only [encFields] at h
    split at h
    · cases h
    rename_i choice hl
    refine ⟨v, vs', choice, rfl, hl, ?_⟩
    split at h
    · rename_i hne
      split at h
      · exact Or.inl ⟨hne, rfl, h⟩
      · cases h
    · rename_i heq
      simp only [ne_eq, Decidable.not_not] at heq
      split at h
      · cases h
      · split at h
        · cases h
        · split at h
          · cases h
          rename_i a ha
          split at h
          · cases h
          rename_i b hb
          exact Or.inr ⟨heq, a, b, ha, hb⟩

theorem encListWith_shape {α : Type} (e : Ty) (f : α → Val) (hshape : ∀ v x, enc e v = .ok x → ∃ a, v = f a) :
    ∀ (vs : List Val) (body : Bytes), encListWith (enc e) vs = .ok body → ∃ xs : List α, vs = xs.map f := by
  intro vs
  induction vs with
  | nil => intro _ _; exact ⟨[], rfl⟩
  | cons v vs ih =>
    intro body h
    simp only [encListWith] at h
    split at h
    · cases h
    rename_i x hx
    split at h
    · cases h
    rename_i y hy
    obtain ⟨a, rfl⟩ := hshape v x hx
    obtain ⟨xs, rfl⟩ := ih y hy
    exact ⟨a :: xs, rfl⟩

/-! ### the shapes of the CT structures -/

theorem shape_ASN1Cert (v : Val) (x : Bytes) (h : enc xASN1Cert v = .ok x) : ∃ c, v = asn1CertVal c := by
  obtain ⟨vs, rfl, h⟩ := enc_struct_inv _ _ _ h
  obtain ⟨v1, vs1, a, b, rfl, h1, h⟩ := encFields_plain_inv _ _ _ _ _ _ _ _ h
  obtain ⟨rfl, _⟩ := encFields_nil_inv _ _ _ _ _ h
  obtain ⟨c, rfl⟩ := enc_bytes_inv _ _ _ h1
  exact ⟨c, rfl⟩

theorem shape_PreCert (v : Val) (x : Bytes) (h : enc xPreCert v = .ok x) : ∃ p, v = preCertVal p := by
  obtain ⟨vs, rfl, h⟩ := enc_struct_inv _ _ _ h
  obtain ⟨v1, vs1, a, b, rfl, h1, h⟩ := encFields_plain_inv _ _ _ _ _ _ _ _ h
  obtain ⟨v2, vs2, a2, b2, rfl, h2, h⟩ := encFields_plain_inv _ _ _ _ _ _ _ _ h
  obtain ⟨rfl, _⟩ := encFields_nil_inv _ _ _ _ _ h
  obtain ⟨k, rfl⟩ := enc_arr_inv _ _ _ h1
  obtain ⟨t, rfl⟩ := enc_bytes_inv _ _ _ h2
  exact ⟨⟨k, t⟩, rfl⟩

theorem shape_DigitallySigned (v : Val) (x : Bytes) (h : enc xDigitallySigned v = .ok x) : ∃ d, v = dsVal d := by
  obtain ⟨vs, rfl, h⟩ := enc_struct_inv _ _ _ h
  obtain ⟨v1, vs1, a, b, rfl, h1, h⟩ := encFields_plain_inv _ _ _ _ _ _ _ _ h
  obtain ⟨v2, vs2, a2, b2, rfl, h2, h⟩ := encFields_plain_inv _ _ _ _ _ _ _ _ h
  obtain ⟨rfl, _⟩ := encFields_nil_inv _ _ _ _ _ h
  obtain ⟨ws, rfl, h1⟩ := enc_struct_inv _ _ _ h1
  obtain ⟨w1, ws1, _, _, rfl, g1, h1⟩ := encFields_plain_inv _ _ _ _ _ _ _ _ h1
  obtain ⟨w2, ws2, _, _, rfl, g2, h1⟩ := encFields_plain_inv _ _ _ _ _ _ _ _ h1
  obtain ⟨rfl, _⟩ := encFields_nil_inv _ _ _ _ _ h1
  obtain ⟨hh, rfl⟩ := enc_enum_inv _ _ _ g1
  obtain ⟨ss, rfl⟩ := enc_enum_inv _ _ _ g2
  obtain ⟨sig, rfl⟩ := enc_bytes_inv _ _ _ h2
  exact ⟨⟨hh, ss, sig⟩, rfl⟩

theorem shape_SCT (v : Val) (x : Bytes) (h : enc xSCT v = .ok x) : ∃ s, v = sctVal s := by
  obtain ⟨vs, rfl, h⟩ := enc_struct_inv _ _ _ h
  obtain ⟨v1, _, _, _, rfl, h1, h⟩ := encFields_plain_inv _ _ _ _ _ _ _ _ h
  obtain ⟨v2, _, _, _, rfl, h2, h⟩ := encFields_plain_inv _ _ _ _ _ _ _ _ h
  obtain ⟨v3, _, _, _, rfl, h3, h⟩ := encFields_plain_inv _ _ _ _ _ _ _ _ h
  obtain ⟨v4, _, _, _, rfl, h4, h⟩ := encFields_plain_inv _ _ _ _ _ _ _ _ h
  obtain ⟨v5, _, _, _, rfl, h5, h⟩ := encFields_plain_inv _ _ _ _ _ _ _ _ h
  obtain ⟨rfl, _⟩ := encFields_nil_inv _ _ _ _ _ h
  obtain ⟨ver, rfl⟩ := enc_enum_inv _ _ _ h1
  obtain ⟨ws, rfl, h2⟩ := enc_struct_inv _ _ _ h2
  obtain ⟨w1, _, _, _, rfl, g1, h2⟩ := encFields_plain_inv _ _ _ _ _ _ _ _ h2
  obtain ⟨rfl, _⟩ := encFields_nil_inv _ _ _ _ _ h2
  obtain ⟨id, rfl⟩ := enc_arr_inv _ _ _ g1
  obtain ⟨ts, rfl⟩ := enc_uint_inv _ _ _ h3
  obtain ⟨ext, rfl⟩ := enc_bytes_inv _ _ _ h4
  obtain ⟨d, rfl⟩ := shape_DigitallySigned _ _ h5
  exact ⟨⟨ver, id, ts, ext, d⟩, rfl⟩

theorem shape_CertificateChain (v : Val) (x : Bytes) (h : enc xCertificateChain v = .ok x) : ∃ c, v = chainVal c := by
  obtain ⟨vs, rfl, h⟩ := enc_struct_inv _ _ _ h
  obtain ⟨v1, _, _, _, rfl, h1, h⟩ := encFields_plain_inv _ _ _ _ _ _ _ _ h
  obtain ⟨rfl, _⟩ := encFields_nil_inv _ _ _ _ _ h
  obtain ⟨ws, body, rfl, hb⟩ := enc_vec_inv _ _ _ _ h1
  obtain ⟨xs, rfl⟩ := encListWith_shape xASN1Cert asn1CertVal shape_ASN1Cert ws body hb
  exact ⟨xs, rfl⟩

theorem shape_PrecertChainEntry (v : Val) (x : Bytes) (h : enc xPrecertChainEntry v = .ok x) : ∃ e, v = precertChainVal e := by
  obtain ⟨vs, rfl, h⟩ := enc_struct_inv _ _ _ h
  obtain ⟨v1, _, _, _, rfl, h1, h⟩ := encFields_plain_inv _ _ _ _ _ _ _ _ h
  obtain ⟨v2, _, _, _, rfl, h2, h⟩ := encFields_plain_inv _ _ _ _ _ _ _ _ h
  obtain ⟨rfl, _⟩ := encFields_nil_inv _ _ _ _ _ h
  obtain ⟨p, rfl⟩ := shape_ASN1Cert _ _ h1
  obtain ⟨ws, body, rfl, hb⟩ := enc_vec_inv _ _ _ _ h2
  obtain ⟨xs, rfl⟩ := encListWith_shape xASN1Cert asn1CertVal shape_ASN1Cert ws body hb
  exact ⟨⟨p, xs⟩, rfl⟩

/-- the repository's extension: an entry of type 0x8000 carrying a `JSONDataEntry`, which RFC 6962 does not have -/
def IsJsonTE (v : Val) : Prop :=
  ∃ ts d ext, v = .struct [.num ts, .num 32768, .absent, .absent, .struct [.bytes d], .bytes ext]

/-- Inverting the encoder on `LogEntryType entry_type; select(entry_type) {…}`: the four values are an RFC entry, or the JSON
extension, or no variant was chosen (which the struct's final "unhandled value for selector" test then refuses). -/
theorem shape_entry (env : Env) (men tak : List String) (rest : Fields) (vs : List Val) (x : Bytes)
    (hm : tak.contains "EntryType" = false) (h : encFields env men tak (xEntryFields rest) vs = .ok x) :
    ∃ et v2 v3 v4 tl y, vs = .num et :: v2 :: v3 :: v4 :: tl ∧
      ((∃ e, [Val.num et, v2, v3, v4] = signedEntryVals e ∧
          encFields (("EntryType", et) :: env) ("EntryType" :: "EntryType" :: "EntryType" :: men) ("EntryType" :: tak) rest tl = .ok y) ∨
       (et = 32768 ∧ v2 = .absent ∧ v3 = .absent ∧ (∃ d, v4 = .struct [.bytes d]) ∧
          encFields (("EntryType", et) :: env) ("EntryType" :: "EntryType" :: "EntryType" :: men) ("EntryType" :: tak) rest tl = .ok y) ∨
       (encFields (("EntryType", et) :: env) ("EntryType" :: "EntryType" :: "EntryType" :: men) tak rest tl = .ok y)) := by
  unfold xEntryFields at h
  obtain ⟨v1, vs1, a1, b1, rfl, h1, g1⟩ := encFields_plain_inv _ _ _ _ _ _ _ _ h
  obtain ⟨et, rfl⟩ := enc_enum_inv _ _ _ h1
  have henv : envPush env "EntryType" (.enum i2) (.num et) = ("EntryType", et) :: env := rfl
  rw [henv] at g1
  obtain ⟨v2, vs2, c2, rfl, hl2, g2⟩ := encFields_variant_inv _ _ _ _ _ _ _ _ _ _ g1
  have hc2 : c2 = et := by simpa [List.lookup] using hl2.symm
  subst hc2
  rcases g2 with ⟨hne0, hv2, g3⟩ | ⟨he0, a0, b0, ha0, g3⟩
  · -- not an X.509 entry
    subst hv2
    obtain ⟨v3, vs3, c3, rfl, hl3, g4⟩ := encFields_variant_inv _ _ _ _ _ _ _ _ _ _ g3
    have hc3 : c3 = c2 := by simpa [List.lookup] using hl3.symm
    subst hc3
    rcases g4 with ⟨hne1, hv3, g5⟩ | ⟨he1, a1', b1', ha1, g5⟩
    · subst hv3
      obtain ⟨v4, vs4, c4, rfl, hl4, g6⟩ := encFields_variant_inv _ _ _ _ _ _ _ _ _ _ g5
      have hc4 : c4 = c3 := by simpa [List.lookup] using hl4.symm
      subst hc4
      rcases g6 with ⟨_, hv4, g7⟩ | ⟨hej, aj, bj, haj, g7⟩
      · subst hv4
        exact ⟨c4, _, _, _, vs4, _, rfl, Or.inr (Or.inr g7)⟩
      · obtain ⟨ws, rfl, hj⟩ := enc_struct_inv _ _ _ haj
        obtain ⟨w1, ws1, _, _, rfl, gj, hj2⟩ := encFields_plain_inv _ _ _ _ _ _ _ _ hj
        obtain ⟨rfl, _⟩ := encFields_nil_inv _ _ _ _ _ hj2
        obtain ⟨d, rfl⟩ := enc_bytes_inv _ _ _ gj
        exact ⟨c4, _, _, _, vs4, bj, rfl, Or.inr (Or.inl ⟨hej, rfl, rfl, ⟨d, rfl⟩, g7⟩)⟩
    · obtain ⟨p, rfl⟩ := shape_PreCert _ _ ha1
      obtain ⟨v4, vs4, c4, rfl, hl4, g6⟩ := encFields_variant_inv _ _ _ _ _ _ _ _ _ _ g5
      have hc4 : c4 = c3 := by simpa [List.lookup] using hl4.symm
      subst hc4
      subst he1
      rcases g6 with ⟨_, hv4, g7⟩ | ⟨hej, _⟩
      · subst hv4
        exact ⟨1, _, _, _, vs4, b1', rfl, Or.inl ⟨.precert p, rfl, g7⟩⟩
      · cases hej
  · obtain ⟨c, rfl⟩ := shape_ASN1Cert _ _ ha0
    subst he0
    obtain ⟨v3, vs3, c3, rfl, hl3, g4⟩ := encFields_variant_inv _ _ _ _ _ _ _ _ _ _ g3
    have hc3 : c3 = 0 := by simpa [List.lookup] using hl3.symm
    subst hc3
    rcases g4 with ⟨_, hv3, g5⟩ | ⟨he1, _⟩
    · subst hv3
      obtain ⟨v4, vs4, c4, rfl, hl4, g6⟩ := encFields_variant_inv _ _ _ _ _ _ _ _ _ _ g5
      have hc4 : c4 = 0 := by simpa [List.lookup] using hl4.symm
      subst hc4
      rcases g6 with ⟨_, hv4, g7⟩ | ⟨hej, _⟩
      · subst hv4
        exact ⟨0, _, _, _, vs4, b0, rfl, Or.inl ⟨.x509 c, rfl, g7⟩⟩
      · cases hej
    · cases he1

theorem shape_TimestampedEntry (v : Val) (x : Bytes) (h : enc xTimestampedEntry v = .ok x) : (∃ t, v = teVal t) ∨ IsJsonTE v := by
  obtain ⟨vs, rfl, h⟩ := enc_struct_inv _ _ _ h
  obtain ⟨v1, vs1, _, _, rfl, h1, h⟩ := encFields_plain_inv _ _ _ _ _ _ _ _ h
  obtain ⟨ts, rfl⟩ := enc_uint_inv _ _ _ h1
  obtain ⟨et, v2, v3, v4, tl, y, rfl, hcase⟩ := shape_entry _ _ _ _ _ _ (by rfl) h
  have tail : ∀ env men tak z, encFields env men tak (.plain "Extensions" (.bytes iExt) .nil) tl = .ok z →
      (∃ ext, tl = [.bytes ext]) ∧ allTaken men tak = true := by
    intro env men tak z hz
    obtain ⟨w, ws, _, _, rfl, hw, hz2⟩ := encFields_plain_inv _ _ _ _ _ _ _ _ hz
    obtain ⟨rfl, ht⟩ := encFields_nil_inv _ _ _ _ _ hz2
    obtain ⟨ext, rfl⟩ := enc_bytes_inv _ _ _ hw
    exact ⟨⟨ext, rfl⟩, ht⟩
  rcases hcase with ⟨e, he, hr⟩ | ⟨rfl, rfl, rfl, ⟨d, rfl⟩, hr⟩ | hr
  · obtain ⟨⟨ext, rfl⟩, _⟩ := tail _ _ _ _ hr
    left
    refine ⟨⟨ts, e, ext⟩, ?_⟩
    simp only [teVal, ← he]
    rfl
  · obtain ⟨⟨ext, rfl⟩, _⟩ := tail _ _ _ _ hr
    right
    exact ⟨ts, d, ext, rfl⟩
  · obtain ⟨_, ht⟩ := tail _ _ _ _ hr
    simp [allTaken] at ht

/-- Any value `tls.Marshal` accepts for `ct.MerkleTreeLeaf` has leaf type 0 and is an RFC leaf or carries the JSON extension;
in particular an unknown leaf type is refused. -/
theorem shape_MerkleTreeLeaf (v : Val) (x : Bytes) (h : enc xMerkleTreeLeaf v = .ok x) :
    (∃ l, v = leafVal l) ∨ (∃ ver te, v = .struct [.num ver, .num 0, te] ∧ IsJsonTE te) := by
  obtain ⟨vs, rfl, h⟩ := enc_struct_inv _ _ _ h
  obtain ⟨v1, vs1, _, _, rfl, h1, h⟩ := encFields_plain_inv _ _ _ _ _ _ _ _ h
  obtain ⟨ver, rfl⟩ := enc_enum_inv _ _ _ h1
  obtain ⟨v2, vs2, _, _, rfl, h2, h⟩ := encFields_plain_inv _ _ _ _ _ _ _ _ h
  obtain ⟨lt, rfl⟩ := enc_enum_inv _ _ _ h2
  have henv : envPush (envPush [] "Version" (.enum i1) (.num ver)) "LeafType" (.enum i1) (.num lt) = [("LeafType", lt), ("Version", ver)] := rfl
  rw [henv] at h
  obtain ⟨v3, vs3, c3, rfl, hl3, g⟩ := encFields_variant_inv _ _ _ _ _ _ _ _ _ _ h
  have hc3 : c3 = lt := by simpa [List.lookup] using hl3.symm
  subst hc3
  rcases g with ⟨_, rfl, g⟩ | ⟨he, a, b, ha, g⟩
  · obtain ⟨rfl, ht⟩ := encFields_nil_inv _ _ _ _ _ g
    simp [allTaken] at ht
  · subst he
    obtain ⟨rfl, _⟩ := encFields_nil_inv _ _ _ _ _ g
    rcases shape_TimestampedEntry _ _ ha with ⟨t, rfl⟩ | hj
    · left; exact ⟨⟨ver, t⟩, rfl⟩
    · right; exact ⟨ver, v3, rfl, hj⟩

theorem shape_SCTList (m : Nat) (v : Val) (x : Bytes) (h : enc (xSCTList m) v = .ok x) : ∃ l, v = sctListVal l := by
  obtain ⟨vs, rfl, h⟩ := enc_struct_inv _ _ _ h
  obtain ⟨v1, _, _, _, rfl, h1, h⟩ := encFields_plain_inv _ _ _ _ _ _ _ _ h
  obtain ⟨rfl, _⟩ := encFields_nil_inv _ _ _ _ _ h
  obtain ⟨ws, body, rfl, hb⟩ := enc_vec_inv _ _ _ _ h1
  have hsh : ∀ v x, enc xSerializedSCT v = .ok x → ∃ a, v = serializedSCTVal a := by
    intro v x h
    obtain ⟨vs, rfl, h⟩ := enc_struct_inv _ _ _ h
    obtain ⟨v1, _, _, _, rfl, h1, h⟩ := encFields_plain_inv _ _ _ _ _ _ _ _ h
    obtain ⟨rfl, _⟩ := encFields_nil_inv _ _ _ _ _ h
    obtain ⟨c, rfl⟩ := enc_bytes_inv _ _ _ h1
    exact ⟨c, rfl⟩
  obtain ⟨xs, rfl⟩ := encListWith_shape xSerializedSCT serializedSCTVal hsh ws body hb
  exact ⟨xs, rfl⟩

theorem okOfEo {T : Ty} {v : Val} {a : Bytes} {o : Option Bytes} (hE : eo (enc T v) = o) (h : enc T v = .ok a) : o = some a := by
  rw [← hE, h]; rfl

/-- whatever the codec decodes has the Go layout of a value of the structure (given the shape lemma), and is RFC-accepted -/
theorem dec_exact {α : Type} (T : Ty) (toVal : α → Val) (encR : α → Option Bytes) (decR : Bytes → Option (α × Bytes))
    (hshape : ∀ v x, enc T v = .ok x → ∃ a, v = toVal a)
    (hE : ∀ x a, enc T (toVal x) = .ok a → encR x = some a)
    (h1 : ∀ x a r, encR x = some a → decR (a ++ r) = some (x, r))
    (bs : Bytes) (v : Val) (r : Bytes) (h : dec T bs = .ok (v, r)) : ∃ x, v = toVal x ∧ decR bs = some (x, r) := by
  obtain ⟨u, _, hu⟩ := Tls.enc_dec T bs r v h
  obtain ⟨a, rfl⟩ := hshape v u hu
  exact ⟨a, rfl, rfc_of_dec T toVal encR decR hE h1 bs a r h⟩

end CtWire
