import CTV.Lemmas.ChainCheck
/-!
The other side of the completeness boundary: when every candidate `findPotentialParents` offers carries a name
other than the child's issuer name, `buildChains` finds nothing — whatever the pools contain under the right name.
-/
namespace C02
open CTV.Model.ChainCheck

theorem isValid_name_mismatch {t : CertType} {cur : List Cert} {c x : Cert} (hl : cur.getLast? = some c)
    (hne : c.issuer ≠ x.subject) : isValid t cur x = false := by
  unfold isValid
  simp [hl, flag_nameChecks, Gen.isValidNameGuard, Gen.isValidNameMismatch, hne]

theorem consider_name_mismatch (E : Env) (rec : Cert → List Cert → St → Res) {c : Cert} {cur : List Cert} (t : CertType) (a : Res) (x : Cert)
    (hl : cur.getLast? = some c) (hne : c.issuer ≠ x.subject) : (consider E rec c cur t a x).chains = a.chains := by
  unfold consider
  split
  · rfl
  split
  · rfl
  split
  · rfl
  split
  · rfl
  · rename_i h
    simp [isValid_name_mismatch (t := t) hl hne] at h

theorem foldl_consider_name_mismatch (E : Env) (rec : Cert → List Cert → St → Res) {c : Cert} {cur : List Cert} (t : CertType)
    (hl : cur.getLast? = some c) : ∀ (xs : List Cert) (a : Res), (∀ x ∈ xs, c.issuer ≠ x.subject) →
      (xs.foldl (consider E rec c cur t) a).chains = a.chains
  | [], _, _ => rfl
  | x :: xs, a, h => by
    simp only [List.foldl_cons]
    rw [foldl_consider_name_mismatch E rec t hl xs _ (fun y hy => h y (List.mem_cons_of_mem _ hy)),
      consider_name_mismatch E rec t a x hl (h x (List.mem_cons_self ..))]

theorem buildStep_no_named_candidate (E : Env) (rec : Cert → List Cert → St → Res) {c : Cert} {cur : List Cert} (st : St)
    (hl : cur.getLast? = some c) (hr : ∀ x ∈ findPotentialParents E.roots c, c.issuer ≠ x.subject)
    (hi : ∀ x ∈ findPotentialParents E.inter c, c.issuer ≠ x.subject) :
    (buildStep E rec c cur st).chains = [] ∧ (buildStep E rec c cur st).err ≠ none := by
  have hc : (buildStep E rec c cur st).chains = [] := by
    unfold buildStep
    simp only
    rw [foldl_consider_name_mismatch E rec .intermediate hl _ _ hi, foldl_consider_name_mismatch E rec .root hl _ _ hr]
  refine ⟨hc, ?_⟩
  unfold buildStep at hc ⊢
  simp only at hc ⊢
  simp only [hc, List.isEmpty_nil, Bool.not_true, Bool.false_eq_true, if_false, Bool.true_and]
  split <;> simp_all

end C02
