import CTV.Model.Witness
/-! Helper lemmas about `CTV.Model.Witness` used by `CTV.Props.C19`. -/
set_option linter.unusedVariables false
set_option linter.unusedSimpArgs false
set_option linter.unusedSectionVars false
namespace CTV.Model.Witness
open Merkle

section
variable {Hash Sig CoSig : Type} [DecidableEq Hash]
variable (env : Env Hash Sig CoSig)

/-- What a successful `parse` establishes. -/
theorem parse_ok {id : LogId} {s p : Sth Hash Sig} (h : parse env id (.sth s) = .ok p) :
    env.known id = true ∧ ∃ idh, env.idOf id = some idh ∧ (s.idField = none ∨ s.idField = some idh) ∧
      env.verify id s.ts s.size s.root s.sig = true ∧ p = { s with idField := some idh } := by
  unfold parse at h
  by_cases hk : env.known id = true
  · simp only [hk, Bool.not_true, Bool.false_eq_true, if_false] at h
    cases hid : env.idOf id with
    | none => simp [hid] at h
    | some idh =>
      simp only [hid] at h
      by_cases hm : idMismatch s.idField idh = true
      · simp [hm] at h
      · simp only [hm, if_false] at h
        by_cases hv : env.verify id s.ts s.size s.root s.sig = true
        · simp only [hv, Bool.not_true, Bool.false_eq_true, if_false, Except.ok.injEq] at h
          refine ⟨hk, idh, rfl, ?_, hv, h.symm⟩
          cases hf : s.idField with
          | none => exact Or.inl rfl
          | some x =>
            right
            simp only [idMismatch, hf, bne_iff_ne, ne_eq, Decidable.not_not] at hm
            rw [hm]
        · simp [hv] at h
  · simp [hk] at h

theorem parse_garbage (id : LogId) (p : Sth Hash Sig) : parse env id .garbage ≠ .ok p := by
  unfold parse
  by_cases hk : env.known id = true <;> simp [hk]

/-- `parse` changes nothing but the log-ID field. -/
theorem parse_fields {id : LogId} {s p : Sth Hash Sig} (h : parse env id (.sth s) = .ok p) :
    p.size = s.size ∧ p.root = s.root ∧ p.ts = s.ts ∧ p.sig = s.sig ∧ p.tag = s.tag := by
  obtain ⟨_, idh, _, _, _, rfl⟩ := parse_ok env h
  simp

/-- The outcome of an update that changes the store. -/
structure Accepted (db : Db Hash Sig) (id : LogId) (n : Sth Hash Sig) (pf : List Hash) (next : Sth Hash Sig) : Prop where
  parsed : parse env id (.sth n) = .ok next
  /-- first use, or a strictly larger head whose consistency proof the verifier accepted -/
  link : db id = none ∨ ∃ prevRaw, db id = some prevRaw ∧ prevRaw.size < n.size ∧
      verifyConsistency env.nodeH prevRaw.size n.size pf prevRaw.root n.root = true

/-- what `accept` returns -/
theorem accept_spec (db : Db Hash Sig) (id : LogId) (n next : Sth Hash Sig) :
    (∃ c, env.cosign next = some c ∧ accept env db id n next = (db.set id n, .cosigned next c)) ∨
    (env.cosign next = none ∧
      accept env db id n next = (if Gen.witnessSignsBeforeCommit then db else db.set id n, .err .sign)) := by
  unfold accept
  cases h : env.cosign next with
  | some c => exact Or.inl ⟨c, rfl, rfl⟩
  | none => exact Or.inr ⟨rfl, rfl⟩

/-- Complete case analysis of `update`: the store is unchanged and the reply is an error or the raw
    held STH; or the update was `Accepted`, the row becomes the submitted raw STH and the reply is the
    cosigned parsed STH; or the update was `Accepted` but signing failed — the reply is an error and
    the row is written or not according to the order the code has (`Gen.witnessSignsBeforeCommit`). -/
theorem update_spec (db : Db Hash Sig) (id : LogId) (raw : Raw Hash Sig) (pf : List Hash) :
    (∃ k, k ≠ .sign ∧ update env db id raw pf = (db, .err k)) ∨
    (∃ s f, update env db id raw pf = (db, .held s f) ∧ db id = some s) ∨
    (∃ n next c, raw = .sth n ∧ Accepted env db id n pf next ∧ env.cosign next = some c ∧
      update env db id raw pf = (db.set id n, .cosigned next c)) ∨
    (∃ n next, raw = .sth n ∧ Accepted env db id n pf next ∧ env.cosign next = none ∧
      update env db id raw pf = (if Gen.witnessSignsBeforeCommit then db else db.set id n, .err .sign)) := by
  unfold update
  by_cases hk : env.known id = true
  · rw [if_neg (by simp [hk])]
    cases raw with
    | garbage => exact Or.inl ⟨_, by simp, rfl⟩
    | sth n =>
      dsimp only
      cases hp : parse env id (.sth n) with
      | error e => exact Or.inl ⟨_, by simp, rfl⟩
      | ok next =>
        dsimp only
        have hf := parse_fields env hp
        cases hdb : db id with
        | none =>
          dsimp only
          have hacc : Accepted env db id n pf next := ⟨hp, Or.inl hdb⟩
          rcases accept_spec env db id n next with ⟨c, hc, he⟩ | ⟨hc, he⟩
          · exact Or.inr (Or.inr (Or.inl ⟨n, next, c, rfl, hacc, hc, he⟩))
          · exact Or.inr (Or.inr (Or.inr ⟨n, next, rfl, hacc, hc, he⟩))
        | some prevRaw =>
          dsimp only
          cases hpp : parse env id (.sth prevRaw) with
          | error e => exact Or.inl ⟨_, by simp, rfl⟩
          | ok prev =>
            dsimp only
            have hfp := parse_fields env hpp
            by_cases h1 : next.size < prev.size
            · rw [if_pos h1]; exact Or.inr (Or.inl ⟨_, _, rfl, rfl⟩)
            · rw [if_neg h1]
              by_cases h2 : next.size = prev.size
              · rw [if_pos h2]
                by_cases h3 : next.root ≠ prev.root
                · rw [if_pos h3]; exact Or.inr (Or.inl ⟨_, _, rfl, rfl⟩)
                · rw [if_neg h3]; exact Or.inr (Or.inl ⟨_, _, rfl, rfl⟩)
              · rw [if_neg h2]
                by_cases h4 : verifyConsistency env.nodeH prev.size next.size pf prev.root next.root = true
                · rw [if_pos h4]
                  have hacc : Accepted env db id n pf next := by
                    refine ⟨hp, Or.inr ⟨prevRaw, hdb, ?_, ?_⟩⟩
                    · rw [← hf.1, ← hfp.1]; omega
                    · rw [← hf.1, ← hfp.1, ← hf.2.1, ← hfp.2.1]; exact h4
                  rcases accept_spec env db id n next with ⟨c, hc, he⟩ | ⟨hc, he⟩
                  · exact Or.inr (Or.inr (Or.inl ⟨n, next, c, rfl, hacc, hc, he⟩))
                  · exact Or.inr (Or.inr (Or.inr ⟨n, next, rfl, hacc, hc, he⟩))
                · rw [if_neg h4]; exact Or.inr (Or.inl ⟨_, _, rfl, rfl⟩)
  · rw [if_pos (by simp [hk])]
    exact Or.inl ⟨_, by simp, rfl⟩

theorem Db.set_same (db : Db Hash Sig) (id : LogId) (s : Sth Hash Sig) : (db.set id s) id = some s := by
  simp [Db.set]
theorem Db.set_other (db : Db Hash Sig) (id x : LogId) (s : Sth Hash Sig) (h : x ≠ id) : (db.set id s) x = db x := by
  simp [Db.set, h]

/-- Every stored row parses (is validly signed for its log). -/
def Inv (db : Db Hash Sig) : Prop := ∀ id s, db id = some s → ∃ p, parse env id (.sth s) = .ok p

theorem inv_empty : Inv env (Db.empty : Db Hash Sig) := by
  intro id s h; simp [Db.empty] at h

theorem inv_set (db : Db Hash Sig) (id : LogId) (n next : Sth Hash Sig) (h : Inv env db)
    (hp : parse env id (.sth n) = .ok next) : Inv env (db.set id n) := by
  intro x s hx
  by_cases hxi : x = id
  · subst hxi
    rw [Db.set_same] at hx
    cases hx
    exact ⟨next, hp⟩
  · rw [Db.set_other _ _ _ _ hxi] at hx
    exact h x s hx

theorem inv_step (db : Db Hash Sig) (op : Op Hash Sig) (h : Inv env db) : Inv env (step env db op).1 := by
  cases op with
  | getSTH id => exact h
  | getLogs => exact h
  | update id raw pf =>
    simp only [step]
    rcases update_spec env db id raw pf with ⟨k, _, h1⟩ | ⟨s, f, h1, _⟩ | ⟨n, next, c, _, hacc, _, heq⟩ | ⟨n, next, _, hacc, _, heq⟩
    · rw [h1]; exact h
    · rw [h1]; exact h
    · rw [heq]; exact inv_set env db id n next h hacc.parsed
    · rw [heq]
      by_cases hg : Gen.witnessSignsBeforeCommit = true
      · simp only [hg, if_true]; exact h
      · simp only [hg, if_false]; exact inv_set env db id n next h hacc.parsed

/-- a cosigned reply of `getSTH` is the parsed stored row with `cosign`'s output -/
theorem getSTH_cosigned {db : Db Hash Sig} {id : LogId} {s : Sth Hash Sig} {c : CoSig}
    (h : getSTH env db id = .cosigned s c) :
    ∃ raw, db id = some raw ∧ parse env id (.sth raw) = .ok s ∧ env.cosign s = some c := by
  unfold getSTH at h
  cases hdb : db id with
  | none => simp [hdb] at h
  | some raw =>
    simp only [hdb] at h
    cases hp : parse env id (.sth raw) with
    | error e => simp [hp] at h
    | ok p =>
      simp only [hp] at h
      cases hc : env.cosign p with
      | none => simp [hc] at h
      | some c' =>
        simp only [hc, Reply.cosigned.injEq] at h
        exact ⟨raw, rfl, by rw [← h.1]; exact hp, by rw [← h.1, ← h.2]; exact hc⟩

/-- a cosigned reply of `update` comes from an `Accepted` update whose row was written -/
theorem update_cosigned {db : Db Hash Sig} {id : LogId} {raw : Raw Hash Sig} {pf : List Hash} {s : Sth Hash Sig} {c : CoSig}
    (h : (update env db id raw pf).2 = .cosigned s c) :
    ∃ n, raw = .sth n ∧ Accepted env db id n pf s ∧ env.cosign s = some c ∧
      update env db id raw pf = (db.set id n, .cosigned s c) := by
  rcases update_spec env db id raw pf with ⟨k, _, h1⟩ | ⟨s', f, h1, _⟩ | ⟨n, next, c', hraw, hacc, hc, heq⟩ | ⟨n, next, _, _, _, heq⟩
  · rw [h1] at h; cases h
  · rw [h1] at h; cases h
  · rw [heq] at h
    simp only [Reply.cosigned.injEq] at h
    obtain ⟨h1, h2⟩ := h
    subst h1; subst h2
    exact ⟨n, hraw, hacc, hc, heq⟩
  · rw [heq] at h; cases h

theorem inv_run (ops : List (Op Hash Sig)) : ∀ db : Db Hash Sig, Inv env db → Inv env (run env db ops) := by
  induction ops with
  | nil => intro db h; exact h
  | cons op ops ih => intro db h; exact ih _ (inv_step env db op h)

theorem run_append (ops1 ops2 : List (Op Hash Sig)) : ∀ db : Db Hash Sig,
    run env db (ops1 ++ ops2) = run env (run env db ops1) ops2 := by
  induction ops1 with
  | nil => intro db; rfl
  | cons op ops ih => intro db; simp only [List.cons_append, run]; exact ih _

/-- Every recorded transition starts in a state reached by a prefix of the history and is a `step`. -/
theorem mem_trace (ops : List (Op Hash Sig)) : ∀ (db : Db Hash Sig) (t : Tr Hash Sig CoSig), t ∈ trace env db ops →
    ∃ ops1 ops2, ops = ops1 ++ t.op :: ops2 ∧ t.pre = run env db ops1 ∧
      t.post = (step env t.pre t.op).1 ∧ t.reply = (step env t.pre t.op).2 := by
  induction ops with
  | nil => intro db t h; simp [trace] at h
  | cons op ops ih =>
    intro db t h
    simp only [trace, List.mem_cons] at h
    rcases h with h | h
    · subst h
      exact ⟨[], ops, rfl, rfl, rfl, rfl⟩
    · obtain ⟨o1, o2, e, hpre, hpost, hrep⟩ := ih _ t h
      exact ⟨op :: o1, o2, by rw [e]; rfl, by rw [hpre]; rfl, hpost, hrep⟩

end
end CTV.Model.Witness
