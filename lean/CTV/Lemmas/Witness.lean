import CTV.Model.Witness
/-! Helper lemmas about `CTV.Model.Witness` used by `CTV.Props.C19`. -/
set_option linter.unusedVariables false
set_option linter.unusedSimpArgs false
set_option linter.unusedSectionVars false
namespace CTV.Model.Witness
open Merkle

section
variable {Hash Sig CoSig : Type} [DecidableEq Hash]
variable (env : Env Hash Sig CoSig)

/-- What a successful `parse` establishes. -/
theorem parse_ok {id : LogId} {s p : Sth Hash Sig} (h : parse env id (.sth s) = .ok p) :
    env.known id = true ∧ ∃ idh, env.idOf id = some idh ∧ (s.idField = none ∨ s.idField = some idh) ∧
      env.verify id s.ts s.size s.root s.sig = true ∧ p = { s with idField := some idh } := by
  unfold parse at h
  by_cases hk : env.known id = true
  · simp only [hk, Bool.not_true, Bool.false_eq_true, if_false] at h
    cases hid : env.idOf id with
    | none => simp [hid] at h
    | some idh =>
      simp only [hid] at h
      by_cases hm : idMismatch s.idField idh = true
      · simp [hm] at h
      · simp only [hm, if_false] at h
        by_cases hv : env.verify id s.ts s.size s.root s.sig = true
        · simp only [hv, Bool.not_true, Bool.false_eq_true, if_false, Except.ok.injEq] at h
          refine ⟨hk, idh, rfl, ?_, hv, h.symm⟩
          cases hf : s.idField with
          | none => exact Or.inl rfl
          | some x =>
            right
            simp only [idMismatch, hf, bne_iff_ne, ne_eq, Decidable.not_not] at hm
            rw [hm]
        · simp [hv] at h
  · simp [hk] at h

theorem parse_garbage (id : LogId) (p : Sth Hash Sig) : parse env id .garbage ≠ .ok p := by
  unfold parse
  by_cases hk : env.known id = true <;> simp [hk]

/-- `parse` changes nothing but the log-ID field. -/
theorem parse_fields {id : LogId} {s p : Sth Hash Sig} (h : parse env id (.sth s) = .ok p) :
    p.size = s.size ∧ p.root = s.root ∧ p.ts = s.ts ∧ p.sig = s.sig ∧ p.tag = s.tag := by
  obtain ⟨_, idh, _, _, _, rfl⟩ := parse_ok env h
  simp

/-- The outcome of an update that changes the store. -/
structure Accepted (db : Db Hash Sig) (id : LogId) (n : Sth Hash Sig) (pf : List Hash) (next : Sth Hash Sig) : Prop where
  parsed : parse env id (.sth n) = .ok next
  /-- first use, or a strictly larger head whose consistency proof the verifier accepted -/
  link : db id = none ∨ ∃ prevRaw, db id = some prevRaw ∧ prevRaw.size < n.size ∧
      verifyConsistency env.nodeH prevRaw.size n.size pf prevRaw.root n.root = true

/-- Complete case analysis of `update`: either the store is unchanged and the reply is an error or
    the raw held STH, or the update was `Accepted`, the row becomes the submitted raw STH and the reply
    is the cosigned parsed STH. -/
theorem update_spec (db : Db Hash Sig) (id : LogId) (raw : Raw Hash Sig) (pf : List Hash) :
    (∃ k, update env db id raw pf = (db, .err k)) ∨
    (∃ s f, update env db id raw pf = (db, .held s f) ∧ db id = some s) ∨
    (∃ n next, raw = .sth n ∧ Accepted env db id n pf next ∧
      update env db id raw pf = (db.set id n, .cosigned next (env.cosign next))) := by
  unfold update
  by_cases hk : env.known id = true
  · rw [if_neg (by simp [hk])]
    cases raw with
    | garbage => exact Or.inl ⟨_, rfl⟩
    | sth n =>
      dsimp only
      cases hp : parse env id (.sth n) with
      | error e => exact Or.inl ⟨_, rfl⟩
      | ok next =>
        dsimp only
        have hf := parse_fields env hp
        cases hdb : db id with
        | none => exact Or.inr (Or.inr ⟨n, next, rfl, ⟨hp, Or.inl hdb⟩, rfl⟩)
        | some prevRaw =>
          dsimp only
          cases hpp : parse env id (.sth prevRaw) with
          | error e => exact Or.inl ⟨_, rfl⟩
          | ok prev =>
            dsimp only
            have hfp := parse_fields env hpp
            by_cases h1 : next.size < prev.size
            · rw [if_pos h1]; exact Or.inr (Or.inl ⟨_, _, rfl, rfl⟩)
            · rw [if_neg h1]
              by_cases h2 : next.size = prev.size
              · rw [if_pos h2]
                by_cases h3 : next.root ≠ prev.root
                · rw [if_pos h3]; exact Or.inr (Or.inl ⟨_, _, rfl, rfl⟩)
                · rw [if_neg h3]; exact Or.inr (Or.inl ⟨_, _, rfl, rfl⟩)
              · rw [if_neg h2]
                by_cases h4 : verifyConsistency env.nodeH prev.size next.size pf prev.root next.root = true
                · rw [if_pos h4]
                  refine Or.inr (Or.inr ⟨n, next, rfl, ⟨hp, Or.inr ⟨prevRaw, hdb, ?_, ?_⟩⟩, rfl⟩)
                  · rw [← hf.1, ← hfp.1]; omega
                  · rw [← hf.1, ← hfp.1, ← hf.2.1, ← hfp.2.1]; exact h4
                · rw [if_neg h4]; exact Or.inr (Or.inl ⟨_, _, rfl, rfl⟩)
  · rw [if_pos (by simp [hk])]
    exact Or.inl ⟨_, rfl⟩

theorem Db.set_same (db : Db Hash Sig) (id : LogId) (s : Sth Hash Sig) : (db.set id s) id = some s := by
  simp [Db.set]
theorem Db.set_other (db : Db Hash Sig) (id x : LogId) (s : Sth Hash Sig) (h : x ≠ id) : (db.set id s) x = db x := by
  simp [Db.set, h]

/-- Every stored row parses (is validly signed for its log). -/
def Inv (db : Db Hash Sig) : Prop := ∀ id s, db id = some s → ∃ p, parse env id (.sth s) = .ok p

theorem inv_empty : Inv env (Db.empty : Db Hash Sig) := by
  intro id s h; simp [Db.empty] at h

theorem inv_step (db : Db Hash Sig) (op : Op Hash Sig) (h : Inv env db) : Inv env (step env db op).1 := by
  cases op with
  | getSTH id => exact h
  | getLogs => exact h
  | update id raw pf =>
    simp only [step]
    rcases update_spec env db id raw pf with ⟨k, h1⟩ | ⟨s, f, h1, _⟩ | ⟨n, next, _, hacc, heq⟩
    · rw [h1]; exact h
    · rw [h1]; exact h
    · rw [heq]
      intro x s hx
      show ∃ p, parse env x (.sth s) = .ok p
      change (db.set id n) x = some s at hx
      by_cases hxi : x = id
      · subst hxi
        rw [Db.set_same] at hx
        cases hx
        exact ⟨next, hacc.parsed⟩
      · rw [Db.set_other _ _ _ _ hxi] at hx
        exact h x s hx

theorem inv_run (ops : List (Op Hash Sig)) : ∀ db : Db Hash Sig, Inv env db → Inv env (run env db ops) := by
  induction ops with
  | nil => intro db h; exact h
  | cons op ops ih => intro db h; exact ih _ (inv_step env db op h)

theorem run_append (ops1 ops2 : List (Op Hash Sig)) : ∀ db : Db Hash Sig,
    run env db (ops1 ++ ops2) = run env (run env db ops1) ops2 := by
  induction ops1 with
  | nil => intro db; rfl
  | cons op ops ih => intro db; simp only [List.cons_append, run]; exact ih _

/-- Every recorded transition starts in a state reached by a prefix of the history and is a `step`. -/
theorem mem_trace (ops : List (Op Hash Sig)) : ∀ (db : Db Hash Sig) (t : Tr Hash Sig CoSig), t ∈ trace env db ops →
    ∃ ops1 ops2, ops = ops1 ++ t.op :: ops2 ∧ t.pre = run env db ops1 ∧
      t.post = (step env t.pre t.op).1 ∧ t.reply = (step env t.pre t.op).2 := by
  induction ops with
  | nil => intro db t h; simp [trace] at h
  | cons op ops ih =>
    intro db t h
    simp only [trace, List.mem_cons] at h
    rcases h with h | h
    · subst h
      exact ⟨[], ops, rfl, rfl, rfl, rfl⟩
    · obtain ⟨o1, o2, e, hpre, hpost, hrep⟩ := ih _ t h
      exact ⟨op :: o1, o2, by rw [e]; rfl, by rw [hpre]; rfl, hpost, hrep⟩

end
end CTV.Model.Witness
