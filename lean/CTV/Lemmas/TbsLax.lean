import CTV.Model.TbsLax
import CTV.Lemmas.Tbs
/-!
The model of everything the fork accepts (`laxTbs`) restricted to canonical input *is* the canonical model:
`wf t → laxTbs (marshalTbs t) = some t` (`lax_marshal`), hence `parseTbs bs = some t → laxTbs bs = some t`.
-/
set_option linter.unusedSimpArgs false
set_option linter.unusedVariables false
namespace CTV.Tbs

theorem parseHdr_encTlv (t : Tlv) (r : Bytes) (h : t.ok = true) :
    parseHdr (encTlv t ++ r) = some (t.tag, t.val.length, t.val ++ r) := by
  simp only [Tlv.ok, Bool.and_eq_true, decide_eq_true_eq] at h
  unfold parseHdr encTlv
  rw [List.append_assoc, List.append_assoc, parseTag_valid _ h.1]
  simp only
  rw [parseLen_encLen _ _ h.2]

theorem encTlv_isEmpty (t : Tlv) (r : Bytes) (h : t.ok = true) : (encTlv t ++ r).isEmpty = false := by
  have := encTlv_ne_nil t h
  cases he : encTlv t with
  | nil => exact absurd he this
  | cons a b => rfl

/-! ### OIDs -/

theorem b128Split_ne_nil {bs g r : Bytes} (h : b128Split bs = some (g, r)) : g ≠ [] := by
  cases bs with
  | nil => simp [b128Split] at h
  | cons b rest =>
    simp only [b128Split] at h
    split at h
    · simp at h; obtain ⟨rfl, _⟩ := h; simp
    · cases hs : b128Split rest with
      | none => simp [hs] at h
      | some p => obtain ⟨g', r'⟩ := p; simp [hs] at h; obtain ⟨rfl, _⟩ := h; simp

theorem oidGroupsF_flat (f : Nat) (c : Bytes) (gs : List Bytes) (h : oidGroupsF f c = some gs) :
    gs.flatMap id = c ∧ ∀ g ∈ gs, g ≠ [] := by
  induction f generalizing c gs with
  | zero =>
    cases c with
    | nil => simp [oidGroupsF] at h; subst h; simp
    | cons b bs => simp [oidGroupsF] at h
  | succ f ih =>
    cases c with
    | nil => simp [oidGroupsF] at h; subst h; simp
    | cons b bs =>
      simp only [oidGroupsF] at h
      cases hs : b128Split (b :: bs) with
      | none => simp [hs] at h
      | some p =>
        obtain ⟨g, r⟩ := p
        simp only [hs] at h
        cases hr : oidGroupsF f r with
        | none => simp [hr] at h
        | some gs' =>
          simp only [hr] at h
          simp at h; subst h
          obtain ⟨h1, h2⟩ := ih r gs' hr
          have hg := (b128Split_eq hs).1
          refine ⟨by simp [h1, hg], ?_⟩
          intro x hx
          simp at hx
          rcases hx with rfl | hx
          · exact b128Split_ne_nil hs
          · exact h2 x hx

theorem normGroup_id (g : Bytes) (hne : g ≠ []) (h : g.head? ≠ some 0x80) : normGroup g = g := by
  cases g with
  | nil => exact absurd rfl hne
  | cons a t =>
    have : (a == 0x80) = false := by
      simp at h; simpa using h
    simp [normGroup, List.dropWhile, this]

theorem normOid_canon (c : Bytes) (h : oidCanon c = true) : normOid c = some c := by
  unfold oidCanon at h
  simp only [Bool.and_eq_true] at h
  obtain ⟨hne, hg⟩ := h
  cases hgs : oidGroupsF c.length c with
  | none => simp [hgs] at hg
  | some gs =>
    simp only [hgs, List.all_eq_true, Bool.and_eq_true, bne_iff_ne, ne_eq] at hg
    obtain ⟨hflat, hnn⟩ := oidGroupsF_flat _ _ _ hgs
    have hacc : oidAccept c = true := by
      simp only [oidAccept, hgs, Bool.and_eq_true, List.all_eq_true]
      exact ⟨hne, fun g hgm => (hg g hgm).1⟩
    simp only [normOid, hacc, if_true, hgs]
    congr 1
    rw [← hflat]
    have : ∀ l : List Bytes, (∀ g ∈ l, g ≠ [] ∧ g.head? ≠ some 0x80) → l.flatMap normGroup = l.flatMap id := by
      intro l hl
      induction l with
      | nil => rfl
      | cons a t ih =>
        simp only [List.flatMap_cons, id]
        rw [normGroup_id a (hl a (by simp)).1 (hl a (by simp)).2, ih (fun g hgm => hl g (by simp [hgm]))]
    exact this gs (fun g hgm => ⟨hnn g hgm, (hg g hgm).2⟩)

/-! ### times, AlgorithmIdentifier, Validity -/

theorem normTime_ok (a : Tlv) (h : timeOk a = true) : normTime a = some a := by
  simp only [timeOk, Bool.or_eq_true, Bool.and_eq_true, beq_iff_eq] at h
  rcases h with ⟨ht, hc⟩ | ⟨ht, hc⟩
  · simp [normTime, ht, hc]
  · simp [normTime, ht, hc]

theorem normAlgId_canon (a : Tlv) (h : algIdCanon a = true) : normAlgId a = some a := by
  simp only [algIdCanon, Bool.and_eq_true, beq_iff_eq] at h
  obtain ⟨⟨_, htag⟩, hs⟩ := h
  obtain ⟨at_, av⟩ := a
  simp only at htag hs; subst htag
  cases hsp : splitTlvs av with
  | none => simp [hsp] at hs
  | some ts =>
    obtain ⟨hcat, hoks⟩ := splitTlvs_eq hsp
    simp only [hsp] at hs
    match ts, hs, hcat, hoks with
    | [o], hs, hcat, hoks =>
      simp only [oidTlvCanon, Bool.and_eq_true, beq_iff_eq] at hs
      obtain ⟨ot, ov⟩ := o
      simp only at hs; obtain ⟨rfl, hc⟩ := hs
      have ho := hoks ⟨[0x06], ov⟩ (by simp)
      have hp := parseTlv_encTlv ⟨[0x06], ov⟩ [] ho
      simp only [concatTlvs, List.flatMap_cons, List.flatMap_nil, List.append_nil] at hcat hp
      subst hcat
      simp [normAlgId, hp, normOid_canon ov hc]
    | [o, q], hs, hcat, hoks =>
      simp only [oidTlvCanon, Bool.and_eq_true, beq_iff_eq] at hs
      obtain ⟨ot, ov⟩ := o
      simp only at hs; obtain ⟨rfl, hc⟩ := hs
      have ho := hoks ⟨[0x06], ov⟩ (by simp)
      have hq := hoks q (by simp)
      have hp := parseTlv_encTlv ⟨[0x06], ov⟩ (encTlv q) ho
      have hp2 := parseTlv_encTlv q [] hq
      simp only [concatTlvs, List.flatMap_cons, List.flatMap_nil, List.append_nil] at hcat hp2
      subst hcat
      have hne : (encTlv q).isEmpty = false := by simpa using encTlv_isEmpty q [] hq
      simp [normAlgId, hp, normOid_canon ov hc, hne, hp2]
    | [], hs, _, _ => simp at hs
    | _ :: _ :: _ :: _, hs, _, _ => simp at hs

theorem normValidity_ok (v : Tlv) (h : validityOk v = true) : normValidity v = some v := by
  simp only [validityOk, Bool.and_eq_true, beq_iff_eq] at h
  obtain ⟨⟨_, htag⟩, hs⟩ := h
  obtain ⟨vt, vv⟩ := v
  simp only at htag hs; subst htag
  cases hsp : splitTlvs vv with
  | none => simp [hsp] at hs
  | some ts =>
    obtain ⟨hcat, hoks⟩ := splitTlvs_eq hsp
    simp only [hsp] at hs
    match ts, hs, hcat, hoks with
    | [a, b], hs, hcat, hoks =>
      simp only [Bool.and_eq_true] at hs
      have hp := parseTlv_encTlv a (encTlv b) (hoks a (by simp))
      have hp2 := parseTlv_encTlv b [] (hoks b (by simp))
      simp only [concatTlvs, List.flatMap_cons, List.flatMap_nil, List.append_nil] at hcat hp2
      subst hcat
      simp [normValidity, hp, hp2, normTime_ok a hs.1, normTime_ok b hs.2]
    | [], hs, _, _ => simp at hs
    | [_], hs, _, _ => simp at hs
    | _ :: _ :: _ :: _, hs, _, _ => simp at hs

/-! ### extensions -/

theorem laxExt_encExt (e : Ext) (h : e.ok = true) : laxExt (encExt e) = some e := by
  simp only [Ext.ok, Bool.and_eq_true] at h
  obtain ⟨hc, hs⟩ := h
  have hoks := tlvsOfExt_ok e hs
  obtain ⟨oid, crit, val⟩ := e
  cases crit with
  | false =>
    have ho := hoks ⟨[0x06], oid⟩ (by simp [tlvsOfExt])
    have hv := hoks ⟨[0x04], val⟩ (by simp [tlvsOfExt])
    have hp := parseTlv_encTlv ⟨[0x06], oid⟩ (encTlv ⟨[0x04], val⟩) ho
    have hh := parseHdr_encTlv ⟨[0x04], val⟩ [] hv
    have hp2 := parseTlv_encTlv ⟨[0x04], val⟩ [] hv
    simp only [List.append_nil] at hh hp2
    simp [laxExt, encExt, tlvsOfExt, concatTlvs, hp, normOid_canon oid hc, hh, hp2]
  | true =>
    have ho := hoks ⟨[0x06], oid⟩ (by simp [tlvsOfExt])
    have hv := hoks ⟨[0x04], val⟩ (by simp [tlvsOfExt])
    have hp := parseTlv_encTlv ⟨[0x06], oid⟩ (encTlv boolTrue ++ encTlv ⟨[0x04], val⟩) ho
    have hh := parseHdr_encTlv boolTrue (encTlv ⟨[0x04], val⟩) boolTrue_ok
    have hpb := parseTlv_encTlv boolTrue (encTlv ⟨[0x04], val⟩) boolTrue_ok
    have hp2 := parseTlv_encTlv ⟨[0x04], val⟩ [] hv
    simp only [List.append_nil] at hp2
    have hbt : boolTrue.tag = [0x01] := rfl
    have hbv : boolTrue.val = [0xff] := rfl
    simp [laxExt, encExt, tlvsOfExt, concatTlvs, hp, normOid_canon oid hc, hh, hpb, hp2, hbt, hbv]

theorem laxExtList_map (es : List Ext) (h : ∀ e ∈ es, e.ok = true) : laxExtList (es.map encExt) = some es := by
  induction es with
  | nil => rfl
  | cons e es ih =>
    simp only [List.map_cons, laxExtList]
    rw [laxExt_encExt e (h e (by simp)), ih (fun x hx => h x (by simp [hx]))]

/-! ### the optional fields -/

theorem laxVersion_fields (ver : Option Tlv) (serial : Tlv) (X : Bytes) (hv : optAll versionOk ver = true)
    (hs : serialOk serial = true) (hX : X.isEmpty = false) :
    laxVersion (concatTlvs (optList ver) ++ (encTlv serial ++ X)) = some (ver, encTlv serial ++ X) := by
  simp only [serialOk, Bool.and_eq_true, beq_iff_eq] at hs
  obtain ⟨⟨hsok, hstag⟩, _⟩ := hs
  have hne : (serial.val ++ X).isEmpty = false := by
    cases hx : X with
    | nil => simp [hx] at hX
    | cons a b => simp
  cases ver with
  | none =>
    simp only [optList, concatTlvs, List.flatMap_nil, List.nil_append]
    have hh := parseHdr_encTlv serial X hsok
    simp [laxVersion, hh, hne, hstag]
  | some v =>
    simp only [optAll, versionOk, Bool.and_eq_true, beq_iff_eq] at hv
    obtain ⟨⟨hvok, hvtag⟩, hin⟩ := hv
    cases hpo : parseOne v.val with
    | none => simp [hpo] at hin
    | some i =>
      simp only [hpo, Bool.and_eq_true, beq_iff_eq, decide_eq_true_eq, bne_iff_ne, ne_eq] at hin
      obtain ⟨⟨⟨hitag, himin⟩, hilen⟩, hinz⟩ := hin
      obtain ⟨hval, hiok⟩ := parseOne_eq hpo
      have hh := parseHdr_encTlv v (encTlv serial ++ X) hvok
      have hp := parseTlv_encTlv i (encTlv serial ++ X) hiok
      simp only [optList, concatTlvs, List.flatMap_cons, List.flatMap_nil, List.append_nil]
      have hne2 : (v.val ++ (encTlv serial ++ X)).isEmpty = false := by
        rw [hval]; exact encTlv_isEmpty i _ hiok
      have hn0 : v.val.length ≠ 0 := by
        rw [hval]
        have := encTlv_ne_nil i hiok
        intro hc; exact this (List.length_eq_zero_iff.mp hc)
      have hvv : (⟨[0xa0], encTlv i⟩ : Tlv) = v := by
        obtain ⟨vt, vv⟩ := v
        simp at hvtag hval; subst hvtag; subst hval; rfl
      rw [laxVersion, hh]
      simp only [hne2, hvtag, if_true, hn0, if_false, Bool.false_eq_true]
      rw [hval, hp]
      simp [hitag, himin, hilen, hinz, hvv]

/-- what follows an absent optional field: nothing, or a well-formed element with another tag -/
def StartsOther (tag : Bytes) (Y : Bytes) : Prop :=
  Y = [] ∨ ∃ y r, Y = encTlv y ++ r ∧ y.ok = true ∧ y.tag ≠ tag

theorem laxUid_fields (b : UInt8) (u : Option Tlv) (Y : Bytes) (hu : optAll (uidOk b) u = true)
    (hY : u = none → StartsOther [b] Y) : laxUid b (concatTlvs (optList u) ++ Y) = some (u, Y) := by
  cases u with
  | some x =>
    simp only [optAll, uidOk, Bool.and_eq_true, beq_iff_eq] at hu
    obtain ⟨⟨hok, htag⟩, hbits⟩ := hu
    simp only [optList, concatTlvs, List.flatMap_cons, List.flatMap_nil, List.append_nil]
    have hh := parseHdr_encTlv x Y hok
    have hp := parseTlv_encTlv x Y hok
    simp [laxUid, encTlv_isEmpty x Y hok, hh, htag, hp, hbits]
  | none =>
    simp only [optList, concatTlvs, List.flatMap_nil, List.nil_append]
    rcases hY rfl with rfl | ⟨y, r, rfl, hyok, hytag⟩
    · simp [laxUid]
    · have hh := parseHdr_encTlv y r hyok
      simp [laxUid, encTlv_isEmpty y r hyok, hh, hytag]

theorem laxExts_fields (exts : Option (List Ext)) (h : optAll extsOk exts = true) :
    laxExts (concatTlvs (optList (exts.map extsField))) = some exts := by
  cases exts with
  | none => simp [laxExts, optList, concatTlvs]
  | some es =>
    have hsz := extsOk_sized h
    have hoks : ∀ e ∈ es, e.ok = true := by
      simp only [optAll, extsOk, Bool.and_eq_true, List.all_eq_true] at h
      exact h.1.1
    have hfo := extsField_ok h
    simp only [optAll, extsOk, Bool.and_eq_true, decide_eq_true_eq] at h
    have hin : (⟨[0x30], encExts es⟩ : Tlv).ok = true := by simp [Tlv.ok, validTag_30, h.1.2]
    simp only [Option.map, optList, concatTlvs, List.flatMap_cons, List.flatMap_nil, List.append_nil]
    have hh := parseHdr_encTlv (extsField es) [] hfo
    have hh2 := parseHdr_encTlv ⟨[0x30], encExts es⟩ [] hin
    simp only [List.append_nil] at hh hh2
    have hne : ((extsField es).val).isEmpty = false := by
      simpa [extsField] using encTlv_isEmpty ⟨[0x30], encExts es⟩ [] hin
    have hn0 : (extsField es).val.length ≠ 0 := by
      intro hc
      have := List.length_eq_zero_iff.mp hc
      rw [this] at hne; simp at hne
    have htag : (extsField es).tag = [0xa3] := rfl
    have hval : (extsField es).val = encTlv ⟨[0x30], encExts es⟩ := rfl
    rw [laxExts]
    simp only [encTlv_isEmpty (extsField es) [] hfo |> (by simpa using ·), hh, hne, htag, if_true, hn0, if_false,
      Bool.false_eq_true, hval, hh2]
    simp only [ne_eq, not_true_eq_false, if_false, Nat.lt_irrefl, List.take_length]
    rw [show encExts es = concatTlvs (es.map encExt) from rfl, splitTlvs_concat _ (encExts_ok es hsz)]
    have e1 : encTlv (extsField es) ≠ [] := encTlv_ne_nil _ hfo
    have e2 : encTlv ⟨[0x30], concatTlvs (es.map encExt)⟩ ≠ [] := encTlv_ne_nil _ hin
    simp [laxExtList_map es hoks, e1, e2]

/-! ### the whole TBSCertificate -/

theorem fields_nested (t : Tbs) :
    concatTlvs t.fields = concatTlvs (optList t.version) ++ (encTlv t.serial ++ (encTlv t.sigAlg ++ (encTlv t.issuer ++
      (encTlv t.validity ++ (encTlv t.subject ++ (encTlv t.spki ++ (concatTlvs (optList t.uid) ++
        (concatTlvs (optList t.suid) ++ concatTlvs (optList (t.exts.map extsField)))))))))) := by
  simp [Tbs.fields, Tbs.pre, concatTlvs_append, concatTlvs]

/-- **On canonical input the model of everything the fork accepts is the canonical model.** -/
theorem lax_marshal (t : Tbs) (h : t.wf = true) : laxTbs (marshalTbs t) = some t := by
  obtain ⟨h1, h2, h3, h4, h5, h6, h7, h8, h9, h10, h11⟩ := wf_parts h
  have ho : (⟨[0x30], concatTlvs t.fields⟩ : Tlv).ok = true := by simp [Tlv.ok, validTag_30, h11]
  have hserial : t.serial.ok = true := by simp only [serialOk, Bool.and_eq_true] at h2; exact h2.1.1
  have hsig : t.sigAlg.ok = true := by simp only [algIdCanon, Bool.and_eq_true] at h3; exact h3.1.1
  have hval : t.validity.ok = true := by simp only [validityOk, Bool.and_eq_true] at h5; exact h5.1.1
  have hspki : t.spki.ok = true := by simp only [spkiOk, Bool.and_eq_true] at h7; exact h7.1.1
  -- what follows the unique ids
  have hE : ∀ tag : Bytes, tag ≠ [0xa3] → StartsOther tag (concatTlvs (optList (t.exts.map extsField))) := by
    intro tag htag
    cases he : t.exts with
    | none => left; simp [optList, concatTlvs]
    | some es =>
      right
      rw [he] at h10
      refine ⟨extsField es, [], by simp [optList, concatTlvs], extsField_ok h10, ?_⟩
      intro hc; apply htag; rw [← hc]; rfl
  have hS : t.uid = none → StartsOther [0x81] (concatTlvs (optList t.suid) ++ concatTlvs (optList (t.exts.map extsField))) := by
    intro _
    cases hs : t.suid with
    | none => simpa [optList, concatTlvs] using hE [0x81] (by decide)
    | some x =>
      right
      rw [hs] at h9
      simp only [optAll, uidOk, Bool.and_eq_true, beq_iff_eq] at h9
      refine ⟨x, concatTlvs (optList (t.exts.map extsField)), by simp [optList, concatTlvs], h9.1.1, ?_⟩
      rw [h9.1.2]; decide
  have hS2 : t.suid = none → StartsOther [0x82] (concatTlvs (optList (t.exts.map extsField))) := fun _ => hE [0x82] (by decide)
  -- the steps of `laxTbs`
  have s0 := parseOne_encTlv _ ho
  have sv := laxVersion_fields t.version t.serial (encTlv t.sigAlg ++ (encTlv t.issuer ++ (encTlv t.validity ++ (encTlv t.subject ++
      (encTlv t.spki ++ (concatTlvs (optList t.uid) ++ (concatTlvs (optList t.suid) ++ concatTlvs (optList (t.exts.map extsField))))))))) h1 h2
      (encTlv_isEmpty t.sigAlg _ hsig)
  have s1 := parseTlv_encTlv t.serial (encTlv t.sigAlg ++ (encTlv t.issuer ++ (encTlv t.validity ++ (encTlv t.subject ++
      (encTlv t.spki ++ (concatTlvs (optList t.uid) ++ (concatTlvs (optList t.suid) ++ concatTlvs (optList (t.exts.map extsField))))))))) hserial
  have s2 := parseTlv_encTlv t.sigAlg (encTlv t.issuer ++ (encTlv t.validity ++ (encTlv t.subject ++
      (encTlv t.spki ++ (concatTlvs (optList t.uid) ++ (concatTlvs (optList t.suid) ++ concatTlvs (optList (t.exts.map extsField)))))))) hsig
  have s3 := parseTlv_encTlv t.issuer (encTlv t.validity ++ (encTlv t.subject ++
      (encTlv t.spki ++ (concatTlvs (optList t.uid) ++ (concatTlvs (optList t.suid) ++ concatTlvs (optList (t.exts.map extsField))))))) h4
  have s4 := parseTlv_encTlv t.validity (encTlv t.subject ++
      (encTlv t.spki ++ (concatTlvs (optList t.uid) ++ (concatTlvs (optList t.suid) ++ concatTlvs (optList (t.exts.map extsField)))))) hval
  have s5 := parseTlv_encTlv t.subject
      (encTlv t.spki ++ (concatTlvs (optList t.uid) ++ (concatTlvs (optList t.suid) ++ concatTlvs (optList (t.exts.map extsField))))) h6
  have s6 := parseTlv_encTlv t.spki
      (concatTlvs (optList t.uid) ++ (concatTlvs (optList t.suid) ++ concatTlvs (optList (t.exts.map extsField)))) hspki
  have s7 := laxUid_fields 0x81 t.uid (concatTlvs (optList t.suid) ++ concatTlvs (optList (t.exts.map extsField))) h8 hS
  have s8 := laxUid_fields 0x82 t.suid (concatTlvs (optList (t.exts.map extsField))) h9 hS2
  have s9 := laxExts_fields t.exts h10
  unfold laxTbs marshalTbs
  rw [s0]
  simp only [ne_eq, not_true_eq_false, if_false]
  rw [fields_nested, sv]
  simp only
  rw [s1]
  simp only [h2, Bool.not_true, Bool.false_eq_true, if_false]
  rw [s2]
  simp only [normAlgId_canon _ h3, s3]
  rw [s4]
  simp only [normValidity_ok _ h5, s5]
  rw [s6]
  simp only [h7, Bool.not_true, Bool.false_eq_true, if_false]
  rw [s7]
  simp only
  rw [s8]
  simp only
  rw [s9]

/-- … so every theorem about the canonical model carries over to the lax one on canonical input -/
theorem lax_of_canonical {bs : Bytes} {t : Tbs} (h : parseTbs bs = some t) : laxTbs bs = some t := by
  obtain ⟨hm, hw⟩ := parseTbs_eq h
  rw [← hm]; exact lax_marshal t hw

theorem removeExt_eq_bind (oid bs : Bytes) : removeExt oid bs = (parseTbs bs).bind (removeExtOf oid) := by
  unfold removeExt removeExtOf
  cases parseTbs bs with
  | none => rfl
  | some t => cases hr : removeExtT oid t <;> simp [hr]

theorem removeExtLax_canonical {bs : Bytes} {t : Tbs} (oid : Bytes) (h : parseTbs bs = some t) :
    removeExtLax oid bs = removeExt oid bs := by
  rw [removeExt_eq_bind, removeExtLax, lax_of_canonical h, h]

/-- removing the inserted extension from an accepted input whose normal form is `t.withExts (insertAt es i x)` -/
theorem removeExtLax_insert (bs : Bytes) (t : Tbs) (es : List Ext) (i : Nat) (x : Ext) (oid : Bytes) (hx : x.oid = oid)
    (hn : hasOid oid es = false) (hl : laxTbs bs = some (t.withExts (insertAt es i x)))
    (hw : (t.withExts (insertAt es i x)).wf = true) :
    removeExtLax oid bs = some (marshalTbs (t.withExts es)) ∧ (t.withExts es).wf = true := by
  obtain ⟨h1, h2⟩ := removeExt_insert t es i x oid hx hn hw
  refine ⟨?_, h2⟩
  rw [removeExt_eq_bind, parseTbs_marshal _ hw] at h1
  rw [removeExtLax, hl]
  exact h1

end CTV.Tbs
