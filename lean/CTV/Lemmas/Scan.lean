import CTV.Model.Scan
/-! Helper lemmas for C16 (counting, `List.set`, the invariant and its preservation). -/
set_option linter.unusedSimpArgs false
set_option linter.unusedVariables false
namespace CTV.Model.Scan

/-- case analysis of a 0/1 indicator in a form `omega` can use -/
theorem ite01 (lo hi i : Nat) :
    (inR lo hi i = 1 ∧ lo ≤ i ∧ i < hi) ∨ (inR lo hi i = 0 ∧ ¬ (lo ≤ i ∧ i < hi)) := by
  unfold inR
  by_cases h : lo ≤ i ∧ i < hi <;> simp [h]

theorem cnt_append (a b : List Entry) (i : Nat) : cnt (a ++ b) i = cnt a i + cnt b i := by
  induction a with
  | nil => simp [cnt]
  | cons x t ih => obtain ⟨j, p⟩ := x; simp [cnt, ih]; omega

theorem cnt_batchOf (src : Nat → Nat) (lo k i : Nat) :
    cnt (batchOf src lo k) i = inR lo (lo + k) i := by
  induction k generalizing lo with
  | zero => have := ite01 lo (lo + 0) i; simp only [batchOf, cnt]; omega
  | succ k ih =>
    simp only [batchOf, cnt, ih]
    have a1 := ite01 (lo + 1) (lo + 1 + k) i
    have a2 := ite01 lo (lo + (k + 1)) i
    by_cases h : lo = i
    · simp only [h, if_true] at a1 a2 ⊢; omega
    · simp only [h, if_false]; omega

theorem batchOf_length (src : Nat → Nat) (lo k : Nat) : (batchOf src lo k).length = k := by
  induction k generalizing lo with
  | zero => simp [batchOf]
  | succ k ih => simp [batchOf, ih]

theorem mem_batchOf (src : Nat → Nat) (lo k : Nat) (x : Entry) (h : x ∈ batchOf src lo k) :
    x.2 = src x.1 ∧ lo ≤ x.1 ∧ x.1 < lo + k := by
  induction k generalizing lo with
  | zero => simp [batchOf] at h
  | succ k ih =>
    simp only [batchOf, List.mem_cons] at h
    rcases h with h | h
    · subst h; simp
    · have := ih (lo+1) h; omega

def one (o : Option Rng) (i : Nat) : Nat :=
  match o with
  | some (lo, hi) => inR lo hi i
  | none => 0

def rem1 (o : Option Rng) : Nat :=
  match o with
  | some (lo, hi) => hi - lo
  | none => 0

theorem pend_set (ws : List (Option Rng)) (w : Nat) (old new : Option Rng) (i : Nat)
    (h : ws[w]? = some old) : pend (ws.set w new) i + one old i = pend ws i + one new i := by
  induction ws generalizing w with
  | nil => simp at h
  | cons a t ih =>
    cases w with
    | zero =>
      simp at h; subst h
      cases a with
      | none => cases new with
        | none => simp [pend, one]
        | some r => obtain ⟨lo, hi⟩ := r; simp [pend, one]; omega
      | some r => obtain ⟨lo', hi'⟩ := r; cases new with
        | none => simp [pend, one]; omega
        | some r => obtain ⟨lo, hi⟩ := r; simp [pend, one]; omega
    | succ w =>
      simp at h
      have := ih w h
      cases a with
      | none => simpa [pend] using this
      | some r => obtain ⟨lo, hi⟩ := r; simp [pend] at this ⊢; omega

theorem remaining_set (ws : List (Option Rng)) (w : Nat) (old new : Option Rng)
    (h : ws[w]? = some old) : remaining (ws.set w new) + rem1 old = remaining ws + rem1 new := by
  induction ws generalizing w with
  | nil => simp at h
  | cons a t ih =>
    cases w with
    | zero =>
      simp at h; subst h
      cases a with
      | none => cases new with
        | none => simp [remaining, rem1]
        | some r => obtain ⟨lo, hi⟩ := r; simp [remaining, rem1]; omega
      | some r => obtain ⟨lo', hi'⟩ := r; cases new with
        | none => simp [remaining, rem1]; omega
        | some r => obtain ⟨lo, hi⟩ := r; simp [remaining, rem1]; omega
    | succ w =>
      simp at h
      have := ih w h
      cases a with
      | none => simpa [remaining] using this
      | some r => obtain ⟨lo, hi⟩ := r; simp [remaining] at this ⊢; omega

theorem busy_set {α} (ms : List (Option α)) (m : Nat) (old new : Option α)
    (h : ms[m]? = some old) :
    busy (ms.set m new) + (if old.isSome then 1 else 0) = busy ms + (if new.isSome then 1 else 0) := by
  induction ms generalizing m with
  | nil => simp at h
  | cons a t ih =>
    cases m with
    | zero =>
      simp at h; subst h
      cases a <;> cases new <;> simp [busy] <;> omega
    | succ m =>
      simp at h
      have := ih m h
      cases a <;> simp [busy] at this ⊢ <;> omega


/-! ### generic weighted sums (for the matcher stage) -/

def wsum {α} (f : α → Nat) : List α → Nat
  | [] => 0
  | a :: t => f a + wsum f t

def osum {α} (f : α → Nat) : List (Option α) → Nat
  | [] => 0
  | none :: t => osum f t
  | some a :: t => f a + osum f t

def oval {α} (f : α → Nat) : Option α → Nat
  | none => 0
  | some a => f a

theorem wsum_append {α} (f : α → Nat) (a b : List α) : wsum f (a ++ b) = wsum f a + wsum f b := by
  induction a with
  | nil => simp [wsum]
  | cons x t ih => simp [wsum, ih]; omega

theorem osum_set {α} (f : α → Nat) (ms : List (Option α)) (m : Nat) (old new : Option α)
    (h : ms[m]? = some old) : osum f (ms.set m new) + oval f old = osum f ms + oval f new := by
  induction ms generalizing m with
  | nil => simp at h
  | cons a t ih =>
    cases m with
    | zero =>
      simp at h; subst h
      cases a <;> cases new <;> simp [osum, oval] <;> omega
    | succ m =>
      simp at h
      have := ih m h
      cases a <;> simp [osum] at this ⊢ <;> omega

theorem osum_replicate_none {α} (f : α → Nat) (n : Nat) : osum f (List.replicate n none) = 0 := by
  induction n with
  | zero => simp [osum]
  | succ n ih => simp [List.replicate_succ, osum, ih]

theorem pend_replicate_none (n i : Nat) : pend (List.replicate n none) i = 0 := by
  induction n with
  | zero => simp [pend]
  | succ n ih => simp [List.replicate_succ, pend, ih]

theorem remaining_replicate_none (n : Nat) : remaining (List.replicate n none) = 0 := by
  induction n with
  | zero => simp [remaining]
  | succ n ih => simp [List.replicate_succ, remaining, ih]

theorem busy_replicate_none {α} (n : Nat) : busy (List.replicate n (none : Option α)) = 0 := by
  induction n with
  | zero => simp [busy]
  | succ n ih => simp [List.replicate_succ, busy, ih]

theorem pend_allIdle (ws : List (Option Rng)) (i : Nat) (h : allIdle ws = true) : pend ws i = 0 := by
  induction ws with
  | nil => simp [pend]
  | cons a t ih =>
    cases a with
    | none => simp [allIdle] at h ⊢; simpa [pend] using ih (by simpa [allIdle] using h)
    | some r => simp [allIdle] at h

theorem osum_allIdle {α} (f : α → Nat) (ms : List (Option α)) (h : allIdle ms = true) : osum f ms = 0 := by
  induction ms with
  | nil => simp [osum]
  | cons a t ih =>
    cases a with
    | none => simp [allIdle] at h ⊢; simpa [osum] using ih (by simpa [allIdle] using h)
    | some r => simp [allIdle] at h

/-- the indicator "this queued / delivered entry is `x` and the matcher selects callback `b` for it" -/
def ind (e : Env) (b : Bool) (x : Entry) : Entry → Nat :=
  fun y => if y = x ∧ e.cls y.1 y.2 = some b then 1 else 0

/-- the indicator "this callback invocation is callback `b` on entry `x`" -/
def indC (b : Bool) (x : Entry) : Bool × Entry → Nat :=
  fun c => if c = (b, x) then 1 else 0

/-! ### the invariant -/

/-- Counting invariant of the fetcher (every index of the range is accounted for exactly once:
delivered, pending at a worker, or still ahead of the cursor), payload fidelity, non-empty pending ranges,
and the matcher-stage bookkeeping. -/
structure Inv (e : Env) (s : St) : Prop where
  start_le : s.start0 ≤ s.cursor
  count : ∀ i, cnt s.delivered i + pend s.workers i + inR s.cursor s.end_ i = inR s.start0 s.end_ i
  payload : ∀ x ∈ s.delivered, x.2 = e.src x.1
  nonempty : ∀ (w lo hi : Nat), s.workers[w]? = some (some (lo, hi)) → lo < hi
  stage2 : ∀ b x, wsum (indC b x) s.called + osum (ind e b x) s.matchers + wsum (ind e b x) s.queue
                = wsum (ind e b x) s.delivered

theorem inv_init (e : Env) (start end_ batch workers matchers : Nat) (c : Bool) :
    Inv e (init start end_ batch workers matchers c) := by
  refine ⟨by simp [init], ?_, by simp [init], ?_, ?_⟩
  · intro i; simp only [init, cnt, pend_replicate_none]; omega
  · intro w lo hi h
    simp only [init, List.getElem?_replicate] at h
    split at h <;> simp at h
  · intro b x; simp [init, wsum, osum_replicate_none]

theorem getElem?_set_cases {α} (l : List α) (w w' : Nat) (a : α) :
    (l.set w a)[w']? = if w = w' ∧ w < l.length then some a else l[w']? := by
  by_cases h : w = w'
  · subst h
    by_cases h2 : w < l.length
    · simp [h2]
    · simp [h2]
  · simp [h, List.getElem?_set_ne h]

theorem inv_hand (e : Env) (s : St) (w : Nat) (h : Inv e s) : Inv e (step e s (.hand w)) := by
  simp only [step]
  split
  · rename_i hen
    simp only [handEnabled, Bool.and_eq_true, Bool.not_eq_true', decide_eq_true_eq, beq_iff_eq] at hen
    obtain ⟨⟨⟨hcl, hw⟩, hc⟩, hb⟩ := hen
    obtain ⟨h1, h2, h3, h4, h5⟩ := h
    have hbe : s.cursor < batchEnd s ∧ batchEnd s ≤ s.end_ := by
      simp only [batchEnd]; omega
    refine ⟨by simp only; omega, ?_, h3, ?_, h5⟩
    · intro i
      have := h2 i
      have hp := pend_set s.workers w none (some (s.cursor, batchEnd s)) i hw
      simp only [one] at hp
      simp only
      have a1 := ite01 (s.cursor) (s.end_) i
      have a2 := ite01 (s.start0) (s.end_) i
      have a3 := ite01 (s.cursor) (batchEnd s) i
      have a4 := ite01 (batchEnd s) (s.end_) i
      omega
    · intro w' lo hi hh
      simp only [getElem?_set_cases] at hh
      split at hh
      · simp at hh; omega
      · exact h4 w' lo hi hh
  · exact h

theorem inv_deliver (e : Env) (s : St) (w lo hi k : Nat) (h : Inv e s)
    (hw : s.workers[w]? = some (some (lo, hi))) (hk1 : 1 ≤ k) (hk2 : lo + k ≤ hi) :
    Inv e (deliver e s w lo hi k) := by
  obtain ⟨h1, h2, h3, h4, h5⟩ := h
  refine ⟨h1, ?_, ?_, ?_, ?_⟩
  · intro i
    have := h2 i
    have hp := pend_set s.workers w (some (lo, hi)) (if lo + k < hi then some (lo + k, hi) else none) i hw
    simp only [deliver, cnt_append, cnt_batchOf]
    have a1 := ite01 (lo) (lo + k) i
    have a2 := ite01 (lo) (hi) i
    have a3 := ite01 (lo + k) (hi) i
    by_cases hlt : lo + k < hi
    · simp only [hlt, if_true, one] at hp ⊢
      omega
    · simp only [hlt, if_false, one] at hp ⊢
      omega
  · intro x hx
    simp only [deliver, List.mem_append] at hx
    rcases hx with hx | hx
    · exact h3 x hx
    · exact (mem_batchOf e.src lo k x hx).1
  · intro w' lo' hi' hh
    simp only [deliver, getElem?_set_cases] at hh
    split at hh
    · split at hh <;> simp at hh; omega
    · exact h4 w' lo' hi' hh
  · intro b x
    have := h5 b x
    simp only [deliver, wsum_append]
    omega

theorem inv_step (e : Env) (s : St) (op : Op) (hc : op.inContract = true) (h : Inv e s) : Inv e (step e s op) := by
  cases op with
  | hand w => exact inv_hand e s w h
  | resp w k =>
    simp only [step]
    split
    · rename_i lo hi hw
      split
      · rename_i hk; exact inv_deliver e s w lo hi k h hw hk.1 hk.2
      · exact h
    · exact h
  | respRaw w k => simp [Op.inContract] at hc
  | err w => exact h
  | grow n =>
    simp only [step]
    split
    · rename_i hen
      simp only [growEnabled, Bool.and_eq_true, Bool.not_eq_true', decide_eq_true_eq] at hen
      obtain ⟨⟨⟨hcl, hcont⟩, hce⟩, hn⟩ := hen
      obtain ⟨h1, h2, h3, h4, h5⟩ := h
      refine ⟨h1, ?_, h3, h4, h5⟩
      intro i
      have := h2 i
      simp only
      have a1 := ite01 (s.cursor) (s.end_) i
      have a2 := ite01 (s.start0) (s.end_) i
      have a3 := ite01 (s.cursor) (n) i
      have a4 := ite01 (s.start0) (n) i
      have a5 : cnt s.delivered i + pend s.workers i = 0 ∨ i < s.end_ := by omega
      omega
    · exact h
  | stop => obtain ⟨h1, h2, h3, h4, h5⟩ := h; exact ⟨h1, h2, h3, h4, h5⟩
  | cancel => obtain ⟨h1, h2, h3, h4, h5⟩ := h; exact ⟨h1, h2, h3, h4, h5⟩
  | close =>
    simp only [step]
    split
    · obtain ⟨h1, h2, h3, h4, h5⟩ := h; exact ⟨h1, h2, h3, h4, h5⟩
    · exact h
  | take m =>
    simp only [step]
    split
    · rename_i x q hm hq
      obtain ⟨h1, h2, h3, h4, h5⟩ := h
      refine ⟨h1, h2, h3, h4, ?_⟩
      intro b y
      have := h5 b y
      have ho := osum_set (ind e b y) s.matchers m none (some x) hm
      simp only [hq, wsum, oval] at this ho ⊢
      omega
    · exact h
  | proc m =>
    simp only [step]
    split
    · rename_i i p hm
      obtain ⟨h1, h2, h3, h4, h5⟩ := h
      refine ⟨h1, h2, h3, h4, ?_⟩
      intro b y
      have := h5 b y
      have ho := osum_set (ind e b y) s.matchers m (some (i, p)) none hm
      simp only [oval, wsum_append] at this ho ⊢
      cases hcls : e.cls i p with
      | none =>
        simp only [wsum, ind, hcls] at ho ⊢
        simp at ho
        omega
      | some b' =>
        simp only [wsum, ind, indC, hcls] at ho ⊢
        by_cases hb : b' = b
        · subst hb
          by_cases hy : (i, p) = y
          · subst hy; simp at ho ⊢; omega
          · simp [hy] at ho ⊢; omega
        · have : ¬ ((b', (i, p)) = (b, y)) := by intro hh; simp at hh; exact hb hh.1
          simp [hb, this] at ho ⊢
          omega
    · exact h

theorem inv_run (e : Env) (s : St) (ops : List Op) (hc : ops.all Op.inContract = true) (h : Inv e s) :
    Inv e (run e s ops) := by
  induction ops generalizing s with
  | nil => exact h
  | cons op t ih =>
    simp only [List.all_cons, Bool.and_eq_true] at hc
    exact ih (step e s op) hc.2 (inv_step e s op hc.1 h)

end CTV.Model.Scan
