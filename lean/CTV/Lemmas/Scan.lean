import CTV.Model.Scan
/-! Helper lemmas for C16 (counting, `List.set`, the invariant and its preservation). -/
set_option linter.unusedSimpArgs false
set_option linter.unusedVariables false
namespace CTV.Model.Scan

/-- case analysis of a 0/1 indicator in a form `omega` can use -/
theorem ite01 (lo hi i : Nat) :
    (inR lo hi i = 1 ∧ lo ≤ i ∧ i < hi) ∨ (inR lo hi i = 0 ∧ ¬ (lo ≤ i ∧ i < hi)) := by
  unfold inR
  by_cases h : lo ≤ i ∧ i < hi <;> simp [h]

theorem cnt_append (a b : List Entry) (i : Nat) : cnt (a ++ b) i = cnt a i + cnt b i := by
  induction a with
  | nil => simp [cnt]
  | cons x t ih => obtain ⟨j, p⟩ := x; simp [cnt, ih]; omega

theorem cnt_batchOf (src : Nat → Nat) (lo k i : Nat) :
    cnt (batchOf src lo k) i = inR lo (lo + k) i := by
  induction k generalizing lo with
  | zero => have := ite01 lo (lo + 0) i; simp only [batchOf, cnt]; omega
  | succ k ih =>
    simp only [batchOf, cnt, ih]
    have a1 := ite01 (lo + 1) (lo + 1 + k) i
    have a2 := ite01 lo (lo + (k + 1)) i
    by_cases h : lo = i
    · simp only [h, if_true] at a1 a2 ⊢; omega
    · simp only [h, if_false]; omega

theorem batchOf_length (src : Nat → Nat) (lo k : Nat) : (batchOf src lo k).length = k := by
  induction k generalizing lo with
  | zero => simp [batchOf]
  | succ k ih => simp [batchOf, ih]

theorem mem_batchOf (src : Nat → Nat) (lo k : Nat) (x : Entry) (h : x ∈ batchOf src lo k) :
    x.2 = src x.1 ∧ lo ≤ x.1 ∧ x.1 < lo + k := by
  induction k generalizing lo with
  | zero => simp [batchOf] at h
  | succ k ih =>
    simp only [batchOf, List.mem_cons] at h
    rcases h with h | h
    · subst h; simp
    · have := ih (lo+1) h; omega

def one (o : Option Rng) (i : Nat) : Nat :=
  match o with
  | some (lo, hi) => inR lo hi i
  | none => 0

def rem1 (o : Option Rng) : Nat :=
  match o with
  | some (lo, hi) => hi - lo
  | none => 0

theorem pend_set (ws : List (Option Rng)) (w : Nat) (old new : Option Rng) (i : Nat)
    (h : ws[w]? = some old) : pend (ws.set w new) i + one old i = pend ws i + one new i := by
  induction ws generalizing w with
  | nil => simp at h
  | cons a t ih =>
    cases w with
    | zero =>
      simp at h; subst h
      cases a with
      | none => cases new with
        | none => simp [pend, one]
        | some r => obtain ⟨lo, hi⟩ := r; simp [pend, one]; omega
      | some r => obtain ⟨lo', hi'⟩ := r; cases new with
        | none => simp [pend, one]; omega
        | some r => obtain ⟨lo, hi⟩ := r; simp [pend, one]; omega
    | succ w =>
      simp at h
      have := ih w h
      cases a with
      | none => simpa [pend] using this
      | some r => obtain ⟨lo, hi⟩ := r; simp [pend] at this ⊢; omega

theorem remaining_set (ws : List (Option Rng)) (w : Nat) (old new : Option Rng)
    (h : ws[w]? = some old) : remaining (ws.set w new) + rem1 old = remaining ws + rem1 new := by
  induction ws generalizing w with
  | nil => simp at h
  | cons a t ih =>
    cases w with
    | zero =>
      simp at h; subst h
      cases a with
      | none => cases new with
        | none => simp [remaining, rem1]
        | some r => obtain ⟨lo, hi⟩ := r; simp [remaining, rem1]; omega
      | some r => obtain ⟨lo', hi'⟩ := r; cases new with
        | none => simp [remaining, rem1]; omega
        | some r => obtain ⟨lo, hi⟩ := r; simp [remaining, rem1]; omega
    | succ w =>
      simp at h
      have := ih w h
      cases a with
      | none => simpa [remaining] using this
      | some r => obtain ⟨lo, hi⟩ := r; simp [remaining] at this ⊢; omega

theorem busy_set {α} (ms : List (Option α)) (m : Nat) (old new : Option α)
    (h : ms[m]? = some old) :
    busy (ms.set m new) + (if old.isSome then 1 else 0) = busy ms + (if new.isSome then 1 else 0) := by
  induction ms generalizing m with
  | nil => simp at h
  | cons a t ih =>
    cases m with
    | zero =>
      simp at h; subst h
      cases a <;> cases new <;> simp [busy] <;> omega
    | succ m =>
      simp at h
      have := ih m h
      cases a <;> simp [busy] at this ⊢ <;> omega


/-! ### generic weighted sums (for the matcher stage) -/

def wsum {α} (f : α → Nat) : List α → Nat
  | [] => 0
  | a :: t => f a + wsum f t

def osum {α} (f : α → Nat) : List (Option α) → Nat
  | [] => 0
  | none :: t => osum f t
  | some a :: t => f a + osum f t

def oval {α} (f : α → Nat) : Option α → Nat
  | none => 0
  | some a => f a

theorem wsum_append {α} (f : α → Nat) (a b : List α) : wsum f (a ++ b) = wsum f a + wsum f b := by
  induction a with
  | nil => simp [wsum]
  | cons x t ih => simp [wsum, ih]; omega

theorem wsum_eraseIdx {α} (f : α → Nat) (l : List α) (j : Nat) (x : α) (h : l[j]? = some x) :
    wsum f (l.eraseIdx j) + f x = wsum f l := by
  induction l generalizing j with
  | nil => simp at h
  | cons a t ih =>
    cases j with
    | zero => simp at h; subst h; simp [wsum]; omega
    | succ j => simp at h; have := ih j h; simp [wsum] at this ⊢; omega

theorem length_eraseIdx' {α} (l : List α) (j : Nat) (x : α) (h : l[j]? = some x) :
    (l.eraseIdx j).length + 1 = l.length := by
  induction l generalizing j with
  | nil => simp at h
  | cons a t ih =>
    cases j with
    | zero => simp
    | succ j => simp at h; have := ih j h; simp at this ⊢; omega

theorem osum_set {α} (f : α → Nat) (ms : List (Option α)) (m : Nat) (old new : Option α)
    (h : ms[m]? = some old) : osum f (ms.set m new) + oval f old = osum f ms + oval f new := by
  induction ms generalizing m with
  | nil => simp at h
  | cons a t ih =>
    cases m with
    | zero =>
      simp at h; subst h
      cases a <;> cases new <;> simp [osum, oval] <;> omega
    | succ m =>
      simp at h
      have := ih m h
      cases a <;> simp [osum] at this ⊢ <;> omega

theorem osum_replicate_none {α} (f : α → Nat) (n : Nat) : osum f (List.replicate n none) = 0 := by
  induction n with
  | zero => simp [osum]
  | succ n ih => simp [List.replicate_succ, osum, ih]

theorem pend_replicate_none (n i : Nat) : pend (List.replicate n none) i = 0 := by
  induction n with
  | zero => simp [pend]
  | succ n ih => simp [List.replicate_succ, pend, ih]

theorem remaining_replicate_none (n : Nat) : remaining (List.replicate n none) = 0 := by
  induction n with
  | zero => simp [remaining]
  | succ n ih => simp [List.replicate_succ, remaining, ih]

theorem busy_replicate_none {α} (n : Nat) : busy (List.replicate n (none : Option α)) = 0 := by
  induction n with
  | zero => simp [busy]
  | succ n ih => simp [List.replicate_succ, busy, ih]

theorem pend_allIdle (ws : List (Option Rng)) (i : Nat) (h : allIdle ws = true) : pend ws i = 0 := by
  induction ws with
  | nil => simp [pend]
  | cons a t ih =>
    cases a with
    | none => simp [allIdle] at h ⊢; simpa [pend] using ih (by simpa [allIdle] using h)
    | some r => simp [allIdle] at h

theorem osum_allIdle {α} (f : α → Nat) (ms : List (Option α)) (h : allIdle ms = true) : osum f ms = 0 := by
  induction ms with
  | nil => simp [osum]
  | cons a t ih =>
    cases a with
    | none => simp [allIdle] at h ⊢; simpa [osum] using ih (by simpa [allIdle] using h)
    | some r => simp [allIdle] at h

/-- the indicator "this queued / delivered entry is `x` and the matcher selects callback `b` for it" -/
def ind (e : Env) (b : Bool) (x : Entry) : Entry → Nat :=
  fun y => if y = x ∧ e.cls y.1 y.2 = some b then 1 else 0

/-- the indicator "this callback invocation is callback `b` on entry `x`" -/
def indC (b : Bool) (x : Entry) : Bool × Entry → Nat :=
  fun c => if c = (b, x) then 1 else 0

/-! ### the invariant -/

/-- Counting invariant of the fetcher (every index of the range is accounted for exactly once:
delivered, pending at a worker, or still ahead of the cursor), payload fidelity, non-empty pending ranges,
and the matcher-stage bookkeeping. -/
structure Inv (e : Env) (s : St) : Prop where
  start_le : s.start0 ≤ s.cursor
  count : ∀ i, cnt s.delivered i + pend s.workers i + acnt s.abandoned i + inR s.cursor s.end_ i = inR s.start0 s.end_ i
  payload : ∀ x ∈ s.delivered, x.2 = e.src x.1
  nonempty : ∀ (w lo hi : Nat), s.workers[w]? = some (some (lo, hi)) → lo < hi
  stage2 : ∀ b x, wsum (indC b x) s.called + osum (ind e b x) s.matchers + wsum (ind e b x) s.queue
                = wsum (ind e b x) s.delivered
  cursor_le : s.cursor ≤ s.end_ ∨ s.cursor = s.start0
  closed_ok : s.closed = true → s.stopReq = true ∨ ¬ (s.cursor < s.end_)
  aband_ok : s.abandoned ≠ [] → s.cancelled = true
  cancel_stop : s.cancelled = true → s.stopReq = true

theorem inv_init (e : Env) (start end_ batch workers matchers : Nat) (c : Bool) :
    Inv e (init start end_ batch workers matchers c) := by
  refine ⟨by simp [init], ?_, by simp [init], ?_, ?_, by simp [init], by simp [init], by simp [init], by simp [init]⟩
  · intro i; simp only [init, cnt, acnt, pend_replicate_none]; omega
  · intro w lo hi h
    simp only [init, List.getElem?_replicate] at h
    split at h <;> simp at h
  · intro b x; simp [init, wsum, osum_replicate_none]

theorem getElem?_set_cases {α} (l : List α) (w w' : Nat) (a : α) :
    (l.set w a)[w']? = if w = w' ∧ w < l.length then some a else l[w']? := by
  by_cases h : w = w'
  · subst h
    by_cases h2 : w < l.length
    · simp [h2]
    · simp [h2]
  · simp [h, List.getElem?_set_ne h]

theorem inv_hand (e : Env) (s : St) (w : Nat) (h : Inv e s) : Inv e (step e s (.hand w)) := by
  simp only [step]
  split
  · rename_i hen
    simp only [handEnabled, Bool.and_eq_true, Bool.not_eq_true', decide_eq_true_eq, beq_iff_eq] at hen
    obtain ⟨⟨⟨hcl, hw⟩, hc⟩, hb⟩ := hen
    obtain ⟨h1, h2, h3, h4, h5, h6, h7, h8, h9⟩ := h
    have hbe : s.cursor < batchEnd s ∧ batchEnd s ≤ s.end_ := by
      simp only [batchEnd]; omega
    refine ⟨by simp only; omega, ?_, h3, ?_, h5, by simp only; omega, by simp only [hcl]; simp, h8, h9⟩
    · intro i
      have := h2 i
      have hp := pend_set s.workers w none (some (s.cursor, batchEnd s)) i hw
      simp only [one] at hp
      simp only
      have a1 := ite01 (s.cursor) (s.end_) i
      have a2 := ite01 (s.start0) (s.end_) i
      have a3 := ite01 (s.cursor) (batchEnd s) i
      have a4 := ite01 (batchEnd s) (s.end_) i
      omega
    · intro w' lo hi hh
      simp only [getElem?_set_cases] at hh
      split at hh
      · simp at hh; omega
      · exact h4 w' lo hi hh
  · exact h

theorem inv_deliver (e : Env) (s : St) (w lo hi k : Nat) (h : Inv e s)
    (hw : s.workers[w]? = some (some (lo, hi))) (hk1 : 1 ≤ k) (hk2 : lo + k ≤ hi) :
    Inv e (deliver e s w lo hi k) := by
  obtain ⟨h1, h2, h3, h4, h5, h6, h7, h8, h9⟩ := h
  refine ⟨h1, ?_, ?_, ?_, ?_, h6, h7, h8, h9⟩
  · intro i
    have := h2 i
    have hp := pend_set s.workers w (some (lo, hi)) (if lo + k < hi then some (lo + k, hi) else none) i hw
    simp only [deliver, cnt_append, cnt_batchOf]
    have a1 := ite01 (lo) (lo + k) i
    have a2 := ite01 (lo) (hi) i
    have a3 := ite01 (lo + k) (hi) i
    by_cases hlt : lo + k < hi
    · simp only [hlt, if_true, one] at hp ⊢
      omega
    · simp only [hlt, if_false, one] at hp ⊢
      omega
  · intro x hx
    simp only [deliver, List.mem_append] at hx
    rcases hx with hx | hx
    · exact h3 x hx
    · exact (mem_batchOf e.src lo k x hx).1
  · intro w' lo' hi' hh
    simp only [deliver, getElem?_set_cases] at hh
    split at hh
    · split at hh <;> simp at hh; omega
    · exact h4 w' lo' hi' hh
  · intro b x
    have := h5 b x
    simp only [deliver, wsum_append]
    omega

theorem inv_step (e : Env) (s : St) (op : Op) (hc : op.inContract = true) (h : Inv e s) : Inv e (step e s op) := by
  cases op with
  | hand w => exact inv_hand e s w h
  | resp w k =>
    simp only [step]
    split
    · rename_i lo hi hw
      split
      · rename_i hk; exact inv_deliver e s w lo hi k h hw hk.1 hk.2
      · exact h
    · exact h
  | respRaw w k => simp [Op.inContract] at hc
  | err w => exact h
  | abandon w =>
    simp only [step]
    split
    · rename_i r hw
      split
      · rename_i hcan
        obtain ⟨lo, hi⟩ := r
        obtain ⟨h1, h2, h3, h4, h5, h6, h7, h8, h9⟩ := h
        refine ⟨h1, ?_, h3, ?_, h5, h6, h7, fun _ => hcan, h9⟩
        · intro i
          have := h2 i
          have hp := pend_set s.workers w (some (lo, hi)) none i hw
          simp only [one] at hp
          simp only [acnt]
          omega
        · intro w' lo' hi' hh
          simp only [getElem?_set_cases] at hh
          split at hh
          · simp at hh
          · exact h4 w' lo' hi' hh
      · exact h
    · exact h
  | grow n =>
    simp only [step]
    split
    · rename_i hen
      simp only [growEnabled, Bool.and_eq_true, Bool.not_eq_true', decide_eq_true_eq] at hen
      obtain ⟨⟨⟨hcl, hcont⟩, hce⟩, hn⟩ := hen
      obtain ⟨h1, h2, h3, h4, h5, h6, h7, h8, h9⟩ := h
      refine ⟨h1, ?_, h3, h4, h5, by simp only; omega, by simp only [hcl]; simp, h8, h9⟩
      intro i
      have := h2 i
      simp only
      have a1 := ite01 (s.cursor) (s.end_) i
      have a2 := ite01 (s.start0) (s.end_) i
      have a3 := ite01 (s.cursor) (n) i
      have a4 := ite01 (s.start0) (n) i
      have a5 : cnt s.delivered i + pend s.workers i + acnt s.abandoned i = 0 ∨ i < s.end_ := by omega
      omega
    · exact h
  | stop => obtain ⟨h1, h2, h3, h4, h5, h6, h7, h8, h9⟩ := h; exact ⟨h1, h2, h3, h4, h5, h6, fun _ => Or.inl rfl, h8, fun _ => rfl⟩
  | cancel => obtain ⟨h1, h2, h3, h4, h5, h6, h7, h8, h9⟩ := h; exact ⟨h1, h2, h3, h4, h5, h6, fun _ => Or.inl rfl, fun _ => rfl, fun _ => rfl⟩
  | close =>
    simp only [step]
    split
    · rename_i hen
      obtain ⟨h1, h2, h3, h4, h5, h6, h7, h8, h9⟩ := h
      refine ⟨h1, h2, h3, h4, h5, h6, ?_, h8, h9⟩
      intro _
      simp only [closeEnabled, Bool.and_eq_true, Bool.not_eq_true', Bool.or_eq_true, decide_eq_false_iff_not] at hen
      rcases hen.2 with hh | hh
      · exact Or.inl hh
      · exact Or.inr hh.2
    · exact h
  | take m j =>
    simp only [step]
    split
    · rename_i x hm hq
      obtain ⟨h1, h2, h3, h4, h5, h6, h7, h8, h9⟩ := h
      refine ⟨h1, h2, h3, h4, ?_, h6, h7, h8, h9⟩
      intro b y
      have := h5 b y
      have ho := osum_set (ind e b y) s.matchers m none (some x) hm
      have hq' := wsum_eraseIdx (ind e b y) s.queue j x hq
      simp only [oval] at this ho ⊢
      omega
    · exact h
  | proc m =>
    simp only [step]
    split
    · rename_i i p hm
      obtain ⟨h1, h2, h3, h4, h5, h6, h7, h8, h9⟩ := h
      refine ⟨h1, h2, h3, h4, ?_, h6, h7, h8, h9⟩
      intro b y
      have := h5 b y
      have ho := osum_set (ind e b y) s.matchers m (some (i, p)) none hm
      simp only [oval, wsum_append] at this ho ⊢
      cases hcls : e.cls i p with
      | none =>
        simp only [wsum, ind, hcls] at ho ⊢
        simp at ho
        omega
      | some b' =>
        simp only [wsum, ind, indC, hcls] at ho ⊢
        by_cases hb : b' = b
        · subst hb
          by_cases hy : (i, p) = y
          · subst hy; simp at ho ⊢; omega
          · simp [hy] at ho ⊢; omega
        · have : ¬ ((b', (i, p)) = (b, y)) := by intro hh; simp at hh; exact hb hh.1
          simp [hb, this] at ho ⊢
          omega
    · exact h

theorem inv_run (e : Env) (s : St) (ops : List Op) (hc : ops.all Op.inContract = true) (h : Inv e s) :
    Inv e (run e s ops) := by
  induction ops generalizing s with
  | nil => exact h
  | cons op t ih =>
    simp only [List.all_cons, Bool.and_eq_true] at hc
    exact ih (step e s op) hc.2 (inv_step e s op hc.1 h)


/-! ### termination scanMeasure and progress -/

theorem enabled_resp (s : St) (w k : Nat) (h : enabled s (.resp w k) = true) :
    ∃ lo hi, s.workers[w]? = some (some (lo, hi)) ∧ 1 ≤ k ∧ lo + k ≤ hi := by
  simp only [enabled] at h
  split at h
  · rename_i lo hi hw; exact ⟨lo, hi, hw, by simpa using h⟩
  · simp at h

theorem enabled_take (s : St) (m j : Nat) (h : enabled s (.take m j) = true) :
    ∃ x, s.matchers[m]? = some none ∧ s.queue[j]? = some x := by
  simp only [enabled] at h
  split at h
  · rename_i x hm hq; exact ⟨x, hm, hq⟩
  · simp at h

theorem enabled_proc (s : St) (m : Nat) (h : enabled s (.proc m) = true) :
    ∃ x, s.matchers[m]? = some (some x) := by
  simp only [enabled] at h
  split at h
  · rename_i x hm; exact ⟨x, hm⟩
  · simp at h

theorem enabled_abandon (s : St) (w : Nat) (h : enabled s (.abandon w) = true) :
    ∃ r, s.workers[w]? = some (some r) ∧ s.cancelled = true := by
  simp only [enabled] at h
  split at h
  · rename_i r hw; exact ⟨r, hw, h⟩
  · simp at h

theorem step_disabled (e : Env) (s : St) (op : Op) (hc : op.inContract = true) (h : enabled s op = false) :
    step e s op = s := by
  cases op with
  | hand w => simp only [enabled] at h; simp [step, h]
  | resp w k =>
    simp only [enabled] at h
    simp only [step]
    split
    · rename_i lo hi hw
      simp only [hw] at h
      have : ¬ (1 ≤ k ∧ lo + k ≤ hi) := by simpa using h
      simp [this]
    · rfl
  | respRaw w k => simp [Op.inContract] at hc
  | err w => rfl
  | abandon w =>
    simp only [enabled] at h
    simp only [step]
    split
    · rename_i r hw
      simp only [hw] at h
      simp [h]
    · rfl
  | grow n => simp only [enabled] at h; simp [step, h]
  | stop => simp [enabled] at h
  | cancel => simp [enabled] at h
  | close => simp only [enabled] at h; simp [step, h]
  | take m j =>
    simp only [enabled] at h
    simp only [step]
    split
    · rename_i x hm hq; simp [hm, hq] at h
    · rfl
  | proc m =>
    simp only [enabled] at h
    simp only [step]
    split
    · rename_i i p hm; simp [hm] at h
    · rfl

theorem step_measure (e : Env) (s : St) (op : Op) (hc : op.inContract = true) :
    (if enabled s op && op.isProgress then 1 else 0) + scanMeasure (step e s op)
      ≤ scanMeasure s + 5 * ((step e s op).end_ - s.end_) ∧ s.end_ ≤ (step e s op).end_ := by
  cases hen : enabled s op with
  | false => rw [step_disabled e s op hc hen]; simp
  | true =>
    cases op with
    | hand w =>
      have hen' : handEnabled s w = true := hen
      have hen2 := hen'
      simp only [handEnabled, Bool.and_eq_true, Bool.not_eq_true', decide_eq_true_eq, beq_iff_eq] at hen2
      obtain ⟨⟨⟨hcl, hw⟩, hc⟩, hb⟩ := hen2
      have hr := remaining_set s.workers w none (some (s.cursor, batchEnd s)) hw
      have hbw := busy_set s.workers w none (some (s.cursor, batchEnd s)) hw
      simp at hbw
      simp only [rem1] at hr
      have hbe : s.cursor < batchEnd s ∧ batchEnd s ≤ s.end_ := by simp only [batchEnd]; omega
      simp only [step, hen', if_true, scanMeasure, hcl, Op.isProgress, Bool.and_self]
      refine ⟨?_, Nat.le_refl _⟩
      simp only [Bool.false_eq_true, if_false]
      omega
    | resp w k =>
      obtain ⟨lo, hi, hw, hk1, hk2⟩ := enabled_resp s w k hen
      have hr := remaining_set s.workers w (some (lo, hi)) (if lo + k < hi then some (lo + k, hi) else none) hw
      have hk : 1 ≤ k ∧ lo + k ≤ hi := ⟨hk1, hk2⟩
      have hbw := busy_set s.workers w (some (lo, hi)) (if lo + k < hi then some (lo + k, hi) else none) hw
      simp only [step, hw, hk, and_self, if_true, deliver, scanMeasure, List.length_append, batchOf_length, Op.isProgress, Bool.and_self]
      refine ⟨?_, Nat.le_refl _⟩
      by_cases hlt : lo + k < hi
      · simp only [hlt, if_true, rem1] at hr hbw ⊢; simp at hbw; omega
      · simp only [hlt, if_false, rem1] at hr hbw ⊢; simp at hbw; omega
    | respRaw w k => simp [Op.inContract] at hc
    | err w => simp [step, Op.isProgress]
    | abandon w =>
      obtain ⟨r, hw, hcan⟩ := enabled_abandon s w hen
      obtain ⟨lo, hi⟩ := r
      have hr := remaining_set s.workers w (some (lo, hi)) none hw
      have hbw := busy_set s.workers w (some (lo, hi)) none hw
      simp at hbw
      simp only [rem1] at hr
      simp only [step, hw, hcan, if_true, scanMeasure, Op.isProgress, Bool.and_self]
      refine ⟨?_, Nat.le_refl _⟩
      omega
    | grow n =>
      have hen' : growEnabled s n = true := hen
      have hen2 := hen'
      simp only [growEnabled, Bool.and_eq_true, Bool.not_eq_true', decide_eq_true_eq] at hen2
      obtain ⟨⟨⟨hcl, hcont⟩, hce⟩, hn⟩ := hen2
      simp only [step, hen', if_true, scanMeasure, Op.isProgress, Bool.and_false]
      refine ⟨?_, by omega⟩
      simp only [Bool.false_eq_true, if_false]
      omega
    | stop => cases hcl : s.closed <;> simp [step, Op.isProgress, scanMeasure, hcl]
    | cancel => cases hcl : s.closed <;> simp [step, Op.isProgress, scanMeasure, hcl]
    | close =>
      have hen' : closeEnabled s = true := hen
      have hcl : s.closed = false := by
        have := hen'; simp only [closeEnabled, Bool.and_eq_true, Bool.not_eq_true'] at this; exact this.1
      simp only [step, hen', if_true, scanMeasure, hcl, Op.isProgress, Bool.and_self]
      refine ⟨?_, Nat.le_refl _⟩
      simp only [Bool.false_eq_true, if_false, if_true]
      omega
    | take m j =>
      obtain ⟨x, hm, hq⟩ := enabled_take s m j hen
      have hb := busy_set s.matchers m none (some x) hm
      have hl := length_eraseIdx' s.queue j x hq
      simp only [step, hm, hq, scanMeasure, Op.isProgress, Bool.and_self, if_true]
      refine ⟨?_, Nat.le_refl _⟩
      simp at hb
      omega
    | proc m =>
      obtain ⟨x, hm⟩ := enabled_proc s m hen
      obtain ⟨i, p⟩ := x
      have hb := busy_set s.matchers m (some (i, p)) none hm
      simp only [step, hm, scanMeasure, Op.isProgress, Bool.and_self, if_true]
      refine ⟨?_, Nat.le_refl _⟩
      simp at hb
      omega

/-- number of enabled progress steps taken along `ops` -/
def progressCount (e : Env) : St → List Op → Nat
  | _, [] => 0
  | s, op :: t => (if enabled s op && op.isProgress then 1 else 0) + progressCount e (step e s op) t

theorem end_mono_run (e : Env) (s : St) (ops : List Op) (hc : ops.all Op.inContract = true) :
    s.end_ ≤ (run e s ops).end_ := by
  induction ops generalizing s with
  | nil => exact Nat.le_refl _
  | cons op t ih =>
    simp only [List.all_cons, Bool.and_eq_true] at hc
    exact Nat.le_trans (step_measure e s op hc.1).2 (ih (step e s op) hc.2)

theorem run_measure (e : Env) (s : St) (ops : List Op) (hc : ops.all Op.inContract = true) :
    progressCount e s ops + scanMeasure (run e s ops) ≤ scanMeasure s + 5 * ((run e s ops).end_ - s.end_) := by
  induction ops generalizing s with
  | nil => simp [progressCount, run]
  | cons op t ih =>
    simp only [List.all_cons, Bool.and_eq_true] at hc
    have h1 := step_measure e s op hc.1
    have h2 := ih (step e s op) hc.2
    have h3 := end_mono_run e (step e s op) t hc.2
    simp only [progressCount]
    show _ + scanMeasure (run e (step e s op) t) ≤ _ + 5 * ((run e (step e s op) t).end_ - s.end_)
    omega

theorem allIdle_get {α} (l : List (Option α)) (h : allIdle l = true) (m : Nat) (o : Option α)
    (hm : l[m]? = some o) : o = none := by
  induction l generalizing m with
  | nil => simp at hm
  | cons a t ih =>
    simp only [allIdle, List.all_cons, Bool.and_eq_true] at h
    cases m with
    | zero => simp at hm; subst hm; cases a <;> simp_all
    | succ m => simp at hm; exact ih (by simpa [allIdle] using h.2) m hm

theorem exists_busy {α} (l : List (Option α)) (h : allIdle l = false) : ∃ (m : Nat) (x : α), l[m]? = some (some x) := by
  induction l with
  | nil => simp [allIdle] at h
  | cons a t ih =>
    cases a with
    | some x => exact ⟨0, x, by simp⟩
    | none =>
      have : allIdle t = false := by simpa [allIdle] using h
      obtain ⟨m, x, hx⟩ := ih this
      exact ⟨m + 1, x, by simpa using hx⟩

theorem idle_head {α} (l : List (Option α)) (h : allIdle l = true) (hl : 1 ≤ l.length) : l[0]? = some none := by
  cases l with
  | nil => simp at hl
  | cons a t =>
    have := allIdle_get (a :: t) h 0 a (by simp)
    subst this; simp

/-- Unless everything has finished, some progress step is enabled — or the scan is in continuous mode,
has drained everything, and waits for the log to grow. -/
theorem progress (e : Env) (s : St) (h : Inv e s) (hq : quiescent s = false)
    (hw : 1 ≤ s.workers.length) (hm : 1 ≤ s.matchers.length) (hb : 0 < s.batch) :
    (∃ op, op.isProgress = true ∧ op.inContract = true ∧ enabled s op = true) ∨
    (s.continuous = true ∧ s.stopReq = false ∧ s.closed = false ∧ s.end_ ≤ s.cursor ∧
      allIdle s.workers = true ∧ s.queue = [] ∧ allIdle s.matchers = true) := by
  by_cases hmi : allIdle s.matchers = true
  · cases hqu : s.queue with
    | cons x q =>
      left
      refine ⟨.take 0 0, rfl, rfl, ?_⟩
      simp [enabled, idle_head s.matchers hmi hm, hqu]
    | nil =>
      by_cases hwi : allIdle s.workers = true
      · cases hcl : s.closed with
        | true => simp [quiescent, hcl, hwi, hqu, hmi] at hq
        | false =>
          cases hst : s.stopReq with
          | true => left; exact ⟨.close, rfl, rfl, by simp [enabled, closeEnabled, hcl, hst]⟩
          | false =>
            by_cases hce : s.cursor < s.end_
            · left
              refine ⟨.hand 0, rfl, rfl, ?_⟩
              simp [enabled, handEnabled, hcl, idle_head s.workers hwi hw, hce, hb]
            · cases hco : s.continuous with
              | false => left; exact ⟨.close, rfl, rfl, by simp [enabled, closeEnabled, hcl, hco, hce]⟩
              | true => right; exact ⟨rfl, rfl, rfl, by omega, hwi, rfl, hmi⟩
      · left
        obtain ⟨w, r, hr⟩ := exists_busy s.workers (by simpa using hwi)
        obtain ⟨lo, hi⟩ := r
        have := h.nonempty w lo hi hr
        refine ⟨.resp w 1, rfl, rfl, ?_⟩
        simp only [enabled, hr]
        simp; omega
  · left
    obtain ⟨m, x, hx⟩ := exists_busy s.matchers (by simpa using hmi)
    exact ⟨.proc m, rfl, rfl, by simp [enabled, hx]⟩


/-- from the invariant alone: with no fetch pending, the delivered indices are exactly `start0 … cursor-1`; and if the
generator has finished without having been asked to stop, that is all of `[start0, end)` -/
theorem inv_idle (e : Env) (s : St) (h : Inv e s) (hi : allIdle s.workers = true) :
    (∀ i, cnt s.delivered i + acnt s.abandoned i = inR s.start0 s.cursor i) ∧
    (s.stopReq = false → ∀ i, cnt s.delivered i = inR s.start0 s.cursor i) ∧
    (s.closed = true → s.stopReq = false → ∀ i, cnt s.delivered i = inR s.start0 s.end_ i) := by
  have key : ∀ i, cnt s.delivered i + acnt s.abandoned i + inR s.cursor s.end_ i = inR s.start0 s.end_ i := by
    intro i
    have hcount := h.count i
    rw [pend_allIdle s.workers i hi] at hcount
    omega
  have hle := h.start_le
  have hcl := h.cursor_le
  have hab : s.stopReq = false → s.abandoned = [] := by
    intro hs
    cases ha : s.abandoned with
    | nil => rfl
    | cons a t =>
      have := h.cancel_stop (h.aband_ok (by simp [ha]))
      rw [hs] at this; cases this
  have first : ∀ i, cnt s.delivered i + acnt s.abandoned i = inR s.start0 s.cursor i := by
    intro i
    have := key i
    have a1 := ite01 s.cursor s.end_ i
    have a2 := ite01 s.start0 s.end_ i
    have a3 := ite01 s.start0 s.cursor i
    omega
  refine ⟨first, ?_, ?_⟩
  · intro hs i
    have := first i
    rw [hab hs] at this
    simpa [acnt] using this
  · intro hclosed hstop i
    have := key i
    rw [hab hstop] at this
    simp only [acnt] at this
    have hok := h.closed_ok hclosed
    have a1 := ite01 s.cursor s.end_ i
    rcases hok with hok | hok
    · rw [hstop] at hok; cases hok
    · omega

theorem pend_pos (ws : List (Option Rng)) (w lo hi i : Nat) (h : ws[w]? = some (some (lo, hi)))
    (h1 : lo ≤ i) (h2 : i < hi) : 1 ≤ pend ws i := by
  have hp := pend_set ws w (some (lo, hi)) none i h
  have a := ite01 lo hi i
  simp only [one] at hp
  omega

/-- a worker's pending range lies inside the scan range -/
theorem worker_in_range (e : Env) (s : St) (h : Inv e s) (w lo hi : Nat) (hw : s.workers[w]? = some (some (lo, hi))) :
    s.start0 ≤ lo ∧ hi ≤ s.end_ := by
  have hne := h.nonempty w lo hi hw
  have c1 := h.count lo
  have c2 := h.count (hi - 1)
  have p1 := pend_pos s.workers w lo hi lo hw (by omega) (by omega)
  have p2 := pend_pos s.workers w lo hi (hi - 1) hw (by omega) (by omega)
  have a1 := ite01 s.start0 s.end_ lo
  have a2 := ite01 s.start0 s.end_ (hi - 1)
  omega

/-! ### cancellation ends the fetch without any answer from the server -/

/-- ops a cancelled fetch needs to finish: workers giving up, the generator exiting -/
def Op.isGiveUp : Op → Bool
  | .abandon _ | .close => true
  | _ => false

theorem cancel_step (e : Env) (s : St) (h : Inv e s) (hc : s.cancelled = true)
    (hq : (s.closed && allIdle s.workers) = false) :
    ∃ op, op.isGiveUp = true ∧ op.inContract = true ∧ enabled s op = true ∧ scanMeasure (step e s op) < scanMeasure s := by
  by_cases hwi : allIdle s.workers = true
  · have hcl : s.closed = false := by simpa [hwi] using hq
    have hst := h.cancel_stop hc
    have hen : enabled s .close = true := by simp [enabled, closeEnabled, hcl, hst]
    have := (step_measure e s .close rfl).1
    simp only [hen, Op.isProgress, Bool.and_self, if_true] at this
    have he : (step e s .close).end_ = s.end_ := by simp [step, closeEnabled, hcl, hst]
    rw [he] at this
    exact ⟨.close, rfl, rfl, hen, by omega⟩
  · obtain ⟨w, r, hr⟩ := exists_busy s.workers (by simpa using hwi)
    have hen : enabled s (.abandon w) = true := by simp [enabled, hr, hc]
    have := (step_measure e s (.abandon w) rfl).1
    simp only [hen, Op.isProgress, Bool.and_self, if_true] at this
    have he : (step e s (.abandon w)).end_ = s.end_ := by simp [step, hr, hc]
    rw [he] at this
    exact ⟨.abandon w, rfl, rfl, hen, by omega⟩

theorem cancel_terminates_aux (e : Env) (n : Nat) : ∀ (s : St), Inv e s → s.cancelled = true → scanMeasure s ≤ n →
    ∃ ops : List Op, ops.all Op.isGiveUp = true ∧ ops.length ≤ n ∧
      (run e s ops).closed = true ∧ allIdle (run e s ops).workers = true := by
  induction n with
  | zero =>
    intro s h hc hm
    cases hq : (s.closed && allIdle s.workers) with
    | true =>
      simp only [Bool.and_eq_true] at hq
      exact ⟨[], rfl, Nat.le_refl _, hq.1, hq.2⟩
    | false =>
      obtain ⟨op, _, _, _, hlt⟩ := cancel_step e s h hc hq
      omega
  | succ n ih =>
    intro s h hc hm
    cases hq : (s.closed && allIdle s.workers) with
    | true =>
      simp only [Bool.and_eq_true] at hq
      exact ⟨[], rfl, Nat.zero_le _, hq.1, hq.2⟩
    | false =>
      obtain ⟨op, hg, hic, hen, hlt⟩ := cancel_step e s h hc hq
      have hinv := inv_step e s op hic h
      have hc' : (step e s op).cancelled = true := by
        cases op <;> simp [Op.isGiveUp] at hg <;> simp only [step] <;> (repeat' split) <;> simp_all
      obtain ⟨ops, ha, hl, h1, h2⟩ := ih (step e s op) hinv hc' (by omega)
      exact ⟨op :: ops, by simp [hg, ha], by simp; omega, h1, h2⟩

/-! ### fields that never change, and payload counting -/

theorem step_consts (e : Env) (s : St) (op : Op) :
    (step e s op).start0 = s.start0 ∧ (step e s op).batch = s.batch ∧ (step e s op).continuous = s.continuous ∧
    (step e s op).workers.length = s.workers.length ∧ (step e s op).matchers.length = s.matchers.length := by
  cases op <;> simp only [step] <;> (repeat' split) <;> simp [deliver]

theorem run_consts (e : Env) (s : St) (ops : List Op) :
    (run e s ops).start0 = s.start0 ∧ (run e s ops).batch = s.batch ∧ (run e s ops).continuous = s.continuous ∧
    (run e s ops).workers.length = s.workers.length ∧ (run e s ops).matchers.length = s.matchers.length := by
  induction ops generalizing s with
  | nil => exact ⟨rfl, rfl, rfl, rfl, rfl⟩
  | cons op t ih =>
    have h1 := ih (step e s op)
    have h2 := step_consts e s op
    show (run e (step e s op) t).start0 = _ ∧ (run e (step e s op) t).batch = _ ∧ (run e (step e s op) t).continuous = _ ∧
      (run e (step e s op) t).workers.length = _ ∧ (run e (step e s op) t).matchers.length = _
    refine ⟨?_, ?_, ?_, ?_, ?_⟩ <;> simp [h1, h2]

/-- without continuous mode the end of the range never moves -/
theorem run_end_fixed (e : Env) (s : St) (ops : List Op) (hc : s.continuous = false) : (run e s ops).end_ = s.end_ := by
  induction ops generalizing s with
  | nil => rfl
  | cons op t ih =>
    show (run e (step e s op) t).end_ = s.end_
    rw [ih (step e s op) (by rw [(step_consts e s op).2.2.1]; exact hc)]
    cases op <;> simp only [step] <;> (repeat' split) <;> simp_all [deliver, growEnabled]

/-- occurrences of the exact pair `(i, p)` among entries whose payload is the server's: one per occurrence of
the index when `p` is the server's entry, none otherwise -/
theorem wsum_pair (src : Nat → Nat) (l : List Entry) (hp : ∀ x ∈ l, x.2 = src x.1) (i p : Nat) :
    wsum (fun y => if y = (i, p) then 1 else 0) l = if p = src i then cnt l i else 0 := by
  induction l with
  | nil => simp [wsum, cnt]
  | cons a t ih =>
    obtain ⟨j, q⟩ := a
    have hq : q = src j := hp (j, q) (by simp)
    have iht := ih (fun x hx => hp x (by simp [hx]))
    simp only [wsum, cnt, iht]
    by_cases hj : j = i
    · subst hj
      by_cases hpq : p = src j
      · subst hpq; simp [hq]
      · have : ¬ ((j, q) = (j, p)) := by intro hh; simp at hh; rw [hq] at hh; exact hpq hh.symm
        simp [this, hpq]
    · have : ¬ ((j, q) = (i, p)) := by intro hh; simp at hh; exact hj hh.1
      simp [this, hj]

theorem wsum_ind (e : Env) (b : Bool) (i p : Nat) (l : List Entry) :
    wsum (ind e b (i, p)) l = if e.cls i p = some b then wsum (fun y => if y = (i, p) then 1 else 0) l else 0 := by
  induction l with
  | nil => simp [wsum]
  | cons a t ih =>
    simp only [wsum, ih, ind]
    by_cases ha : a = (i, p)
    · subst ha; by_cases hc : e.cls i p = some b <;> simp [hc]
    · by_cases hc : e.cls i p = some b <;> simp [hc, ha]

end CTV.Model.Scan
