import CTV.Lemmas.TlsCheck
/-!
Round-trip lemmas for the TLS presentation codec model (`CTV.Tls.Codec`): the mutual inductions behind
`C09.dec_enc` and `C09.enc_dec`, and the building blocks other properties use.
-/
namespace Tls
open CTV

theorem Info.wf_iff (i : Info) : i.wf = true ↔ (i.countSet = true ∧ 1 ≤ i.count ∧ i.count ≤ 8) := by
  simp [Info.wf, and_assoc]

/-! ### length prefixes -/

theorem readVar_beEnc (i : Info) (n : Nat) (r : Bytes) (hw : i.wf = true) (h : i.check n = true) :
    readVar i (beEnc i.count n ++ r) = .ok (n, r) := by
  obtain ⟨hs, _, h8⟩ := (Info.wf_iff i).1 hw
  have hlt := check_lt i n h8 h
  simp [readVar, hs, beEnc_length, beDec_beEnc _ _ hlt, h]

theorem readPrefixed_encPrefixed (i : Info) (body out r : Bytes) (hw : i.wf = true)
    (h : encPrefixed i body = .ok out) : readPrefixed i (out ++ r) = .ok (body, r) := by
  unfold encPrefixed at h
  split at h
  · rename_i hc
    cases h
    simp [readPrefixed, List.append_assoc, readVar_beEnc i _ _ hw hc]
  · cases h

theorem encPrefixed_length (i : Info) (body out : Bytes) (h : encPrefixed i body = .ok out) :
    out.length = i.count + body.length := by
  unfold encPrefixed at h
  split at h
  · cases h; simp [beEnc_length]
  · cases h

theorem readVar_inv (i : Info) (bs rest : Bytes) (n : Nat) (h : readVar i bs = .ok (n, rest)) :
    bs = beEnc i.count n ++ rest ∧ i.check n = true := by
  unfold readVar at h
  split at h
  · cases h
  split at h
  · cases h
  rename_i hlen
  simp only at h
  split at h
  · rename_i hc
    simp only [Except.ok.injEq, Prod.mk.injEq] at h
    obtain ⟨rfl, rfl⟩ := h
    refine ⟨?_, hc⟩
    have hl := take_len bs i.count (by omega)
    have := beEnc_beDec (bs.take i.count)
    rw [hl] at this
    rw [this, List.take_append_drop]
  · cases h

theorem readPrefixed_inv (i : Info) (bs body rest : Bytes) (h : readPrefixed i bs = .ok (body, rest)) :
    ∃ out, encPrefixed i body = .ok out ∧ bs = out ++ rest := by
  unfold readPrefixed at h
  split at h
  · cases h
  rename_i n r1 hv
  split at h
  · rename_i hn
    simp only [Except.ok.injEq, Prod.mk.injEq] at h
    obtain ⟨rfl, rfl⟩ := h
    obtain ⟨e1, hc⟩ := readVar_inv i bs r1 n hv
    have hl : (r1.take n).length = n := take_len r1 n hn
    refine ⟨beEnc i.count n ++ r1.take n, ?_, ?_⟩
    · simp [encPrefixed, hl, hc]
    · rw [e1, List.append_assoc, List.take_append_drop]
  · cases h

/-! ### element loops -/

theorem decListWith_encListWith (fe : Val → Except Err Bytes) (fd : Bytes → Except Err (Val × Bytes))
    (hrt : ∀ v x r, fe v = .ok x → fd (x ++ r) = .ok (v, r) ∧ 0 < x.length) :
    ∀ (vs : List Val) (body : Bytes) (fuel : Nat), encListWith fe vs = .ok body → body.length < fuel →
      decListWith fd fuel body = .ok vs := by
  intro vs
  induction vs with
  | nil =>
    intro body fuel h _
    simp [encListWith] at h; subst h
    cases fuel <;> simp [decListWith]
  | cons v vs ih =>
    intro body fuel h hf
    simp only [encListWith] at h
    split at h
    · cases h
    rename_i x hx
    split at h
    · cases h
    rename_i y hy
    cases h
    obtain ⟨h1, hpos⟩ := hrt v x y hx
    match fuel with
    | 0 => omega
    | fuel + 1 =>
      have h2 := ih y fuel hy (by simp at hf; omega)
      cases hxy : x ++ y with
      | nil => simp at hxy; rw [hxy.1] at hpos; simp at hpos
      | cons c cs =>
        have hlen : y.length < (c :: cs).length := by rw [← hxy]; simp; omega
        rw [decListWith, ← hxy, h1]
        simp only []
        rw [hxy]
        simp only [hlen, if_true, h2]

theorem encListWith_decListWith (fe : Val → Except Err Bytes) (fd : Bytes → Except Err (Val × Bytes))
    (hinv : ∀ bs v rest, fd bs = .ok (v, rest) → ∃ u, bs = u ++ rest ∧ fe v = .ok u) :
    ∀ (fuel : Nat) (bs : Bytes) (vs : List Val), decListWith fd fuel bs = .ok vs → encListWith fe vs = .ok bs := by
  intro fuel
  induction fuel with
  | zero =>
    intro bs vs h
    cases bs with
    | nil => simp [decListWith] at h; subst h; simp [encListWith]
    | cons b bs => simp [decListWith] at h
  | succ fuel ih =>
    intro bs vs h
    cases bs with
    | nil => simp [decListWith] at h; subst h; simp [encListWith]
    | cons b bs =>
      simp only [decListWith] at h
      split at h
      · cases h
      rename_i v rest h1
      split at h
      · split at h
        · cases h
        rename_i ws hws
        cases h
        obtain ⟨u, e1, c1⟩ := hinv _ _ _ h1
        have c2 := ih rest ws hws
        simp [encListWith, c1, c2, e1]
      · cases h

/-- The element loop never runs out of the fuel `dec` gives it. -/
theorem decListWith_fuel (fd : Bytes → Except Err (Val × Bytes)) :
    ∀ (fuel : Nat) (bs : Bytes), bs.length < fuel → decListWith fd fuel bs ≠ .error .outOfFuel ∨
      ∃ bs', fd bs' = .error .outOfFuel := by
  intro fuel
  induction fuel with
  | zero => intro bs h; omega
  | succ fuel ih =>
    intro bs h
    cases bs with
    | nil => left; simp [decListWith]
    | cons b bs =>
      simp only [decListWith]
      split
      · rename_i e he
        by_cases hee : e = .outOfFuel
        · right; exact ⟨_, hee ▸ he⟩
        · left; intro hc; cases hc; exact hee rfl
      · rename_i v rest h1
        split
        · rename_i hlt
          rcases ih rest (by simp at h hlt; omega) with h2 | h2
          · left
            split
            · rename_i e he
              intro hc; cases hc; exact h2 he
            · intro hc; cases hc
          · right; exact h2
        · left; intro hc; cases hc

/-! ### every encoding of a positive-width type is non-empty -/

mutual
theorem enc_pos : ∀ (t : Ty) (v : Val) (bs : Bytes), t.pos = true → enc t v = .ok bs → 0 < bs.length
  | .uint w, v, bs, hp, h => by
    cases v <;> simp only [enc] at h <;> (try (cases h; done))
    split at h
    · cases h; simpa [beEnc_length, Ty.pos] using hp
    · cases h
  | .enum i, v, bs, hp, h => by
    cases v <;> simp only [enc] at h <;> (try (cases h; done))
    split at h
    · cases h; simpa [beEnc_length, Ty.pos] using hp
    · cases h
  | .arr k, v, bs, hp, h => by
    cases v <;> simp only [enc] at h <;> (try (cases h; done))
    split at h
    · rename_i h1; cases h; simp [Ty.pos] at hp; omega
    · cases h
  | .bytes i, v, bs, hp, h => by
    cases v <;> simp only [enc] at h <;> (try (cases h; done))
    have := encPrefixed_length _ _ _ h; simp [Ty.pos] at hp; omega
  | .vec i e, v, bs, hp, h => by
    cases v <;> simp only [enc] at h <;> (try (cases h; done))
    split at h
    · cases h
    · have := encPrefixed_length _ _ _ h; simp [Ty.pos] at hp; omega
  | .struct fs, v, bs, hp, h => by
    cases v <;> simp only [enc] at h <;> (try (cases h; done))
    exact encFields_pos fs _ _ _ _ bs (by simpa [Ty.pos] using hp) h
  | .bad, v, bs, hp, h => by simp [Ty.pos] at hp
theorem encFields_pos : ∀ (fs : Fields) (env : Env) (men tak : List String) (vs : List Val) (bs : Bytes),
    fs.pos = true → encFields env men tak fs vs = .ok bs → 0 < bs.length
  | .nil, _, _, _, _, _, hp, _ => by simp [Fields.pos] at hp
  | .plain name t rest, env, men, tak, vs, bs, hp, h => by
    cases vs with
    | nil => simp [encFields] at h
    | cons v vs =>
      simp only [encFields] at h
      split at h
      · cases h
      rename_i x hx
      split at h
      · cases h
      rename_i y hy
      cases h
      simp only [Fields.pos, Bool.or_eq_true] at hp
      rcases hp with hp | hp
      · have := enc_pos t v x hp hx; simp; omega
      · have := encFields_pos rest _ _ _ vs y hp hy; simp; omega
  | .variant name sel val t rest, env, men, tak, vs, bs, hp, h => by
    simp only [Fields.pos] at hp
    cases vs with
    | nil => simp [encFields] at h
    | cons v vs =>
      simp only [encFields] at h
      split at h
      · cases h
      split at h
      · split at h
        · exact encFields_pos rest _ _ _ vs bs hp h
        · cases h
      · split at h
        · cases h
        · split at h
          · cases h
          · split at h
            · cases h
            rename_i x hx
            split at h
            · cases h
            rename_i y hy
            cases h
            have := encFields_pos rest _ _ _ vs y hp hy; simp; omega
end

/-! ### decode ∘ encode -/

mutual
theorem dec_enc : ∀ (t : Ty) (v : Val) (bs r : Bytes), t.wf = true → enc t v = .ok bs →
    dec t (bs ++ r) = .ok (v, r)
  | .uint w, v, bs, r, _, h => by
    cases v <;> simp only [enc] at h <;> (try (cases h; done))
    split at h
    · rename_i hn; cases h
      simp [dec, beEnc_length, beDec_beEnc _ _ hn]
    · cases h
  | .enum i, v, bs, r, hw, h => by
    cases v <;> simp only [enc] at h <;> (try (cases h; done))
    split at h
    · rename_i hn; cases h
      simp [dec, readVar_beEnc i _ r (by simpa [Ty.wf] using hw) hn]
    · cases h
  | .arr k, v, bs, r, _, h => by
    cases v <;> simp only [enc] at h <;> (try (cases h; done))
    split at h
    · rename_i hn; cases h
      simp [dec, hn]
    · cases h
  | .bytes i, v, bs, r, hw, h => by
    cases v <;> simp only [enc] at h <;> (try (cases h; done))
    simp [dec, readPrefixed_encPrefixed i _ _ r (by simpa [Ty.wf] using hw) h]
  | .vec i e, v, bs, r, hw, h => by
    cases v <;> simp only [enc] at h <;> (try (cases h; done))
    split at h
    · cases h
    rename_i body hb
    simp only [Ty.wf, Bool.and_eq_true] at hw
    obtain ⟨⟨hi, hew⟩, hep⟩ := hw
    have hl := decListWith_encListWith (enc e) (dec e)
      (fun v x r hx => ⟨dec_enc e v x r hew hx, enc_pos e v x hep hx⟩) _ body (body.length + 1) hb (by omega)
    simp [dec, readPrefixed_encPrefixed i _ _ r hi h, hl]
  | .struct fs, v, bs, r, hw, h => by
    cases v <;> simp only [enc] at h <;> (try (cases h; done))
    simp [dec, decFields_encFields fs _ _ _ _ bs r (by simpa [Ty.wf] using hw) h]
  | .bad, v, bs, r, hw, h => by simp [Ty.wf] at hw
theorem decFields_encFields : ∀ (fs : Fields) (env : Env) (men tak : List String) (vs : List Val) (bs r : Bytes),
    fs.wf = true → encFields env men tak fs vs = .ok bs → decFields env men tak fs (bs ++ r) = .ok (vs, r)
  | .nil, env, men, tak, vs, bs, r, _, h => by
    cases vs with
    | nil =>
      simp only [encFields] at h
      split at h
      · rename_i ht; cases h; simp [decFields, ht]
      · cases h
    | cons v vs => simp [encFields] at h
  | .plain name t rest, env, men, tak, vs, bs, r, hw, h => by
    simp only [Fields.wf, Bool.and_eq_true] at hw
    cases vs with
    | nil => simp [encFields] at h
    | cons v vs =>
      simp only [encFields] at h
      split at h
      · cases h
      rename_i x hx
      split at h
      · cases h
      rename_i y hy
      cases h
      have h1 := dec_enc t v x (y ++ r) hw.1 hx
      have h2 := decFields_encFields rest _ men tak vs y r hw.2 hy
      simp [decFields, List.append_assoc, h1, h2]
  | .variant name sel val t rest, env, men, tak, vs, bs, r, hw, h => by
    simp only [Fields.wf, Bool.and_eq_true] at hw
    cases vs with
    | nil => simp [encFields] at h
    | cons v vs =>
      simp only [encFields] at h
      split at h
      · cases h
      rename_i choice hl
      split at h
      · rename_i hne
        split at h
        · have h2 := decFields_encFields rest env (sel :: men) tak vs bs r hw.2 h
          simp [decFields, hl, hne, h2]
        · cases h
      · rename_i heq
        split at h
        · cases h
        · rename_i htak
          split at h
          · cases h
          · split at h
            · cases h
            rename_i x hx
            split at h
            · cases h
            rename_i y hy
            cases h
            have h1 := dec_enc t _ x (y ++ r) hw.1 hx
            have h2 := decFields_encFields rest env (sel :: men) (sel :: tak) vs y r hw.2 hy
            simp only [ne_eq, Decidable.not_not] at heq
            simp [decFields, hl, heq, List.append_assoc, h1, h2]
            simpa using htak
end

/-! ### encode ∘ decode (no side condition) -/

theorem dec_ne_absent (t : Ty) (bs rest : Bytes) (v : Val) (h : dec t bs = .ok (v, rest)) : v ≠ .absent := by
  intro hv; subst hv
  cases t <;> simp only [dec] at h
  · split at h <;> cases h
  · split at h <;> cases h
  · split at h <;> cases h
  · split at h <;> cases h
  · split at h
    · cases h
    · split at h <;> cases h
  · split at h <;> cases h
  · cases h

mutual
theorem enc_dec : ∀ (t : Ty) (bs rest : Bytes) (v : Val), dec t bs = .ok (v, rest) →
    ∃ u, bs = u ++ rest ∧ enc t v = .ok u
  | .uint w, bs, rest, v, h => by
    simp only [dec] at h
    split at h
    · rename_i hw
      cases h
      refine ⟨bs.take w, (List.take_append_drop w bs).symm, ?_⟩
      have hl := take_len bs w hw
      have := beDec_lt (bs.take w)
      rw [hl] at this
      simp only [enc, this, if_true]
      have hh := beEnc_beDec (bs.take w)
      rw [hl] at hh
      rw [hh]
    · cases h
  | .enum i, bs, rest, v, h => by
    simp only [dec] at h
    split at h
    · cases h
    rename_i n r1 hv
    cases h
    obtain ⟨e1, hc⟩ := readVar_inv i bs _ n hv
    exact ⟨beEnc i.count n, e1, by simp [enc, hc]⟩
  | .arr k, bs, rest, v, h => by
    simp only [dec] at h
    split at h
    · rename_i hw
      cases h
      exact ⟨bs.take k, (List.take_append_drop k bs).symm, by simp [enc, take_len bs k hw]⟩
    · cases h
  | .bytes i, bs, rest, v, h => by
    simp only [dec] at h
    split at h
    · cases h
    rename_i body r1 hv
    cases h
    obtain ⟨out, h1, h2⟩ := readPrefixed_inv i bs body _ hv
    exact ⟨out, h2, by simp [enc, h1]⟩
  | .vec i e, bs, rest, v, h => by
    simp only [dec] at h
    split at h
    · cases h
    rename_i body r1 hv
    split at h
    · cases h
    rename_i vs hvs
    cases h
    obtain ⟨out, h1, h2⟩ := readPrefixed_inv i bs body _ hv
    have hinv := encListWith_decListWith (enc e) (dec e) (fun bs v rest h => enc_dec e bs rest v h) _ _ _ hvs
    exact ⟨out, h2, by simp [enc, hinv, h1]⟩
  | .struct fs, bs, rest, v, h => by
    simp only [dec] at h
    split at h
    · cases h
    rename_i vs r1 hv
    cases h
    obtain ⟨u, h1, h2⟩ := encFields_decFields fs _ _ _ bs _ vs hv
    exact ⟨u, h1, by simp [enc, h2]⟩
  | .bad, bs, rest, v, h => by simp [dec] at h
theorem encFields_decFields : ∀ (fs : Fields) (env : Env) (men tak : List String) (bs rest : Bytes) (vs : List Val),
    decFields env men tak fs bs = .ok (vs, rest) → ∃ u, bs = u ++ rest ∧ encFields env men tak fs vs = .ok u
  | .nil, env, men, tak, bs, rest, vs, h => by
    simp only [decFields] at h
    split at h
    · rename_i ht; cases h; exact ⟨[], by simp, by simp [encFields, ht]⟩
    · cases h
  | .plain name t rest', env, men, tak, bs, rest, vs, h => by
    simp only [decFields] at h
    split at h
    · cases h
    rename_i v bs1 h1
    split at h
    · cases h
    rename_i ws bs2 h2
    cases h
    obtain ⟨u1, e1, c1⟩ := enc_dec t bs bs1 v h1
    obtain ⟨u2, e2, c2⟩ := encFields_decFields rest' _ men tak bs1 _ ws h2
    exact ⟨u1 ++ u2, by rw [e1, e2, List.append_assoc], by simp [encFields, c1, c2]⟩
  | .variant name sel val t rest', env, men, tak, bs, rest, vs, h => by
    simp only [decFields] at h
    split at h
    · cases h
    rename_i choice hl
    split at h
    · rename_i hne
      split at h
      · cases h
      rename_i ws bs2 h2
      cases h
      obtain ⟨u2, e2, c2⟩ := encFields_decFields rest' env (sel :: men) tak bs _ ws h2
      exact ⟨u2, e2, by simp [encFields, hl, hne, c2]⟩
    · rename_i heq
      split at h
      · cases h
      rename_i htak
      split at h
      · cases h
      rename_i v bs1 h1
      split at h
      · cases h
      rename_i ws bs2 h2
      cases h
      obtain ⟨u1, e1, c1⟩ := enc_dec t bs bs1 v h1
      obtain ⟨u2, e2, c2⟩ := encFields_decFields rest' env (sel :: men) (sel :: tak) bs1 _ ws h2
      have hna := dec_ne_absent t bs bs1 v h1
      refine ⟨u1 ++ u2, by rw [e1, e2, List.append_assoc], ?_⟩
      simp only [ne_eq, Decidable.not_not] at heq
      cases v <;> first | exact absurd rfl hna | (simp [encFields, hl, heq, c1, c2]; simpa using htak)
end

end Tls
