import CTV.Lemmas.TlsCheck
/-!
Round-trip lemmas for the TLS presentation codec model (`CTV.Tls.Codec`): the mutual inductions behind
`C09.dec_enc` and `C09.enc_dec`, and the building blocks other properties use.
-/
namespace Tls
open CTV

theorem Info.wf_iff (i : Info) : i.wf = true ↔ (i.countSet = true ∧ 1 ≤ i.count ∧ i.count ≤ 8) := by
  simp [Info.wf, and_assoc]

/-! ### length prefixes -/

theorem readVar_beEnc (i : Info) (n : Nat) (r : Bytes) (hw : i.wf = true) (h : i.check n = true) :
    readVar i (beEnc i.count n ++ r) = .ok (n, r) := by
  obtain ⟨hs, _, h8⟩ := (Info.wf_iff i).1 hw
  have hlt := check_lt i n h8 h
  simp [readVar, hs, beEnc_length, beDec_beEnc _ _ hlt, h]

theorem readPrefixed_encPrefixed (i : Info) (body out r : Bytes) (hw : i.wf = true)
    (h : encPrefixed i body = .ok out) : readPrefixed i (out ++ r) = .ok (body, r) := by
  unfold encPrefixed at h
  split at h
  · rename_i hc
    cases h
    simp [readPrefixed, List.append_assoc, readVar_beEnc i _ _ hw hc]
  · cases h

theorem encPrefixed_length (i : Info) (body out : Bytes) (h : encPrefixed i body = .ok out) :
    out.length = i.count + body.length := by
  unfold encPrefixed at h
  split at h
  · cases h; simp [beEnc_length]
  · cases h

theorem readVar_inv (i : Info) (bs rest : Bytes) (n : Nat) (h : readVar i bs = .ok (n, rest)) :
    bs = beEnc i.count n ++ rest ∧ i.check n = true := by
  unfold readVar at h
  split at h
  · cases h
  split at h
  · cases h
  rename_i hlen
  simp only at h
  split at h
  · rename_i hc
    simp only [Except.ok.injEq, Prod.mk.injEq] at h
    obtain ⟨rfl, rfl⟩ := h
    refine ⟨?_, hc⟩
    have hl := take_len bs i.count (by omega)
    have := beEnc_beDec (bs.take i.count)
    rw [hl] at this
    rw [this, List.take_append_drop]
  · cases h

theorem readPrefixed_inv (i : Info) (bs body rest : Bytes) (h : readPrefixed i bs = .ok (body, rest)) :
    ∃ out, encPrefixed i body = .ok out ∧ bs = out ++ rest := by
  unfold readPrefixed at h
  split at h
  · cases h
  rename_i n r1 hv
  split at h
  · rename_i hn
    simp only [Except.ok.injEq, Prod.mk.injEq] at h
    obtain ⟨rfl, rfl⟩ := h
    obtain ⟨e1, hc⟩ := readVar_inv i bs r1 n hv
    have hl : (r1.take n).length = n := take_len r1 n hn
    refine ⟨beEnc i.count n ++ r1.take n, ?_, ?_⟩
    · simp [encPrefixed, hl, hc]
    · rw [e1, List.append_assoc, List.take_append_drop]
  · cases h

/-! ### element loops -/

theorem decListWith_encListWith (fe : Val → Except Err Bytes) (fd : Bytes → Except Err (Val × Bytes))
    (hrt : ∀ v x r, fe v = .ok x → fd (x ++ r) = .ok (v, r) ∧ 0 < x.length) :
    ∀ (vs : List Val) (body : Bytes) (fuel : Nat), encListWith fe vs = .ok body → body.length < fuel →
      decListWith fd fuel body = .ok vs := by
  intro vs
  induction vs with
  | nil =>
    intro body fuel h _
    simp [encListWith] at h; subst h
    cases fuel <;> simp [decListWith]
  | cons v vs ih =>
    intro body fuel h hf
    simp only [encListWith] at h
    split at h
    · cases h
    rename_i x hx
    split at h
    · cases h
    rename_i y hy
    cases h
    obtain ⟨h1, hpos⟩ := hrt v x y hx
    match fuel with
    | 0 => omega
    | fuel + 1 =>
      have h2 := ih y fuel hy (by simp at hf; omega)
      cases hxy : x ++ y with
      | nil => simp at hxy; rw [hxy.1] at hpos; simp at hpos
      | cons c cs =>
        have hlen : y.length < (c :: cs).length := by rw [← hxy]; simp; omega
        rw [decListWith, ← hxy, h1]
        simp only []
        rw [hxy]
        simp only [hlen, if_true, h2]

theorem encListWith_decListWith (fe : Val → Except Err Bytes) (fd : Bytes → Except Err (Val × Bytes))
    (hinv : ∀ bs v rest, fd bs = .ok (v, rest) → ∃ u, bs = u ++ rest ∧ fe v = .ok u) :
    ∀ (fuel : Nat) (bs : Bytes) (vs : List Val), decListWith fd fuel bs = .ok vs → encListWith fe vs = .ok bs := by
  intro fuel
  induction fuel with
  | zero =>
    intro bs vs h
    cases bs with
    | nil => simp [decListWith] at h; subst h; simp [encListWith]
    | cons b bs => simp [decListWith] at h
  | succ fuel ih =>
    intro bs vs h
    cases bs with
    | nil => simp [decListWith] at h; subst h; simp [encListWith]
    | cons b bs =>
      simp only [decListWith] at h
      split at h
      · cases h
      rename_i v rest h1
      split at h
      · split at h
        · cases h
        rename_i ws hws
        cases h
        obtain ⟨u, e1, c1⟩ := hinv _ _ _ h1
        have c2 := ih rest ws hws
        simp [encListWith, c1, c2, e1]
      · cases h

/-- The element loop never runs out of the fuel `dec` gives it. -/
theorem decListWith_fuel (fd : Bytes → Except Err (Val × Bytes)) :
    ∀ (fuel : Nat) (bs : Bytes), bs.length < fuel → decListWith fd fuel bs ≠ .error .outOfFuel ∨
      ∃ bs', fd bs' = .error .outOfFuel := by
  intro fuel
  induction fuel with
  | zero => intro bs h; omega
  | succ fuel ih =>
    intro bs h
    cases bs with
    | nil => left; simp [decListWith]
    | cons b bs =>
      simp only [decListWith]
      split
      · rename_i e he
        by_cases hee : e = .outOfFuel
        · right; exact ⟨_, hee ▸ he⟩
        · left; intro hc; cases hc; exact hee rfl
      · rename_i v rest h1
        split
        · rename_i hlt
          rcases ih rest (by simp at h hlt; omega) with h2 | h2
          · left
            split
            · rename_i e he
              intro hc; cases hc; exact h2 he
            · intro hc; cases hc
          · right; exact h2
        · left; intro hc; cases hc

/-! ### every encoding of a positive-width type is non-empty -/

mutual
theorem enc_pos : ∀ (t : Ty) (v : Val) (bs : Bytes), t.pos = true → enc t v = .ok bs → 0 < bs.length
  | .uint w, v, bs, hp, h => by
    cases v <;> simp only [enc] at h <;> (try (cases h; done))
    split at h
    · cases h; simpa [beEnc_length, Ty.pos] using hp
    · cases h
  | .enum i, v, bs, hp, h => by
    cases v <;> simp only [enc] at h <;> (try (cases h; done))
    split at h
    · cases h; simpa [beEnc_length, Ty.pos] using hp
    · cases h
  | .arr k, v, bs, hp, h => by
    cases v <;> simp only [enc] at h <;> (try (cases h; done))
    split at h
    · rename_i h1; cases h; simp [Ty.pos] at hp; omega
    · cases h
  | .bytes i, v, bs, hp, h => by
    cases v <;> simp only [enc] at h <;> (try (cases h; done))
    have := encPrefixed_length _ _ _ h; simp [Ty.pos] at hp; omega
  | .vec i e, v, bs, hp, h => by
    cases v <;> simp only [enc] at h <;> (try (cases h; done))
    split at h
    · cases h
    · have := encPrefixed_length _ _ _ h; simp [Ty.pos] at hp; omega
  | .struct fs, v, bs, hp, h => by
    cases v <;> simp only [enc] at h <;> (try (cases h; done))
    exact encFields_pos fs _ _ _ _ bs (by simpa [Ty.pos] using hp) h
  | .bad, v, bs, hp, h => by simp [Ty.pos] at hp
  | .ro t, v, bs, hp, h => by
    simp only [enc] at h
    exact enc_pos t v bs (by simpa [Ty.pos] using hp) h
theorem encFields_pos : ∀ (fs : Fields) (env : Env) (men tak : List String) (vs : List Val) (bs : Bytes),
    fs.pos = true → encFields env men tak fs vs = .ok bs → 0 < bs.length
  | .nil, _, _, _, _, _, hp, _ => by simp [Fields.pos] at hp
  | .plain name t rest, env, men, tak, vs, bs, hp, h => by
    cases vs with
    | nil => simp [encFields] at h
    | cons v vs =>
      simp only [encFields] at h
      split at h
      · cases h
      rename_i x hx
      split at h
      · cases h
      rename_i y hy
      cases h
      simp only [Fields.pos, Bool.or_eq_true] at hp
      rcases hp with hp | hp
      · have := enc_pos t v x hp hx; simp; omega
      · have := encFields_pos rest _ _ _ vs y hp hy; simp; omega
  | .variant name sel val t rest, env, men, tak, vs, bs, hp, h => by
    simp only [Fields.pos] at hp
    cases vs with
    | nil => simp [encFields] at h
    | cons v vs =>
      simp only [encFields] at h
      split at h
      · cases h
      split at h
      · split at h
        · exact encFields_pos rest _ _ _ vs bs hp h
        · cases h
      · split at h
        · cases h
        · split at h
          · cases h
          · split at h
            · cases h
            rename_i x hx
            split at h
            · cases h
            rename_i y hy
            cases h
            have := encFields_pos rest _ _ _ vs y hp hy; simp; omega
end

/-! ### decode ∘ encode -/

mutual
theorem dec_enc : ∀ (t : Ty) (v : Val) (bs r : Bytes), t.wf = true → enc t v = .ok bs →
    dec t (bs ++ r) = .ok (v, r)
  | .uint w, v, bs, r, _, h => by
    cases v <;> simp only [enc] at h <;> (try (cases h; done))
    split at h
    · rename_i hn; cases h
      simp [dec, beEnc_length, beDec_beEnc _ _ hn]
    · cases h
  | .enum i, v, bs, r, hw, h => by
    cases v <;> simp only [enc] at h <;> (try (cases h; done))
    split at h
    · rename_i hn; cases h
      simp [dec, readVar_beEnc i _ r (by simpa [Ty.wf] using hw) hn]
    · cases h
  | .arr k, v, bs, r, _, h => by
    cases v <;> simp only [enc] at h <;> (try (cases h; done))
    split at h
    · rename_i hn; cases h
      simp [dec, hn]
    · cases h
  | .bytes i, v, bs, r, hw, h => by
    cases v <;> simp only [enc] at h <;> (try (cases h; done))
    simp [dec, readPrefixed_encPrefixed i _ _ r (by simpa [Ty.wf] using hw) h]
  | .vec i e, v, bs, r, hw, h => by
    cases v <;> simp only [enc] at h <;> (try (cases h; done))
    split at h
    · cases h
    rename_i body hb
    simp only [Ty.wf, Bool.and_eq_true] at hw
    obtain ⟨⟨hi, hew⟩, hep⟩ := hw
    have hl := decListWith_encListWith (enc e) (dec e)
      (fun v x r hx => ⟨dec_enc e v x r hew hx, enc_pos e v x hep hx⟩) _ body (body.length + 1) hb (by omega)
    simp [dec, readPrefixed_encPrefixed i _ _ r hi h, hl]
  | .struct fs, v, bs, r, hw, h => by
    cases v <;> simp only [enc] at h <;> (try (cases h; done))
    simp [dec, decFields_encFields fs _ _ _ _ bs r (by simpa [Ty.wf] using hw) h]
  | .bad, v, bs, r, hw, h => by simp [Ty.wf] at hw
  | .ro t, v, bs, r, hw, h => by simp [Ty.wf] at hw
theorem decFields_encFields : ∀ (fs : Fields) (env : Env) (men tak : List String) (vs : List Val) (bs r : Bytes),
    fs.wf = true → encFields env men tak fs vs = .ok bs → decFields env men tak fs (bs ++ r) = .ok (vs, r)
  | .nil, env, men, tak, vs, bs, r, _, h => by
    cases vs with
    | nil =>
      simp only [encFields] at h
      split at h
      · rename_i ht; cases h; simp [decFields, ht]
      · cases h
    | cons v vs => simp [encFields] at h
  | .plain name t rest, env, men, tak, vs, bs, r, hw, h => by
    simp only [Fields.wf, Bool.and_eq_true] at hw
    cases vs with
    | nil => simp [encFields] at h
    | cons v vs =>
      simp only [encFields] at h
      split at h
      · cases h
      rename_i x hx
      split at h
      · cases h
      rename_i y hy
      cases h
      have h1 := dec_enc t v x (y ++ r) hw.1 hx
      have h2 := decFields_encFields rest _ men tak vs y r hw.2 hy
      simp [decFields, List.append_assoc, h1, h2]
  | .variant name sel val t rest, env, men, tak, vs, bs, r, hw, h => by
    simp only [Fields.wf, Bool.and_eq_true] at hw
    cases vs with
    | nil => simp [encFields] at h
    | cons v vs =>
      simp only [encFields] at h
      split at h
      · cases h
      rename_i choice hl
      split at h
      · rename_i hne
        split at h
        · have h2 := decFields_encFields rest env (sel :: men) tak vs bs r hw.2 h
          simp [decFields, hl, hne, h2]
        · cases h
      · rename_i heq
        split at h
        · cases h
        · rename_i htak
          split at h
          · cases h
          · split at h
            · cases h
            rename_i x hx
            split at h
            · cases h
            rename_i y hy
            cases h
            have h1 := dec_enc t _ x (y ++ r) hw.1 hx
            have h2 := decFields_encFields rest env (sel :: men) (sel :: tak) vs y r hw.2 hy
            simp only [ne_eq, Decidable.not_not] at heq
            simp [decFields, hl, heq, List.append_assoc, h1, h2]
            simpa using htak
end

/-! ### encode ∘ decode (no side condition) -/

theorem dec_ne_absent (t : Ty) (bs rest : Bytes) (v : Val) (h : dec t bs = .ok (v, rest)) : v ≠ .absent := by
  intro hv; subst hv
  cases t <;> simp only [dec] at h
  · split at h <;> cases h
  · split at h <;> cases h
  · split at h <;> cases h
  · split at h <;> cases h
  · split at h
    · cases h
    · split at h <;> cases h
  · split at h <;> cases h
  · cases h
  · cases h

mutual
theorem enc_dec : ∀ (t : Ty) (bs rest : Bytes) (v : Val), dec t bs = .ok (v, rest) →
    ∃ u, bs = u ++ rest ∧ enc t v = .ok u
  | .uint w, bs, rest, v, h => by
    simp only [dec] at h
    split at h
    · rename_i hw
      cases h
      refine ⟨bs.take w, (List.take_append_drop w bs).symm, ?_⟩
      have hl := take_len bs w hw
      have := beDec_lt (bs.take w)
      rw [hl] at this
      simp only [enc, this, if_true]
      have hh := beEnc_beDec (bs.take w)
      rw [hl] at hh
      rw [hh]
    · cases h
  | .enum i, bs, rest, v, h => by
    simp only [dec] at h
    split at h
    · cases h
    rename_i n r1 hv
    cases h
    obtain ⟨e1, hc⟩ := readVar_inv i bs _ n hv
    exact ⟨beEnc i.count n, e1, by simp [enc, hc]⟩
  | .arr k, bs, rest, v, h => by
    simp only [dec] at h
    split at h
    · rename_i hw
      cases h
      exact ⟨bs.take k, (List.take_append_drop k bs).symm, by simp [enc, take_len bs k hw]⟩
    · cases h
  | .bytes i, bs, rest, v, h => by
    simp only [dec] at h
    split at h
    · cases h
    rename_i body r1 hv
    cases h
    obtain ⟨out, h1, h2⟩ := readPrefixed_inv i bs body _ hv
    exact ⟨out, h2, by simp [enc, h1]⟩
  | .vec i e, bs, rest, v, h => by
    simp only [dec] at h
    split at h
    · cases h
    rename_i body r1 hv
    split at h
    · cases h
    rename_i vs hvs
    cases h
    obtain ⟨out, h1, h2⟩ := readPrefixed_inv i bs body _ hv
    have hinv := encListWith_decListWith (enc e) (dec e) (fun bs v rest h => enc_dec e bs rest v h) _ _ _ hvs
    exact ⟨out, h2, by simp [enc, hinv, h1]⟩
  | .struct fs, bs, rest, v, h => by
    simp only [dec] at h
    split at h
    · cases h
    rename_i vs r1 hv
    cases h
    obtain ⟨u, h1, h2⟩ := encFields_decFields fs _ _ _ bs _ vs hv
    exact ⟨u, h1, by simp [enc, h2]⟩
  | .bad, bs, rest, v, h => by simp [dec] at h
  | .ro t, bs, rest, v, h => by simp [dec] at h
theorem encFields_decFields : ∀ (fs : Fields) (env : Env) (men tak : List String) (bs rest : Bytes) (vs : List Val),
    decFields env men tak fs bs = .ok (vs, rest) → ∃ u, bs = u ++ rest ∧ encFields env men tak fs vs = .ok u
  | .nil, env, men, tak, bs, rest, vs, h => by
    simp only [decFields] at h
    split at h
    · rename_i ht; cases h; exact ⟨[], by simp, by simp [encFields, ht]⟩
    · cases h
  | .plain name t rest', env, men, tak, bs, rest, vs, h => by
    simp only [decFields] at h
    split at h
    · cases h
    rename_i v bs1 h1
    split at h
    · cases h
    rename_i ws bs2 h2
    cases h
    obtain ⟨u1, e1, c1⟩ := enc_dec t bs bs1 v h1
    obtain ⟨u2, e2, c2⟩ := encFields_decFields rest' _ men tak bs1 _ ws h2
    exact ⟨u1 ++ u2, by rw [e1, e2, List.append_assoc], by simp [encFields, c1, c2]⟩
  | .variant name sel val t rest', env, men, tak, bs, rest, vs, h => by
    simp only [decFields] at h
    split at h
    · cases h
    rename_i choice hl
    split at h
    · rename_i hne
      split at h
      · cases h
      rename_i ws bs2 h2
      cases h
      obtain ⟨u2, e2, c2⟩ := encFields_decFields rest' env (sel :: men) tak bs _ ws h2
      exact ⟨u2, e2, by simp [encFields, hl, hne, c2]⟩
    · rename_i heq
      split at h
      · cases h
      rename_i htak
      split at h
      · cases h
      rename_i v bs1 h1
      split at h
      · cases h
      rename_i ws bs2 h2
      cases h
      obtain ⟨u1, e1, c1⟩ := enc_dec t bs bs1 v h1
      obtain ⟨u2, e2, c2⟩ := encFields_decFields rest' env (sel :: men) (sel :: tak) bs1 _ ws h2
      have hna := dec_ne_absent t bs bs1 v h1
      refine ⟨u1 ++ u2, by rw [e1, e2, List.append_assoc], ?_⟩
      simp only [ne_eq, Decidable.not_not] at heq
      cases v <;> first | exact absurd rfl hna | (simp [encFields, hl, heq, c1, c2]; simpa using htak)
end

/-! ### termination and progress -/

theorem readVar_err (i : Info) (bs : Bytes) (e : Err) (h : readVar i bs = .error e) :
    e = .structural ∨ e = .truncated ∨ e = .range := by
  unfold readVar at h
  split at h
  · cases h; simp
  split at h
  · cases h; simp
  simp only at h
  split at h
  · cases h
  · cases h; simp

theorem readPrefixed_err (i : Info) (bs : Bytes) (e : Err) (h : readPrefixed i bs = .error e) :
    e = .structural ∨ e = .truncated ∨ e = .range := by
  unfold readPrefixed at h
  split at h
  · rename_i e' he; cases h; exact readVar_err i bs _ he
  · split at h
    · cases h
    · cases h; simp

theorem decListWith_ne_outOfFuel (fd : Bytes → Except Err (Val × Bytes)) (hfd : ∀ bs, fd bs ≠ .error .outOfFuel)
    (fuel : Nat) (bs : Bytes) (hf : bs.length < fuel) : decListWith fd fuel bs ≠ .error .outOfFuel := by
  rcases decListWith_fuel fd fuel bs hf with h | ⟨bs', h⟩
  · exact h
  · exact absurd h (hfd bs')

mutual
/-- The fuel that `dec` hands to the element loop (`body.length + 1`) is never used up. -/
theorem dec_ne_outOfFuel : ∀ (t : Ty) (bs : Bytes), dec t bs ≠ .error .outOfFuel
  | .uint w, bs => by simp only [dec]; split <;> (intro h; cases h)
  | .enum i, bs => by
    simp only [dec]; split
    · rename_i e he; intro h; cases h; rcases readVar_err _ _ _ he with h | h | h <;> cases h
    · intro h; cases h
  | .arr k, bs => by simp only [dec]; split <;> (intro h; cases h)
  | .bytes i, bs => by
    simp only [dec]; split
    · rename_i e he; intro h; cases h; rcases readPrefixed_err _ _ _ he with h | h | h <;> cases h
    · intro h; cases h
  | .vec i e, bs => by
    simp only [dec]; split
    · rename_i e he; intro h; cases h; rcases readPrefixed_err _ _ _ he with h | h | h <;> cases h
    · rename_i body rest hb
      split
      · rename_i e' he; intro h; cases h
        exact decListWith_ne_outOfFuel (dec e) (dec_ne_outOfFuel e) _ body (by omega) he
      · intro h; cases h
  | .struct fs, bs => by
    simp only [dec]; split
    · rename_i e he; intro h; cases h; exact decFields_ne_outOfFuel fs _ _ _ bs he
    · intro h; cases h
  | .bad, bs => by simp [dec]
  | .ro t, bs => by simp [dec]
theorem decFields_ne_outOfFuel : ∀ (fs : Fields) (env : Env) (men tak : List String) (bs : Bytes),
    decFields env men tak fs bs ≠ .error .outOfFuel
  | .nil, env, men, tak, bs => by simp only [decFields]; split <;> (intro h; cases h)
  | .plain name t rest, env, men, tak, bs => by
    simp only [decFields]; split
    · rename_i e he; intro h; cases h; exact dec_ne_outOfFuel t bs he
    · split
      · rename_i e he; intro h; cases h; exact decFields_ne_outOfFuel rest _ _ _ _ he
      · intro h; cases h
  | .variant name sel val t rest, env, men, tak, bs => by
    simp only [decFields]; split
    · intro h; cases h
    · split
      · split
        · rename_i e he; intro h; cases h; exact decFields_ne_outOfFuel rest _ _ _ _ he
        · intro h; cases h
      · split
        · intro h; cases h
        · split
          · rename_i e he; intro h; cases h; exact dec_ne_outOfFuel t bs he
          · split
            · rename_i e he; intro h; cases h; exact decFields_ne_outOfFuel rest _ _ _ _ he
            · intro h; cases h
end

/-- A value of a positive-width type consumes at least one byte. -/
theorem dec_shrinks (t : Ty) (bs rest : Bytes) (v : Val) (hp : t.pos = true) (h : dec t bs = .ok (v, rest)) :
    rest.length < bs.length := by
  obtain ⟨u, e1, e2⟩ := enc_dec t bs rest v h
  have := enc_pos t v u hp e2
  rw [e1]; simp; omega

theorem decListWith_ne_noProgress (fd : Bytes → Except Err (Val × Bytes)) (h1 : ∀ bs, fd bs ≠ .error .noProgress)
    (h2 : ∀ bs v rest, fd bs = .ok (v, rest) → rest.length < bs.length) :
    ∀ (fuel : Nat) (bs : Bytes), decListWith fd fuel bs ≠ .error .noProgress := by
  intro fuel
  induction fuel with
  | zero => intro bs; cases bs <;> simp [decListWith]
  | succ fuel ih =>
    intro bs
    cases bs with
    | nil => simp [decListWith]
    | cons b bs =>
      simp only [decListWith]
      split
      · rename_i e he; intro h; cases h; exact h1 _ he
      · rename_i v rest hv
        have := h2 _ _ _ hv
        simp only [this, if_true]
        split
        · rename_i e he; intro h; cases h; exact ih rest he
        · intro h; cases h

mutual
/-- For a well-formed type shape the element loop always advances: `noProgress` (= the Go loop spins) cannot occur. -/
theorem dec_ne_noProgress : ∀ (t : Ty) (bs : Bytes), t.wf = true → dec t bs ≠ .error .noProgress
  | .uint w, bs, _ => by simp only [dec]; split <;> (intro h; cases h)
  | .enum i, bs, _ => by
    simp only [dec]; split
    · rename_i e he; intro h; cases h; rcases readVar_err _ _ _ he with h | h | h <;> cases h
    · intro h; cases h
  | .arr k, bs, _ => by simp only [dec]; split <;> (intro h; cases h)
  | .bytes i, bs, _ => by
    simp only [dec]; split
    · rename_i e he; intro h; cases h; rcases readPrefixed_err _ _ _ he with h | h | h <;> cases h
    · intro h; cases h
  | .vec i e, bs, hw => by
    simp only [Ty.wf, Bool.and_eq_true] at hw
    simp only [dec]; split
    · rename_i e he; intro h; cases h; rcases readPrefixed_err _ _ _ he with h | h | h <;> cases h
    · rename_i body rest hb
      split
      · rename_i e' he; intro h; cases h
        exact decListWith_ne_noProgress (dec e) (fun bs => dec_ne_noProgress e bs hw.1.2)
          (fun bs v rest h => dec_shrinks e bs rest v hw.2 h) _ body he
      · intro h; cases h
  | .struct fs, bs, hw => by
    simp only [dec]; split
    · rename_i e he; intro h; cases h; exact decFields_ne_noProgress fs _ _ _ bs (by simpa [Ty.wf] using hw) he
    · intro h; cases h
  | .bad, bs, _ => by simp [dec]
  | .ro t, bs, _ => by simp [dec]
theorem decFields_ne_noProgress : ∀ (fs : Fields) (env : Env) (men tak : List String) (bs : Bytes),
    fs.wf = true → decFields env men tak fs bs ≠ .error .noProgress
  | .nil, env, men, tak, bs, _ => by simp only [decFields]; split <;> (intro h; cases h)
  | .plain name t rest, env, men, tak, bs, hw => by
    simp only [Fields.wf, Bool.and_eq_true] at hw
    simp only [decFields]; split
    · rename_i e he; intro h; cases h; exact dec_ne_noProgress t bs hw.1 he
    · split
      · rename_i e he; intro h; cases h; exact decFields_ne_noProgress rest _ _ _ _ hw.2 he
      · intro h; cases h
  | .variant name sel val t rest, env, men, tak, bs, hw => by
    simp only [Fields.wf, Bool.and_eq_true] at hw
    simp only [decFields]; split
    · intro h; cases h
    · split
      · split
        · rename_i e he; intro h; cases h; exact decFields_ne_noProgress rest _ _ _ _ hw.2 he
        · intro h; cases h
      · split
        · intro h; cases h
        · split
          · rename_i e he; intro h; cases h; exact dec_ne_noProgress t bs hw.1 he
          · split
            · rename_i e he; intro h; cases h; exact decFields_ne_noProgress rest _ _ _ _ hw.2 he
            · intro h; cases h
end

/-! ### allocation is bounded by the input consumed -/

/-- What a successful decode may have allocated, against what it consumed. -/
def AllocOK (v : Val) (bs rest : Bytes) : Prop :=
  rest.length ≤ bs.length ∧ v.payload + rest.length ≤ bs.length ∧
    (v.cells = 0 ∨ v.cells + rest.length + 1 ≤ bs.length)

theorem readPrefixed_len (i : Info) (bs body rest : Bytes) (h : readPrefixed i bs = .ok (body, rest)) :
    bs.length = i.count + body.length + rest.length ∧ (i.count = 0 → body = []) := by
  obtain ⟨out, h1, h2⟩ := readPrefixed_inv i bs body rest h
  have hl := encPrefixed_length i body out h1
  refine ⟨by rw [h2]; simp; omega, ?_⟩
  intro h0
  unfold encPrefixed at h1
  split at h1
  · rename_i hc
    have := check_lt i body.length (by omega) hc
    rw [h0] at this
    simp at this
    exact this
  · cases h1

theorem decListWith_alloc (fd : Bytes → Except Err (Val × Bytes))
    (hfd : ∀ bs v rest, fd bs = .ok (v, rest) → AllocOK v bs rest) :
    ∀ (fuel : Nat) (bs : Bytes) (vs : List Val), decListWith fd fuel bs = .ok vs →
      Val.payloadL vs ≤ bs.length ∧ Val.cellsL vs + vs.length ≤ bs.length := by
  intro fuel
  induction fuel with
  | zero =>
    intro bs vs h
    cases bs with
    | nil => simp [decListWith] at h; subst h; simp [Val.payloadL, Val.cellsL]
    | cons b bs => simp [decListWith] at h
  | succ fuel ih =>
    intro bs vs h
    cases bs with
    | nil => simp [decListWith] at h; subst h; simp [Val.payloadL, Val.cellsL]
    | cons b bs =>
      simp only [decListWith] at h
      split at h
      · cases h
      rename_i v rest h1
      split at h
      · rename_i hlt
        split at h
        · cases h
        rename_i ws hws
        cases h
        obtain ⟨a1, a2, a3⟩ := hfd _ _ _ h1
        obtain ⟨b1, b2⟩ := ih rest ws hws
        simp only [Val.payloadL, Val.cellsL, List.length_cons] at *
        omega
      · cases h

mutual
theorem dec_alloc : ∀ (t : Ty) (bs rest : Bytes) (v : Val), dec t bs = .ok (v, rest) → AllocOK v bs rest
  | .uint w, bs, rest, v, h => by
    simp only [dec] at h
    split at h
    · cases h; simp [AllocOK, Val.payload, Val.cells]
    · cases h
  | .enum i, bs, rest, v, h => by
    simp only [dec] at h
    split at h
    · cases h
    rename_i n r1 hv
    cases h
    obtain ⟨e1, _⟩ := readVar_inv i bs _ n hv
    simp [AllocOK, Val.payload, Val.cells, e1]
  | .arr k, bs, rest, v, h => by
    simp only [dec] at h
    split at h
    · cases h; simp [AllocOK, Val.payload, Val.cells]; omega
    · cases h
  | .bytes i, bs, rest, v, h => by
    simp only [dec] at h
    split at h
    · cases h
    rename_i body r1 hv
    cases h
    obtain ⟨hl, _⟩ := readPrefixed_len i bs body _ hv
    refine ⟨by omega, ?_, Or.inl rfl⟩
    simp only [Val.payload]
    omega
  | .vec i e, bs, rest, v, h => by
    simp only [dec] at h
    split at h
    · cases h
    rename_i body r1 hv
    split at h
    · cases h
    rename_i vs hvs
    cases h
    obtain ⟨hl, h0⟩ := readPrefixed_len i bs body _ hv
    obtain ⟨p1, p2⟩ := decListWith_alloc (dec e) (fun bs v rest h => dec_alloc e bs rest v h) _ _ _ hvs
    simp only [AllocOK, Val.payload, Val.cells]
    refine ⟨by omega, by omega, ?_⟩
    by_cases hc : i.count = 0
    · have := h0 hc
      subst this
      simp only [List.length_nil] at p2
      left; omega
    · right; omega
  | .struct fs, bs, rest, v, h => by
    simp only [dec] at h
    split at h
    · cases h
    rename_i vs r1 hv
    cases h
    have := decFields_alloc fs _ _ _ bs _ vs hv
    simpa [AllocOK, Val.payload, Val.cells] using this
  | .bad, bs, rest, v, h => by simp [dec] at h
  | .ro t, bs, rest, v, h => by simp [dec] at h
theorem decFields_alloc : ∀ (fs : Fields) (env : Env) (men tak : List String) (bs rest : Bytes) (vs : List Val),
    decFields env men tak fs bs = .ok (vs, rest) →
      rest.length ≤ bs.length ∧ Val.payloadL vs + rest.length ≤ bs.length ∧
        (Val.cellsL vs = 0 ∨ Val.cellsL vs + rest.length + 1 ≤ bs.length)
  | .nil, env, men, tak, bs, rest, vs, h => by
    simp only [decFields] at h
    split at h
    · cases h; simp [Val.payloadL, Val.cellsL]
    · cases h
  | .plain name t rest', env, men, tak, bs, rest, vs, h => by
    simp only [decFields] at h
    split at h
    · cases h
    rename_i v bs1 h1
    split at h
    · cases h
    rename_i ws bs2 h2
    cases h
    obtain ⟨a1, a2, a3⟩ := dec_alloc t bs bs1 v h1
    obtain ⟨b1, b2, b3⟩ := decFields_alloc rest' _ men tak bs1 _ ws h2
    simp only [Val.payloadL, Val.cellsL]
    refine ⟨by omega, by omega, ?_⟩
    rcases a3 with a3 | a3 <;> rcases b3 with b3 | b3
    · left; omega
    · right; omega
    · right; omega
    · right; omega
  | .variant name sel val t rest', env, men, tak, bs, rest, vs, h => by
    simp only [decFields] at h
    split at h
    · cases h
    split at h
    · split at h
      · cases h
      rename_i ws bs2 h2
      cases h
      have := decFields_alloc rest' env (sel :: men) tak bs _ ws h2
      simpa [Val.payloadL, Val.cellsL, Val.payload, Val.cells] using this
    · split at h
      · cases h
      split at h
      · cases h
      rename_i v bs1 h1
      split at h
      · cases h
      rename_i ws bs2 h2
      cases h
      obtain ⟨a1, a2, a3⟩ := dec_alloc t bs bs1 v h1
      obtain ⟨b1, b2, b3⟩ := decFields_alloc rest' env (sel :: men) (sel :: tak) bs1 _ ws h2
      simp only [Val.payloadL, Val.cellsL]
      refine ⟨by omega, by omega, ?_⟩
      rcases a3 with a3 | a3 <;> rcases b3 with b3 | b3
      · left; omega
      · right; omega
      · right; omega
      · right; omega
end

end Tls
