/-!
Lockset lemma for reader/writer mutexes (C17, data-race clause).

Threads, mutexes and fields are natural numbers. A trace is a list of events; `run` executes it under the semantics
of `sync.RWMutex` (`sync.Mutex` = write mode only) and checks the discipline "every access to a field happens while
the accessing thread holds the field's guard: in write mode for a write, in any mode for a read".

`lockset_sound`: in such a trace two conflicting accesses (same field, different threads, at least one a write) are
always separated by a release of the guard by the first thread — the release/acquire pair that orders them in Go's
memory model. Core Lean only.
-/
namespace CTV.Lockset

inductive Ev
  /-- thread `t` acquires mutex `m` (`w`: Lock, otherwise RLock) -/
  | acq (t m : Nat) (w : Bool)
  /-- thread `t` releases mutex `m` (Unlock / RUnlock) -/
  | rel (t m : Nat)
  /-- thread `t` accesses field `x` (`w`: write) -/
  | acc (t x : Nat) (w : Bool)
deriving DecidableEq, Repr

/-- per mutex: the writer, and the readers (a thread appears once per RLock it holds) -/
abbrev LockSt := Nat → Option Nat × List Nat

def LockSt.init : LockSt := fun _ => (none, [])

def set (s : LockSt) (m : Nat) (v : Option Nat × List Nat) : LockSt := fun m' => if m' = m then v else s m'

def holdsW (s : LockSt) (t m : Nat) : Prop := (s m).1 = some t
def holdsAny (s : LockSt) (t m : Nat) : Prop := (s m).1 = some t ∨ t ∈ (s m).2

instance (s : LockSt) (t m : Nat) : Decidable (holdsW s t m) := by unfold holdsW; infer_instance
instance (s : LockSt) (t m : Nat) : Decidable (holdsAny s t m) := by unfold holdsAny; infer_instance

/-- one event; `none`: not possible under the mutex semantics, or an access without its guard -/
def step (guard : Nat → Nat) (s : LockSt) : Ev → Option LockSt
  | .acq t m true => if (s m).1 = none ∧ (s m).2 = [] then some (set s m (some t, [])) else none
  | .acq t m false => if (s m).1 = none then some (set s m (none, t :: (s m).2)) else none
  | .rel t m =>
    if (s m).1 = some t then some (set s m (none, (s m).2))
    else if t ∈ (s m).2 then some (set s m ((s m).1, (s m).2.erase t))
    else none
  | .acc t x true => if holdsW s t (guard x) then some s else none
  | .acc t x false => if holdsAny s t (guard x) then some s else none

def run (guard : Nat → Nat) (s : LockSt) : List Ev → Option LockSt
  | [] => some s
  | e :: es => match step guard s e with
    | some s' => run guard s' es
    | none => none

/-- a writer excludes everybody else -/
def Excl (s : LockSt) : Prop := ∀ m t, (s m).1 = some t → (s m).2 = []

theorem excl_init : Excl LockSt.init := by intro m t h; simp [LockSt.init] at h

theorem excl_step {guard : Nat → Nat} {s s' : LockSt} {e : Ev} (h : Excl s) (hs : step guard s e = some s') : Excl s' := by
  cases e with
  | acq t m w =>
    cases w
    · simp only [step] at hs
      split at hs
      · rename_i hc
        cases hs
        intro m' t' ht'
        simp only [set] at ht' ⊢
        split at ht'
        · simp at ht'
        · rename_i hne; simp only [hne, if_false]; exact h m' t' ht'
      · cases hs
    · simp only [step] at hs
      split at hs
      · cases hs
        intro m' t' ht'
        simp only [set] at ht' ⊢
        split
        · rfl
        · rename_i hne; simp only [hne, if_false] at ht'; exact h m' t' ht'
      · cases hs
  | rel t m =>
    simp only [step] at hs
    split at hs
    · cases hs
      intro m' t' ht'
      simp only [set] at ht' ⊢
      split at ht'
      · simp at ht'
      · rename_i hne; simp only [hne, if_false]; exact h m' t' ht'
    · split at hs
      · rename_i hnw hr
        cases hs
        intro m' t' ht'
        simp only [set] at ht' ⊢
        split at ht'
        · rename_i he
          subst he
          have := h m' t' ht'
          rw [this] at hr; cases hr
        · rename_i hne; simp only [hne, if_false]; exact h m' t' ht'
      · cases hs
  | acc t x w =>
    cases w <;> simp only [step] at hs <;> split at hs <;> first | (cases hs; exact h) | cases hs

theorem run_append {guard : Nat → Nat} : ∀ (a b : List Ev) (s : LockSt),
    run guard s (a ++ b) = (run guard s a).bind fun s' => run guard s' b
  | [], b, s => by simp [run]
  | e :: es, b, s => by
    simp only [List.cons_append, run]
    cases step guard s e with
    | none => simp
    | some s' => simpa using run_append es b s'

theorem excl_run {guard : Nat → Nat} : ∀ (tr : List Ev) {s s' : LockSt}, Excl s → run guard s tr = some s' → Excl s'
  | [], s, s', h, hr => by simp [run] at hr; subst hr; exact h
  | e :: es, s, s', h, hr => by
    simp only [run] at hr
    cases hs : step guard s e with
    | none => simp [hs] at hr
    | some s1 => rw [hs] at hr; exact excl_run es (excl_step h hs) hr

/-- a thread that holds `m` in write mode keeps it through any events that contain no release of `m` by it -/
theorem keepW {guard : Nat → Nat} {t m : Nat} : ∀ (tr : List Ev) {s s' : LockSt}, Excl s → holdsW s t m →
    Ev.rel t m ∉ tr → run guard s tr = some s' → holdsW s' t m
  | [], s, s', _, hw, _, hr => by simp [run] at hr; subst hr; exact hw
  | e :: es, s, s', hex, hw, hn, hr => by
    simp only [run] at hr
    cases hs : step guard s e with
    | none => simp [hs] at hr
    | some s1 =>
      rw [hs] at hr
      have hn' : Ev.rel t m ∉ es := fun h => hn (List.mem_cons_of_mem _ h)
      have hne : e ≠ Ev.rel t m := fun h => hn (h ▸ List.mem_cons_self)
      refine keepW es (excl_step hex hs) ?_ hn' hr
      unfold holdsW at hw ⊢
      cases e with
      | acq t' m' w =>
        cases w
        · simp only [step] at hs
          split at hs
          · rename_i hc
            cases hs
            simp only [set]
            split
            · rename_i he; subst he; rw [hc] at hw; cases hw
            · exact hw
          · cases hs
        · simp only [step] at hs
          split at hs
          · rename_i hc
            cases hs
            simp only [set]
            split
            · rename_i he; subst he; rw [hc.1] at hw; cases hw
            · exact hw
          · cases hs
      | rel t' m' =>
        simp only [step] at hs
        split at hs
        · rename_i hc
          cases hs
          simp only [set]
          split
          · rename_i he
            subst he
            rw [hw] at hc
            cases hc
            exact absurd rfl hne
          · exact hw
        · split at hs
          · cases hs
            simp only [set]
            split
            · rename_i he; subst he; exact hw
            · exact hw
          · cases hs
      | acc t' x w =>
        cases w <;> simp only [step] at hs <;> split at hs <;> first | (cases hs; exact hw) | cases hs

theorem mem_erase_of_ne' {a b : Nat} {l : List Nat} (h : a ∈ l) (hne : a ≠ b) : a ∈ l.erase b :=
  (List.mem_erase_of_ne hne).mpr h

/-- same for a thread holding `m` in any mode -/
theorem keepAny {guard : Nat → Nat} {t m : Nat} : ∀ (tr : List Ev) {s s' : LockSt}, Excl s → holdsAny s t m →
    Ev.rel t m ∉ tr → run guard s tr = some s' → holdsAny s' t m
  | [], s, s', _, hw, _, hr => by simp [run] at hr; subst hr; exact hw
  | e :: es, s, s', hex, hw, hn, hr => by
    simp only [run] at hr
    cases hs : step guard s e with
    | none => simp [hs] at hr
    | some s1 =>
      rw [hs] at hr
      have hn' : Ev.rel t m ∉ es := fun h => hn (List.mem_cons_of_mem _ h)
      have hne : e ≠ Ev.rel t m := fun h => hn (h ▸ List.mem_cons_self)
      refine keepAny es (excl_step hex hs) ?_ hn' hr
      unfold holdsAny at hw ⊢
      cases e with
      | acq t' m' w =>
        cases w
        · simp only [step] at hs
          split at hs
          · rename_i hc
            cases hs
            simp only [set]
            split
            · rename_i he
              subst he
              rcases hw with hw | hw
              · rw [hc] at hw; cases hw
              · exact Or.inr (List.mem_cons_of_mem _ hw)
            · exact hw
          · cases hs
        · simp only [step] at hs
          split at hs
          · rename_i hc
            cases hs
            simp only [set]
            split
            · rename_i he
              subst he
              rcases hw with hw | hw
              · rw [hc.1] at hw; cases hw
              · rw [hc.2] at hw; cases hw
            · exact hw
          · cases hs
      | rel t' m' =>
        have htt : m' = m → t' ≠ t := by
          intro hm ht
          subst hm; subst ht
          exact hne rfl
        simp only [step] at hs
        split at hs
        · rename_i hc
          cases hs
          simp only [set]
          split
          · rename_i he
            subst he
            rcases hw with hw | hw
            · rw [hw] at hc; cases hc; exact absurd rfl (htt rfl)
            · exact Or.inr hw
          · exact hw
        · split at hs
          · cases hs
            simp only [set]
            split
            · rename_i he
              subst he
              rcases hw with hw | hw
              · exact Or.inl hw
              · exact Or.inr (mem_erase_of_ne' hw (fun h => htt rfl h.symm))
            · exact hw
          · cases hs
      | acc t' x w =>
        cases w <;> simp only [step] at hs <;> split at hs <;> first | (cases hs; exact hw) | cases hs

/-- **Lockset lemma.** If a trace obeys the mutex semantics and every access holds its guard, then between two
conflicting accesses of different threads the first thread releases the guard. -/
theorem lockset_sound (guard : Nat → Nat) (pre mid post : List Ev) (t t' x : Nat) (w w' : Bool) (s' : LockSt)
    (hrun : run guard LockSt.init (pre ++ [Ev.acc t x w] ++ mid ++ [Ev.acc t' x w'] ++ post) = some s')
    (htt : t ≠ t') (hconf : w = true ∨ w' = true) :
    Ev.rel t (guard x) ∈ mid := by
  -- split the run
  rw [run_append, run_append, run_append, run_append] at hrun
  cases h1 : run guard LockSt.init pre with
  | none => simp [h1] at hrun
  | some s1 =>
    simp only [h1, Option.bind_some] at hrun
    have hex1 := excl_run pre excl_init h1
    cases h2 : run guard s1 [Ev.acc t x w] with
    | none => simp [h2] at hrun
    | some s2 =>
      simp only [h2, Option.bind_some] at hrun
      have hex2 := excl_run _ hex1 h2
      cases h3 : run guard s2 mid with
      | none => simp [h3] at hrun
      | some s3 =>
        simp only [h3, Option.bind_some] at hrun
        cases h4 : run guard s3 [Ev.acc t' x w'] with
        | none => simp [h4] at hrun
        | some s4 =>
          have hex3 := excl_run mid hex2 h3
          -- what the two accesses tell us
          simp only [run] at h2 h4
          by_cases hmem : Ev.rel t (guard x) ∈ mid
          · exact hmem
          · exfalso
            cases w
            · -- first access is a read, so the second is a write
              have hw' : w' = true := by rcases hconf with h | h <;> simp_all
              subst hw'
              simp only [step] at h2 h4
              by_cases ha : holdsAny s1 t (guard x)
              · simp only [ha, if_true] at h2
                cases h2
                have hk := keepAny mid hex1 ha hmem h3
                by_cases hb : holdsW s3 t' (guard x)
                · unfold holdsW at hb
                  unfold holdsAny at hk
                  rcases hk with hk | hk
                  · rw [hb] at hk; cases hk; exact htt rfl
                  · rw [hex3 _ _ hb] at hk; cases hk
                · simp [hb] at h4
              · simp [ha] at h2
            · simp only [step] at h2
              by_cases ha : holdsW s1 t (guard x)
              · simp only [ha, if_true] at h2
                cases h2
                have hk := keepW mid hex1 ha hmem h3
                unfold holdsW at hk
                cases w'
                · simp only [step] at h4
                  by_cases hb : holdsAny s3 t' (guard x)
                  · unfold holdsAny at hb
                    rcases hb with hb | hb
                    · rw [hk] at hb; cases hb; exact htt rfl
                    · rw [hex3 _ _ hk] at hb; cases hb
                  · simp [hb] at h4
                · simp only [step] at h4
                  by_cases hb : holdsW s3 t' (guard x)
                  · unfold holdsW at hb
                    rw [hk] at hb; cases hb; exact htt rfl
                  · simp [hb] at h4
              · simp [ha] at h2

end CTV.Lockset
