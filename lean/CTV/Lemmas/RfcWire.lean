import CTV.Rfc6962.Wire
/-!
Internal consistency of the RFC transcription: every `Rfc.dec*` is the inverse of its `Rfc.*` encoder
(both directions). Nothing here mentions the repository's codec.
-/
set_option linter.unusedSimpArgs false
namespace Rfc
open CTV

/-! ### primitives -/

theorem takeUint_uintN (w n : Nat) (a r : Bytes) (h : uintN w n = some a) : takeUint w (a ++ r) = some (n, r) := by
  unfold uintN at h
  split at h
  · rename_i hn; cases h
    simp [takeUint, beEnc_length, beDec_beEnc _ _ hn]
  · cases h

theorem uintN_takeUint (w : Nat) (bs : Bytes) (n : Nat) (r : Bytes) (h : takeUint w bs = some (n, r)) :
    ∃ a, uintN w n = some a ∧ bs = a ++ r := by
  unfold takeUint at h
  split at h
  · rename_i hw
    simp only [Option.some.injEq, Prod.mk.injEq] at h
    obtain ⟨rfl, rfl⟩ := h
    have hl := take_len bs w hw
    have hlt := beDec_lt (bs.take w)
    rw [hl] at hlt
    have hh := beEnc_beDec (bs.take w)
    rw [hl] at hh
    exact ⟨bs.take w, by simp [uintN, hlt, hh], (List.take_append_drop w bs).symm⟩
  · cases h

theorem takeFixed_opaqueFixed (n : Nat) (b a r : Bytes) (h : opaqueFixed n b = some a) : takeFixed n (a ++ r) = some (b, r) := by
  unfold opaqueFixed at h
  split at h
  · rename_i hn; cases h; subst hn; simp [takeFixed]
  · cases h

theorem opaqueFixed_takeFixed (n : Nat) (bs b r : Bytes) (h : takeFixed n bs = some (b, r)) :
    ∃ a, opaqueFixed n b = some a ∧ bs = a ++ r := by
  unfold takeFixed at h
  split at h
  · rename_i hn
    simp only [Option.some.injEq, Prod.mk.injEq] at h
    obtain ⟨rfl, rfl⟩ := h
    exact ⟨bs.take n, by simp [opaqueFixed, take_len bs n hn], (List.take_append_drop n bs).symm⟩
  · cases h

theorem takeVarVector_varVector (fl ce : Nat) (b a r : Bytes) (hc : ce < 256 ^ lenWidth ce)
    (h : varVector fl ce b = some a) : takeVarVector fl ce (a ++ r) = some (b, r) := by
  unfold varVector at h
  split at h
  · rename_i hb; cases h
    have hlt : b.length < 256 ^ lenWidth ce := by omega
    have h1 : takeUint (lenWidth ce) (beEnc (lenWidth ce) b.length ++ (b ++ r)) = some (b.length, b ++ r) :=
      takeUint_uintN _ _ _ _ (by simp [uintN, hlt])
    simp [takeVarVector, List.append_assoc, h1, hb]
  · cases h

theorem varVector_takeVarVector (fl ce : Nat) (bs b r : Bytes) (h : takeVarVector fl ce bs = some (b, r)) :
    ∃ a, varVector fl ce b = some a ∧ bs = a ++ r := by
  unfold takeVarVector at h
  split at h
  · cases h
  rename_i n r1 hu
  split at h
  · rename_i hr
    split at h
    · rename_i hn
      simp only [Option.some.injEq, Prod.mk.injEq] at h
      obtain ⟨rfl, rfl⟩ := h
      obtain ⟨a, ha, hbs⟩ := uintN_takeUint _ _ _ _ hu
      have hl : (r1.take n).length = n := take_len r1 n hn
      unfold uintN at ha
      split at ha
      · cases ha
        refine ⟨beEnc (lenWidth ce) n ++ r1.take n, by simp [varVector, hl, hr], ?_⟩
        rw [hbs, List.append_assoc, List.take_append_drop]
      · cases ha
    · cases h
  · cases h

theorem varVector_length (fl ce : Nat) (b a : Bytes) (h : varVector fl ce b = some a) : a.length = lenWidth ce + b.length := by
  unfold varVector at h
  split at h
  · cases h; simp [beEnc_length]
  · cases h

theorem lenWidth_pos (ce : Nat) : 0 < lenWidth ce := by
  unfold lenWidth
  split
  · omega
  split
  · omega
  split <;> omega

theorem splitAll_concatAll {α : Type} (enc : α → Option Bytes) (dec : Bytes → Option (α × Bytes))
    (hrt : ∀ x a r, enc x = some a → dec (a ++ r) = some (x, r) ∧ 0 < a.length) :
    ∀ (xs : List α) (body : Bytes) (fuel : Nat), concatAll enc xs = some body → body.length < fuel →
      splitAll dec fuel body = some xs := by
  intro xs
  induction xs with
  | nil =>
    intro body fuel h _
    simp [concatAll] at h; subst h
    cases fuel <;> simp [splitAll]
  | cons x xs ih =>
    intro body fuel h hf
    simp only [concatAll] at h
    split at h
    · rename_i a b ha hb
      cases h
      obtain ⟨h1, hpos⟩ := hrt x a b ha
      match fuel with
      | 0 => omega
      | fuel + 1 =>
        have h2 := ih b fuel hb (by simp at hf; omega)
        cases hxy : a ++ b with
        | nil => simp at hxy; rw [hxy.1] at hpos; simp at hpos
        | cons c cs =>
          have hlen : b.length < (c :: cs).length := by rw [← hxy]; simp; omega
          rw [splitAll, ← hxy, h1]
          simp only []
          rw [hxy]
          simp only [hlen, if_true, h2]
    · cases h

theorem concatAll_splitAll {α : Type} (enc : α → Option Bytes) (dec : Bytes → Option (α × Bytes))
    (hinv : ∀ bs x r, dec bs = some (x, r) → ∃ a, enc x = some a ∧ bs = a ++ r) :
    ∀ (fuel : Nat) (bs : Bytes) (xs : List α), splitAll dec fuel bs = some xs → concatAll enc xs = some bs := by
  intro fuel
  induction fuel with
  | zero =>
    intro bs xs h
    cases bs with
    | nil => simp [splitAll] at h; subst h; simp [concatAll]
    | cons b bs => simp [splitAll] at h
  | succ fuel ih =>
    intro bs xs h
    cases bs with
    | nil => simp [splitAll] at h; subst h; simp [concatAll]
    | cons b bs =>
      simp only [splitAll] at h
      split at h
      · cases h
      rename_i x rest h1
      split at h
      · split at h
        · cases h
        rename_i ws hws
        cases h
        obtain ⟨a, c1, e1⟩ := hinv _ _ _ h1
        have c2 := ih rest ws hws
        simp [concatAll, c1, c2, e1]
      · cases h

/-! ### the structures -/

theorem decDigitallySigned_enc (d : DigitallySigned) (a r : Bytes) (h : digitallySigned d = some a) :
    decDigitallySigned (a ++ r) = some (d, r) := by
  simp only [digitallySigned, bind, Option.bind_eq_some_iff, pure, Option.some.injEq] at h
  obtain ⟨x, hx, y, hy, z, hz, rfl⟩ := h
  simp [decDigitallySigned, bind, pure, List.append_assoc, takeUint_uintN _ _ _ _ hx, takeUint_uintN _ _ _ _ hy,
    takeVarVector_varVector _ _ _ _ _ (by decide) hz]

theorem digitallySigned_dec (bs : Bytes) (d : DigitallySigned) (r : Bytes) (h : decDigitallySigned bs = some (d, r)) :
    ∃ a, digitallySigned d = some a ∧ bs = a ++ r := by
  simp only [decDigitallySigned, bind, Option.bind_eq_some_iff, pure, Option.some.injEq, Prod.mk.injEq, Prod.exists] at h
  obtain ⟨hh, r1, h1, s, r2, h2, sig, r3, h3, rfl, rfl⟩ := h
  obtain ⟨a1, e1, rfl⟩ := uintN_takeUint _ _ _ _ h1
  obtain ⟨a2, e2, rfl⟩ := uintN_takeUint _ _ _ _ h2
  obtain ⟨a3, e3, rfl⟩ := varVector_takeVarVector _ _ _ _ _ h3
  exact ⟨a1 ++ a2 ++ a3, by simp [digitallySigned, bind, pure, e1, e2, e3], by simp [List.append_assoc]⟩

theorem decAsn1Cert_enc (c a r : Bytes) (h : asn1Cert c = some a) : decAsn1Cert (a ++ r) = some (c, r) :=
  takeVarVector_varVector _ _ _ _ _ (by decide) h

theorem asn1Cert_dec (bs c r : Bytes) (h : decAsn1Cert bs = some (c, r)) : ∃ a, asn1Cert c = some a ∧ bs = a ++ r :=
  varVector_takeVarVector _ _ _ _ _ h

theorem asn1Cert_pos (c a : Bytes) (h : asn1Cert c = some a) : 0 < a.length := by
  have := varVector_length _ _ _ _ h
  have := lenWidth_pos 16777215
  omega

theorem decCertChain_enc (c : List Bytes) (a r : Bytes) (h : certChain c = some a) : decCertChain (a ++ r) = some (c, r) := by
  simp only [certChain, bind, Option.bind_eq_some_iff] at h
  obtain ⟨body, hb, hv⟩ := h
  have hs := splitAll_concatAll asn1Cert decAsn1Cert
    (fun x a r hx => ⟨decAsn1Cert_enc x a r hx, asn1Cert_pos x a hx⟩) c body (body.length + 1) hb (by omega)
  simp [decCertChain, bind, pure, takeVarVector_varVector _ _ _ _ r (by decide) hv, hs]

theorem certChain_dec (bs : Bytes) (c : List Bytes) (r : Bytes) (h : decCertChain bs = some (c, r)) :
    ∃ a, certChain c = some a ∧ bs = a ++ r := by
  simp only [decCertChain, bind, Option.bind_eq_some_iff, pure, Option.some.injEq, Prod.mk.injEq, Prod.exists] at h
  obtain ⟨body, rest, h1, chain, h2, rfl, rfl⟩ := h
  obtain ⟨a, e1, rfl⟩ := varVector_takeVarVector _ _ _ _ _ h1
  have e2 := concatAll_splitAll asn1Cert decAsn1Cert (fun bs x r h => asn1Cert_dec bs x r h) _ _ _ h2
  exact ⟨a, by simp [certChain, bind, e2, e1], rfl⟩

theorem decPrecertChainEntry_enc (e : PrecertChainEntry) (a r : Bytes) (h : precertChainEntry e = some a) :
    decPrecertChainEntry (a ++ r) = some (e, r) := by
  simp only [precertChainEntry, bind, Option.bind_eq_some_iff, pure, Option.some.injEq] at h
  obtain ⟨x, hx, y, hy, rfl⟩ := h
  simp [decPrecertChainEntry, bind, pure, List.append_assoc, decAsn1Cert_enc _ _ _ hx, decCertChain_enc _ _ _ hy]

theorem precertChainEntry_dec (bs : Bytes) (e : PrecertChainEntry) (r : Bytes) (h : decPrecertChainEntry bs = some (e, r)) :
    ∃ a, precertChainEntry e = some a ∧ bs = a ++ r := by
  simp only [decPrecertChainEntry, bind, Option.bind_eq_some_iff, pure, Option.some.injEq, Prod.mk.injEq, Prod.exists] at h
  obtain ⟨p, r1, h1, c, r2, h2, rfl, rfl⟩ := h
  obtain ⟨a1, e1, rfl⟩ := asn1Cert_dec _ _ _ h1
  obtain ⟨a2, e2, rfl⟩ := certChain_dec _ _ _ h2
  exact ⟨a1 ++ a2, by simp [precertChainEntry, bind, pure, e1, e2], by simp [List.append_assoc]⟩

theorem decPreCert_enc (p : PreCert) (a r : Bytes) (h : preCert p = some a) : decPreCert (a ++ r) = some (p, r) := by
  simp only [preCert, bind, Option.bind_eq_some_iff, pure, Option.some.injEq] at h
  obtain ⟨x, hx, y, hy, rfl⟩ := h
  simp [decPreCert, bind, pure, List.append_assoc, takeFixed_opaqueFixed _ _ _ _ hx,
    takeVarVector_varVector _ _ _ _ _ (by decide) hy]

theorem preCert_dec (bs : Bytes) (p : PreCert) (r : Bytes) (h : decPreCert bs = some (p, r)) :
    ∃ a, preCert p = some a ∧ bs = a ++ r := by
  simp only [decPreCert, bind, Option.bind_eq_some_iff, pure, Option.some.injEq, Prod.mk.injEq, Prod.exists] at h
  obtain ⟨hh, r1, h1, t, r2, h2, rfl, rfl⟩ := h
  obtain ⟨a1, e1, rfl⟩ := opaqueFixed_takeFixed _ _ _ _ h1
  obtain ⟨a2, e2, rfl⟩ := varVector_takeVarVector _ _ _ _ _ h2
  exact ⟨a1 ++ a2, by simp [preCert, bind, pure, e1, e2], by simp [List.append_assoc]⟩

theorem decSignedEntry_enc (e : SignedEntry) (a r : Bytes) (h : signedEntry e = some a) :
    decSignedEntry (a ++ r) = some (e, r) := by
  cases e with
  | x509 c =>
    simp only [signedEntry, SignedEntry.entryType, bind, Option.bind_eq_some_iff, pure, Option.some.injEq] at h
    obtain ⟨x, hx, y, hy, rfl⟩ := h
    simp [decSignedEntry, bind, pure, List.append_assoc, takeUint_uintN _ _ _ _ hx, decAsn1Cert_enc _ _ _ hy]
  | precert p =>
    simp only [signedEntry, SignedEntry.entryType, bind, Option.bind_eq_some_iff, pure, Option.some.injEq] at h
    obtain ⟨x, hx, y, hy, rfl⟩ := h
    simp [decSignedEntry, bind, pure, List.append_assoc, takeUint_uintN _ _ _ _ hx, decPreCert_enc _ _ _ hy]

theorem signedEntry_dec (bs : Bytes) (e : SignedEntry) (r : Bytes) (h : decSignedEntry bs = some (e, r)) :
    ∃ a, signedEntry e = some a ∧ bs = a ++ r := by
  simp only [decSignedEntry, bind, Option.bind_eq_some_iff, Prod.exists] at h
  obtain ⟨t, r1, h1, h⟩ := h
  obtain ⟨a1, e1, rfl⟩ := uintN_takeUint _ _ _ _ h1
  split at h
  · rename_i ht; subst ht
    simp only [Option.bind_eq_some_iff, pure, Option.some.injEq, Prod.mk.injEq, Prod.exists] at h
    obtain ⟨c, r2, h2, rfl, rfl⟩ := h
    obtain ⟨a2, e2, rfl⟩ := asn1Cert_dec _ _ _ h2
    exact ⟨a1 ++ a2, by simp [signedEntry, SignedEntry.entryType, bind, pure, e1, e2], by simp [List.append_assoc]⟩
  · split at h
    · rename_i ht; subst ht
      simp only [Option.bind_eq_some_iff, pure, Option.some.injEq, Prod.mk.injEq, Prod.exists] at h
      obtain ⟨p, r2, h2, rfl, rfl⟩ := h
      obtain ⟨a2, e2, rfl⟩ := preCert_dec _ _ _ h2
      exact ⟨a1 ++ a2, by simp [signedEntry, SignedEntry.entryType, bind, pure, e1, e2], by simp [List.append_assoc]⟩
    · cases h

theorem decTimestampedEntry_enc (t : TimestampedEntry) (a r : Bytes) (h : timestampedEntry t = some a) :
    decTimestampedEntry (a ++ r) = some (t, r) := by
  simp only [timestampedEntry, ctExtensions, bind, Option.bind_eq_some_iff, pure, Option.some.injEq] at h
  obtain ⟨x, hx, y, hy, z, hz, rfl⟩ := h
  simp [decTimestampedEntry, bind, pure, List.append_assoc, takeUint_uintN _ _ _ _ hx, decSignedEntry_enc _ _ _ hy,
    takeVarVector_varVector _ _ _ _ _ (by decide) hz]

theorem timestampedEntry_dec (bs : Bytes) (t : TimestampedEntry) (r : Bytes) (h : decTimestampedEntry bs = some (t, r)) :
    ∃ a, timestampedEntry t = some a ∧ bs = a ++ r := by
  simp only [decTimestampedEntry, bind, Option.bind_eq_some_iff, pure, Option.some.injEq, Prod.mk.injEq, Prod.exists] at h
  obtain ⟨ts, r1, h1, e, r2, h2, ext, r3, h3, rfl, rfl⟩ := h
  obtain ⟨a1, e1, rfl⟩ := uintN_takeUint _ _ _ _ h1
  obtain ⟨a2, e2, rfl⟩ := signedEntry_dec _ _ _ h2
  obtain ⟨a3, e3, rfl⟩ := varVector_takeVarVector _ _ _ _ _ h3
  exact ⟨a1 ++ a2 ++ a3, by simp [timestampedEntry, ctExtensions, bind, pure, e1, e2, e3], by simp [List.append_assoc]⟩

theorem decMerkleTreeLeaf_enc (l : MerkleTreeLeaf) (a r : Bytes) (h : merkleTreeLeaf l = some a) :
    decMerkleTreeLeaf (a ++ r) = some (l, r) := by
  simp only [merkleTreeLeaf, bind, Option.bind_eq_some_iff, pure, Option.some.injEq] at h
  obtain ⟨x, hx, y, hy, z, hz, rfl⟩ := h
  simp [decMerkleTreeLeaf, bind, pure, List.append_assoc, takeUint_uintN _ _ _ _ hx, takeUint_uintN _ _ _ _ hy,
    decTimestampedEntry_enc _ _ _ hz]

theorem merkleTreeLeaf_dec (bs : Bytes) (l : MerkleTreeLeaf) (r : Bytes) (h : decMerkleTreeLeaf bs = some (l, r)) :
    ∃ a, merkleTreeLeaf l = some a ∧ bs = a ++ r := by
  simp only [decMerkleTreeLeaf, bind, Option.bind_eq_some_iff, Prod.exists] at h
  obtain ⟨v, r1, h1, lt, r2, h2, h⟩ := h
  obtain ⟨a1, e1, rfl⟩ := uintN_takeUint _ _ _ _ h1
  obtain ⟨a2, e2, rfl⟩ := uintN_takeUint _ _ _ _ h2
  split at h
  · rename_i ht; subst ht
    simp only [Option.bind_eq_some_iff, pure, Option.some.injEq, Prod.mk.injEq, Prod.exists] at h
    obtain ⟨te, r3, h3, rfl, rfl⟩ := h
    obtain ⟨a3, e3, rfl⟩ := timestampedEntry_dec _ _ _ h3
    exact ⟨a1 ++ a2 ++ a3, by simp [merkleTreeLeaf, bind, pure, e1, e2, e3], by simp [List.append_assoc]⟩
  · cases h

theorem decSct_enc (s : SCT) (a r : Bytes) (h : sct s = some a) : decSct (a ++ r) = some (s, r) := by
  simp only [sct, ctExtensions, bind, Option.bind_eq_some_iff, pure, Option.some.injEq] at h
  obtain ⟨x1, h1, x2, h2, x3, h3, x4, h4, x5, h5, rfl⟩ := h
  simp [decSct, bind, pure, List.append_assoc, takeUint_uintN _ _ _ _ h1, takeFixed_opaqueFixed _ _ _ _ h2,
    takeUint_uintN _ _ _ _ h3, takeVarVector_varVector _ _ _ _ _ (by decide) h4, decDigitallySigned_enc _ _ _ h5]

theorem sct_dec (bs : Bytes) (s : SCT) (r : Bytes) (h : decSct bs = some (s, r)) : ∃ a, sct s = some a ∧ bs = a ++ r := by
  simp only [decSct, bind, Option.bind_eq_some_iff, pure, Option.some.injEq, Prod.mk.injEq, Prod.exists] at h
  obtain ⟨v, r1, h1, id, r2, h2, ts, r3, h3, ext, r4, h4, sig, r5, h5, rfl, rfl⟩ := h
  obtain ⟨a1, e1, rfl⟩ := uintN_takeUint _ _ _ _ h1
  obtain ⟨a2, e2, rfl⟩ := opaqueFixed_takeFixed _ _ _ _ h2
  obtain ⟨a3, e3, rfl⟩ := uintN_takeUint _ _ _ _ h3
  obtain ⟨a4, e4, rfl⟩ := varVector_takeVarVector _ _ _ _ _ h4
  obtain ⟨a5, e5, rfl⟩ := digitallySigned_dec _ _ _ h5
  exact ⟨a1 ++ a2 ++ a3 ++ a4 ++ a5, by simp [sct, ctExtensions, bind, pure, e1, e2, e3, e4, e5], by simp [List.append_assoc]⟩

theorem serializedSCT_pos (c a : Bytes) (h : serializedSCT c = some a) : 0 < a.length := by
  have := varVector_length _ _ _ _ h
  have := lenWidth_pos 65535
  omega

theorem decSctList_enc (l : List Bytes) (a r : Bytes) (h : sctList l = some a) : decSctList (a ++ r) = some (l, r) := by
  simp only [sctList, bind, Option.bind_eq_some_iff] at h
  obtain ⟨body, hb, hv⟩ := h
  have hs := splitAll_concatAll serializedSCT decSerializedSCT
    (fun x a r hx => ⟨takeVarVector_varVector _ _ _ _ _ (by decide) hx, serializedSCT_pos x a hx⟩) l body (body.length + 1) hb (by omega)
  simp [decSctList, bind, pure, takeVarVector_varVector _ _ _ _ r (by decide) hv, hs]

theorem sctList_dec (bs : Bytes) (l : List Bytes) (r : Bytes) (h : decSctList bs = some (l, r)) :
    ∃ a, sctList l = some a ∧ bs = a ++ r := by
  simp only [decSctList, bind, Option.bind_eq_some_iff, pure, Option.some.injEq, Prod.mk.injEq, Prod.exists] at h
  obtain ⟨body, rest, h1, scts, h2, rfl, rfl⟩ := h
  obtain ⟨a, e1, rfl⟩ := varVector_takeVarVector _ _ _ _ _ h1
  have e2 := concatAll_splitAll serializedSCT decSerializedSCT (fun bs x r h => varVector_takeVarVector _ _ _ _ _ h) _ _ _ h2
  exact ⟨a, by simp [sctList, bind, e2, e1], rfl⟩

theorem wholeSct_iff (b : Bytes) (s : SCT) : wholeSct b = some s ↔ sct s = some b := by
  constructor
  · intro h
    unfold wholeSct at h
    cases hd : decSct b with
    | none => simp [hd] at h
    | some p =>
      obtain ⟨s', r⟩ := p
      cases r with
      | nil =>
        simp [hd] at h
        obtain ⟨a, ha, hb⟩ := sct_dec _ _ _ hd
        subst h
        simpa [hb] using ha
      | cons x xs => simp [hd] at h
  · intro h
    have := decSct_enc s b [] h
    simp only [List.append_nil] at this
    simp [wholeSct, this]

theorem mapM_wholeSct_iff (items : List Bytes) (scts : List SCT) :
    items.mapM wholeSct = some scts ↔ scts.mapM sct = some items := by
  induction items generalizing scts with
  | nil => cases scts <;> simp [List.mapM_cons, bind, Option.bind_eq_some_iff]
  | cons b bs ih =>
    cases scts with
    | nil => simp [List.mapM_cons, bind, Option.bind_eq_some_iff]
    | cons s ss =>
      simp only [List.mapM_cons, bind, Option.bind_eq_some_iff, pure, Option.some.injEq, List.cons.injEq]
      constructor
      · rintro ⟨s', h1, ss', h2, rfl, rfl⟩
        exact ⟨b, (wholeSct_iff _ _).1 h1, bs, (ih _).1 h2, rfl, rfl⟩
      · rintro ⟨b', h1, bs', h2, rfl, rfl⟩
        exact ⟨s, (wholeSct_iff _ _).2 h1, ss, (ih _).2 h2, rfl, rfl⟩

end Rfc
