import CTV.Lemmas.Races
/-! The invariant of the `GetSCTs` race model and its preservation by every action. -/
namespace CTV.Model.Races

/-- assumptions on one `GetSCTs` call: map keys (group names) are distinct; a session lists distinct members of its
group (`GetSubmissionSession` draws without replacement from the weights map) — the model keeps one goroutine state
per (group, log) -/
structure WF (r : Run) : Prop where
  names_nodup : (names r.cfg).Nodup
  session_sub : ∀ g ∈ r.cfg, ∀ l ∈ r.session g.name, l ∈ g.logs
  session_nodup : ∀ g ∈ r.cfg, (r.session g.name).Nodup

/-- SCTs held for group `g`: logs of `g` whose stored result carries an SCT -/
def stored (c : Cfg) (sub : Sub) (g : Group) : Nat :=
  ((sctLogs c sub).filter (fun l => decide (l ∈ g.logs))).length

structure Inv (r : Run) (s : St) : Prop where
  owner : ∀ g l, s.gor g l = .inflight → s.sub.results l = some .empty ∧ ∀ g', s.gor g' l = .inflight → g' = g
  infl_sub : ∀ g l, s.gor g l = .inflight → l ∈ s.submitted
  sub_nodup : s.submitted.Nodup
  sub_res : ∀ l ∈ s.submitted, s.sub.results l ≠ none
  sct_sub : ∀ l, s.sub.results l = some .sct → l ∈ s.submitted
  active : ∀ g l, s.gor g l ≠ .waiting → g ∈ names r.cfg ∧ l ∈ r.session g
  sub_sess : ∀ l ∈ s.submitted, ∃ g ∈ names r.cfg, l ∈ r.session g
  policy : ∀ g ∈ r.cfg, g.min - max (s.sub.needs g.name) 0 ≤ (stored r.cfg s.sub g : Int)
  gdone_ok : ∀ g, s.gdone g = some true → s.sub.needs g ≤ 0
  recvd_ok : ∀ g, s.recvd g = some true → s.sub.needs g ≤ 0
  recvd_gdone : ∀ g b, s.recvd g = some b → s.gdone g = some b
  ret_ok : ∀ ls e, s.ret = some (ls, e) → ls.Nodup ∧ (∀ l ∈ ls, l ∈ s.submitted) ∧
    (e = false → ∀ g ∈ r.cfg, g.min ≤ ((ls.filter (fun l => decide (l ∈ g.logs))).length : Int))

theorem find_name {c : Cfg} (hn : (names c).Nodup) {g : Group} (hg : g ∈ c) :
    c.find? (fun x => x.name == g.name) = some g := by
  induction c with
  | nil => cases hg
  | cons x xs ih =>
    simp only [names, List.map_cons, List.nodup_cons] at hn
    rcases List.mem_cons.mp hg with h | h
    · subst h; simp
    · have hne : x.name ≠ g.name := by
        intro he
        exact hn.1 (he ▸ List.mem_map_of_mem (f := (·.name)) h)
      simp [hne]
      exact ih hn.2 h

theorem init_needs {c : Cfg} (hn : (names c).Nodup) {g : Group} (hg : g ∈ c) : (Sub.init c).needs g.name = g.min := by
  simp [Sub.init, find_name hn hg]

theorem inv_init {r : Run} (wf : WF r) : Inv r (St.init r) where
  owner := by intro g l h; simp [St.init] at h
  infl_sub := by intro g l h; simp [St.init] at h
  sub_nodup := by simp [St.init]
  sub_res := by intro l h; simp [St.init] at h
  sct_sub := by intro l h; simp [St.init, Sub.init] at h
  active := by intro g l h; simp [St.init] at h
  sub_sess := by intro l h; simp [St.init] at h
  policy := by
    intro g hg
    have := init_needs wf.names_nodup hg
    simp only [St.init, this]
    omega
  gdone_ok := by intro g h; simp [St.init] at h
  recvd_ok := by intro g h; simp [St.init] at h
  recvd_gdone := by intro g b h; simp [St.init] at h
  ret_ok := by intro ls e h; simp [St.init] at h

/-- changing one goroutine's state to something other than `inflight` keeps the invariant -/
theorem inv_setGor {r : Run} {s : St} (h : Inv r s) (g : Grp) (l : Log) (x : GSt) (hx : x ≠ .inflight)
    (hact : g ∈ names r.cfg ∧ l ∈ r.session g) : Inv r (setGor s g l x) where
  owner := by
    intro g' l' hin
    simp only [setGor] at hin ⊢
    split at hin
    · exact absurd hin hx
    · obtain ⟨h1, h2⟩ := h.owner g' l' hin
      refine ⟨h1, fun g'' hg'' => ?_⟩
      split at hg''
      · exact absurd hg'' hx
      · exact h2 g'' hg''
  infl_sub := by
    intro g' l' hin
    simp only [setGor] at hin
    split at hin
    · exact absurd hin hx
    · exact h.infl_sub g' l' hin
  sub_nodup := h.sub_nodup
  sub_res := h.sub_res
  sct_sub := h.sct_sub
  active := by
    intro g' l' hw
    simp only [setGor] at hw
    split at hw
    · rename_i he; rw [he.1, he.2]; exact hact
    · exact h.active g' l' hw
  sub_sess := h.sub_sess
  policy := h.policy
  gdone_ok := h.gdone_ok
  recvd_ok := h.recvd_ok
  recvd_gdone := h.recvd_gdone
  ret_ok := h.ret_ok

theorem stored_sctLogs (c : Cfg) (sub : Sub) (g : Group) :
    stored c sub g = ((sctLogs c sub).filter (fun l => decide (l ∈ g.logs))).length := rfl

theorem mem_sctLogs {c : Cfg} {sub : Sub} {l : Log} : l ∈ sctLogs c sub ↔ l ∈ allLogs c ∧ sub.results l = some .sct := by
  simp [sctLogs]

theorem inv_easy {r : Run} {s s' : St} (h : Inv r s) (o : Op) (hs : step r s o = some s')
    (ho : ∀ g l, o ≠ .request g l) (ho' : ∀ g l ok, o ≠ .setResult g l ok) : Inv r s' := by
  cases o with
  | timerFire g l =>
    simp only [step] at hs
    split at hs
    · rename_i hc
      cases hs
      exact inv_setGor h g l _ (by split <;> simp) ⟨hc.1, hc.2.1⟩
    · cases hs
  | abort g l =>
    simp only [step] at hs
    split at hs
    · rename_i hc
      cases hs
      exact inv_setGor h g l _ (by simp) ⟨hc.2.1, hc.2.2.1⟩
    · cases hs
  | request g l => exact absurd rfl (ho g l)
  | setResult g l ok => exact absurd rfl (ho' g l ok)
  | groupDone g =>
    simp only [step] at hs
    split at hs
    · rename_i hgd
      cases hs
      refine { h with gdone_ok := ?_, recvd_gdone := ?_ }
      · intro g' hg'
        simp only [upd] at hg'
        split at hg'
        · rename_i he
          subst he
          simp only [Option.some.injEq, complete, decide_eq_true_eq] at hg'
          exact hg'
        · exact h.gdone_ok g' hg'
      · intro g' b hb
        have hold := h.recvd_gdone g' b hb
        simp only [upd]
        split
        · rename_i he
          subst he
          rw [hgd.2.1] at hold
          cases hold
        · exact hold
    · cases hs
  | recv g =>
    simp only [step] at hs
    split at hs
    · rename_i b hb
      split at hs
      · cases hs
        refine { h with recvd_ok := ?_, recvd_gdone := ?_ }
        · intro g' hg'
          simp only [upd] at hg'
          split at hg'
          · rename_i he
            subst he
            simp only [Option.some.injEq] at hg'
            subst hg'
            exact h.gdone_ok _ hb
          · exact h.recvd_ok g' hg'
        · intro g' b' hb'
          simp only [upd] at hb'
          split at hb'
          · rename_i he
            subst he
            simp only [Option.some.injEq] at hb'
            subst hb'
            exact hb
          · exact h.recvd_gdone g' b' hb'
      · cases hs
    · cases hs
  | ctxDone =>
    simp only [step] at hs
    split at hs
    · cases hs
    · cases hs
      exact { h with }
  | collect =>
    simp only [step] at hs
    split at hs
    · rename_i hc
      cases hs
      refine { h with ret_ok := ?_ }
      intro ls e hret
      simp only [Option.some.injEq, Prod.mk.injEq] at hret
      obtain ⟨rfl, rfl⟩ := hret
      refine ⟨?_, ?_, ?_⟩
      · exact (nodup_allLogs r.cfg).sublist List.filter_sublist
      · intro l hl
        exact h.sct_sub l (mem_sctLogs.mp hl).2
      · intro he g hg
        have hall : ∀ n ∈ names r.cfg, s.recvd n = some true := by
          intro n hn
          have := he
          simp only [List.any_eq_false, decide_eq_true_eq] at this
          have := this n hn
          simpa using this
        have hneed := h.recvd_ok g.name (hall g.name (List.mem_map_of_mem (f := (·.name)) hg))
        have := h.policy g hg
        rw [stored_sctLogs] at this
        omega
    · cases hs

theorem stored_eq (c : Cfg) (sub : Sub) (g : Group) :
    stored c sub g = ((allLogs c).filter (fun l => decide (l ∈ g.logs) && decide (sub.results l = some .sct))).length := by
  simp [stored, sctLogs, List.filter_filter]

theorem stored_congr {c : Cfg} {a b : Sub} (g : Group)
    (h : ∀ l, a.results l = some .sct ↔ b.results l = some .sct) : stored c a g = stored c b g := by
  rw [stored_eq, stored_eq]
  congr 1
  apply List.filter_congr
  intro l _
  simp [h l]

theorem group_of_name {c : Cfg} (hn : (names c).Nodup) {g : Group} (hg : g ∈ c) {l : Log}
    (h : g.name ∈ groupsOf c l) : l ∈ g.logs := by
  simp only [groupsOf, List.mem_map, List.mem_filter, decide_eq_true_eq] at h
  obtain ⟨g2, ⟨hg2, hl⟩, hname⟩ := h
  have h1 := find_name hn hg
  have h2 := find_name hn hg2
  rw [hname] at h2
  rw [h1] at h2
  cases h2
  exact hl

theorem inv_request {r : Run} {s s' : St} (h : Inv r s) (g : Grp) (l : Log)
    (hs : step r s (.request g l) = some s') : Inv r s' := by
  simp only [step] at hs
  split at hs
  case isFalse => cases hs
  rename_i hchk
  have hact := h.active g l (by rw [hchk]; simp)
  have hneeds := request_needs r.cfg s.sub l
  have hres := request_results r.cfg s.sub l
  have hsct : ∀ l', (request r.cfg s.sub l).1.results l' = some .sct ↔ s.sub.results l' = some .sct := by
    intro l'
    rw [hres l']
    split
    · rename_i hc; rw [hc.1, hc.2]; simp
    · rfl
  have hnn : ∀ l', s.sub.results l' ≠ none → (request r.cfg s.sub l).1.results l' = s.sub.results l' := by
    intro l' hne
    rw [hres l']
    split
    · rename_i hc; rw [hc.1] at hne; exact absurd hc.2 hne
    · rfl
  split at hs
  · -- granted
    rename_i hgr
    have hnone := request_granted hgr
    cases hs
    refine {
      owner := ?_, infl_sub := ?_, sub_nodup := ?_, sub_res := ?_, sct_sub := ?_, active := ?_, sub_sess := ?_,
      policy := ?_, gdone_ok := ?_, recvd_ok := ?_, recvd_gdone := h.recvd_gdone, ret_ok := ?_ }
    · intro g' l' hin
      simp only [setGor] at hin ⊢
      split at hin
      · rename_i he
        obtain ⟨rfl, rfl⟩ := he
        refine ⟨by rw [hres]; simp [hnone], fun g'' hg'' => ?_⟩
        split at hg''
        · rename_i he'; exact he'.1
        · have := (h.owner g'' l' hg'').1
          rw [hnone] at this; cases this
      · rename_i hne
        obtain ⟨h1, h2⟩ := h.owner g' l' hin
        refine ⟨by rw [hnn l' (by rw [h1]; simp)]; exact h1, fun g'' hg'' => ?_⟩
        split at hg''
        · rename_i he'
          rw [he'.2, hnone] at h1; cases h1
        · exact h2 g'' hg''
    · intro g' l' hin
      simp only [setGor] at hin ⊢
      split at hin
      · rename_i he; rw [he.2]; exact List.mem_cons_self
      · exact List.mem_cons_of_mem _ (h.infl_sub g' l' hin)
    · show (l :: s.submitted).Nodup
      rw [List.nodup_cons]
      exact ⟨fun hm => h.sub_res l hm hnone, h.sub_nodup⟩
    · intro l' hl'
      show (request r.cfg s.sub l).1.results l' ≠ none
      rcases List.mem_cons.mp hl' with rfl | hm
      · rw [hres]; simp [hnone]
      · rw [hnn l' (h.sub_res l' hm)]; exact h.sub_res l' hm
    · intro l' hl'
      exact List.mem_cons_of_mem _ (h.sct_sub l' ((hsct l').mp hl'))
    · intro g' l' hw
      simp only [setGor] at hw
      split at hw
      · rename_i he; rw [he.1, he.2]; exact hact
      · exact h.active g' l' hw
    · intro l' hl'
      rcases List.mem_cons.mp hl' with rfl | hm
      · exact ⟨g, hact.1, hact.2⟩
      · exact h.sub_sess l' hm
    · intro grp hgrp
      show grp.min - max ((request r.cfg s.sub l).1.needs grp.name) 0 ≤ (stored r.cfg (request r.cfg s.sub l).1 grp : Int)
      rw [hneeds, stored_congr grp hsct]
      exact h.policy grp hgrp
    · intro g' hg'
      show (request r.cfg s.sub l).1.needs g' ≤ 0
      rw [hneeds]; exact h.gdone_ok g' hg'
    · intro g' hg'
      show (request r.cfg s.sub l).1.needs g' ≤ 0
      rw [hneeds]; exact h.recvd_ok g' hg'
    · intro ls e hret
      obtain ⟨h1, h2, h3⟩ := h.ret_ok ls e hret
      exact ⟨h1, fun l' hl' => List.mem_cons_of_mem _ (h2 l' hl'), h3⟩
  · -- refused
    cases hs
    have hbase := inv_setGor h g l .finished (by simp) hact
    refine {
      owner := ?_, infl_sub := hbase.infl_sub, sub_nodup := hbase.sub_nodup, sub_res := ?_, sct_sub := ?_,
      active := hbase.active, sub_sess := hbase.sub_sess,
      policy := ?_, gdone_ok := ?_, recvd_ok := ?_, recvd_gdone := h.recvd_gdone, ret_ok := hbase.ret_ok }
    · intro g' l' hin
      obtain ⟨h1, h2⟩ := hbase.owner g' l' hin
      refine ⟨?_, h2⟩
      show (request r.cfg s.sub l).1.results l' = some .empty
      have h1' : s.sub.results l' = some .empty := h1
      rw [hnn l' (by rw [h1']; simp)]; exact h1'
    · intro l' hl'
      show (request r.cfg s.sub l).1.results l' ≠ none
      rw [hnn l' (h.sub_res l' hl')]; exact h.sub_res l' hl'
    · intro l' hl'
      exact h.sct_sub l' ((hsct l').mp hl')
    · intro grp hgrp
      show grp.min - max ((request r.cfg s.sub l).1.needs grp.name) 0 ≤ (stored r.cfg (request r.cfg s.sub l).1 grp : Int)
      rw [hneeds, stored_congr grp hsct]
      exact h.policy grp hgrp
    · intro g' hg'
      show (request r.cfg s.sub l).1.needs g' ≤ 0
      rw [hneeds]; exact h.gdone_ok g' hg'
    · intro g' hg'
      show (request r.cfg s.sub l).1.needs g' ≤ 0
      rw [hneeds]; exact h.recvd_ok g' hg'

theorem stored_mono {c : Cfg} {a b : Sub} (g : Group)
    (h : ∀ l, a.results l = some .sct → b.results l = some .sct) : stored c a g ≤ stored c b g := by
  rw [stored_eq, stored_eq]
  apply filter_length_mono
  intro l _ hl
  simp only [Bool.and_eq_true, decide_eq_true_eq] at hl ⊢
  exact ⟨hl.1, h l hl.2⟩

theorem stored_succ {c : Cfg} {a b : Sub} (g : Group) (hg : g ∈ c) {l : Log} (hl : l ∈ g.logs)
    (ha : a.results l ≠ some .sct) (hb : b.results l = some .sct) (hrest : ∀ l', l' ≠ l → b.results l' = a.results l') :
    stored c b g = stored c a g + 1 := by
  rw [stored_eq, stored_eq]
  apply filter_length_succ (nodup_allLogs c) (mem_allLogs.mpr ⟨g, hg, hl⟩)
  · simp [ha]
  · simp [hl, hb]
  · intro x hx
    simp [hrest x hx]

theorem inv_setResult {r : Run} {s s' : St} (wf : WF r) (h : Inv r s) (g : Grp) (l : Log) (ok : Bool)
    (hs : step r s (.setResult g l ok) = some s') : Inv r s' := by
  simp only [step] at hs
  split at hs
  case isFalse => cases hs
  rename_i hinf
  obtain ⟨hempty, huniq⟩ := h.owner g l hinf
  have hact := h.active g l (by rw [hinf]; simp)
  have hbase := inv_setGor h g l .finished (by simp) hact
  split at hs
  case h_2 => cases hs
  rename_i p hp
  cases hs
  -- facts about the new submission state, common to both outcomes
  have hfacts : (∀ g', p.1.needs g' ≤ s.sub.needs g') ∧
      (∀ l', l' ≠ l → p.1.results l' = s.sub.results l') ∧ p.1.results l ≠ none ∧
      (∀ grp ∈ r.cfg, grp.min - max (p.1.needs grp.name) 0 ≤ (stored r.cfg p.1 grp : Int)) := by
    cases ok
    · rw [setResult_err] at hp
      cases hp
      refine ⟨fun _ => Int.le_refl _, fun l' hl' => by simp [upd, hl'], by simp [upd], ?_⟩
      intro grp hgrp
      have : stored r.cfg { s.sub with results := upd s.sub.results l (some .err) } grp = stored r.cfg s.sub grp := by
        apply stored_congr
        intro l'
        simp only [upd]
        split
        · rename_i he; subst he; simp [hempty]
        · rfl
      rw [this]
      exact h.policy grp hgrp
    · obtain ⟨s2, cs⟩ := p
      obtain ⟨h1, h2, h3, h4, h5⟩ := setResult_ok_spec hp
      refine ⟨fun g' => (h1 g').1, h3, ?_, ?_⟩
      · rcases h4 with h4 | h4 <;> simp [h4, hempty]
      · intro grp hgrp
        have hold := h.policy grp hgrp
        have hmono : stored r.cfg s.sub grp ≤ stored r.cfg s2 grp := by
          apply stored_mono
          intro l' hl'
          by_cases he : l' = l
          · subst he; rw [hempty] at hl'; cases hl'
          · rw [h3 l' he]; exact hl'
        have hn := h1 grp.name
        by_cases hdec : s2.needs grp.name < s.sub.needs grp.name ∧ 0 < s.sub.needs grp.name
        · have hsct := h5 grp.name hdec.2 hdec.1
          have hlm := group_of_name wf.names_nodup hgrp (h2 grp.name hdec.1)
          have := stored_succ grp hgrp hlm (by rw [hempty]; simp) hsct h3
          show grp.min - max (s2.needs grp.name) 0 ≤ (stored r.cfg s2 grp : Int)
          omega
        · show grp.min - max (s2.needs grp.name) 0 ≤ (stored r.cfg s2 grp : Int)
          omega
  obtain ⟨hle, hres, hnn, hpol⟩ := hfacts
  refine {
    owner := ?_, infl_sub := hbase.infl_sub, sub_nodup := hbase.sub_nodup, sub_res := ?_, sct_sub := ?_,
    active := hbase.active, sub_sess := hbase.sub_sess,
    policy := hpol, gdone_ok := ?_, recvd_ok := ?_, recvd_gdone := h.recvd_gdone, ret_ok := hbase.ret_ok }
  · intro g' l' hin
    obtain ⟨h1, h2⟩ := hbase.owner g' l' hin
    refine ⟨?_, h2⟩
    show p.1.results l' = some .empty
    have hne : l' ≠ l := by
      intro he
      subst he
      simp only [setGor] at hin
      split at hin
      · cases hin
      · rename_i hne'
        have := huniq g' hin
        exact hne' ⟨this, trivial⟩
    rw [hres l' hne]; exact h1
  · intro l' hl'
    show p.1.results l' ≠ none
    by_cases he : l' = l
    · subst he; exact hnn
    · rw [hres l' he]; exact h.sub_res l' hl'
  · intro l' hl'
    have hl'' : p.1.results l' = some .sct := hl'
    by_cases he : l' = l
    · subst he; exact h.infl_sub g l' hinf
    · rw [hres l' he] at hl''; exact h.sct_sub l' hl''
  · intro g' hg'
    exact Int.le_trans (hle g') (h.gdone_ok g' hg')
  · intro g' hg'
    exact Int.le_trans (hle g') (h.recvd_ok g' hg')

theorem inv_step {r : Run} {s s' : St} (wf : WF r) (h : Inv r s) (o : Op) (hs : step r s o = some s') : Inv r s' := by
  cases o with
  | request g l => exact inv_request h g l hs
  | setResult g l ok => exact inv_setResult wf h g l ok hs
  | timerFire g l => exact inv_easy h _ hs (by intros; simp) (by intros; simp)
  | abort g l => exact inv_easy h _ hs (by intros; simp) (by intros; simp)
  | groupDone g => exact inv_easy h _ hs (by intros; simp) (by intros; simp)
  | recv g => exact inv_easy h _ hs (by intros; simp) (by intros; simp)
  | ctxDone => exact inv_easy h _ hs (by intros; simp) (by intros; simp)
  | collect => exact inv_easy h _ hs (by intros; simp) (by intros; simp)

theorem inv_exec {r : Run} (wf : WF r) : ∀ (ops : List Op) {s : St}, Inv r s → Inv r (exec r s ops)
  | [], _, h => h
  | o :: os, s, h => by
    unfold exec
    cases hs : step r s o with
    | none => simpa using inv_exec wf os h
    | some s' => simpa using inv_exec wf os (inv_step wf h o hs)

end CTV.Model.Races
