import CTV.Model.Client
import Mathlib.Tactic.Ring
import Mathlib.Tactic.NormNum
/-! Lemmas about the TLS fragments of `CTV.Client`: every decoder returns a value whose encoding is the input. -/
namespace CTV.Client
open CTV CTV.SigV
set_option linter.unusedSimpArgs false

theorem readUint_sound (w : Nat) (bs rest : Bytes) (n : Nat) (h : readUint w bs = some (n, rest)) :
    bs = beEnc w n ++ rest := by
  unfold readUint at h
  by_cases hl : bs.length < w
  · simp [hl] at h
  · simp only [hl, if_false, Option.some.injEq, Prod.mk.injEq] at h
    obtain ⟨rfl, rfl⟩ := h
    have hlen : (bs.take w).length = w := by simp; omega
    have := beEnc_beDec (bs.take w)
    rw [hlen] at this
    rw [this, List.take_append_drop]

theorem readOpaque_sound (w lo hi : Nat) (bs c rest : Bytes) (h : readOpaque w lo hi bs = some (c, rest)) :
    bs = writeOpaque w c ++ rest ∧ lo ≤ c.length ∧ c.length ≤ hi := by
  unfold readOpaque at h
  cases hu : readUint w bs with
  | none => simp [hu] at h
  | some v =>
    obtain ⟨n, r⟩ := v
    simp only [hu] at h
    by_cases hb : n < lo ∨ n > hi
    · simp [hb] at h
    by_cases hl : n > r.length
    · simp [hb, hl] at h
    simp only [hb, hl, if_false, Option.some.injEq, Prod.mk.injEq] at h
    obtain ⟨rfl, rfl⟩ := h
    have hlen : (r.take n).length = n := by simp; omega
    refine ⟨?_, by omega, by omega⟩
    rw [readUint_sound w bs r n hu, writeOpaque, hlen]
    simp

theorem readArray_sound (n : Nat) (bs c rest : Bytes) (h : readArray n bs = some (c, rest)) : bs = c ++ rest ∧ c.length = n := by
  unfold readArray at h
  by_cases hl : bs.length < n
  · simp [hl] at h
  · simp only [hl, if_false, Option.some.injEq, Prod.mk.injEq] at h
    obtain ⟨rfl, rfl⟩ := h
    exact ⟨(List.take_append_drop n bs).symm, by simp; omega⟩

theorem decLeafEntry_sound (et : Nat) (bs rest : Bytes) (e : LeafEntry) (h : decLeafEntry et bs = some (e, rest)) :
    beEnc 2 et ++ bs = encLeafEntry e ++ rest := by
  unfold decLeafEntry at h
  by_cases h0 : et = 0
  · subst h0
    simp only [if_true] at h
    cases ho : readOpaque 3 1 16777215 bs with
    | none => simp [ho] at h
    | some v =>
      obtain ⟨c, r⟩ := v
      simp only [ho, Option.some.injEq, Prod.mk.injEq] at h
      obtain ⟨rfl, rfl⟩ := h
      rw [(readOpaque_sound _ _ _ _ _ _ ho).1]
      simp [encLeafEntry]
  by_cases h1 : et = 1
  · subst h1
    simp only [h0, if_false, if_true] at h
    cases ha : readArray 32 bs with
    | none => simp [ha] at h
    | some v =>
      obtain ⟨ikh, r⟩ := v
      simp only [ha] at h
      cases ho : readOpaque 3 1 16777215 r with
      | none => simp [ho] at h
      | some v2 =>
        obtain ⟨t, r2⟩ := v2
        simp only [ho, Option.some.injEq, Prod.mk.injEq] at h
        obtain ⟨rfl, rfl⟩ := h
        rw [(readArray_sound _ _ _ _ ha).1, (readOpaque_sound _ _ _ _ _ _ ho).1]
        simp [encLeafEntry]
  by_cases h2 : et = 32768
  · subst h2
    simp only [h0, h1, if_false, if_true] at h
    cases ho : readOpaque 3 0 1677215 bs with
    | none => simp [ho] at h
    | some v =>
      obtain ⟨c, r⟩ := v
      simp only [ho, Option.some.injEq, Prod.mk.injEq] at h
      obtain ⟨rfl, rfl⟩ := h
      rw [(readOpaque_sound _ _ _ _ _ _ ho).1]
      simp [encLeafEntry]
  · simp [h0, h1, h2] at h

theorem decLeaf_sound (bs : Bytes) (l : Leaf) (h : decLeaf bs = some l) : encLeaf l = bs := by
  unfold decLeaf at h
  rcases bs with _ | ⟨v, _ | ⟨lt, rest⟩⟩
  · simp at h
  · simp at h
  simp only at h
  by_cases hlt : lt.toNat ≠ 0
  · simp [hlt] at h
  simp only [hlt, if_false] at h
  cases h8 : readUint 8 rest with
  | none => simp [h8] at h
  | some v8 =>
    obtain ⟨ts, r1⟩ := v8
    simp only [h8] at h
    cases h2 : readUint 2 r1 with
    | none => simp [h2] at h
    | some v2 =>
      obtain ⟨et, r2⟩ := v2
      simp only [h2] at h
      cases he : decLeafEntry et r2 with
      | none => simp [he] at h
      | some ve =>
        obtain ⟨e, r3⟩ := ve
        simp only [he] at h
        cases hx : readOpaque 2 0 65535 r3 with
        | none => simp [hx] at h
        | some vx =>
          obtain ⟨x, r4⟩ := vx
          simp only [hx] at h
          rcases r4 with _ | ⟨y, r4'⟩
          · simp only [Option.some.injEq] at h
            subst h
            have e8 := readUint_sound _ _ _ _ h8
            have e2 := readUint_sound _ _ _ _ h2
            have ee := decLeafEntry_sound _ _ _ _ he
            have ex := (readOpaque_sound _ _ _ _ _ _ hx).1
            have hz : lt = 0 := by
              have h0 : lt.toNat = 0 := by simpa using hlt
              have := UInt8.ofNat_toNat (x := lt)
              rw [h0] at this
              exact this.symm
            simp only [encLeaf]
            rw [e8, e2, ee, ex, hz]
            simp
          · simp at h

theorem readCerts_sound (f : Nat) (bs : Bytes) (cs : List Bytes) (h : readCerts f bs = some cs) : encCerts cs = bs := by
  induction f generalizing bs cs with
  | zero =>
    rcases bs with _ | ⟨b, t⟩
    · simp [readCerts] at h; subst h; rfl
    · simp [readCerts] at h
  | succ f ih =>
    rcases bs with _ | ⟨b, t⟩
    · simp [readCerts] at h; subst h; rfl
    · simp only [readCerts] at h
      cases ho : readOpaque 3 1 16777215 (b :: t) with
      | none => simp [ho] at h
      | some v =>
        obtain ⟨c, rest⟩ := v
        simp only [ho] at h
        cases hr : readCerts f rest with
        | none => simp [hr] at h
        | some cs' =>
          simp only [hr, Option.some.injEq] at h
          subst h
          rw [(readOpaque_sound _ _ _ _ _ _ ho).1]
          simp [encCerts, ← ih rest cs' hr]

theorem readCertVec_sound (bs rest : Bytes) (cs : List Bytes) (h : readCertVec bs = some (cs, rest)) :
    bs = encCertVec cs ++ rest := by
  unfold readCertVec at h
  cases ho : readOpaque 3 0 16777215 bs with
  | none => simp [ho] at h
  | some v =>
    obtain ⟨inner, r⟩ := v
    simp only [ho] at h
    cases hc : readCerts inner.length inner with
    | none => simp [hc] at h
    | some cs' =>
      simp only [hc, Option.some.injEq, Prod.mk.injEq] at h
      obtain ⟨rfl, rfl⟩ := h
      rw [(readOpaque_sound _ _ _ _ _ _ ho).1, encCertVec, readCerts_sound _ _ _ hc]

theorem rawLogEntryFromLeaf_sound (li xd : Bytes) (e : RawEntry) (h : rawLogEntryFromLeaf li xd = some e) :
    encLeaf e.leaf = li ∧ encExtra e = xd ∧
      (match e.leaf.entry with | .x509 c => e.cert = c | .precert _ _ => True | .json _ => False) := by
  unfold rawLogEntryFromLeaf at h
  cases hl : decLeaf li with
  | none => simp [hl] at h
  | some leaf =>
    simp only [hl] at h
    have el := decLeaf_sound li leaf hl
    cases hent : leaf.entry with
    | json d => simp [hent] at h
    | x509 cert =>
      simp only [hent] at h
      cases hv : readCertVec xd with
      | none => simp [hv] at h
      | some v =>
        obtain ⟨chain, r⟩ := v
        simp only [hv] at h
        rcases r with _ | ⟨y, r'⟩
        · simp only [Option.some.injEq] at h
          subst h
          refine ⟨el, ?_, ?_⟩
          · simp only [encExtra, hent]
            have := readCertVec_sound _ _ _ hv
            simpa using this.symm
          · simp [hent]
        · simp at h
    | precert ikh tbs =>
      simp only [hent] at h
      cases ho : readOpaque 3 1 16777215 xd with
      | none => simp [ho] at h
      | some v =>
        obtain ⟨pre, r⟩ := v
        simp only [ho] at h
        cases hv : readCertVec r with
        | none => simp [hv] at h
        | some v2 =>
          obtain ⟨chain, r2⟩ := v2
          simp only [hv] at h
          rcases r2 with _ | ⟨y, r2'⟩
          · simp only [Option.some.injEq] at h
            subst h
            refine ⟨el, ?_, ?_⟩
            · simp only [encExtra, hent]
              rw [(readOpaque_sound _ _ _ _ _ _ ho).1, readCertVec_sound _ _ _ hv]
              simp
            · simp [hent]
          · simp at h

theorem readUint_complete (w n : Nat) (rest : Bytes) (h : n < 256 ^ w) : readUint w (beEnc w n ++ rest) = some (n, rest) := by
  unfold readUint
  have hl : ¬ ((beEnc w n ++ rest).length < w) := by simp [beEnc_length]
  simp only [hl, if_false]
  rw [take_append_len _ _ _ (beEnc_length w n), drop_append_len _ _ _ (beEnc_length w n), beDec_beEnc w n h]

theorem readOpaque_complete (w lo hi : Nat) (c rest : Bytes) (hw : hi < 256 ^ w) (hlo : lo ≤ c.length) (hhi : c.length ≤ hi) :
    readOpaque w lo hi (writeOpaque w c ++ rest) = some (c, rest) := by
  unfold readOpaque writeOpaque
  rw [List.append_assoc, readUint_complete w c.length (c ++ rest) (by omega)]
  have h1 : ¬ (c.length < lo ∨ c.length > hi) := by omega
  have h2 : ¬ (c.length > (c ++ rest).length) := by simp
  simp only [h1, h2, if_false]
  simp

/-- exactly the byte strings `hash ‖ algorithm ‖ uint16 length ‖ signature` are one DigitallySigned -/
theorem dsExact_iff (bs : Bytes) (ds : DigitallySigned) :
    dsExact bs = some ds ↔
      ds.hash < 256 ∧ ds.sigAlg < 256 ∧ ds.sig.length ≤ 65535 ∧
      bs = UInt8.ofNat ds.hash :: UInt8.ofNat ds.sigAlg :: writeOpaque 2 ds.sig := by
  constructor
  · intro h
    unfold dsExact dsDecode at h
    rcases bs with _ | ⟨a, _ | ⟨b, rest⟩⟩
    · simp at h
    · simp at h
    simp only at h
    cases ho : readOpaque 2 0 65535 rest with
    | none => simp [ho] at h
    | some v =>
      obtain ⟨sig, r⟩ := v
      simp only [ho] at h
      rcases r with _ | ⟨y, r'⟩
      · simp only [Option.some.injEq] at h
        subst h
        obtain ⟨e, _, hhi⟩ := readOpaque_sound _ _ _ _ _ _ ho
        refine ⟨a.toNat_lt, b.toNat_lt, hhi, ?_⟩
        simp [e]
      · simp at h
  · rintro ⟨h1, h2, h3, rfl⟩
    unfold dsExact dsDecode
    simp only
    have := readOpaque_complete 2 0 65535 ds.sig [] (by norm_num) (by omega) h3
    simp only [List.append_nil] at this
    rw [this]
    simp only [Option.some.injEq]
    cases ds
    simp only [DigitallySigned.mk.injEq, and_true]
    simp only at h1 h2
    exact ⟨by simp [UInt8.toNat_ofNat']; omega, by simp [UInt8.toNat_ofNat']; omega⟩

/-- octets after a complete DigitallySigned are refused (`ToSignedTreeHead`, `addChainWithRetry`: "trailing data") -/
theorem dsExact_trailing (bs t : Bytes) (ds : DigitallySigned) (h : dsExact bs = some ds) (ht : t ≠ []) :
    dsExact (bs ++ t) = none := by
  obtain ⟨_, _, h3, rfl⟩ := (dsExact_iff bs ds).mp h
  unfold dsExact dsDecode
  simp only [List.cons_append]
  rw [readOpaque_complete 2 0 65535 ds.sig t (by norm_num) (by omega) h3]
  rcases t with _ | ⟨y, t'⟩
  · exact absurd rfl ht
  · simp

/-- a DigitallySigned cut short is refused -/
theorem dsExact_truncated (bs : Bytes) (ds : DigitallySigned) (h : dsExact bs = some ds) (k : Nat) (hk : k < bs.length) :
    dsExact (bs.take k) = none := by
  cases hd : dsExact (bs.take k) with
  | none => rfl
  | some ds' =>
    exfalso
    have hx := dsExact_trailing (bs.take k) (bs.drop k) ds' hd (by
      intro e
      have := congrArg List.length e
      simp at this
      omega)
    rw [List.take_append_drop] at hx
    rw [h] at hx
    cases hx


end CTV.Client
