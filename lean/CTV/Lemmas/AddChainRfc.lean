import CTV.Lemmas.AddChain
import CTV.Rfc6962.Wire
/-!
The C01 model's RFC 6962 layouts coincide with the shared wire specification `CTV/Rfc6962/Wire.lean` (for which
property C04 proves `Tls.enc <regenerated struct tags> = Rfc.…`): one layout, not a private copy.
-/
namespace C01
open CTV CTV.Model.AddChain

def toRfc : Entry → Rfc.SignedEntry
  | .x509 d => .x509 d
  | .precert h t => .precert ⟨h, t⟩

theorem lenWidth3 : Rfc.lenWidth 16777215 = 3 := by decide
theorem lenWidth2 : Rfc.lenWidth 65535 = 2 := by decide

theorem rfc_signedEntry (e : Entry) (hw : e.wf) : Rfc.signedEntry (toRfc e) = some (beEnc 2 e.type ++ e.signedEntry) := by
  cases e with
  | x509 d =>
    obtain ⟨h1, h2⟩ := hw
    have hg : 1 ≤ d.length ∧ d.length ≤ 16777215 := ⟨h1, by omega⟩
    simp [Rfc.signedEntry, toRfc, Rfc.SignedEntry.entryType, Rfc.uintN, Rfc.asn1Cert, Rfc.varVector, hg, lenWidth3, Entry.type,
      Entry.signedEntry, vec]
  | precert ikh tbs =>
    obtain ⟨h0, h1, h2⟩ := hw
    have hg : 1 ≤ tbs.length ∧ tbs.length ≤ 16777215 := ⟨h1, by omega⟩
    simp [Rfc.signedEntry, toRfc, Rfc.SignedEntry.entryType, Rfc.uintN, Rfc.preCert, Rfc.opaqueFixed, Rfc.varVector, hg, h0, lenWidth3,
      Entry.type, Entry.signedEntry, vec]

/-- The leaf the model queues is the `MerkleTreeLeaf` of the shared RFC 6962 wire specification. -/
theorem merkleTreeLeaf_is_rfc (ts : Nat) (e : Entry) (ext : Bytes) (hts : ts < 2 ^ 64) (hw : e.wf) (hx : ext.length < 2 ^ 16) :
    Rfc.merkleTreeLeaf ⟨0, ⟨ts, toRfc e, ext⟩⟩ = some (merkleTreeLeaf ts e ext) := by
  have h8 : ts < 256 ^ 8 := by omega
  have hg : 0 ≤ ext.length ∧ ext.length ≤ 65535 := ⟨by omega, by omega⟩
  simp [Rfc.merkleTreeLeaf, Rfc.timestampedEntry, Rfc.uintN, h8, rfc_signedEntry e hw, Rfc.ctExtensions, Rfc.varVector, hg, lenWidth2,
    merkleTreeLeaf, timestampedEntry, vec, beEnc]

/-- The bytes the model signs are the SCT signature input of the shared RFC 6962 wire specification. -/
theorem sctSigInput_is_rfc (ts : Nat) (e : Entry) (ext : Bytes) (hts : ts < 2 ^ 64) (hw : e.wf) (hx : ext.length < 2 ^ 16) :
    Rfc.sctSigInput ⟨0, ts, toRfc e, ext⟩ = some (sctSigInput ts e ext) := by
  have h8 : ts < 256 ^ 8 := by omega
  have hg : 0 ≤ ext.length ∧ ext.length ≤ 65535 := ⟨by omega, by omega⟩
  simp [Rfc.sctSigInput, Rfc.uintN, h8, rfc_signedEntry e hw, Rfc.ctExtensions, Rfc.varVector, hg, lenWidth2, sctSigInput, vec, beEnc]

theorem rfc_concatAll : ∀ (cs : List Bytes), (∀ d ∈ cs, certOK d) → Rfc.concatAll Rfc.asn1Cert cs = some (cs.flatMap (vec 3))
  | [], _ => rfl
  | d :: cs, h => by
    have hd := h d (List.mem_cons_self ..)
    have hg : 1 ≤ d.length ∧ d.length ≤ 16777215 := ⟨hd.1, by have := hd.2; omega⟩
    simp [Rfc.concatAll, Rfc.asn1Cert, Rfc.varVector, hg, lenWidth3, rfc_concatAll cs (fun x hx => h x (List.mem_cons_of_mem _ hx)), vec]

/-- The extra data of an X.509 entry is the `certificate_chain` of the shared wire specification. -/
theorem encodeChain_is_rfc (cs : List Bytes) (b : Bytes) (h : encodeChain cs = some b) : Rfc.certChain cs = some b := by
  unfold encodeChain at h
  split at h
  · rename_i hc
    simp only [Option.some.injEq] at h
    subst h
    have hg : 0 ≤ (cs.flatMap (vec 3)).length ∧ (cs.flatMap (vec 3)).length ≤ 16777215 := ⟨by omega, by have := hc.2; omega⟩
    have hv : Rfc.varVector 0 16777215 (cs.flatMap (vec 3)) = some (certChain cs) := by
      unfold Rfc.varVector; rw [if_pos hg, lenWidth3]; rfl
    unfold Rfc.certChain
    rw [rfc_concatAll cs hc.1]
    exact hv
  · simp at h

end C01
