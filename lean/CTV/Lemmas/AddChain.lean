import CTV.Model.AddChain
/-!
Lemmas for C01: the RFC 6962 `MerkleTreeLeaf` layout decodes back to its fields, `QueueLeaf` on the
de-duplicating backend, and the state invariant of `addChain`.
-/
namespace C01
open CTV CTV.Model.AddChain

theorem readOpaque_vec (w : Nat) (b rest : Bytes) (h : b.length < 256 ^ w) : readOpaque w (vec w b ++ rest) = some (b, rest) := by
  unfold readOpaque vec
  have hl : (beEnc w b.length).length = w := beEnc_length _ _
  have h1 : ¬ (beEnc w b.length ++ b ++ rest).length < w := by simp [hl]
  have ht : (beEnc w b.length ++ b ++ rest).take w = beEnc w b.length := by
    rw [List.append_assoc]; exact take_append_len _ _ _ hl
  have hd : (beEnc w b.length ++ b ++ rest).drop w = b ++ rest := by
    rw [List.append_assoc]; exact drop_append_len _ _ _ hl
  simp only [h1, if_false, ht, hd, beDec_beEnc w _ h]
  have h2 : ¬ (b ++ rest).length < b.length := by simp
  simp [h2]

theorem decodeEntry_signedEntry (e : Entry) (rest : Bytes) (hw : e.wf) :
    decodeEntry e.type (e.signedEntry ++ rest) = some (e, rest) := by
  cases e with
  | x509 der =>
    obtain ⟨h1, h2⟩ := hw
    have : der.length < 256 ^ 3 := by omega
    have hn : ¬ der.length < 1 := by omega
    simp only [Entry.type, Entry.signedEntry, decodeEntry, if_true, readOpaque_vec 3 der rest this, hn, if_false]
  | precert ikh tbs =>
    obtain ⟨h0, h1, h2⟩ := hw
    have hlt : tbs.length < 256 ^ 3 := by omega
    simp only [Entry.type, Entry.signedEntry, decodeEntry, List.append_assoc]
    have hlen : ¬ (ikh ++ (vec 3 tbs ++ rest)).length < 32 := by
      rw [List.length_append, h0]; omega
    have hd := drop_append_len ikh (vec 3 tbs ++ rest) 32 h0
    have ht := take_append_len ikh (vec 3 tbs ++ rest) 32 h0
    have hn : ¬ tbs.length < 1 := by omega
    have h10 : ¬ ((1 : Nat) = 0) := by decide
    simp only [h10, if_false, if_true, hlen, hd, ht, readOpaque_vec 3 tbs rest hlt, hn]

/-- **Leaf round trip**: within the RFC's field ranges the `MerkleTreeLeaf` bytes decode to exactly the
fields they were built from (and nothing else is left over). -/
theorem decodeLeaf_merkleTreeLeaf (ts : Nat) (e : Entry) (ext : Bytes) (hts : ts < 2 ^ 64) (hw : e.wf) (hx : ext.length < 2 ^ 16) :
    decodeLeaf (merkleTreeLeaf ts e ext) = some (ts, e, ext) := by
  unfold merkleTreeLeaf timestampedEntry decodeLeaf
  have l8 : (beEnc 8 ts).length = 8 := beEnc_length _ _
  have l2 : (beEnc 2 e.type).length = 2 := beEnc_length _ _
  have htype : e.type < 256 ^ 2 := by cases e <;> simp [Entry.type]
  simp only [List.cons_append, List.nil_append]
  have hlen : ¬ (beEnc 8 ts ++ beEnc 2 e.type ++ e.signedEntry ++ vec 2 ext).length < 10 := by
    simp [l8, l2]; omega
  have t8 : (beEnc 8 ts ++ beEnc 2 e.type ++ e.signedEntry ++ vec 2 ext).take 8 = beEnc 8 ts := by
    rw [List.append_assoc, List.append_assoc]; exact take_append_len _ _ _ l8
  have d8 : (beEnc 8 ts ++ beEnc 2 e.type ++ e.signedEntry ++ vec 2 ext).drop 8 = beEnc 2 e.type ++ (e.signedEntry ++ vec 2 ext) := by
    rw [List.append_assoc, List.append_assoc]; exact drop_append_len _ _ _ l8
  have d10 : (beEnc 8 ts ++ beEnc 2 e.type ++ e.signedEntry ++ vec 2 ext).drop 10 = e.signedEntry ++ vec 2 ext := by
    have : (beEnc 8 ts ++ beEnc 2 e.type).length = 10 := by simp [l8, l2]
    rw [List.append_assoc]; exact drop_append_len _ _ _ this
  have t2 : (beEnc 2 e.type ++ (e.signedEntry ++ vec 2 ext)).take 2 = beEnc 2 e.type := take_append_len _ _ _ l2
  have hts' : ts < 256 ^ 8 := by omega
  have hx' : ext.length < 256 ^ 2 := by omega
  have hro := readOpaque_vec 2 ext [] hx'
  simp only [List.append_nil] at hro
  simp only [hlen, if_false, t8, d8, d10, t2, beDec_beEnc 8 ts hts', beDec_beEnc 2 _ htype, decodeEntry_signedEntry e _ hw, hro]

theorem encodeLeaf_some {ts : Nat} {e : Entry} {ext lv : Bytes} (h : encodeLeaf ts e ext = some lv) :
    ts < 2 ^ 64 ∧ e.wf ∧ ext.length < 2 ^ 16 ∧ lv = merkleTreeLeaf ts e ext := by
  unfold encodeLeaf at h
  split at h
  · rename_i hc
    simp at h
    exact ⟨hc.1, hc.2.1, hc.2.2, h.symm⟩
  · simp at h

/-! ### the de-duplicating backend -/

theorem find_some {st : State} {h : Bytes} {s : Stored} (hf : st.find h = some s) : s ∈ st ∧ s.idHash = h := by
  unfold State.find at hf
  exact ⟨List.mem_of_find?_eq_some hf, by simpa using List.find?_some hf⟩

theorem find_append_of_some {st : State} {h : Bytes} {s : Stored} (x : Stored) (hf : st.find h = some s) : State.find (st ++ [x]) h = some s := by
  unfold State.find at hf ⊢
  simp [List.find?_append, hf]

theorem find_append_of_none {st : State} (x : Stored) (hf : st.find x.idHash = none) : State.find (st ++ [x]) x.idHash = some x := by
  unfold State.find at hf ⊢
  simp [List.find?_append, hf]

/-- `QueueLeaf`: the returned leaf is the one now stored under the identity hash; a hash already known keeps its leaf. -/
theorem queueLeaf_spec (st : State) (q : Stored) :
    (queueLeaf st q).2.find q.idHash = some (queueLeaf st q).1 ∧
    ((st.find q.idHash = some (queueLeaf st q).1 ∧ (queueLeaf st q).2 = st) ∨
     (st.find q.idHash = none ∧ (queueLeaf st q).1 = q ∧ (queueLeaf st q).2 = st ++ [q])) := by
  unfold queueLeaf
  cases hf : st.find q.idHash with
  | some old => simp [hf]
  | none => simp [find_append_of_none q hf]

theorem queueLeaf_find_mono (st : State) (q : Stored) {h : Bytes} {s : Stored} (hf : st.find h = some s) :
    (queueLeaf st q).2.find h = some s := by
  rcases (queueLeaf_spec st q).2 with ⟨_, e⟩ | ⟨_, _, e⟩
  · rw [e]; exact hf
  · rw [e]; exact find_append_of_some q hf

/-! ### extra data -/

theorem decodeCerts_flatMap : ∀ (cs : List Bytes), (∀ d ∈ cs, certOK d) → decodeCerts cs.length (cs.flatMap (vec 3)) = some cs
  | [], _ => rfl
  | d :: cs, h => by
    have hd := h d (List.mem_cons_self ..)
    have hlt : d.length < 256 ^ 3 := by have := hd.2; omega
    simp only [List.length_cons, List.flatMap_cons, decodeCerts, readOpaque_vec 3 d _ hlt,
      decodeCerts_flatMap cs (fun x hx => h x (List.mem_cons_of_mem _ hx)), Option.map_some]

/-- The chain part of the extra data decodes back to exactly the certificates it was built from. -/
theorem encodeChain_decodes {cs : List Bytes} {b : Bytes} (h : encodeChain cs = some b) :
    b = certChain cs ∧ readOpaque 3 b = some (cs.flatMap (vec 3), []) ∧ decodeCerts cs.length (cs.flatMap (vec 3)) = some cs := by
  unfold encodeChain at h
  split at h
  · rename_i hc
    simp only [Option.some.injEq] at h
    subst h
    refine ⟨rfl, ?_, decodeCerts_flatMap cs hc.1⟩
    have := readOpaque_vec 3 (cs.flatMap (vec 3)) [] (by have := hc.2; omega)
    simpa [certChain] using this
  · simp at h

/-! ### one request -/

/-- The request clock in milliseconds, as the handler computes it (regenerated expression), is a uint64. -/
theorem timeMillis_lt (n : Int) : (Gen.timeMillis n).toNat < 2 ^ 64 := by
  unfold Gen.timeMillis U64.wrap
  omega

/-- Everything `addChain` does on the success path, spelled out. -/
theorem addChain_ok {cfg : Cfg} {st st' : State} {nowNanos : Int} {path : List Cert} {pre : Bool} {sct : Sct} {q : Stored}
    (h : addChain cfg st nowNanos path pre = (.ok sct q, st')) :
    ∃ leaf e e' extra, path[Gen.leafCertIdx]? = some leaf ∧ entryOf cfg path pre = some e ∧ e.wf ∧
      encodeExtra pre leaf.der ((path.drop Gen.extraFromIdx).map (·.der)) = some extra ∧
      q = ⟨cfg.H leaf.der, merkleTreeLeaf (Gen.timeMillis nowNanos).toNat e [], extra⟩ ∧
      st' = (queueLeaf st q).2 ∧
      decodeLeaf (queueLeaf st q).1.leafValue = some (sct.timestamp, e', sct.extensions) ∧
      sct.version = 0 ∧ sct.logID = cfg.H (cfg.K.spkiOf (cfg.K.pub cfg.k)) ∧
      sct.hashAlg = Gen.tlsSHA256.toNat ∧ sct.sigAlg = sigAlgOf (cfg.K.kind (cfg.K.pub cfg.k)) ∧
      sct.signedDigest = cfg.H (sctSigInput sct.timestamp e' sct.extensions) ∧ sct.signature = cfg.K.sign cfg.k sct.signedDigest := by
  unfold addChain at h
  dsimp only at h
  split at h
  · simp at h
  rename_i e he
  split at h
  · simp at h
  rename_i leaf hleaf
  split at h
  · rename_i lv extra hlv hex
    obtain ⟨_, hw, _, hlv'⟩ := encodeLeaf_some hlv
    subst hlv'
    split at h
    · simp at h
    rename_i ts e' ext hdec
    simp only [Prod.mk.injEq, Rsp.ok.injEq] at h
    obtain ⟨⟨hs, hq⟩, hst⟩ := h
    subst hs
    refine ⟨leaf, e, e', extra, hleaf, he, hw, hex, hq.symm, ?_, ?_, rfl, rfl, rfl, rfl, rfl, rfl⟩
    · rw [← hst, ← hq]
    · rw [← hq]; exact hdec
  · simp at h

/-- Stored leaves never change: whatever `addChain` answers, a leaf found under a hash before is found after. -/
theorem addChain_find_mono (cfg : Cfg) (st : State) (now : Int) (path : List Cert) (pre : Bool) {h : Bytes} {s : Stored}
    (hf : st.find h = some s) : (addChain cfg st now path pre).2.find h = some s := by
  unfold addChain
  dsimp only
  split
  · exact hf
  split
  · exact hf
  split
  · split <;> exact queueLeaf_find_mono _ _ hf
  · exact hf

/-- What ties a stored leaf to the history `U`: it is the `MerkleTreeLeaf`, at the clock value of one of the
submissions, of the entry of a submission whose leaf certificate hashes to the identity hash. -/
def StoredOK (cfg : Cfg) (U : List Submit) (s : Stored) : Prop :=
  ∃ sub ∈ U, ∃ l e, sub.path[Gen.leafCertIdx]? = some l ∧ s.idHash = cfg.H l.der ∧ entryOf cfg sub.path sub.isPrecert = some e ∧
    e.wf ∧ s.leafValue = merkleTreeLeaf (Gen.timeMillis sub.now).toNat e []

def Inv (cfg : Cfg) (U : List Submit) (st : State) : Prop := ∀ s ∈ st, StoredOK cfg U s

theorem addChain_inv {cfg : Cfg} {U : List Submit} {st : State} (hinv : Inv cfg U st) {sub : Submit} (hsub : sub ∈ U) :
    Inv cfg U (addChain cfg st sub.now sub.path sub.isPrecert).2 := by
  cases hr : addChain cfg st sub.now sub.path sub.isPrecert with
  | mk r st' =>
    unfold addChain at hr
    dsimp only at hr
    split at hr
    · simp at hr; rw [← hr.2]; exact hinv
    rename_i e he
    split at hr
    · simp at hr; rw [← hr.2]; exact hinv
    rename_i leaf hleaf
    split at hr
    · rename_i lv extra hlv hex
      obtain ⟨_, hw, _, hlv'⟩ := encodeLeaf_some hlv
      have hst : st' = (queueLeaf st ⟨cfg.H leaf.der, lv, extra⟩).2 := by
        split at hr <;> (simp only [Prod.mk.injEq] at hr; exact hr.2.symm)
      simp only
      rw [hst]
      rcases (queueLeaf_spec st ⟨cfg.H leaf.der, lv, extra⟩).2 with ⟨_, e2⟩ | ⟨_, _, e2⟩
      · rw [e2]; exact hinv
      · rw [e2]
        intro s hs
        rcases List.mem_append.1 hs with h1 | h1
        · exact hinv s h1
        · have : s = ⟨cfg.H leaf.der, lv, extra⟩ := by simpa using h1
          subst this
          exact ⟨sub, hsub, leaf, e, hleaf, rfl, he, hw, hlv'⟩
    · simp at hr; rw [← hr.2]; exact hinv

theorem run_inv (cfg : Cfg) (U : List Submit) : ∀ (hist : List Submit) (st : State), Inv cfg U st → (∀ x ∈ hist, x ∈ U) →
    Inv cfg U (run cfg st hist).2
  | [], _, h, _ => h
  | s :: rest, st, h, hu => by
    simp only [run]
    exact run_inv cfg U rest _ (addChain_inv h (hu s (List.mem_cons_self ..))) (fun x hx => hu x (List.mem_cons_of_mem _ hx))

theorem run_find_mono (cfg : Cfg) : ∀ (hist : List Submit) (st : State) {h : Bytes} {s : Stored}, st.find h = some s →
    (run cfg st hist).2.find h = some s
  | [], _, _, _, hf => hf
  | x :: rest, st, _, _, hf => by
    simp only [run]
    exact run_find_mono cfg rest _ (addChain_find_mono cfg st x.now x.path x.isPrecert hf)

end C01
