import CTV.Model.X509Wrap
/-! Helper lemmas for the coherence theorems of C11. -/
namespace CTV.Model.X509
open CTV CTV.Der

/-- `parseCertificate`'s own contract: a coherent pair whose error is nil, `NonFatalErrors` or an ordinary
(fatal) error — never an `*Errors` value. -/
def InnerOK (r : Ret) : Prop := Coherent r ∧ ∀ fs, r.err ≠ .errorsPtr fs

theorem finish_coherent (n : Nat) : Coherent (finish true n) := by
  unfold finish Coherent
  split <;> simp [isFatal]

theorem mergeInner_coherent (r : Ret) (n : Nat) (h : InnerOK r) : Coherent (mergeInner r n) := by
  obtain ⟨hc, hne⟩ := h
  unfold mergeInner
  cases he : r.err with
  | nil =>
    have : r.hasObj = true := by
      unfold Coherent at hc; rw [he] at hc; simp [isFatal] at hc; exact hc
    simp only [this]; exact finish_coherent n
  | nonFatalErrors k =>
    have : r.hasObj = true := by
      unfold Coherent at hc; rw [he] at hc; simp [isFatal] at hc; exact hc
    simp only [this]; exact finish_coherent (n + k)
  | plain => simp [Coherent, isFatal]
  | nonFatalErrorsPtr k => simp [Coherent, isFatal]
  | errorsPtr fs => exact absurd he (hne fs)

theorem innerAllR_coherent : ∀ (rs : List Ret) (n : Nat), (∀ r ∈ rs, InnerOK r) → Coherent (innerAllR rs n)
  | [], n, _ => by simp only [innerAllR]; exact finish_coherent n
  | r :: rs, n, h => by
    have hr := h r (List.mem_cons_self ..)
    have hrs : ∀ x ∈ rs, InnerOK x := fun x hx => h x (List.mem_cons_of_mem _ hx)
    simp only [innerAllR]
    cases he : r.err with
    | nil => exact innerAllR_coherent rs n hrs
    | nonFatalErrors k => exact innerAllR_coherent rs (n + k) hrs
    | plain => simp [Coherent, isFatal]
    | nonFatalErrorsPtr k => simp [Coherent, isFatal]
    | errorsPtr fs => exact absurd he (hr.2 fs)


end CTV.Model.X509
