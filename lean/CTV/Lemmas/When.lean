import Lean
/-!
`#when c => cmds… #end_when`: elaborate the commands only if the closed `Bool` term `c` reduces (in the kernel) to `true`.

Used by the two modules whose theorems are *false for the unchanged repository* because of a recorded finding
(`CTV.Props.C04SctList`, `CTV.Props.C09Width8`): the module must compile in the default `lake build` on every tree,
while the theorems must be demanded as soon as the finding is fixed.  The demand is made by the orchestrator: when the
module is listed in `PROPS` it reads the theorem names from the source text and requires `#print axioms` to report each
of them, so a skipped theorem is reported as a broken obligation, never as a pass.
-/
open Lean Elab Command Term

elab "#when " c:term " => " cmds:command* "#end_when" : command => do
  let b ← liftTermElabM do
    let e ← elabTermEnsuringType c (mkConst ``Bool)
    synthesizeSyntheticMVarsNoPostponing
    let e ← instantiateMVars e
    match Lean.Kernel.whnf (← getEnv) {} e with
    | .ok r => pure (r.isConstOf ``Bool.true)
    | .error _ => pure false
  if b then
    for cmd in cmds do elabCommand cmd
  else logInfo m!"#when: condition is false on this tree, {cmds.size} commands skipped"
