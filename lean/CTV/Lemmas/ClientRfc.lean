import CTV.Lemmas.ClientDec
import CTV.Rfc6962.Wire
/-! The hand-written TLS fragments of `CTV.Client` coincide with the RFC transcription `CTV/Rfc6962/Wire.lean`, which C04 ties
to the repository's regenerated struct tags (`Gen.ct_*`). -/
namespace CTV.Client
open CTV CTV.SigV
set_option linter.unusedSimpArgs false

theorem readUint_eq (w : Nat) (bs : Bytes) : readUint w bs = Rfc.takeUint w bs := by
  unfold readUint Rfc.takeUint
  by_cases h : bs.length < w
  · have : ¬ (w ≤ bs.length) := by omega
    simp [h, this]
  · have : w ≤ bs.length := by omega
    simp [h, this]

theorem readOpaque_eq (w lo hi : Nat) (hw : Rfc.lenWidth hi = w) (bs : Bytes) :
    readOpaque w lo hi bs = Rfc.takeVarVector lo hi bs := by
  unfold readOpaque Rfc.takeVarVector
  rw [hw, readUint_eq]
  cases Rfc.takeUint w bs with
  | none => rfl
  | some v =>
    obtain ⟨n, rest⟩ := v
    simp only
    by_cases h1 : n < lo ∨ n > hi
    · have : ¬ (lo ≤ n ∧ n ≤ hi) := by omega
      simp [h1, this]
    · have h1' : lo ≤ n ∧ n ≤ hi := by omega
      by_cases h2 : n > rest.length
      · have : ¬ (n ≤ rest.length) := by omega
        simp [h1, h1', h2, this]
      · have : n ≤ rest.length := by omega
        simp [h1, h1', h2, this]

theorem readArray_eq (n : Nat) (bs : Bytes) : readArray n bs = Rfc.takeFixed n bs := by
  unfold readArray Rfc.takeFixed
  by_cases h : bs.length < n
  · have : ¬ (n ≤ bs.length) := by omega
    simp [h, this]
  · have : n ≤ bs.length := by omega
    simp [h, this]

theorem readCerts_eq (f g : Nat) (bs : Bytes) (hf : bs.length ≤ f) (hg : bs.length ≤ g) :
    readCerts f bs = Rfc.splitAll Rfc.decAsn1Cert g bs := by
  induction f generalizing bs g with
  | zero =>
    rcases bs with _ | ⟨b, t⟩
    · cases g <;> simp [readCerts, Rfc.splitAll]
    · simp at hf
  | succ f ih =>
    rcases bs with _ | ⟨b, t⟩
    · cases g <;> simp [readCerts, Rfc.splitAll]
    · rcases g with _ | g
      · simp at hg
      · simp only [readCerts, Rfc.splitAll, Rfc.decAsn1Cert]
        rw [← readOpaque_eq 3 1 16777215 (by decide)]
        cases ho : readOpaque 3 1 16777215 (b :: t) with
        | none => rfl
        | some v =>
          obtain ⟨c, rest⟩ := v
          simp only
          have hs := (readOpaque_sound _ _ _ _ _ _ ho).1
          have hlen : rest.length < (b :: t).length := by
            have := congrArg List.length hs
            simp [writeOpaque, beEnc_length] at this
            simp; omega
          simp only [hlen, if_true]
          rw [ih (bs := rest) (g := g) (by simp at hf hlen; omega) (by simp at hg hlen; omega)]
          cases Rfc.splitAll Rfc.decAsn1Cert g rest <;> rfl


/-- the RFC transcription's result as the model's RawEntry -/
def ofRfc : Rfc.MerkleTreeLeaf × Rfc.ExtraData → RawEntry
  | (l, .x509 chain) =>
    (match l.entry.entry with
     | .x509 c => ⟨⟨l.version, l.entry.timestamp, .x509 c, l.entry.extensions⟩, c, chain⟩
     | .precert p => ⟨⟨l.version, l.entry.timestamp, .precert p.issuerKeyHash p.tbsCertificate, l.entry.extensions⟩, [], chain⟩)
  | (l, .precert e) =>
    (match l.entry.entry with
     | .x509 c => ⟨⟨l.version, l.entry.timestamp, .x509 c, l.entry.extensions⟩, e.preCertificate, e.chain⟩
     | .precert p => ⟨⟨l.version, l.entry.timestamp, .precert p.issuerKeyHash p.tbsCertificate, l.entry.extensions⟩, e.preCertificate, e.chain⟩)

theorem readCertVec_eq (bs : Bytes) : readCertVec bs = Rfc.decCertChain bs := by
  unfold readCertVec Rfc.decCertChain
  rw [← readOpaque_eq 3 0 16777215 (by decide)]
  cases readOpaque 3 0 16777215 bs with
  | none => rfl
  | some v =>
    obtain ⟨inner, rest⟩ := v
    simp only [bind, Option.bind]
    rw [← readCerts_eq inner.length (inner.length + 1) inner (Nat.le_refl _) (Nat.le_succ _)]
    cases readCerts inner.length inner <;> rfl


/-- the leaf decoder agrees with the RFC transcription on every input whose entry type RFC 6962 defines; for the
repository's extension type 0x8000 (`JSONDataEntry`) the model decodes the leaf and `rawLogEntryFromLeaf` refuses it later,
the transcription refuses it at once -/
theorem decLeaf_eq (bs : Bytes) :
    (match decLeaf bs with
     | some ⟨v, ts, .x509 c, x⟩ => some (⟨v, ⟨ts, .x509 c, x⟩⟩ : Rfc.MerkleTreeLeaf)
     | some ⟨v, ts, .precert i t, x⟩ => some ⟨v, ⟨ts, .precert ⟨i, t⟩, x⟩⟩
     | _ => none) = Rfc.complete (Rfc.decMerkleTreeLeaf bs) := by
  rcases bs with _ | ⟨v, _ | ⟨lt, rest⟩⟩
  · simp [decLeaf, Rfc.decMerkleTreeLeaf, Rfc.takeUint, Rfc.complete, bind, Option.bind]
  · simp [decLeaf, Rfc.decMerkleTreeLeaf, Rfc.takeUint, Rfc.complete, bind, Option.bind]
  have hv : Rfc.takeUint 1 (v :: lt :: rest) = some (v.toNat, lt :: rest) := by simp [Rfc.takeUint, beDec]
  have hl : Rfc.takeUint 1 (lt :: rest) = some (lt.toNat, rest) := by simp [Rfc.takeUint, beDec]
  simp only [decLeaf, Rfc.decMerkleTreeLeaf, hv, hl, bind, Option.bind]
  by_cases hlt : lt.toNat = 0
  · simp only [hlt, ne_eq, not_true_eq_false, if_false, if_true, Rfc.decTimestampedEntry, Rfc.decSignedEntry, bind, Option.bind,
      ← readUint_eq, ← readOpaque_eq 2 0 65535 (by decide)]
    cases h8 : readUint 8 rest with
    | none => simp [Rfc.complete]
    | some v8 =>
      obtain ⟨ts, r1⟩ := v8
      simp only
      cases h2 : readUint 2 r1 with
      | none => simp [Rfc.complete]
      | some v2 =>
        obtain ⟨et, r2⟩ := v2
        simp only [decLeafEntry, Rfc.decAsn1Cert, Rfc.decPreCert, bind, Option.bind, ← readOpaque_eq 3 1 16777215 (by decide), ← readArray_eq]
        by_cases e0 : et = 0
        · subst e0
          simp only [if_true]
          cases ho : readOpaque 3 1 16777215 r2 with
          | none => simp [Rfc.complete]
          | some vo =>
            obtain ⟨c, r3⟩ := vo
            simp only [pure]
            cases hx : readOpaque 2 0 65535 r3 with
            | none => simp [Rfc.complete]
            | some vx =>
              obtain ⟨x, r4⟩ := vx
              rcases r4 with _ | ⟨y, r4'⟩ <;> simp [Rfc.complete]
        · by_cases e1 : et = 1
          · subst e1
            simp only [e0, if_false, if_true, show ¬ ((1:Nat) = 0) by decide]
            cases ha : readArray 32 r2 with
            | none => simp [Rfc.complete]
            | some va =>
              obtain ⟨ikh, r3⟩ := va
              simp only
              cases ho : readOpaque 3 1 16777215 r3 with
              | none => simp [Rfc.complete]
              | some vo =>
                obtain ⟨t, r4⟩ := vo
                simp only [pure]
                cases hx : readOpaque 2 0 65535 r4 with
                | none => simp [Rfc.complete]
                | some vx =>
                  obtain ⟨x, r5⟩ := vx
                  rcases r5 with _ | ⟨y, r5'⟩ <;> simp [Rfc.complete]
          · simp only [e0, e1, if_false]
            by_cases e2 : et = 32768
            · simp only [e2, if_true]
              cases ho : readOpaque 3 0 1677215 r2 with
              | none => simp [Rfc.complete]
              | some vo =>
                obtain ⟨d, r3⟩ := vo
                simp only
                cases hx : readOpaque 2 0 65535 r3 with
                | none => simp [Rfc.complete]
                | some vx =>
                  obtain ⟨x, r4⟩ := vx
                  rcases r4 with _ | ⟨y, r4'⟩ <;> simp [Rfc.complete]
            · simp [e2, Rfc.complete]
  · simp [hlt, Rfc.complete]


/-- **the client's entry decoder is the RFC 6962 §4.6 decoder**: on every `leaf_input` / `extra_data` the hand-written
`rawLogEntryFromLeaf` returns what the RFC transcription `Rfc.decLogEntry` returns (complete parses of both parts, entry types
x509_entry and precert_entry only) — and C04 (`rawLogEntry_of_rfc`, `rawLogEntry_complete`, `rawLogEntry_types`) ties that
transcription to the repository's regenerated struct tags. -/
theorem rawLogEntryFromLeaf_eq_rfc (li xd : Bytes) :
    rawLogEntryFromLeaf li xd = (Rfc.decLogEntry li xd).map ofRfc := by
  have hl := decLeaf_eq li
  unfold rawLogEntryFromLeaf Rfc.decLogEntry
  simp only [bind, Option.bind]
  cases hd : decLeaf li with
  | none =>
    rw [hd] at hl
    simp only at hl
    rw [← hl]
    rfl
  | some leaf =>
    obtain ⟨v, ts, ent, x⟩ := leaf
    rw [hd] at hl
    cases ent with
    | json d =>
      simp only at hl
      rw [← hl]
      rfl
    | x509 c =>
      simp only at hl
      rw [← hl]
      simp only [readCertVec_eq]
      cases hc : Rfc.decCertChain xd with
      | none => simp [Rfc.complete]
      | some vc =>
        obtain ⟨chain, r⟩ := vc
        rcases r with _ | ⟨y, r'⟩ <;> simp [Rfc.complete, ofRfc, pure]
    | precert i t =>
      simp only at hl
      rw [← hl]
      simp only [Rfc.decPrecertChainEntry, Rfc.decAsn1Cert, bind, Option.bind, ← readOpaque_eq 3 1 16777215 (by decide), ← readCertVec_eq]
      cases ho : readOpaque 3 1 16777215 xd with
      | none => simp [Rfc.complete]
      | some vo =>
        obtain ⟨pre, r⟩ := vo
        simp only
        cases hc : readCertVec r with
        | none => simp [Rfc.complete]
        | some vc =>
          obtain ⟨chain, r2⟩ := vc
          rcases r2 with _ | ⟨y, r2'⟩ <;> simp [Rfc.complete, ofRfc, pure]


/-- `tls.Unmarshal(b, &DigitallySigned)` with nothing left over = the RFC 5246 §4.7 transcription (tied to the tags by C04 `dec_digitallySigned`) -/
theorem dsExact_eq_rfc (bs : Bytes) :
    dsExact bs = (Rfc.complete (Rfc.decDigitallySigned bs)).map fun d => (⟨d.hash, d.sigAlg, d.signature⟩ : DigitallySigned) := by
  unfold dsExact dsDecode Rfc.decDigitallySigned
  rcases bs with _ | ⟨h, _ | ⟨a, rest⟩⟩
  · simp [Rfc.takeUint, Rfc.complete, bind, Option.bind]
  · simp [Rfc.takeUint, Rfc.complete, bind, Option.bind]
  have hv : Rfc.takeUint 1 (h :: a :: rest) = some (h.toNat, a :: rest) := by simp [Rfc.takeUint, beDec]
  have hl : Rfc.takeUint 1 (a :: rest) = some (a.toNat, rest) := by simp [Rfc.takeUint, beDec]
  simp only [hv, hl, bind, Option.bind, ← readOpaque_eq 2 0 65535 (by decide)]
  cases ho : readOpaque 2 0 65535 rest with
  | none => simp [Rfc.complete]
  | some v =>
    obtain ⟨sig, r⟩ := v
    rcases r with _ | ⟨y, r'⟩ <;> simp [Rfc.complete, pure]

end CTV.Client
