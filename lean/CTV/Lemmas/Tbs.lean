import CTV.Model.Tbs
import CTV.Lemmas.Tlv
import CTV.Lemmas.RfcWire
/-!
Round-trip lemmas for the TBSCertificate model: `parseTbs` and `marshalTbs` are inverse on canonical
TBSCertificates; the list surgery of `removeExtension` / `BuildPrecertTBS`; preservation of `wf`.
-/
set_option linter.unusedSimpArgs false
set_option linter.unusedVariables false
namespace CTV.Tbs

/-! ### one extension -/

theorem validTag_06 : validTag [0x06] = true := by decide
theorem validTag_04 : validTag [0x04] = true := by decide
theorem validTag_01 : validTag [0x01] = true := by decide
theorem validTag_30 : validTag [0x30] = true := by decide
theorem validTag_a3 : validTag [0xa3] = true := by decide
theorem boolTrue_ok : boolTrue.ok = true := by decide

theorem tlvsOfExt_ok (e : Ext) (h : e.sized = true) : ∀ t ∈ tlvsOfExt e, t.ok = true := by
  simp only [Ext.sized, Bool.and_eq_true, decide_eq_true_eq] at h
  obtain ⟨⟨h1, h2⟩, _⟩ := h
  intro t ht
  unfold tlvsOfExt at ht
  split at ht
  · simp at ht
    rcases ht with rfl | rfl | rfl
    · simp [Tlv.ok, validTag_06, h1]
    · exact boolTrue_ok
    · simp [Tlv.ok, validTag_04, h2]
  · simp at ht
    rcases ht with rfl | rfl
    · simp [Tlv.ok, validTag_06, h1]
    · simp [Tlv.ok, validTag_04, h2]

theorem extOfTlvs_tlvsOfExt (e : Ext) : extOfTlvs (tlvsOfExt e) = some e := by
  obtain ⟨o, c, v⟩ := e
  cases c <;> simp [tlvsOfExt, extOfTlvs]

theorem extOfTlvs_eq {ts : List Tlv} {e : Ext} (h : extOfTlvs ts = some e) : ts = tlvsOfExt e := by
  unfold extOfTlvs at h
  split at h
  · rename_i o v
    split at h
    · rename_i hc; simp at h; subst h
      obtain ⟨ot, ov⟩ := o; obtain ⟨vt, vv⟩ := v
      simp at hc; obtain ⟨rfl, rfl⟩ := hc
      simp [tlvsOfExt]
    · simp at h
  · rename_i o c v
    split at h
    · rename_i hc; simp at h; subst h
      obtain ⟨ot, ov⟩ := o; obtain ⟨vt, vv⟩ := v
      simp at hc; obtain ⟨rfl, rfl, rfl⟩ := hc
      simp [tlvsOfExt]
    · simp at h
  · simp at h

theorem encExt_ok (e : Ext) (h : e.sized = true) : (encExt e).ok = true := by
  simp only [Ext.sized, Bool.and_eq_true, decide_eq_true_eq] at h
  simp [Tlv.ok, encExt, validTag_30, h.2]

theorem parseExt_encExt (e : Ext) (h : e.sized = true) : parseExt (encExt e) = some e := by
  simp only [parseExt, encExt, if_true]
  rw [splitTlvs_concat _ (tlvsOfExt_ok e h)]
  exact extOfTlvs_tlvsOfExt e

theorem parseExt_eq {t : Tlv} {e : Ext} (h : parseExt t = some e) (hok : t.ok = true) :
    t = encExt e ∧ e.sized = true := by
  unfold parseExt at h
  split at h
  · rename_i htag
    cases hs : splitTlvs t.val with
    | none => simp [hs] at h
    | some ts =>
      simp only [hs] at h
      have he := extOfTlvs_eq h
      obtain ⟨h1, h2⟩ := splitTlvs_eq hs
      subst he
      obtain ⟨tt, tv⟩ := t
      simp at htag h1; subst htag; subst h1
      refine ⟨rfl, ?_⟩
      simp only [Tlv.ok, Bool.and_eq_true, decide_eq_true_eq] at hok
      have ho : (⟨[0x06], e.oid⟩ : Tlv).ok = true := h2 _ (by unfold tlvsOfExt; split <;> simp)
      have hv : (⟨[0x04], e.val⟩ : Tlv).ok = true := h2 _ (by unfold tlvsOfExt; split <;> simp)
      simp only [Tlv.ok, Bool.and_eq_true, decide_eq_true_eq] at ho hv
      simp [Ext.sized, ho.2, hv.2, hok.2]
  · simp at h

/-! ### the extension list -/

theorem parseExts_map (es : List Ext) (h : ∀ e ∈ es, e.sized = true) : parseExts (es.map encExt) = some es := by
  induction es with
  | nil => rfl
  | cons e es ih =>
    simp only [List.map_cons, parseExts]
    rw [parseExt_encExt e (h e (by simp)), ih (fun x hx => h x (by simp [hx]))]

theorem parseExts_eq {ts : List Tlv} {es : List Ext} (h : parseExts ts = some es) (hok : ∀ t ∈ ts, t.ok = true) :
    ts = es.map encExt ∧ ∀ e ∈ es, e.sized = true := by
  induction ts generalizing es with
  | nil => simp [parseExts] at h; subst h; simp
  | cons t ts ih =>
    simp only [parseExts] at h
    cases hp : parseExt t with
    | none => simp [hp] at h
    | some e =>
      simp only [hp] at h
      cases hr : parseExts ts with
      | none => simp [hr] at h
      | some r =>
        simp only [hr] at h
        simp at h; subst h
        obtain ⟨h1, h2⟩ := parseExt_eq hp (hok t (by simp))
        obtain ⟨h3, h4⟩ := ih hr (fun x hx => hok x (by simp [hx]))
        refine ⟨by simp [← h1, ← h3], ?_⟩
        intro x hx
        simp at hx
        rcases hx with rfl | hx
        · exact h2
        · exact h4 x hx

theorem encExts_ok (es : List Ext) (h : ∀ e ∈ es, e.sized = true) : ∀ t ∈ es.map encExt, t.ok = true := by
  intro t ht
  simp at ht
  obtain ⟨e, he, rfl⟩ := ht
  exact encExt_ok e (h e he)

theorem extsOk_sized {es : List Ext} (h : extsOk es = true) : ∀ e ∈ es, e.sized = true := by
  simp only [extsOk, Bool.and_eq_true, List.all_eq_true, decide_eq_true_eq] at h
  intro e he
  have := h.1.1 e he
  simp only [Ext.ok, Bool.and_eq_true] at this
  exact this.2

theorem extsField_ok {es : List Ext} (h : extsOk es = true) : (extsField es).ok = true := by
  simp only [extsOk, Bool.and_eq_true, decide_eq_true_eq] at h
  simp [Tlv.ok, extsField, validTag_a3, h.2]

theorem parseExtsField_extsField (es : List Ext) (h : extsOk es = true) : parseExtsField (extsField es) = some es := by
  have hs := extsOk_sized h
  simp only [extsOk, Bool.and_eq_true, decide_eq_true_eq] at h
  have hin : (⟨[0x30], encExts es⟩ : Tlv).ok = true := by simp [Tlv.ok, validTag_30, h.1.2]
  simp only [parseExtsField, extsField]
  rw [parseOne_encTlv _ hin]
  simp only [if_true, encExts]
  rw [splitTlvs_concat _ (encExts_ok es hs)]
  exact parseExts_map es hs

theorem parseExtsField_eq {x : Tlv} {es : List Ext} (hx : x.tag = [0xa3]) (hxo : x.ok = true)
    (h : parseExtsField x = some es) : x = extsField es ∧ (∀ e ∈ es, e.sized = true) := by
  unfold parseExtsField at h
  cases ho : parseOne x.val with
  | none => simp [ho] at h
  | some s =>
    simp only [ho] at h
    split at h
    · rename_i hs
      cases hsp : splitTlvs s.val with
      | none => simp [hsp] at h
      | some ts =>
        simp only [hsp] at h
        obtain ⟨h1, h2⟩ := parseOne_eq ho
        obtain ⟨h3, h4⟩ := splitTlvs_eq hsp
        obtain ⟨h5, h6⟩ := parseExts_eq h h4
        refine ⟨?_, h6⟩
        obtain ⟨xt, xv⟩ := x
        obtain ⟨st, sv⟩ := s
        simp at hx hs h1 h3; subst hx; subst hs; subst h1; subst h3; subst h5
        rfl
    · simp at h

/-! ### `popTag` and the field list -/

theorem popTag_eq (tag : Bytes) (l : List Tlv) : optList (popTag tag l).1 ++ (popTag tag l).2 = l := by
  cases l with
  | nil => rfl
  | cons t l => simp only [popTag]; split <;> simp [optList]

theorem popTag_some {tag : Bytes} {l : List Tlv} {x : Tlv} (h : (popTag tag l).1 = some x) : x.tag = tag := by
  cases l with
  | nil => simp [popTag] at h
  | cons t l =>
    simp only [popTag] at h
    split at h
    · rename_i ht; simp at h; subst h; exact ht
    · simp at h

theorem popTag_hit (tag : Bytes) (x : Tlv) (l : List Tlv) (h : x.tag = tag) : popTag tag (x :: l) = (some x, l) := by
  simp [popTag, h]

theorem popTag_miss (tag : Bytes) (x : Tlv) (l : List Tlv) (h : x.tag ≠ tag) : popTag tag (x :: l) = (none, x :: l) := by
  simp [popTag, h]

/-- what `matchFields` needs to recognise the fields of `t` again: the tags that tell the optional fields apart -/
structure Tbs.Shape (t : Tbs) : Prop where
  version : ∀ v, t.version = some v → v.tag = [0xa0]
  serial : t.serial.tag = [0x02]
  uid : ∀ u, t.uid = some u → u.tag = [0x81]
  suid : ∀ u, t.suid = some u → u.tag = [0x82]
  exts : ∀ es, t.exts = some es → extsOk es = true

theorem matchFields_fields (t : Tbs) (h : t.Shape) : matchFields t.fields = some t := by
  obtain ⟨ver, serial, sigAlg, issuer, validity, subject, spki, uid, suid, exts⟩ := t
  obtain ⟨hv, hs, hu, hsu, he⟩ := h
  simp only at hv hs hu hsu he
  have e1 : (popTag [0xa0] (Tbs.fields ⟨ver, serial, sigAlg, issuer, validity, subject, spki, uid, suid, exts⟩)) =
      (ver, [serial, sigAlg, issuer, validity, subject, spki] ++ (optList uid ++ optList suid) ++ optList (exts.map extsField)) := by
    cases ver with
    | none =>
      simp only [Tbs.fields, Tbs.pre, optList, List.nil_append, List.cons_append]
      rw [popTag_miss]; rw [hs]; decide
    | some v =>
      simp only [Tbs.fields, Tbs.pre, optList, List.cons_append, List.nil_append]
      rw [popTag_hit _ _ _ (hv v rfl)]
  have e2 : popTag [0x81] ((optList uid ++ optList suid) ++ optList (exts.map extsField)) =
      (uid, optList suid ++ optList (exts.map extsField)) := by
    cases uid with
    | some u => simp only [optList, List.cons_append, List.nil_append]; rw [popTag_hit _ _ _ (hu u rfl)]
    | none =>
      cases suid with
      | some s =>
        simp only [optList, List.cons_append, List.nil_append]
        rw [popTag_miss]; rw [hsu s rfl]; decide
      | none =>
        cases exts with
        | none => rfl
        | some es =>
          simp only [optList, Option.map, List.nil_append]
          rw [popTag_miss]; simp [extsField]
  have e3 : popTag [0x82] (optList suid ++ optList (exts.map extsField)) = (suid, optList (exts.map extsField)) := by
    cases suid with
    | some s => simp only [optList, List.cons_append, List.nil_append]; rw [popTag_hit _ _ _ (hsu s rfl)]
    | none =>
      cases exts with
      | none => rfl
      | some es =>
        simp only [optList, Option.map, List.nil_append]
        rw [popTag_miss]; simp [extsField]
  unfold matchFields
  rw [e1]
  simp only [List.cons_append, List.nil_append]
  rw [e2]
  simp only
  rw [e3]
  simp only
  cases exts with
  | none => simp [matchTail, optList]
  | some es =>
    simp only [optList, Option.map, matchTail]
    have : (extsField es).tag = [0xa3] := rfl
    simp only [this, if_true]
    rw [parseExtsField_extsField es (he es rfl)]

theorem matchTail_eq {t t' : Tbs} {l : List Tlv} (hl : ∀ x ∈ l, x.ok = true) (hn : t.exts = none)
    (h : matchTail t l = some t') :
    t'.pre = t.pre ∧ optList (t'.exts.map extsField) = l ∧ (∀ es, t'.exts = some es → ∀ e ∈ es, e.sized = true) := by
  unfold matchTail at h
  split at h
  · simp at h; subst h; simp [hn, optList]
  · rename_i x
    split at h
    · rename_i hx
      cases hp : parseExtsField x with
      | none => simp [hp] at h
      | some es =>
        simp only [hp] at h
        simp at h; subst h
        obtain ⟨h1, h2⟩ := parseExtsField_eq hx (hl x (by simp)) hp
        refine ⟨rfl, by simp [optList, h1], ?_⟩
        intro es' hes'; simp at hes'; subst hes'; exact h2
    · simp at h
  · simp at h

theorem matchFields_eq {l : List Tlv} {t : Tbs} (hl : ∀ x ∈ l, x.ok = true) (h : matchFields l = some t) :
    t.fields = l := by
  unfold matchFields at h
  have p1 := popTag_eq [0xa0] l
  generalize hp1 : popTag [0xa0] l = q1 at *
  obtain ⟨ver, l1⟩ := q1
  simp only at h p1
  split at h
  · rename_i _ serial sigAlg issuer validity subject spki l2
    have p2 := popTag_eq [0x81] l2
    generalize hp2 : popTag [0x81] l2 = q2 at *
    obtain ⟨uid, l3⟩ := q2
    simp only at h p2
    have p3 := popTag_eq [0x82] l3
    generalize hp3 : popTag [0x82] l3 = q3 at *
    obtain ⟨suid, l4⟩ := q3
    simp only at h p3
    have hl4 : ∀ x ∈ l4, x.ok = true := by
      intro x hx
      apply hl
      rw [← p1, ← p2, ← p3]
      simp [hx]
    obtain ⟨h1, h2, _⟩ := matchTail_eq hl4 rfl h
    rw [Tbs.fields, h1, h2]
    simp only [Tbs.pre]
    rw [← p1, ← p2, ← p3]
    simp
  · simp at h

/-! ### the whole TBSCertificate -/

theorem wf_parts {t : Tbs} (h : t.wf = true) :
    optAll versionOk t.version = true ∧ serialOk t.serial = true ∧ algIdCanon t.sigAlg = true ∧ t.issuer.ok = true ∧
    validityOk t.validity = true ∧ t.subject.ok = true ∧ spkiOk t.spki = true ∧ optAll (uidOk 0x81) t.uid = true ∧
    optAll (uidOk 0x82) t.suid = true ∧ optAll extsOk t.exts = true ∧ (concatTlvs t.fields).length < 2 ^ 31 := by
  simp only [Tbs.wf, Bool.and_eq_true, decide_eq_true_eq] at h
  obtain ⟨⟨⟨⟨⟨⟨⟨⟨⟨⟨h1, h2⟩, h3⟩, h4⟩, h5⟩, h6⟩, h7⟩, h8⟩, h9⟩, h10⟩, h11⟩ := h
  exact ⟨h1, h2, h3, h4, h5, h6, h7, h8, h9, h10, h11⟩

theorem wf_of_parts {t : Tbs}
    (h : optAll versionOk t.version = true ∧ serialOk t.serial = true ∧ algIdCanon t.sigAlg = true ∧ t.issuer.ok = true ∧
    validityOk t.validity = true ∧ t.subject.ok = true ∧ spkiOk t.spki = true ∧ optAll (uidOk 0x81) t.uid = true ∧
    optAll (uidOk 0x82) t.suid = true ∧ optAll extsOk t.exts = true ∧ (concatTlvs t.fields).length < 2 ^ 31) : t.wf = true := by
  obtain ⟨h1, h2, h3, h4, h5, h6, h7, h8, h9, h10, h11⟩ := h
  simp [Tbs.wf, h1, h2, h3, h4, h5, h6, h7, h8, h9, h10, h11]

theorem wf_shape {t : Tbs} (h : t.wf = true) : t.Shape := by
  obtain ⟨h1, h2, _, _, _, _, _, h8, h9, h10, _⟩ := wf_parts h
  refine ⟨?_, ?_, ?_, ?_, ?_⟩
  · intro v hv; rw [hv] at h1
    simp only [optAll, versionOk, Bool.and_eq_true, beq_iff_eq] at h1
    exact h1.1.2
  · simp only [serialOk, Bool.and_eq_true, beq_iff_eq] at h2; exact h2.1.2
  · intro u hu; rw [hu] at h8
    simp only [optAll, uidOk, Bool.and_eq_true, beq_iff_eq] at h8; exact h8.1.2
  · intro u hu; rw [hu] at h9
    simp only [optAll, uidOk, Bool.and_eq_true, beq_iff_eq] at h9; exact h9.1.2
  · intro es hes; rw [hes] at h10; exact h10

theorem wf_fields_ok {t : Tbs} (h : t.wf = true) : ∀ x ∈ t.fields, x.ok = true := by
  obtain ⟨h1, h2, h3, h4, h5, h6, h7, h8, h9, h10, _⟩ := wf_parts h
  intro x hx
  simp only [Tbs.fields, Tbs.pre, List.mem_append, List.mem_cons, List.not_mem_nil, or_false] at hx
  rcases hx with ((hx | hx) | hx) | hx
  · cases hv : t.version with
    | none => simp [hv, optList] at hx
    | some v =>
      simp [hv, optList] at hx; subst hx
      rw [hv] at h1; simp only [optAll, versionOk, Bool.and_eq_true] at h1; exact h1.1.1
  · rcases hx with rfl | rfl | rfl | rfl | rfl | rfl
    · simp only [serialOk, Bool.and_eq_true] at h2; exact h2.1.1
    · simp only [algIdCanon, Bool.and_eq_true] at h3; exact h3.1.1
    · exact h4
    · simp only [validityOk, Bool.and_eq_true] at h5; exact h5.1.1
    · exact h6
    · simp only [spkiOk, Bool.and_eq_true] at h7; exact h7.1.1
  · rcases hx with hx | hx
    · cases hv : t.uid with
      | none => simp [hv, optList] at hx
      | some v =>
        simp [hv, optList] at hx; subst hx
        rw [hv] at h8; simp only [optAll, uidOk, Bool.and_eq_true] at h8; exact h8.1.1
    · cases hv : t.suid with
      | none => simp [hv, optList] at hx
      | some v =>
        simp [hv, optList] at hx; subst hx
        rw [hv] at h9; simp only [optAll, uidOk, Bool.and_eq_true] at h9; exact h9.1.1
  · cases hv : t.exts with
    | none => simp [hv, optList] at hx
    | some es =>
      simp [hv, optList] at hx; subst hx
      rw [hv] at h10; exact extsField_ok h10

theorem parseTbsRaw_marshal (t : Tbs) (h : t.wf = true) : parseTbsRaw (marshalTbs t) = some t := by
  have hsz := (wf_parts h).2.2.2.2.2.2.2.2.2.2
  have ho : (⟨[0x30], concatTlvs t.fields⟩ : Tlv).ok = true := by simp [Tlv.ok, validTag_30, hsz]
  simp only [parseTbsRaw, marshalTbs]
  rw [parseOne_encTlv _ ho]
  simp only [if_true]
  rw [splitTlvs_concat _ (wf_fields_ok h)]
  exact matchFields_fields t (wf_shape h)

theorem parseTbsRaw_eq {bs : Bytes} {t : Tbs} (h : parseTbsRaw bs = some t) : marshalTbs t = bs := by
  unfold parseTbsRaw at h
  cases ho : parseOne bs with
  | none => simp [ho] at h
  | some o =>
    simp only [ho] at h
    split at h
    · rename_i htag
      cases hs : splitTlvs o.val with
      | none => simp [hs] at h
      | some l =>
        simp only [hs] at h
        obtain ⟨h1, _⟩ := parseOne_eq ho
        obtain ⟨h3, h4⟩ := splitTlvs_eq hs
        have h5 := matchFields_eq h4 h
        obtain ⟨ot, ov⟩ := o
        simp at htag h3; subst htag; subst h3
        rw [marshalTbs, h5, h1]
    · simp at h

theorem parseTbs_marshal (t : Tbs) (h : t.wf = true) : parseTbs (marshalTbs t) = some t := by
  simp [parseTbs, parseTbsRaw_marshal t h, h]

theorem parseTbs_eq {bs : Bytes} {t : Tbs} (h : parseTbs bs = some t) : marshalTbs t = bs ∧ t.wf = true := by
  unfold parseTbs at h
  cases hr : parseTbsRaw bs with
  | none => simp [hr] at h
  | some t' =>
    simp only [hr] at h
    split at h
    · rename_i hw; simp at h; subst h; exact ⟨parseTbsRaw_eq hr, hw⟩
    · simp at h

/-- canonical encodings are unique -/
theorem marshalTbs_inj {a b : Tbs} (ha : a.wf = true) (hb : b.wf = true) (h : marshalTbs a = marshalTbs b) : a = b := by
  have h1 := parseTbs_marshal a ha
  have h2 := parseTbs_marshal b hb
  rw [h] at h1; rw [h1] at h2; exact Option.some.inj h2

/-! ### `removeOne` -/

theorem hasOid_false {oid : Bytes} {es : List Ext} : hasOid oid es = false ↔ ∀ e ∈ es, e.oid ≠ oid := by
  simp [hasOid]

theorem countOid_cons (oid : Bytes) (e : Ext) (es : List Ext) :
    countOid oid (e :: es) = (if e.oid = oid then 1 else 0) + countOid oid es := by
  simp only [countOid, List.filter_cons]
  split <;> rename_i h
  · simp at h; simp [h]; omega
  · simp at h; simp [h]

theorem countOid_zero {oid : Bytes} {es : List Ext} : countOid oid es = 0 ↔ hasOid oid es = false := by
  induction es with
  | nil => simp [countOid, hasOid]
  | cons e es ih =>
    rw [countOid_cons]
    simp only [hasOid, List.any_cons, Bool.or_eq_false_iff] at ih ⊢
    by_cases h : e.oid = oid
    · simp [h]
    · simp [h, ih]

theorem countOid_append (oid : Bytes) (a b : List Ext) : countOid oid (a ++ b) = countOid oid a + countOid oid b := by
  simp [countOid]

theorem removeOne_mid (oid : Bytes) (A B : List Ext) (x : Ext) (hx : x.oid = oid)
    (hA : ∀ e ∈ A, e.oid ≠ oid) (hB : ∀ e ∈ B, e.oid ≠ oid) : removeOne oid (A ++ x :: B) = some (A ++ B) := by
  induction A with
  | nil => simp [removeOne, hx, hasOid_false.mpr hB]
  | cons a A ih =>
    have ha : a.oid ≠ oid := hA a (by simp)
    simp only [List.cons_append, removeOne, ha, if_false]
    rw [ih (fun e he => hA e (by simp [he]))]

theorem removeOne_spec {oid : Bytes} {es r : List Ext} (h : removeOne oid es = some r) :
    ∃ A x B, es = A ++ x :: B ∧ r = A ++ B ∧ x.oid = oid ∧ (∀ e ∈ A, e.oid ≠ oid) ∧ (∀ e ∈ B, e.oid ≠ oid) := by
  induction es generalizing r with
  | nil => simp [removeOne] at h
  | cons e es ih =>
    simp only [removeOne] at h
    split at h
    · rename_i he
      split at h
      · simp at h
      · rename_i hh
        simp at h; subst h
        refine ⟨[], e, es, rfl, rfl, he, by simp, ?_⟩
        exact hasOid_false.mp (by simpa using hh)
    · rename_i he
      cases hr : removeOne oid es with
      | none => simp [hr] at h
      | some r' =>
        simp only [hr] at h
        simp at h; subst h
        obtain ⟨A, x, B, h1, h2, h3, h4, h5⟩ := ih hr
        refine ⟨e :: A, x, B, by simp [h1], by simp [h2], h3, ?_, h5⟩
        intro y hy
        simp at hy
        rcases hy with rfl | hy
        · exact he
        · exact h4 y hy

theorem removeOne_isSome_iff (oid : Bytes) (es : List Ext) : (removeOne oid es).isSome = true ↔ countOid oid es = 1 := by
  induction es with
  | nil => simp [removeOne, countOid]
  | cons e es ih =>
    rw [countOid_cons]
    simp only [removeOne]
    by_cases he : e.oid = oid
    · simp only [he, if_true]
      cases hh : hasOid oid es with
      | true =>
        have : countOid oid es ≠ 0 := by
          intro hc; rw [countOid_zero.mp hc] at hh; exact absurd hh (by simp)
        simp; omega
      | false =>
        have := countOid_zero.mpr hh
        simp [this]
    · simp only [he, if_false]
      cases hr : removeOne oid es with
      | none => simp [hr] at ih; simp; exact ih
      | some r => simp [hr] at ih; simp [ih]

theorem removeOne_none_iff (oid : Bytes) (es : List Ext) : removeOne oid es = none ↔ countOid oid es ≠ 1 := by
  have := removeOne_isSome_iff oid es
  cases hr : removeOne oid es <;> simp [hr] at this ⊢ <;> omega

/-! ### the regenerated loop computes `removeOne` -/

/-- relative index of the single extension with `oid` -/
def idxOne (oid : Bytes) : List Ext → Option Nat
  | [] => none
  | e :: es =>
    if e.oid = oid then (if hasOid oid es then none else some 0)
    else (idxOne oid es).map (· + 1)

theorem removeOne_eq_idx (oid : Bytes) (es : List Ext) :
    removeOne oid es = (idxOne oid es).map (fun k => es.take k ++ es.drop (k + 1)) := by
  induction es with
  | nil => rfl
  | cons e es ih =>
    simp only [removeOne, idxOne]
    split
    · split <;> simp
    · rw [ih]
      cases idxOne oid es <;> simp

theorem neg_one_eq : I64.neg (1 : Int) = -1 := by decide

/-! What the regenerated loop body does, in three facts. They are proved by splitting the regenerated `if`s and closing the
arithmetic with `omega`, so an equivalent rewrite of the test (`extAt >= 0`) re-proves while a different test does not; everything
below uses only these three facts. -/

/-- closes the goals left after unfolding the regenerated loop body and splitting its `if`s, whatever their nesting
(`if m { if set {err}; … }`, `if !m { continue }; if set {err}; …`) and whichever equivalent test is used for "already set" -/
macro "loop_fact" : tactic => `(tactic| (
  unfold Gen.removeExtensionStep
  simp only [neg_one_eq, Bool.not_true, Bool.not_false, Bool.false_eq_true, if_true, if_false]
  repeat' split
  all_goals first
    | rfl
    | (exfalso; simp only [decide_eq_true_eq, Bool.not_eq_true', Bool.false_eq_true, decide_eq_false_iff_not] at *; omega)))

/-- a match after an index has been recorded: the "multiple extensions" error -/
theorem step_found (a i : Int) (ha : 0 ≤ a) : Gen.removeExtensionStep a i true = none := by loop_fact

/-- the first match records its index -/
theorem step_first (i : Int) : Gen.removeExtensionStep (-1) i true = some i := by loop_fact

/-- no match: nothing changes -/
theorem step_other (a i : Int) : Gen.removeExtensionStep a i false = some a := by loop_fact

/-- the test after the loop -/
theorem absent_iff (a : Int) (ha : a = -1 ∨ 0 ≤ a) : Gen.removeExtensionAbsent a = true ↔ a = -1 := by
  unfold Gen.removeExtensionAbsent
  simp only [neg_one_eq, decide_eq_true_eq]
  first | done | omega

theorem findLoop_found (oid : Bytes) (es : List Ext) (i a : Int) (ha : 0 ≤ a) :
    findLoop oid es i a = if hasOid oid es then none else some a := by
  induction es generalizing i with
  | nil => simp [findLoop, hasOid]
  | cons e es ih =>
    simp only [findLoop]
    by_cases he : e.oid = oid
    · subst he
      simp [step_found a i ha, hasOid]
    · have hb : (e.oid == oid) = false := by simpa using he
      simp only [hb, step_other]
      rw [ih]
      simp [hasOid, hb]

theorem findLoop_init (oid : Bytes) (es : List Ext) (i : Int) (hi : 0 ≤ i) :
    findLoop oid es i (-1) =
      match idxOne oid es with
      | none => if hasOid oid es then none else some (-1)
      | some k => some (i + k) := by
  induction es generalizing i with
  | nil => simp [findLoop, idxOne, hasOid]
  | cons e es ih =>
    simp only [findLoop, idxOne]
    by_cases he : e.oid = oid
    · subst he
      simp only [beq_self_eq_true, step_first, if_true]
      rw [findLoop_found e.oid es (i + 1) i hi]
      cases hh : hasOid e.oid es <;> simp [hasOid, hh]
    · have hb : (e.oid == oid) = false := by simpa using he
      simp only [hb, step_other, he, if_false]
      rw [ih (i + 1) (by omega)]
      cases hk : idxOne oid es with
      | none => simp [hasOid, hb]
      | some k => simp; omega

theorem removeOneGo_eq (oid : Bytes) (es : List Ext) : removeOneGo oid es = removeOne oid es := by
  rw [removeOne_eq_idx]
  simp only [removeOneGo, findLoop_init oid es 0 (Int.le_refl 0)]
  cases hk : idxOne oid es with
  | none =>
    cases hasOid oid es
    · have := (absent_iff (-1) (Or.inl rfl)).mpr rfl
      simp [this]
    · simp
  | some k =>
    have hne : Gen.removeExtensionAbsent (k : Int) = false := by
      have := absent_iff (k : Int) (Or.inr (by omega))
      cases h : Gen.removeExtensionAbsent (k : Int)
      · rfl
      · have := this.mp h; omega
    simp [hne]

/-! ### `wf` under a smaller extension list -/

theorem encExts_append (a b : List Ext) : encExts (a ++ b) = encExts a ++ encExts b := by
  simp [encExts, concatTlvs_append]

theorem encExts_cons (e : Ext) (es : List Ext) : encExts (e :: es) = encTlv (encExt e) ++ encExts es := by
  simp [encExts, concatTlvs_cons]

theorem fields_length (t : Tbs) :
    (concatTlvs t.fields).length = (concatTlvs t.pre).length + (concatTlvs (optList (t.exts.map extsField))).length := by
  simp [Tbs.fields, concatTlvs_append]

theorem wf_setExts {t : Tbs} {es es' : List Ext} (h : t.wf = true) (he : t.exts = some es)
    (hok : ∀ e ∈ es', e.ok = true) (hlen : (encExts es').length ≤ (encExts es).length) :
    ({ t with exts := some es' } : Tbs).wf = true := by
  obtain ⟨h1, h2, h3, h4, h5, h6, h7, h8, h9, h10, h11⟩ := wf_parts h
  rw [he] at h10
  simp only [optAll, extsOk, Bool.and_eq_true, decide_eq_true_eq] at h10
  have m1 := encTlv_length_mono [0x30] hlen
  have m2 := encTlv_length_mono [0xa3] m1
  apply wf_of_parts
  refine ⟨h1, h2, h3, h4, h5, h6, h7, h8, h9, ?_, ?_⟩
  · simp only [optAll, extsOk, Bool.and_eq_true, decide_eq_true_eq, List.all_eq_true]
    exact ⟨⟨hok, by omega⟩, by omega⟩
  · rw [fields_length] at h11 ⊢
    simp only [he, Option.map, optList, concatTlvs, List.flatMap_cons, List.flatMap_nil, List.append_nil, extsField] at h11 ⊢
    have : ({ t with exts := some es' } : Tbs).pre = t.pre := rfl
    rw [this]
    omega

/-! ### well-formedness does not depend on where an extension is inserted -/

theorem all_insertAt (f : Ext → Bool) (es : List Ext) (i : Nat) (x : Ext) : (insertAt es i x).all f = (f x && es.all f) := by
  have e : es.all f = ((es.take i).all f && (es.drop i).all f) := by
    rw [← List.all_append, List.take_append_drop]
  rw [insertAt, List.all_append, List.all_cons, e]
  cases f x <;> cases (es.take i).all f <;> simp

theorem encExts_insertAt_length (es : List Ext) (i : Nat) (x : Ext) :
    (encExts (insertAt es i x)).length = (encExts (x :: es)).length := by
  have e := congrArg (fun l => (encExts l).length) (List.take_append_drop i es)
  simp only [encExts_append, List.length_append] at e
  simp only [insertAt, encExts_append, encExts_cons, List.length_append]
  omega

theorem seqLen_congr {a b : Bytes} (h : a.length = b.length) (tag : Bytes) :
    (encTlv ⟨tag, a⟩).length = (encTlv ⟨tag, b⟩).length := by
  rw [encTlv_length, encTlv_length]; simp only [h]

theorem extsOk_insertAt (es : List Ext) (i : Nat) (x : Ext) : extsOk (insertAt es i x) = extsOk (x :: es) := by
  have h := encExts_insertAt_length es i x
  simp only [extsOk, all_insertAt, List.all_cons, h, seqLen_congr h [0x30]]

theorem wf_insertAt (t : Tbs) (es : List Ext) (i : Nat) (x : Ext) :
    (t.withExts (insertAt es i x)).wf = (t.withExts (x :: es)).wf := by
  have h := encExts_insertAt_length es i x
  have h2 := seqLen_congr (seqLen_congr h [0x30]) [0xa3]
  have hf : (concatTlvs (t.withExts (insertAt es i x)).fields).length = (concatTlvs (t.withExts (x :: es)).fields).length := by
    rw [fields_length, fields_length]
    simp only [Tbs.withExts, Option.map, optList, concatTlvs, List.flatMap_cons, List.flatMap_nil, List.append_nil, extsField]
    have : ({ t with exts := some (insertAt es i x) } : Tbs).pre = ({ t with exts := some (x :: es) } : Tbs).pre := rfl
    rw [this, h2]
  simp only [Tbs.wf, hf]
  simp only [Tbs.withExts, optAll, extsOk_insertAt]

/-! ### insertion then removal; the first-match helpers of the authority-key-id update; SCT items -/

theorem mem_take_of_noOid {oid : Bytes} {es : List Ext} (h : hasOid oid es = false) (i : Nat) :
    (∀ e ∈ es.take i, e.oid ≠ oid) ∧ (∀ e ∈ es.drop i, e.oid ≠ oid) := by
  have := hasOid_false.mp h
  exact ⟨fun e he => this e (List.mem_of_mem_take he), fun e he => this e (List.mem_of_mem_drop he)⟩

/-- removing the one extension that was inserted gives back the certificate without it (and that one is canonical) -/
theorem removeExt_insert (t : Tbs) (es : List Ext) (i : Nat) (x : Ext) (oid : Bytes) (hx : x.oid = oid)
    (hn : hasOid oid es = false) (hw : (t.withExts (insertAt es i x)).wf = true) :
    removeExt oid (marshalTbs (t.withExts (insertAt es i x))) = some (marshalTbs (t.withExts es)) ∧
    (t.withExts es).wf = true := by
  obtain ⟨hA, hB⟩ := mem_take_of_noOid hn i
  have hrm : removeOne oid (insertAt es i x) = some es := by
    rw [insertAt, removeOne_mid oid _ _ x hx hA hB, List.take_append_drop]
  have hoks : ∀ e ∈ es, e.ok = true := by
    have h10 := (wf_parts hw).2.2.2.2.2.2.2.2.2.1
    simp only [Tbs.withExts, optAll, extsOk, Bool.and_eq_true, List.all_eq_true] at h10
    intro e he
    apply h10.1.1
    rw [← List.take_append_drop i es] at he
    simp only [insertAt, List.mem_append, List.mem_cons] at he ⊢
    rcases he with he | he
    · exact Or.inl he
    · exact Or.inr (Or.inr he)
  have hlen : (encExts es).length ≤ (encExts (insertAt es i x)).length := by
    have e := congrArg (fun l => (encExts l).length) (List.take_append_drop i es)
    simp only [encExts_append, List.length_append] at e
    simp only [insertAt, encExts_append, encExts_cons, List.length_append]
    omega
  have hw' : (t.withExts es).wf = true := wf_setExts (t := t.withExts (insertAt es i x)) hw rfl hoks hlen
  refine ⟨?_, hw'⟩
  have hp := parseTbs_marshal _ hw
  unfold removeExt
  rw [hp]
  simp [removeExtT, removeOneGo_eq, Tbs.withExts, hrm]

theorem setFirst_mid (oid v : Bytes) (A B : List Ext) (x : Ext) (hx : x.oid = oid) (hA : ∀ e ∈ A, e.oid ≠ oid) :
    setFirst oid v (A ++ x :: B) = A ++ { x with val := v } :: B := by
  induction A with
  | nil => simp [setFirst, hx]
  | cons a A ih =>
    have ha : a.oid ≠ oid := hA a (by simp)
    simp only [List.cons_append, setFirst, ha, if_false]
    rw [ih (fun e he => hA e (by simp [he]))]

theorem eraseFirst_mid (oid : Bytes) (A B : List Ext) (x : Ext) (hx : x.oid = oid) (hA : ∀ e ∈ A, e.oid ≠ oid) :
    eraseFirst oid (A ++ x :: B) = A ++ B := by
  induction A with
  | nil => simp [eraseFirst, hx]
  | cons a A ih =>
    have ha : a.oid ≠ oid := hA a (by simp)
    simp only [List.cons_append, eraseFirst, ha, if_false]
    rw [ih (fun e he => hA e (by simp [he]))]

theorem sctItemsOfVals_map (l : List Bytes) : sctItemsOfVals (l.map CtWire.serializedSCTVal) = some l := by
  induction l with
  | nil => rfl
  | cons b l ih => simp [sctItemsOfVals, CtWire.serializedSCTVal, ih]

/-- reading the Go value back as a list inverts `CtWire.sctListVal` -/
theorem sctListOfVal_sctListVal (l : List Bytes) : sctListOfVal (CtWire.sctListVal l) = some l := by
  simp [sctListOfVal, CtWire.sctListVal, sctItemsOfVals_map]

theorem concatAll_empty_item (l : List Bytes) (h : [] ∈ l) : Rfc.concatAll Rfc.serializedSCT l = none := by
  induction l with
  | nil => simp at h
  | cons s rest ih =>
    simp only [Rfc.concatAll]
    simp at h
    rcases h with h | h
    · subst h; simp [Rfc.serializedSCT, Rfc.varVector]
    · rw [ih h]
      cases Rfc.serializedSCT s <;> rfl

end CTV.Tbs
