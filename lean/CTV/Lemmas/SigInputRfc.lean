import CTV.Model.SigInput
import CTV.Rfc6962.Wire
import Mathlib.Tactic.NormNum
/-! The hand-written signature inputs of `CTV.SigInput` coincide with the RFC transcription `Rfc.sctSigInputV1` /
`Rfc.sthSigInputV1` of `CTV/Rfc6962/Wire.lean` — which C04 proves equal to what the repository's regenerated struct
tags make `tls.Marshal` produce inside `SerializeSCT/STHSignatureInput`. -/
namespace CTV.SigInput
open CTV
set_option linter.unusedSimpArgs false

/-- the RFC transcription's entry for a model entry -/
def toRfcEntry : Entry → Option Rfc.SignedEntry
  | .x509 c => some (.x509 c)
  | .precert i t => some (.precert ⟨i, t⟩)
  | .other _ => none

theorem opaqueVec_eq_varVector3 (b : Bytes) : opaqueVec 3 1 16777215 b = Rfc.varVector 1 16777215 b := by
  simp [opaqueVec, Rfc.varVector, Rfc.lenWidth]
theorem opaqueVec_eq_varVector2 (b : Bytes) : opaqueVec 2 0 65535 b = Rfc.varVector 0 65535 b := by
  simp [opaqueVec, Rfc.varVector, Rfc.lenWidth]

theorem signedEntry_eq_rfc (e : Entry) :
    signedEntry e = (match toRfcEntry e with | some re => Rfc.signedEntry re | none => none) := by
  cases e with
  | x509 c =>
    simp only [signedEntry, toRfcEntry, Rfc.signedEntry, Rfc.SignedEntry.entryType, Rfc.asn1Cert, opaqueVec_eq_varVector3]
    cases h : Rfc.varVector 1 16777215 c <;> simp [Rfc.uintN, beEnc, bind, Option.bind]
  | precert i t =>
    simp only [signedEntry, toRfcEntry, Rfc.signedEntry, Rfc.SignedEntry.entryType, Rfc.preCert, Rfc.opaqueFixed, opaqueVec_eq_varVector3]
    by_cases hi : i.length = 32
    · cases h : Rfc.varVector 1 16777215 t <;> simp [Rfc.uintN, beEnc, bind, Option.bind, hi]
    · simp [hi, Rfc.uintN, bind, Option.bind]
  | other n => simp [signedEntry, toRfcEntry]


theorem u64_lt (t : UInt64) : t.toNat < 256 ^ 8 := by
  have := t.toNat_lt
  norm_num at this ⊢
  exact this

/-- §3.2: the model's SCT signature input is the RFC transcription's (version v1 only) -/
theorem sctSigInput_eq_rfc (v : Nat) (t : UInt64) (e : Entry) (x : Bytes) :
    sctSigInput v t e x =
      (match toRfcEntry e with
       | some re => Rfc.sctSigInputV1 ⟨v, t.toNat, re, x⟩
       | none => none) := by
  unfold sctSigInput
  rw [signedEntry_eq_rfc, opaqueVec_eq_varVector2]
  cases hre : toRfcEntry e with
  | none => by_cases hv : v ≠ 0 <;> simp [hv]
  | some re =>
    simp only [Rfc.sctSigInputV1, Rfc.sctSigInput, Rfc.ctExtensions]
    by_cases hv : v = 0
    · subst hv
      have h8 : Rfc.uintN 8 t.toNat = some (beEnc 8 t.toNat) := by have := t.toNat_lt; simp [Rfc.uintN]; omega
      have h1 : Rfc.uintN 1 0 = some [0] := by decide
      cases hs : Rfc.signedEntry re <;> cases hx : Rfc.varVector 0 65535 x <;>
        simp [h8, h1, bind, Option.bind]
    · simp [hv]

/-- §3.5: the model's STH signature input is the RFC transcription's (version v1 only) -/
theorem sthSigInput_eq_rfc (v : Nat) (t n : UInt64) (r : Bytes) :
    sthSigInput v t n r = Rfc.sthSigInputV1 ⟨v, t.toNat, n.toNat, r⟩ := by
  unfold sthSigInput Rfc.sthSigInputV1 Rfc.sthSigInput
  by_cases hv : v = 0
  · subst hv
    have h8 : Rfc.uintN 8 t.toNat = some (beEnc 8 t.toNat) := by have := t.toNat_lt; simp [Rfc.uintN]; omega
    have h8' : Rfc.uintN 8 n.toNat = some (beEnc 8 n.toNat) := by have := n.toNat_lt; simp [Rfc.uintN]; omega
    have h0 : Rfc.uintN 1 0 = some [0] := by decide
    have h1 : Rfc.uintN 1 1 = some [1] := by decide
    by_cases hr : r.length = 32 <;> simp [h8, h8', h0, h1, Rfc.opaqueFixed, bind, Option.bind, hr]
  · simp [hv]

end CTV.SigInput
