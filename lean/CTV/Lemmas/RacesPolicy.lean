import CTV.Lemmas.RacesApple
import CTV.Model.TemporalSpec
/-! Helper lemmas for C17 about the policy groups and the compatibility filter, and the running example `run2`. -/
set_option linter.unusedSimpArgs false
set_option linter.unusedVariables false
namespace CTV.Model.Races

/-- the state after running schedule `ops` from the start of a `GetSCTs` call -/
abbrev after (r : Run) (ops : List Op) : St := exec r (St.init r) ops

theorem inv_after {r : Run} (wf : WF r) (ops : List Op) : Inv r (after r ops) :=
  inv_exec wf ops (inv_init wf)

/-! ## Running example (also the F10a history): one Google log (1), one non-Google log (2), Chrome-shaped groups -/

def cfg2 : Cfg := [⟨1, [1], 1, false⟩, ⟨2, [2], 1, false⟩, ⟨0, [1, 2], 2, true⟩]
def run2 : Run := ⟨cfg2, fun g => if g = 1 then [1] else if g = 2 then [2] else if g = 0 then [1, 2] else []⟩

theorem wf_run2 : WF run2 where
  names_nodup := by decide
  session_sub := by
    intro g hg l hl
    simp only [run2, cfg2, List.mem_cons, List.not_mem_nil, or_false] at hg
    rcases hg with rfl | rfl | rfl <;> simpa [run2] using hl
  session_nodup := by
    intro g hg
    simp only [run2, cfg2, List.mem_cons, List.not_mem_nil, or_false] at hg
    rcases hg with rfl | rfl | rfl <;> decide


theorem policyCfg_some {p : Pol} {m : Int} {ls : List LogInfo} {c : Cfg} (h : policyCfg p m ls = some c) :
    c = rawGroups p m ls := by
  unfold policyCfg at h
  dsimp only at h
  split at h
  · cases h; rfl
  · cases h


/-- the regenerated verdict of `TemporallyCompatible`'s loop body, whatever its shape: no interval, or start ≤ t < end -/
theorem temporallyCompatible_iff (iv : Option (Int × Int)) (t : Int) :
    Gen.temporallyCompatible iv t = true ↔ match iv with
      | none => True
      | some (a, b) => a ≤ t ∧ t < b := by
  unfold Gen.temporallyCompatible
  rw [Gen.temporallyCompatibleKeeps_eq_spec]
  cases iv with
  | none => simp
  | some ab =>
    obtain ⟨a, b⟩ := ab
    simp only [Spec.temporallyCompatibleCond, Bool.false_or, Bool.and_eq_true, Bool.or_eq_true, decide_eq_true_eq]
    omega

/-- the certificate's NotAfter lies in the log's temporal interval (a log without interval accepts every date) -/
def inWindow (notAfter : Int) (li : LogInfo) : Prop :=
  match li.interval with
  | none => True
  | some (a, b) => a ≤ notAfter ∧ notAfter < b

/-- the chain's root, when the distributor checks roots, is a CA and is among the log's accepted roots where those
are known -/
def rootAccepted (root : Option (Nat × Bool)) (li : LogInfo) : Prop :=
  match root with
  | none => True
  | some (rt, isCA) => isCA = true ∧ (li.roots = none ∨ ∃ rs, li.roots = some rs ∧ rt ∈ rs)

theorem mem_compatible {na : Int} {root : Option (Nat × Bool)} {ls : List LogInfo} {li : LogInfo}
    (h : li ∈ compatible na root ls) : li ∈ ls ∧ li.usable = true ∧ inWindow na li ∧ rootAccepted root li := by
  unfold compatible at h
  have key : ∀ li, li ∈ ls.filter (fun li => li.usable && temporalOk na li) → li ∈ ls ∧ li.usable = true ∧ inWindow na li := by
    intro li h
    simp only [List.mem_filter, Bool.and_eq_true] at h
    refine ⟨h.1, h.2.1, ?_⟩
    have ht := h.2.2
    unfold temporalOk at ht
    exact (temporallyCompatible_iff li.interval na).mp ht
  cases root with
  | none =>
    obtain ⟨h1, h2, h3⟩ := key li h
    exact ⟨h1, h2, h3, trivial⟩
  | some p =>
    obtain ⟨rt, isCA⟩ := p
    dsimp only at h
    cases isCA with
    | false => simp at h
    | true =>
      simp only [if_true] at h
      have hh := List.mem_filter.mp h
      obtain ⟨h1, h2, h3⟩ := key li hh.1
      refine ⟨h1, h2, h3, rfl, ?_⟩
      have hr := hh.2
      unfold rootOk at hr
      cases hroots : li.roots with
      | none => exact Or.inl rfl
      | some rs =>
        simp only [hroots, decide_eq_true_eq] at hr
        exact Or.inr ⟨rs, rfl, hr⟩

theorem rawGroups_logs {p : Pol} {m : Int} {cl : List LogInfo} {g : Group} (hg : g ∈ rawGroups p m cl)
    {l : Log} (hl : l ∈ g.logs) : ∃ li ∈ cl, li.id = l := by
  unfold rawGroups at hg
  have hgo : ∀ (rows : List (String × Bool × Int)) (i : Nat) (g : Group), g ∈ rawGroups.go cl i rows → ∀ l ∈ g.logs, ∃ li ∈ cl, li.id = l := by
    intro rows
    induction rows with
    | nil => intro i g hg; simp [rawGroups.go] at hg
    | cons row rest ih =>
      intro i g hg l hl
      obtain ⟨nm, goog, mn⟩ := row
      simp only [rawGroups.go, List.mem_cons] at hg
      rcases hg with rfl | hg
      · simp only [mem_dedup, List.mem_map, List.mem_filter] at hl
        obtain ⟨li, ⟨hli, _⟩, rfl⟩ := hl
        exact ⟨li, hli, rfl⟩
      · exact ih (i + 1) g hg l hl
  rcases List.mem_append.mp hg with h | h
  · exact hgo _ 0 g h l hl
  · simp only [List.mem_cons, List.not_mem_nil, or_false] at h
    subst h
    simp only [mem_dedup, List.mem_map] at hl
    obtain ⟨li, hli, rfl⟩ := hl
    exact ⟨li, hli, rfl⟩


theorem setMin_le {i n : Int} (h : (Gen.Policy.setMinInclusions i n).isSome = true) : i ≤ n := by
  unfold Gen.Policy.setMinInclusions at h
  by_cases h1 : i < 0 <;> by_cases h2 : i > n <;> simp [h1, h2] at h <;> omega

/-- the Chrome policy's groups, with the regenerated threshold function -/
theorem chrome_groups_raw (m : Int) (ls : List LogInfo) :
    rawGroups .chrome m ls =
      [⟨1, dedup ((ls.filter (fun li => li.google == true)).map (·.id)), 1, false⟩,
       ⟨2, dedup ((ls.filter (fun li => li.google == false)).map (·.id)), 1, false⟩,
       ⟨baseName, dedup (ls.map (·.id)), Gen.Policy.chromeIncCount m, true⟩] := by
  simp [rawGroups, rawGroups.go, subgroups, Gen.Policy.chromeSubgroups, incCount]

theorem nodup_map_inj {α : Type} (f : α → Nat) : ∀ {L : List α}, (L.map f).Nodup → ∀ a ∈ L, ∀ b ∈ L, f a = f b → a = b
  | [], _, a, ha, _, _, _ => by cases ha
  | x :: xs, hn, a, ha, b, hb, hab => by
    simp only [List.map_cons, List.nodup_cons] at hn
    rcases List.mem_cons.mp ha with rfl | ha' <;> rcases List.mem_cons.mp hb with rfl | hb'
    · rfl
    · exact absurd (hab ▸ List.mem_map_of_mem (f := f) hb') hn.1
    · exact absurd (hab ▸ List.mem_map_of_mem (f := f) ha') hn.1
    · exact nodup_map_inj f hn.2 a ha' b hb' hab

/-- the groups the Chrome policy builds from a log list with distinct URLs have the Chrome shape, and their minima
do not exceed their sizes when `LogsByGroup` succeeds -/
theorem chrome_shape_of_policy {m : Int} {ls : List LogInfo} {r : Run} (hc : policyCfg .chrome m ls = some r.cfg)
    (hid : (ls.map (·.id)).Nodup) :
    ∃ G N B, ChromeShape r G N B ∧ G.min ≤ G.logs.length ∧ N.min ≤ N.logs.length ∧ B.min ≤ B.logs.length := by
  have hcfg := policyCfg_some hc
  rw [chrome_groups_raw] at hcfg
  refine ⟨_, _, _, ⟨hcfg, rfl, rfl, rfl, nodup_dedup _, nodup_dedup _, nodup_dedup _, ?_, ?_, ?_, ?_⟩, ?_⟩
  · intro l h1 h2
    simp only [mem_dedup, List.mem_map, List.mem_filter] at h1 h2
    obtain ⟨a, ⟨ha, hga⟩, rfl⟩ := h1
    obtain ⟨b, ⟨hb, hgb⟩, hab⟩ := h2
    have := nodup_map_inj (·.id) hid b hb a ha hab
    subst this
    simp_all
  · intro l h1
    simp only [mem_dedup, List.mem_map, List.mem_filter] at h1 ⊢
    obtain ⟨a, ⟨ha, _⟩, rfl⟩ := h1
    exact ⟨a, ha, rfl⟩
  · intro l h1
    simp only [mem_dedup, List.mem_map, List.mem_filter] at h1 ⊢
    obtain ⟨a, ⟨ha, _⟩, rfl⟩ := h1
    exact ⟨a, ha, rfl⟩
  · intro l h1
    simp only [mem_dedup, List.mem_map, List.mem_filter] at h1 ⊢
    obtain ⟨a, ha, rfl⟩ := h1
    cases hg : a.google
    · exact Or.inr ⟨a, ⟨ha, by simp [hg]⟩, rfl⟩
    · exact Or.inl ⟨a, ⟨ha, by simp [hg]⟩, rfl⟩
  · unfold policyCfg at hc
    dsimp only at hc
    split at hc
    · rename_i hall
      rw [chrome_groups_raw, List.all_eq_true] at hall
      have h1 := setMin_le (hall _ List.mem_cons_self)
      have h2 := setMin_le (hall _ (List.mem_cons_of_mem _ List.mem_cons_self))
      have h3 := setMin_le (hall _ (List.mem_cons_of_mem _ (List.mem_cons_of_mem _ List.mem_cons_self)))
      exact ⟨h1, h2, h3⟩
    · cases hc


theorem apple_groups_raw (m : Int) (ls : List LogInfo) :
    rawGroups .apple m ls = [⟨baseName, dedup (ls.map (·.id)), Gen.Policy.appleIncCount m, true⟩] := by
  simp [rawGroups, rawGroups.go, subgroups, Gen.Policy.appleSubgroups, incCount]

/-- the single group the Apple policy builds has the Apple shape; its minimum does not exceed its size when
`LogsByGroup` succeeds -/
theorem apple_shape_of_policy {m : Int} {ls : List LogInfo} {r : Run} (hc : policyCfg .apple m ls = some r.cfg) :
    ∃ B, AppleShape r B ∧ B.min ≤ B.logs.length := by
  have hcfg := policyCfg_some hc
  rw [apple_groups_raw] at hcfg
  refine ⟨_, ⟨hcfg, rfl, nodup_dedup _⟩, ?_⟩
  unfold policyCfg at hc
  dsimp only at hc
  split at hc
  · rename_i hall
    rw [apple_groups_raw, List.all_eq_true] at hall
    exact setMin_le (hall _ List.mem_cons_self)
  · cases hc

end CTV.Model.Races
