import CTV.Der.Asn1
import CTV.Gen.DerTie
/-!
# Facts and codings used by the C10 tie theorems (`CTV.Props.C10Tie`)
-/
namespace CTV.Der.Tie
open CTV CTV.Der

/-- the class of an error, in the coding of the regenerated bodies: 1 `SyntaxError`, 2 `StructuralError`, 3 another error value
(5: the model's own fuel error, which no Go code produces — `parse_total_fuel`) -/
def cls : Err → Nat
  | .syntax => 1
  | .structural => 2
  | .other => 3
  | .fuel => 5
  | .intNotMinimal _ => 2
  | .oidEmpty => 1
  | .printable _ => 1

/-- 0 = nil error -/
def code {α : Type} : Except Err α → Nat
  | .ok _ => 0
  | .error e => cls e

def failed {α : Type} : Except Err α → Bool
  | .ok _ => false
  | .error _ => true

/-- 4 in a regenerated body = "the failing callee's error, unchanged" -/
def resolve (k inner : Nat) : Nat := if k = 4 then inner else k

/-- `bytes[i]` as an `int` -/
def byteAt (c : Bytes) (i : Int) : Int := ((c.getD i.toNat 0).toNat : Int)

set_option maxRecDepth 100000 in
theorem land_facts : ∀ n, n < 256 → (n &&& 128 = 0 ↔ n < 128) ∧ (n &&& 128 = 128 ↔ 128 ≤ n) ∧
    n &&& 31 = n % 32 ∧ n &&& 127 = n % 128 := by decide

theorem land_nat (n m : Nat) : I64.land (n : Int) (m : Int) = ((n &&& m : Nat) : Int) := by
  simp only [I64.land, Int.toNat_natCast]; rfl

theorem u8_eq (b : UInt8) (k : Nat) (hk : k < 256) : b = UInt8.ofNat k ↔ b.toNat = k := by
  constructor
  · intro h; subst h; simp [UInt8.toNat_ofNat, Nat.mod_eq_of_lt hk]
  · intro h
    apply UInt8.toNat_inj.mp
    simp [UInt8.toNat_ofNat, Nat.mod_eq_of_lt hk, h]

end CTV.Der.Tie
