import CTV.Lemmas.DerContent
import CTV.Lemmas.DerPrefix
import CTV.Lemmas.DerSlices
/-!
# Marshal ∘ Unmarshal on canonical input: the shell (headers, implicit / explicit tags) and the lift through struct
fields and slice elements.
-/
namespace CTV.Der

/-- detailed inversion of `header … = ok (body …)` -/
theorem header_body_inv (d : Dialect) (t : ATy) (p : FP) (bs : Bytes) (B : Hdr) (hB : ∀ r, B ≠ .flagSet r) (hB' : B ≠ .absent)
    (h : header d t p bs = .ok B) :
    ∃ tl0 r1, parseTagLen d bs = .ok (tl0, r1) ∧
      ((p.explicit = false ∧ headerBody t p bs tl0 r1 none = .ok B) ∨
       (p.explicit = true ∧ t = .rawValue ∧ headerBody t p bs tl0 r1 none = .ok B) ∨
       (p.explicit = true ∧ t ≠ .rawValue ∧ tl0.cls = (if p.application = true then 1 else 2) ∧ tl0.tag = p.tag.getD 0 ∧
          tl0.compound = true ∧ tl0.len > 0 ∧
          ∃ tl r2, parseTagLen d r1 = .ok (tl, r2) ∧ headerBody t p bs tl r2 (some (tl0.len, r1.length)) = .ok B)) := by
  unfold header at h
  cases h0 : parseTagLen d bs with
  | error e => rw [h0] at h; cases h
  | ok x =>
    obtain ⟨tl0, r1⟩ := x
    rw [h0] at h
    refine ⟨tl0, r1, rfl, ?_⟩
    simp only [] at h
    by_cases he : p.explicit = true
    · rw [if_pos he] at h
      by_cases hr : r1 = []
      · rw [if_pos hr] at h; cases h
      · rw [if_neg hr] at h
        by_cases hm : tl0.cls = (if p.application = true then 1 else 2) ∧ tl0.tag = p.tag.getD 0 ∧ (tl0.len = 0 ∨ tl0.compound = true)
        · rw [if_pos hm] at h
          by_cases hraw : t = .rawValue
          · subst hraw
            simp only [] at h
            exact Or.inr (Or.inl ⟨he, rfl, h⟩)
          · split at h
            · exact absurd rfl hraw
            · by_cases hl : tl0.len > 0
              · rw [if_pos hl] at h
                cases h1 : parseTagLen d r1 with
                | error e => rw [h1] at h; cases h
                | ok y =>
                  obtain ⟨tl, r2⟩ := y
                  rw [h1] at h
                  have hc : tl0.compound = true := by
                    rcases hm.2.2 with h0' | hc
                    · omega
                    · exact hc
                  exact Or.inr (Or.inr ⟨he, hraw, hm.1, hm.2.1, hc, hl, tl, r2, rfl, h⟩)
              · rw [if_neg hl] at h
                split at h
                · cases h; exact absurd rfl (hB r1)
                · cases h
        · rw [if_neg hm] at h
          unfold headerMiss at h
          split at h
          · cases h; exact absurd rfl hB'
          · cases h
    · rw [if_neg he] at h
      exact Or.inl ⟨by simpa using he, h⟩

theorem wrapHeader_eq (cls : Nat) (compound : Bool) (tag : Nat) (body : Bytes) (tl : TL)
    (h1 : tl.cls = cls) (h2 : tl.tag = tag) (h3 : tl.compound = compound) (h4 : tl.len = body.length) :
    wrapHeader cls compound tag body = encTagLen tl ++ body := by
  unfold wrapHeader
  congr 2
  cases tl; simp at h1 h2 h3 h4; subst h1 h2 h3 h4; rfl

/-- what `tagMismatch = false` says for a type that is not RawValue -/
theorem tagMismatch_false (t : ATy) (p : FP) (tl : TL) (hraw : t ≠ .rawValue) (h : tagMismatch t p tl = false) :
    tl.compound = (universalType t).2.2 ∧
    tl.cls = (expected p false (utagOf t p tl)).1 ∧ tl.tag = (expected p false (utagOf t p tl)).2.1 := by
  have hma : (universalType t).1 = false := by cases t <;> first | rfl | exact absurd rfl hraw
  unfold tagMismatch at h
  rw [show universalType t = ((universalType t).1, (universalType t).2.1, (universalType t).2.2) from rfl] at h
  simp only [hma] at h
  have hexp : (expected p false (utagOf t p tl)).2.2 = false := by
    unfold expected
    cases p.explicit <;> cases p.tag <;> cases p.application <;> cases p.priv <;> rfl
  generalize hE : expected p false (utagOf t p tl) = E at h hexp ⊢
  obtain ⟨ec, et, em⟩ := E
  simp only [] at hexp
  subst hexp
  simp only [Bool.not_false, Bool.true_and, Bool.or_eq_false_iff, bne_eq_false_iff_eq] at h
  exact ⟨h.2, h.1.1, h.1.2⟩

/-- **the shell**: under `Canon`, what `parseField` consumed is what `makeField` writes around the content `inner`
(universal header, implicit tag, or explicit wrapper), for every type but RawValue -/
theorem consumed_wrapAs (d : Dialect) (hd : d.b128min = true) (t : ATy) (p : FP) (bs : Bytes) (hraw : t ≠ .rawValue)
    (tl : TL) (utag : Nat) (inner rest consumed : Bytes) (outer : Option (Nat × Nat))
    (hh : header d t p bs = .ok (.body tl utag inner rest consumed outer))
    (hcp : canonParams t p = true) (hco : canonOuter tl (inner.length + rest.length) outer = true) :
    consumed = wrapAs p (universalType t).2.2 utag inner ∧ bs = consumed ++ rest ∧ utag = utagOf t p tl ∧
      (tl.cls = 0 ↔ (p.tag = none ∨ p.explicit = true)) := by
  have hsplit := (header_consumed d t p bs _ _ _ _ _ _ hh).1
  obtain ⟨tl0, r1, h0, hc⟩ := header_body_inv d t p bs _ (by intro r h; cases h) (by intro h; cases h) hh
  have hrt0 := parseTagLen_roundtrip d hd _ _ _ h0
  -- the parameter facts packed in canonParams
  have hisRaw : (match t with | .rawValue => true | _ => false) = false := by
    cases t <;> first | rfl | exact absurd rfl hraw
  unfold canonParams at hcp
  simp only [hisRaw, Bool.false_or, Bool.and_eq_true, Bool.or_eq_true, Bool.not_eq_true'] at hcp
  obtain ⟨⟨⟨⟨⟨hexpl, _⟩, _⟩, _⟩, hcls⟩, _⟩ := hcp
  rcases hc with ⟨he, hb⟩ | ⟨_, hr, _⟩ | ⟨he, _, hc1, hc2, hc3, hc4, tl1, r2, h1, hb⟩
  · -- implicit / universal
    obtain ⟨hlen, rfl, rfl, rfl, _, hmm, hut, _⟩ := headerBody_inner_length _ _ _ _ _ _ _ _ _ _ _ _ hb
    obtain ⟨hcomp, hcl, htg⟩ := tagMismatch_false t p tl hraw hmm
    have hcons : consumed = encTagLen tl ++ List.take tl.len r1 := by
      have : consumed ++ List.drop tl.len r1 = (encTagLen tl ++ List.take tl.len r1) ++ List.drop tl.len r1 := by
        rw [← hsplit, List.append_assoc, List.take_append_drop]; exact hrt0
      exact List.append_cancel_right this
    refine ⟨?_, hsplit, hut, ?_⟩
    · rw [hcons]
      unfold wrapAs
      cases hpt : p.tag with
      | none =>
        simp only []
        symm
        apply wrapHeader_eq
        · rw [hcl]; unfold expected; simp [he, hpt]
        · rw [htg, ← hut]; unfold expected; simp [he, hpt]
        · exact hcomp
        · exact hlen.symm
      | some pt =>
        simp only [he, Bool.false_eq_true, if_false]
        symm
        apply wrapHeader_eq
        · rw [hcl]
          rw [hpt] at hcls
          simp only [he, Bool.false_eq_true, if_false, beq_iff_eq] at hcls
          rw [hcls]
          unfold expected
          cases p.application <;> cases p.priv <;> simp [he, hpt]
        · rw [htg]; unfold expected
          cases p.application <;> cases p.priv <;> simp [he, hpt]
        · exact hcomp
        · exact hlen.symm
    · rw [hcl]; unfold expected
      cases hpt : p.tag <;> cases p.application <;> cases p.priv <;> simp [he, hpt]
  · exact absurd hr hraw
  · -- explicit wrapper
    obtain ⟨hlen, rfl, rfl, rfl, _, hmm, hut, rfl⟩ := headerBody_inner_length _ _ _ _ _ _ _ _ _ _ _ _ hb
    obtain ⟨hcomp, hcl, htg⟩ := tagMismatch_false t p tl hraw hmm
    have hrt1 := parseTagLen_roundtrip d hd _ _ _ h1
    have hcons : consumed = encTagLen tl0 ++ (encTagLen tl ++ List.take tl.len r2) := by
      have : consumed ++ List.drop tl.len r2 = (encTagLen tl0 ++ (encTagLen tl ++ List.take tl.len r2)) ++ List.drop tl.len r2 := by
        rw [← hsplit, List.append_assoc, List.append_assoc, List.take_append_drop, ← hrt1]; exact hrt0
      exact List.append_cancel_right this
    have hsome : p.tag.isSome = true := by
      rcases hexpl with h | h
      · rw [he] at h; cases h
      · exact h
    obtain ⟨pt, hpt⟩ := Option.isSome_iff_exists.mp hsome
    have hr1len : r1.length - r2.length = (encTagLen tl).length := by
      rw [hrt1]; simp
    subst hut
    refine ⟨?_, hsplit, rfl, ?_⟩
    · rw [hcons]
      unfold wrapAs
      simp only [hpt, he, if_true]
      have hin : wrapHeader 0 (universalType t).2.2 (utagOf t p tl) (List.take tl.len r2) = encTagLen tl ++ List.take tl.len r2 := by
        apply wrapHeader_eq
        · rw [hcl]; unfold expected; simp [he]
        · rw [htg]; unfold expected; simp [he]
        · exact hcomp
        · exact hlen.symm
      rw [hin]
      symm
      apply wrapHeader_eq
      · rw [hc1]
        rw [hpt] at hcls
        simp only [he, if_true, beq_iff_eq] at hcls
        exact hcls.symm
      · rw [hc2, hpt]; rfl
      · exact hc3
      · simp only [canonOuter, beq_iff_eq] at hco
        have h2 : (List.take tl.len r2).length + (List.drop tl.len r2).length = r2.length := by
          rw [← List.length_append, List.take_append_drop]
        rw [h2] at hco
        rw [hco, hr1len, List.length_append, hlen]
    · rw [hcl]; unfold expected; simp [he]

/-! ## leaves -/

/-- `parseField … = ok (v, rest)` in `canon` mode round-trips through `marshalField` -/
def RT (d : Dialect) (t : ATy) (p : FP) (bs : Bytes) (v : AVal) (rest : Bytes) : Prop :=
  ∃ enc, marshalField d t p v = .ok enc ∧ bs = enc ++ rest

theorem canon_dialect (d : Dialect) : (d.forMode .canon).b128min = true := rfl

/-- the leaf types whose universal tag does not depend on the value -/
def ATy.simpleLeaf : ATy → Bool
  | .bool | .int32 | .int64 | .bigInt | .enum | .bitString | .octets | .oid | .flag => true
  | _ => false

theorem canon_simple (t : ATy) (p : FP) (hs : t.simpleLeaf = true) (hcp : canonParams t p = true) :
    p.timeType = 0 ∧ p.stringType = 0 ∧ p.set = false := by
  cases t <;> simp [ATy.simpleLeaf] at hs <;> simp [canonParams] at hcp <;> simp [hcp]

/-- content round trip of every simple leaf, as `parseLeaf` / `marshalLeafBody` pair them -/
theorem simple_leaf_content (d : Dialect) (hd : d.b128min = true) (t : ATy) (p : FP) (hs : t.simpleLeaf = true) (tl : TL) (utag : Nat)
    (inner consumed : Bytes) (v : AVal) (h : parseLeaf d .canon t p tl utag inner consumed = .ok v) :
    marshalLeafBody t p v = .ok inner ∧ v.unwrap = v ∧ (∀ w, v ≠ .absent w) := by
  unfold parseLeaf at h
  cases t <;> simp [ATy.simpleLeaf] at hs <;> simp only [Mode.isLax, Mode.isCanon, Bool.true_and] at h
  · -- bool
    cases hb : parseBool inner with
    | error e => rw [hb] at h; cases h
    | ok b => rw [hb] at h; cases h; exact ⟨by simp [marshalLeafBody, parseBool_roundtrip _ _ hb], rfl, by intro w hw; cases hw⟩
  · cases hb : parseInt32 false inner with
    | error e => rw [hb] at h; cases h
    | ok b => rw [hb] at h; cases h; exact ⟨by simp [marshalLeafBody, parseInt32_roundtrip _ _ hb], rfl, by intro w hw; cases hw⟩
  · cases hb : parseInt64 false inner with
    | error e => rw [hb] at h; cases h
    | ok b => rw [hb] at h; cases h; exact ⟨by simp [marshalLeafBody, parseInt64_roundtrip _ _ hb], rfl, by intro w hw; cases hw⟩
  · cases hb : parseBigInt false inner with
    | error e => rw [hb] at h; cases h
    | ok b => rw [hb] at h; cases h; exact ⟨by simp [marshalLeafBody, parseBigInt_roundtrip _ _ hb], rfl, by intro w hw; cases hw⟩
  · cases hb : parseInt32 false inner with
    | error e => rw [hb] at h; cases h
    | ok b => rw [hb] at h; cases h; exact ⟨by simp [marshalLeafBody, parseInt32_roundtrip _ _ hb], rfl, by intro w hw; cases hw⟩
  · cases hb : parseBitString inner with
    | error e => rw [hb] at h; cases h
    | ok b => rw [hb] at h; cases h; exact ⟨by simp [marshalLeafBody, parseBitString_roundtrip _ _ hb], rfl, by intro w hw; cases hw⟩
  · cases h; exact ⟨rfl, rfl, by intro w hw; cases hw⟩
  · cases hb : parseOID d false inner with
    | error e => rw [hb] at h; cases h
    | ok b => rw [hb] at h; cases h; exact ⟨by simp [marshalLeafBody, parseOID_roundtrip d hd _ _ hb], rfl, by intro w hw; cases hw⟩
  · -- flag: canon demands empty content
    by_cases he : (!inner.isEmpty) = true
    · rw [if_pos he] at h; cases h
    · rw [if_neg he] at h; cases h
      have : inner = [] := by simpa using he
      exact ⟨by simp [marshalLeafBody, this], rfl, by intro w hw; cases hw⟩

theorem nilBigInt_false (t : ATy) (v : AVal) (h : ∀ w, v ≠ .absent w) : nilBigInt t v = false := by
  unfold nilBigInt
  cases v <;> first | (exact absurd rfl (h _)) | (cases t <;> rfl)

theorem absent_marshal (d : Dialect) (t : ATy) (p : FP) (w : AVal) (hna : t.isAny = false) (hom : omitted t p (.absent w) = true) :
    marshalField d t p (.absent w) = .ok [] := by
  cases t <;> first | (cases hna; done) | simp only [marshalField, marshalShell, hom, if_true]

/-- inversion common to every type: in `canon` mode a successful `fieldShell` is an omitted absent field or a body -/
theorem canon_shell (d : Dialect) (t : ATy) (p : FP) (bs : Bytes) (k : TL → Nat → Bytes → Bytes → Except Err AVal) (v : AVal) (rest : Bytes)
    (h : fieldShell d .canon t p bs k = .ok (v, rest)) :
    (t.isAny = false ∧ ∃ w, v = .absent w ∧ omitted t p v = true ∧ bs = rest) ∨
    (∃ tl utag inner consumed outer, header (d.forMode .canon) t p bs = .ok (.body tl utag inner rest consumed outer) ∧
      k tl utag inner consumed = .ok v ∧ canonParams t p = true ∧ canonOuter tl (inner.length + rest.length) outer = true ∧
      omitted t p v = false) := by
  cases fieldShell_ok _ _ _ _ _ _ _ _ h with
  | emptyAbsent hb ho hr hv hom =>
    subst hb hr
    refine Or.inl ⟨?_, _, hv, hom rfl, rfl⟩
    cases hany : t.isAny with
    | false => rfl
    | true =>
      have : omitted t p v = false := by
        cases t <;> simp [ATy.isAny] at hany
        simp [omitted]
      rw [hom rfl] at this; cases this
  | any _ hc _ => cases hc
  | absent hh ho hr hv hom =>
    subst hr
    refine Or.inl ⟨?_, _, hv, hom rfl, rfl⟩
    cases hany : t.isAny with
    | false => rfl
    | true =>
      have : omitted t p v = false := by
        cases t <;> simp [ATy.isAny] at hany
        simp [omitted]
      rw [hom rfl] at this; cases this
  | flagSet _ hc _ => cases hc
  | body tl utag inner consumed outer hh hk hcanon =>
    obtain ⟨hc1, hom⟩ := hcanon rfl
    simp only [Bool.and_eq_true] at hc1
    exact Or.inr ⟨tl, utag, inner, consumed, outer, hh, hk, hc1.1, hc1.2, hom⟩

theorem utagOf_simple (t : ATy) (p : FP) (tl : TL) (hs : t.simpleLeaf = true) (hset : p.set = false) :
    utagOf t p tl = (universalType t).2.1 := by
  cases t <;> simp [ATy.simpleLeaf] at hs <;>
    simp [utagOf, universalType, hset, tagPrintableString, tagUTCTime, tagBoolean, tagInteger, tagEnum, tagBitString, tagOctetString, tagOID]

/-- **marshal_parse for the simple leaves** BOOLEAN, INTEGER (int32 / int64 / *big.Int), ENUMERATED, BIT STRING, OCTET STRING,
OBJECT IDENTIFIER, Flag — under every field-parameter record -/
theorem simple_leaf_RT (d : Dialect) (t : ATy) (p : FP) (bs : Bytes) (v : AVal) (rest : Bytes) (hs : t.simpleLeaf = true)
    (h : parseField d .canon t p bs = .ok (v, rest)) : RT d t p bs v rest := by
  have hna : t.isAny = false := by cases t <;> simp [ATy.simpleLeaf] at hs <;> rfl
  have hraw : t ≠ .rawValue := by intro h; subst h; simp [ATy.simpleLeaf] at hs
  have hshell : parseField d .canon t p bs = fieldShell d .canon t p bs (fun tl utag inner consumed => parseLeaf (d.forMode .canon) .canon t p tl utag inner consumed) := by
    cases t <;> simp [ATy.simpleLeaf] at hs <;> simp only [parseField]
  rw [hshell] at h
  rcases canon_shell d t p bs _ v rest h with ⟨_, w, rfl, hom, rfl⟩ | ⟨tl, utag, inner, consumed, outer, hh, hk, hcp, hco, hom⟩
  · exact ⟨[], absent_marshal d t p w hna hom, rfl⟩
  · obtain ⟨hcw, hsp, hut, _⟩ := consumed_wrapAs _ (canon_dialect d) t p bs hraw _ _ _ _ _ _ hh hcp hco
    obtain ⟨hbody, hunw, hnb⟩ := simple_leaf_content _ (canon_dialect d) t p hs tl utag inner consumed v hk
    obtain ⟨htt, hst, hset⟩ := canon_simple t p hs hcp
    have hu := utagOf_simple t p tl hs hset
    refine ⟨consumed, ?_, hsp⟩
    rw [hcw, hut, hu]
    have hm : marshalField d t p v = marshalShell t p v (fun v => marshalLeafBody t p v) := by
      cases t <;> simp [ATy.simpleLeaf] at hs <;> simp only [marshalField]
    rw [hm]
    unfold marshalShell
    rw [if_neg (by rw [hom]; simp)]
    rw [hunw]
    have hnb' : nilBigInt t v = false := nilBigInt_false t v hnb
    cases t <;> simp [ATy.simpleLeaf] at hs <;>
      simp [hnb', htt, hst, hset, hbody, universalType]

/-! ## RawValue, strings, times -/

theorem rawValue_RT (d : Dialect) (p : FP) (bs : Bytes) (v : AVal) (rest : Bytes)
    (h : parseField d .canon .rawValue p bs = .ok (v, rest)) : RT d .rawValue p bs v rest := by
  simp only [parseField] at h
  rcases canon_shell d .rawValue p bs _ v rest h with ⟨_, w, rfl, hom, rfl⟩ | ⟨tl, utag, inner, consumed, outer, hh, hk, hcp, hco, hom⟩
  · exact ⟨[], absent_marshal d .rawValue p w rfl hom, rfl⟩
  · obtain ⟨hsp, hdr, hc, hl⟩ := header_consumed _ .rawValue p bs _ _ _ _ _ _ hh
    unfold parseLeaf at hk
    simp only [] at hk
    cases hk
    refine ⟨consumed, ?_, hsp⟩
    simp only [marshalField, marshalShell]
    rw [if_neg (by rw [hom]; simp)]
    simp only [AVal.unwrap]
    have : consumed.isEmpty = false := by
      rw [hc]; cases hdr with
      | nil => simp at hl
      | cons x xs => rfl
    simp [this]

theorem wrapAs_tag_irrelevant (p : FP) (c : Bool) (t1 t2 : Nat) (b : Bytes) (h : ¬ (p.tag = none ∨ p.explicit = true)) :
    wrapAs p c t1 b = wrapAs p c t2 b := by
  unfold wrapAs
  cases hpt : p.tag with
  | none => exact absurd (Or.inl hpt) h
  | some pt =>
    have : p.explicit = false := by
      cases he : p.explicit with
      | false => rfl
      | true => exact absurd (Or.inr he) h
    simp [this]

theorem str_RT (d : Dialect) (p : FP) (bs : Bytes) (v : AVal) (rest : Bytes)
    (h : parseField d .canon .str p bs = .ok (v, rest)) : RT d .str p bs v rest := by
  simp only [parseField] at h
  rcases canon_shell d .str p bs _ v rest h with ⟨_, w, rfl, hom, rfl⟩ | ⟨tl, utag, inner, consumed, outer, hh, hk, hcp, hco, hom⟩
  · exact ⟨[], absent_marshal d .str p w rfl hom, rfl⟩
  · obtain ⟨hcw, hsp, hut, hcls⟩ := consumed_wrapAs _ (canon_dialect d) .str p bs (by intro h; cases h) _ _ _ _ _ _ hh hcp hco
    unfold parseLeaf at hk
    simp only [Mode.isLax, Mode.isCanon, Bool.true_and] at hk
    cases hs : parseStringByTag false utag inner with
    | error e => rw [hs] at hk; cases hk
    | ok s =>
      rw [hs] at hk
      simp only [] at hk
      by_cases hc : (!(utag == (if tl.cls = 0 then marshalStringTag p s else utag) && marshalStringOK p s &&
          (utag == tagPrintableString || utag == tagUTF8String || utag == tagIA5String || utag == tagNumericString))) = true
      · rw [if_pos hc] at hk; cases hk
      · rw [if_neg hc] at hk
        cases hk
        simp only [Bool.not_eq_true, Bool.not_eq_false', Bool.and_eq_true, Bool.or_eq_true, beq_iff_eq] at hc
        obtain ⟨⟨htag, hok⟩, h4⟩ := hc
        have hsi : s = inner := parseStringByTag_id utag inner s (by
          rcases h4 with ((h | h) | h) | h
          · exact Or.inl h
          · exact Or.inr (Or.inl h)
          · exact Or.inr (Or.inr (Or.inl h))
          · exact Or.inr (Or.inr (Or.inr h))) hs
        subst hsi
        have hp : p.timeType = 0 ∧ p.set = false := by
          simp [canonParams] at hcp; simp [hcp]
        refine ⟨consumed, ?_, hsp⟩
        simp only [marshalField, marshalShell]
        rw [if_neg (by rw [hom]; simp)]
        simp only [AVal.unwrap, universalType, nilBigInt, hp.1, hp.2]
        -- the tag `makeField` picks is `marshalStringTag`, and the content test passes
        have htag1 : (if p.stringType = 0 then
              (if (List.all s fun b => decide (b.toNat < 128) && isPrintable b false false) = true then (Except.ok tagPrintableString : Except Err Nat)
               else if utf8Valid s = true then .ok tagUTF8String else .error .other)
            else .ok p.stringType) = .ok (marshalStringTag p s) := by
          unfold marshalStringTag marshalStringOK at *
          by_cases h0 : p.stringType = 0
          · simp only [h0, if_true, ne_eq, not_true_eq_false, if_false] at hok ⊢
            by_cases hpr : (List.all s fun b => decide (b.toNat < 128) && isPrintable b false false) = true
            · simp [hpr]
            · simp only [hpr, if_false]
              have : utf8Valid s = true := by
                simp only [tagIA5String, tagPrintableString, tagNumericString] at hok
                simpa [hpr] using hok
              simp [this]
          · simp [h0]
        simp only [Bool.false_eq_true, if_false, ne_eq, decide_not, Bool.and_false, tagPrintableString, not_true_eq_false, decide_false]
        simp only [tagPrintableString] at htag1
        rw [htag1]
        simp only [marshalLeafBody, hok, if_true]
        rw [hcw]
        simp only [Bool.false_and, Bool.false_eq_true, if_false, universalType]
        congr 1
        by_cases hc0 : tl.cls = 0
        · rw [if_pos hc0] at htag; rw [htag]
        · exact wrapAs_tag_irrelevant p false _ _ s (fun hh => hc0 (hcls.mpr hh))

theorem time_RT (d : Dialect) (p : FP) (bs : Bytes) (v : AVal) (rest : Bytes)
    (h : parseField d .canon .time p bs = .ok (v, rest)) : RT d .time p bs v rest := by
  simp only [parseField] at h
  rcases canon_shell d .time p bs _ v rest h with ⟨_, w, rfl, hom, rfl⟩ | ⟨tl, utag, inner, consumed, outer, hh, hk, hcp, hco, hom⟩
  · exact ⟨[], absent_marshal d .time p w rfl hom, rfl⟩
  · obtain ⟨hcw, hsp, hut, hcls⟩ := consumed_wrapAs _ (canon_dialect d) .time p bs (by intro h; cases h) _ _ _ _ _ _ hh hcp hco
    unfold parseLeaf at hk
    simp only [Mode.isLax, Mode.isCanon, Bool.true_and] at hk
    cases hs : (if utag = tagUTCTime then parseUTCTime inner else parseGeneralizedTime (d.forMode .canon) inner) with
    | error e => rw [hs] at hk; cases hk
    | ok tv =>
      rw [hs] at hk
      simp only [] at hk
      have hp : p.stringType = 0 ∧ p.set = false := by
        simp [canonParams] at hcp; simp [hcp]
      -- the tag and the text `makeField` / `makeBody` choose for this time
      generalize hT : (if p.timeType = tagGeneralizedTime ∨ outsideUTCRange tv = true then tagGeneralizedTime else tagUTCTime) = tagT at hk
      generalize hE : (if p.timeType = tagGeneralizedTime ∨ outsideUTCRange tv = true then encGeneralizedTime tv else encUTCTime tv) = encT at hk
      by_cases hc : (!((tl.cls != 0 || utag == tagT) && inner == encT)) = true
      · rw [if_pos hc] at hk; cases hk
      · rw [if_neg hc] at hk
        cases hk
        simp only [Bool.not_eq_true, Bool.not_eq_false', Bool.and_eq_true, Bool.or_eq_true, beq_iff_eq, bne_iff_ne, ne_eq] at hc
        obtain ⟨htag, hin⟩ := hc
        refine ⟨consumed, ?_, hsp⟩
        simp only [marshalField, marshalShell]
        rw [if_neg (by rw [hom]; simp)]
        simp only [AVal.unwrap, universalType, nilBigInt, hp.1, hp.2, marshalLeafBody, hT, hE]
        simp only [Bool.false_eq_true, if_false, ne_eq, not_true_eq_false, decide_false, Bool.and_false, Bool.false_and]
        rw [hcw, hin]
        congr 1
        rcases htag with hne | heq
        · exact wrapAs_tag_irrelevant p false _ _ encT (fun hh => hne (hcls.mpr hh))
        · rw [heq]; rfl

/-! ## structs and slices -/

/-- `stripTagAndLength` applied to the RawContent of a struct that has no explicit tag gives back the content -/
theorem strip_consumed (d d' : Dialect) (hd' : d'.b128min = true) (t : ATy) (p : FP) (bs : Bytes) (he : p.explicit = false)
    (tl : TL) (utag : Nat) (inner rest consumed : Bytes) (outer : Option (Nat × Nat))
    (hh : header d' t p bs = .ok (.body tl utag inner rest consumed outer)) :
    stripTagAndLength d consumed = inner ∧ consumed ≠ [] := by
  obtain ⟨hsp, hdr', hc, hl⟩ := header_consumed d' t p bs _ _ _ _ _ _ hh
  unfold header at hh
  cases h0 : parseTagLen d' bs with
  | error e => rw [h0] at hh; cases hh
  | ok x =>
    obtain ⟨tl0, r1⟩ := x
    rw [h0] at hh
    simp only [he, Bool.false_eq_true, if_false] at hh
    obtain ⟨_, rfl, rfl, rfl, hle, _, _, _⟩ := headerBody_inner_length _ _ _ _ _ _ _ _ _ _ _ _ hh
    obtain ⟨hdr, hbs, hl2, hall⟩ := parseTagLen_cancel d' bs tl r1 h0
    have hcons : consumed = hdr ++ List.take tl.len r1 := by
      have : consumed ++ List.drop tl.len r1 = (hdr ++ List.take tl.len r1) ++ List.drop tl.len r1 := by
        rw [← hsp, List.append_assoc, List.take_append_drop]; exact hbs
      exact List.append_cancel_right this
    have hne : consumed ≠ [] := by
      rw [hcons]; cases hdr with
      | nil => simp at hl2
      | cons x xs => simp
    refine ⟨?_, hne⟩
    have hp := hall d (List.take tl.len r1) (fun _ => hd')
    rw [← hcons] at hp
    unfold stripTagAndLength
    cases hcc : consumed with
    | nil => exact absurd hcc hne
    | cons c cs =>
      simp only []
      rw [← hcc, hp]

/-- the two passes of `parseSequenceOf` tile the content: given the round trip for the element type, the encodings of the
decoded elements concatenate to exactly the content octets -/
theorem elems_tiling (d : Dialect) (e : ATy) (he : e.isAny = false)
    (hE : ∀ bs v rest, parseField d .canon e {} bs = .ok (v, rest) → RT d e {} bs v rest) :
    ∀ (f n : Nat) (bs : Bytes) (vs : List AVal),
      countElems (d.forMode .canon) (universalType e) f bs = .ok n →
      parseElemsWith (parseField d .canon e {}) n bs = .ok vs →
      ∃ encs, marshalElemsWith (marshalField d e {}) vs = .ok encs ∧ concatAll encs = bs
  | 0, _, _, _, h, _ => by simp [countElems] at h
  | f+1, n, [], vs, h, h2 => by
    simp [countElems] at h
    subst h
    simp [parseElemsWith] at h2
    subst h2
    exact ⟨[], rfl, rfl⟩
  | f+1, n, b :: bs, vs, h, h2 => by
    simp only [countElems] at h
    cases h0 : parseTagLen (d.forMode .canon) (b :: bs) with
    | error err => rw [h0] at h; cases h
    | ok x =>
      obtain ⟨tl, r⟩ := x
      rw [h0] at h
      simp only [] at h
      have key : ∃ n', ¬ tl.len > r.length ∧ countElems (d.forMode .canon) (universalType e) f (r.drop tl.len) = .ok n' ∧ n = n' + 1 := by
        repeat' split at h
        all_goals first
          | (cases h; done)
          | (cases h; exact ⟨_, by assumption, by assumption, rfl⟩)
      obtain ⟨n', hlen, h1, rfl⟩ := key
      simp only [parseElemsWith] at h2
      cases h3 : parseField d .canon e {} (b :: bs) with
      | error err => rw [h3] at h2; cases h2
      | ok y =>
        obtain ⟨v, rest1⟩ := y
        rw [h3] at h2
        simp only [] at h2
        cases h4 : parseElemsWith (parseField d .canon e {}) n' rest1 with
        | error err => rw [h4] at h2; cases h2
        | ok vs' =>
          rw [h4] at h2
          cases h2
          -- the element parsed is the element counted
          obtain ⟨el, hr, _⟩ := plainField_readTLV d .canon e {} _ _ _ ⟨rfl, rfl, he⟩ h3
          have hrest : rest1 = r.drop tl.len := by
            unfold readTLV at hr
            rw [h0] at hr
            simp only [] at hr
            rw [if_neg hlen] at hr
            cases hr; rfl
          subst hrest
          obtain ⟨encs, hm, hc⟩ := elems_tiling d e he hE f n' _ vs' h1 h4
          obtain ⟨enc, hme, hsp⟩ := hE _ _ _ h3
          refine ⟨enc :: encs, ?_, ?_⟩
          · simp only [marshalElemsWith, hme, hm]
          · simp only [concatAll, hc]; exact hsp.symm

theorem utagOf_struct (raw : Bool) (fs : AFields) (p : FP) (tl : TL) :
    utagOf (.struct raw fs) p tl = (if p.set then tagSet else tagSequence) := by
  simp [utagOf, universalType, tagSequence, tagPrintableString, tagUTCTime]

theorem utagOf_seqOf (s : Bool) (e : ATy) (p : FP) (tl : TL) :
    utagOf (.seqOf s e) p tl = (if p.set then tagSet else (if s then tagSet else tagSequence)) := by
  cases s <;> simp [utagOf, universalType, tagSequence, tagSet, tagPrintableString, tagUTCTime]

mutual
/-- **marshal_parse.** Whatever `parseField` accepts in `canon` mode, `marshalField` writes back octet for octet. -/
theorem marshal_parse_field (d : Dialect) : ∀ (t : ATy) (p : FP) (bs : Bytes) (v : AVal) (rest : Bytes),
    parseField d .canon t p bs = .ok (v, rest) → RT d t p bs v rest
  | .struct raw fs, p, bs, v, rest, h => by
    simp only [parseField] at h
    rcases canon_shell d (.struct raw fs) p bs _ v rest h with ⟨_, w, rfl, hom, rfl⟩ | ⟨tl, utag, inner, consumed, outer, hh, hk, hcp, hco, hom⟩
    · exact ⟨[], absent_marshal d _ p w rfl hom, rfl⟩
    · obtain ⟨hcw, hsp, hut, _⟩ := consumed_wrapAs _ (canon_dialect d) (.struct raw fs) p bs (by intro h; cases h) _ _ _ _ _ _ hh hcp hco
      cases hf : parseFields d (Mode.canon.under raw) fs inner with
      | error e => rw [hf] at hk; cases hk
      | ok x =>
        obtain ⟨vs, left⟩ := x
        rw [hf] at hk
        simp only [] at hk
        by_cases hc : (Mode.canon.isCanon && !raw && !left.isEmpty) = true
        · rw [if_pos hc] at hk; cases hk
        · rw [if_neg hc] at hk
          cases hk
          have hp : p.timeType = 0 ∧ p.stringType = 0 := by
            cases raw <;> simp [canonParams] at hcp <;> simp [hcp]
          have hgoal : wrapAs p true (if p.set = true then tagSet else tagSequence) inner = consumed := by
            rw [hcw, hut, utagOf_struct]; rfl
          refine ⟨consumed, ?_, hsp⟩
          simp only [marshalField, marshalShell]
          rw [if_neg (by rw [hom]; simp)]
          cases raw with
          | false =>
            have hleft : left = [] := by
              simp only [Mode.isCanon, Bool.not_false, Bool.true_and, Bool.not_eq_true', Bool.not_eq_false'] at hc
              simpa using hc
            subst hleft
            obtain ⟨enc, hm, hin⟩ := marshal_parse_fields d fs inner vs [] hf
            simp only [List.append_nil] at hin
            subst hin
            simp [AVal.unwrap, universalType, nilBigInt, hp.1, hp.2, hm, tagSequence] at hgoal ⊢
            exact hgoal
          | true =>
            have hex : p.explicit = false := by
              simp [canonParams] at hcp; simp [hcp]
            obtain ⟨hstrip, hne⟩ := strip_consumed d _ (canon_dialect d) _ p bs hex _ _ _ _ _ _ hh
            have hne' : consumed.isEmpty = false := by
              cases consumed with
              | nil => exact absurd rfl hne
              | cons c cs => rfl
            simp [AVal.unwrap, universalType, nilBigInt, hp.1, hp.2, hne', hstrip, tagSequence] at hgoal ⊢
            exact hgoal
  | .seqOf s e, p, bs, v, rest, h => by
    simp only [parseField] at h
    rcases canon_shell d (.seqOf s e) p bs _ v rest h with ⟨_, w, rfl, hom, rfl⟩ | ⟨tl, utag, inner, consumed, outer, hh, hk, hcp, hco, hom⟩
    · exact ⟨[], absent_marshal d _ p w rfl hom, rfl⟩
    · obtain ⟨hcw, hsp, hut, _⟩ := consumed_wrapAs _ (canon_dialect d) (.seqOf s e) p bs (by intro h; cases h) _ _ _ _ _ _ hh hcp hco
      by_cases hsort : (Mode.canon.isCanon && d.sortSetOf && (p.set || s)) = true
      · rw [if_pos hsort] at hk; cases hk
      · rw [if_neg hsort] at hk
        by_cases hany : e.isAny = true
        · rw [if_pos hany] at hk; cases hk
        · rw [if_neg hany] at hk
          cases hn : countElems (d.forMode .canon) (universalType e) (inner.length + 1) inner with
          | error err => rw [hn] at hk; cases hk
          | ok n =>
            rw [hn] at hk
            simp only [] at hk
            cases hvs : parseElemsWith (parseField d .canon e {}) n inner with
            | error err => rw [hvs] at hk; cases hk
            | ok vs =>
              rw [hvs] at hk
              cases hk
              obtain ⟨encs, hm, hcat⟩ := elems_tiling d e (by simpa using hany)
                (fun bs v rest h => marshal_parse_field d e {} bs v rest h) _ n inner vs hn hvs
              have hp : p.timeType = 0 ∧ p.stringType = 0 ∧ (p.set = true → s = false) := by
                cases s <;> simp [canonParams] at hcp <;> simp [hcp]
              have hsort' : (d.sortSetOf && (p.set || s)) = false := by
                simpa [Mode.isCanon] using hsort
              have hgoal : wrapAs p true (if p.set = true then tagSet else (if s = true then tagSet else tagSequence)) inner = consumed := by
                rw [hcw, hut, utagOf_seqOf]; rfl
              refine ⟨consumed, ?_, hsp⟩
              simp only [marshalField, marshalShell]
              rw [if_neg (by rw [hom]; simp)]
              cases hset : p.set with
              | false =>
                cases s <;> simp [AVal.unwrap, universalType, nilBigInt, hp.1, hp.2.1, hm, hcat, hset, tagSequence, tagSet] at hsort' hgoal ⊢ <;>
                  simp [hsort', hcat, hgoal]
              | true =>
                have := hp.2.2 hset
                subst this
                simp [AVal.unwrap, universalType, nilBigInt, hp.1, hp.2.1, hm, hset, tagSequence, tagSet] at hsort' hgoal ⊢
                simp [hsort', hcat, hgoal]
  | .bool, p, bs, v, rest, h => simple_leaf_RT d _ p bs v rest rfl h
  | .int32, p, bs, v, rest, h => simple_leaf_RT d _ p bs v rest rfl h
  | .int64, p, bs, v, rest, h => simple_leaf_RT d _ p bs v rest rfl h
  | .bigInt, p, bs, v, rest, h => simple_leaf_RT d _ p bs v rest rfl h
  | .enum, p, bs, v, rest, h => simple_leaf_RT d _ p bs v rest rfl h
  | .bitString, p, bs, v, rest, h => simple_leaf_RT d _ p bs v rest rfl h
  | .octets, p, bs, v, rest, h => simple_leaf_RT d _ p bs v rest rfl h
  | .oid, p, bs, v, rest, h => simple_leaf_RT d _ p bs v rest rfl h
  | .flag, p, bs, v, rest, h => simple_leaf_RT d _ p bs v rest rfl h
  | .str, p, bs, v, rest, h => str_RT d p bs v rest h
  | .time, p, bs, v, rest, h => time_RT d p bs v rest h
  | .rawValue, p, bs, v, rest, h => rawValue_RT d p bs v rest h
  | .any, p, bs, v, rest, h => by
    -- `Canon` has no `interface{}` targets
    simp only [parseField] at h
    rcases canon_shell d .any p bs _ v rest h with ⟨ha, _⟩ | ⟨tl, utag, inner, consumed, outer, hh, _⟩
    · cases ha
    · exfalso
      unfold fieldShell at h
      by_cases hb : bs = []
      · subst hb
        unfold header at hh
        simp [parseTagLen, parseTag] at hh
      · rw [if_neg hb] at h
        simp [ATy.isAny, Mode.isCanon] at h
/-- the field loop -/
theorem marshal_parse_fields (d : Dialect) : ∀ (fs : AFields) (bs : Bytes) (vs : List AVal) (left : Bytes),
    parseFields d .canon fs bs = .ok (vs, left) → ∃ enc, marshalFields d fs vs = .ok enc ∧ bs = enc ++ left
  | .nil, bs, vs, left, h => by
    simp only [parseFields, Except.ok.injEq, Prod.mk.injEq] at h
    obtain ⟨rfl, rfl⟩ := h
    exact ⟨[], rfl, rfl⟩
  | .cons p t rest, bs, ws, left, h => by
    obtain ⟨v, bs', vs, h1, h2, rfl⟩ := parseFields_cons d .canon _ _ _ _ _ _ h
    obtain ⟨enc1, hm1, hs1⟩ := marshal_parse_field d t p bs v bs' h1
    obtain ⟨enc2, hm2, hs2⟩ := marshal_parse_fields d rest bs' vs left h2
    refine ⟨enc1 ++ enc2, ?_, ?_⟩
    · simp only [marshalFields, hm1, hm2]
    · rw [hs1, hs2, List.append_assoc]
end

end CTV.Der
