import CTV.Lemmas.DerContent
import CTV.Lemmas.DerPrefix
import CTV.Lemmas.DerSlices
/-!
# Marshal ∘ Unmarshal on canonical input: the shell (headers, implicit / explicit tags) and the lift through struct
fields and slice elements.
-/
namespace CTV.Der

/-- detailed inversion of `header … = ok (body …)` -/
theorem header_body_inv (d : Dialect) (t : ATy) (p : FP) (bs : Bytes) (B : Hdr) (hB : ∀ r, B ≠ .flagSet r) (hB' : B ≠ .absent)
    (h : header d t p bs = .ok B) :
    ∃ tl0 r1, parseTagLen d bs = .ok (tl0, r1) ∧
      ((p.explicit = false ∧ headerBody t p bs tl0 r1 none = .ok B) ∨
       (p.explicit = true ∧ t = .rawValue ∧ headerBody t p bs tl0 r1 none = .ok B) ∨
       (p.explicit = true ∧ t ≠ .rawValue ∧ tl0.cls = (if p.application = true then 1 else 2) ∧ tl0.tag = p.tag.getD 0 ∧
          tl0.compound = true ∧ tl0.len > 0 ∧
          ∃ tl r2, parseTagLen d r1 = .ok (tl, r2) ∧ headerBody t p bs tl r2 (some (tl0.len, r1.length)) = .ok B)) := by
  unfold header at h
  cases h0 : parseTagLen d bs with
  | error e => rw [h0] at h; cases h
  | ok x =>
    obtain ⟨tl0, r1⟩ := x
    rw [h0] at h
    refine ⟨tl0, r1, rfl, ?_⟩
    simp only [] at h
    by_cases he : p.explicit = true
    · rw [if_pos he] at h
      by_cases hr : r1 = []
      · rw [if_pos hr] at h; cases h
      · rw [if_neg hr] at h
        by_cases hm : tl0.cls = (if p.application = true then 1 else 2) ∧ tl0.tag = p.tag.getD 0 ∧ (tl0.len = 0 ∨ tl0.compound = true)
        · rw [if_pos hm] at h
          by_cases hraw : t = .rawValue
          · subst hraw
            simp only [] at h
            exact Or.inr (Or.inl ⟨he, rfl, h⟩)
          · split at h
            · exact absurd rfl hraw
            · by_cases hl : tl0.len > 0
              · rw [if_pos hl] at h
                cases h1 : parseTagLen d r1 with
                | error e => rw [h1] at h; cases h
                | ok y =>
                  obtain ⟨tl, r2⟩ := y
                  rw [h1] at h
                  have hc : tl0.compound = true := by
                    rcases hm.2.2 with h0' | hc
                    · omega
                    · exact hc
                  exact Or.inr (Or.inr ⟨he, hraw, hm.1, hm.2.1, hc, hl, tl, r2, rfl, h⟩)
              · rw [if_neg hl] at h
                split at h
                · cases h; exact absurd rfl (hB r1)
                · cases h
        · rw [if_neg hm] at h
          unfold headerMiss at h
          split at h
          · cases h; exact absurd rfl hB'
          · cases h
    · rw [if_neg he] at h
      exact Or.inl ⟨by simpa using he, h⟩

theorem wrapHeader_eq (cls : Nat) (compound : Bool) (tag : Nat) (body : Bytes) (tl : TL)
    (h1 : tl.cls = cls) (h2 : tl.tag = tag) (h3 : tl.compound = compound) (h4 : tl.len = body.length) :
    wrapHeader cls compound tag body = encTagLen tl ++ body := by
  unfold wrapHeader
  congr 2
  cases tl; simp at h1 h2 h3 h4; subst h1 h2 h3 h4; rfl

/-- what `tagMismatch = false` says for a type that is not RawValue -/
theorem tagMismatch_false (t : ATy) (p : FP) (tl : TL) (hraw : t ≠ .rawValue) (h : tagMismatch t p tl = false) :
    tl.compound = (universalType t).2.2 ∧
    tl.cls = (expected p false (utagOf t p tl)).1 ∧ tl.tag = (expected p false (utagOf t p tl)).2.1 := by
  have hma : (universalType t).1 = false := by cases t <;> first | rfl | exact absurd rfl hraw
  unfold tagMismatch at h
  rw [show universalType t = ((universalType t).1, (universalType t).2.1, (universalType t).2.2) from rfl] at h
  simp only [hma] at h
  have hexp : (expected p false (utagOf t p tl)).2.2 = false := by
    unfold expected
    cases p.explicit <;> cases p.tag <;> cases p.application <;> cases p.priv <;> rfl
  generalize hE : expected p false (utagOf t p tl) = E at h hexp ⊢
  obtain ⟨ec, et, em⟩ := E
  simp only [] at hexp
  subst hexp
  simp only [Bool.not_false, Bool.true_and, Bool.or_eq_false_iff, bne_eq_false_iff_eq] at h
  exact ⟨h.2, h.1.1, h.1.2⟩

/-- **the shell**: under `Canon`, what `parseField` consumed is what `makeField` writes around the content `inner`
(universal header, implicit tag, or explicit wrapper), for every type but RawValue -/
theorem consumed_wrapAs (d : Dialect) (hd : d.b128min = true) (t : ATy) (p : FP) (bs : Bytes) (hraw : t ≠ .rawValue)
    (tl : TL) (utag : Nat) (inner rest consumed : Bytes) (outer : Option (Nat × Nat))
    (hh : header d t p bs = .ok (.body tl utag inner rest consumed outer))
    (hcp : canonParams t p = true) (hco : canonOuter tl (inner.length + rest.length) outer = true) :
    consumed = wrapAs p (universalType t).2.2 utag inner ∧ bs = consumed ++ rest ∧ utag = utagOf t p tl ∧
      (tl.cls = 0 ↔ (p.tag = none ∨ p.explicit = true)) := by
  have hsplit := (header_consumed d t p bs _ _ _ _ _ _ hh).1
  obtain ⟨tl0, r1, h0, hc⟩ := header_body_inv d t p bs _ (by intro r h; cases h) (by intro h; cases h) hh
  have hrt0 := parseTagLen_roundtrip d hd _ _ _ h0
  -- the parameter facts packed in canonParams
  have hisRaw : (match t with | .rawValue => true | _ => false) = false := by
    cases t <;> first | rfl | exact absurd rfl hraw
  unfold canonParams at hcp
  simp only [hisRaw, Bool.false_or, Bool.and_eq_true, Bool.or_eq_true, Bool.not_eq_true'] at hcp
  obtain ⟨⟨⟨⟨⟨hexpl, _⟩, _⟩, _⟩, hcls⟩, _⟩ := hcp
  rcases hc with ⟨he, hb⟩ | ⟨_, hr, _⟩ | ⟨he, _, hc1, hc2, hc3, hc4, tl1, r2, h1, hb⟩
  · -- implicit / universal
    obtain ⟨hlen, rfl, rfl, rfl, _, hmm, hut, _⟩ := headerBody_inner_length _ _ _ _ _ _ _ _ _ _ _ _ hb
    obtain ⟨hcomp, hcl, htg⟩ := tagMismatch_false t p tl hraw hmm
    have hcons : consumed = encTagLen tl ++ List.take tl.len r1 := by
      have : consumed ++ List.drop tl.len r1 = (encTagLen tl ++ List.take tl.len r1) ++ List.drop tl.len r1 := by
        rw [← hsplit, List.append_assoc, List.take_append_drop]; exact hrt0
      exact List.append_cancel_right this
    refine ⟨?_, hsplit, hut, ?_⟩
    · rw [hcons]
      unfold wrapAs
      cases hpt : p.tag with
      | none =>
        simp only []
        symm
        apply wrapHeader_eq
        · rw [hcl]; unfold expected; simp [he, hpt]
        · rw [htg, ← hut]; unfold expected; simp [he, hpt]
        · exact hcomp
        · exact hlen.symm
      | some pt =>
        simp only [he, Bool.false_eq_true, if_false]
        symm
        apply wrapHeader_eq
        · rw [hcl]
          rw [hpt] at hcls
          simp only [he, Bool.false_eq_true, if_false, beq_iff_eq] at hcls
          rw [hcls]
          unfold expected
          cases p.application <;> cases p.priv <;> simp [he, hpt]
        · rw [htg]; unfold expected
          cases p.application <;> cases p.priv <;> simp [he, hpt]
        · exact hcomp
        · exact hlen.symm
    · rw [hcl]; unfold expected
      cases hpt : p.tag <;> cases p.application <;> cases p.priv <;> simp [he, hpt]
  · exact absurd hr hraw
  · -- explicit wrapper
    obtain ⟨hlen, rfl, rfl, rfl, _, hmm, hut, rfl⟩ := headerBody_inner_length _ _ _ _ _ _ _ _ _ _ _ _ hb
    obtain ⟨hcomp, hcl, htg⟩ := tagMismatch_false t p tl hraw hmm
    have hrt1 := parseTagLen_roundtrip d hd _ _ _ h1
    have hcons : consumed = encTagLen tl0 ++ (encTagLen tl ++ List.take tl.len r2) := by
      have : consumed ++ List.drop tl.len r2 = (encTagLen tl0 ++ (encTagLen tl ++ List.take tl.len r2)) ++ List.drop tl.len r2 := by
        rw [← hsplit, List.append_assoc, List.append_assoc, List.take_append_drop, ← hrt1]; exact hrt0
      exact List.append_cancel_right this
    have hsome : p.tag.isSome = true := by
      rcases hexpl with h | h
      · rw [he] at h; cases h
      · exact h
    obtain ⟨pt, hpt⟩ := Option.isSome_iff_exists.mp hsome
    have hr1len : r1.length - r2.length = (encTagLen tl).length := by
      rw [hrt1]; simp
    subst hut
    refine ⟨?_, hsplit, rfl, ?_⟩
    · rw [hcons]
      unfold wrapAs
      simp only [hpt, he, if_true]
      have hin : wrapHeader 0 (universalType t).2.2 (utagOf t p tl) (List.take tl.len r2) = encTagLen tl ++ List.take tl.len r2 := by
        apply wrapHeader_eq
        · rw [hcl]; unfold expected; simp [he]
        · rw [htg]; unfold expected; simp [he]
        · exact hcomp
        · exact hlen.symm
      rw [hin]
      symm
      apply wrapHeader_eq
      · rw [hc1]
        rw [hpt] at hcls
        simp only [he, if_true, beq_iff_eq] at hcls
        exact hcls.symm
      · rw [hc2, hpt]; rfl
      · exact hc3
      · simp only [canonOuter, beq_iff_eq] at hco
        have h2 : (List.take tl.len r2).length + (List.drop tl.len r2).length = r2.length := by
          rw [← List.length_append, List.take_append_drop]
        rw [h2] at hco
        rw [hco, hr1len, List.length_append, hlen]
    · rw [hcl]; unfold expected; simp [he]

/-! ## leaves -/

/-- `parseField … = ok (v, rest)` in `canon` mode round-trips through `marshalField` -/
def RT (d : Dialect) (t : ATy) (p : FP) (bs : Bytes) (v : AVal) (rest : Bytes) : Prop :=
  ∃ enc, marshalField d t p v = .ok enc ∧ bs = enc ++ rest

theorem canon_dialect (d : Dialect) : (d.forMode .canon).b128min = true := rfl

/-- the leaf types whose universal tag does not depend on the value -/
def ATy.simpleLeaf : ATy → Bool
  | .bool | .int32 | .int64 | .bigInt | .enum | .bitString | .octets | .oid | .flag => true
  | _ => false

theorem canon_simple (t : ATy) (p : FP) (hs : t.simpleLeaf = true) (hcp : canonParams t p = true) :
    p.timeType = 0 ∧ p.stringType = 0 ∧ p.set = false := by
  cases t <;> simp [ATy.simpleLeaf] at hs <;> simp [canonParams] at hcp <;> simp [hcp]

/-- content round trip of every simple leaf, as `parseLeaf` / `marshalLeafBody` pair them -/
theorem simple_leaf_content (d : Dialect) (hd : d.b128min = true) (t : ATy) (p : FP) (hs : t.simpleLeaf = true) (tl : TL) (utag : Nat)
    (inner consumed : Bytes) (v : AVal) (h : parseLeaf d .canon t p tl utag inner consumed = .ok v) :
    marshalLeafBody t p v = .ok inner ∧ v.unwrap = v ∧ (∀ w, v ≠ .absent w) := by
  unfold parseLeaf at h
  cases t <;> simp [ATy.simpleLeaf] at hs <;> simp only [Mode.isLax, Mode.isCanon, Bool.true_and] at h
  · -- bool
    cases hb : parseBool inner with
    | error e => rw [hb] at h; cases h
    | ok b => rw [hb] at h; cases h; exact ⟨by simp [marshalLeafBody, parseBool_roundtrip _ _ hb], rfl, by intro w hw; cases hw⟩
  · cases hb : parseInt32 false inner with
    | error e => rw [hb] at h; cases h
    | ok b => rw [hb] at h; cases h; exact ⟨by simp [marshalLeafBody, parseInt32_roundtrip _ _ hb], rfl, by intro w hw; cases hw⟩
  · cases hb : parseInt64 false inner with
    | error e => rw [hb] at h; cases h
    | ok b => rw [hb] at h; cases h; exact ⟨by simp [marshalLeafBody, parseInt64_roundtrip _ _ hb], rfl, by intro w hw; cases hw⟩
  · cases hb : parseBigInt false inner with
    | error e => rw [hb] at h; cases h
    | ok b => rw [hb] at h; cases h; exact ⟨by simp [marshalLeafBody, parseBigInt_roundtrip _ _ hb], rfl, by intro w hw; cases hw⟩
  · cases hb : parseInt32 false inner with
    | error e => rw [hb] at h; cases h
    | ok b => rw [hb] at h; cases h; exact ⟨by simp [marshalLeafBody, parseInt32_roundtrip _ _ hb], rfl, by intro w hw; cases hw⟩
  · cases hb : parseBitString inner with
    | error e => rw [hb] at h; cases h
    | ok b => rw [hb] at h; cases h; exact ⟨by simp [marshalLeafBody, parseBitString_roundtrip _ _ hb], rfl, by intro w hw; cases hw⟩
  · cases h; exact ⟨rfl, rfl, by intro w hw; cases hw⟩
  · cases hb : parseOID d false inner with
    | error e => rw [hb] at h; cases h
    | ok b => rw [hb] at h; cases h; exact ⟨by simp [marshalLeafBody, parseOID_roundtrip d hd _ _ hb], rfl, by intro w hw; cases hw⟩
  · -- flag: canon demands empty content
    by_cases he : (!inner.isEmpty) = true
    · rw [if_pos he] at h; cases h
    · rw [if_neg he] at h; cases h
      have : inner = [] := by simpa using he
      exact ⟨by simp [marshalLeafBody, this], rfl, by intro w hw; cases hw⟩

theorem nilBigInt_false (t : ATy) (v : AVal) (h : ∀ w, v ≠ .absent w) : nilBigInt t v = false := by
  unfold nilBigInt
  cases v <;> first | (exact absurd rfl (h _)) | (cases t <;> rfl)

theorem absent_marshal (d : Dialect) (t : ATy) (p : FP) (w : AVal) (hna : t.isAny = false) (hom : omitted t p (.absent w) = true) :
    marshalField d t p (.absent w) = .ok [] := by
  cases t <;> first | (cases hna; done) | simp only [marshalField, marshalShell, hom, if_true]

/-- inversion common to every type: in `canon` mode a successful `fieldShell` is an omitted absent field or a body -/
theorem canon_shell (d : Dialect) (t : ATy) (p : FP) (bs : Bytes) (k : TL → Nat → Bytes → Bytes → Except Err AVal) (v : AVal) (rest : Bytes)
    (h : fieldShell d .canon t p bs k = .ok (v, rest)) :
    (t.isAny = false ∧ ∃ w, v = .absent w ∧ omitted t p v = true ∧ bs = rest) ∨
    (∃ tl utag inner consumed outer, header (d.forMode .canon) t p bs = .ok (.body tl utag inner rest consumed outer) ∧
      k tl utag inner consumed = .ok v ∧ canonParams t p = true ∧ canonOuter tl (inner.length + rest.length) outer = true ∧
      omitted t p v = false) := by
  cases fieldShell_ok _ _ _ _ _ _ _ _ h with
  | emptyAbsent hb ho hr hv hom =>
    subst hb hr
    refine Or.inl ⟨?_, _, hv, hom rfl, rfl⟩
    cases hany : t.isAny with
    | false => rfl
    | true =>
      have : omitted t p v = false := by
        cases t <;> simp [ATy.isAny] at hany
        simp [omitted]
      rw [hom rfl] at this; cases this
  | any _ hc _ => cases hc
  | absent hh ho hr hv hom =>
    subst hr
    refine Or.inl ⟨?_, _, hv, hom rfl, rfl⟩
    cases hany : t.isAny with
    | false => rfl
    | true =>
      have : omitted t p v = false := by
        cases t <;> simp [ATy.isAny] at hany
        simp [omitted]
      rw [hom rfl] at this; cases this
  | flagSet _ hc _ => cases hc
  | body tl utag inner consumed outer hh hk hcanon =>
    obtain ⟨hc1, hom⟩ := hcanon rfl
    simp only [Bool.and_eq_true] at hc1
    exact Or.inr ⟨tl, utag, inner, consumed, outer, hh, hk, hc1.1, hc1.2, hom⟩

theorem utagOf_simple (t : ATy) (p : FP) (tl : TL) (hs : t.simpleLeaf = true) (hset : p.set = false) :
    utagOf t p tl = (universalType t).2.1 := by
  cases t <;> simp [ATy.simpleLeaf] at hs <;>
    simp [utagOf, universalType, hset, tagPrintableString, tagUTCTime, tagBoolean, tagInteger, tagEnum, tagBitString, tagOctetString, tagOID]

/-- **marshal_parse for the simple leaves** BOOLEAN, INTEGER (int32 / int64 / *big.Int), ENUMERATED, BIT STRING, OCTET STRING,
OBJECT IDENTIFIER, Flag — under every field-parameter record -/
theorem simple_leaf_RT (d : Dialect) (t : ATy) (p : FP) (bs : Bytes) (v : AVal) (rest : Bytes) (hs : t.simpleLeaf = true)
    (h : parseField d .canon t p bs = .ok (v, rest)) : RT d t p bs v rest := by
  have hna : t.isAny = false := by cases t <;> simp [ATy.simpleLeaf] at hs <;> rfl
  have hraw : t ≠ .rawValue := by intro h; subst h; simp [ATy.simpleLeaf] at hs
  have hshell : parseField d .canon t p bs = fieldShell d .canon t p bs (fun tl utag inner consumed => parseLeaf (d.forMode .canon) .canon t p tl utag inner consumed) := by
    cases t <;> simp [ATy.simpleLeaf] at hs <;> simp only [parseField]
  rw [hshell] at h
  rcases canon_shell d t p bs _ v rest h with ⟨_, w, rfl, hom, rfl⟩ | ⟨tl, utag, inner, consumed, outer, hh, hk, hcp, hco, hom⟩
  · exact ⟨[], absent_marshal d t p w hna hom, rfl⟩
  · obtain ⟨hcw, hsp, hut, _⟩ := consumed_wrapAs _ (canon_dialect d) t p bs hraw _ _ _ _ _ _ hh hcp hco
    obtain ⟨hbody, hunw, hnb⟩ := simple_leaf_content _ (canon_dialect d) t p hs tl utag inner consumed v hk
    obtain ⟨htt, hst, hset⟩ := canon_simple t p hs hcp
    have hu := utagOf_simple t p tl hs hset
    refine ⟨consumed, ?_, hsp⟩
    rw [hcw, hut, hu]
    have hm : marshalField d t p v = marshalShell t p v (fun v => marshalLeafBody t p v) := by
      cases t <;> simp [ATy.simpleLeaf] at hs <;> simp only [marshalField]
    rw [hm]
    unfold marshalShell
    rw [if_neg (by rw [hom]; simp)]
    rw [hunw]
    have hnb' : nilBigInt t v = false := nilBigInt_false t v hnb
    cases t <;> simp [ATy.simpleLeaf] at hs <;>
      simp [hnb', htt, hst, hset, hbody, universalType]

/-! ## RawValue, strings, times -/

theorem rawValue_RT (d : Dialect) (p : FP) (bs : Bytes) (v : AVal) (rest : Bytes)
    (h : parseField d .canon .rawValue p bs = .ok (v, rest)) : RT d .rawValue p bs v rest := by
  simp only [parseField] at h
  rcases canon_shell d .rawValue p bs _ v rest h with ⟨_, w, rfl, hom, rfl⟩ | ⟨tl, utag, inner, consumed, outer, hh, hk, hcp, hco, hom⟩
  · exact ⟨[], absent_marshal d .rawValue p w rfl hom, rfl⟩
  · obtain ⟨hsp, hdr, hc, hl⟩ := header_consumed _ .rawValue p bs _ _ _ _ _ _ hh
    unfold parseLeaf at hk
    simp only [] at hk
    cases hk
    refine ⟨consumed, ?_, hsp⟩
    simp only [marshalField, marshalShell]
    rw [if_neg (by rw [hom]; simp)]
    simp only [AVal.unwrap]
    have : consumed.isEmpty = false := by
      rw [hc]; cases hdr with
      | nil => simp at hl
      | cons x xs => rfl
    simp [this]

theorem wrapAs_tag_irrelevant (p : FP) (c : Bool) (t1 t2 : Nat) (b : Bytes) (h : ¬ (p.tag = none ∨ p.explicit = true)) :
    wrapAs p c t1 b = wrapAs p c t2 b := by
  unfold wrapAs
  cases hpt : p.tag with
  | none => exact absurd (Or.inl hpt) h
  | some pt =>
    have : p.explicit = false := by
      cases he : p.explicit with
      | false => rfl
      | true => exact absurd (Or.inr he) h
    simp [this]

theorem str_RT (d : Dialect) (p : FP) (bs : Bytes) (v : AVal) (rest : Bytes)
    (h : parseField d .canon .str p bs = .ok (v, rest)) : RT d .str p bs v rest := by
  simp only [parseField] at h
  rcases canon_shell d .str p bs _ v rest h with ⟨_, w, rfl, hom, rfl⟩ | ⟨tl, utag, inner, consumed, outer, hh, hk, hcp, hco, hom⟩
  · exact ⟨[], absent_marshal d .str p w rfl hom, rfl⟩
  · obtain ⟨hcw, hsp, hut, hcls⟩ := consumed_wrapAs _ (canon_dialect d) .str p bs (by intro h; cases h) _ _ _ _ _ _ hh hcp hco
    unfold parseLeaf at hk
    simp only [Mode.isLax, Mode.isCanon, Bool.true_and] at hk
    cases hs : parseStringByTag false utag inner with
    | error e => rw [hs] at hk; cases hk
    | ok s =>
      rw [hs] at hk
      simp only [] at hk
      by_cases hc : (!(utag == (if tl.cls = 0 then marshalStringTag p s else utag) && marshalStringOK p s &&
          (utag == tagPrintableString || utag == tagUTF8String || utag == tagIA5String || utag == tagNumericString))) = true
      · rw [if_pos hc] at hk; cases hk
      · rw [if_neg hc] at hk
        cases hk
        simp only [Bool.not_eq_true, Bool.not_eq_false', Bool.and_eq_true, Bool.or_eq_true, beq_iff_eq] at hc
        obtain ⟨⟨htag, hok⟩, h4⟩ := hc
        have hsi : s = inner := parseStringByTag_id utag inner s (by
          rcases h4 with ((h | h) | h) | h
          · exact Or.inl h
          · exact Or.inr (Or.inl h)
          · exact Or.inr (Or.inr (Or.inl h))
          · exact Or.inr (Or.inr (Or.inr h))) hs
        subst hsi
        have hp : p.timeType = 0 ∧ p.set = false := by
          simp [canonParams] at hcp; simp [hcp]
        refine ⟨consumed, ?_, hsp⟩
        simp only [marshalField, marshalShell]
        rw [if_neg (by rw [hom]; simp)]
        simp only [AVal.unwrap, universalType, nilBigInt, hp.1, hp.2]
        -- the tag `makeField` picks is `marshalStringTag`, and the content test passes
        have htag1 : (if p.stringType = 0 then
              (if (List.all s fun b => decide (b.toNat < 128) && isPrintable b false false) = true then (Except.ok tagPrintableString : Except Err Nat)
               else if utf8Valid s = true then .ok tagUTF8String else .error .other)
            else .ok p.stringType) = .ok (marshalStringTag p s) := by
          unfold marshalStringTag marshalStringOK at *
          by_cases h0 : p.stringType = 0
          · simp only [h0, if_true, ne_eq, not_true_eq_false, if_false] at hok ⊢
            by_cases hpr : (List.all s fun b => decide (b.toNat < 128) && isPrintable b false false) = true
            · simp [hpr]
            · simp only [hpr, if_false]
              have : utf8Valid s = true := by
                simp only [tagIA5String, tagPrintableString, tagNumericString] at hok
                simpa [hpr] using hok
              simp [this]
          · simp [h0]
        simp only [Bool.false_eq_true, if_false, ne_eq, decide_not, Bool.and_false, tagPrintableString, not_true_eq_false, decide_false]
        simp only [tagPrintableString] at htag1
        rw [htag1]
        simp only [marshalLeafBody, hok, if_true]
        rw [hcw]
        simp only [Bool.false_and, Bool.false_eq_true, if_false, universalType]
        congr 1
        by_cases hc0 : tl.cls = 0
        · rw [if_pos hc0] at htag; rw [htag]
        · exact wrapAs_tag_irrelevant p false _ _ s (fun hh => hc0 (hcls.mpr hh))

theorem time_RT (d : Dialect) (p : FP) (bs : Bytes) (v : AVal) (rest : Bytes)
    (h : parseField d .canon .time p bs = .ok (v, rest)) : RT d .time p bs v rest := by
  simp only [parseField] at h
  rcases canon_shell d .time p bs _ v rest h with ⟨_, w, rfl, hom, rfl⟩ | ⟨tl, utag, inner, consumed, outer, hh, hk, hcp, hco, hom⟩
  · exact ⟨[], absent_marshal d .time p w rfl hom, rfl⟩
  · obtain ⟨hcw, hsp, hut, hcls⟩ := consumed_wrapAs _ (canon_dialect d) .time p bs (by intro h; cases h) _ _ _ _ _ _ hh hcp hco
    unfold parseLeaf at hk
    simp only [Mode.isLax, Mode.isCanon, Bool.true_and] at hk
    cases hs : (if utag = tagUTCTime then parseUTCTime inner else parseGeneralizedTime (d.forMode .canon) inner) with
    | error e => rw [hs] at hk; cases hk
    | ok tv =>
      rw [hs] at hk
      simp only [] at hk
      have hp : p.stringType = 0 ∧ p.set = false := by
        simp [canonParams] at hcp; simp [hcp]
      -- the tag and the text `makeField` / `makeBody` choose for this time
      generalize hT : (if p.timeType = tagGeneralizedTime ∨ outsideUTCRange tv = true then tagGeneralizedTime else tagUTCTime) = tagT at hk
      generalize hE : (if p.timeType = tagGeneralizedTime ∨ outsideUTCRange tv = true then encGeneralizedTime tv else encUTCTime tv) = encT at hk
      by_cases hc : (!((tl.cls != 0 || utag == tagT) && inner == encT)) = true
      · rw [if_pos hc] at hk; cases hk
      · rw [if_neg hc] at hk
        cases hk
        simp only [Bool.not_eq_true, Bool.not_eq_false', Bool.and_eq_true, Bool.or_eq_true, beq_iff_eq, bne_iff_ne, ne_eq] at hc
        obtain ⟨htag, hin⟩ := hc
        refine ⟨consumed, ?_, hsp⟩
        simp only [marshalField, marshalShell]
        rw [if_neg (by rw [hom]; simp)]
        simp only [AVal.unwrap, universalType, nilBigInt, hp.1, hp.2, marshalLeafBody, hT, hE]
        simp only [Bool.false_eq_true, if_false, ne_eq, not_true_eq_false, decide_false, Bool.and_false, Bool.false_and]
        rw [hcw, hin]
        congr 1
        rcases htag with hne | heq
        · exact wrapAs_tag_irrelevant p false _ _ encT (fun hh => hne (hcls.mpr hh))
        · rw [heq]; rfl

end CTV.Der
