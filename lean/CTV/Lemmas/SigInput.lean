import CTV.Model.SigInput
import Mathlib.Tactic.Ring
import Mathlib.Tactic.NormNum
/-! Injectivity of the RFC 6962 signature inputs of `CTV.SigInput`: the signed bytes determine every signed field. -/
namespace CTV.SigInput
open CTV
set_option linter.unusedSimpArgs false

theorem beEnc_inj (w a b : Nat) (ha : a < 256 ^ w) (hb : b < 256 ^ w) (h : beEnc w a = beEnc w b) : a = b := by
  have := congrArg beDec h
  rwa [beDec_beEnc w a ha, beDec_beEnc w b hb] at this

theorem opaqueVec_inj (w lo hi : Nat) (hhi : hi < 256 ^ w) (a b x y ra rb : Bytes)
    (hx : opaqueVec w lo hi a = some x) (hy : opaqueVec w lo hi b = some y) (e : x ++ ra = y ++ rb) :
    a = b ∧ ra = rb := by
  unfold opaqueVec at hx hy
  by_cases ca : lo ≤ a.length ∧ a.length ≤ hi
  · by_cases cb : lo ≤ b.length ∧ b.length ≤ hi
    · simp only [ca, cb, and_self, if_true, Option.some.injEq] at hx hy
      subst hx; subst hy
      simp only [List.append_assoc] at e
      obtain ⟨e1, e2⟩ := List.append_inj e (by simp [beEnc_length])
      have hl : a.length = b.length := beEnc_inj w _ _ (by omega) (by omega) e1
      exact List.append_inj e2 hl
    · simp [cb] at hy
  · simp [ca] at hx

theorem u64_inj (a b : UInt64) (h : beEnc 8 a.toNat = beEnc 8 b.toNat) : a = b := by
  have ha := a.toNat_lt
  have hb := b.toNat_lt
  have := beEnc_inj 8 _ _ (by norm_num; omega) (by norm_num; omega) h
  exact UInt64.toNat_inj.mp this

/-- the entry part of the SCT signature input determines the entry, and what follows it -/
theorem signedEntry_inj (e e' : Entry) (x y ra rb : Bytes)
    (hx : signedEntry e = some x) (hy : signedEntry e' = some y) (h : x ++ ra = y ++ rb) : e = e' ∧ ra = rb := by
  cases e with
  | other n => simp [signedEntry] at hx
  | x509 c =>
    cases e' with
    | other n => simp [signedEntry] at hy
    | x509 c' =>
      simp only [signedEntry] at hx hy
      cases ho : opaqueVec 3 1 16777215 c with
      | none => simp [ho] at hx
      | some o =>
        cases ho' : opaqueVec 3 1 16777215 c' with
        | none => simp [ho'] at hy
        | some o' =>
          simp only [ho, ho', Option.some.injEq] at hx hy
          subst hx; subst hy
          simp only [List.append_assoc, List.cons_append, List.nil_append, List.cons.injEq, true_and] at h
          obtain ⟨rfl, hr⟩ := opaqueVec_inj 3 1 16777215 (by norm_num) _ _ _ _ _ _ ho ho' h
          exact ⟨rfl, hr⟩
    | precert i t =>
      simp only [signedEntry] at hx hy
      cases ho : opaqueVec 3 1 16777215 c with
      | none => simp [ho] at hx
      | some o =>
        by_cases hi : i.length ≠ 32
        · simp [hi] at hy
        · cases ho' : opaqueVec 3 1 16777215 t with
          | none => simp [hi, ho'] at hy
          | some o' =>
            simp only [ho, hi, ho', if_false, Option.some.injEq] at hx hy
            subst hx; subst hy
            simp at h
  | precert i t =>
    cases e' with
    | other n => simp [signedEntry] at hy
    | x509 c' =>
      simp only [signedEntry] at hx hy
      cases ho' : opaqueVec 3 1 16777215 c' with
      | none => simp [ho'] at hy
      | some o' =>
        by_cases hi : i.length ≠ 32
        · simp [hi] at hx
        · cases ho : opaqueVec 3 1 16777215 t with
          | none => simp [hi, ho] at hx
          | some o =>
            simp only [ho, hi, ho', if_false, Option.some.injEq] at hx hy
            subst hx; subst hy
            simp at h
    | precert i' t' =>
      simp only [signedEntry] at hx hy
      by_cases hi : i.length ≠ 32
      · simp [hi] at hx
      by_cases hi' : i'.length ≠ 32
      · simp [hi'] at hy
      cases ho : opaqueVec 3 1 16777215 t with
      | none => simp [hi, ho] at hx
      | some o =>
        cases ho' : opaqueVec 3 1 16777215 t' with
        | none => simp [hi', ho'] at hy
        | some o' =>
          simp only [ho, hi, hi', ho', if_false, Option.some.injEq] at hx hy
          subst hx; subst hy
          simp only [List.append_assoc, List.cons_append, List.nil_append, List.cons.injEq, true_and] at h
          have hl : i.length = i'.length := by omega
          obtain ⟨rfl, h2⟩ := List.append_inj h hl
          obtain ⟨rfl, hr⟩ := opaqueVec_inj 3 1 16777215 (by norm_num) _ _ _ _ _ _ ho ho' h2
          exact ⟨rfl, hr⟩


/-- RFC 6962 §3.2: the bytes an SCT signature covers determine version, timestamp, entry and extensions -/
theorem sctSigInput_inj (v v' : Nat) (t t' : UInt64) (e e' : Entry) (x x' b : Bytes)
    (h : sctSigInput v t e x = some b) (h' : sctSigInput v' t' e' x' = some b) :
    v = v' ∧ t = t' ∧ e = e' ∧ x = x' := by
  unfold sctSigInput at h h'
  by_cases hv : v ≠ 0
  · simp [hv] at h
  by_cases hv' : v' ≠ 0
  · simp [hv'] at h'
  simp only [hv, hv', if_false] at h h'
  cases hs : signedEntry e with
  | none => simp [hs] at h
  | some se =>
    cases hs' : signedEntry e' with
    | none => simp [hs'] at h'
    | some se' =>
      cases ho : opaqueVec 2 0 65535 x with
      | none => simp [hs, ho] at h
      | some xo =>
        cases ho' : opaqueVec 2 0 65535 x' with
        | none => simp [hs', ho'] at h'
        | some xo' =>
          simp only [hs, hs', ho, ho', Option.some.injEq] at h h'
          have hb := h.trans h'.symm
          simp only [List.cons_append, List.nil_append, List.cons.injEq, true_and] at hb
          obtain ⟨ht, hrest⟩ := List.append_inj hb (by simp [beEnc_length])
          have htt := u64_inj _ _ ht
          obtain ⟨he, hx⟩ := signedEntry_inj e e' se se' xo xo' hs hs' hrest
          have hx2 : xo ++ [] = xo' ++ [] := by simpa using hx
          obtain ⟨hxx, _⟩ := opaqueVec_inj 2 0 65535 (by norm_num) _ _ _ _ _ _ ho ho' hx2
          exact ⟨by omega, htt, he, hxx⟩

/-- RFC 6962 §3.5: the bytes an STH signature covers determine version, timestamp, tree size and root hash -/
theorem sthSigInput_inj (v v' : Nat) (t t' n n' : UInt64) (r r' b : Bytes)
    (h : sthSigInput v t n r = some b) (h' : sthSigInput v' t' n' r' = some b) :
    v = v' ∧ t = t' ∧ n = n' ∧ r = r' := by
  unfold sthSigInput at h h'
  by_cases hv : v ≠ 0
  · simp [hv] at h
  by_cases hv' : v' ≠ 0
  · simp [hv'] at h'
  by_cases hr : r.length ≠ 32
  · simp [hv, hr] at h
  by_cases hr' : r'.length ≠ 32
  · simp [hv', hr'] at h'
  simp only [hv, hv', hr, hr', if_false, Option.some.injEq] at h h'
  have hb := h.trans h'.symm
  simp only [List.cons_append, List.nil_append, List.cons.injEq, true_and] at hb
  obtain ⟨ht, hrest⟩ := List.append_inj hb (by simp [beEnc_length])
  obtain ⟨hn, hroot⟩ := List.append_inj hrest (by simp [beEnc_length])
  exact ⟨by omega, u64_inj _ _ ht, u64_inj _ _ hn, hroot⟩

end CTV.SigInput
