import CTV.Tls.Tag
import CTV.Lemmas.TlsCheck
/-!
The tag grammar of `fieldTagToFieldInfo` as equations: what each documented clause form does to the
collected info, and what whole tags of the documented forms resolve to.
Numbers are quantified as *digit strings* `ds` with `parseUint bits ds = some n` (so leading zeros are covered).
-/
namespace Tls
open CTV

/-! ### `strings.Split` and `strings.HasPrefix` -/

theorem splitOn_ne_nil (c : Char) (s : List Char) : splitOn c s ≠ [] := by
  induction s with
  | nil => simp [splitOn]
  | cons x xs ih =>
    simp only [splitOn]
    split
    · simp
    · split
      · simp
      · simp

theorem splitOn_no_sep (c : Char) (s : List Char) (h : c ∉ s) : splitOn c s = [s] := by
  induction s with
  | nil => simp [splitOn]
  | cons x xs ih =>
    simp only [List.mem_cons, not_or] at h
    have hx : ¬ x = c := fun e => h.1 e.symm
    simp [splitOn, hx, ih h.2]

theorem splitOn_append (c : Char) (a b : List Char) (h : c ∉ a) :
    splitOn c (a ++ c :: b) = a :: splitOn c b := by
  induction a with
  | nil => simp [splitOn]
  | cons x xs ih =>
    simp only [List.mem_cons, not_or] at h
    have hx : ¬ x = c := fun e => h.1 e.symm
    simp [splitOn, hx, ih h.2]

theorem stripPrefix_self_append (p x : List Char) : stripPrefix p (p ++ x) = some x := by
  induction p with
  | nil => cases x <;> simp [stripPrefix]
  | cons a p ih => simp [stripPrefix, ih]

theorem stripPrefix_append_of_le (p q x : List Char) (hl : p.length ≤ q.length) :
    stripPrefix p (q ++ x) = (stripPrefix p q).map (· ++ x) := by
  induction p generalizing q with
  | nil => cases q <;> cases x <;> simp [stripPrefix]
  | cons a p ih =>
    cases q with
    | nil => simp at hl
    | cons b q =>
      simp only [List.cons_append, stripPrefix]
      split
      · exact ih q (by simpa using hl)
      · rfl

theorem stripPrefix_head_ne (a b : Char) (p q : List Char) (h : a ≠ b) : stripPrefix (a :: p) (b :: q) = none := by
  simp [stripPrefix, h]

/-! ### `strconv.ParseUint` -/

theorem digitVal_some (c : Char) (d : Nat) (h : digitVal c = some d) : c ≠ ',' := by
  intro hc; subst hc
  simp [digitVal] at h

theorem parseDigits_no_comma (s : List Char) (acc n : Nat) (h : parseDigits s acc = some n) : ',' ∉ s := by
  induction s generalizing acc with
  | nil => simp
  | cons c cs ih =>
    simp only [parseDigits] at h
    split at h
    · rename_i d hd
      simp only [List.mem_cons, not_or]
      exact ⟨fun e => digitVal_some c d hd e.symm, ih _ h⟩
    · cases h

theorem parseUint_no_comma (bits : Nat) (s : List Char) (n : Nat) (h : parseUint bits s = some n) : ',' ∉ s := by
  unfold parseUint at h
  split at h
  · cases h
  · split at h
    · rename_i v hv
      exact parseDigits_no_comma _ _ _ hv
    · cases h

theorem parseUint_lt (bits : Nat) (s : List Char) (n : Nat) (h : parseUint bits s = some n) : n < 2 ^ bits := by
  unfold parseUint at h
  split at h
  · cases h
  · split at h
    · split at h
      · cases h; assumption
      · cases h
    · cases h

/-! ### one clause -/

/-- `maxval:N` **replaces** the info collected so far by `{count := byteCount N}`. -/
theorem tagClause_maxval (info : Option FieldInfo) (ds : List Char) (n : Nat) (h : parseUint 64 ds = some n) :
    tagClause info ("maxval:".toList ++ ds) = some { count := byteCount n, countSet := true } := by
  simp [tagClause, stripPrefix, h]

/-- `size:S` **replaces** the info collected so far by `{count := S}`. -/
theorem tagClause_size (info : Option FieldInfo) (ds : List Char) (n : Nat) (h : parseUint 32 ds = some n) :
    tagClause info ("size:".toList ++ ds) = some { count := n, countSet := true } := by
  simp [tagClause, stripPrefix, h]

/-- `maxlen:N` keeps what was collected and sets `count := byteCount N`, `maxlen := N`. -/
theorem tagClause_maxlen (info : Option FieldInfo) (ds : List Char) (n : Nat) (h : parseUint 64 ds = some n) :
    tagClause info ("maxlen:".toList ++ ds) =
      some { info.getD {} with count := byteCount n, countSet := true, maxlen := n } := by
  simp [tagClause, stripPrefix, h]

/-- `minlen:N` keeps what was collected and sets `minlen := N`. -/
theorem tagClause_minlen (info : Option FieldInfo) (ds : List Char) (n : Nat) (h : parseUint 64 ds = some n) :
    tagClause info ("minlen:".toList ++ ds) = some { info.getD {} with minlen := n } := by
  simp [tagClause, stripPrefix, h]

/-- `selector:S` keeps what was collected and sets the selector name. -/
theorem tagClause_selector (info : Option FieldInfo) (s : List Char) :
    tagClause info ("selector:".toList ++ s) = some { info.getD {} with selector := String.ofList s } := by
  simp [tagClause, stripPrefix]

/-- `val:V` keeps what was collected and sets the selector value. -/
theorem tagClause_val (info : Option FieldInfo) (ds : List Char) (n : Nat) (h : parseUint 64 ds = some n) :
    tagClause info ("val:".toList ++ ds) = some { info.getD {} with val := n } := by
  simp [tagClause, stripPrefix, h]

/-! ### the regenerated final checks (`Gen.tagFinalChecks`), as far as the documented tag forms need them -/

/-- an info without selector is accepted iff `1 ≤ count ≤ 8`, `minlen ≤ maxlen`, `val = 0` -/
theorem finalChecks_plain (cs : Bool) (c mn mx v : Nat) :
    Gen.tagFinalChecks true cs (Int.ofNat c) (Int.ofNat mn) (Int.ofNat mx) (Int.ofNat v) = true ↔
      (1 ≤ c ∧ c ≤ 8 ∧ mn ≤ mx ∧ v = 0) := by
  unfold Gen.tagFinalChecks
  simp only [Int.ofNat_eq_natCast, Bool.true_or, Bool.or_true, if_true, decide_eq_true_eq]
  repeat' split
  all_goals simp_all
  all_goals omega

/-- a selector clause without any size clause is always accepted -/
theorem finalChecks_selector (mn mx v : Nat) :
    Gen.tagFinalChecks false false 0 (Int.ofNat mn) (Int.ofNat mx) (Int.ofNat v) = true := by
  unfold Gen.tagFinalChecks
  simp

theorem no_comma_kw (kw ds : List Char) (h1 : ',' ∉ kw) (h2 : ',' ∉ ds) : ',' ∉ kw ++ ds := by
  simp [h1, h2]

theorem byteCount_range (n : Nat) (h : n < 2 ^ 64) : 1 ≤ byteCount n ∧ byteCount n ≤ 8 := by
  have := byteCount_spec' n h
  exact ⟨this.1, this.2.1⟩

end Tls
