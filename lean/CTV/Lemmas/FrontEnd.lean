import CTV.Model.FrontEnd
/-! Helper lemmas about `CTV.Model.FrontEnd` used by `CTV.Props.C06`: the backend is append-only,
identity hashes stay pairwise distinct, the signature cache only ever holds a valid pair. -/
set_option linter.unusedVariables false
set_option linter.unusedSimpArgs false
set_option linter.unusedSectionVars false
namespace CTV.Model.FrontEnd

theorem nodup_idx_unique {β : Type} : ∀ (l : List β) (i j : Nat) (a : β), l.Nodup →
    l[i]? = some a → l[j]? = some a → i = j := by
  intro l
  induction l with
  | nil => intro i j a _ h; simp at h
  | cons x xs ih =>
    intro i j a hn hi hj
    rw [List.nodup_cons] at hn
    cases i with
    | zero =>
      cases j with
      | zero => rfl
      | succ j =>
        simp at hi hj
        subst hi
        exact absurd (List.mem_of_getElem? hj) hn.1
    | succ i =>
      cases j with
      | zero =>
        simp at hi hj
        subst hj
        exact absurd (List.mem_of_getElem? hi) hn.1
      | succ j =>
        simp at hi hj
        rw [ih i j a hn.2 hi hj]

/-- everything the backend holds, in arrival order -/
def Backend.all (b : Backend) : List Leaf := b.leaves ++ b.pending

theorem all_sequence (b : Backend) (k ts : Nat) : (b.sequence k ts).all = b.all := by
  simp [Backend.all, Backend.sequence, List.append_assoc]

theorem all_queue (b : Backend) (c : Leaf) :
    ((b.queue c).1.all = b.all ∧ (b.queue c).2 ∈ b.all ∧ (b.queue c).2.idHash = c.idHash) ∨
    ((b.queue c).1.all = b.all ++ [c] ∧ (b.queue c).2 = c ∧ ∀ x ∈ b.all, x.idHash ≠ c.idHash) := by
  unfold Backend.queue
  cases hf : b.find c.idHash with
  | some old =>
    left
    unfold Backend.find at hf
    refine ⟨rfl, List.mem_of_find?_eq_some hf, ?_⟩
    have := List.find?_some hf
    simpa using this
  | none =>
    right
    unfold Backend.find at hf
    rw [List.find?_eq_none] at hf
    refine ⟨by simp [Backend.all, List.append_assoc], rfl, ?_⟩
    intro x hx he
    exact hf x hx (by simp [he])

/-- leaves only ever grow by appending -/
theorem leaves_step (b : Backend) (op : Op) : ∃ x, (step b op).leaves = b.leaves ++ x := by
  cases op with
  | read => exact ⟨[], by simp [step]⟩
  | sequence k ts => exact ⟨b.pending.take k, rfl⟩
  | submit c =>
    refine ⟨[], ?_⟩
    simp only [step, Backend.queue]
    cases b.find c.idHash <;> simp

theorem leaves_run (ops : List Op) : ∀ b : Backend, ∃ x, (run b ops).leaves = b.leaves ++ x := by
  induction ops with
  | nil => intro b; exact ⟨[], by simp [run]⟩
  | cons op ops ih =>
    intro b
    obtain ⟨x, hx⟩ := leaves_step b op
    obtain ⟨y, hy⟩ := ih (step b op)
    exact ⟨x ++ y, by simp only [run]; rw [hy, hx, List.append_assoc]⟩

theorem values_run (ops : List Op) (b : Backend) : ∃ x, (run b ops).values = b.values ++ x := by
  obtain ⟨x, hx⟩ := leaves_run ops b
  exact ⟨x.map (·.value), by simp [Backend.values, hx]⟩

theorem run_append (ops1 ops2 : List Op) : ∀ b : Backend, run b (ops1 ++ ops2) = run (run b ops1) ops2 := by
  induction ops1 with
  | nil => intro b; rfl
  | cons op ops ih => intro b; simp only [List.cons_append, run]; exact ih _

/-- identity hashes of everything held are pairwise distinct (de-duplication) -/
def NodupIds (b : Backend) : Prop := (b.all.map (·.idHash)).Nodup

theorem nodupIds_init (ts : Nat) : NodupIds (Backend.init ts) := by
  simp [NodupIds, Backend.all, Backend.init]

theorem nodupIds_step (b : Backend) (op : Op) (h : NodupIds b) : NodupIds (step b op) := by
  cases op with
  | read => exact h
  | sequence k ts => unfold NodupIds; simp only [step]; rw [all_sequence]; exact h
  | submit c =>
    unfold NodupIds
    simp only [step]
    rcases all_queue b c with ⟨h1, _, _⟩ | ⟨h1, _, h3⟩
    · rw [h1]; exact h
    · rw [h1, List.map_append, List.nodup_append]
      refine ⟨h, by simp, ?_⟩
      intro a ha x hx
      simp only [List.map_cons, List.map_nil, List.mem_singleton] at hx
      obtain ⟨y, hy, rfl⟩ := List.mem_map.mp ha
      rw [hx]
      exact h3 y hy

theorem nodupIds_run (ops : List Op) : ∀ b : Backend, NodupIds b → NodupIds (run b ops) := by
  induction ops with
  | nil => intro b h; exact h
  | cons op ops ih => intro b h; exact ih _ (nodupIds_step b op h)

/-- `all` only grows by appending, too -/
theorem all_step (b : Backend) (op : Op) : ∃ x, (step b op).all = b.all ++ x := by
  cases op with
  | read => exact ⟨[], by simp [step]⟩
  | sequence k ts => exact ⟨[], by simp only [step]; rw [all_sequence]; simp⟩
  | submit c =>
    simp only [step]
    rcases all_queue b c with ⟨h1, _, _⟩ | ⟨h1, _, _⟩
    · exact ⟨[], by rw [h1]; simp⟩
    · exact ⟨[c], h1⟩

theorem all_run (ops : List Op) : ∀ b : Backend, ∃ x, (run b ops).all = b.all ++ x := by
  induction ops with
  | nil => intro b; exact ⟨[], by simp [run]⟩
  | cons op ops ih =>
    intro b
    obtain ⟨x, hx⟩ := all_step b op
    obtain ⟨y, hy⟩ := ih (step b op)
    exact ⟨x ++ y, by simp only [run]; rw [hy, hx, List.append_assoc]⟩


/-- everything held after a history was held before or was submitted during it -/
theorem mem_all_run (ops : List Op) : ∀ (b : Backend) (x : Leaf), x ∈ (run b ops).all → x ∈ b.all ∨ Op.submit x ∈ ops := by
  induction ops with
  | nil => intro b x h; exact Or.inl h
  | cons op ops ih =>
    intro b x h
    simp only [run] at h
    rcases ih (step b op) x h with h1 | h1
    · cases op with
      | read => exact Or.inl h1
      | sequence k ts => simp only [step] at h1; rw [all_sequence] at h1; exact Or.inl h1
      | submit c =>
        simp only [step] at h1
        rcases all_queue b c with ⟨e, _, _⟩ | ⟨e, _, _⟩
        · rw [e] at h1; exact Or.inl h1
        · rw [e, List.mem_append, List.mem_singleton] at h1
          rcases h1 with h1 | h1
          · exact Or.inl h1
          · subst h1; exact Or.inr (List.mem_cons_self ..)
    · exact Or.inr (List.mem_cons_of_mem _ h1)

/-- `cget` with the regenerated miss condition `Gen.sigCacheMiss` spelled out: a hit iff the cached
    input equals the requested one (breaks if the source compares anything else). -/
theorem cget_spec {Msg Sig : Type} [DecidableEq Msg] (c : Cache Msg Sig) (i : Msg) :
    cget c i = match c with
      | some (ci, s) => if ci = i then some s else none
      | none => none := by
  unfold cget Gen.sigCacheMiss
  cases c with
  | none => rfl
  | some cs =>
    obtain ⟨ci, s⟩ := cs
    by_cases h : ci = i <;> simp [h]

/-- What the regenerated ns→ms conversion computes on a uint64, whatever shape the source gives it
    (`/1000/1000`, `/ nanosPerMilli` with `const nanosPerMilli = 1000 * 1000`, `/ 1000000`, …): the proof only
    unfolds the fixed-width operators and lets `omega` do the arithmetic. A `/1000` or a seconds conversion fails here. -/
theorem sthTimestamp_spec (ts : Int) (h0 : 0 ≤ ts) (h1 : ts < 2 ^ 64) : Gen.sthTimestamp ts = ts / 1000000 := by
  unfold Gen.sthTimestamp
  simp only [U64.wrap, U64.div, U64.mul, U64.add, U64.sub, Int.reduceMul, Int.reduceMod, Int.reducePow, Int.reduceDiv]
  omega

theorem sthTreeSize_spec (n : Int) (h0 : 0 ≤ n) (h1 : n < 2 ^ 64) : Gen.sthTreeSize n = n := by
  unfold Gen.sthTreeSize
  simp only [U64.wrap, Int.reducePow]
  omega

/-- the values of an earlier state are a prefix of the values of any later state -/
theorem values_prefix (b1 : Backend) (ops : List Op) :
    (run b1 ops).values.take b1.leaves.length = b1.values ∧ b1.leaves.length ≤ (run b1 ops).leaves.length := by
  obtain ⟨x, hx⟩ := leaves_run ops b1
  refine ⟨?_, by rw [hx]; simp⟩
  simp only [Backend.values, hx, List.map_append]
  rw [List.take_append_of_le_length (by simp)]
  rw [List.take_of_length_le (by simp)]

theorem leaves_prefix (b1 : Backend) (ops : List Op) (i : Nat) (hi : i < b1.leaves.length) :
    (run b1 ops).leaves[i]? = b1.leaves[i]? := by
  obtain ⟨x, hx⟩ := leaves_run ops b1
  rw [hx, List.getElem?_append_left hi]

open Merkle in
/-- an audit path in a tree of at least two leaves is not empty -/
theorem path_ne_nil {α Hash : Type} (leafH : α → Hash) (nodeH : Hash → Hash → Hash) (emptyH : Hash)
    (m : Nat) (l : List α) (h : 2 ≤ l.length) : path leafH nodeH emptyH m l ≠ [] := by
  rw [path]
  simp only [show ¬ l.length < 2 by omega, dite_false]
  by_cases hm : m < split l.length <;> simp [hm]

end CTV.Model.FrontEnd
