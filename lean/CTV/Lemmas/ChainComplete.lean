import CTV.Lemmas.ChainSearch
/-!
From the declarative side conditions of `C02.admit_complete_partial` (distinct subjects, consistent
authority key identifiers, pools without repeated certificates) to the search-level `OnTrack`
hypothesis, and the assembly of the completeness statement.
-/
namespace C02
open CTV.Model.ChainCheck

/-- `c`'s authority key identifier does not hide `x` in `pool`: it is absent, or matches no subject key identifier
in the pool, or is `x`'s subject key identifier.  (`findPotentialParents` tries key identifiers first and falls
back to names only when that finds nothing.) -/
def AkiFinds (pool : List Cert) (c x : Cert) : Prop :=
  ∀ k, c.aki = some k → (∃ y ∈ pool, y.ski = some k) → x.ski = some k

theorem mem_fpp_of {pool : List Cert} {c x : Cert} (hx : x ∈ pool) (hn : c.issuer = x.subject) (ha : AkiFinds pool c x) :
    x ∈ findPotentialParents pool c := by
  rw [findPotentialParents_eq]
  cases hk : c.aki with
  | none => exact List.mem_filter.2 ⟨hx, by simp [hn]⟩
  | some k =>
    simp only
    split
    · exact List.mem_filter.2 ⟨hx, by simp [hn]⟩
    · rename_i hne
      have hex : ∃ y ∈ pool, y.ski = some k := by
        cases hf : pool.filter (fun p => p.ski == some k) with
        | nil => rw [hf] at hne; simp at hne
        | cons y ys =>
          have : y ∈ pool.filter (fun p => p.ski == some k) := by rw [hf]; simp
          exact ⟨y, (List.mem_filter.1 this).1, by simpa using (List.mem_filter.1 this).2⟩
      exact List.mem_filter.2 ⟨hx, by simp [ha k hk hex]⟩

theorem fpp_is_filter (pool : List Cert) (c : Cert) : ∃ p : Cert → Bool, findPotentialParents pool c = pool.filter p := by
  rw [findPotentialParents_eq]
  cases c.aki with
  | none => exact ⟨_, rfl⟩
  | some k =>
    simp only
    split
    · exact ⟨_, rfl⟩
    · exact ⟨_, rfl⟩

theorem foldl_addCert_nodup : ∀ (cs acc : List Cert), ((acc ++ cs).map (·.id)).Nodup → cs.foldl addCert acc = acc ++ cs
  | [], acc, _ => by simp
  | c :: cs, acc, h => by
    have hnot : (acc.any (·.equal c)) = false := by
      rw [List.any_eq_false]
      intro y hy he
      have e : y.id = c.id := by simpa [Cert.equal] using he
      simp only [List.map_append, List.map_cons] at h
      exact (List.nodup_append.1 h).2.2 y.id (List.mem_map.2 ⟨y, hy, rfl⟩) c.id (by simp) e
    simp only [List.foldl_cons, addCert, hnot]
    have := foldl_addCert_nodup cs (acc ++ [c]) (by simpa using h)
    simpa using this

theorem mkPool_nodup {cs : List Cert} (h : (cs.map (·.id)).Nodup) : mkPool cs = cs := by
  simpa [mkPool] using foldl_addCert_nodup cs [] (by simpa using h)

theorem chainsEquivalent_of {a b : List Cert} (hb : b.length < 2 ^ 62) (hl : b.length = a.length ∨ b.length = a.length + 1)
    (hids : (b.take a.length).map (·.id) = a.map (·.id)) : chainsEquivalent a b = true := by
  unfold chainsEquivalent
  have h1 : Gen.chainsLenMismatch a.length b.length = false := by
    rw [chainsLenMismatch_iff]
    rcases hl with e | e
    · left; omega
    · right
      simp only [I64.sub, I64.wrap64]
      omega
  simp only [h1, Bool.false_eq_true, ite_false]
  -- ids agree position by position
  have : ∀ (a b : List Cert), a.length ≤ b.length → (b.take a.length).map (·.id) = a.map (·.id) →
      ((a.zip b).all fun (x, y) => x.equal y) = true := by
    intro a
    induction a with
    | nil => intros; simp
    | cons x xs ih =>
      intro b hle h
      cases b with
      | nil => simp at hle
      | cons y ys =>
        simp only [List.length_cons, List.take_succ_cons, List.map_cons, List.cons.injEq] at h
        simp only [List.zip_cons_cons, List.all_cons, Bool.and_eq_true]
        exact ⟨by simp [Cert.equal, h.1], ih ys (by simpa using hle) h.2⟩
  exact this a b (by omega) hids

theorem buildStep_err_none (E : Env) (rec : Cert → List Cert → St → Res) (c : Cert) (cur : List Cert) (st : St)
    (h : (buildStep E rec c cur st).chains ≠ []) : (buildStep E rec c cur st).err = none := by
  unfold buildStep at h ⊢
  simp only at h ⊢
  have : ((findPotentialParents E.inter c).foldl (consider E rec c cur .intermediate)
        ((findPotentialParents E.roots c).foldl (consider E rec c cur .root) ⟨[], none, st⟩)).chains.isEmpty = false := by
    simpa using h
  simp [this]

theorem mem_of_mem_dropLast {α} {l : List α} {x : α} (h : x ∈ l.dropLast) : x ∈ l :=
  (List.dropLast_sublist l).subset h

theorem linked_prefix {α} {R : α → α → Prop} : ∀ (a b : List α), Linked R (a ++ b) → Linked R a
  | [], _, _ => trivial
  | [_], _, _ => trivial
  | x :: y :: t, b, h => ⟨h.1, linked_prefix (y :: t) b h.2⟩

/-- From the declarative conditions to the search-level track. -/
theorem onTrack_of (E : Env) :
    ∀ (rem cur : List Cert) (c : Cert),
      (∀ a ∈ c :: rem, ∀ x, x ∈ E.inter → a.issuer = x.subject → AkiFinds E.inter a x) →
      (∀ a ∈ c :: rem, ∀ x, x ∈ E.roots → a.issuer = x.subject → AkiFinds E.roots a x) →
      cur ≠ [] → Linked (Link E.sigOK) (c :: rem) →
      (∃ tl, E.inter = cur.tail ++ rem.dropLast ++ tl) → (∀ x ∈ rem.dropLast, IsInterCA x) →
      (∀ r, rem.getLast? = some r → r ∈ E.roots) → OnTrack E c cur rem
  | [], _, _, _, _, _, _, _, _, _ => trivial
  | [x], _, c, _, hAr, _, hl, _, _, hr => by
    have hx := hr x rfl
    exact ⟨hl.1, mem_fpp_of hx hl.1.1 (hAr c (by simp) x hx hl.1.1)⟩
  | x :: y :: more, cur, c, hAi, hAr, hne, hl, ⟨tl, hI⟩, hca, hr => by
    have hdl : (x :: y :: more).dropLast = x :: (y :: more).dropLast := rfl
    rw [hdl] at hI
    have hxI : x ∈ E.inter := by rw [hI]; simp
    have hmem := mem_fpp_of hxI hl.1.1 (hAi c (by simp) x hxI hl.1.1)
    obtain ⟨p, hp⟩ := fpp_is_filter E.inter c
    have hpx : p x = true := by rw [hp] at hmem; exact (List.mem_filter.1 hmem).2
    refine ⟨hl.1, hca x (by simp [hdl]), ⟨cur.tail.filter p, ((y :: more).dropLast ++ tl).filter p, ?_, ?_⟩, ?_⟩
    · rw [hp, hI]
      simp [List.filter_append, List.filter_cons, hpx]
    · intro z hz
      have hz' := (List.mem_filter.1 hz).1
      obtain ⟨h0, t0, rfl⟩ := List.exists_cons_of_ne_nil hne
      exact List.mem_map.2 ⟨z, List.mem_cons_of_mem _ hz', rfl⟩
    · apply onTrack_of E (y :: more) (cur ++ [x]) x (fun a ha => hAi a (List.mem_cons_of_mem _ ha))
        (fun a ha => hAr a (List.mem_cons_of_mem _ ha)) (by simp) hl.2
      · refine ⟨tl, ?_⟩
        obtain ⟨h0, t0, rfl⟩ := List.exists_cons_of_ne_nil hne
        rw [hI]; simp
      · intro z hz
        exact hca z (by rw [hdl]; exact List.mem_cons_of_mem _ hz)
      · intro r hr'
        exact hr r (by simpa [List.getLast?_cons_cons] using hr')

/-- One signature check per root candidate and one for the next certificate, per submitted certificate. -/
def searchCost (roots : List Cert) (cs : List Cert) : Nat :=
  (cs.map fun c => (findPotentialParents roots c).length + 1).sum

theorem cost_eq (E : Env) : ∀ (rem : List Cert) (c : Cert), rem ≠ [] → cost E c rem = searchCost E.roots ((c :: rem).dropLast)
  | [], _, h => absurd rfl h
  | [x], c, _ => by simp [cost, searchCost, List.dropLast]
  | x :: y :: more, c, _ => by
    have ih := cost_eq E (y :: more) x (by simp)
    have hdl : (c :: x :: y :: more).dropLast = c :: (x :: y :: more).dropLast := rfl
    simp only [cost, hdl, searchCost, List.map_cons, List.sum_cons] at ih ⊢
    omega

theorem searchCost_dropLast_le (roots : List Cert) : ∀ (cs : List Cert), searchCost roots cs.dropLast ≤ searchCost roots cs
  | [] => by simp [searchCost]
  | [_] => by simp [searchCost, List.dropLast]
  | a :: b :: t => by
    have ih := searchCost_dropLast_le roots (b :: t)
    have hdl : (a :: b :: t).dropLast = a :: (b :: t).dropLast := rfl
    simp only [hdl, searchCost, List.map_cons, List.sum_cons] at ih ⊢
    omega

theorem length_le_searchCost (roots : List Cert) : ∀ (cs : List Cert), cs.length ≤ searchCost roots cs
  | [] => by simp [searchCost]
  | a :: t => by
    have ih := length_le_searchCost roots t
    simp only [searchCost, List.map_cons, List.sum_cons, List.length_cons] at ih ⊢
    omega

theorem parseAll_map_some : ∀ (cs : List Cert), parseAll (cs.map some) = some cs
  | [] => rfl
  | c :: cs => by simp [parseAll, parseAll_map_some cs]

/-- The side conditions of `admit_complete_partial`: where the code's search is incomplete by construction. -/
structure SideConditions (roots : List Cert) (cs : List Cert) : Prop where
  /-- no certificate is submitted twice -/
  noRepeat : (cs.map (·.id)).Nodup
  /-- an authority key identifier never hides a certificate that carries the issuer's name: in either pool, whenever a
  member has the name a submitted certificate names as its issuer, that certificate's AKI is absent, or matches no
  SKI in the pool, or is that member's SKI -/
  akiFindsIssuer : ∀ c ∈ cs, (∀ x ∈ roots, c.issuer = x.subject → AkiFinds roots c x) ∧
    (∀ x ∈ cs.tail, c.issuer = x.subject → AkiFinds cs.tail c x)
  /-- the walk along the chain fits the budget of 100 signature checks: per submitted certificate one for every root
  candidate and one for the next certificate -/
  budget : searchCost roots cs ≤ 100
  /-- a leaf that is followed by further certificates is not itself a member of the trusted pool
  (`Verify` answers `[[leaf]]` at once for a trusted leaf); any *other* submitted certificate may be trusted -/
  leafNotTrusted : ∀ l rest, cs = l :: rest → rest ≠ [] → poolContains roots l = false
  /-- records are determined by their bytes -/
  coherent : Coherent (cs ++ roots)

/-- The submitted list is a valid linear path: linked certificate by certificate, every certificate that
acts as an intermediate is a CA, and the last one is in the trusted pool or directly issued by a member of it
that is not itself one of the submitted certificates (no issuance cycle). -/
inductive Admissible (roots : List Cert) (sigOK : SigOracle) (cs : List Cert) : Prop
  | endsInPool (r z : Cert) : r ∈ roots → cs.getLast? = some z → z.id = r.id → Linked (Link sigOK) cs →
      (∀ x ∈ cs.tail.dropLast, IsInterCA x) → Admissible roots sigOK cs
  | belowPool (r : Cert) : r ∈ roots → r.id ∉ cs.map (·.id) → Linked (Link sigOK) (cs ++ [r]) → (∀ x ∈ cs.tail, IsInterCA x) →
      Admissible roots sigOK cs

theorem verify_of_search {E : Env} {l : Cert} {T : List Cert} (hnot : poolContains E.roots l = false)
    (h : T ∈ (buildChains E fuel l [l] ⟨0, []⟩).chains) : ∃ chains, verify E l = .ok chains ∧ T ∈ chains := by
  have hv : isValid .leaf [] l = true := by simp [isValid, Gen.isValidNotCA]
  have hne : (buildChains E fuel l [l] ⟨0, []⟩).chains ≠ [] := by intro e; rw [e] at h; simp at h
  have he : (buildChains E fuel l [l] ⟨0, []⟩).err = none := by
    have : fuel = 100 + 1 := by decide
    rw [this] at hne ⊢
    exact buildStep_err_none E _ l [l] _ hne
  refine ⟨(buildChains E fuel l [l] ⟨0, []⟩).chains, ?_, h⟩
  unfold verify
  simp [hv, hnot, he]

theorem validate_of_verify {roots : List Cert} {sigOK : SigOracle} {o : Opts} {l : Cert} {rest : List Cert} {chains : List (List Cert)} {T : List Cert}
    (hleaf : LeafOK o l) (hv : verify ⟨roots, mkPool rest, sigOK⟩ l = .ok chains) (hT : T ∈ chains) (he : chainsEquivalent (l :: rest) T = true) :
    ∃ p, validateChain roots sigOK o ((l :: rest).map some) = .ok p := by
  have hf := (leafFilters_iff o l).2 hleaf
  have hne : chains.isEmpty = false := by cases chains with | nil => simp at hT | cons _ _ => rfl
  have hfind : (chains.find? (chainsEquivalent (l :: rest))).isSome = true := List.find?_isSome.2 ⟨T, hT, he⟩
  obtain ⟨p, hp⟩ := Option.isSome_iff_exists.1 hfind
  refine ⟨p, ?_⟩
  unfold validateChain
  rw [parseAll_map_some]
  simp only [hf, hv, hne, hp, Bool.false_eq_true, ite_false]

end C02
