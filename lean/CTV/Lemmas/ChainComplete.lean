import CTV.Lemmas.ChainSearch
/-!
From the declarative side conditions of `C02.admit_complete_partial` (distinct subjects, consistent
authority key identifiers, pools without repeated certificates) to the search-level `OnTrack`
hypothesis, and the assembly of the completeness statement.
-/
namespace C02
open CTV.Model.ChainCheck

theorem length_le_one_of_same {α β} [DecidableEq β] (f : α → β) : ∀ (l : List α), (l.map f).Nodup → (∀ a ∈ l, ∀ b ∈ l, f a = f b) → l.length ≤ 1
  | [], _, _ => by simp
  | [_], _, _ => by simp
  | a :: b :: t, hn, hs => by
    exfalso
    have := hs a (by simp) b (by simp)
    simp only [List.map_cons, List.nodup_cons] at hn
    exact hn.1 (by simp [this])

theorem eq_singleton_of_mem {α} {l : List α} {x : α} (hl : l.length ≤ 1) (hx : x ∈ l) : l = [x] := by
  match l, hl, hx with
  | [a], _, hx => simp at hx; simp [hx]
  | _ :: _ :: _, hl, _ => simp at hl

/-- The pool has no two different certificates with the same subject. -/
def DistinctSubjects (pool : List Cert) : Prop := ∀ a ∈ pool, ∀ b ∈ pool, a.subject = b.subject → a.id = b.id

/-- `c`'s authority key identifier is absent, or matches only pool members that carry `c`'s issuer name
(in particular: matches nothing). -/
def AkiConsistent (pool : List Cert) (c : Cert) : Prop :=
  ∀ k, c.aki = some k → ∀ x ∈ pool, x.ski = some k → x.subject = c.issuer

theorem nameMatches_length {pool : List Cert} (hn : (pool.map (·.id)).Nodup) (hd : DistinctSubjects pool) (s : Nat) :
    (pool.filter (fun p => p.subject == s)).length ≤ 1 := by
  apply length_le_one_of_same (·.id)
  · exact List.Nodup.sublist (List.Sublist.map _ List.filter_sublist) hn
  · intro a ha b hb
    have ha' := List.mem_filter.1 ha
    have hb' := List.mem_filter.1 hb
    have ea : a.subject = s := by simpa using ha'.2
    have eb : b.subject = s := by simpa using hb'.2
    exact hd a ha'.1 b hb'.1 (ea.trans eb.symm)

theorem fpp_length {pool : List Cert} {c : Cert} (hn : (pool.map (·.id)).Nodup) (hd : DistinctSubjects pool) (ha : AkiConsistent pool c) :
    (findPotentialParents pool c).length ≤ 1 := by
  unfold findPotentialParents
  cases hk : c.aki with
  | none => simpa using nameMatches_length hn hd c.issuer
  | some k =>
    simp only
    split
    · exact nameMatches_length hn hd c.issuer
    · -- the key-id matches all carry the issuer name
      have : pool.filter (fun p => p.ski == some k) = (pool.filter (fun p => p.subject == c.issuer)).filter (fun p => p.ski == some k) := by
        rw [List.filter_filter]
        apply List.filter_congr
        intro x hx
        cases hs : (x.ski == some k)
        · simp
        · have := ha k hk x hx (by simpa using hs)
          simp [this]
      rw [this]
      exact Nat.le_trans (List.length_filter_le _ _) (nameMatches_length hn hd c.issuer)

theorem fpp_eq_singleton {pool : List Cert} {c x : Cert} (hn : (pool.map (·.id)).Nodup) (hd : DistinctSubjects pool) (ha : AkiConsistent pool c)
    (hx : x ∈ pool) (hname : c.issuer = x.subject) : findPotentialParents pool c = [x] := by
  have hnm : pool.filter (fun p => p.subject == c.issuer) = [x] :=
    eq_singleton_of_mem (nameMatches_length hn hd c.issuer) (List.mem_filter.2 ⟨hx, by simp [hname]⟩)
  have hlen := fpp_length hn hd ha (c := c)
  unfold findPotentialParents at hlen ⊢
  cases hk : c.aki with
  | none => simpa [hk] using hnm
  | some k =>
    simp only [hk] at hlen ⊢
    split
    · exact hnm
    · rename_i hne
      -- a non-empty list of key-id matches, all with the issuer name, inside a pool with distinct subjects
      have hne' : pool.filter (fun p => p.ski == some k) ≠ [] := by
        intro e; rw [e] at hne; simp at hne
      obtain ⟨y, hy⟩ := List.exists_mem_of_ne_nil _ hne'
      have hy' := List.mem_filter.1 hy
      have hys : y.subject = c.issuer := ha k hk y hy'.1 (by simpa using hy'.2)
      have : y ∈ pool.filter (fun p => p.subject == c.issuer) := List.mem_filter.2 ⟨hy'.1, by simp [hys]⟩
      rw [hnm] at this
      have hyx : y = x := by simpa using this
      subst hyx
      simp only [hne, ite_false, Bool.false_eq_true] at hlen
      exact eq_singleton_of_mem hlen hy

theorem foldl_addCert_nodup : ∀ (cs acc : List Cert), ((acc ++ cs).map (·.id)).Nodup → cs.foldl addCert acc = acc ++ cs
  | [], acc, _ => by simp
  | c :: cs, acc, h => by
    have hnot : (acc.any (·.equal c)) = false := by
      rw [List.any_eq_false]
      intro y hy he
      have e : y.id = c.id := by simpa [Cert.equal] using he
      simp only [List.map_append, List.map_cons] at h
      exact (List.nodup_append.1 h).2.2 y.id (List.mem_map.2 ⟨y, hy, rfl⟩) c.id (by simp) e
    simp only [List.foldl_cons, addCert, hnot]
    have := foldl_addCert_nodup cs (acc ++ [c]) (by simpa using h)
    simpa using this

theorem mkPool_nodup {cs : List Cert} (h : (cs.map (·.id)).Nodup) : mkPool cs = cs := by
  simpa [mkPool] using foldl_addCert_nodup cs [] (by simpa using h)

theorem chainsEquivalent_of {a b : List Cert} (hb : b.length < 2 ^ 62) (hl : b.length = a.length ∨ b.length = a.length + 1)
    (hids : (b.take a.length).map (·.id) = a.map (·.id)) : chainsEquivalent a b = true := by
  unfold chainsEquivalent
  have h1 : Gen.chainsLenMismatch a.length b.length = false := by
    simp only [Gen.chainsLenMismatch, I64.sub, I64.wrap64]
    rcases hl with e | e
    · have : (a.length : Int) = b.length := by omega
      simp [this]
    · have : (a.length : Int) = ((b.length : Int) - 1 + 2 ^ 63) % 2 ^ 64 - 2 ^ 63 := by omega
      rw [Bool.and_eq_false_iff]
      right
      exact decide_eq_false (by intro hne; exact hne this)
  simp only [h1, Bool.false_eq_true, ite_false]
  -- ids agree position by position
  have : ∀ (a b : List Cert), a.length ≤ b.length → (b.take a.length).map (·.id) = a.map (·.id) →
      ((a.zip b).all fun (x, y) => x.equal y) = true := by
    intro a
    induction a with
    | nil => intros; simp
    | cons x xs ih =>
      intro b hle h
      cases b with
      | nil => simp at hle
      | cons y ys =>
        simp only [List.length_cons, List.take_succ_cons, List.map_cons, List.cons.injEq] at h
        simp only [List.zip_cons_cons, List.all_cons, Bool.and_eq_true]
        exact ⟨by simp [Cert.equal, h.1], ih ys (by simpa using hle) h.2⟩
  exact this a b (by omega) hids

theorem buildStep_err_none (E : Env) (rec : Cert → List Cert → St → Res) (c : Cert) (cur : List Cert) (st : St)
    (h : (buildStep E rec c cur st).chains ≠ []) : (buildStep E rec c cur st).err = none := by
  unfold buildStep at h ⊢
  simp only at h ⊢
  have : ((findPotentialParents E.inter c).foldl (consider E rec c cur .intermediate)
        ((findPotentialParents E.roots c).foldl (consider E rec c cur .root) ⟨[], none, st⟩)).chains.isEmpty = false := by
    simpa using h
  simp [this]

theorem mem_of_mem_dropLast {α} {l : List α} {x : α} (h : x ∈ l.dropLast) : x ∈ l :=
  (List.dropLast_sublist l).subset h

theorem linked_prefix {α} {R : α → α → Prop} : ∀ (a b : List α), Linked R (a ++ b) → Linked R a
  | [], _, _ => trivial
  | [_], _, _ => trivial
  | x :: y :: t, b, h => ⟨h.1, linked_prefix (y :: t) b h.2⟩

theorem DistinctSubjects.mono {p q : List Cert} (h : DistinctSubjects q) (hs : ∀ x ∈ p, x ∈ q) : DistinctSubjects p :=
  fun a ha b hb e => h a (hs a ha) b (hs b hb) e

theorem AkiConsistent.mono {p q : List Cert} {c : Cert} (h : AkiConsistent q c) (hs : ∀ x ∈ p, x ∈ q) : AkiConsistent p c :=
  fun k hk x hx e => h k hk x (hs x hx) e

/-- From the declarative conditions to the search-level track. -/
theorem onTrack_of (E : Env) (hnR : (E.roots.map (·.id)).Nodup) (hnI : (E.inter.map (·.id)).Nodup)
    (hd : DistinctSubjects (E.roots ++ E.inter)) :
    ∀ (T : List Cert), Linked (Link E.sigOK) T → (∀ c ∈ T.dropLast, AkiConsistent (E.roots ++ E.inter) c) →
      (∀ x ∈ T.tail.dropLast, x ∈ E.inter ∧ IsInterCA x) → (∀ r, T.getLast? = some r → 2 ≤ T.length → r ∈ E.roots) → OnTrack E T
  | [], _, _, _, _ => trivial
  | [_], _, _, _, _ => trivial
  | c :: x :: more, hl, ha, hi, hr => by
    have hdR : DistinctSubjects E.roots := hd.mono (fun x hx => List.mem_append_left _ hx)
    have hdI : DistinctSubjects E.inter := hd.mono (fun x hx => List.mem_append_right _ hx)
    have hac : AkiConsistent (E.roots ++ E.inter) c := ha c (by simp [List.dropLast])
    have haR : AkiConsistent E.roots c := hac.mono (fun x hx => List.mem_append_left _ hx)
    have haI : AkiConsistent E.inter c := hac.mono (fun x hx => List.mem_append_right _ hx)
    refine ⟨⟨hl.1, fpp_length hnR hdR haR, ?_, ?_⟩, ?_⟩
    · intro hm
      have hm' : more = [] := by simpa using hm
      subst hm'
      exact fpp_eq_singleton hnR hdR haR (hr x (by simp) (by simp)) hl.1.1
    · intro hm
      have hm' : more ≠ [] := by intro e; subst e; simp at hm
      obtain ⟨y, ys, rfl⟩ := List.exists_cons_of_ne_nil hm'
      have hx := hi x (by simp [List.dropLast])
      exact ⟨fpp_eq_singleton hnI hdI haI hx.1 hl.1.1, hx.2⟩
    · apply onTrack_of E hnR hnI hd (x :: more) hl.2
      · intro c' hc'
        apply ha c'
        cases more with
        | nil => simp [List.dropLast] at hc'
        | cons y ys => simp only [List.dropLast_cons₂] at hc' ⊢; exact List.mem_cons_of_mem _ hc'
      · intro z hz
        apply hi z
        cases more with
        | nil => simp [List.dropLast] at hz
        | cons y ys =>
          simp only [List.tail_cons] at hz ⊢
          simp only [List.dropLast_cons₂]
          exact List.mem_cons_of_mem _ hz
      · intro r hr' hlen
        apply hr r
        · cases more with
          | nil => simp at hlen
          | cons y ys => simpa [List.getLast?_cons_cons] using hr'
        · simp

theorem parseAll_map_some : ∀ (cs : List Cert), parseAll (cs.map some) = some cs
  | [] => rfl
  | c :: cs => by simp [parseAll, parseAll_map_some cs]

/-- The side conditions of `admit_complete_partial`: where the code's search is incomplete by construction. -/
structure SideConditions (roots : List Cert) (cs : List Cert) : Prop where
  /-- no certificate is submitted twice -/
  noRepeat : (cs.map (·.id)).Nodup
  /-- the trusted pool holds every certificate once (true of every `PEMCertPool`) -/
  rootsPool : (roots.map (·.id)).Nodup
  /-- no two different certificates among pool and submitted intermediates share a subject -/
  distinctSubjects : DistinctSubjects (roots ++ cs.tail)
  /-- authority key identifiers never point at a certificate with another name -/
  akiConsistent : ∀ c ∈ cs, AkiConsistent (roots ++ cs.tail) c
  /-- at most two signature checks per submitted certificate fit the budget of 100 -/
  budget : 2 * cs.length + 2 ≤ 100
  /-- a leaf that is followed by further certificates is not itself a member of the trusted pool
  (`Verify` answers `[[leaf]]` at once for a trusted leaf); any *other* submitted certificate may be trusted -/
  leafNotTrusted : ∀ l rest, cs = l :: rest → rest ≠ [] → poolContains roots l = false
  /-- records are determined by their bytes -/
  coherent : Coherent (cs ++ roots)

/-- The submitted list is a valid linear path: linked certificate by certificate, every certificate that
acts as an intermediate is a CA, and the last one is in the trusted pool or directly issued by a member of it
that is not itself one of the submitted certificates (no issuance cycle). -/
inductive Admissible (roots : List Cert) (sigOK : SigOracle) (cs : List Cert) : Prop
  | endsInPool (r z : Cert) : r ∈ roots → cs.getLast? = some z → z.id = r.id → Linked (Link sigOK) cs →
      (∀ x ∈ cs.tail.dropLast, IsInterCA x) → Admissible roots sigOK cs
  | belowPool (r : Cert) : r ∈ roots → r.id ∉ cs.map (·.id) → Linked (Link sigOK) (cs ++ [r]) → (∀ x ∈ cs.tail, IsInterCA x) →
      Admissible roots sigOK cs

theorem verify_of_search {E : Env} {l : Cert} {T : List Cert} (hnot : poolContains E.roots l = false)
    (h : T ∈ (buildChains E fuel l [l] ⟨0, []⟩).chains) : ∃ chains, verify E l = .ok chains ∧ T ∈ chains := by
  have hv : isValid .leaf [] l = true := by simp [isValid, Gen.isValidNotCA]
  have hne : (buildChains E fuel l [l] ⟨0, []⟩).chains ≠ [] := by intro e; rw [e] at h; simp at h
  have he : (buildChains E fuel l [l] ⟨0, []⟩).err = none := by
    have : fuel = 100 + 1 := by decide
    rw [this] at hne ⊢
    exact buildStep_err_none E _ l [l] _ hne
  refine ⟨(buildChains E fuel l [l] ⟨0, []⟩).chains, ?_, h⟩
  unfold verify
  simp [hv, hnot, he]

theorem validate_of_verify {roots : List Cert} {sigOK : SigOracle} {o : Opts} {l : Cert} {rest : List Cert} {chains : List (List Cert)} {T : List Cert}
    (hleaf : LeafOK o l) (hv : verify ⟨roots, mkPool rest, sigOK⟩ l = .ok chains) (hT : T ∈ chains) (he : chainsEquivalent (l :: rest) T = true) :
    ∃ p, validateChain roots sigOK o ((l :: rest).map some) = .ok p := by
  have hf := (leafFilters_iff o l).2 hleaf
  have hne : chains.isEmpty = false := by cases chains with | nil => simp at hT | cons _ _ => rfl
  have hfind : (chains.find? (chainsEquivalent (l :: rest))).isSome = true := List.find?_isSome.2 ⟨T, hT, he⟩
  obtain ⟨p, hp⟩ := Option.isSome_iff_exists.1 hfind
  refine ⟨p, ?_⟩
  unfold validateChain
  rw [parseAll_map_some]
  simp only [hf, hv, hne, hp, Bool.false_eq_true, ite_false]

end C02
