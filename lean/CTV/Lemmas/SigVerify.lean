import CTV.Model.SigVerify
import CTV.Lemmas.DerSig
/-! Helper lemmas for C05: what the regenerated tables say, and the (EC)DSA branch of `verifySignature`. -/
namespace CTV.SigV
open CTV CTV.SigInput CTV.DerSig
set_option linter.unusedSimpArgs false
set_option linter.unnecessarySeqFocus false

/-- RFC 5246 §7.4.1.4.1 HashAlgorithm: md5(1) sha1(2) sha224(3) sha256(4) sha384(5) sha512(6), as Go `crypto.Hash` ids -/
def rfcHash : Nat → Option Nat
  | 1 => some 2 | 2 => some 3 | 3 => some 4 | 4 => some 5 | 5 => some 6 | 6 => some 7 | _ => none

theorem hash_table_is_rfc (c : Nat) : Gen.sigHashTable.lookup c = rfcHash c := by
  rcases c with _|_|_|_|_|_|_|c <;> simp [Gen.sigHashTable, List.lookup, rfcHash]

/-- RFC 5246 §7.4.1.4.1 SignatureAlgorithm: rsa(1) dsa(2) ecdsa(3) -/
def algKind : Nat → Option KeyKind
  | 1 => some .rsa | 2 => some .dsa | 3 => some .ecdsa | _ => none

theorem alg_table (a : Nat) : Gen.sigAlgTable.lookup a =
    if a = 1 then some ("rsa", false, false, "rsa.VerifyPKCS1v15")
    else if a = 2 then some ("dsa", true, true, "dsa.Verify")
    else if a = 3 then some ("ecdsa", true, true, "ecdsa.Verify")
    else none := by
  rcases a with _|_|_|_|a <;> simp [Gen.sigAlgTable, List.lookup]

theorem sign_nonpos (r : Int) : Int.sign r ≤ 0 ↔ r ≤ 0 := by
  rcases r with (_ | n) | n <;> simp [Int.sign] <;> omega

theorem reject_iff (a : Nat) (r s : Int) (h : a = 2 ∨ a = 3) : Gen.sigReject a r s = true ↔ ¬ (0 < r ∧ 0 < s) := by
  rcases h with rfl | rfl <;> simp [Gen.sigReject, Gen.sigRejectDSA, Gen.sigRejectECDSA, sign_nonpos] <;> omega


theorem name_rsa (k : KeyKind) : k.name = "rsa" ↔ k = .rsa := by cases k <;> simp [KeyKind.name]
theorem name_dsa (k : KeyKind) : k.name = "dsa" ↔ k = .dsa := by cases k <;> simp [KeyKind.name]
theorem name_ecdsa (k : KeyKind) : k.name = "ecdsa" ↔ k = .ecdsa := by cases k <;> simp [KeyKind.name]

/-- the (EC)DSA branch of `verifySignature`, for a key of the matching kind -/
theorem pair_branch (P : Prims) (key : Key) (h : Nat) (d sig : Bytes) (a : Nat) (ha : a = 2 ∨ a = 3) :
    verifyPair P key h d a true sig = Outcome.ok ↔
    key.primPanics = false ∧ ∃ r s extra rest, sig = derSigX r s extra ++ rest ∧ (derInt r ++ derInt s ++ extra).length < 2^31 ∧
      (Gen.sigExactDER a = true → extra = []) ∧ 0 < r ∧ 0 < s ∧ P.prim key h d (.pair r s) = true := by
  unfold verifyPair
  constructor
  · intro hok
    cases hp : parseSigPair sig with
    | none => simp [hp] at hok
    | some p =>
      simp only [hp, Bool.not_true, Bool.false_and, Bool.false_eq_true, if_false] at hok
      by_cases hr : Gen.sigReject a p.r p.s = true
      · simp [hr] at hok
      by_cases hx : (Gen.sigExactDER a && !p.extra.isEmpty) = true
      · simp [hr, hx] at hok
      by_cases hn : key.primPanics = true
      · simp [hr, hx, hn] at hok
      by_cases hv : P.prim key h d (.pair p.r p.s) = true
      · have hpos := (not_congr (reject_iff a p.r p.s ha)).mp hr
        obtain ⟨hs, hsz⟩ := parseSigPair_sound sig p hp
        refine ⟨by simpa using hn, p.r, p.s, p.extra, p.rest, hs, hsz, ?_, ?_, ?_, hv⟩
        · intro he
          simp only [he, Bool.true_and, Bool.not_eq_true', Bool.not_eq_false] at hx
          simpa using hx
        · omega
        · omega
      · simp [hr, hx, hn, hv] at hok
  · rintro ⟨hn, r, s, extra, rest, rfl, hsz, hex, hr, hs, hv⟩
    rw [parseSigPair_complete r s extra rest hsz]
    have hrej : ¬ (Gen.sigReject a r s = true) := by rw [reject_iff a r s ha]; simp; omega
    have hx : ¬ ((Gen.sigExactDER a && !extra.isEmpty) = true) := by
      cases he : Gen.sigExactDER a
      · simp
      · simp [hex he]
    simp [hrej, hx, hn, hv]



/-- a panic can only come from a nil key pointer of the declared type -/
theorem verifySignature_no_panic (P : Prims) (key : Key) (data : Bytes) (ds : DigitallySigned) (hn : key.primPanics = false) :
    verifySignature P key data ds ≠ .panic := by
  unfold verifySignature verifyPair
  dsimp only
  repeat' split
  all_goals simp_all

/-- `VerifySCTSignature` with the regenerated shape flag discharged -/
theorem verifySCT_def (P : Prims) (key : Key) (sct : SCT) (e : Entry) :
    verifySCT P key sct e =
      (match sctSigInput sct.version sct.timestamp e sct.extensions with
       | none => Outcome.err
       | some msg => verifySignature P key msg sct.sig) := by
  unfold verifySCT
  simp only [show Gen.sctVerifySerializesThenVerifies = true from rfl, Bool.not_true, Bool.false_eq_true, if_false]
  cases sctSigInput sct.version sct.timestamp e sct.extensions <;> rfl

theorem verifySTH_def (P : Prims) (key : Key) (sth : STH) :
    verifySTH P key sth =
      (match sthSigInput sth.version sth.timestamp sth.treeSize sth.root with
       | none => Outcome.err
       | some msg => verifySignature P key msg sth.sig) := by
  unfold verifySTH
  simp only [show Gen.sthVerifySerializesThenVerifies = true from rfl, Bool.not_true, Bool.false_eq_true, if_false]
  cases sthSigInput sth.version sth.timestamp sth.treeSize sth.root <;> rfl

theorem verifySCT_no_panic (P : Prims) (key : Key) (sct : SCT) (e : Entry) (hn : key.primPanics = false) :
    verifySCT P key sct e ≠ .panic := by
  rw [verifySCT_def]
  split
  · simp
  · exact verifySignature_no_panic P key _ _ hn

theorem verifySTH_no_panic (P : Prims) (key : Key) (sth : STH) (hn : key.primPanics = false) :
    verifySTH P key sth ≠ .panic := by
  rw [verifySTH_def]
  split
  · simp
  · exact verifySignature_no_panic P key _ _ hn

end CTV.SigV
