import CTV.Basic.Bytes
/-!
The DER fragment `tls.VerifySignature` relies on: `asn1.Unmarshal(sig, &struct{ R, S *big.Int })`
of the repository's asn1 fork (asn1/asn1.go: `parseField`, `parseTagAndLength`, `checkInteger`,
`parseBigInt`), strict mode.  Core only.

What the Go code does, and this file reproduces:
* identifier octet: the target type fixes class/tag/constructed bit, so the octet must be exactly
  `0x30` (SEQUENCE) resp. `0x02` (INTEGER); the high-tag-number form can never denote tag 16 or 2
  (it is refused as non-minimal below 31), SET (`0x31`) is not mapped to SEQUENCE for a struct target;
* length: short form below 128; long form `0x80+k` followed by `k` octets, refused when `k = 0`
  (indefinite), when the first length octet is 0 (superfluous leading zeros), when the accumulated
  value is already ≥ 2^23 before another octet is shifted in (length too large), when the value is
  below 128 (non-minimal), or when the octets run out;
* the content must fit into the remaining input (data truncated);
* INTEGER content: non-empty; when longer than one octet not `00 0xxxxxxx…` / `ff 1xxxxxxx…`;
  value = two's complement big-endian;
* a struct target parses its fields in order from the SEQUENCE content and **ignores whatever
  follows the last field inside the SEQUENCE** (asn1.go: "We allow extra bytes at the end of the
  SEQUENCE"); bytes after the SEQUENCE are returned as `rest`.
-/
namespace CTV.DerSig
open CTV

/-- the `k` length octets of a long-form length (`acc` = value so far) -/
def lenLoop : Nat → Nat → Bytes → Option (Nat × Bytes)
  | 0, acc, bs => some (acc, bs)
  | _+1, _, [] => none
  | k+1, acc, b :: bs =>
    if acc ≥ 2^23 then none
    else if acc * 256 + b.toNat = 0 then none
    else lenLoop k (acc * 256 + b.toNat) bs

/-- length octets (after the identifier octet): value and remaining input -/
def parseLen : Bytes → Option (Nat × Bytes)
  | [] => none
  | b :: bs =>
    if b.toNat < 128 then some (b.toNat, bs)
    else if b.toNat = 128 then none
    else match lenLoop (b.toNat - 128) 0 bs with
      | none => none
      | some (l, rest) => if l < 128 then none else some (l, rest)

/-- one TLV whose identifier octet must be exactly `tag`: content and remaining input -/
def parseTLV (tag : UInt8) : Bytes → Option (Bytes × Bytes)
  | [] => none
  | t :: bs =>
    if t ≠ tag then none
    else match parseLen bs with
      | none => none
      | some (l, rest) => if l > rest.length then none else some (rest.take l, rest.drop l)

/-- `checkInteger` (strict) -/
def checkInteger : Bytes → Bool
  | [] => false
  | [_] => true
  | a :: b :: _ => !((a.toNat = 0 && b.toNat < 128) || (a.toNat = 255 && b.toNat ≥ 128))

/-- `parseBigInt`: big-endian two's complement -/
def intOfBytes (c : Bytes) : Int :=
  match c with
  | [] => 0
  | a :: _ => if a.toNat ≥ 128 then (beDec c : Int) - (256 : Int) ^ c.length else (beDec c : Int)

def parseInteger (bs : Bytes) : Option (Int × Bytes) :=
  match parseTLV 0x02 bs with
  | none => none
  | some (c, rest) => if checkInteger c then some (intOfBytes c, rest) else none

/-- result of `asn1.Unmarshal(sig, &dsaSig)`: the two integers, what followed them inside the
SEQUENCE (dropped silently by the Go code) and what followed the SEQUENCE (`rest`, only logged) -/
structure SigPair where
  r : Int
  s : Int
  extra : Bytes
  rest : Bytes
deriving DecidableEq, Repr

def parseSigPair (sig : Bytes) : Option SigPair :=
  match parseTLV 0x30 sig with
  | none => none
  | some (inner, rest) =>
    match parseInteger inner with
    | none => none
    | some (r, i1) =>
      match parseInteger i1 with
      | none => none
      | some (s, extra) => some ⟨r, s, extra, rest⟩

/-! ### canonical encoders (what `asn1.Marshal(dsaSig{r, s})` writes) -/

/-- definite length, minimal form; the parser accepts lengths below 2^31 only -/
def encLen (n : Nat) : Bytes :=
  if n < 128 then [UInt8.ofNat n]
  else if n < 256 then [0x81, UInt8.ofNat n]
  else if n < 65536 then [0x82, UInt8.ofNat (n / 256), UInt8.ofNat (n % 256)]
  else if n < 16777216 then [0x83, UInt8.ofNat (n / 65536), UInt8.ofNat (n / 256 % 256), UInt8.ofNat (n % 256)]
  else [0x84, UInt8.ofNat (n / 16777216 % 256), UInt8.ofNat (n / 65536 % 256), UInt8.ofNat (n / 256 % 256), UInt8.ofNat (n % 256)]

def tlv (tag : UInt8) (c : Bytes) : Bytes := tag :: (encLen c.length ++ c)

def natBytesAux : Nat → Nat → Bytes
  | 0, _ => []
  | f+1, n => if n = 0 then [] else natBytesAux f (n / 256) ++ [UInt8.ofNat (n % 256)]

/-- minimal big-endian digits of `n` (empty for 0) -/
def natBytes (n : Nat) : Bytes := natBytesAux n n

def compl (c : Bytes) : Bytes := c.map fun b => UInt8.ofNat (255 - b.toNat)

/-- minimal two's complement of a non-negative number -/
def encNatInt (n : Nat) : Bytes :=
  match natBytes n with
  | [] => [0]
  | a :: t => if a.toNat ≥ 128 then 0 :: a :: t else a :: t

/-- minimal two's complement content octets of an INTEGER -/
def encInt (i : Int) : Bytes :=
  if i ≥ 0 then encNatInt i.toNat else compl (encNatInt (-i - 1).toNat)

def derInt (i : Int) : Bytes := tlv 0x02 (encInt i)

/-- `SEQUENCE { INTEGER r, INTEGER s }` followed, inside the SEQUENCE, by `extra` -/
def derSigX (r s : Int) (extra : Bytes) : Bytes := tlv 0x30 (derInt r ++ derInt s ++ extra)

/-- the DER encoding of an (EC)DSA signature value -/
def derSig (r s : Int) : Bytes := derSigX r s []

end CTV.DerSig
