import CTV.Basic.Bytes
import CTV.Gen.TbsFacts
/-!
DER tag–length–value level, exactly as the repository's `asn1` fork reads and writes it
(`asn1/asn1.go parseTagAndLength`, `parseBase128Int`; `asn1/marshal.go appendTagAndLength`, `lengthLength`).
Core only (linked into `ctvmodel`). Used by the TBSCertificate model of C03 (`CTV/Model/Tbs.lean`).

A `Tlv` keeps the *identifier octets verbatim* (`tag`) and the contents (`val`); the length octets are a
function of `val.length`, because `parseTagAndLength` refuses every non-minimal length form. That makes
encodings unique: `parseTlv bs = some (t, r) → bs = encTlv t ++ r` (CTV/Lemmas/Tlv.lean).
-/
namespace CTV.Tbs

/-! ### base-128 groups (high tag numbers, OBJECT IDENTIFIER arcs) -/

/-- the base-128 group at the head of `bs`: the bytes up to and including the first one with the top bit clear
(`parseBase128Int`'s loop; `none` = "truncated base 128 integer") -/
def b128Split : Bytes → Option (Bytes × Bytes)
  | [] => none
  | b :: rest =>
    if b < 0x80 then some ([b], rest)
    else match b128Split rest with
      | none => none
      | some (g, r) => some (b :: g, r)

def b128Val (g : Bytes) : Nat := g.foldl (fun a b => a * 128 + b.toNat % 128) 0

/-- `parseBase128Int` gives up before a sixth byte and refuses values above `math.MaxInt32`; since the fix for the
padded-arc acceptance it also refuses a leading 0x80 (`Gen.base128RejectsPadding` is read from the source on every run,
so the model follows whichever version of the function is in the tree) -/
def b128Ok (g : Bytes) : Bool :=
  decide (g.length ≤ 5) && decide (b128Val g ≤ 0x7fffffff) && (!Gen.base128RejectsPadding || g.head? != some 0x80)

/-! ### identifier octets -/

/-- identifier octets at the head of `bs`, verbatim. Low tag numbers are one byte; `xxx11111` introduces the
base-128 form, for which the fork demands a value ≥ 31 ("non-minimal tag") but not a minimal base-128 form. -/
def parseTag : Bytes → Option (Bytes × Bytes)
  | [] => none
  | b :: rest =>
    if b &&& 0x1f = 0x1f then
      match b128Split rest with
      | none => none
      | some (g, r) => if b128Ok g && decide (0x1f ≤ b128Val g) then some (b :: g, r) else none
    else some ([b], rest)

def validTag (tag : Bytes) : Bool := parseTag tag == some (tag, [])

/-! ### length octets -/

/-- `lengthLength` of asn1/marshal.go -/
def lengthLength (i : Nat) : Nat := if 255 < i then lengthLength (i / 256) + 1 else 1

/-- the length octets `appendTagAndLength` writes -/
def encLen (n : Nat) : Bytes :=
  if n < 128 then [UInt8.ofNat n] else UInt8.ofNat (0x80 + lengthLength n) :: beEnc (lengthLength n) n

/-- the length octets `parseTagAndLength` accepts: short form below 128; long form with 1..127 length bytes,
no leading zero byte, value ≥ 128 and < 2^31 ("length too large" otherwise) -/
def parseLen : Bytes → Option (Nat × Bytes)
  | [] => none
  | b :: rest =>
    if b < 0x80 then some (b.toNat, rest)
    else
      let k := b.toNat - 0x80
      if k = 0 then none
      else if rest.length < k then none
      else if (rest.take k).head? = some 0 then none
      else if beDec (rest.take k) < 0x80 then none
      else if 2 ^ 31 ≤ beDec (rest.take k) then none
      else some (beDec (rest.take k), rest.drop k)

/-! ### TLV -/

structure Tlv where
  tag : Bytes
  val : Bytes
deriving DecidableEq, Repr, Inhabited

def encTlv (t : Tlv) : Bytes := t.tag ++ encLen t.val.length ++ t.val

def parseTlv (bs : Bytes) : Option (Tlv × Bytes) :=
  match parseTag bs with
  | none => none
  | some (tag, r1) =>
    match parseLen r1 with
    | none => none
    | some (n, r2) => if r2.length < n then none else some (⟨tag, r2.take n⟩, r2.drop n)

/-- what `parseTlv` guarantees about its result and what `encTlv` needs to be read back -/
def Tlv.ok (t : Tlv) : Bool := validTag t.tag && decide (t.val.length < 2 ^ 31)

def concatTlvs (ts : List Tlv) : Bytes := ts.flatMap encTlv

/-- split complete contents into its TLVs (fuel = number of bytes; every TLV has at least two) -/
def splitTlvsF : Nat → Bytes → Option (List Tlv)
  | _, [] => some []
  | 0, _ :: _ => none
  | f + 1, b :: bs =>
    match parseTlv (b :: bs) with
    | none => none
    | some (t, r) =>
      match splitTlvsF f r with
      | none => none
      | some ts => some (t :: ts)

def splitTlvs (bs : Bytes) : Option (List Tlv) := splitTlvsF bs.length bs

/-- contents that are exactly one TLV -/
def parseOne (bs : Bytes) : Option Tlv :=
  match parseTlv bs with
  | some (t, []) => some t
  | _ => none

end CTV.Tbs
