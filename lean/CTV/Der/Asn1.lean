import CTV.Der.Basic
/-!
# The reflective part of the `asn1` fork: `parseField`, `parseSequenceOf`, `makeField`, `makeBody`

Target Go types are described by `ATy` (what `reflect` tells `parseField`), struct tags by `FP`
(`fieldParameters`). The parser has three modes:

* `lax`    — `UnmarshalWithParams(…, "lax")`,
* `strict` — `Unmarshal`,
* `canon`  — not a mode of the Go code: `strict` plus the extra checks that single out the encoding
  `Marshal` itself produces for the parsed value (true DER for the target type). It is the explicit
  `Canon` predicate of the round-trip theorem `marshal_parse` (CTV/Props/C10.lean).

`time.Time` and `interface{}` targets are in `ATy` too (`Canon` has no `interface{}` targets).
-/
namespace CTV.Der

inductive Mode | lax | strict | canon
  deriving Repr, DecidableEq, Inhabited

/-- mode for the fields of a struct: under a RawContent struct `Marshal` writes the raw octets back whatever the
fields look like, so `canon` asks of them only what `strict` asks -/
def Mode.under (m : Mode) (raw : Bool) : Mode :=
  match m, raw with
  | .canon, true => .strict
  | m, _ => m

def Mode.isLax : Mode → Bool | .lax => true | _ => false
def Mode.isCanon : Mode → Bool | .canon => true | _ => false

/-- asn1/common.go `fieldParameters` (without `name`). `lax` is only read from the top-level parameter
string by `UnmarshalWithParams`; inside a struct the parent's flag overwrites it (asn1.go, `innerParams.lax =
params.lax`). -/
structure FP where
  optional : Bool := false
  explicit : Bool := false
  application : Bool := false
  priv : Bool := false
  dflt : Option Int := none
  tag : Option Nat := none
  stringType : Nat := 0
  timeType : Nat := 0
  set : Bool := false
  omitEmpty : Bool := false
  lax : Bool := false
  deriving Repr, DecidableEq, Inhabited

/-- decimal with optional sign, as `strconv.ParseInt(s, 10, 64)` / `strconv.Atoi` accept it -/
def parseDecimal (s : String) : Option Int :=
  let go (cs : List Char) : Option Nat :=
    if cs = [] then none
    else cs.foldl (fun acc c => match acc with
      | none => none
      | some n => if '0' ≤ c ∧ c ≤ '9' then some (n * 10 + (c.toNat - 48)) else none) (some 0)
  match s.toList with
  | '-' :: cs => (go cs).map fun n => -(n : Int)
  | '+' :: cs => (go cs).map fun n => (n : Int)
  | cs => (go cs).map fun n => (n : Int)

/-- asn1/common.go `parseFieldParameters` -/
def parseFieldParameters (str : String) : FP :=
  (str.splitOn ",").foldl (fun (r : FP) part =>
    if part = "optional" then { r with optional := true }
    else if part = "explicit" then { r with explicit := true, tag := some (r.tag.getD 0) }
    else if part = "generalized" then { r with timeType := tagGeneralizedTime }
    else if part = "utc" then { r with timeType := tagUTCTime }
    else if part = "ia5" then { r with stringType := tagIA5String }
    else if part = "printable" then { r with stringType := tagPrintableString }
    else if part = "numeric" then { r with stringType := tagNumericString }
    else if part = "utf8" then { r with stringType := tagUTF8String }
    else if part.startsWith "default:" then
      match parseDecimal (String.ofList (part.toList.drop 8)) with
      | some i => if -(2^63 : Int) ≤ i ∧ i < 2^63 then { r with dflt := some i } else r
      | none => r
    else if part.startsWith "tag:" then
      match parseDecimal (String.ofList (part.toList.drop 4)) with
      | some i => if 0 ≤ i ∧ i < 2^63 then { r with tag := some i.toNat } else r
      | none => r
    else if part = "set" then { r with set := true }
    else if part = "application" then { r with application := true, tag := some (r.tag.getD 0) }
    else if part = "private" then { r with priv := true, tag := some (r.tag.getD 0) }
    else if part = "omitempty" then { r with omitEmpty := true }
    else if part = "lax" then { r with lax := true }
    else r) {}

mutual
/-- the Go target types `parseField` distinguishes -/
inductive ATy
  | bool | int32 | int64 | bigInt | enum | bitString | octets | oid | str | rawValue | flag | time
  /-- `interface{}` -/
  | any
  /-- `rawContent`: the first field has type `asn1.RawContent` (it is not listed in `fs`) -/
  | struct (rawContent : Bool) (fs : AFields)
  /-- `setName`: the slice type's name ends in "SET" -/
  | seqOf (setName : Bool) (e : ATy)
inductive AFields
  | nil
  | cons (p : FP) (t : ATy) (rest : AFields)
end

instance : Inhabited ATy := ⟨.bool⟩

/-- Parsed values. `str` remembers the universal string tag the content was decoded with and
`absent` marks a field left at its default by `setDefaultValue` (model-only information: the Go value
does not have it; the driver prints the Go-visible part). -/
inductive AVal
  | bool (b : Bool)
  | int (i : Int)
  | bits (b : BitStr)
  | octets (b : Bytes)
  | oid (arcs : List Nat)
  | str (wireTag : Nat) (s : Bytes)
  | raw (cls tag : Nat) (compound : Bool) (content full : Bytes)
  | flag (b : Bool)
  | time (t : TimeVal)
  /-- an `interface{}`: nil or the decoded element -/
  | any (v : Option AVal)
  | struct (raw : Option Bytes) (fs : List AVal)
  | list (vs : List AVal)
  | absent (v : AVal)
  deriving Repr, Inhabited

/-- asn1/common.go `getUniversalType`: (matchAny, tag, isCompound) -/
def universalType : ATy → Bool × Nat × Bool
  | .rawValue => (true, 0, false)
  | .oid => (false, tagOID, false)
  | .bitString => (false, tagBitString, false)
  | .enum => (false, tagEnum, false)
  | .bigInt => (false, tagInteger, false)
  | .bool => (false, tagBoolean, false)
  | .flag => (false, tagBoolean, false)
  | .int32 => (false, tagInteger, false)
  | .int64 => (false, tagInteger, false)
  | .struct _ _ => (false, tagSequence, true)
  | .octets => (false, tagOctetString, false)
  | .seqOf s _ => (false, if s then tagSet else tagSequence, true)
  | .str => (false, tagPrintableString, false)
  | .time => (false, tagUTCTime, false)
  | .any => (false, 0, false)

/-- `canHaveDefaultValue(v.Kind())` -/
def ATy.intKind : ATy → Bool
  | .int32 | .int64 | .enum => true
  | _ => false

mutual
/-- the Go zero value of the target type (fields of a zero struct are marked `absent`: their slices and
pointers are nil) -/
def zeroVal : ATy → AVal
  | .bool => .bool false
  | .int32 | .int64 | .enum | .bigInt => .int 0
  | .bitString => .bits ⟨[], 0⟩
  | .octets => .octets []
  | .oid => .oid []
  | .str => .str 0 []
  | .rawValue => .raw 0 0 false [] []
  | .flag => .flag false
  | .time => .time ⟨1, 1, 1, 0, 0, 0, 0, 0⟩
  | .any => .any none
  | .struct _ fs => .struct none (zeroVals fs)
  | .seqOf _ _ => .list []
def zeroVals : AFields → List AVal
  | .nil => []
  | .cons _ t rest => .absent (zeroVal t) :: zeroVals rest
end

/-- what `setDefaultValue` leaves in an optional field -/
def defaultVal (t : ATy) (p : FP) : AVal :=
  match p.dflt with
  | some d => if t.intKind then .int d else zeroVal t
  | none => zeroVal t

/-- `reflect.DeepEqual(v, zero)` for a value as `parseField` builds it: everything that was present
on the wire and is a slice or pointer is non-nil, hence not zero. -/
def isZero : AVal → Bool
  | .absent (.int i) => i == 0   -- an absent integer field holds its `default:` value, which need not be zero
  | .absent _ => true
  | .bool b => !b
  | .int i => i == 0
  | .str _ s => s.isEmpty
  | .flag b => !b
  | .time t => t == ⟨1, 1, 1, 0, 0, 0, 0, 0⟩
  | .any none => true
  | .struct raw fs => (raw.getD []).isEmpty && allZero fs
  | _ => false
where allZero : List AVal → Bool
  | [] => true
  | v :: vs => isZero v && allZero vs

def AVal.unwrap : AVal → AVal
  | .absent v => v
  | v => v

mutual
/-- `reflect.DeepEqual(v, zero)` directed by the target type: a `*big.Int` that was present on the wire is a
non-nil pointer and never equals the zero value, at any depth -/
def isZeroAt : ATy → AVal → Bool
  | _, .absent (.int i) => i == 0
  | _, .absent _ => true
  | .bigInt, _ => false
  | .struct _ fs, .struct raw vs => (raw.getD []).isEmpty && allZeroAt fs vs
  | _, v => isZero v
def allZeroAt : AFields → List AVal → Bool
  | .cons _ t rest, v :: vs => isZeroAt t v && allZeroAt rest vs
  | _, _ => true
end

/-- `v.Kind() == reflect.Slice && v.Len() == 0` -/
def emptySlice : AVal → Bool
  | .octets b => b.isEmpty
  | .oid a => a.isEmpty
  | .list vs => vs.isEmpty
  | .absent (.octets _) | .absent (.oid _) | .absent (.list _) => true
  | _ => false

/-- marshal.go `makeField`: the three tests that make a field vanish from the encoding -/
def omitted (t : ATy) (p : FP) (v : AVal) : Bool :=
  (match t with | .any => false | _ => true) &&
  ((emptySlice v && p.omitEmpty) ||
  (p.optional && (match p.dflt with
    | some d => t.intKind && (match v.unwrap with | .int i => i == d | _ => false)
    | none => isZeroAt t v)))

/-- the tag `makeField` picks for a Go string -/
def marshalStringTag (p : FP) (s : Bytes) : Nat :=
  if p.stringType ≠ 0 then p.stringType
  else if s.all (fun b => b.toNat < 128 && isPrintable b false false) then tagPrintableString else tagUTF8String

/-- the content test of `makeBody` for a string (and the UTF-8 test of `makeField`) -/
def marshalStringOK (p : FP) (s : Bytes) : Bool :=
  if p.stringType = tagIA5String then s.all fun b => b.toNat < 128
  else if p.stringType = tagPrintableString then s.all fun b => isPrintable b true false
  else if p.stringType = tagNumericString then s.all isNumeric
  else if p.stringType ≠ 0 then true
  else s.all (fun b => b.toNat < 128 && isPrintable b false false) || utf8Valid s

/-- class written by `makeField` for a tagged field -/
def marshalClass (p : FP) : Nat := if p.application then 1 else if p.priv then 3 else 2

/-- Result of the mode-independent first half of `parseField`. -/
inductive Hdr
  /-- optional element not on the wire: default installed, offset reset to `initOffset` -/
  | absent
  /-- zero-length explicit tag on an `asn1.Flag` -/
  | flagSet (rest : Bytes)
  /-- header(s) read and matched: `utag` is `universalTag`, `inner` the content octets, `rest` what
  follows the element, `consumed = bytes[initOffset:offset]`, `outer` the explicit wrapper's
  declared length and the octets that followed the wrapper's header -/
  | body (tl : TL) (utag : Nat) (inner rest consumed : Bytes) (outer : Option (Nat × Nat))
  deriving Repr, Inhabited

/-- class and tag `parseField` expects, and whether anything matches (`matchAnyClassAndTag`) -/
def expected (p : FP) (matchAny : Bool) (utag : Nat) : Nat × Nat × Bool :=
  let r := (0, utag, matchAny)
  let r := if !p.explicit && p.tag.isSome then (2, p.tag.getD 0, false) else r
  let r := if !p.explicit && p.application && p.tag.isSome then (1, p.tag.getD 0, false) else r
  if !p.explicit && p.priv && p.tag.isSome then (3, p.tag.getD 0, false) else r

/-- `setDefaultValue` failed or succeeded after a tag mismatch -/
def headerMiss (p : FP) : Except Err Hdr := if p.optional then .ok .absent else .error .structural

/-- `universalTag` after the string / time / `set` adjustments of `parseField` -/
def utagOf (t : ATy) (p : FP) (tl : TL) : Nat :=
  let utag0 := (universalType t).2.1
  let utag1 :=
    if utag0 = tagPrintableString then
      if tl.cls = 0 then (if isOtherStringTag tl.tag then tl.tag else utag0)
      else if p.stringType ≠ 0 then p.stringType else utag0
    else utag0
  let utag1 := if utag1 = tagUTCTime ∧ tl.tag = tagGeneralizedTime ∧ tl.cls = 0 then tagGeneralizedTime else utag1
  if p.set then tagSet else utag1

/-- "tags don't match" -/
def tagMismatch (t : ATy) (p : FP) (tl : TL) : Bool :=
  let (matchAny, _, compoundType) := universalType t
  let (expCls, expTag, matchAnyCT) := expected p matchAny (utagOf t p tl)
  (!matchAnyCT && (tl.cls != expCls || tl.tag != expTag)) || (!matchAny && tl.compound != compoundType)

/-- second half of `header`: `tl` is the header of the element itself (explicit wrapper, if any, already
unwrapped), `r2` what follows that header -/
def headerBody (t : ATy) (p : FP) (bs : Bytes) (tl : TL) (r2 : Bytes) (outer : Option (Nat × Nat)) : Except Err Hdr :=
  if tagMismatch t p tl then headerMiss p
  else if tl.len > r2.length then .error .syntax
  else .ok (.body tl (utagOf t p tl) (r2.take tl.len) (r2.drop tl.len) (bs.take (bs.length - (r2.drop tl.len).length)) outer)

/-- `parseField` from `parseTagAndLength` down to `innerBytes := bytes[offset : offset+t.length]`
(`bs ≠ []`). The decoding mode plays no part here, only the dialect of `parseBase128Int`. -/
def header (d : Dialect) (t : ATy) (p : FP) (bs : Bytes) : Except Err Hdr :=
  match parseTagLen d bs with
  | .error e => .error e
  | .ok (tl0, r1) =>
    if p.explicit then
      if r1 = [] then .error .structural
      else if tl0.cls = (if p.application then 1 else 2) ∧ tl0.tag = p.tag.getD 0 ∧ (tl0.len = 0 ∨ tl0.compound) then
        match t with
        | .rawValue => headerBody t p bs tl0 r1 none
        | _ =>
          if tl0.len > 0 then
            match parseTagLen d r1 with
            | .error e => .error e
            | .ok (tl, r2) => headerBody t p bs tl r2 (some (tl0.len, r1.length))
          else
            match t with
            | .flag => .ok (.flagSet r1)
            | _ => .error .structural
      else headerMiss p
    else headerBody t p bs tl0 r1 none

/-- the counting pass of `parseSequenceOf` -/
def countElems (d : Dialect) (u : Bool × Nat × Bool) : Nat → Bytes → Except Err Nat
  | 0, _ => .error .fuel
  | _+1, [] => .ok 0
  | f+1, bs =>
    match parseTagLen d bs with
    | .error e => .error e
    | .ok (tl, r) =>
      let tag := if isOtherStringTag tl.tag then tagPrintableString
                 else if tl.tag = tagGeneralizedTime then tagUTCTime else tl.tag
      if !u.1 && (tl.cls != 0 || tl.compound != u.2.2 || tag != u.2.1) then .error .structural
      else if tl.len > r.length then .error .syntax
      else
        match countElems d u f (r.drop tl.len) with
        | .error e => .error e
        | .ok n => .ok (n + 1)

/-- the second loop of `parseSequenceOf`: `numElements` calls of `parseField`, offset threaded -/
def parseElemsWith (f : Bytes → Except Err (AVal × Bytes)) : Nat → Bytes → Except Err (List AVal)
  | 0, _ => .ok []
  | n+1, bs =>
    match f bs with
    | .error e => .error e
    | .ok (v, rest) =>
      match parseElemsWith f n rest with
      | .error e => .error e
      | .ok vs => .ok (v :: vs)

/-- dialect used for a mode: the canonical form always has minimal base-128 -/
def Dialect.forMode (d : Dialect) (m : Mode) : Dialect := if m.isCanon then { d with b128min := true } else d

/-- the non-recursive cases of the second half of `parseField` -/
def parseLeaf (d : Dialect) (m : Mode) (t : ATy) (p : FP) (tl : TL) (utag : Nat) (inner consumed : Bytes) : Except Err AVal :=
  let lax := m.isLax
  match t with
  | .rawValue => .ok (.raw tl.cls tl.tag tl.compound inner consumed)
  | .oid => (parseOID d lax inner).map .oid
  | .bitString => (parseBitString inner).map .bits
  | .enum => (parseInt32 lax inner).map .int
  | .flag => if m.isCanon && !inner.isEmpty then .error .other else .ok (.flag true)
  | .bigInt => (parseBigInt lax inner).map .int
  | .bool => (parseBool inner).map .bool
  | .int32 => (parseInt32 lax inner).map .int
  | .int64 => (parseInt64 lax inner).map .int
  | .octets => .ok (.octets inner)
  | .time =>
    match (if utag = tagUTCTime then parseUTCTime inner else parseGeneralizedTime d inner) with
    | .error e => .error e
    | .ok tv =>
      let gen := p.timeType = tagGeneralizedTime ∨ outsideUTCRange tv
      if m.isCanon && !((tl.cls != 0 || utag == (if gen then tagGeneralizedTime else tagUTCTime)) &&
          inner == (if gen then encGeneralizedTime tv else encUTCTime tv)) then .error .other
      else .ok (.time tv)
  | .str =>
    match parseStringByTag lax utag inner with
    | .error e => .error e
    | .ok s =>
      if m.isCanon && !(utag == (if tl.cls = 0 then marshalStringTag p s else utag) && marshalStringOK p s &&
          (utag == tagPrintableString || utag == tagUTF8String || utag == tagIA5String || utag == tagNumericString)) then .error .other
      else .ok (.str utag s)
  | _ => .error .other

/-- static conditions under which `makeField` writes the header `parseField` expects
(checked in `canon` mode only) -/
def canonParams (t : ATy) (p : FP) : Bool :=
  let isSeq := match t with | .struct _ _ => true | .seqOf s _ => !s | _ => false
  let isStr := match t with | .str => true | _ => false
  let isRaw := match t with | .rawValue => true | _ => false
  let isTime := match t with | .time => true | _ => false
  isRaw ||
  ((!p.explicit || p.tag.isSome) && (!p.set || isSeq) && (p.stringType == 0 || isStr) && (p.timeType == 0 || isTime) &&
   (match p.tag with
    | none => true
    | some _ => if p.explicit then marshalClass p == (if p.application then 1 else 2)
                else marshalClass p == (expected p false 0).1) &&
   (match t with | .struct true _ => !p.explicit | _ => true))

/-- explicit wrapper: declared length = inner header + inner content -/
def canonOuter (tl : TL) (r2len : Nat) : Option (Nat × Nat) → Bool
  | none => true
  | some (olen, r1len) => olen == (r1len - r2len) + tl.len

/-- the tag switch of the `interface{}` branch of `parseField` -/
def anyInner (d : Dialect) (lax : Bool) (tl : TL) (inner : Bytes) : Except Err (Option AVal) :=
  if !tl.compound && tl.cls == 0 then
    if tl.tag = tagPrintableString then (parsePrintableString lax inner).map fun s => some (.str tl.tag s)
    else if tl.tag = tagNumericString then (parseNumericString inner).map fun s => some (.str tl.tag s)
    else if tl.tag = tagIA5String then (parseIA5String inner).map fun s => some (.str tl.tag s)
    else if tl.tag = tagT61String then .ok (some (.str tl.tag inner))
    else if tl.tag = tagUTF8String then (parseUTF8String inner).map fun s => some (.str tl.tag s)
    else if tl.tag = tagInteger then (parseInt64 lax inner).map fun i => some (.int i)
    else if tl.tag = tagBitString then (parseBitString inner).map fun b => some (.bits b)
    else if tl.tag = tagOID then (parseOID d lax inner).map fun a => some (.oid a)
    else if tl.tag = tagUTCTime then (parseUTCTime inner).map fun t => some (.time t)
    else if tl.tag = tagGeneralizedTime then (parseGeneralizedTime d inner).map fun t => some (.time t)
    else if tl.tag = tagOctetString then .ok (some (.octets inner))
    else if tl.tag = tagBMPString then (parseBMPString inner).map fun s => some (.str tl.tag s)
    else if tl.tag = tagBoolean ∧ d.anyBool then (parseBool inner).map fun b => some (.bool b)
    else .ok none
  else .ok none

/-- the `interface{}` branch of `parseField` (`bs ≠ []`) -/
def parseAny (d : Dialect) (lax : Bool) (bs : Bytes) : Except Err (AVal × Bytes) :=
  match parseTagLen d bs with
  | .error e => .error e
  | .ok (tl, r) =>
    if tl.len > r.length then .error .syntax
    else
      match anyInner d lax tl (r.take tl.len) with
      | .error e => .error e
      | .ok v => .ok (.any v, r.drop tl.len)

def ATy.isAny : ATy → Bool
  | .any => true
  | _ => false

/-- the optional element is not there: `setDefaultValue` succeeded, offset unchanged -/
def absentResult (m : Mode) (t : ATy) (p : FP) (rest : Bytes) : Except Err (AVal × Bytes) :=
  if m.isCanon && !omitted t p (.absent (defaultVal t p)) then .error .other
  else .ok (.absent (defaultVal t p), rest)

/-- everything of `parseField` around the type-specific decoding `k` -/
def fieldShell (d : Dialect) (m : Mode) (t : ATy) (p : FP) (bs : Bytes)
    (k : TL → Nat → Bytes → Bytes → Except Err AVal) : Except Err (AVal × Bytes) :=
  if bs = [] then (if p.optional then absentResult m t p [] else .error .syntax)
  else if t.isAny then
    (if m.isCanon then .error .other else parseAny d m.isLax bs)
  else
    match header (d.forMode m) t p bs with
    | .error e => .error e
    | .ok .absent => absentResult m t p bs
    | .ok (.flagSet rest) => if m.isCanon then .error .other else .ok (.flag true, rest)
    | .ok (.body tl utag inner rest consumed outer) =>
      if m.isCanon && !(canonParams t p && canonOuter tl (inner.length + rest.length) outer) then .error .other
      else
        match k tl utag inner consumed with
        | .error e => .error e
        | .ok v => if m.isCanon && omitted t p v then .error .other else .ok (v, rest)

mutual
/-- asn1.go `parseField` on the remaining input `bs`; returns the value and the new remainder. -/
def parseField (d : Dialect) (m : Mode) : ATy → FP → Bytes → Except Err (AVal × Bytes)
  | .struct raw fs, p, bs =>
    fieldShell d m (.struct raw fs) p bs fun _ _ inner consumed =>
      match parseFields d (m.under raw) fs inner with
      | .error e => .error e
      | .ok (vs, left) =>
        if m.isCanon && !raw && !left.isEmpty then .error .other
        else .ok (.struct (if raw then some consumed else none) vs)
  | .seqOf s e, p, bs =>
    fieldShell d m (.seqOf s e) p bs fun _ _ inner _ =>
      if m.isCanon && d.sortSetOf && (p.set || s) then .error .other
      else if e.isAny then .error .structural
      else
      match countElems (d.forMode m) (universalType e) (inner.length + 1) inner with
      | .error err => .error err
      | .ok n => (parseElemsWith (parseField d m e {}) n inner).map .list
  | t, p, bs => fieldShell d m t p bs fun tl utag inner consumed => parseLeaf (d.forMode m) m t p tl utag inner consumed
/-- the field loop of the `reflect.Struct` case; also returns the unread tail of the SEQUENCE content -/
def parseFields (d : Dialect) (m : Mode) : AFields → Bytes → Except Err (List AVal × Bytes)
  | .nil, bs => .ok ([], bs)
  | .cons p t rest, bs =>
    match parseField d m t p bs with
    | .error e => .error e
    | .ok (v, bs') =>
      match parseFields d m rest bs' with
      | .error e => .error e
      | .ok (vs, left) => .ok (v :: vs, left)
end
/-- `asn1.UnmarshalWithParams(b, &val, params)` for a target of type `t` -/
def unmarshal (d : Dialect) (t : ATy) (params : String) (bs : Bytes) : Except Err (AVal × Bytes) :=
  let p := parseFieldParameters params
  parseField d (if p.lax then .lax else .strict) t p bs

/-! ## marshal -/

def wrapHeader (cls : Nat) (compound : Bool) (tag : Nat) (body : Bytes) : Bytes :=
  encTagLen ⟨cls, tag, body.length, compound⟩ ++ body

/-- marshal.go `stripTagAndLength` -/
def stripTagAndLength (d : Dialect) (bs : Bytes) : Bytes :=
  match bs with
  | [] => []
  | _ => match parseTagLen d bs with
    | .error _ => bs
    | .ok (_, r) => r

def marshalLeafBody (t : ATy) (p : FP) (v : AVal) : Except Err Bytes :=
  match t, v with
  | .flag, .flag _ => .ok []
  | .bitString, .bits b => .ok (encBitString b)
  | .oid, .oid arcs => encOID arcs
  | .bigInt, .int i => .ok (intBytes i)
  | .bool, .bool b => .ok (encBool b)
  | .int32, .int i => .ok (intBytes i)
  | .int64, .int i => .ok (intBytes i)
  | .enum, .int i => .ok (intBytes i)
  | .octets, .octets b => .ok b
  | .time, .time t => .ok (if p.timeType = tagGeneralizedTime ∨ outsideUTCRange t then encGeneralizedTime t else encUTCTime t)
  | .str, .str _ s => if marshalStringOK p s then .ok s else .error .structural
  | _, _ => .error .other

def concatAll : List Bytes → Bytes
  | [] => []
  | b :: bs => b ++ concatAll bs

/-- `bytes.Compare(a, b) ≤ 0` -/
def bytesLe : Bytes → Bytes → Bool
  | [], _ => true
  | _ :: _, [] => false
  | a :: as, b :: bs => a < b || (a == b && bytesLe as bs)

def insertSorted (x : Bytes) : List Bytes → List Bytes
  | [] => [x]
  | y :: ys => if bytesLe x y then x :: y :: ys else y :: insertSorted x ys

/-- upstream's `setEncoder`: element encodings in ascending octet-string order -/
def sortEncodings (l : List Bytes) : List Bytes := l.foldr insertSorted []

/-- a nil `*big.Int` (a big-integer field left at its zero value) -/
def nilBigInt (t : ATy) (v : AVal) : Bool :=
  match t, v with
  | .bigInt, .absent _ => true
  | _, _ => false

/-- the end of `makeField`: universal header, implicit tag, or explicit wrapper around the universal element -/
def wrapAs (p : FP) (isCompound : Bool) (tag : Nat) (b : Bytes) : Bytes :=
  match p.tag with
  | some ptag =>
    if p.explicit then wrapHeader (marshalClass p) true ptag (wrapHeader 0 isCompound tag b)
    else wrapHeader (marshalClass p) isCompound ptag b
  | none => wrapHeader 0 isCompound tag b

/-- the static Go type of the value stored in an `interface{}` by `parseField` -/
def dynType : AVal → Option ATy
  | .str _ _ => some .str
  | .int _ => some .int64
  | .bits _ => some .bitString
  | .oid _ => some .oid
  | .time _ => some .time
  | .octets _ => some .octets
  | .bool _ => some .bool
  | _ => none

def marshalShell (t : ATy) (p : FP) (v : AVal) (body : AVal → Except Err Bytes) : Except Err Bytes :=
  if omitted t p v then .ok []
  else
    match t, v.unwrap with
    | .rawValue, .raw cls tag compound content full =>
      if !full.isEmpty then .ok full else .ok (wrapHeader cls compound tag content)
    | .rawValue, _ => .error .other
    | _, v' =>
      let (_, tag0, isCompound) := universalType t
      -- a nil *big.Int (`makeBigInt`: "empty integer")
      if nilBigInt t v then .error .structural else
      let v := v'
      if p.timeType ≠ 0 && tag0 ≠ tagUTCTime then .error .structural
      else if p.stringType ≠ 0 && tag0 ≠ tagPrintableString then .error .structural
      else
        let tag1 : Except Err Nat :=
          match t, v with
          | .str, .str _ s =>
            if p.stringType = 0 then
              (if s.all (fun b => b.toNat < 128 && isPrintable b false false) then .ok tagPrintableString
               else if utf8Valid s then .ok tagUTF8String else .error .other)
            else .ok p.stringType
          | .time, .time tv => .ok (if p.timeType = tagGeneralizedTime ∨ outsideUTCRange tv then tagGeneralizedTime else tagUTCTime)
          | _, _ => .ok tag0
        match tag1 with
        | .error e => .error e
        | .ok tag1 =>
          if p.set && tag1 ≠ tagSequence then .error .structural
          else
            let tag := if p.set then tagSet else tag1
            match body v with
            | .error e => .error e
            | .ok b => .ok (wrapAs p isCompound tag b)


/-- the element loop of `makeBody` for a slice -/
def marshalElemsWith (f : AVal → Except Err Bytes) : List AVal → Except Err (List Bytes)
  | [] => .ok []
  | v :: vs =>
    match f v with
    | .error e => .error e
    | .ok b =>
      match marshalElemsWith f vs with
      | .error e => .error e
      | .ok bs => .ok (b :: bs)

mutual
/-- marshal.go `makeField` + `makeBody` -/
def marshalField (d : Dialect) : ATy → FP → AVal → Except Err Bytes
  | .struct raw fs, p, v =>
    marshalShell (.struct raw fs) p v fun v =>
      match v with
      | .struct rawv vs =>
        if raw && !(rawv.getD []).isEmpty then .ok (stripTagAndLength d (rawv.getD []))
        else marshalFields d fs vs
      | _ => .error .other
  | .seqOf s e, p, v =>
    marshalShell (.seqOf s e) p v fun v =>
      match v with
      | .list vs =>
        match marshalElemsWith (marshalField d e {}) vs with
        | .error err => .error err
        | .ok encs => .ok (concatAll (if d.sortSetOf && (p.set || s) then sortEncodings encs else encs))
      | _ => .error .other
  | .any, p, v =>
    match v.unwrap with
    | .any (some inner) =>
      match dynType inner with
      | some t' => marshalShell t' p inner (marshalLeafBody t' p)
      | none => .error .other
    | _ => .error .other
  | t, p, v => marshalShell t p v fun v => marshalLeafBody t p v
def marshalFields (d : Dialect) : AFields → List AVal → Except Err Bytes
  | .nil, [] => .ok []
  | .cons p t rest, v :: vs =>
    match marshalField d t p v with
    | .error e => .error e
    | .ok b =>
      match marshalFields d rest vs with
      | .error e => .error e
      | .ok bs => .ok (b ++ bs)
  | _, _ => .error .other
end
end CTV.Der
