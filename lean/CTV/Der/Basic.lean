import CTV.Basic.Bytes
/-!
# DER primitives as the forked `asn1` package (asn1/asn1.go, asn1/marshal.go) implements them

Core Lean only (linked into `ctvmodel`). Everything is a total function over `Bytes = List UInt8`.
A parser takes the *remaining* input (`bytes[offset:]` in the Go code) and returns the value
together with the new remainder; `offset == len(bytes)` is `bs = []`, and
`invalidLength(offset, n, len(bytes))` is `n > bs.length` (lengths are < 2^31, so the Go addition
cannot overflow on the 64-bit platforms the repository builds for).

Reusable entry points: `parseTagLen`, `encTagLen`, `readTLV`, `tlv`, `checkInteger`, `intOfBytes`,
`parseInt64`, `parseInt32`, `parseBigInt`, `intBytes`, `parseBool`, `parseBitString`, `parseOID`,
`encOID`, the string parsers, `splitTLVs`.
-/
namespace CTV.Der

/-- Error classes. `syntax`/`structural` are Go's `SyntaxError`/`StructuralError`, `other` is a plain
`error` value. The three last constructors are *refinements* raised by the strict parser exactly at the
checks that `lax` relaxes (asn1.go `checkInteger`, `parseObjectIdentifier`, `parsePrintableString`);
they carry the offending content octets so that theorems can talk about "the failing position". -/
inductive Err
  | syntax | structural | other
  | intNotMinimal (content : Bytes)
  | oidEmpty
  | printable (content : Bytes)
  deriving Repr, DecidableEq, Inhabited

/-- Switches on which the fork and upstream differ and which may change when a `fix:` lands.
`b128min`: `parseBase128Int` rejects a leading `0x80` octet (upstream go ≥ 1.19 does; the fork, as
snapshotted, does not — DESIGN.md §6 F11a). Regenerated into `Gen.Asn1Facts.base128RejectsLeading80`. -/
structure Dialect where
  b128min : Bool
  deriving Repr, DecidableEq, Inhabited

def Dialect.upstream : Dialect := ⟨true⟩
def Dialect.forkSnapshot : Dialect := ⟨false⟩

/-! ## tag and length -/

structure TL where
  cls : Nat
  tag : Nat
  len : Nat
  compound : Bool
  deriving Repr, DecidableEq, Inhabited

/-- asn1.go `parseBase128Int` (loop state: `shifted`, accumulated `ret64`). At most 5 octets, value
≤ MaxInt32. With `d.b128min` a leading `0x80` is rejected (upstream); the fork accepts it. -/
def parseBase128Go (d : Dialect) : Nat → Nat → Bytes → Except Err (Nat × Bytes)
  | _, _, [] => .error .syntax
  | shifted, acc, b :: bs =>
    if shifted = 5 then .error .structural
    else if d.b128min && shifted == 0 && b == 0x80 then .error .syntax
    else
      let acc' := acc * 128 + b.toNat % 128
      if b.toNat < 128 then
        if acc' > 2147483647 then .error .structural else .ok (acc', bs)
      else parseBase128Go d (shifted + 1) acc' bs

def parseBase128 (d : Dialect) (bs : Bytes) : Except Err (Nat × Bytes) := parseBase128Go d 0 0 bs

/-- the long-form length loop of `parseTagAndLength` -/
def parseLongLen : Nat → Nat → Bytes → Except Err (Nat × Bytes)
  | 0, acc, bs => .ok (acc, bs)
  | _+1, _, [] => .error .syntax
  | n+1, acc, b :: bs =>
    if acc ≥ 2^23 then .error .structural
    else
      let acc' := acc * 256 + b.toNat
      if acc' = 0 then .error .structural else parseLongLen n acc' bs

/-- after the tag: the length octets -/
def parseLen : Bytes → Except Err (Nat × Bytes)
  | [] => .error .syntax
  | l :: r =>
    if l.toNat < 128 then .ok (l.toNat, r)
    else if l.toNat % 128 = 0 then .error .syntax
    else
      match parseLongLen (l.toNat % 128) 0 r with
      | .error e => .error e
      | .ok (len, r') => if len < 128 then .error .structural else .ok (len, r')

/-- the identifier octets: class, constructed bit, tag number (high-tag-number form only for ≥ 31) -/
def parseTag (d : Dialect) : Bytes → Except Err (Nat × Bool × Nat × Bytes)
  | [] => .error .other
  | b :: bs =>
    let cls := b.toNat / 64
    let compound := (b.toNat / 32) % 2 == 1
    if b.toNat % 32 = 31 then
      match parseBase128 d bs with
      | .error e => .error e
      | .ok (tg, r) => if tg < 31 then .error .syntax else .ok (cls, compound, tg, r)
    else .ok (cls, compound, b.toNat % 32, bs)

/-- asn1.go `parseTagAndLength` on the remaining input. No indefinite length, no superfluous leading
zeros, long form only for ≥ 128, high-tag-number form only for ≥ 31, length < 2^31. -/
def parseTagLen (d : Dialect) (bs : Bytes) : Except Err (TL × Bytes) :=
  match parseTag d bs with
  | .error e => .error e
  | .ok (cls, compound, tag, r) =>
    match parseLen r with
    | .error e => .error e
    | .ok (len, r') => .ok (⟨cls, tag, len, compound⟩, r')

/-- little-endian digits of `n` in `base`, minimal, `[0]` for 0 (fuel `n+1` always suffices) -/
def digitsRev (base : Nat) : Nat → Nat → List Nat
  | 0, _ => []
  | f+1, n => if n < base then [n] else n % base :: digitsRev base f (n / base)

def digitsBE (base n : Nat) : List Nat := (digitsRev base (n + 1) n).reverse

/-- marshal.go `appendBase128Int`: minimal base-128, continuation bit on all but the last octet -/
def encBase128 (n : Nat) : Bytes :=
  match digitsRev 128 (n + 1) n with
  | [] => []
  | lo :: his => (his.reverse.map fun d => UInt8.ofNat (128 + d)) ++ [UInt8.ofNat lo]

/-- marshal.go `appendTagAndLength`, the length part -/
def encLen (n : Nat) : Bytes :=
  if n < 128 then [UInt8.ofNat n]
  else
    let ds := (digitsBE 256 n).map UInt8.ofNat
    UInt8.ofNat (128 + ds.length) :: ds

/-- marshal.go `appendTagAndLength`, the identifier part -/
def encTag (cls : Nat) (compound : Bool) (tag : Nat) : Bytes :=
  let b := cls * 64 + (if compound then 32 else 0)
  if tag ≥ 31 then UInt8.ofNat (b + 31) :: encBase128 tag else [UInt8.ofNat (b + tag)]

def encTagLen (tl : TL) : Bytes := encTag tl.cls tl.compound tl.tag ++ encLen tl.len

/-- a whole TLV with the given header fields around `content` -/
def tlv (cls : Nat) (compound : Bool) (tag : Nat) (content : Bytes) : Bytes :=
  encTagLen ⟨cls, tag, content.length, compound⟩ ++ content

/-- One element: header, content, the element's full octets, and what follows it. -/
structure Elem where
  tl : TL
  content : Bytes
  full : Bytes
  deriving Repr, DecidableEq, Inhabited

/-- `parseTagAndLength` + the `invalidLength` test + slicing, as every caller does it. -/
def readTLV (d : Dialect) (bs : Bytes) : Except Err (Elem × Bytes) :=
  match parseTagLen d bs with
  | .error e => .error e
  | .ok (tl, r) =>
    if tl.len > r.length then .error .syntax
    else .ok (⟨tl, r.take tl.len, bs.take (bs.length - r.length + tl.len)⟩, r.drop tl.len)

/-- Split a content string into its elements (the counting pass of `parseSequenceOf` without the tag
test). Fuel: every element consumes at least two octets. -/
def splitTLVsGo (d : Dialect) : Nat → Bytes → Except Err (List Elem)
  | 0, _ => .error .other
  | _+1, [] => .ok []
  | f+1, bs =>
    match readTLV d bs with
    | .error e => .error e
    | .ok (e, rest) =>
      match splitTLVsGo d f rest with
      | .error e' => .error e'
      | .ok es => .ok (e :: es)

def splitTLVs (d : Dialect) (bs : Bytes) : Except Err (List Elem) := splitTLVsGo d (bs.length + 1) bs

/-! ## BOOLEAN -/

def parseBool : Bytes → Except Err Bool
  | [b] => if b = 0 then .ok false else if b = 0xff then .ok true else .error .syntax
  | _ => .error .syntax

def encBool (b : Bool) : Bytes := [if b then 0xff else 0]

/-! ## INTEGER -/

/-- asn1.go `checkInteger` -/
def checkInteger (lax : Bool) : Bytes → Except Err Unit
  | [] => .error .structural
  | [_] => .ok ()
  | b0 :: b1 :: rest =>
    if lax then .ok ()
    else if (b0 = 0 ∧ b1.toNat < 128) ∨ (b0 = 0xff ∧ b1.toNat ≥ 128) then
      .error (.intNotMinimal (b0 :: b1 :: rest))
    else .ok ()

/-- big-endian two's complement -/
def intOfBytes : Bytes → Int
  | [] => 0
  | b :: bs =>
    if b.toNat ≥ 128 then (beDec (b :: bs) : Int) - (256 ^ (bs.length + 1) : Nat) else (beDec (b :: bs) : Int)

def parseBigInt (lax : Bool) (c : Bytes) : Except Err Int :=
  match checkInteger lax c with
  | .error e => .error e
  | .ok () => .ok (intOfBytes c)

def parseInt64 (lax : Bool) (c : Bytes) : Except Err Int :=
  match checkInteger lax c with
  | .error e => .error e
  | .ok () => if c.length > 8 then .error .structural else .ok (intOfBytes c)

def parseInt32 (lax : Bool) (c : Bytes) : Except Err Int :=
  match parseInt64 lax c with
  | .error e => .error e
  | .ok v => if v < -(2^31) ∨ v ≥ 2^31 then .error .structural else .ok v

/-- marshal.go `int64Encoder.Len` (and, for big integers, the length `makeBigInt` arrives at) -/
def intLenGo : Nat → Int → Nat
  | 0, _ => 1
  | f+1, i => if i > 127 ∨ i < -128 then 1 + intLenGo f (i / 256) else 1

def intLen (i : Int) : Nat := intLenGo i.natAbs i

/-- minimal two's complement (marshal.go `int64Encoder.Encode`, `makeBigInt`) -/
def intBytes (i : Int) : Bytes :=
  let n := intLen i
  beEnc n (i % (256 ^ n : Nat)).toNat

/-! ## BIT STRING -/

structure BitStr where
  bytes : Bytes
  bitLen : Nat
  deriving Repr, DecidableEq, Inhabited

def parseBitString : Bytes → Except Err BitStr
  | [] => .error .syntax
  | p :: body =>
    let last := (p :: body).getLast?.getD 0
    if p.toNat > 7 ∨ (body = [] ∧ p.toNat > 0) ∨ last.toNat % (2 ^ p.toNat) ≠ 0 then .error .syntax
    else .ok ⟨body, body.length * 8 - p.toNat⟩

def encBitString (b : BitStr) : Bytes := UInt8.ofNat ((8 - b.bitLen % 8) % 8) :: b.bytes

/-! ## OBJECT IDENTIFIER -/

/-- the loop of `parseObjectIdentifier` after the first sub-identifier -/
def parseArcs (d : Dialect) : Nat → Bytes → Except Err (List Nat)
  | 0, _ => .error .other
  | _+1, [] => .ok []
  | f+1, bs =>
    match parseBase128 d bs with
    | .error e => .error e
    | .ok (v, rest) =>
      match parseArcs d f rest with
      | .error e => .error e
      | .ok vs => .ok (v :: vs)

def parseOID (d : Dialect) (lax : Bool) (c : Bytes) : Except Err (List Nat) :=
  if c = [] then (if lax then .ok [] else .error .oidEmpty)
  else
    match parseBase128 d c with
    | .error e => .error e
    | .ok (v, rest) =>
      match parseArcs d (rest.length + 1) rest with
      | .error e => .error e
      | .ok vs => .ok ((if v < 80 then [v / 40, v % 40] else [2, v - 80]) ++ vs)

/-- marshal.go `makeObjectIdentifier` + `oidEncoder` -/
def encOID : List Nat → Except Err Bytes
  | a :: b :: rest =>
    if a > 2 ∨ (a < 2 ∧ b ≥ 40) then .error .structural
    else .ok (encBase128 (a * 40 + b) ++ rest.flatMap encBase128)
  | _ => .error .structural

/-! ## strings -/

/-- asn1.go `isPrintable` -/
def isPrintable (b : UInt8) (asterisk ampersand : Bool) : Bool :=
  let n := b.toNat
  (97 ≤ n && n ≤ 122) || (65 ≤ n && n ≤ 90) || (48 ≤ n && n ≤ 57) || (39 ≤ n && n ≤ 41) ||
  (43 ≤ n && n ≤ 47) || n == 32 || n == 58 || n == 61 || n == 63 ||
  (asterisk && n == 42) || (ampersand && n == 38)

def isNumeric (b : UInt8) : Bool := (48 ≤ b.toNat && b.toNat ≤ 57) || b.toNat == 32

def couldBeISO8859_1 (c : Bytes) : Bool := c.all fun b => !(b.toNat < 0x20 || (b.toNat ≥ 0x7f && b.toNat < 0xa0))

def t61Invalid : List Nat :=
  [0x00, 0x23, 0x24, 0x5C, 0x5E, 0x60, 0x7B, 0x7D, 0x7E, 0xA5, 0xA6, 0xAC, 0xAD, 0xAE, 0xAF,
   0xB9, 0xBA, 0xC0, 0xC9, 0xD0, 0xD1, 0xD2, 0xD3, 0xD4, 0xD5, 0xD6, 0xD7, 0xD8, 0xD9,
   0xDA, 0xDB, 0xDC, 0xDE, 0xDF, 0xE5, 0xFF]

def couldBeT61 (c : Bytes) : Bool := c.all fun b => !(t61Invalid.contains b.toNat)

/-- UTF-8 encoding of one code point (Go's `string(rune)`; surrogates and values > 0x10FFFF become U+FFFD) -/
def utf8Enc (r : Nat) : Bytes :=
  let r := if (0xD800 ≤ r ∧ r < 0xE000) ∨ r > 0x10FFFF then 0xFFFD else r
  if r < 0x80 then [UInt8.ofNat r]
  else if r < 0x800 then [UInt8.ofNat (0xC0 + r / 64), UInt8.ofNat (0x80 + r % 64)]
  else if r < 0x10000 then [UInt8.ofNat (0xE0 + r / 4096), UInt8.ofNat (0x80 + r / 64 % 64), UInt8.ofNat (0x80 + r % 64)]
  else [UInt8.ofNat (0xF0 + r / 262144), UInt8.ofNat (0x80 + r / 4096 % 64), UInt8.ofNat (0x80 + r / 64 % 64), UInt8.ofNat (0x80 + r % 64)]

/-- asn1.go `iso8859_1ToUTF8` -/
def iso8859_1ToUTF8 (c : Bytes) : Bytes := c.flatMap fun b => utf8Enc b.toNat

def isCont (b : UInt8) : Bool := 0x80 ≤ b.toNat && b.toNat ≤ 0xBF

/-- `unicode/utf8.Valid` -/
def utf8Valid : Bytes → Bool
  | [] => true
  | a :: rest =>
    let n := a.toNat
    if n < 0x80 then utf8Valid rest
    else if 0xC2 ≤ n ∧ n ≤ 0xDF then
      match rest with
      | b :: r => isCont b && utf8Valid r
      | _ => false
    else if 0xE0 ≤ n ∧ n ≤ 0xEF then
      match rest with
      | b :: c :: r =>
        let lo := if n = 0xE0 then 0xA0 else 0x80
        let hi := if n = 0xED then 0x9F else 0xBF
        (lo ≤ b.toNat && b.toNat ≤ hi) && isCont c && utf8Valid r
      | _ => false
    else if 0xF0 ≤ n ∧ n ≤ 0xF4 then
      match rest with
      | b :: c :: e :: r =>
        let lo := if n = 0xF0 then 0x90 else 0x80
        let hi := if n = 0xF4 then 0x8F else 0xBF
        (lo ≤ b.toNat && b.toNat ≤ hi) && isCont c && isCont e && utf8Valid r
      | _ => false
    else false

def parsePrintableString (lax : Bool) (c : Bytes) : Except Err Bytes :=
  if c.all (fun b => isPrintable b true true) then .ok c
  else if !lax then .error (.printable c)
  else if couldBeISO8859_1 c then .ok (iso8859_1ToUTF8 c)
  else if couldBeT61 c then .ok c
  else .error .syntax

def parseNumericString (c : Bytes) : Except Err Bytes :=
  if c.all isNumeric then .ok c else .error .syntax

def parseIA5String (c : Bytes) : Except Err Bytes :=
  if c.all (fun b => b.toNat < 128) then .ok c else .error .syntax

def parseUTF8String (c : Bytes) : Except Err Bytes :=
  if utf8Valid c then .ok c else .error .other

def pairsBE : Bytes → List Nat
  | a :: b :: r => (a.toNat * 256 + b.toNat) :: pairsBE r
  | _ => []

/-- `unicode/utf16.Decode` -/
def utf16DecodeGo : Option Nat → List Nat → List Nat
  | none, [] => []
  | some _, [] => [0xFFFD]
  | none, u :: r =>
    if u < 0xD800 ∨ 0xE000 ≤ u then u :: utf16DecodeGo none r
    else if u < 0xDC00 then utf16DecodeGo (some u) r
    else 0xFFFD :: utf16DecodeGo none r
  | some h, v :: r =>
    if 0xDC00 ≤ v ∧ v < 0xE000 then ((h - 0xD800) * 1024 + (v - 0xDC00) + 0x10000) :: utf16DecodeGo none r
    else if v < 0xD800 ∨ 0xE000 ≤ v then 0xFFFD :: v :: utf16DecodeGo none r
    else 0xFFFD :: utf16DecodeGo (some v) r

def utf16Decode (us : List Nat) : List Nat := utf16DecodeGo none us

/-- asn1.go `parseBMPString` -/
def parseBMPString (c : Bytes) : Except Err Bytes :=
  if c.length % 2 ≠ 0 then .error .other
  else
    let c' := if c.length ≥ 2 ∧ c.drop (c.length - 2) = [0, 0] then c.take (c.length - 2) else c
    .ok ((utf16Decode (pairsBE c')).flatMap utf8Enc)

/-! universal tag numbers (asn1/common.go) -/
def tagBoolean := 1
def tagInteger := 2
def tagBitString := 3
def tagOctetString := 4
def tagNull := 5
def tagOID := 6
def tagEnum := 10
def tagUTF8String := 12
def tagSequence := 16
def tagSet := 17
def tagNumericString := 18
def tagPrintableString := 19
def tagT61String := 20
def tagIA5String := 22
def tagUTCTime := 23
def tagGeneralizedTime := 24
def tagGeneralString := 27
def tagBMPString := 30

/-- `asn1.NullBytes` -/
def nullBytes : Bytes := [5, 0]

/-- the string parser selected by a universal string tag (the `reflect.String` switch of `parseField`) -/
def parseStringByTag (lax : Bool) (tag : Nat) (c : Bytes) : Except Err Bytes :=
  if tag = tagPrintableString then parsePrintableString lax c
  else if tag = tagNumericString then parseNumericString c
  else if tag = tagIA5String then parseIA5String c
  else if tag = tagT61String then .ok c
  else if tag = tagUTF8String then parseUTF8String c
  else if tag = tagGeneralString then .ok c
  else if tag = tagBMPString then parseBMPString c
  else .error .syntax

def isOtherStringTag (tag : Nat) : Bool :=
  tag == tagIA5String || tag == tagGeneralString || tag == tagT61String || tag == tagUTF8String ||
  tag == tagNumericString || tag == tagBMPString

end CTV.Der
