import CTV.Basic.Bytes
/-!
# SHA-256 (FIPS 180-4), executable only

Used by the model driver `ctvmodel` so that leaf hashes, Merkle roots, log IDs and signature-input
digests can be compared *bit for bit* with Go's `crypto/sha256`.  No theorem unfolds it: the
property theorems are stated for arbitrary hash functions.  It is validated against `crypto/sha256`
on every run of the C19 check (`sha` lines: NIST vectors + all lengths 0…300 + random long inputs).
Core Lean only.
-/
namespace CTV.Sha256

def K : Array UInt32 := #[
  0x428a2f98, 0x71374491, 0xb5c0fbcf, 0xe9b5dba5, 0x3956c25b, 0x59f111f1, 0x923f82a4, 0xab1c5ed5,
  0xd807aa98, 0x12835b01, 0x243185be, 0x550c7dc3, 0x72be5d74, 0x80deb1fe, 0x9bdc06a7, 0xc19bf174,
  0xe49b69c1, 0xefbe4786, 0x0fc19dc6, 0x240ca1cc, 0x2de92c6f, 0x4a7484aa, 0x5cb0a9dc, 0x76f988da,
  0x983e5152, 0xa831c66d, 0xb00327c8, 0xbf597fc7, 0xc6e00bf3, 0xd5a79147, 0x06ca6351, 0x14292967,
  0x27b70a85, 0x2e1b2138, 0x4d2c6dfc, 0x53380d13, 0x650a7354, 0x766a0abb, 0x81c2c92e, 0x92722c85,
  0xa2bfe8a1, 0xa81a664b, 0xc24b8b70, 0xc76c51a3, 0xd192e819, 0xd6990624, 0xf40e3585, 0x106aa070,
  0x19a4c116, 0x1e376c08, 0x2748774c, 0x34b0bcb5, 0x391c0cb3, 0x4ed8aa4a, 0x5b9cca4f, 0x682e6ff3,
  0x748f82ee, 0x78a5636f, 0x84c87814, 0x8cc70208, 0x90befffa, 0xa4506ceb, 0xbef9a3f7, 0xc67178f2]

def H0 : Array UInt32 := #[
  0x6a09e667, 0xbb67ae85, 0x3c6ef372, 0xa54ff53a, 0x510e527f, 0x9b05688c, 0x1f83d9ab, 0x5be0cd19]

@[inline] def rotr (x : UInt32) (n : UInt32) : UInt32 := (x >>> n) ||| (x <<< (32 - n))

/-- Message padding: `0x80`, zeros up to 56 mod 64, 64-bit big-endian bit length. -/
def pad (msg : ByteArray) : ByteArray := Id.run do
  let bitLen := msg.size * 8
  let mut m := msg.push 0x80
  let z := (119 - (msg.size % 64)) % 64   -- number of zero bytes so that (size+1+z) % 64 = 56
  for _ in [0:z] do
    m := m.push 0
  for i in [0:8] do
    m := m.push (UInt8.ofNat ((bitLen >>> (8 * (7 - i))) % 256))
  return m

@[inline] def word (m : ByteArray) (off : Nat) : UInt32 :=
  (m.get! off).toUInt32 <<< 24 ||| (m.get! (off + 1)).toUInt32 <<< 16 |||
  (m.get! (off + 2)).toUInt32 <<< 8 ||| (m.get! (off + 3)).toUInt32

/-- One compression step over the 64-byte block starting at `off`. -/
def compress (h : Array UInt32) (m : ByteArray) (off : Nat) : Array UInt32 := Id.run do
  let mut w : Array UInt32 := Array.mkEmpty 64
  for t in [0:16] do
    w := w.push (word m (off + 4 * t))
  for t in [16:64] do
    let w15 := w[t - 15]!
    let w2 := w[t - 2]!
    let s0 := rotr w15 7 ^^^ rotr w15 18 ^^^ (w15 >>> 3)
    let s1 := rotr w2 17 ^^^ rotr w2 19 ^^^ (w2 >>> 10)
    w := w.push (w[t - 16]! + s0 + w[t - 7]! + s1)
  let mut a := h[0]!
  let mut b := h[1]!
  let mut c := h[2]!
  let mut d := h[3]!
  let mut e := h[4]!
  let mut f := h[5]!
  let mut g := h[6]!
  let mut hh := h[7]!
  for t in [0:64] do
    let S1 := rotr e 6 ^^^ rotr e 11 ^^^ rotr e 25
    let ch := (e &&& f) ^^^ ((~~~ e) &&& g)
    let t1 := hh + S1 + ch + K[t]! + w[t]!
    let S0 := rotr a 2 ^^^ rotr a 13 ^^^ rotr a 22
    let maj := (a &&& b) ^^^ (a &&& c) ^^^ (b &&& c)
    let t2 := S0 + maj
    hh := g; g := f; f := e; e := d + t1; d := c; c := b; b := a; a := t1 + t2
  return #[h[0]! + a, h[1]! + b, h[2]! + c, h[3]! + d, h[4]! + e, h[5]! + f, h[6]! + g, h[7]! + hh]

def hashBA (msg : ByteArray) : ByteArray := Id.run do
  let m := pad msg
  let mut h := H0
  for i in [0:m.size / 64] do
    h := compress h m (64 * i)
  let mut out := ByteArray.emptyWithCapacity 32
  for x in h do
    out := (((out.push (x >>> 24).toUInt8).push (x >>> 16).toUInt8).push (x >>> 8).toUInt8).push x.toUInt8
  return out

/-- SHA-256 of a byte list. -/
def hash (bs : Bytes) : Bytes := (hashBA (ByteArray.mk bs.toArray)).data.toList

end CTV.Sha256

namespace CTV
/-- RFC 6962 §2.1 hashing with real SHA-256 (what `rfc6962.DefaultHasher` computes). -/
def rfcLeafH (d : Bytes) : Bytes := Sha256.hash (0 :: d)
def rfcNodeH (l r : Bytes) : Bytes := Sha256.hash (1 :: (l ++ r))
def rfcEmptyH : Bytes := Sha256.hash []
end CTV
