import CTV.Lemmas.DerLax
import CTV.Lemmas.DerTotal
import CTV.Lemmas.DerHeader
import CTV.Gen.Asn1Lax
import CTV.Lemmas.DerMarshal
import CTV.Lemmas.DerCanonStrict
import CTV.Lemmas.DerSize
import CTV.Lemmas.DerDialect
/-!
# C10 — The ASN.1 fork is as strict as upstream; lax mode only adds acceptances

Theorems over the hand-written model `CTV.Der` (`parseField` = asn1.go `parseField`, `marshalField` =
marshal.go `makeField`), for **every** target type `t : ATy`, every field-parameter record `p : FP`, every
input `bs` and every dialect `d` (the switches regenerated from the Go source: base-128 minimality,
SET OF sorting). The model is tied to the code by the three-way correspondence run of `./check C10`.

The clause "strict mode accepts iff `encoding/asn1` accepts, with equal value and remainder, up to the
documented list" is a statement about two Go programs; it is **correspondence-decided** (model in the
upstream dialect vs `encoding/asn1` of go1.24.1, model in the fork's dialect vs the fork, fork vs
`encoding/asn1`), not proved here. See notes/C10.md.
-/
namespace C10
open CTV CTV.Der

/-- **lax ⊇ strict, identical results.** Whatever `Unmarshal` accepts, `UnmarshalWithParams(…, "lax")`
accepts with the identical value and the identical unconsumed remainder. -/
theorem lax_extends_strict (d : Dialect) (t : ATy) (p : FP) (bs : Bytes) (v : AVal) (r : Bytes)
    (h : parseField d .strict t p bs = .ok (v, r)) : parseField d .lax t p bs = .ok (v, r) := by
  have := parseField_rel d t p bs
  rw [h] at this
  exact this

example : parseField ⟨false, false, false, false⟩ .strict (.struct false (.cons {} .int64 (.cons { optional := true } .str .nil))) {}
    [0x30, 0x03, 0x02, 0x01, 0x05, 0xAA] = .ok (.struct none [.int 5, .absent (.str 0 [])], [0xAA]) := by rfl

/-- **lax adds only the documented malformations.** If lax accepts an input that strict rejects, the
strict parser failed *at* a non-minimally encoded INTEGER, an empty OBJECT IDENTIFIER, or a
PrintableString holding an octet outside the alphabet whose content passes `couldBeISO8859_1` or
`couldBeT61` (the error carries the content octets of the failing element). -/
theorem lax_only_documented (d : Dialect) (t : ATy) (p : FP) (bs : Bytes) (x : AVal × Bytes) (e : Err)
    (hl : parseField d .lax t p bs = .ok x) (hs : parseField d .strict t p bs = .error e) : Documented e := by
  have := parseField_rel d t p bs
  rw [hs, hl] at this
  rcases this with ⟨e', h⟩ | h
  · cases h
  · exact h

-- the three documented relaxations, nested two levels deep
example : parseField ⟨false, false, false, false⟩ .strict (.seqOf false (.struct false (.cons {} .int64 .nil))) {} [0x30, 0x06, 0x30, 0x04, 0x02, 0x02, 0x00, 0x05]
    = .error (.intNotMinimal [0x00, 0x05]) := by rfl
example : parseField ⟨false, false, false, false⟩ .lax (.seqOf false (.struct false (.cons {} .int64 .nil))) {} [0x30, 0x06, 0x30, 0x04, 0x02, 0x02, 0x00, 0x05]
    = .ok (.list [.struct none [.int 5]], []) := by rfl
example : parseField ⟨true, true, true, true⟩ .strict .oid {} [0x06, 0x00] = .error .oidEmpty ∧
    parseField ⟨true, true, true, true⟩ .lax .oid {} [0x06, 0x00] = .ok (.oid [], []) := ⟨rfl, rfl⟩
example : parseField ⟨true, true, true, true⟩ .strict .str {} [0x13, 0x02, 0x41, 0xe9] = .error (.printable [0x41, 0xe9]) ∧
    parseField ⟨true, true, true, true⟩ .lax .str {} [0x13, 0x02, 0x41, 0xe9] = .ok (.str 19 [0x41, 0xc3, 0xa9], []) := ⟨rfl, rfl⟩
-- neither ISO 8859-1 nor T.61: lax rejects as well
example : ∃ e, parseField ⟨true, true, true, true⟩ .lax .str {} [0x13, 0x03, 0x41, 0x00, 0x23] = .error e := ⟨_, rfl⟩


/-- **the places where the fork reads `lax`, regenerated.** In asn1.go the flag occurs in a branch condition in exactly
`checkInteger`, `parseObjectIdentifier` and `parsePrintableString` (the three relaxations the model has); every call of a
function with a `lax` parameter passes `lax` / `params.lax` on unchanged; struct fields and slice elements inherit it.
A fourth relaxation, or a call that passes a literal, changes the regenerated lists and this `decide` fails. -/
theorem lax_sites_regenerated :
    Gen.laxSites = ["checkInteger", "parseObjectIdentifier", "parsePrintableString"] ∧
    Gen.laxNotHandedDown = [] ∧ Gen.laxInherited = true := by decide

/-! ## lax propagates to every nested field and element

The flag is a parameter of the whole recursion: a struct's fields, a slice's elements, the element under an
explicit tag and an `interface{}` are decoded with the mode of the enclosing call (asn1.go: `innerParams.lax =
params.lax`, `parseSequenceOf(…, params.lax, …)`, `parsePrintableString(innerBytes, params.lax, …)`). A `lax`
clause in a field's own tag is ignored (`FP.lax` is read by `unmarshal` at the top level only). -/

/-- struct fields inherit the mode: once the header of the SEQUENCE is read, the result is that of `parseFields`
on the content in the *same* mode -/
theorem lax_propagates_struct (d : Dialect) (m : Mode) (raw : Bool) (fs : AFields) (p : FP) (bs : Bytes)
    (tl : TL) (utag : Nat) (inner rest consumed : Bytes) (outer : Option (Nat × Nat)) (vs : List AVal) (left : Bytes)
    (hm : m.isCanon = false)
    (hh : header d (.struct raw fs) p bs = .ok (.body tl utag inner rest consumed outer))
    (hf : parseFields d m fs inner = .ok (vs, left)) (hb : bs ≠ []) :
    parseField d m (.struct raw fs) p bs = .ok (.struct (if raw then some consumed else none) vs, rest) := by
  have hd : d.forMode m = d := by unfold Dialect.forMode; simp [hm]
  have ha : (ATy.struct raw fs).isAny = false := rfl
  have hu : m.under raw = m := by cases m <;> first | rfl | (cases raw <;> rfl) | cases hm
  simp only [parseField, fieldShell, hb, if_false, ha, hd, hh, hm, hu, Bool.false_and, Bool.false_eq_true, hf]

/-- slice elements inherit the mode -/
theorem lax_propagates_seqOf (d : Dialect) (m : Mode) (s : Bool) (e : ATy) (p : FP) (bs : Bytes)
    (tl : TL) (utag : Nat) (inner rest consumed : Bytes) (outer : Option (Nat × Nat)) (n : Nat) (vs : List AVal)
    (hm : m.isCanon = false) (he : e.isAny = false)
    (hh : header d (.seqOf s e) p bs = .ok (.body tl utag inner rest consumed outer))
    (hc : countElems d (universalType e) (inner.length + 1) inner = .ok n)
    (hf : parseElemsWith (parseField d m e {}) n inner = .ok vs) (hb : bs ≠ []) :
    parseField d m (.seqOf s e) p bs = .ok (.list vs, rest) := by
  have hd : d.forMode m = d := by unfold Dialect.forMode; simp [hm]
  have ha : (ATy.seqOf s e).isAny = false := rfl
  simp only [parseField, fieldShell, hb, if_false, ha, hd, hh, hm, Bool.false_and, Bool.false_eq_true, he, hc, hf, Except.map]

/-- a field's own `lax` clause has no effect: the parameters enter `parseField` only through the other components -/
theorem field_lax_clause_ignored (d : Dialect) (m : Mode) (t : ATy) (p : FP) (bs : Bytes) :
    parseField d m t { p with lax := true } bs = parseField d m t { p with lax := false } bs := by
  have key : ∀ k, fieldShell d m t { p with lax := true } bs k = fieldShell d m t { p with lax := false } bs k := by
    intro k
    unfold fieldShell absentResult header headerBody headerMiss tagMismatch utagOf expected omitted defaultVal canonParams marshalClass expected
    rfl
  cases t <;> simp only [parseField] <;> exact key _

-- depth 4: SEQUENCE { [0] EXPLICIT SEQUENCE OF SEQUENCE { INTEGER (non-minimal), PrintableString "Aé", OID (empty) } }
example :
    let leaf := ATy.struct false (.cons {} .int64 (.cons {} .str (.cons {} .oid .nil)))
    let t := ATy.struct false (.cons { explicit := true, tag := some 0 } (.seqOf false leaf) .nil)
    let bs : Bytes := [0x30, 0x12, 0xa0, 0x10, 0x30, 0x0e, 0x30, 0x0c, 0x02, 0x02, 0x00, 0x05, 0x13, 0x02, 0x41, 0xe9, 0x06, 0x00, 0x05, 0x00]
    parseField Dialect.upstream .lax t {} bs = .ok (.struct none [.list [.struct none [.int 5, .str 19 [0x41, 0xc3, 0xa9], .oid []]]], []) ∧
    parseField Dialect.upstream .strict t {} bs = .error (.intNotMinimal [0x00, 0x05]) := ⟨rfl, rfl⟩

/-! ## totality: the input strictly shrinks, fuel-bounded loops never run dry -/

/-- **parse_total (shrinking input).** `parseField` is defined by structural recursion on the target type; what it
returns is a suffix of what it was given, and at least a two-octet header was consumed unless the field is
optional and was absent. Hence every loop over elements (`parseFields`, `parseElemsWith`, `ParseCertificates`)
makes progress. -/
theorem parse_total (d : Dialect) (m : Mode) (t : ATy) (p : FP) (bs : Bytes) (v : AVal) (rest : Bytes)
    (h : parseField d m t p bs = .ok (v, rest)) :
    ∃ pre, bs = pre ++ rest ∧ (2 ≤ pre.length ∨ (p.optional = true ∧ pre = [])) :=
  parseField_shrinks d m t p bs v rest h

/-- **parse_total (slices in range).** The content slice `parseField` takes (`bytes[offset : offset+t.length]`) has exactly the
declared length: the `take` of the model never truncates, so the Go slice expression is in range on every accepted header,
through explicit tags as well. (This is the part of "no panic" the model can express; that the real code does not fault
elsewhere — reflection, nil targets — is checked by the harness only: a panic is an output class there.) -/
theorem parse_total_in_range (d : Dialect) (t : ATy) (p : FP) (bs : Bytes) (tl : TL) (utag : Nat) (inner rest consumed : Bytes)
    (outer : Option (Nat × Nat)) (h : header d t p bs = .ok (.body tl utag inner rest consumed outer)) :
    inner.length = tl.len ∧ bs = consumed ++ rest :=
  ⟨header_inner_length d t p bs tl utag inner rest consumed outer h, (header_consumed d t p bs tl utag inner rest consumed outer h).1⟩

/-- the two fuel-bounded loops of the model (`parseSequenceOf`'s counting pass, `parseObjectIdentifier`'s arc
loop) are started with `length + 1` fuel and never exhaust it: the `fuel` error is unreachable. -/
theorem parse_total_fuel (d : Dialect) (u : Bool × Nat × Bool) (bs : Bytes) :
    countElems d u (bs.length + 1) bs ≠ .error .fuel ∧ parseArcs d (bs.length + 1) bs ≠ .error .fuel :=
  ⟨countElems_fuel d u _ bs (Nat.lt_succ_self _), parseArcs_fuel d _ bs (Nat.lt_succ_self _)⟩

example : parseField Dialect.upstream .strict (.seqOf false .int64) {} [0x30, 0x06, 0x02, 0x01, 0x05, 0x02, 0x01, 0x07, 0xFF] =
    .ok (.list [.int 5, .int 7], [0xFF]) := by rfl

/-- **no allocation beyond the input (the size bound).** For every dialect, mode, target type, parameter record and input: what a
successful `parseField` returns holds at most twice as many octets / elements as the decoder consumed — `AVal.size`
(CTV.Lemmas.DerTotal) counts string octets after transcoding, OCTET / BIT STRING and RawValue contents, OID arcs and one unit per slice
element, recursively; `RawContent` / `FullBytes` are views of the input. The factor 2 is reached by the lax ISO 8859-1 reading of a
PrintableString and by BMPString (each UTF-16 unit gives at most 4 octets of UTF-8); everything else is ≤ 1. The harness checks the
same bound on the implementation's decoded values (`alloc` oracle). -/
theorem parse_total_size (d : Dialect) (m : Mode) (t : ATy) (p : FP) (bs : Bytes) (v : AVal) (rest : Bytes)
    (h : parseField d m t p bs = .ok (v, rest)) : rest.length ≤ bs.length ∧ v.size ≤ 2 * (bs.length - rest.length) :=
  (parseField_sizeOK d m t p bs v rest h).le

-- the factor is attained up to the header: six octets in, eight octets of text out (lax PrintableString read as ISO 8859-1)
example : parseField Dialect.fork .lax .str {} [0x13, 0x04, 0xe9, 0xe8, 0xe0, 0xfc] =
    .ok (.str 19 [0xc3, 0xa9, 0xc3, 0xa8, 0xc3, 0xa0, 0xc3, 0xbc], []) := by rfl

/-- **the decoder reads three of the four fork/upstream switches** (`dialect_irrelevant`): in `lax` and `strict` mode two dialects
that agree on base-128 minimality (F11a), the GeneralizedTime fraction (F11d) and the `interface{}` BOOLEAN (F11b) decode every
input for every target to the same result; the SET OF switch (F11c) is read by `marshalField` alone. So fork and upstream decoding
can only differ through F11a / F11b / F11d, and re-marshalling only through F11c on top. -/
theorem dialect_irrelevant (d1 d2 : Dialect) (h1 : d1.b128min = d2.b128min) (h2 : d1.genTimeFraction = d2.genTimeFraction)
    (h3 : d1.anyBool = d2.anyBool) (m : Mode) (hm : m.isCanon = false) (t : ATy) (p : FP) (bs : Bytes) :
    parseField d1 m t p bs = parseField d2 m t p bs :=
  parseField_deq d1 d2 ⟨h1, h2, h3⟩ m hm t p bs

/-! ## Marshal ∘ Unmarshal on strict DER

`Canon` is explicit and executable: `parseField d .canon t p bs` succeeds exactly on the inputs that pass `strict` **and** the extra
tests listed in `CTV/Der/Asn1.lean` (minimal base-128; the string / time tag Marshal itself would choose; no value present that
Marshal would omit and none absent that Marshal would write; no trailing octets in a SEQUENCE without RawContent; explicit wrapper
length = inner element; empty Flag content; parameter combinations for which `makeField` writes the class `parseField` expects). -/

/-- **marshal_parse, header part (proved).** Every header the decoder accepts with minimal base-128 — which is the case in
`canon` mode for every dialect and in `strict` mode once `base128RejectsLeading80` holds (it does since the F11a fix) — is byte for
byte what `appendTagAndLength` writes for the fields that were read: identifier octets (short and high-tag-number form), length
octets (short form, long form with minimal big-endian digits), for every class, tag number < 2^31 and length < 2^31. -/
example : Dialect.fork.b128min = true := rfl   -- the hypothesis below holds for the fork as the working tree has it (since the F11a fix)

theorem marshal_parse_header (d : Dialect) (hd : d.b128min = true) (bs : Bytes) (tl : TL) (r : Bytes)
    (h : parseTagLen d bs = .ok (tl, r)) : bs = encTagLen tl ++ r :=
  parseTagLen_roundtrip d hd bs tl r h

/-- the same for one whole element: its octets are header-as-written followed by the content -/
theorem marshal_parse_element (d : Dialect) (hd : d.b128min = true) (bs : Bytes) (e : Elem) (rest : Bytes)
    (h : readTLV d bs = .ok (e, rest)) : bs = encTagLen e.tl ++ e.content ++ rest ∧ e.content.length = e.tl.len := by
  unfold readTLV at h
  cases h0 : parseTagLen d bs with
  | error err => rw [h0] at h; cases h
  | ok x =>
    obtain ⟨tl, r⟩ := x
    rw [h0] at h
    simp only [] at h
    by_cases hl : tl.len > r.length
    · rw [if_pos hl] at h; cases h
    · rw [if_neg hl] at h
      cases h
      refine ⟨?_, by simp; omega⟩
      rw [parseTagLen_roundtrip d hd bs tl r h0, List.append_assoc, List.take_append_drop]

example : parseTagLen Dialect.upstream [0xbf, 0x87, 0x68, 0x82, 0x01, 0x00, 0xAA] = .ok (⟨2, 1000, 256, true⟩, [0xAA]) ∧
    encTagLen ⟨2, 1000, 256, true⟩ = [0xbf, 0x87, 0x68, 0x82, 0x01, 0x00] := ⟨rfl, rfl⟩

/-- **marshal_parse.** For every target type (all kinds of `ATy` incl. `time.Time`, structs with and without RawContent, slices,
nested to any depth), every field-parameter record, every dialect and every input: if the input is accepted in `canon` mode — strict DER
in the form `Marshal` itself produces for the type — then marshalling the decoded value gives back exactly the octets that were
consumed, and what was not consumed is the remainder. (`Canon` has no `interface{}` targets: for those the premise is never true.)

`Canon` is sufficient, not necessary: an input can round-trip exactly without being canonical when the octets a present-but-omitted
field loses are written back by a neighbouring field (`30 02 12 00` into `{optional str; optional,default str}`, found by the thorough
tier). The `c` lines of the harness check on every run that the real `Marshal(Unmarshal(x))` reproduces `x` exactly when `canon` accepts
or the model's own `marshalField ∘ parseField .strict` reproduces it (0 disagreements over 10⁴ quick / 10⁶ thorough inputs). -/
theorem marshal_parse (d : Dialect) (t : ATy) (p : FP) (bs : Bytes) (v : AVal) (rest : Bytes)
    (h : parseField d .canon t p bs = .ok (v, rest)) :
    ∃ enc, marshalField d t p v = .ok enc ∧ bs = enc ++ rest :=
  marshal_parse_field d t p bs v rest h

/-- content round trips of the primitive kinds, as corollaries used above (each for every accepted content) -/
theorem marshal_parse_primitives :
    (∀ c b, parseBool c = .ok b → encBool b = c) ∧
    (∀ c i, parseInt64 false c = .ok i → intBytes i = c) ∧ (∀ c i, parseInt32 false c = .ok i → intBytes i = c) ∧
    (∀ c i, parseBigInt false c = .ok i → intBytes i = c) ∧
    (∀ c b, parseBitString c = .ok b → encBitString b = c) ∧
    (∀ (d : Dialect), d.b128min = true → ∀ c arcs, parseOID d false c = .ok arcs → encOID arcs = .ok c) :=
  ⟨parseBool_roundtrip, parseInt64_roundtrip, parseInt32_roundtrip, parseBigInt_roundtrip, parseBitString_roundtrip,
   fun d hd c arcs h => parseOID_roundtrip d hd c arcs h⟩

/-- **canon ⊆ strict.** `Canon` only adds tests to `strict` (and switches the base-128 minimality test on): whatever `canon` accepts,
`Unmarshal` accepts with the same value and the same remainder, in every dialect. So `marshal_parse` is a statement about inputs the
strict decoder accepts, decoded to the value the strict decoder gives. -/
theorem canon_sub_strict (d : Dialect) (t : ATy) (p : FP) (bs : Bytes) (v : AVal) (rest : Bytes)
    (h : parseField d .canon t p bs = .ok (v, rest)) : parseField d .strict t p bs = .ok (v, rest) :=
  parseField_canon_strict d t p bs _ h

/-- **INTEGER of any length.** Minimal two's-complement content octets of any length (what `checkInteger` accepts strictly; `*big.Int`
targets have no size limit) are what the encoder writes for the decoded value — in particular negative values whose content starts
`ff 00 …`, `80 00 …`, `ff 7f …`. -/
theorem marshal_parse_integer (c : Bytes) (h : checkInteger false c = .ok ()) : intBytes (intOfBytes c) = c :=
  intBytes_intOfBytes c h

example : checkInteger false [0xff, 0x00, 0x01] = .ok () ∧ intOfBytes [0xff, 0x00, 0x01] = -65535 := ⟨rfl, by decide⟩

/-- **`makeBigInt` as the working tree has it** (statement by statement, regenerated): for n < 0 invert the octets of −n−1 and put `ff` in
front when the top bit is clear; 0 is one zero octet; for n > 0 the magnitude with `00` in front when the top bit is set. This is the
algorithm whose output `intBytes` (minimal two's complement) models and against which it is compared on every run. The pin is on what
each sign case computes, found through whichever dispatch the source uses (if / else-if / else, or a switch over the sign, `sign := n.Sign()`
followed through): re-shaping the dispatch leaves the lists unchanged, rewriting a case body changes them and this `decide` fails. (The equality of this algorithm with `intBytes` is tied by correspondence, not proved.) -/
theorem makeBigInt_regenerated :
    Gen.makeBigIntNegative =
      ["nMinus1 := new(big.Int).Neg(n)", "nMinus1.Sub(nMinus1, bigOne)", "bytes := nMinus1.Bytes()",
       "for i := range bytes { bytes[i] ^= 0xff }",
       "if len(bytes) == 0 || bytes[0]&0x80 == 0 { return multiEncoder([]encoder{byteFFEncoder, bytesEncoder(bytes)}), nil }",
       "return bytesEncoder(bytes), nil"] ∧
    Gen.makeBigIntZero = ["return byte00Encoder, nil"] ∧
    Gen.makeBigIntPositive =
      ["bytes := n.Bytes()",
       "if len(bytes) > 0 && bytes[0]&0x80 != 0 { return multiEncoder([]encoder{byte00Encoder, bytesEncoder(bytes)}), nil }",
       "return bytesEncoder(bytes), nil"] := by decide

/- Beyond the property statement (not proved): the converse `Unmarshal ∘ Marshal`,
     WfVal t p v → marshalField d t p v = .ok b → parseField d .canon t p (b ++ rest) = .ok (v, rest)
   i.e. `Canon` contains everything `Marshal` writes (non-vacuity of `Canon` independent of the parser). The property's clause
   ("marshalling an unmarshalled strict-DER value reproduces the input bytes") is `marshal_parse` above, in full. What stands in for the
   converse: the `c` lines of the harness (the implementation's Marshal∘Unmarshal is exact ⇔ the model's `canon` accepts; about half of
   all generated inputs are canon-accepted), and the instance below. -/

-- an instance: strict DER for a struct with an optional defaulted field, an explicit tag and a SET OF; Canon accepts, marshal reproduces
example :
    let t := ATy.struct false (.cons { optional := true, dflt := some 0 } .int64 (.cons { explicit := true, tag := some 1 } .str
      (.cons { set := true } (.seqOf false .bool) .nil)))
    let bs : Bytes := [0x30, 0x0e, 0x02, 0x01, 0x05, 0xa1, 0x04, 0x13, 0x02, 0x68, 0x69, 0x31, 0x03, 0x01, 0x01, 0xff]
    (match parseField Dialect.fork .canon t {} bs with
     | .ok (v, rest) => (marshalField Dialect.fork t {} v, rest)
     | .error e => (.error e, [])) = (.ok [0x30, 0x0e, 0x02, 0x01, 0x05, 0xa1, 0x04, 0x13, 0x02, 0x68, 0x69, 0x31, 0x03, 0x01, 0x01, 0xff], []) := by
  rfl

end C10
