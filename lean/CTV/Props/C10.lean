import CTV.Lemmas.DerLax
/-!
# C10 — The ASN.1 fork is as strict as upstream; lax mode only adds acceptances

Theorems over the hand-written model `CTV.Der` (`parseField` = asn1.go `parseField`, `marshalField` =
marshal.go `makeField`), for **every** target type `t : ATy`, every field-parameter record `p : FP`, every
input `bs` and every dialect `d` (the switches regenerated from the Go source: base-128 minimality,
SET OF sorting). The model is tied to the code by the three-way correspondence run of `./check C10`.

The clause "strict mode accepts iff `encoding/asn1` accepts, with equal value and remainder, up to the
documented list" is a statement about two Go programs; it is **correspondence-decided** (model in the
upstream dialect vs `encoding/asn1` of go1.24.1, model in the fork's dialect vs the fork, fork vs
`encoding/asn1`), not proved here. See notes/C10.md.
-/
namespace C10
open CTV CTV.Der

/-- **lax ⊇ strict, identical results.** Whatever `Unmarshal` accepts, `UnmarshalWithParams(…, "lax")`
accepts with the identical value and the identical unconsumed remainder. -/
theorem lax_extends_strict (d : Dialect) (t : ATy) (p : FP) (bs : Bytes) (v : AVal) (r : Bytes)
    (h : parseField d .strict t p bs = .ok (v, r)) : parseField d .lax t p bs = .ok (v, r) := by
  have := parseField_rel d t p bs
  rw [h] at this
  exact this

example : parseField ⟨false, false, false, false⟩ .strict (.struct false (.cons {} .int64 (.cons { optional := true } .str .nil))) {}
    [0x30, 0x03, 0x02, 0x01, 0x05, 0xAA] = .ok (.struct none [.int 5, .absent (.str 0 [])], [0xAA]) := by rfl

/-- **lax adds only the documented malformations.** If lax accepts an input that strict rejects, the
strict parser failed *at* a non-minimally encoded INTEGER, an empty OBJECT IDENTIFIER, or a
PrintableString holding an octet outside the alphabet whose content passes `couldBeISO8859_1` or
`couldBeT61` (the error carries the content octets of the failing element). -/
theorem lax_only_documented (d : Dialect) (t : ATy) (p : FP) (bs : Bytes) (x : AVal × Bytes) (e : Err)
    (hl : parseField d .lax t p bs = .ok x) (hs : parseField d .strict t p bs = .error e) : Documented e := by
  have := parseField_rel d t p bs
  rw [hs, hl] at this
  rcases this with ⟨e', h⟩ | h
  · cases h
  · exact h

-- the three documented relaxations, nested two levels deep
example : parseField ⟨false, false, false, false⟩ .strict (.seqOf false (.struct false (.cons {} .int64 .nil))) {} [0x30, 0x06, 0x30, 0x04, 0x02, 0x02, 0x00, 0x05]
    = .error (.intNotMinimal [0x00, 0x05]) := by rfl
example : parseField ⟨false, false, false, false⟩ .lax (.seqOf false (.struct false (.cons {} .int64 .nil))) {} [0x30, 0x06, 0x30, 0x04, 0x02, 0x02, 0x00, 0x05]
    = .ok (.list [.struct none [.int 5]], []) := by rfl
example : parseField ⟨true, true, true, true⟩ .strict .oid {} [0x06, 0x00] = .error .oidEmpty ∧
    parseField ⟨true, true, true, true⟩ .lax .oid {} [0x06, 0x00] = .ok (.oid [], []) := ⟨rfl, rfl⟩
example : parseField ⟨true, true, true, true⟩ .strict .str {} [0x13, 0x02, 0x41, 0xe9] = .error (.printable [0x41, 0xe9]) ∧
    parseField ⟨true, true, true, true⟩ .lax .str {} [0x13, 0x02, 0x41, 0xe9] = .ok (.str 19 [0x41, 0xc3, 0xa9], []) := ⟨rfl, rfl⟩
-- neither ISO 8859-1 nor T.61: lax rejects as well
example : ∃ e, parseField ⟨true, true, true, true⟩ .lax .str {} [0x13, 0x03, 0x41, 0x00, 0x23] = .error e := ⟨_, rfl⟩

end C10
