import CTV.Der.Asn1
/-! # C10 (skeleton; theorems follow) -/
namespace C10
open CTV CTV.Der

theorem placeholder_true : True := trivial

end C10
