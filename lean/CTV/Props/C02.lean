import CTV.Lemmas.ChainComplete
import CTV.Lemmas.ChainFuel
import CTV.Lemmas.ChainReject
/-!
# C02 — only chains that lead, in submitted order, to a trusted root are admitted

Theorems over `CTV.Model.ChainCheck` (hand model of `ValidateChain`, `verifyAddChain`,
`IsPrecertificate`, the fork's `Verify` / `buildChains` / `isValid` / `findPotentialParents` /
`CheckSignatureFrom`), whose comparisons and guards are the **regenerated** `Gen.ChainCheck`
definitions.  All statements are for every trusted pool, every oracle `sigOK`, every option record
and every submission; certificates are abstract records (`Cert`), an unparsable DER string is `none`.

Vocabulary (defined in `CTV.Lemmas.ChainCheck`): `Link sigOK a b` — `a` names `b` and
`CheckSignatureFrom` succeeds; `Linked R p` — `R` between neighbours; `IsInterCA` — basic constraints
valid and CA; `LeafOK o c` — the configured filters as the property words them.
-/
namespace C02
open CTV.Model.ChainCheck

/-- The five checks of the fork's `Verify` the model leaves out are exactly the ones `ValidateChain`
switches off in its `x509.VerifyOptions` literal (regenerated), and name chaining stays on. -/
theorem verify_options_as_modelled : omittedChecksDisabled = true ∧ verifyFlag "DisableNameChecks" = false := by decide

/-- The regenerated order of `ValidateChain`'s checks has the shape the model gives it: parsing first, the seven
leaf filters, then `Verify`, then the empty-result test, then `chainsEquivalent`. -/
theorem validate_order_as_modelled :
    Gen.validateChainOrder.head? = some "parse" ∧ Gen.validateChainOrder.drop 8 = ["verify", "noChains", "chainsEquivalent"] ∧
    ∀ n ∈ ["notAfterStart", "notAfterLimit", "acceptOnlyCA", "rejectExpired", "rejectUnexpired", "rejectExtIds", "extKeyUsages"],
      n ∈ (Gen.validateChainOrder.drop 1).take 7 := by decide

/-- **Key identifiers first, no fall-back** (over the two regenerated conditions of `findPotentialParents`): a child
with an authority key identifier that matches some pool member's subject key identifier gets exactly those members
as candidates — the members carrying the issuer's *name* are not consulted. -/
theorem fpp_keyid_first (pool : List Cert) (c : Cert) (k : Nat) (h : c.aki = some k)
    (hm : ∃ x ∈ pool, x.ski = some k) : findPotentialParents pool c = pool.filter (fun p => p.ski == some k) := by
  rw [findPotentialParents_eq, h]
  obtain ⟨x, hx, hk⟩ := hm
  have : (pool.filter (fun p => p.ski == some k)).isEmpty = false := by
    have hmem : x ∈ pool.filter (fun p => p.ski == some k) := List.mem_filter.2 ⟨hx, by simp [hk]⟩
    cases hf : pool.filter (fun p => p.ski == some k) with
    | nil => rw [hf] at hmem; simp at hmem
    | cons _ _ => rfl
  simp [this]

theorem fpp_names_otherwise (pool : List Cert) (c : Cert) (h : ∀ k, c.aki = some k → ∀ x ∈ pool, x.ski ≠ some k) :
    findPotentialParents pool c = pool.filter (fun p => p.subject == c.issuer) := by
  rw [findPotentialParents_eq]
  cases hk : c.aki with
  | none => rfl
  | some k =>
    have : pool.filter (fun p => p.ski == some k) = [] := by
      rw [List.filter_eq_nil_iff]; intro x hx; simpa using h k hk x hx
    simp [this]

/-- `CheckSignatureFrom` in words: the parent is not a v3 certificate without basic constraints, not a
certificate whose basic constraints deny CA (unless the child carries the Entrust SPKI), its key usage — if
present — allows certificate signing, its key algorithm is known, and the signature verifies. -/
theorem link_iff (sigOK : SigOracle) (a b : Cert) :
    Link sigOK a b ↔
      (a.issuer = b.subject ∧
       (((b.version = 3 ∧ b.bcValid = false) ∨ (b.bcValid = true ∧ b.isCA = false)) → a.entrustSPKI = true) ∧
       (b.keyUsage = 0 ∨ I64.land b.keyUsage Gen.keyUsageCertSign ≠ 0) ∧
       b.pkAlgKnown = true ∧ sigOK a b = true) := by
  unfold Link checkSignatureFrom Gen.csfConstraintFails Gen.csfKeyUsageFails Gen.csfAlgFails
  cases hb : b.bcValid <;> cases hc : b.isCA <;> cases he : a.entrustSPKI <;> cases hp : b.pkAlgKnown <;>
    by_cases hv : b.version = 3 <;> by_cases hk : b.keyUsage = 0 <;>
    by_cases hl : I64.land b.keyUsage Gen.keyUsageCertSign = 0 <;> simp [hv, hk, hl]

example : Link (fun _ _ => true)
    { (default : Cert) with issuer := 7 }
    { (default : Cert) with subject := 7, version := 3, bcValid := true, isCA := true, keyUsage := 36, pkAlgKnown := true } :=
  ⟨rfl, by decide⟩

/-- The signature budget of `buildChains` (regenerated comparison and constant): the `n`-th call of
`CheckSignatureFrom` within one `Verify` is refused exactly when `n > 100`, i.e. 100 calls are allowed, as the
comment on `maxChainSignatureChecks` says. -/
theorem signature_budget (n : Int) : Gen.sigBudgetExceeded n = true ↔ 100 < n := by
  unfold Gen.sigBudgetExceeded Gen.maxChainSignatureChecks
  simp

example : Gen.sigBudgetExceeded 100 = false ∧ Gen.sigBudgetExceeded 101 = true := by decide

/-- The model's recursion fuel is never the reason for an answer: `Verify` starts the search with
`budget + 1` units, and any larger amount gives the same result (each recursive call of `buildChains` follows
an increment of the signature counter that stayed within the budget).  So the `fuel` error of the model
is unreachable and the fuel parameter does not totalise anything. -/
theorem fuel_irrelevant (E : Env) (c : Cert) (cur : List Cert) (k : Nat) :
    buildChains E (fuel + k) c cur ⟨0, []⟩ = buildChains E fuel c cur ⟨0, []⟩ :=
  buildChains_fuel E (fuel + k) fuel c cur ⟨0, []⟩ (by simp [fuel, Gen.maxChainSignatureChecks]; omega)
    (by simp [fuel, Gen.maxChainSignatureChecks]) (by simp [fuel]; omega) (by simp [fuel])

example : fuel = 101 := by decide

/-! ## Soundness -/

/-- **admit_sound.** If `ValidateChain` returns a path `p` then: every submitted string parsed
(`raw = (l :: rest).map some`); the leaf passes every configured filter; `p` starts with the submitted
leaf itself; `p` is the submission, certificate for certificate in the submitted order, followed by at
most one more certificate; every link of `p` has name equality, a good signature and the CA conditions of
`CheckSignatureFrom`; every certificate strictly inside `p` is a submitted one and an intermediate CA
(`isValid`); the last certificate of `p` is (by `Raw`) a member of the trusted pool; no certificate
occurs twice.  For all pools, oracles and options. -/
theorem admit_sound (roots : List Cert) (sigOK : SigOracle) (o : Opts) (raw : List (Option Cert)) (p : List Cert)
    (h : validateChain roots sigOK o raw = .ok p) :
    ∃ l rest, raw = (l :: rest).map some ∧
      LeafOK o l ∧
      p.head? = some l ∧
      (p.length = raw.length ∨ p.length = raw.length + 1) ∧
      (p.take raw.length).map (·.id) = (l :: rest).map (·.id) ∧
      Linked (Link sigOK) p ∧
      (∀ x ∈ p.tail.dropLast, IsInterCA x ∧ x ∈ rest) ∧
      (∃ z r, p.getLast? = some z ∧ r ∈ roots ∧ z.id = r.id ∧ (z = r ∨ z = l)) ∧
      (p.map (·.id)).Nodup := by
  unfold validateChain at h
  split at h
  · simp at h
  · simp at h
  rename_i l rest hparse
  have hraw := parseAll_some _ _ hparse
  split at h
  · simp at h
  rename_i hf
  have hleaf := (leafFilters_iff o l).1 hf
  split at h
  · simp at h
  rename_i chains hv
  split at h
  · simp at h
  split at h
  · rename_i q hq
    simp only [Except.ok.injEq] at h
    subst h
    have hmem := List.mem_of_find?_eq_some hq
    have heq : chainsEquivalent (l :: rest) q = true := by simpa using List.find?_some hq
    have hlen : raw.length = (l :: rest).length := by rw [hraw]; simp
    refine ⟨l, rest, hraw, hleaf, ?_⟩
    rcases verify_good hv with ⟨hc, hpc⟩ | hg
    · -- the leaf is itself in the trusted pool: Verify answers [[l]]
      subst hc
      have : q = [l] := by simpa using hmem
      subst this
      have hs := chainsEquivalent_spec (by simp) heq
      obtain ⟨r, hr, hid⟩ := poolContains_iff.1 hpc
      refine ⟨rfl, ?_, ?_, trivial, by simp, ⟨l, r, rfl, hr, hid.symm, Or.inr rfl⟩, by simp⟩
      · rw [hlen]; exact hs.1
      · rw [hlen]; exact hs.2
    · have g := hg q hmem
      have hs := chainsEquivalent_spec (by have := g.len.2; simp [fuel, Gen.maxChainSignatureChecks] at this; omega) heq
      obtain ⟨r, hr1, hr2⟩ := g.last
      refine ⟨g.head, ?_, ?_, g.linked, ?_, ⟨r, r, hr1, hr2, rfl, Or.inl rfl⟩, g.nodup⟩
      · rw [hlen]; exact hs.1
      · rw [hlen]; exact hs.2
      · intro x hx
        exact ⟨(g.inner x hx).2, mem_mkPool (g.inner x hx).1⟩
  · simp at h

/-- **admit_sound, order clause with real equality.** When records are determined by their bytes
(`Coherent`), the returned path *is* the submitted list followed by at most one certificate, and its last
certificate is a member of the trusted pool. -/
theorem admit_sound_order (roots : List Cert) (sigOK : SigOracle) (o : Opts) (cs : List Cert) (p : List Cert)
    (hco : Coherent (cs ++ roots)) (h : validateChain roots sigOK o (cs.map some) = .ok p) :
    p.take cs.length = cs ∧ (p.length = cs.length ∨ p.length = cs.length + 1) ∧ ∃ r ∈ roots, p.getLast? = some r := by
  obtain ⟨l, rest, hraw, _, hhead, hlen, htake, _, hinner, ⟨z, r, hz, hr, hid, hzr⟩, _⟩ := admit_sound roots sigOK o _ p h
  have hcs : cs = l :: rest := by
    have := congrArg (List.filterMap id) hraw
    simpa [List.filterMap_map] using this
  subst hcs
  simp only [List.length_map] at hlen htake
  have hzU : z ∈ (l :: rest) ++ roots := by
    rcases hzr with e | e
    · subst e; exact List.mem_append_right _ hr
    · subst e; simp
  have hp : ∀ x ∈ p, x ∈ (l :: rest) ++ roots := by
    intro x hx
    rcases mem_cases_head_inner_last p x hx with e | e | e
    · rw [hhead] at e; cases e; simp
    · have := (hinner x e).2
      simp [this]
    · rw [hz] at e; cases e; exact hzU
  refine ⟨?_, hlen, r, hr, ?_⟩
  · exact map_id_eq_of_coherent hco _ _ (fun x hx => hp x (List.mem_of_mem_take hx)) (fun x hx => List.mem_append_left _ hx) htake
  · have : z = r := hco z hzU r (List.mem_append_right _ hr) hid
    rw [hz, this]

/-- Non-vacuity of `admit_sound`: a three-certificate PKI (leaf 0 ← intermediate 1 ← root 2), root omitted
from the submission, window and clock options in force; the model admits `[0, 1]` and returns `[0, 1, 2]`. -/
def exCert (id subject issuer : Nat) (ca : Bool) : Cert :=
  { (default : Cert) with id := id, subject := subject, issuer := issuer, version := 3, bcValid := true, isCA := ca, keyUsage := (if ca then 4 + 32 else 1), pkAlgKnown := true, notAfter := 1000, ekus := [1] }
def exSig : SigOracle := fun a b => [(0, 1), (1, 2), (2, 2), (3, 2)].contains (a.id, b.id)
def exOpts : Opts := { now := 900, notAfterStart := some 1000, notAfterLimit := some 1001, acceptOnlyCA := false, rejectExpired := true, rejectUnexpired := false, rejectExtIds := [7], extKeyUsages := [1, 2] }
def exL := exCert 0 12 11 false
def exI := exCert 1 11 10 true
def exR := exCert 2 10 10 true

example : validateChain [exR] exSig exOpts [some exL, some exI] = .ok [exL, exI, exR] := by decide
example : validateChain [exR] exSig exOpts [some exL, some exI, some exR] = .ok [exL, exI, exR] := by decide
example : validateChain [exR] exSig exOpts [some exL, some exR] = .error (.verify .unknownAuthority) := by decide
example : validateChain [exR] exSig exOpts [some exI, some exL] = .error .notEquivalent := by decide
example : validateChain [exR] exSig { exOpts with notAfterLimit := some 1000 } [some exL, some exI] = .error .notAfterLimit := by decide
example : validateChain [exR] exSig exOpts [some exL, none] = .error .parse := by decide
example : Coherent ([exL, exI] ++ [exR]) := by unfold Coherent; decide
/-- `admit_sound` applied to the instance -/
example := admit_sound [exR] exSig exOpts [some exL, some exI] [exL, exI, exR] (by decide)
example := admit_sound_order [exR] exSig exOpts [exL, exI] [exL, exI, exR] (by unfold Coherent; decide) (by decide)

/-! ## Completeness -/

/- FULL: for every pool, oracle, options and submitted list `l :: rest`:
     `LeafOK o l → Admissible roots sigOK (l :: rest) → ∃ p, validateChain roots sigOK o ((l :: rest).map some) = .ok p`
   i.e. the converse of `admit_sound` with no side condition (the property says "if and only if").
   FALSE of the code (and of the model), in exactly these classes — each a known finding of
   `known_findings.d/C02.json` with a minimal hierarchy generated on every run (`c02Incomplete`):
     * `aki-hides-issuer`: key-identifier matches are tried first and names only when there is none, so an AKI that
       matches some other pool member's SKI hides the real issuer (theorem `aki_hides_issuer`);
     * `signature-budget`: the search gives up after 100 signature checks (theorem `signature_budget`);
     * `repeated-certificate`: a certificate is never used twice;
     * `leaf-is-trusted-with-extra-certificates`: `Verify` answers `[[leaf]]` at once when the leaf is itself trusted;
     * `issuing-root-is-submitted`: an issuance cycle — the issuing trusted certificate is already on the path.
   The candidate cache is NOT such a class: on a submission without repeats the walk meets the next submitted
   certificate before any other unvisited candidate, so the cache is empty whenever it is consulted on the path.
   Proved below: the statement under exactly those exclusions (`SideConditions` + the freshness premise of
   `Admissible.belowPool`), each one named.  Cross-signed hierarchies, several roots with one name and same-name
   intermediates are inside the theorem (only their cost counts against the budget). -/

/-- **admit_complete_partial.** A submission that parses, passes the leaf filters and is a valid linear path ending in,
or directly below, the trusted pool is admitted — provided: no certificate is submitted twice; no authority key
identifier hides a pool member that carries the issuer's name (`akiFindsIssuer`); the walk fits the budget
(`searchCost`: per submitted certificate one check for every root candidate and one for the next certificate, ≤ 100);
a leaf followed by further certificates is not itself trusted; records are determined by their bytes.  Any number of
same-name certificates, cross-certificates and trusted intermediates may be present. -/
theorem admit_complete_partial (roots : List Cert) (sigOK : SigOracle) (o : Opts) (l : Cert) (rest : List Cert)
    (hleaf : LeafOK o l) (hadm : Admissible roots sigOK (l :: rest)) (hs : SideConditions roots (l :: rest)) :
    ∃ p, validateChain roots sigOK o ((l :: rest).map some) = .ok p := by
  have hnd := hs.noRepeat
  have hndRest : (rest.map (·.id)).Nodup := by
    simp only [List.map_cons, List.nodup_cons] at hnd; exact hnd.2
  have hpool : mkPool rest = rest := mkPool_nodup hndRest
  have hbud := hs.budget
  have hlen := length_le_searchCost roots (l :: rest)
  simp only [List.length_cons] at hlen
  -- the leaf is itself trusted and submitted alone: Verify answers [[l]]
  have alone : poolContains roots l = true → rest = [] → ∃ p, validateChain roots sigOK o ((l :: rest).map some) = .ok p := by
    intro hc hr
    subst hr
    have hv : verify ⟨roots, mkPool [], sigOK⟩ l = .ok [[l]] := by
      unfold verify
      simp [isValid, Gen.isValidNotCA, hc]
    exact validate_of_verify (T := [l]) hleaf hv (by simp) (chainsEquivalent_of (by simp) (Or.inl rfl) (by simp))
  -- case A: the last submitted certificate is in the pool
  have caseA : ∀ (r z : Cert), r ∈ roots → (l :: rest).getLast? = some z → z.id = r.id → Linked (Link sigOK) (l :: rest) →
      (∀ x ∈ (l :: rest).tail.dropLast, IsInterCA x) → ∃ p, validateChain roots sigOK o ((l :: rest).map some) = .ok p := by
    intro r z hr hz hid hl hca
    by_cases hrest : rest = []
    · subst hrest
      have : z = l := by simpa using hz.symm
      subst this
      exact alone (poolContains_iff.2 ⟨r, hr, hid.symm⟩) rfl
    · have hzmem : z ∈ l :: rest := List.mem_of_getLast? hz
      have hzr : z = r := hs.coherent z (List.mem_append_left _ hzmem) r (List.mem_append_right _ hr) hid
      subst hzr
      have hnot : poolContains roots l = false := hs.leafNotTrusted l rest rfl hrest
      let E : Env := ⟨roots, rest, sigOK⟩
      have htrack : OnTrack E l [l] rest := by
        apply onTrack_of E rest [l] l (fun a ha x hx hn => (hs.akiFindsIssuer a ha).2 x hx hn)
          (fun a ha x hx hn => (hs.akiFindsIssuer a ha).1 x hx hn) (by simp) hl
        · exact ⟨[z], by
            show rest = [l].tail ++ rest.dropLast ++ [z]
            have : rest.getLast? = some z := by
              obtain ⟨y, ys, rfl⟩ := List.exists_cons_of_ne_nil hrest
              simpa [List.getLast?_cons_cons] using hz
            obtain ⟨y, ys, rfl⟩ := List.exists_cons_of_ne_nil hrest
            have h2 := List.dropLast_concat_getLast (l := y :: ys) (by simp)
            rw [List.getLast?_eq_some_getLast (by simp)] at this
            simp only [Option.some.injEq] at this
            rw [this] at h2
            simpa using h2.symm⟩
        · intro x hx
          exact hca x hx
        · intro r' hr'
          have : rest.getLast? = some z := by
            obtain ⟨y, ys, rfl⟩ := List.exists_cons_of_ne_nil hrest
            simpa [List.getLast?_cons_cons] using hz
          rw [this] at hr'; cases hr'; exact hr
      have hcost : cost E l rest ≤ 100 := by
        rw [cost_eq E rest l hrest]
        exact Nat.le_trans (searchCost_dropLast_le roots (l :: rest)) hbud
      have hfind := search_finds E rest [l] l ⟨0, []⟩ fuel rfl (by simpa using hnd) htrack hrest rfl
        (by simpa using hcost) (by simp [fuel, Gen.maxChainSignatureChecks]; omega)
      obtain ⟨chains, hv, hT⟩ := verify_of_search (E := E) hnot hfind
      have hv' : verify ⟨roots, mkPool rest, sigOK⟩ l = .ok chains := by rw [hpool]; exact hv
      exact validate_of_verify hleaf hv' hT (chainsEquivalent_of (by simp; omega) (Or.inl rfl) (by simp))
  cases hadm with
  | endsInPool r z hr hz hid hl hca => exact caseA r z hr hz hid hl hca
  | belowPool r hr hin hl hca =>
    have _hAall : True := trivial
    · by_cases hc : poolContains roots l = true
      · by_cases hrest : rest = []
        · exact alone hc hrest
        · exfalso
          rw [hs.leafNotTrusted l rest rfl hrest] at hc; cases hc
      · have hnot : poolContains roots l = false := by simpa using hc
        let E : Env := ⟨roots, rest, sigOK⟩
        have hndT : (([l] ++ (rest ++ [r])).map (·.id)).Nodup := by
          have : ((l :: rest) ++ [r]).map (·.id) = (l :: rest).map (·.id) ++ [r.id] := by simp
          simp only [List.singleton_append, ← List.cons_append]
          rw [this, List.nodup_append]
          refine ⟨hnd, by simp, ?_⟩
          intro a ha b hb e
          simp at hb; subst hb; subst e
          exact hin ha
        have hAall : ∀ a ∈ l :: (rest ++ [r]), a ∈ l :: rest ∨ a = r := by
          intro a ha
          simp only [List.mem_cons, List.mem_append, List.not_mem_nil, or_false] at ha ⊢
          rcases ha with h | h | h
          · exact Or.inl (Or.inl h)
          · exact Or.inl (Or.inr h)
          · exact Or.inr h
        -- the last element r only ever plays the parent's part, so its own AKI is never consulted: restrict to cs
        have htrack : OnTrack E l [l] (rest ++ [r]) := by
          have key : ∀ (rem cur : List Cert) (c : Cert), (∀ a ∈ c :: rem.dropLast, a ∈ l :: rest) → cur ≠ [] →
              Linked (Link sigOK) (c :: rem) → (∃ tl, rest = cur.tail ++ rem.dropLast ++ tl) → (∀ x ∈ rem.dropLast, IsInterCA x) →
              (∀ r', rem.getLast? = some r' → r' ∈ roots) → OnTrack E c cur rem := by
            intro rem
            induction rem with
            | nil => intros; trivial
            | cons x more ih =>
              intro cur c hmem hne hl' hI hca' hr'
              cases more with
              | nil =>
                have hx := hr' x rfl
                exact ⟨hl'.1, mem_fpp_of hx hl'.1.1 ((hs.akiFindsIssuer c (hmem c (by simp))).1 x hx hl'.1.1)⟩
              | cons y more' =>
                obtain ⟨tl, hI⟩ := hI
                have hdl : (x :: y :: more').dropLast = x :: (y :: more').dropLast := rfl
                rw [hdl] at hI hmem hca'
                have hxI : x ∈ rest := by rw [hI]; simp
                have hmem' := mem_fpp_of (pool := rest) hxI hl'.1.1 ((hs.akiFindsIssuer c (hmem c (by simp))).2 x hxI hl'.1.1)
                obtain ⟨p, hp⟩ := fpp_is_filter rest c
                have hpx : p x = true := by rw [hp] at hmem'; exact (List.mem_filter.1 hmem').2
                refine ⟨hl'.1, hca' x (by simp), ⟨cur.tail.filter p, ((y :: more').dropLast ++ tl).filter p, ?_, ?_⟩, ?_⟩
                · show findPotentialParents rest c = _
                  rw [hp, hI]
                  simp [List.filter_append, List.filter_cons, hpx]
                · intro z hz
                  have hz' := (List.mem_filter.1 hz).1
                  obtain ⟨h0, t0, rfl⟩ := List.exists_cons_of_ne_nil hne
                  exact List.mem_map.2 ⟨z, List.mem_cons_of_mem _ hz', rfl⟩
                · apply ih (cur ++ [x]) x
                  · intro a ha
                    exact hmem a (List.mem_cons_of_mem _ ha)
                  · simp
                  · exact hl'.2
                  · refine ⟨tl, ?_⟩
                    obtain ⟨h0, t0, rfl⟩ := List.exists_cons_of_ne_nil hne
                    rw [hI]; simp
                  · intro z hz
                    exact hca' z (List.mem_cons_of_mem _ hz)
                  · intro r'' hr''
                    exact hr' r'' (by simpa [List.getLast?_cons_cons] using hr'')
          apply key (rest ++ [r]) [l] l
          · intro a ha
            rw [List.dropLast_concat] at ha; exact ha
          · simp
          · simpa using hl
          · exact ⟨[], by simp [List.dropLast_concat]⟩
          · intro x hx
            rw [List.dropLast_concat] at hx
            exact hca x (by simpa using hx)
          · intro r' hr'
            rw [List.getLast?_concat] at hr'; cases hr'; exact hr
        have hcost : cost E l (rest ++ [r]) ≤ 100 := by
          rw [cost_eq E (rest ++ [r]) l (by simp)]
          have : (l :: (rest ++ [r])).dropLast = l :: rest := by rw [← List.cons_append, List.dropLast_concat]
          rw [this]; exact hbud
        have hfind := search_finds E (rest ++ [r]) [l] l ⟨0, []⟩ fuel rfl hndT htrack (by simp) rfl
          (by simpa using hcost) (by simp [fuel, Gen.maxChainSignatureChecks]; omega)
        obtain ⟨chains, hv, hT⟩ := verify_of_search (E := E) hnot hfind
        have hv' : verify ⟨roots, mkPool rest, sigOK⟩ l = .ok chains := by rw [hpool]; exact hv
        exact validate_of_verify hleaf hv' hT (chainsEquivalent_of (by simp; omega) (Or.inr (by simp)) (by simp))

def exAki (roots cs : List Cert) (h : ∀ c ∈ cs, c.aki = none) :
    ∀ c ∈ cs, (∀ x ∈ roots, c.issuer = x.subject → AkiFinds roots c x) ∧ (∀ x ∈ cs.tail, c.issuer = x.subject → AkiFinds cs.tail c x) := by
  intro c hc
  have := h c hc
  refine ⟨?_, ?_⟩ <;> (intro x _ _ k hk _; rw [this] at hk; cases hk)

def exHyps : SideConditions [exR] [exL, exI] ∧ Admissible [exR] exSig [exL, exI] ∧ LeafOK exOpts exL := by
  refine ⟨⟨by decide, exAki _ _ (by decide), by decide, (by intro l rest h _; cases h; decide), by unfold Coherent; decide⟩, ?_,
    (leafFilters_iff _ _).1 (by decide)⟩
  exact .belowPool exR (by simp) (by decide) ⟨⟨rfl, by decide⟩, ⟨rfl, by decide⟩, trivial⟩ (by intro x hx; simp at hx; subst hx; exact ⟨rfl, rfl⟩)

/-- `admit_complete_partial` applied to the instance: the hypotheses are jointly satisfiable. -/
example : ∃ p, validateChain [exR] exSig exOpts ([exL, exI].map some) = .ok p :=
  admit_complete_partial [exR] exSig exOpts exL [exI] exHyps.2.2 exHyps.2.1 exHyps.1

/-- The chain may pass through a trusted certificate: pool `{R, I}`, submission `[L, I, R]` is admitted as submitted. -/
example : validateChain [exR, exI] exSig exOpts [some exL, some exI, some exR] = .ok [exL, exI, exR] := by decide
example : SideConditions [exR, exI] [exL, exI, exR] :=
  ⟨by decide, exAki _ _ (by decide), by decide, (by intro l rest h _; cases h; decide), by unfold Coherent; decide⟩

/-- Two trusted roots with the same name (the second one does not sign `exI`): outside the old `distinctSubjects`
condition, inside the theorem now — both are tried, two of the 100 signature checks are spent on them. -/
def exR' : Cert := { exR with id := 7 }
example : validateChain [exR', exR] exSig exOpts [some exL, some exI] = .ok [exL, exI, exR] := by decide
example : SideConditions [exR', exR] [exL, exI] ∧ searchCost [exR', exR] [exL, exI] = 4 :=
  ⟨⟨by decide, exAki _ _ (by decide), by decide, (by intro l rest h _; cases h; decide), by unfold Coherent; decide⟩, by decide⟩

/-- **aki_hides_issuer** — the boundary from the other side (one of the incompleteness classes, as a theorem): if
the leaf's authority key identifier matches subject key identifiers in both pools but none of the certificates
it matches carries the leaf's issuer name, `Verify` fails — no matter which correctly named, correctly signing
certificates the pools also hold. -/
theorem aki_hides_issuer (E : Env) (c : Cert) (k : Nat) (h : c.aki = some k) (hnot : poolContains E.roots c = false)
    (hr : ∃ x ∈ E.roots, x.ski = some k) (hi : ∃ x ∈ E.inter, x.ski = some k)
    (hne : ∀ x ∈ E.roots ++ E.inter, x.ski = some k → c.issuer ≠ x.subject) :
    ∃ e, verify E c = .error e := by
  have hR : ∀ x ∈ findPotentialParents E.roots c, c.issuer ≠ x.subject := by
    rw [fpp_keyid_first E.roots c k h hr]
    intro x hx
    have := List.mem_filter.1 hx
    exact hne x (List.mem_append_left _ this.1) (by simpa using this.2)
  have hI : ∀ x ∈ findPotentialParents E.inter c, c.issuer ≠ x.subject := by
    rw [fpp_keyid_first E.inter c k h hi]
    intro x hx
    have := List.mem_filter.1 hx
    exact hne x (List.mem_append_right _ this.1) (by simpa using this.2)
  have hs := buildStep_no_named_candidate E (buildChains E 100) ⟨0, []⟩ (cur := [c]) rfl hR hI
  have hf : buildChains E fuel c [c] ⟨0, []⟩ = buildStep E (buildChains E 100) c [c] ⟨0, []⟩ := rfl
  unfold verify
  have hv : isValid .leaf [] c = true := by simp [isValid, Gen.isValidNotCA]
  simp only [hv, hnot, Bool.not_true, Bool.false_eq_true, if_false, hf]
  cases he : (buildStep E (buildChains E 100) c [c] ⟨0, []⟩).err with
  | none => exact absurd he hs.2
  | some e => exact ⟨e, rfl⟩

/-- instance: the root `exR` would sign `exL2`, but `exL2`'s AKI points at `exO` (other name) in both pools -/
def exO1 : Cert := { exI with id := 5, subject := 77, ski := some 9 }
def exO2 : Cert := { exI with id := 6, subject := 78, ski := some 9 }
example : ∃ e, verify ⟨[exR, exO1], [exO2], exSig⟩ { exL with aki := some 9, issuer := 10 } = .error e :=
  aki_hides_issuer _ _ 9 rfl (by decide) ⟨exO1, by simp, rfl⟩ ⟨exO2, by simp, rfl⟩ (by decide)

/-! ## The NotAfter window (regenerated conditions) -/

/-- **window_iff.** Over the two conditions regenerated from `ValidateChain`: the leaf passes both NotAfter
checks iff `start ≤ t < limit`, each bound applying only when configured. -/
theorem window_iff (t : Int) (start limit : Option Int) :
    (Gen.naStartFails t start = false ∧ Gen.naLimitFails t limit = false) ↔
      ((∀ s, start = some s → s ≤ t) ∧ (∀ l, limit = some l → t < l)) := by
  unfold Gen.naStartFails Gen.naLimitFails
  cases start <;> cases limit <;> simp <;> omega

example : Gen.naStartFails 1000 (some 1000) = false ∧ Gen.naLimitFails 1000 (some 1001) = false := by decide
example : Gen.naLimitFails 1000 (some 1000) = true ∧ Gen.naStartFails 999 (some 1000) = true := by decide

/-- The expiry options over the regenerated conditions: `rejectExpired` passes iff `now ≤ NotAfter`,
`rejectUnexpired` passes iff `now > NotAfter` (so both together reject everything). -/
theorem expiry_iff (now t : Int) (rejExp rejUnexp : Bool) :
    (Gen.rejectExpiredFails rejExp (Gen.expired now t) = false ∧ Gen.rejectUnexpiredFails rejUnexp (Gen.expired now t) = false) ↔
      ((rejExp = true → now ≤ t) ∧ (rejUnexp = true → t < now)) := by
  unfold Gen.rejectExpiredFails Gen.rejectUnexpiredFails Gen.expired
  cases rejExp <;> cases rejUnexp <;> simp <;> omega

example : Gen.rejectExpiredFails true (Gen.expired 1000 1000) = false ∧ Gen.rejectExpiredFails true (Gen.expired 1001 1000) = true := by decide

/-! ## Precertificates and endpoints -/

/-- **poison_classification** (FULL, over the regenerated loop shape and poison test of `IsPrecertificate`): a leaf counts as a
precertificate exactly when it has a poison extension and every poison extension it has is critical with value
`05 00`; a malformed poison extension — wherever it stands among them — is always an error; without a poison
extension: a certificate.  (Before fix 9856f71 the loop returned at the first poison extension and this statement
was false; `Gen.poisonLoopStopsAtFirst` is regenerated, so a revert breaks this proof.) -/
theorem poison_classification (c : Cert) :
    (isPrecertificate c = .ok true ↔ c.poison ≠ [] ∧ ∀ x ∈ c.poison, x.critical = true ∧ x.valueIsNull = true) ∧
    (isPrecertificate c = .ok false ↔ c.poison = []) ∧
    (isPrecertificate c = .error () ↔ ∃ x ∈ c.poison, ¬(x.critical = true ∧ x.valueIsNull = true)) := by
  unfold isPrecertificate
  rw [poisonLoop_spec]
  generalize c.poison = l
  by_cases hex : ∃ x ∈ l, ¬(x.critical = true ∧ x.valueIsNull = true)
  · have hb : l.any (fun x => !(x.critical && x.valueIsNull)) = true := by
      obtain ⟨x, hx, h⟩ := hex
      refine List.any_eq_true.2 ⟨x, hx, ?_⟩
      cases hc : x.critical <;> cases hn : x.valueIsNull <;> simp_all
    rw [if_pos hb]
    refine ⟨⟨fun h => (by cases h), fun h => ?_⟩, ⟨fun h => (by cases h), fun h => ?_⟩, ⟨fun _ => hex, fun _ => rfl⟩⟩
    · obtain ⟨x, hx, hn⟩ := hex; exact absurd (h.2 x hx) hn
    · obtain ⟨x, hx, _⟩ := hex; rw [h] at hx; cases hx
  · have hall : ∀ x ∈ l, x.critical = true ∧ x.valueIsNull = true :=
      fun x hx => Classical.byContradiction fun hn => hex ⟨x, hx, hn⟩
    have hb : l.any (fun x => !(x.critical && x.valueIsNull)) = false := by
      rw [List.any_eq_false]; intro x hx; have := hall x hx; simp [this.1, this.2]
    rw [if_neg (by rw [hb]; simp)]
    cases l with
    | nil => simp
    | cons p rest =>
      refine ⟨⟨fun _ => ⟨(by simp), hall⟩, fun _ => (by simp)⟩, ⟨fun h => (by simp at h), fun h => (by cases h)⟩,
        ⟨fun h => (by cases h), fun ⟨x, hx, hn⟩ => absurd (hall x hx) hn⟩⟩

/-- The loop shape the model follows is the fixed one: no early return for a well-formed poison extension, the
recorded flag is what is returned. -/
theorem poison_loop_as_fixed : Gen.poisonLoopStopsAtFirst = false ∧ Gen.poisonLoopMarks = "found" ∧ Gen.poisonLoopFinalReturn = "found" := by decide

example : isPrecertificate { (default : Cert) with poison := [⟨true, true⟩] } = .ok true := by decide
example : isPrecertificate { (default : Cert) with poison := [⟨false, true⟩] } = .error () := by decide
/-- the former counter-example: a malformed second poison extension is now an error -/
example : isPrecertificate { (default : Cert) with poison := [⟨true, true⟩, ⟨false, false⟩] } = .error () := by decide
example : isPrecertificate { (default : Cert) with poison := [⟨true, true⟩, ⟨true, true⟩] } = .ok true := by decide

/-- `addChainInternal` answers 400 when `verifyAddChain` refuses (regenerated status constant): "not admitted"
at the HTTP surface is status 400. -/
theorem verify_failure_is_400 : Gen.verifyFailStatus = 400 := by decide

/-- **poison_classification** (second half): `verifyAddChain` admits exactly the chains `ValidateChain`
admits whose leaf kind is the endpoint's kind.  Hence a malformed poison extension is rejected on both
endpoints and a kind ≠ endpoint submission is rejected. -/
theorem endpoint_kind (roots : List Cert) (sigOK : SigOracle) (o : Opts) (raw : List (Option Cert)) (expectingPrecert : Bool) (p : List Cert) :
    verifyAddChain roots sigOK o raw expectingPrecert = .ok p ↔
      (validateChain roots sigOK o raw = .ok p ∧ ∃ l, p.head? = some l ∧ isPrecertificate l = .ok expectingPrecert) := by
  unfold verifyAddChain
  cases hv : validateChain roots sigOK o raw with
  | error e => simp
  | ok q =>
    dsimp only
    constructor
    · intro h
      split at h
      · simp at h
      rename_i l hl
      split at h
      · simp at h
      rename_i k hk
      split at h
      · simp at h
      rename_i hm
      simp only [Except.ok.injEq] at h
      subst h
      refine ⟨rfl, l, hl, ?_⟩
      rw [hk]
      cases k <;> cases expectingPrecert <;> simp_all [Gen.kindMismatch]
    · rintro ⟨e, l, hl, hk⟩
      simp only [Except.ok.injEq] at e
      subst e
      simp [hl, hk, Gen.kindMismatch]

/-- A submission whose leaf has a malformed poison extension is rejected by both endpoints, and a
well-formed leaf is rejected by the endpoint of the other kind. -/
theorem kind_mismatch_rejected (roots : List Cert) (sigOK : SigOracle) (o : Opts) (l : Cert) (rest : List (Option Cert)) (e : Bool)
    (h : isPrecertificate l ≠ .ok e) : ∀ p, verifyAddChain roots sigOK o (some l :: rest) e ≠ .ok p := by
  intro p hp
  obtain ⟨hv, l', hl', hk⟩ := (endpoint_kind roots sigOK o _ e p).1 hp
  obtain ⟨l'', rest', hraw, _, hhead, _⟩ := admit_sound roots sigOK o _ p hv
  have : l'' = l := by simp at hraw; exact hraw.1.symm
  subst this
  rw [hhead] at hl'; cases hl'
  exact h hk

example : verifyAddChain [exR] exSig exOpts [some exL, some exI] false = .ok [exL, exI, exR] := by decide
example : verifyAddChain [exR] exSig exOpts [some exL, some exI] true = .error .kind := by decide
example : verifyAddChain [exR] exSig exOpts [some { exL with poison := [⟨true, false⟩] }, some exI] true = .error .poison := by decide

/-- the theorems applied to the instances (jointly satisfiable hypotheses) -/
example := endpoint_kind [exR] exSig exOpts [some exL, some exI] false [exL, exI, exR]
example := kind_mismatch_rejected [exR] exSig exOpts exL [some exI] true (by decide)

end C02
