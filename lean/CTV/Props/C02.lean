import CTV.Model.ChainCheck
namespace C02
open CTV.Model.ChainCheck

theorem verify_options_as_modelled : omittedChecksDisabled = true ∧ verifyFlag "DisableNameChecks" = false := by decide

end C02
