import CTV.Lemmas.ChainCheck
/-!
# C02 — only chains that lead, in submitted order, to a trusted root are admitted

Theorems over `CTV.Model.ChainCheck` (hand model of `ValidateChain`, `verifyAddChain`,
`IsPrecertificate`, the fork's `Verify` / `buildChains` / `isValid` / `findPotentialParents` /
`CheckSignatureFrom`), whose comparisons and guards are the **regenerated** `Gen.ChainCheck`
definitions.  All statements are for every trusted pool, every oracle `sigOK`, every option record
and every submission; certificates are abstract records (`Cert`), an unparsable DER string is `none`.

Vocabulary (defined in `CTV.Lemmas.ChainCheck`): `Link sigOK a b` — `a` names `b` and
`CheckSignatureFrom` succeeds; `Linked R p` — `R` between neighbours; `IsInterCA` — basic constraints
valid and CA; `LeafOK o c` — the configured filters as the property words them.
-/
namespace C02
open CTV.Model.ChainCheck

/-- The five checks of the fork's `Verify` the model leaves out are exactly the ones `ValidateChain`
switches off in its `x509.VerifyOptions` literal (regenerated), and name chaining stays on. -/
theorem verify_options_as_modelled : omittedChecksDisabled = true ∧ verifyFlag "DisableNameChecks" = false := by decide

/-- `CheckSignatureFrom` in words: the parent is not a v3 certificate without basic constraints, not a
certificate whose basic constraints deny CA (unless the child carries the Entrust SPKI), its key usage — if
present — allows certificate signing, its key algorithm is known, and the signature verifies. -/
theorem link_iff (sigOK : SigOracle) (a b : Cert) :
    Link sigOK a b ↔
      (a.issuer = b.subject ∧
       (((b.version = 3 ∧ b.bcValid = false) ∨ (b.bcValid = true ∧ b.isCA = false)) → a.entrustSPKI = true) ∧
       (b.keyUsage = 0 ∨ I64.land b.keyUsage Gen.keyUsageCertSign ≠ 0) ∧
       b.pkAlgKnown = true ∧ sigOK a b = true) := by
  unfold Link checkSignatureFrom Gen.csfConstraintFails Gen.csfKeyUsageFails Gen.csfAlgFails
  cases hb : b.bcValid <;> cases hc : b.isCA <;> cases he : a.entrustSPKI <;> cases hp : b.pkAlgKnown <;>
    by_cases hv : b.version = 3 <;> by_cases hk : b.keyUsage = 0 <;>
    by_cases hl : I64.land b.keyUsage Gen.keyUsageCertSign = 0 <;> simp [hv, hk, hl]

example : Link (fun _ _ => true)
    { (default : Cert) with issuer := 7 }
    { (default : Cert) with subject := 7, version := 3, bcValid := true, isCA := true, keyUsage := 36, pkAlgKnown := true } :=
  ⟨rfl, by decide⟩

/-! ## Soundness -/

/-- **admit_sound.** If `ValidateChain` returns a path `p` then: every submitted string parsed
(`raw = (l :: rest).map some`); the leaf passes every configured filter; `p` starts with the submitted
leaf itself; `p` is the submission, certificate for certificate in the submitted order, followed by at
most one more certificate; every link of `p` has name equality, a good signature and the CA conditions of
`CheckSignatureFrom`; every certificate strictly inside `p` is a submitted one and an intermediate CA
(`isValid`); the last certificate of `p` is (by `Raw`) a member of the trusted pool; no certificate
occurs twice.  For all pools, oracles and options. -/
theorem admit_sound (roots : List Cert) (sigOK : SigOracle) (o : Opts) (raw : List (Option Cert)) (p : List Cert)
    (h : validateChain roots sigOK o raw = .ok p) :
    ∃ l rest, raw = (l :: rest).map some ∧
      LeafOK o l ∧
      p.head? = some l ∧
      (p.length = raw.length ∨ p.length = raw.length + 1) ∧
      (p.take raw.length).map (·.id) = (l :: rest).map (·.id) ∧
      Linked (Link sigOK) p ∧
      (∀ x ∈ p.tail.dropLast, IsInterCA x ∧ x ∈ rest) ∧
      (∃ z r, p.getLast? = some z ∧ r ∈ roots ∧ z.id = r.id ∧ (z = r ∨ z = l)) ∧
      (p.map (·.id)).Nodup := by
  unfold validateChain at h
  split at h
  · simp at h
  · simp at h
  rename_i l rest hparse
  have hraw := parseAll_some _ _ hparse
  split at h
  · simp at h
  rename_i hf
  have hleaf := (leafFilters_iff o l).1 hf
  split at h
  · simp at h
  rename_i chains hv
  split at h
  · simp at h
  split at h
  · rename_i q hq
    simp only [Except.ok.injEq] at h
    subst h
    have hmem := List.mem_of_find?_eq_some hq
    have heq : chainsEquivalent (l :: rest) q = true := by simpa using List.find?_some hq
    have hlen : raw.length = (l :: rest).length := by rw [hraw]; simp
    refine ⟨l, rest, hraw, hleaf, ?_⟩
    rcases verify_good hv with ⟨hc, hpc⟩ | hg
    · -- the leaf is itself in the trusted pool: Verify answers [[l]]
      subst hc
      have : q = [l] := by simpa using hmem
      subst this
      have hs := chainsEquivalent_spec (by simp) heq
      obtain ⟨r, hr, hid⟩ := poolContains_iff.1 hpc
      refine ⟨rfl, ?_, ?_, trivial, by simp, ⟨l, r, rfl, hr, hid.symm, Or.inr rfl⟩, by simp⟩
      · rw [hlen]; exact hs.1
      · rw [hlen]; exact hs.2
    · have g := hg q hmem
      have hs := chainsEquivalent_spec (by have := g.len.2; simp [fuel, Gen.maxChainSignatureChecks] at this; omega) heq
      obtain ⟨r, hr1, hr2⟩ := g.last
      refine ⟨g.head, ?_, ?_, g.linked, ?_, ⟨r, r, hr1, hr2, rfl, Or.inl rfl⟩, g.nodup⟩
      · rw [hlen]; exact hs.1
      · rw [hlen]; exact hs.2
      · intro x hx
        exact ⟨(g.inner x hx).2, mem_mkPool (g.inner x hx).1⟩
  · simp at h

/-- **admit_sound, order clause with real equality.** When records are determined by their bytes
(`Coherent`), the returned path *is* the submitted list followed by at most one certificate, and its last
certificate is a member of the trusted pool. -/
theorem admit_sound_order (roots : List Cert) (sigOK : SigOracle) (o : Opts) (cs : List Cert) (p : List Cert)
    (hco : Coherent (cs ++ roots)) (h : validateChain roots sigOK o (cs.map some) = .ok p) :
    p.take cs.length = cs ∧ (p.length = cs.length ∨ p.length = cs.length + 1) ∧ ∃ r ∈ roots, p.getLast? = some r := by
  obtain ⟨l, rest, hraw, _, hhead, hlen, htake, _, hinner, ⟨z, r, hz, hr, hid, hzr⟩, _⟩ := admit_sound roots sigOK o _ p h
  have hcs : cs = l :: rest := by
    have := congrArg (List.filterMap id) hraw
    simpa [List.filterMap_map] using this
  subst hcs
  simp only [List.length_map] at hlen htake
  have hzU : z ∈ (l :: rest) ++ roots := by
    rcases hzr with e | e
    · subst e; exact List.mem_append_right _ hr
    · subst e; simp
  have hp : ∀ x ∈ p, x ∈ (l :: rest) ++ roots := by
    intro x hx
    rcases mem_cases_head_inner_last p x hx with e | e | e
    · rw [hhead] at e; cases e; simp
    · have := (hinner x e).2
      simp [this]
    · rw [hz] at e; cases e; exact hzU
  refine ⟨?_, hlen, r, hr, ?_⟩
  · exact map_id_eq_of_coherent hco _ _ (fun x hx => hp x (List.mem_of_mem_take hx)) (fun x hx => List.mem_append_left _ hx) htake
  · have : z = r := hco z hzU r (List.mem_append_right _ hr) hid
    rw [hz, this]

end C02
