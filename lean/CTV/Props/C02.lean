import CTV.Lemmas.ChainComplete
import CTV.Lemmas.ChainFuel
/-!
# C02 — only chains that lead, in submitted order, to a trusted root are admitted

Theorems over `CTV.Model.ChainCheck` (hand model of `ValidateChain`, `verifyAddChain`,
`IsPrecertificate`, the fork's `Verify` / `buildChains` / `isValid` / `findPotentialParents` /
`CheckSignatureFrom`), whose comparisons and guards are the **regenerated** `Gen.ChainCheck`
definitions.  All statements are for every trusted pool, every oracle `sigOK`, every option record
and every submission; certificates are abstract records (`Cert`), an unparsable DER string is `none`.

Vocabulary (defined in `CTV.Lemmas.ChainCheck`): `Link sigOK a b` — `a` names `b` and
`CheckSignatureFrom` succeeds; `Linked R p` — `R` between neighbours; `IsInterCA` — basic constraints
valid and CA; `LeafOK o c` — the configured filters as the property words them.
-/
namespace C02
open CTV.Model.ChainCheck

/-- The five checks of the fork's `Verify` the model leaves out are exactly the ones `ValidateChain`
switches off in its `x509.VerifyOptions` literal (regenerated), and name chaining stays on. -/
theorem verify_options_as_modelled : omittedChecksDisabled = true ∧ verifyFlag "DisableNameChecks" = false := by decide

/-- The regenerated order of `ValidateChain`'s checks has the shape the model gives it: parsing first, the seven
leaf filters, then `Verify`, then `chainsEquivalent`. -/
theorem validate_order_as_modelled :
    Gen.validateChainOrder.head? = some "parse" ∧ Gen.validateChainOrder.drop 8 = ["verify", "chainsEquivalent"] ∧
    ∀ n ∈ ["notAfterStart", "notAfterLimit", "acceptOnlyCA", "rejectExpired", "rejectUnexpired", "rejectExtIds", "extKeyUsages"],
      n ∈ (Gen.validateChainOrder.drop 1).take 7 := by decide

/-- `CheckSignatureFrom` in words: the parent is not a v3 certificate without basic constraints, not a
certificate whose basic constraints deny CA (unless the child carries the Entrust SPKI), its key usage — if
present — allows certificate signing, its key algorithm is known, and the signature verifies. -/
theorem link_iff (sigOK : SigOracle) (a b : Cert) :
    Link sigOK a b ↔
      (a.issuer = b.subject ∧
       (((b.version = 3 ∧ b.bcValid = false) ∨ (b.bcValid = true ∧ b.isCA = false)) → a.entrustSPKI = true) ∧
       (b.keyUsage = 0 ∨ I64.land b.keyUsage Gen.keyUsageCertSign ≠ 0) ∧
       b.pkAlgKnown = true ∧ sigOK a b = true) := by
  unfold Link checkSignatureFrom Gen.csfConstraintFails Gen.csfKeyUsageFails Gen.csfAlgFails
  cases hb : b.bcValid <;> cases hc : b.isCA <;> cases he : a.entrustSPKI <;> cases hp : b.pkAlgKnown <;>
    by_cases hv : b.version = 3 <;> by_cases hk : b.keyUsage = 0 <;>
    by_cases hl : I64.land b.keyUsage Gen.keyUsageCertSign = 0 <;> simp [hv, hk, hl]

example : Link (fun _ _ => true)
    { (default : Cert) with issuer := 7 }
    { (default : Cert) with subject := 7, version := 3, bcValid := true, isCA := true, keyUsage := 36, pkAlgKnown := true } :=
  ⟨rfl, by decide⟩

/-- The signature budget of `buildChains` (regenerated comparison and constant): the `n`-th call of
`CheckSignatureFrom` within one `Verify` is refused exactly when `n > 100`, i.e. 100 calls are allowed, as the
comment on `maxChainSignatureChecks` says. -/
theorem signature_budget (n : Int) : Gen.sigBudgetExceeded n = true ↔ 100 < n := by
  unfold Gen.sigBudgetExceeded Gen.maxChainSignatureChecks
  simp

example : Gen.sigBudgetExceeded 100 = false ∧ Gen.sigBudgetExceeded 101 = true := by decide

/-- The model's recursion fuel is never the reason for an answer: `Verify` starts the search with
`budget + 1` units, and any larger amount gives the same result (each recursive call of `buildChains` follows
an increment of the signature counter that stayed within the budget).  So the `fuel` error of the model
is unreachable and the fuel parameter does not totalise anything. -/
theorem fuel_irrelevant (E : Env) (c : Cert) (cur : List Cert) (k : Nat) :
    buildChains E (fuel + k) c cur ⟨0, []⟩ = buildChains E fuel c cur ⟨0, []⟩ :=
  buildChains_fuel E (fuel + k) fuel c cur ⟨0, []⟩ (by simp [fuel, Gen.maxChainSignatureChecks]; omega)
    (by simp [fuel, Gen.maxChainSignatureChecks]) (by simp [fuel]; omega) (by simp [fuel])

example : fuel = 101 := by decide

/-! ## Soundness -/

/-- **admit_sound.** If `ValidateChain` returns a path `p` then: every submitted string parsed
(`raw = (l :: rest).map some`); the leaf passes every configured filter; `p` starts with the submitted
leaf itself; `p` is the submission, certificate for certificate in the submitted order, followed by at
most one more certificate; every link of `p` has name equality, a good signature and the CA conditions of
`CheckSignatureFrom`; every certificate strictly inside `p` is a submitted one and an intermediate CA
(`isValid`); the last certificate of `p` is (by `Raw`) a member of the trusted pool; no certificate
occurs twice.  For all pools, oracles and options. -/
theorem admit_sound (roots : List Cert) (sigOK : SigOracle) (o : Opts) (raw : List (Option Cert)) (p : List Cert)
    (h : validateChain roots sigOK o raw = .ok p) :
    ∃ l rest, raw = (l :: rest).map some ∧
      LeafOK o l ∧
      p.head? = some l ∧
      (p.length = raw.length ∨ p.length = raw.length + 1) ∧
      (p.take raw.length).map (·.id) = (l :: rest).map (·.id) ∧
      Linked (Link sigOK) p ∧
      (∀ x ∈ p.tail.dropLast, IsInterCA x ∧ x ∈ rest) ∧
      (∃ z r, p.getLast? = some z ∧ r ∈ roots ∧ z.id = r.id ∧ (z = r ∨ z = l)) ∧
      (p.map (·.id)).Nodup := by
  unfold validateChain at h
  split at h
  · simp at h
  · simp at h
  rename_i l rest hparse
  have hraw := parseAll_some _ _ hparse
  split at h
  · simp at h
  rename_i hf
  have hleaf := (leafFilters_iff o l).1 hf
  split at h
  · simp at h
  rename_i chains hv
  split at h
  · simp at h
  split at h
  · rename_i q hq
    simp only [Except.ok.injEq] at h
    subst h
    have hmem := List.mem_of_find?_eq_some hq
    have heq : chainsEquivalent (l :: rest) q = true := by simpa using List.find?_some hq
    have hlen : raw.length = (l :: rest).length := by rw [hraw]; simp
    refine ⟨l, rest, hraw, hleaf, ?_⟩
    rcases verify_good hv with ⟨hc, hpc⟩ | hg
    · -- the leaf is itself in the trusted pool: Verify answers [[l]]
      subst hc
      have : q = [l] := by simpa using hmem
      subst this
      have hs := chainsEquivalent_spec (by simp) heq
      obtain ⟨r, hr, hid⟩ := poolContains_iff.1 hpc
      refine ⟨rfl, ?_, ?_, trivial, by simp, ⟨l, r, rfl, hr, hid.symm, Or.inr rfl⟩, by simp⟩
      · rw [hlen]; exact hs.1
      · rw [hlen]; exact hs.2
    · have g := hg q hmem
      have hs := chainsEquivalent_spec (by have := g.len.2; simp [fuel, Gen.maxChainSignatureChecks] at this; omega) heq
      obtain ⟨r, hr1, hr2⟩ := g.last
      refine ⟨g.head, ?_, ?_, g.linked, ?_, ⟨r, r, hr1, hr2, rfl, Or.inl rfl⟩, g.nodup⟩
      · rw [hlen]; exact hs.1
      · rw [hlen]; exact hs.2
      · intro x hx
        exact ⟨(g.inner x hx).2, mem_mkPool (g.inner x hx).1⟩
  · simp at h

/-- **admit_sound, order clause with real equality.** When records are determined by their bytes
(`Coherent`), the returned path *is* the submitted list followed by at most one certificate, and its last
certificate is a member of the trusted pool. -/
theorem admit_sound_order (roots : List Cert) (sigOK : SigOracle) (o : Opts) (cs : List Cert) (p : List Cert)
    (hco : Coherent (cs ++ roots)) (h : validateChain roots sigOK o (cs.map some) = .ok p) :
    p.take cs.length = cs ∧ (p.length = cs.length ∨ p.length = cs.length + 1) ∧ ∃ r ∈ roots, p.getLast? = some r := by
  obtain ⟨l, rest, hraw, _, hhead, hlen, htake, _, hinner, ⟨z, r, hz, hr, hid, hzr⟩, _⟩ := admit_sound roots sigOK o _ p h
  have hcs : cs = l :: rest := by
    have := congrArg (List.filterMap id) hraw
    simpa [List.filterMap_map] using this
  subst hcs
  simp only [List.length_map] at hlen htake
  have hzU : z ∈ (l :: rest) ++ roots := by
    rcases hzr with e | e
    · subst e; exact List.mem_append_right _ hr
    · subst e; simp
  have hp : ∀ x ∈ p, x ∈ (l :: rest) ++ roots := by
    intro x hx
    rcases mem_cases_head_inner_last p x hx with e | e | e
    · rw [hhead] at e; cases e; simp
    · have := (hinner x e).2
      simp [this]
    · rw [hz] at e; cases e; exact hzU
  refine ⟨?_, hlen, r, hr, ?_⟩
  · exact map_id_eq_of_coherent hco _ _ (fun x hx => hp x (List.mem_of_mem_take hx)) (fun x hx => List.mem_append_left _ hx) htake
  · have : z = r := hco z hzU r (List.mem_append_right _ hr) hid
    rw [hz, this]

/-- Non-vacuity of `admit_sound`: a three-certificate PKI (leaf 0 ← intermediate 1 ← root 2), root omitted
from the submission, window and clock options in force; the model admits `[0, 1]` and returns `[0, 1, 2]`. -/
def exCert (id subject issuer : Nat) (ca : Bool) : Cert :=
  { (default : Cert) with id := id, subject := subject, issuer := issuer, version := 3, bcValid := true, isCA := ca, keyUsage := (if ca then 4 + 32 else 1), pkAlgKnown := true, notAfter := 1000, ekus := [1] }
def exSig : SigOracle := fun a b => [(0, 1), (1, 2), (2, 2), (3, 2)].contains (a.id, b.id)
def exOpts : Opts := { now := 900, notAfterStart := some 1000, notAfterLimit := some 1001, acceptOnlyCA := false, rejectExpired := true, rejectUnexpired := false, rejectExtIds := [7], extKeyUsages := [1, 2] }
def exL := exCert 0 12 11 false
def exI := exCert 1 11 10 true
def exR := exCert 2 10 10 true

example : validateChain [exR] exSig exOpts [some exL, some exI] = .ok [exL, exI, exR] := by decide
example : validateChain [exR] exSig exOpts [some exL, some exI, some exR] = .ok [exL, exI, exR] := by decide
example : validateChain [exR] exSig exOpts [some exL, some exR] = .error (.verify .unknownAuthority) := by decide
example : validateChain [exR] exSig exOpts [some exI, some exL] = .error .notEquivalent := by decide
example : validateChain [exR] exSig { exOpts with notAfterLimit := some 1000 } [some exL, some exI] = .error .notAfterLimit := by decide
example : validateChain [exR] exSig exOpts [some exL, none] = .error .parse := by decide
example : Coherent ([exL, exI] ++ [exR]) := by unfold Coherent; decide

/-! ## Completeness -/

/- FULL: for every pool, oracle, options and submitted list `l :: rest`:
     `LeafOK o l → Admissible roots sigOK (l :: rest) → ∃ p, validateChain roots sigOK o ((l :: rest).map some) = .ok p`
   i.e. the converse of `admit_sound` with no side condition.  This is FALSE of the code (and of the model):
   the search tries key-identifier matches before names and never falls back (an AKI that points at a
   certificate with another name hides the real issuer), it caches the chains found through a candidate
   under the first prefix that reached it (same-subject certificates), it gives up after 100 signature
   checks, it never repeats a certificate, and `Verify` answers `[[leaf]]` at once when the leaf is itself
   trusted.  The harness counts the real behaviour at those points as `obs:valid-path-rejected:*`.
   Proved below: the statement under exactly those exclusions (`SideConditions`), each one named. -/

/-- **admit_complete_partial.** A submission that parses, passes the leaf filters and is a valid linear path
ending in, or directly below, the trusted pool is admitted — provided the named side conditions hold: no
repeated certificate, distinct subjects, consistent authority key identifiers, `2·n + 2 ≤ 100` signature
checks, a leaf followed by further certificates is not itself trusted, records determined by their bytes.  Submitted
certificates other than the leaf may be members of the trusted pool (the chain may pass through a trusted
intermediate or cross-certificate and go on to that certificate's own trusted issuer). -/
theorem admit_complete_partial (roots : List Cert) (sigOK : SigOracle) (o : Opts) (l : Cert) (rest : List Cert)
    (hleaf : LeafOK o l) (hadm : Admissible roots sigOK (l :: rest)) (hs : SideConditions roots (l :: rest)) :
    ∃ p, validateChain roots sigOK o ((l :: rest).map some) = .ok p := by
  have hnd := hs.noRepeat
  have hndRest : (rest.map (·.id)).Nodup := by
    simp only [List.map_cons, List.nodup_cons] at hnd; exact hnd.2
  have hpool : mkPool rest = rest := mkPool_nodup hndRest
  have hbud := hs.budget
  simp only [List.length_cons] at hbud
  -- the leaf is itself trusted and submitted alone: Verify answers [[l]]
  have alone : poolContains roots l = true → rest = [] → ∃ p, validateChain roots sigOK o ((l :: rest).map some) = .ok p := by
    intro hc hr
    subst hr
    have hv : verify ⟨roots, mkPool [], sigOK⟩ l = .ok [[l]] := by
      unfold verify
      simp [isValid, Gen.isValidNotCA, hc]
    exact validate_of_verify (T := [l]) hleaf hv (by simp) (chainsEquivalent_of (by simp) (Or.inl rfl) (by simp))
  -- case A: the last submitted certificate is in the pool
  have caseA : ∀ (r z : Cert), r ∈ roots → (l :: rest).getLast? = some z → z.id = r.id → Linked (Link sigOK) (l :: rest) →
      (∀ x ∈ (l :: rest).tail.dropLast, IsInterCA x) → ∃ p, validateChain roots sigOK o ((l :: rest).map some) = .ok p := by
    intro r z hr hz hid hl hca
    by_cases hrest : rest = []
    · subst hrest
      have : z = l := by simpa using hz.symm
      subst this
      exact alone (poolContains_iff.2 ⟨r, hr, hid.symm⟩) rfl
    · have hzmem : z ∈ l :: rest := List.mem_of_getLast? hz
      have hzr : z = r := hs.coherent z (List.mem_append_left _ hzmem) r (List.mem_append_right _ hr) hid
      subst hzr
      have hnot : poolContains roots l = false := hs.leafNotTrusted l rest rfl hrest
      let E : Env := ⟨roots, rest, sigOK⟩
      have htrack : OnTrack E (l :: rest) := by
        apply onTrack_of E hs.rootsPool hndRest hs.distinctSubjects (l :: rest) hl
        · intro c hc
          exact hs.akiConsistent c (mem_of_mem_dropLast hc)
        · intro x hx
          exact ⟨mem_of_mem_dropLast hx, hca x hx⟩
        · intro r' hr' _
          rw [hz] at hr'; cases hr'; exact hr
      have hfind := search_finds E rest [l] l ⟨0, []⟩ fuel rfl (by simpa using hnd) htrack hrest rfl
        (by simp; omega) (by simp [fuel, Gen.maxChainSignatureChecks]; omega)
      obtain ⟨chains, hv, hT⟩ := verify_of_search (E := E) hnot hfind
      have hv' : verify ⟨roots, mkPool rest, sigOK⟩ l = .ok chains := by rw [hpool]; exact hv
      exact validate_of_verify hleaf hv' hT (chainsEquivalent_of (by simp; omega) (Or.inl rfl) (by simp))
  cases hadm with
  | endsInPool r z hr hz hid hl hca => exact caseA r z hr hz hid hl hca
  | belowPool r hr hin hl hca =>
    have hin' : True := trivial
    · by_cases hc : poolContains roots l = true
      · by_cases hrest : rest = []
        · exact alone hc hrest
        · exfalso
          rw [hs.leafNotTrusted l rest rfl hrest] at hc; cases hc
      · have hnot : poolContains roots l = false := by simpa using hc
        let E : Env := ⟨roots, rest, sigOK⟩
        have hndT : (([l] ++ (rest ++ [r])).map (·.id)).Nodup := by
          have : ((l :: rest) ++ [r]).map (·.id) = (l :: rest).map (·.id) ++ [r.id] := by simp
          simp only [List.singleton_append, ← List.cons_append]
          rw [this, List.nodup_append]
          refine ⟨hnd, by simp, ?_⟩
          intro a ha b hb e
          simp at hb; subst hb; subst e
          exact hin ha
        have htrack : OnTrack E (l :: (rest ++ [r])) := by
          apply onTrack_of E hs.rootsPool hndRest hs.distinctSubjects (l :: (rest ++ [r])) (by simpa using hl)
          · intro c hc'
            apply hs.akiConsistent c
            have : (l :: (rest ++ [r])).dropLast = l :: rest := by
              rw [← List.cons_append, List.dropLast_concat]
            rwa [this] at hc'
          · intro x hx
            have : (l :: (rest ++ [r])).tail.dropLast = rest := by simp [List.dropLast_concat]
            rw [this] at hx
            exact ⟨hx, hca x (by simpa using hx)⟩
          · intro r' hr' _
            have : (l :: (rest ++ [r])).getLast? = some r := by
              rw [← List.cons_append]; exact List.getLast?_concat
            rw [this] at hr'; cases hr'; exact hr
        have hfind := search_finds E (rest ++ [r]) [l] l ⟨0, []⟩ fuel rfl hndT htrack (by simp) rfl
          (by simp; omega) (by simp [fuel, Gen.maxChainSignatureChecks]; omega)
        obtain ⟨chains, hv, hT⟩ := verify_of_search (E := E) hnot hfind
        have hv' : verify ⟨roots, mkPool rest, sigOK⟩ l = .ok chains := by rw [hpool]; exact hv
        exact validate_of_verify hleaf hv' hT (chainsEquivalent_of (by simp; omega) (Or.inr (by simp)) (by simp))

example : SideConditions [exR] [exL, exI] ∧ Admissible [exR] exSig [exL, exI] ∧ LeafOK exOpts exL := by
  refine ⟨⟨by decide, by decide, by unfold DistinctSubjects; decide, by unfold AkiConsistent; decide, by decide,
    (by intro l rest h _; cases h; decide), by unfold Coherent; decide⟩, ?_, (leafFilters_iff _ _).1 (by decide)⟩
  exact .belowPool exR (by simp) (by decide) ⟨⟨rfl, by decide⟩, ⟨rfl, by decide⟩, trivial⟩ (by intro x hx; simp at hx; subst hx; exact ⟨rfl, rfl⟩)

/-- The chain may pass through a trusted certificate: pool `{R, I}`, submission `[L, I, R]` is admitted as submitted. -/
example : validateChain [exR, exI] exSig exOpts [some exL, some exI, some exR] = .ok [exL, exI, exR] := by decide
example : SideConditions [exR, exI] [exL, exI, exR] := by
  refine ⟨by decide, by decide, by unfold DistinctSubjects; decide, by unfold AkiConsistent; decide, by decide,
    (by intro l rest h _; cases h; decide), by unfold Coherent; decide⟩

/-! ## The NotAfter window (regenerated conditions) -/

/-- **window_iff.** Over the two conditions regenerated from `ValidateChain`: the leaf passes both NotAfter
checks iff `start ≤ t < limit`, each bound applying only when configured. -/
theorem window_iff (t : Int) (start limit : Option Int) :
    (Gen.naStartFails t start = false ∧ Gen.naLimitFails t limit = false) ↔
      ((∀ s, start = some s → s ≤ t) ∧ (∀ l, limit = some l → t < l)) := by
  unfold Gen.naStartFails Gen.naLimitFails
  cases start <;> cases limit <;> simp <;> omega

example : Gen.naStartFails 1000 (some 1000) = false ∧ Gen.naLimitFails 1000 (some 1001) = false := by decide
example : Gen.naLimitFails 1000 (some 1000) = true ∧ Gen.naStartFails 999 (some 1000) = true := by decide

/-- The expiry options over the regenerated conditions: `rejectExpired` passes iff `now ≤ NotAfter`,
`rejectUnexpired` passes iff `now > NotAfter` (so both together reject everything). -/
theorem expiry_iff (now t : Int) (rejExp rejUnexp : Bool) :
    (Gen.rejectExpiredFails rejExp (Gen.expired now t) = false ∧ Gen.rejectUnexpiredFails rejUnexp (Gen.expired now t) = false) ↔
      ((rejExp = true → now ≤ t) ∧ (rejUnexp = true → t < now)) := by
  unfold Gen.rejectExpiredFails Gen.rejectUnexpiredFails Gen.expired
  cases rejExp <;> cases rejUnexp <;> simp <;> omega

example : Gen.rejectExpiredFails true (Gen.expired 1000 1000) = false ∧ Gen.rejectExpiredFails true (Gen.expired 1001 1000) = true := by decide

/-! ## Precertificates and endpoints -/

/-- **poison_classification** (first half): a leaf counts as a precertificate exactly when its (first) poison
extension is critical with value `05 00`; any other poison extension is an error; no poison extension: a
certificate. -/
theorem poison_classification (c : Cert) :
    (isPrecertificate c = .ok true ↔ c.poison = .present true true) ∧
    (isPrecertificate c = .ok false ↔ c.poison = .absent) ∧
    (isPrecertificate c = .error () ↔ ∃ cr nl, c.poison = .present cr nl ∧ ¬(cr = true ∧ nl = true)) := by
  unfold isPrecertificate Gen.poisonInvalid
  cases hp : c.poison with
  | absent => simp
  | present cr nl => cases cr <;> cases nl <;> simp

example : isPrecertificate { (default : Cert) with poison := .present true true } = .ok true := by decide
example : isPrecertificate { (default : Cert) with poison := .present false true } = .error () := by decide

/-- **poison_classification** (second half): `verifyAddChain` admits exactly the chains `ValidateChain`
admits whose leaf kind is the endpoint's kind.  Hence a malformed poison extension is rejected on both
endpoints and a kind ≠ endpoint submission is rejected. -/
theorem endpoint_kind (roots : List Cert) (sigOK : SigOracle) (o : Opts) (raw : List (Option Cert)) (expectingPrecert : Bool) (p : List Cert) :
    verifyAddChain roots sigOK o raw expectingPrecert = .ok p ↔
      (validateChain roots sigOK o raw = .ok p ∧ ∃ l, p.head? = some l ∧ isPrecertificate l = .ok expectingPrecert) := by
  unfold verifyAddChain
  cases hv : validateChain roots sigOK o raw with
  | error e => simp
  | ok q =>
    dsimp only
    constructor
    · intro h
      split at h
      · simp at h
      rename_i l hl
      split at h
      · simp at h
      rename_i k hk
      split at h
      · simp at h
      rename_i hm
      simp only [Except.ok.injEq] at h
      subst h
      refine ⟨rfl, l, hl, ?_⟩
      rw [hk]
      cases k <;> cases expectingPrecert <;> simp_all [Gen.kindMismatch]
    · rintro ⟨e, l, hl, hk⟩
      simp only [Except.ok.injEq] at e
      subst e
      simp [hl, hk, Gen.kindMismatch]

/-- A submission whose leaf has a malformed poison extension is rejected by both endpoints, and a
well-formed leaf is rejected by the endpoint of the other kind. -/
theorem kind_mismatch_rejected (roots : List Cert) (sigOK : SigOracle) (o : Opts) (l : Cert) (rest : List (Option Cert)) (e : Bool)
    (h : isPrecertificate l ≠ .ok e) : ∀ p, verifyAddChain roots sigOK o (some l :: rest) e ≠ .ok p := by
  intro p hp
  obtain ⟨hv, l', hl', hk⟩ := (endpoint_kind roots sigOK o _ e p).1 hp
  obtain ⟨l'', rest', hraw, _, hhead, _⟩ := admit_sound roots sigOK o _ p hv
  have : l'' = l := by simp at hraw; exact hraw.1.symm
  subst this
  rw [hhead] at hl'; cases hl'
  exact h hk

example : verifyAddChain [exR] exSig exOpts [some exL, some exI] false = .ok [exL, exI, exR] := by decide
example : verifyAddChain [exR] exSig exOpts [some exL, some exI] true = .error .kind := by decide
example : verifyAddChain [exR] exSig exOpts [some { exL with poison := .present true false }, some exI] true = .error .poison := by decide

end C02
