import CTV.Lemmas.FrontEnd
/-!
# C06 — the log front end presents one verifiable, append-only history

Theorems over `CTV.Model.FrontEnd`: the assumed backend contract (RFC 6962 tree over `LeafValue`,
de-duplication by identity hash, sequencing in batches of any size — implemented for the harness by
`verifkit.RefLog`) and the front end's read paths, which use the **regenerated** kernels
`Gen.sthTimestamp`, `Gen.sthTreeSize` (sth.go), `Gen.parseGetSTHConsistencyRange`,
`Gen.parseGetEntryAndProofParams` (handlers.go). Histories are `List Op` (`submit` fresh or duplicate,
`sequence k ts`, `read`); reads do not change the backend, so "any interleaving of reads with
submissions and sequencing steps" is: the statements hold in every state `run b ops`.
All hash functions are arbitrary; verification is by the library verifiers
`Merkle.verifyConsistency` / `Merkle.verifyInclusion` (tied to transparency-dev/merkle by the C19 check).
-/
set_option linter.unusedVariables false
set_option linter.unusedSectionVars false
namespace C06
open CTV CTV.Model.FrontEnd Merkle

section
variable {Hash : Type} (leafH : Bytes → Hash) (nodeH : Hash → Hash → Hash) (emptyH : Hash)

/-! ## sth_faithful -/

/-- **sth_faithful (values).** The served tree head reports the backend's tree size, the backend's
    root (the RFC 6962 hash of the sequenced leaf values) and the backend's root timestamp converted
    from nanoseconds to **milliseconds** — proved about the expression regenerated from `sth.go`. -/
theorem sth_faithful (b : Backend) (hts : b.tsNanos < 2 ^ 64) (hsz : b.leaves.length < 2 ^ 64) :
    (served leafH nodeH emptyH b).size = b.leaves.length ∧
    (served leafH nodeH emptyH b).ts = b.tsNanos / 1000000 ∧
    (served leafH nodeH emptyH b).root = mth leafH nodeH emptyH b.values := by
  refine ⟨?_, ?_, rfl⟩
  · simp only [served, Gen.sthTreeSize, U64.wrap]; omega
  · simp only [served, Gen.sthTimestamp, U64.wrap, U64.div]
    have h0 : (0 : Int) ≤ (b.tsNanos : Int) := Int.natCast_nonneg _
    have h1 : (b.tsNanos : Int) < 2 ^ 64 := by exact_mod_cast hts
    omega

/-- The millisecond value is what a second-resolution or microsecond-resolution conversion would
    *not* give (non-vacuity of the timestamp clause). -/
example : Gen.sthTimestamp 1704068148285903276 = 1704068148285 := by
  simp [Gen.sthTimestamp, U64.wrap, U64.div]

end

/-! ### the signature (through the one-entry cache) -/

section
variable {Msg Sig PK : Type} [DecidableEq Msg]

/-- serve a sequence of signing requests `(input, nonce)` through the cache -/
def serveAll (sign : Msg → Nat → Sig) : Cache Msg Sig → List (Msg × Nat) → List (Msg × Sig)
  | _, [] => []
  | c, (i, n) :: rest =>
    let r := signHead sign c i n
    (i, r.2) :: serveAll sign r.1 rest

def CacheOK (verify : Msg → Sig → Bool) (c : Cache Msg Sig) : Prop :=
  ∀ i s, c = some (i, s) → verify i s = true

/-- **sth_faithful (signature).** Whatever sequence of tree heads is requested (any interleaving of
    handlers sharing the cache), every signature served verifies under the log key over exactly the
    bytes it is served with: a cache hit returns a signature *over the same input*. Assumption: the
    primitive is correct (`hsign`). -/
theorem sth_signature_verifies (sign : Msg → Nat → Sig) (verify : Msg → Sig → Bool)
    (hsign : ∀ m n, verify m (sign m n) = true) (reqs : List (Msg × Nat)) :
    ∀ (c : Cache Msg Sig), CacheOK verify c → ∀ p ∈ serveAll sign c reqs, verify p.1 p.2 = true := by
  induction reqs with
  | nil => intro c _ p hp; simp [serveAll] at hp
  | cons r rest ih =>
    intro c hc p hp
    obtain ⟨i, n⟩ := r
    simp only [serveAll, List.mem_cons] at hp
    have key : verify i (signHead sign c i n).2 = true ∧ CacheOK verify (signHead sign c i n).1 := by
      unfold signHead
      cases c with
      | none =>
        refine ⟨hsign i n, ?_⟩
        intro i' s' h; cases h; exact hsign i n
      | some cs =>
        obtain ⟨ci, cs⟩ := cs
        by_cases he : ci = i
        · simp only [he, if_true]
          exact ⟨hc i cs (by rw [he]), by rw [← he]; exact hc⟩
        · simp only [he, if_false]
          refine ⟨hsign i n, ?_⟩
          intro i' s' h; cases h; exact hsign i n
    rcases hp with rfl | hp
    · exact key.1
    · exact ih _ key.2 p hp

/-- a cache hit hands out the cached signature only for the cached input -/
theorem cache_hit_same_input (sign : Msg → Nat → Sig) (ci i : Msg) (cs : Sig) (n : Nat)
    (h : (signHead sign (some (ci, cs)) i n).2 = cs) (hne : sign i n ≠ cs) : ci = i := by
  unfold signHead at h
  by_cases he : ci = i
  · exact he
  · simp [he] at h; exact absurd h hne

/-! ### the cache under arbitrary interleavings: why `GetSignature` must be one atomic step -/

/-- `signHead` is an atomic get followed, on a miss, by sign and an atomic set. -/
theorem signHead_eq (sign : Msg → Nat → Sig) (c : Cache Msg Sig) (i : Msg) (n : Nat) :
    signHead sign c i n = match cget c i with
      | some s => (c, s)
      | none => (cset i (sign i n), sign i n) := by
  unfold signHead cget cset
  cases c with
  | none => rfl
  | some cs =>
    obtain ⟨ci, s⟩ := cs
    by_cases h : ci = i <;> simp [h]

/-- **Atomic get: sound for every interleaving.** Take any schedule of atomic `get`/`set` steps of any
    number of concurrent requests, in which every `set` stores a signature that verifies over the input
    it is stored with (a request only stores what it has just signed). Then every hit of every `get`
    returns a signature that verifies over *the input that get asked for*. -/
theorem cache_atomic_get_sound (verify : Msg → Sig → Bool) (evs : List (CacheEv Msg Sig)) :
    ∀ (c : Cache Msg Sig), CacheOK verify c → (∀ i s, CacheEv.set i s ∈ evs → verify i s = true) →
      ∀ i s, (i, some s) ∈ runCache c evs → verify i s = true := by
  induction evs with
  | nil => intro c _ _ i s h; simp [runCache] at h
  | cons ev rest ih =>
    intro c hc hv i s h
    cases ev with
    | get j =>
      simp only [runCache, List.mem_cons, Prod.mk.injEq] at h
      rcases h with ⟨rfl, hg⟩ | h
      · unfold cget at hg
        cases c with
        | none => simp at hg
        | some cs =>
          obtain ⟨ci, s'⟩ := cs
          by_cases he : ci = i
          · simp only [he, if_true, Option.some.injEq] at hg
            exact hc i s (by rw [← hg, he])
          · simp [he] at hg
      · exact ih c hc (fun i s hm => hv i s (List.mem_cons_of_mem _ hm)) i s h
    | set j t =>
      simp only [runCache] at h
      refine ih (cset j t) ?_ (fun i s hm => hv i s (List.mem_cons_of_mem _ hm)) i s h
      intro i' s' he
      simp only [cset, Option.some.injEq, Prod.mk.injEq] at he
      rw [← he.1, ← he.2]
      exact hv j t (List.mem_cons_self ..)

/-- **Two-step get: unsound.** If "is the input cached?" and "read the signature" are two separate
    critical sections, one `set` of another request between them makes the get hand out a signature
    that does *not* verify over the input it was asked for — although every cache state involved is
    valid and every section is properly locked. (Request 1 holds the old root `1`, request 2 signs and
    stores the new root `2` in between.) -/
theorem two_step_get_unsound :
    ∃ (verify : Nat → Nat → Bool) (c1 c2 : Cache Nat Nat) (s : Nat),
      CacheOK verify c1 ∧ CacheOK verify c2 ∧ c2 = cset 2 (2 + 100) ∧
      containsThenRead c1 c2 1 = some s ∧ verify 1 s = false := by
  refine ⟨fun m s => s == m + 100, some (1, 101), some (2, 102), 102, ?_, ?_, rfl, ?_, ?_⟩
  · intro i s h; cases h; rfl
  · intro i s h; cases h; rfl
  · simp [containsThenRead, cget]
  · rfl

/-- the same schedule with the atomic get: the stale request simply misses -/
example : runCache (some (1, 101) : Cache Nat Nat) [.set 2 102, .get 1, .get 2] = [(1, none), (2, some 102)] := by
  decide

example : CacheOK (fun (m : Nat) (s : Nat) => s == m + 1) (none : Cache Nat Nat) := by
  intro i s h; cases h

end

section
variable {Hash : Type} (leafH : Bytes → Hash) (nodeH : Hash → Hash → Hash) (emptyH : Hash)
variable [DecidableEq Hash]

/-! ## consistency_links -/

/-- **consistency_links.** Take any state `b1`, any later state `b2 = run b1 ops12` and any still later
    state `b3 = run b2 ops23` (the moment the proof is requested). The proof the front end serves at
    `b3` for `first = |b1|`, `second = |b2|` makes the library verifier accept **exactly** the root
    served at `b1` as old root and the root served at `b2` as new root (the statement is false with
    the two exchanged, see the example below). -/
theorem consistency_links (b1 : Backend) (ops12 ops23 : List Op) :
    ∃ p, getConsistency leafH nodeH emptyH (run (run b1 ops12) ops23) b1.leaves.length (run b1 ops12).leaves.length = some p ∧
      verifyConsistency nodeH b1.leaves.length (run b1 ops12).leaves.length p
        (b1.root leafH nodeH emptyH) ((run b1 ops12).root leafH nodeH emptyH) = true := by
  obtain ⟨x, hx⟩ := leaves_run ops12 b1
  obtain ⟨y, hy⟩ := leaves_run ops23 (run b1 ops12)
  have hlen : b1.leaves.length ≤ (run b1 ops12).leaves.length := by rw [hx]; simp
  have hlen3 : (run b1 ops12).leaves.length ≤ (run (run b1 ops12) ops23).leaves.length := by rw [hy]; simp
  have hv3 : (run (run b1 ops12) ops23).values.take (run b1 ops12).leaves.length = (run b1 ops12).values := by
    simp only [Backend.values, hy, List.map_append]
    rw [List.take_append_of_le_length (by simp)]
    rw [List.take_of_length_le (by simp)]
  have hv1 : (run b1 ops12).values.take b1.leaves.length = b1.values := by
    simp only [Backend.values, hx, List.map_append]
    rw [List.take_append_of_le_length (by simp)]
    rw [List.take_of_length_le (by simp)]
  have hvl : (run b1 ops12).values.length = (run b1 ops12).leaves.length := by simp [Backend.values]
  have hc := verifyConsistency_complete leafH nodeH emptyH (run b1 ops12).values b1.leaves.length (by rw [hvl]; exact hlen)
  rw [hv1, hvl] at hc
  unfold getConsistency Gen.parseGetSTHConsistencyRange
  have e1 : ¬ ((b1.leaves.length : Int) < 0 ∨ ((run b1 ops12).leaves.length : Int) < 0) := by omega
  have e2 : ¬ (((run b1 ops12).leaves.length : Int) < (b1.leaves.length : Int)) := by omega
  simp only [Bool.false_eq_true, if_false, Bool.or_eq_true, decide_eq_true_eq, e1, e2, Int.toNat_natCast]
  by_cases h0 : b1.leaves.length = 0
  · have h0' : ((b1.leaves.length : Nat) : Int) = 0 := by omega
    simp only [h0', if_true]
    refine ⟨[], rfl, ?_⟩
    simp only [h0, true_or, if_true] at hc
    show verifyConsistency nodeH b1.leaves.length _ _ (mth leafH nodeH emptyH b1.values) (mth leafH nodeH emptyH (run b1 ops12).values) = true
    rw [h0]; exact hc
  · have h0' : ¬ ((b1.leaves.length : Nat) : Int) = 0 := by omega
    have h3 : ¬ (run (run b1 ops12) ops23).leaves.length < (run b1 ops12).leaves.length := by omega
    simp only [h0', if_false, h3]
    refine ⟨_, rfl, ?_⟩
    rw [hv3]
    simp only [h0, false_or] at hc
    exact hc

/-! ## inclusion_ok -/

/-- **inclusion_ok (get-entry-and-proof).** For any state `b1` (whose tree head may have been served),
    any later state `b2` and any index `i < |b1|`: get-entry-and-proof for `(i, |b1|)` at `b2` serves
    the `i`-th entry of `b1` and an audit path that verifies against the root served at `b1`. -/
theorem inclusion_ok (b1 : Backend) (ops : List Op) (i : Nat) (hi : i < b1.leaves.length) :
    ∃ l p, getEntryAndProof leafH nodeH emptyH (run b1 ops) i b1.leaves.length = some (l, p) ∧
      b1.leaves[i]? = some l ∧
      verifyInclusion nodeH i b1.leaves.length (leafH l.value) p (b1.root leafH nodeH emptyH) = true := by
  obtain ⟨x, hx⟩ := leaves_run ops b1
  have hv : (run b1 ops).values.take b1.leaves.length = b1.values := by
    simp only [Backend.values, hx, List.map_append]
    rw [List.take_append_of_le_length (by simp)]
    rw [List.take_of_length_le (by simp)]
  have hl : b1.leaves[i]? = some b1.leaves[i] := List.getElem?_eq_getElem hi
  refine ⟨b1.leaves[i], path leafH nodeH emptyH i b1.values, ?_, hl, ?_⟩
  · unfold getEntryAndProof Gen.parseGetEntryAndProofParams
    have e1 : ¬ ((b1.leaves.length : Int) ≤ 0) := by omega
    have e2 : ¬ ((i : Int) < 0) := by omega
    have e3 : ¬ ((i : Int) ≥ (b1.leaves.length : Int)) := by omega
    have e4 : ¬ (run b1 ops).leaves.length < b1.leaves.length := by rw [hx]; simp
    simp only [decide_eq_true_eq, e1, e2, e3, if_false, Int.toNat_natCast, e4]
    rw [hx, List.getElem?_append_left hi, hl]
    simp only [Option.some.injEq, Prod.mk.injEq, true_and]
    rw [hv]
  · have hvl : b1.values.length = b1.leaves.length := by simp [Backend.values]
    have hd : b1.values[i]? = some b1.leaves[i].value := by
      simp [Backend.values, List.getElem?_map, hl]
    have := verifyInclusion_complete leafH nodeH emptyH b1.values i b1.leaves[i].value hd
    rw [hvl] at this
    exact this

/-- **inclusion_ok (get-proof-by-hash).** The leaf hash of any entry of `b1` is found at the lowest
    index holding that hash, with an audit path that verifies against the root served at `b1`. -/
theorem proofByHash_ok (b1 : Backend) (ops : List Op) (i : Nat) (l : Leaf) (hl : b1.leaves[i]? = some l) :
    ∃ j p, getProofByHash leafH nodeH emptyH (run b1 ops) (leafH l.value) b1.leaves.length = some (j, p) ∧ j ≤ i ∧
      (∃ l', b1.leaves[j]? = some l' ∧ leafH l'.value = leafH l.value) ∧
      verifyInclusion nodeH j b1.leaves.length (leafH l.value) p (b1.root leafH nodeH emptyH) = true := by
  obtain ⟨x, hx⟩ := leaves_run ops b1
  have hi : i < b1.leaves.length := by
    rcases Nat.lt_or_ge i b1.leaves.length with h | h
    · exact h
    · simp [List.getElem?_eq_none h] at hl
  have hv : (run b1 ops).values.take b1.leaves.length = b1.values := by
    simp only [Backend.values, hx, List.map_append]
    rw [List.take_append_of_le_length (by simp)]
    rw [List.take_of_length_le (by simp)]
  have hvl : b1.values.length = b1.leaves.length := by simp [Backend.values]
  have hvi : b1.values[i]? = some l.value := by simp [Backend.values, List.getElem?_map, hl]
  unfold getProofByHash
  have e1 : ¬ ((b1.leaves.length : Int) < 1) := by omega
  have e4 : ¬ (run b1 ops).leaves.length < b1.leaves.length := by rw [hx]; simp
  simp only [e1, if_false, Int.toNat_natCast, e4, hv]
  cases hf : b1.values.findIdx? (fun v => leafH v == leafH l.value) with
  | none =>
    rw [List.findIdx?_eq_none_iff] at hf
    have := hf l.value (List.mem_of_getElem? hvi)
    simp at this
  | some j =>
    rw [List.findIdx?_eq_some_iff_getElem] at hf
    obtain ⟨hj, hpj, hmin⟩ := hf
    have hji : j ≤ i := by
      rcases Nat.lt_or_ge i j with h | h
      · have := hmin i h
        have hvi' : b1.values[i] = l.value := by
          have := List.getElem?_eq_getElem (l := b1.values) (by omega : i < b1.values.length)
          rw [this] at hvi; exact Option.some.inj hvi
        rw [hvi'] at this; simp at this
      · exact h
    have hjl : j < b1.leaves.length := by omega
    refine ⟨j, _, rfl, hji, ⟨b1.leaves[j], List.getElem?_eq_getElem hjl, ?_⟩, ?_⟩
    · have : b1.values[j] = b1.leaves[j].value := by simp [Backend.values]
      rw [← this]; simpa using hpj
    · have hd : b1.values[j]? = some b1.values[j] := List.getElem?_eq_getElem hj
      have := verifyInclusion_complete leafH nodeH emptyH b1.values j b1.values[j] hd
      rw [hvl] at this
      have hh : leafH b1.values[j] = leafH l.value := by simpa using hpj
      rw [hh] at this
      exact this

/-! ## sct_findable -/

/- FULL: … the leaf hash *a client computes from the certificate and the SCT alone*,
   `leafHash (Rfc.merkleTreeLeaf (entryOf cert sct.timestamp))`, equals the stored leaf's hash, and the
   stored entry *decodes* to the submitted certificate and chain.
   Proved here (`sct_findable_partial`): everything about the history — the leaf the SCT is built from
   is the stored one (also for duplicates), it is sequenced at exactly one index, get-proof-by-hash
   finds that index with a verifying path, and no other index carries the same leaf hash.
   Also proved: the `MerkleTreeLeaf` layer (`encLeaf`, written from RFC 6962 §3.4, used by the driver to
   build every leaf) is injective (`encLeaf_inj`), so the stored leaf decodes to exactly one (entry, timestamp).
   Missing: the decoding of `extra` to the chain and, for precertificates, the DER step
   certificate → (issuer key hash, TBS) need the wire/DER libraries (C04/C07/C03),
   which is not part of this worktree; both are checked bit for bit on every run by the harness
   (`ctutil.LeafHash` of the submitted chain + SCT vs the model's SHA-256 of the stored leaf;
   `client.GetEntries` at the found index vs the submitted certificate and chain). -/

/-- Distinct certificates give distinct leaves: leaf values of equal bytes carry the same identity
    hash. (True for X.509 entries, whose leaf embeds the certificate the identity hash is taken of; for
    precertificates it needs distinct TBS or timestamps — the identity hash covers the precertificate's
    signature, the leaf does not.) A hypothesis on what is submitted, never an axiom. -/
def ValuesIdentify (b : Backend) : Prop :=
  ∀ x ∈ b.all, ∀ y ∈ b.all, x.value = y.value → x.idHash = y.idHash

/-- **sct_findable (history part).** A certificate is submitted in any reachable state `b0`
    (fresh or duplicate); the SCT is built from the leaf `stored` the backend returns. In every later
    state in which that leaf has been sequenced: it sits at an index `i`; get-proof-by-hash with its
    leaf hash and the current tree size answers **that** index with an audit path that verifies
    against the current root; and `i` is the only index whose entry has that leaf hash — provided
    `leafH` has no collision among the stored values and distinct certificates give distinct leaves. -/
theorem sct_findable_partial (ts : Nat) (ops1 ops2 : List Op) (cand : Leaf) :
    let b0 := run (Backend.init ts) ops1
    let b1 := (b0.queue cand).1
    let stored := (b0.queue cand).2
    let b2 := run b1 ops2
    stored.idHash = cand.idHash ∧
    (stored ∈ b2.leaves →
      (∀ x ∈ b2.all, ∀ y ∈ b2.all, leafH x.value = leafH y.value → x.value = y.value) →
      ValuesIdentify b2 →
      ∃ i p, b2.leaves[i]? = some stored ∧
        getProofByHash leafH nodeH emptyH b2 (leafH stored.value) b2.leaves.length = some (i, p) ∧
        verifyInclusion nodeH i b2.leaves.length (leafH stored.value) p (b2.root leafH nodeH emptyH) = true ∧
        ∀ j l', b2.leaves[j]? = some l' → leafH l'.value = leafH stored.value → j = i) := by
  intro b0 b1 stored b2
  have hid : stored.idHash = cand.idHash := by
    rcases all_queue b0 cand with ⟨_, _, h⟩ | ⟨_, h, _⟩
    · exact h
    · show (b0.queue cand).2.idHash = cand.idHash; rw [h]
  refine ⟨hid, ?_⟩
  intro hmem hinj hvi
  have hnd : NodupIds b2 := by
    have h0 : NodupIds b0 := nodupIds_run ops1 _ (nodupIds_init ts)
    have h1 : NodupIds b1 := nodupIds_step b0 (.submit cand) h0
    exact nodupIds_run ops2 _ h1
  obtain ⟨i, hi⟩ := List.mem_iff_getElem?.mp hmem
  -- uniqueness of the index of a leaf hash
  have huniq : ∀ j l', b2.leaves[j]? = some l' → leafH l'.value = leafH stored.value → j = i := by
    intro j l' hj hh
    have hjm : l' ∈ b2.all := List.mem_append_left _ (List.mem_of_getElem? hj)
    have him : stored ∈ b2.all := List.mem_append_left _ hmem
    have hidh : l'.idHash = stored.idHash := hvi l' hjm stored him (hinj l' hjm stored him hh)
    have hjl : j < b2.leaves.length := by
      rcases Nat.lt_or_ge j b2.leaves.length with h | h
      · exact h
      · simp [List.getElem?_eq_none h] at hj
    have hil : i < b2.leaves.length := by
      rcases Nat.lt_or_ge i b2.leaves.length with h | h
      · exact h
      · simp [List.getElem?_eq_none h] at hi
    have a1 : (b2.all.map (·.idHash))[j]? = some stored.idHash := by
      simp only [Backend.all, List.getElem?_map]
      rw [List.getElem?_append_left hjl, hj]; simp [hidh]
    have a2 : (b2.all.map (·.idHash))[i]? = some stored.idHash := by
      simp only [Backend.all, List.getElem?_map]
      rw [List.getElem?_append_left hil, hi]; simp
    exact nodup_idx_unique _ j i _ hnd a1 a2
  obtain ⟨j, p, hp, hji, ⟨l', hl', hh⟩, hver⟩ := proofByHash_ok leafH nodeH emptyH b2 [] i stored hi
  simp only [run] at hp
  have hje : j = i := huniq j l' hl' hh
  subst hje
  exact ⟨j, p, hi, hp, hver, huniq⟩

/-! ## the leaf a client computes: `encLeaf` is injective, so the stored leaf decodes to the submitted entry -/

theorem beEnc_inj (w a b : Nat) (ha : a < 256 ^ w) (hb : b < 256 ^ w) (h : beEnc w a = beEnc w b) : a = b := by
  have := congrArg beDec h
  rwa [beDec_beEnc w a ha, beDec_beEnc w b hb] at this

/-- size limits of RFC 6962 §3.4: 64-bit timestamp, `opaque<1..2^24-1>` bodies, 32-byte key hash -/
def EntryWf : Entry → Prop
  | .x509 c => c.length < 2 ^ 24
  | .precert k t => k.length = 32 ∧ t.length < 2 ^ 24

/-- **The stored leaf decodes to exactly one (entry, timestamp).** The RFC 6962 `MerkleTreeLeaf`
    encoding is injective on well-formed entries: equal leaf bytes mean the same certificate (or the
    same issuer key hash and TBS) and the same timestamp. Hence the leaf hash a client computes from
    the certificate and the SCT timestamp alone is the hash of the stored leaf **iff** the stored
    leaf is the leaf of that certificate and timestamp (given no leaf-hash collision). -/
theorem encLeaf_inj (e e' : Entry) (ts ts' : Nat) (he : EntryWf e) (he' : EntryWf e') (hts : ts < 2 ^ 64) (hts' : ts' < 2 ^ 64)
    (h : encLeaf e ts = encLeaf e' ts') : e = e' ∧ ts = ts' := by
  unfold encLeaf at h
  simp only [List.append_assoc, List.cons_append, List.nil_append, List.cons.injEq, true_and] at h
  have h8 : (beEnc 8 ts).length = (beEnc 8 ts').length := by simp [beEnc_length]
  obtain ⟨h1, h2⟩ := List.append_inj h h8
  have hts_eq : ts = ts' := beEnc_inj 8 ts ts' (by simpa using hts) (by simpa using hts') h1
  refine ⟨?_, hts_eq⟩
  cases e with
  | x509 c =>
    cases e' with
    | x509 c' =>
      simp only [List.cons_append, List.cons.injEq, true_and, List.append_assoc] at h2
      have h3 : (beEnc 3 c.length).length = (beEnc 3 c'.length).length := by simp [beEnc_length]
      obtain ⟨_, h5⟩ := List.append_inj h2 h3
      have := List.append_cancel_right h5
      rw [this]
    | precert k' t' => simp at h2
  | precert k t =>
    cases e' with
    | x509 c' => simp at h2
    | precert k' t' =>
      simp only [List.cons_append, List.cons.injEq, true_and, List.append_assoc] at h2
      obtain ⟨hk, h4⟩ := List.append_inj h2 (by rw [he.1, he'.1])
      have h3 : (beEnc 3 t.length).length = (beEnc 3 t'.length).length := by simp [beEnc_length]
      obtain ⟨_, h5⟩ := List.append_inj h4 h3
      have := List.append_cancel_right h5
      rw [hk, this]

/-- For X.509 entries the hypothesis `ValuesIdentify` of `sct_findable_partial` holds outright when the
    identity hash is a function of the certificate (CTFE: SHA-256 of the leaf certificate's DER). -/
theorem valuesIdentify_x509 (b : Backend) (idOf : Bytes → Bytes)
    (hshape : ∀ x ∈ b.all, ∃ c ts, x.value = encLeaf (.x509 c) ts ∧ x.idHash = idOf c ∧ c.length < 2 ^ 24 ∧ ts < 2 ^ 64) :
    ValuesIdentify b := by
  intro x hx y hy hv
  obtain ⟨c, ts, hxv, hxi, hc, hts⟩ := hshape x hx
  obtain ⟨c', ts', hyv, hyi, hc', hts'⟩ := hshape y hy
  rw [hxv, hyv] at hv
  obtain ⟨he, _⟩ := encLeaf_inj (.x509 c) (.x509 c') ts ts' hc hc' hts hts' hv
  cases he
  rw [hxi, hyi]

example : encLeaf (.x509 [0x30, 0x00]) 1234 = [0,0, 0,0,0,0,0,0,4,210, 0,0, 0,0,2, 0x30,0x00, 0,0] := by decide

/-- A duplicate submission is answered from the stored leaf, so its SCT (built from `stored`) is the
    SCT of the original submission and nothing new is queued. -/
theorem duplicate_returns_stored (b : Backend) (cand old : Leaf) (h : b.find cand.idHash = some old) :
    b.queue cand = (b, old) := by
  unfold Backend.queue; rw [h]

end

/-! ## non-vacuity -/

namespace Ex
def h (v : Bytes) : Nat := v.foldl (fun a x => a * 256 + x.toNat) 1
def n (a b : Nat) : Nat := 1000 * a + b + 7
def c1 : Leaf := ⟨[1], [9], [1]⟩
def c2 : Leaf := ⟨[2], [9], [2]⟩
def c1' : Leaf := ⟨[3], [9], [1]⟩   -- same certificate (identity), later timestamp
def hist : List Op := [.submit c1, .submit c2, .sequence 1 5000000, .submit c1', .read, .sequence 5 7000000]
end Ex

/-- a history with a duplicate: the tree ends with two leaves, the duplicate is not stored again -/
example : (run (Backend.init 1) Ex.hist).leaves = [Ex.c1, Ex.c2] := by decide
/-- the duplicate is answered with the stored leaf -/
example : ((run (Backend.init 1) [.submit Ex.c1]).queue Ex.c1').2 = Ex.c1 := by decide
/-- `consistency_links` with the roots exchanged is false already for sizes 1 and 2 -/
example : verifyConsistency Ex.n 1 2 [Ex.h [2]] (Ex.n (Ex.h [1]) (Ex.h [2])) (Ex.h [1]) = false := by
  have h2 : split 2 = 1 := split_unique (a := 0) (by omega) (by omega)
  unfold verifyConsistency rootsFromConsProof
  rw [rootsFromCons]
  simp [h2]
  rw [rootsFromCons]
  simp [Ex.n, Ex.h]

end C06
