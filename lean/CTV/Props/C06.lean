import CTV.Lemmas.FrontEnd
import CTV.Model.HandlerSpec
import CTV.Model.HandlerSpec
import CTV.Rfc6962.Wire
/-!
# C06 — the log front end presents one verifiable, append-only history

Theorems over `CTV.Model.FrontEnd`: the assumed backend contract (RFC 6962 tree over `LeafValue`,
de-duplication by identity hash, sequencing in batches of any size — implemented for the harness by
`verifkit.RefLog`) and the front end's read paths, which use the **regenerated** kernels
`Gen.sthTimestamp`, `Gen.sthTreeSize` (sth.go), `Gen.parseGetSTHConsistencyRange`,
`Gen.parseGetEntryAndProofParams` (handlers.go). Histories are `List Op` (`submit` fresh or duplicate,
`sequence k ts`, `read`); reads do not change the backend, so "any interleaving of reads with
submissions and sequencing steps" is: the statements hold in every state `run b ops`.
All hash functions are arbitrary; verification is by the library verifiers
`Merkle.verifyConsistency` / `Merkle.verifyInclusion` (tied to transparency-dev/merkle by the C19 check).
-/
set_option linter.unusedVariables false
set_option linter.unusedSectionVars false
namespace C06
open CTV CTV.Model.FrontEnd Merkle

section
variable {Hash : Type} (leafH : Bytes → Hash) (nodeH : Hash → Hash → Hash) (emptyH : Hash)

/-! ## sth_faithful -/

/-- **sth_faithful (values).** The served tree head reports the backend's tree size, the backend's
    root (the RFC 6962 hash of the sequenced leaf values) and the backend's root timestamp converted
    from nanoseconds to **milliseconds** — proved about the expression regenerated from `sth.go`. -/
theorem sth_faithful (b : Backend) (hts : b.tsNanos < 2 ^ 64) (hsz : b.leaves.length < 2 ^ 64) :
    (served leafH nodeH emptyH b).size = b.leaves.length ∧
    (served leafH nodeH emptyH b).ts = b.tsNanos / 1000000 ∧
    (served leafH nodeH emptyH b).root = mth leafH nodeH emptyH b.values := by
  refine ⟨?_, ?_, rfl⟩
  · simp only [served, headOf, Backend.rpcLatestRoot]
    exact sthTreeSize_spec _ (Int.natCast_nonneg _) (by exact_mod_cast hsz)
  · simp only [served, headOf, Backend.rpcLatestRoot]
    rw [sthTimestamp_spec _ (Int.natCast_nonneg _) (by exact_mod_cast hts)]

/-- The millisecond value is what a second-resolution or microsecond-resolution conversion would
    *not* give (non-vacuity of the timestamp clause). -/
example : Gen.sthTimestamp 1704068148285903276 = 1704068148285 := by decide

end

/-! ### the signature (through the one-entry cache) -/

section
variable {Msg Sig PK : Type} [DecidableEq Msg]

/-- serve a sequence of signing requests `(input, nonce)` through the cache -/
def serveAll (sign : Msg → Nat → Sig) : Cache Msg Sig → List (Msg × Nat) → List (Msg × Sig)
  | _, [] => []
  | c, (i, n) :: rest =>
    let r := signHead sign c i n
    (i, r.2) :: serveAll sign r.1 rest

def CacheOK (verify : Msg → Sig → Bool) (c : Cache Msg Sig) : Prop :=
  ∀ i s, c = some (i, s) → verify i s = true

/-- one `signV1TreeHead`: the signature handed out verifies over the requested input and the cache stays valid -/
theorem signHead_ok (sign : Msg → Nat → Sig) (verify : Msg → Sig → Bool) (hsign : ∀ m n, verify m (sign m n) = true)
    (c : Cache Msg Sig) (i : Msg) (n : Nat) (hc : CacheOK verify c) :
    verify i (signHead sign c i n).2 = true ∧ CacheOK verify (signHead sign c i n).1 := by
  unfold signHead
  cases c with
  | none =>
    refine ⟨hsign i n, ?_⟩
    intro i' s' h; cases h; exact hsign i n
  | some cs =>
    obtain ⟨ci, cs⟩ := cs
    by_cases he : ci = i
    · simp only [he, if_true]
      exact ⟨hc i cs (by rw [he]), by rw [← he]; exact hc⟩
    · simp only [he, if_false]
      refine ⟨hsign i n, ?_⟩
      intro i' s' h; cases h; exact hsign i n

/-- **sth_faithful (signature).** Whatever sequence of tree heads is requested (any interleaving of
    handlers sharing the cache), every signature served verifies under the log key over exactly the
    bytes it is served with: a cache hit returns a signature *over the same input*. Assumption: the
    primitive is correct (`hsign`). -/
theorem sth_signature_verifies (sign : Msg → Nat → Sig) (verify : Msg → Sig → Bool)
    (hsign : ∀ m n, verify m (sign m n) = true) (reqs : List (Msg × Nat)) :
    ∀ (c : Cache Msg Sig), CacheOK verify c → ∀ p ∈ serveAll sign c reqs, verify p.1 p.2 = true := by
  induction reqs with
  | nil => intro c _ p hp; simp [serveAll] at hp
  | cons r rest ih =>
    intro c hc p hp
    obtain ⟨i, n⟩ := r
    simp only [serveAll, List.mem_cons] at hp
    have key := signHead_ok sign verify hsign c i n hc
    rcases hp with rfl | hp
    · exact key.1
    · exact ih _ key.2 p hp

/-- a cache hit hands out the cached signature only for the cached input -/
theorem cache_hit_same_input (sign : Msg → Nat → Sig) (ci i : Msg) (cs : Sig) (n : Nat)
    (h : (signHead sign (some (ci, cs)) i n).2 = cs) (hne : sign i n ≠ cs) : ci = i := by
  unfold signHead at h
  by_cases he : ci = i
  · exact he
  · simp [he] at h; exact absurd h hne

/-! ### the cache under arbitrary interleavings: why `GetSignature` must be one atomic step -/

/-- `signHead` is an atomic get followed, on a miss, by sign and an atomic set. -/
theorem signHead_eq (sign : Msg → Nat → Sig) (c : Cache Msg Sig) (i : Msg) (n : Nat) :
    signHead sign c i n = match cget c i with
      | some s => (c, s)
      | none => (cset i (sign i n), sign i n) := by
  rw [cget_spec]
  unfold signHead cset
  cases c with
  | none => rfl
  | some cs =>
    obtain ⟨ci, s⟩ := cs
    by_cases h : ci = i <;> simp [h]

/-- **Atomic get: sound for every interleaving.** Take any schedule of atomic `get`/`set` steps of any
    number of concurrent requests, in which every `set` stores a signature that verifies over the input
    it is stored with (a request only stores what it has just signed). Then every hit of every `get`
    returns a signature that verifies over *the input that get asked for*. -/
theorem cache_atomic_get_sound (verify : Msg → Sig → Bool) (evs : List (CacheEv Msg Sig)) :
    ∀ (c : Cache Msg Sig), CacheOK verify c → (∀ i s, CacheEv.set i s ∈ evs → verify i s = true) →
      ∀ i s, (i, some s) ∈ runCache c evs → verify i s = true := by
  induction evs with
  | nil => intro c _ _ i s h; simp [runCache] at h
  | cons ev rest ih =>
    intro c hc hv i s h
    cases ev with
    | get j =>
      simp only [runCache, List.mem_cons, Prod.mk.injEq] at h
      rcases h with ⟨rfl, hg⟩ | h
      · rw [cget_spec] at hg
        cases c with
        | none => simp at hg
        | some cs =>
          obtain ⟨ci, s'⟩ := cs
          by_cases he : ci = i
          · simp only [he, if_true, Option.some.injEq] at hg
            exact hc i s (by rw [← hg, he])
          · simp [he] at hg
      · exact ih c hc (fun i s hm => hv i s (List.mem_cons_of_mem _ hm)) i s h
    | set j t =>
      simp only [runCache] at h
      refine ih (cset j t) ?_ (fun i s hm => hv i s (List.mem_cons_of_mem _ hm)) i s h
      intro i' s' he
      simp only [cset, Option.some.injEq, Prod.mk.injEq] at he
      rw [← he.1, ← he.2]
      exact hv j t (List.mem_cons_self ..)

/-- **Two-step get: unsound.** If "is the input cached?" and "read the signature" are two separate
    critical sections, one `set` of another request between them makes the get hand out a signature
    that does *not* verify over the input it was asked for — although every cache state involved is
    valid and every section is properly locked. (Request 1 holds the old root `1`, request 2 signs and
    stores the new root `2` in between.) -/
theorem two_step_get_unsound :
    ∃ (verify : Nat → Nat → Bool) (c1 c2 : Cache Nat Nat) (s : Nat),
      CacheOK verify c1 ∧ CacheOK verify c2 ∧ c2 = cset 2 (2 + 100) ∧
      containsThenRead c1 c2 1 = some s ∧ verify 1 s = false := by
  refine ⟨fun m s => s == m + 100, some (1, 101), some (2, 102), 102, ?_, ?_, rfl, ?_, ?_⟩
  · intro i s h; cases h; rfl
  · intro i s h; cases h; rfl
  · simp [containsThenRead, cget_spec]
  · rfl

/-- the same schedule with the atomic get: the stale request simply misses -/
example : runCache (some (1, 101) : Cache Nat Nat) [.set 2 102, .get 1, .get 2] = [(1, none), (2, some 102)] := by
  decide

example : CacheOK (fun (m : Nat) (s : Nat) => s == m + 1) (none : Cache Nat Nat) := by
  intro i s h; cases h

end

namespace Ex0
def h (v : Bytes) : Nat := v.foldl (fun a x => a * 256 + x.toNat) 1
def n (a b : Nat) : Nat := 1000 * a + b + 7
end Ex0

/-! ### the STH as served: head and signature together, over whole histories -/

section
variable {Hash Msg Sig : Type} [DecidableEq Msg]
variable (leafH : Bytes → Hash) (nodeH : Hash → Hash → Hash) (emptyH : Hash)

/-- a history of the whole front end: backend operations and get-sth calls (each with the randomness its signature would use) -/
inductive FOp where
  | op (o : Op)
  | getSTH (nonce : Nat)

/-- get-sth: fetch the root, build the head (`headOf`), serialise it (`ser` = `SerializeSTHSignatureInput`) and sign it through the cache. -/
def frun (ser : Head Hash → Msg) (sign : Msg → Nat → Sig) :
    Backend → Cache Msg Sig → List FOp → List (Backend × Head Hash × Sig)
  | _, _, [] => []
  | b, c, .op o :: rest => frun ser sign (step b o) c rest
  | b, c, .getSTH n :: rest =>
    let h := served leafH nodeH emptyH b
    let r := signHead sign c (ser h) n
    (b, h, r.2) :: frun ser sign b r.1 rest

/-- **Every STH served verifies and is faithful — one statement.** In any history of submissions,
    sequencing steps and get-sth calls, every answer `(head, signature)` of get-sth is the head of the
    backend state at that moment (`served`, hence `sth_faithful` applies to it) **and** its signature
    verifies under the log key over the serialisation of *that very head*. `ser` is any serialiser,
    `sign`/`verify` any scheme with `hsign` (the primitive is trusted). -/
theorem sth_served_verifies (ser : Head Hash → Msg) (sign : Msg → Nat → Sig) (verify : Msg → Sig → Bool)
    (hsign : ∀ m n, verify m (sign m n) = true) (ops : List FOp) :
    ∀ (b : Backend) (c : Cache Msg Sig), CacheOK verify c →
      ∀ x ∈ frun leafH nodeH emptyH ser sign b c ops,
        x.2.1 = served leafH nodeH emptyH x.1 ∧ verify (ser x.2.1) x.2.2 = true := by
  induction ops with
  | nil => intro b c _ x hx; simp [frun] at hx
  | cons o rest ih =>
    intro b c hc x hx
    cases o with
    | op o => exact ih _ c hc x hx
    | getSTH n =>
      simp only [frun, List.mem_cons] at hx
      have key := signHead_ok sign verify hsign c (ser (served leafH nodeH emptyH b)) n hc
      rcases hx with rfl | hx
      · exact ⟨rfl, key.1⟩
      · exact ih b _ key.2 x hx

/-- the third call hits the cache: same input, the signature made with nonce 2 is served again -/
example : (frun Ex0.h Ex0.n 0 (fun (h : Head Nat) => (h.size, h.ts)) (fun m k => (m, k))
    (Backend.init 5000000) none [.getSTH 1, .op (.submit ⟨[1], [], [1]⟩), .op (.sequence 1 7000000), .getSTH 2, .getSTH 3]).map (·.2.2) =
    [((0, 5), 1), ((1, 7), 2), ((1, 7), 2)] := by decide
end

section
variable {Hash : Type} (leafH : Bytes → Hash) (nodeH : Hash → Hash → Hash) (emptyH : Hash)
variable [DecidableEq Hash]

/-! ## consistency_links

The handler is `handleConsistency rpc first second`: parse guard (`Gen.parseGetSTHConsistencyRange`),
`first = 0` shortcut (`Gen.consNeedsBackend`), the request `Gen.reqGetConsistencyProof first second`
(**which parameter goes to FirstTreeSize / SecondTreeSize**), the tree-size guard
(`Gen.consRootTooSmall`) and the relay (`Gen.relayConsistency`) — all regenerated from handlers.go;
`rpc` is the assumed backend contract `Backend.rpcConsistency`. Exchanging first/second in the request
literal exchanges the components of `Gen.reqGetConsistencyProof` and the proofs below fail. -/

/-- **consistency, any in-range parameters.** In any backend state, for any `m ≤ n ≤ tree size`
    (`n` an int64), the handler serves a proof that makes the library verifier accept the root of the
    first `m` leaves as old root and the root of the first `n` leaves as new root. -/
theorem consistency_at (b : Backend) (m n : Nat) (hmn : m ≤ n) (hn : n ≤ b.leaves.length) (h63 : n < 2 ^ 63) :
    ∃ p, getConsistency leafH nodeH emptyH b m n = some p ∧
      verifyConsistency nodeH m n p (mth leafH nodeH emptyH (b.values.take m)) (mth leafH nodeH emptyH (b.values.take n)) = true := by
  have hvl : (b.values.take n).length = n := by simp [Backend.values]; omega
  have hc := verifyConsistency_complete leafH nodeH emptyH (b.values.take n) m (by rw [hvl]; exact hmn)
  rw [hvl, List.take_take, Nat.min_eq_left hmn] at hc
  unfold getConsistency handleConsistency
  rw [Gen.parseGetSTHConsistencyRange_eq_spec]
  unfold Spec.parseGetSTHConsistencyRange
  have e1 : ¬ ((m : Int) < 0 ∨ (n : Int) < 0) := by omega
  have e2 : ¬ ((n : Int) < (m : Int)) := by omega
  simp only [Bool.false_eq_true, if_false, Bool.or_eq_true, decide_eq_true_eq, e1, e2]
  by_cases h0 : m = 0
  · subst h0
    refine ⟨[], by simp [Gen.consNeedsBackend], ?_⟩
    simpa using hc
  · have hm0 : ¬ ((m : Int) = 0) := by omega
    have hq : Gen.reqGetConsistencyProof (m : Int) (n : Int) = ((m : Int), (n : Int)) := rfl
    have hr : ¬ (((m : Int) ≤ 0) ∨ ((n : Int) < (m : Int))) := by omega
    have hsz : ¬ b.leaves.length < n := by omega
    have hwrap : U64.wrap (n : Int) = (n : Int) := by unfold U64.wrap; omega
    have hguard : Gen.consRootTooSmall (b.leaves.length : Int) (n : Int) = false := by
      simp only [Gen.consRootTooSmall, hwrap, decide_eq_false_iff_not]; omega
    simp only [Gen.consNeedsBackend, ne_eq, hm0, not_false_eq_true, decide_true, Bool.not_true, Bool.false_eq_true, if_false,
      hq, Backend.rpcConsistency, hr, Int.toNat_natCast, hsz, hguard, Gen.relayConsistency]
    refine ⟨_, rfl, ?_⟩
    simp only [h0, false_or] at hc
    exact hc

/-- **consistency_links.** Take any state `b1`, any later state `b2 = run b1 ops12` and any still later
    state `b3 = run b2 ops23` (the moment the proof is requested). The proof the front end serves at
    `b3` for `first = |b1|`, `second = |b2|` makes the library verifier accept **exactly** the root
    served at `b1` as old root and the root served at `b2` as new root. -/
theorem consistency_links (b1 : Backend) (ops12 ops23 : List Op) (h63 : (run b1 ops12).leaves.length < 2 ^ 63) :
    ∃ p, getConsistency leafH nodeH emptyH (run (run b1 ops12) ops23) b1.leaves.length (run b1 ops12).leaves.length = some p ∧
      verifyConsistency nodeH b1.leaves.length (run b1 ops12).leaves.length p
        (b1.root leafH nodeH emptyH) ((run b1 ops12).root leafH nodeH emptyH) = true := by
  obtain ⟨hv12, hl12⟩ := values_prefix b1 ops12
  obtain ⟨hv23, hl23⟩ := values_prefix (run b1 ops12) ops23
  obtain ⟨p, hp, hver⟩ := consistency_at leafH nodeH emptyH (run (run b1 ops12) ops23) b1.leaves.length
    (run b1 ops12).leaves.length hl12 hl23 h63
  refine ⟨p, hp, ?_⟩
  rw [hv23] at hver
  have : (run (run b1 ops12) ops23).values.take b1.leaves.length = b1.values := by
    rw [← hv12, ← hv23, List.take_take, Nat.min_eq_left hl12]
  rw [this] at hver
  exact hver

/-! ## inclusion_ok -/

/-- **inclusion, any in-range parameters (get-entry-and-proof).** In any backend state whose leaves are
    non-empty byte strings, for any `i < n ≤ tree size`: the handler (request
    `Gen.reqGetEntryAndProof leaf_index tree_size`, guard, relay `Gen.relayEntryAndProof`) serves the
    `i`-th stored entry — its `LeafValue` as leaf_input, its `ExtraData` as extra_data — with an audit
    path that verifies against the root of the first `n` leaves. -/
theorem inclusion_at (b : Backend) (i n : Nat) (hi : i < n) (hn : n ≤ b.leaves.length) (h63 : n < 2 ^ 63)
    (hne : ∀ l ∈ b.leaves, l.value ≠ []) :
    ∃ l p, getEntryAndProof leafH nodeH emptyH b i n = some (l.value, l.extra, p) ∧ b.leaves[i]? = some l ∧
      verifyInclusion nodeH i n (leafH l.value) p (mth leafH nodeH emptyH (b.values.take n)) = true := by
  have hil : i < b.leaves.length := by omega
  have hl : b.leaves[i]? = some b.leaves[i] := List.getElem?_eq_getElem hil
  have hvl : (b.values.take n).length = n := by simp [Backend.values]; omega
  have hd : (b.values.take n)[i]? = some b.leaves[i].value := by
    rw [List.getElem?_take]; simp [hi, Backend.values, List.getElem?_map, hl]
  have hver := verifyInclusion_complete leafH nodeH emptyH (b.values.take n) i b.leaves[i].value hd
  rw [hvl] at hver
  refine ⟨b.leaves[i], path leafH nodeH emptyH i (b.values.take n), ?_, hl, hver⟩
  unfold getEntryAndProof handleEntryAndProof
  rw [Gen.parseGetEntryAndProofParams_eq_spec]
  unfold Spec.parseGetEntryAndProofParams
  have e1 : ¬ ((n : Int) ≤ 0) := by omega
  have e2 : ¬ ((i : Int) < 0) := by omega
  have e3 : ¬ ((i : Int) ≥ (n : Int)) := by omega
  have hq : Gen.reqGetEntryAndProof (i : Int) (n : Int) = ((i : Int), (n : Int)) := rfl
  have hr : ¬ (((n : Int) ≤ 0) ∨ ((i : Int) < 0) ∨ ((i : Int) ≥ (n : Int))) := by omega
  have hsz : ¬ b.leaves.length < n := by omega
  have hwrap : U64.wrap (n : Int) = (n : Int) := by unfold U64.wrap; omega
  have hguard : Gen.entryAndProofRootTooSmall (b.leaves.length : Int) (n : Int) = false := by
    simp only [Gen.entryAndProofRootTooSmall, hwrap, decide_eq_false_iff_not]; omega
  have hv : b.leaves[i].value.isEmpty = false := by
    have := hne b.leaves[i] (List.getElem_mem hil)
    cases hvv : b.leaves[i].value with
    | nil => exact absurd hvv this
    | cons _ _ => rfl
  have hpe : (decide ((n : Int) > 1) && (path leafH nodeH emptyH i (b.values.take n)).isEmpty) = false := by
    by_cases h1 : n ≤ 1
    · have : ¬ ((n : Int) > 1) := by omega
      simp [this]
    · have := path_ne_nil leafH nodeH emptyH i (b.values.take n) (by rw [hvl]; omega)
      cases hpp : path leafH nodeH emptyH i (b.values.take n) with
      | nil => exact absurd hpp this
      | cons _ _ => simp
  simp only [decide_eq_true_eq, e1, e2, e3, if_false, hq, Backend.rpcEntryAndProof, hr, Int.toNat_natCast, hsz, hguard,
    Bool.false_eq_true, hl, hv, hpe, Gen.relayEntryAndProof, or_self]

/-- **inclusion_ok.** For any state `b1` (whose tree head may have been served), any later state `b2`
    and any index `i < |b1|`: get-entry-and-proof for `(i, |b1|)` at `b2` serves the `i`-th entry of
    `b1` and an audit path that verifies against the root served at `b1`. -/
theorem inclusion_ok (b1 : Backend) (ops : List Op) (i : Nat) (hi : i < b1.leaves.length) (h63 : b1.leaves.length < 2 ^ 63)
    (hne : ∀ l ∈ (run b1 ops).leaves, l.value ≠ []) :
    ∃ l p, getEntryAndProof leafH nodeH emptyH (run b1 ops) i b1.leaves.length = some (l.value, l.extra, p) ∧
      b1.leaves[i]? = some l ∧
      verifyInclusion nodeH i b1.leaves.length (leafH l.value) p (b1.root leafH nodeH emptyH) = true := by
  obtain ⟨hv, hle⟩ := values_prefix b1 ops
  obtain ⟨l, p, h1, h2, h3⟩ := inclusion_at leafH nodeH emptyH (run b1 ops) i b1.leaves.length hi hle h63 hne
  rw [hv] at h3
  rw [leaves_prefix b1 ops i hi] at h2
  exact ⟨l, p, h1, h2, h3⟩

/-- **inclusion_ok (get-proof-by-hash).** The leaf hash of any entry of `b1` is found, at any later
    state, at the lowest index holding that hash (the handler relays the **first** proof of the reply,
    `Gen.relayProofByHash`; request `Gen.reqGetInclusionProofByHash hash tree_size`), with an audit
    path that verifies against the root served at `b1`. -/
theorem proofByHash_ok (b1 : Backend) (ops : List Op) (i : Nat) (l : Leaf) (hl : b1.leaves[i]? = some l)
    (h63 : b1.leaves.length < 2 ^ 63) :
    ∃ j p, getProofByHash leafH nodeH emptyH (run b1 ops) (leafH l.value) b1.leaves.length = some (j, p) ∧ j ≤ i ∧
      (∃ l', b1.leaves[j]? = some l' ∧ leafH l'.value = leafH l.value) ∧
      verifyInclusion nodeH j b1.leaves.length (leafH l.value) p (b1.root leafH nodeH emptyH) = true := by
  obtain ⟨hv, hle⟩ := values_prefix b1 ops
  have hi : i < b1.leaves.length := by
    rcases Nat.lt_or_ge i b1.leaves.length with h | h
    · exact h
    · simp [List.getElem?_eq_none h] at hl
  have hvl : b1.values.length = b1.leaves.length := by simp [Backend.values]
  have hvi : b1.values[i]? = some l.value := by simp [Backend.values, List.getElem?_map, hl]
  unfold getProofByHash handleProofByHash
  have e1 : ¬ ((b1.leaves.length : Int) < 1) := by omega
  have hq : Gen.reqGetInclusionProofByHash (leafH l.value) (b1.leaves.length : Int) = (leafH l.value, (b1.leaves.length : Int)) := rfl
  have hr : ¬ ((b1.leaves.length : Int) ≤ 0) := by omega
  have hsz : ¬ (run b1 ops).leaves.length < b1.leaves.length := by omega
  have hwrap : U64.wrap (b1.leaves.length : Int) = (b1.leaves.length : Int) := by unfold U64.wrap; omega
  have hguard : Gen.proofByHashRootTooSmall ((run b1 ops).leaves.length : Int) (b1.leaves.length : Int) = false := by
    simp only [Gen.proofByHashRootTooSmall, hwrap, decide_eq_false_iff_not]; omega
  simp only [Gen.proofByHashBadSize, Bool.false_or, decide_eq_true_eq, e1, if_false, hq, Backend.rpcProofByHash, hr,
    Int.toNat_natCast, hsz, hv]
  cases hf : b1.values.findIdx? (fun v => leafH v == leafH l.value) with
  | none =>
    rw [List.findIdx?_eq_none_iff] at hf
    have := hf l.value (List.mem_of_getElem? hvi)
    simp at this
  | some j =>
    rw [List.findIdx?_eq_some_iff_getElem] at hf
    obtain ⟨hj, hpj, hmin⟩ := hf
    have hji : j ≤ i := by
      rcases Nat.lt_or_ge i j with h | h
      · have := hmin i h
        have hvi' : b1.values[i] = l.value := by
          have := List.getElem?_eq_getElem (l := b1.values) (by omega : i < b1.values.length)
          rw [this] at hvi; exact Option.some.inj hvi
        rw [hvi'] at this; simp at this
      · exact h
    have hjl : j < b1.leaves.length := by omega
    simp only [List.map_cons, hguard, Bool.false_eq_true, if_false, Gen.relayProofByHash]
    refine ⟨j, _, rfl, hji, ⟨b1.leaves[j], List.getElem?_eq_getElem hjl, ?_⟩, ?_⟩
    · have : b1.values[j] = b1.leaves[j].value := by simp [Backend.values]
      rw [← this]; simpa using hpj
    · have hd : b1.values[j]? = some b1.values[j] := List.getElem?_eq_getElem hj
      have := verifyInclusion_complete leafH nodeH emptyH b1.values j b1.values[j] hd
      rw [hvl] at this
      have hh : leafH b1.values[j] = leafH l.value := by simpa using hpj
      rw [hh] at this
      exact this

/-- **get-entries serves the stored entries** of the requested range (the range arithmetic and the
    byte relay are C07's subject). -/
theorem entries_are_stored (b : Backend) (s e k : Nat) (hk : s + k ≤ e) :
    (getEntries b s e)[k]? = b.leaves[s + k]? := by
  unfold getEntries
  rw [List.getElem?_take, List.getElem?_drop]
  simp [show k < e + 1 - s by omega]

/-! ## sct_findable -/

/- FULL: … the leaf hash *a client computes from the certificate and the SCT alone*,
   `leafHash (Rfc.merkleTreeLeaf (entryOf cert sct.timestamp))`, equals the stored leaf's hash, and the
   stored entry *decodes* to the submitted certificate and chain.
   Proved here (`sct_findable_partial`): everything about the history — the leaf the SCT is built from
   is the stored one (also for duplicates), it is sequenced at exactly one index, get-proof-by-hash
   finds that index with a verifying path, and no other index carries the same leaf hash.
   Also proved: the `MerkleTreeLeaf` layer (`encLeaf`, written from RFC 6962 §3.4, used by the driver to
   build every leaf) is injective (`encLeaf_inj`), so the stored leaf decodes to exactly one (entry, timestamp).
   Missing: the decoding of `extra` to the chain and, for precertificates, the DER step
   certificate → (issuer key hash, TBS) need the wire/DER libraries (C04/C07/C03),
   which is not part of this worktree; both are checked bit for bit on every run by the harness
   (`ctutil.LeafHash` of the submitted chain + SCT vs the model's SHA-256 of the stored leaf;
   `client.GetEntries` at the found index vs the submitted certificate and chain). -/

/-- Distinct certificates give distinct leaves: leaf values of equal bytes carry the same identity
    hash. (True for X.509 entries, whose leaf embeds the certificate the identity hash is taken of; for
    precertificates it needs distinct TBS or timestamps — the identity hash covers the precertificate's
    signature, the leaf does not.) A hypothesis on what is submitted, never an axiom. -/
def ValuesIdentify (b : Backend) : Prop :=
  ∀ x ∈ b.all, ∀ y ∈ b.all, x.value = y.value → x.idHash = y.idHash

/-- **sct_findable (history part).** A certificate is submitted in any reachable state `b0`
    (fresh or duplicate); the SCT is built from the leaf `stored` the backend returns. In every later
    state in which that leaf has been sequenced: it sits at an index `i`; get-proof-by-hash with its
    leaf hash and the current tree size answers **that** index with an audit path that verifies
    against the current root; and `i` is the only index whose entry has that leaf hash — provided
    `leafH` has no collision among the stored values and distinct certificates give distinct leaves. -/
theorem sct_findable_partial (ts : Nat) (ops1 ops2 : List Op) (cand : Leaf) :
    let b0 := run (Backend.init ts) ops1
    let b1 := (b0.queue cand).1
    let stored := (b0.queue cand).2
    let b2 := run b1 ops2
    stored.idHash = cand.idHash ∧
    (stored ∈ b2.leaves → b2.leaves.length < 2 ^ 63 →
      (∀ x ∈ b2.all, ∀ y ∈ b2.all, leafH x.value = leafH y.value → x.value = y.value) →
      ValuesIdentify b2 →
      ∃ i p, b2.leaves[i]? = some stored ∧
        getProofByHash leafH nodeH emptyH b2 (leafH stored.value) b2.leaves.length = some (i, p) ∧
        verifyInclusion nodeH i b2.leaves.length (leafH stored.value) p (b2.root leafH nodeH emptyH) = true ∧
        ∀ j l', b2.leaves[j]? = some l' → leafH l'.value = leafH stored.value → j = i) := by
  intro b0 b1 stored b2
  have hid : stored.idHash = cand.idHash := by
    rcases all_queue b0 cand with ⟨_, _, h⟩ | ⟨_, h, _⟩
    · exact h
    · show (b0.queue cand).2.idHash = cand.idHash; rw [h]
  refine ⟨hid, ?_⟩
  intro hmem h63 hinj hvi
  have hnd : NodupIds b2 := by
    have h0 : NodupIds b0 := nodupIds_run ops1 _ (nodupIds_init ts)
    have h1 : NodupIds b1 := nodupIds_step b0 (.submit cand) h0
    exact nodupIds_run ops2 _ h1
  obtain ⟨i, hi⟩ := List.mem_iff_getElem?.mp hmem
  -- uniqueness of the index of a leaf hash
  have huniq : ∀ j l', b2.leaves[j]? = some l' → leafH l'.value = leafH stored.value → j = i := by
    intro j l' hj hh
    have hjm : l' ∈ b2.all := List.mem_append_left _ (List.mem_of_getElem? hj)
    have him : stored ∈ b2.all := List.mem_append_left _ hmem
    have hidh : l'.idHash = stored.idHash := hvi l' hjm stored him (hinj l' hjm stored him hh)
    have hjl : j < b2.leaves.length := by
      rcases Nat.lt_or_ge j b2.leaves.length with h | h
      · exact h
      · simp [List.getElem?_eq_none h] at hj
    have hil : i < b2.leaves.length := by
      rcases Nat.lt_or_ge i b2.leaves.length with h | h
      · exact h
      · simp [List.getElem?_eq_none h] at hi
    have a1 : (b2.all.map (·.idHash))[j]? = some stored.idHash := by
      simp only [Backend.all, List.getElem?_map]
      rw [List.getElem?_append_left hjl, hj]; simp [hidh]
    have a2 : (b2.all.map (·.idHash))[i]? = some stored.idHash := by
      simp only [Backend.all, List.getElem?_map]
      rw [List.getElem?_append_left hil, hi]; simp
    exact nodup_idx_unique _ j i _ hnd a1 a2
  obtain ⟨j, p, hp, hji, ⟨l', hl', hh⟩, hver⟩ := proofByHash_ok leafH nodeH emptyH b2 [] i stored hi h63
  simp only [run] at hp
  have hje : j = i := huniq j l' hl' hh
  subst hje
  exact ⟨j, p, hi, hp, hver, huniq⟩

/-! ## the leaf a client computes: `encLeaf` is injective, so the stored leaf decodes to the submitted entry -/

theorem beEnc_inj (w a b : Nat) (ha : a < 256 ^ w) (hb : b < 256 ^ w) (h : beEnc w a = beEnc w b) : a = b := by
  have := congrArg beDec h
  rwa [beDec_beEnc w a ha, beDec_beEnc w b hb] at this

/-- size limits of RFC 6962 §3.4: 64-bit timestamp, `opaque<1..2^24-1>` bodies, 32-byte key hash -/
def EntryWf : Entry → Prop
  | .x509 c => c.length < 2 ^ 24
  | .precert k t => k.length = 32 ∧ t.length < 2 ^ 24

/-- **The stored leaf decodes to exactly one (entry, timestamp).** The RFC 6962 `MerkleTreeLeaf`
    encoding is injective on well-formed entries: equal leaf bytes mean the same certificate (or the
    same issuer key hash and TBS) and the same timestamp. Hence the leaf hash a client computes from
    the certificate and the SCT timestamp alone is the hash of the stored leaf **iff** the stored
    leaf is the leaf of that certificate and timestamp (given no leaf-hash collision). -/
theorem encLeaf_inj (e e' : Entry) (ts ts' : Nat) (he : EntryWf e) (he' : EntryWf e') (hts : ts < 2 ^ 64) (hts' : ts' < 2 ^ 64)
    (h : encLeaf e ts = encLeaf e' ts') : e = e' ∧ ts = ts' := by
  unfold encLeaf at h
  simp only [List.append_assoc, List.cons_append, List.nil_append, List.cons.injEq, true_and] at h
  have h8 : (beEnc 8 ts).length = (beEnc 8 ts').length := by simp [beEnc_length]
  obtain ⟨h1, h2⟩ := List.append_inj h h8
  have hts_eq : ts = ts' := beEnc_inj 8 ts ts' (by simpa using hts) (by simpa using hts') h1
  refine ⟨?_, hts_eq⟩
  cases e with
  | x509 c =>
    cases e' with
    | x509 c' =>
      simp only [List.cons_append, List.cons.injEq, true_and, List.append_assoc] at h2
      have h3 : (beEnc 3 c.length).length = (beEnc 3 c'.length).length := by simp [beEnc_length]
      obtain ⟨_, h5⟩ := List.append_inj h2 h3
      have := List.append_cancel_right h5
      rw [this]
    | precert k' t' => simp at h2
  | precert k t =>
    cases e' with
    | x509 c' => simp at h2
    | precert k' t' =>
      simp only [List.cons_append, List.cons.injEq, true_and, List.append_assoc] at h2
      obtain ⟨hk, h4⟩ := List.append_inj h2 (by rw [he.1, he'.1])
      have h3 : (beEnc 3 t.length).length = (beEnc 3 t'.length).length := by simp [beEnc_length]
      obtain ⟨_, h5⟩ := List.append_inj h4 h3
      have := List.append_cancel_right h5
      rw [hk, this]

/-- `encLeaf` **is** the shared RFC 6962 wire library's `MerkleTreeLeaf` (`CTV/Rfc6962/Wire.lean`, the
    transcription of §3.4 that C04 relates to the repository's struct tags) for a v1 leaf without
    extensions — the C06 model has no private copy of the layout. -/
def toWire : Entry → Rfc.SignedEntry
  | .x509 c => .x509 c
  | .precert k t => .precert ⟨k, t⟩

theorem encLeaf_eq_wire (e : Entry) (ts : Nat) (hts : ts < 2 ^ 64)
    (he : match e with
      | .x509 c => 1 ≤ c.length ∧ c.length ≤ 16777215
      | .precert k t => k.length = 32 ∧ 1 ≤ t.length ∧ t.length ≤ 16777215) :
    Rfc.merkleTreeLeaf ⟨0, ⟨ts, toWire e, []⟩⟩ = some (encLeaf e ts) := by
  have h8 : ts < 256 ^ 8 := by simpa using hts
  cases e with
  | x509 c =>
    obtain ⟨h1, h2⟩ := he
    simp [Rfc.merkleTreeLeaf, Rfc.timestampedEntry, Rfc.signedEntry, Rfc.uintN, Rfc.asn1Cert, Rfc.varVector, Rfc.ctExtensions,
      Rfc.lenWidth, Rfc.SignedEntry.entryType, toWire, encLeaf, h8, h1, h2, beEnc, Option.bind]
  | precert k t =>
    obtain ⟨h0, h1, h2⟩ := he
    simp [Rfc.merkleTreeLeaf, Rfc.timestampedEntry, Rfc.signedEntry, Rfc.uintN, Rfc.preCert, Rfc.opaqueFixed, Rfc.varVector,
      Rfc.ctExtensions, Rfc.lenWidth, Rfc.SignedEntry.entryType, toWire, encLeaf, h8, h0, h1, h2, beEnc, Option.bind]

/-- For X.509 entries the hypothesis `ValuesIdentify` of `sct_findable_partial` holds outright when the
    identity hash is a function of the certificate (CTFE: SHA-256 of the leaf certificate's DER). -/
theorem valuesIdentify_x509 (b : Backend) (idOf : Bytes → Bytes)
    (hshape : ∀ x ∈ b.all, ∃ c ts, x.value = encLeaf (.x509 c) ts ∧ x.idHash = idOf c ∧ c.length < 2 ^ 24 ∧ ts < 2 ^ 64) :
    ValuesIdentify b := by
  intro x hx y hy hv
  obtain ⟨c, ts, hxv, hxi, hc, hts⟩ := hshape x hx
  obtain ⟨c', ts', hyv, hyi, hc', hts'⟩ := hshape y hy
  rw [hxv, hyv] at hv
  obtain ⟨he, _⟩ := encLeaf_inj (.x509 c) (.x509 c') ts ts' hc hc' hts hts' hv
  cases he
  rw [hxi, hyi]

example : encLeaf (.x509 [0x30, 0x00]) 1234 = [0,0, 0,0,0,0,0,0,4,210, 0,0, 0,0,2, 0x30,0x00, 0,0] := by decide

/-- **What holds without `ValuesIdentify`.** Once sequenced at index `i`, the client-computed hash of
    the stored leaf is found at the **lowest** index `j ≤ i` whose leaf *value* equals the stored one
    (no leaf-hash collision among stored values assumed), with a verifying path. Whether `j = i`, and
    whether the entry at `j` carries the submitted certificate in its `extra_data`, is exactly
    `ValuesIdentify` (see `same_tbs_counterexample`). -/
theorem sct_found_lowest (b : Backend) (i : Nat) (stored : Leaf) (hi : b.leaves[i]? = some stored) (h63 : b.leaves.length < 2 ^ 63)
    (hinj : ∀ x ∈ b.leaves, ∀ y ∈ b.leaves, leafH x.value = leafH y.value → x.value = y.value) :
    ∃ j p l', getProofByHash leafH nodeH emptyH b (leafH stored.value) b.leaves.length = some (j, p) ∧ j ≤ i ∧
      b.leaves[j]? = some l' ∧ l'.value = stored.value ∧
      verifyInclusion nodeH j b.leaves.length (leafH stored.value) p (b.root leafH nodeH emptyH) = true := by
  obtain ⟨j, p, hp, hji, ⟨l', hl', hh⟩, hver⟩ := proofByHash_ok leafH nodeH emptyH b [] i stored hi h63
  simp only [run] at hp
  exact ⟨j, p, l', hp, hji, hl', hinj l' (List.mem_of_getElem? hl') stored (List.mem_of_getElem? hi) hh, hver⟩

/-- **The reachable state that `ValuesIdentify` excludes** (finding C06-1): two submissions with
    different identity hashes (two precertificates that differ only in their signature bytes) but the
    same `MerkleTreeLeaf` bytes (same TBS, same issuer, same millisecond). Both are stored; the leaf
    hash of the second is found at the index of the first, whose `extra_data` is the *other*
    precertificate; two indices carry the hash. -/
theorem same_tbs_counterexample :
    let p1 : Leaf := ⟨[7], [1], [10]⟩
    let p2 : Leaf := ⟨[7], [2], [11]⟩
    let b := run (Backend.init 0) [.submit p1, .submit p2, .sequence 2 5]
    b.leaves = [p1, p2] ∧ ¬ ValuesIdentify b ∧
    (getProofByHash Ex0.h Ex0.n 0 b (Ex0.h p2.value) 2).map (·.1) = some 0 ∧
    (∃ p, getEntryAndProof Ex0.h Ex0.n 0 b 0 2 = some (p1.value, p1.extra, p)) := by
  intro p1 p2 b
  have hb : b.leaves = [p1, p2] := by decide
  refine ⟨hb, ?_, by decide, ?_⟩
  · intro h
    have := h p1 (by decide) p2 (by decide) rfl
    simp [p1, p2] at this
  · obtain ⟨l, p, h1, h2, _⟩ := inclusion_at Ex0.h Ex0.n 0 b 0 2 (by omega) (by rw [hb]; simp) (by omega)
      (by rw [hb]; intro l hl; simp [p1, p2] at hl; rcases hl with rfl | rfl <;> simp)
    rw [hb] at h2
    simp at h2
    subst h2
    exact ⟨p, h1⟩

/-- the leaf of an X.509 submission: `MerkleTreeLeaf` of the certificate at some timestamp, identity hash a function of the certificate -/
def ShapedX509 (idOf : Bytes → Bytes) (l : Leaf) : Prop :=
  ∃ c t, l.value = encLeaf (.x509 c) t ∧ l.idHash = idOf c ∧ c.length < 2 ^ 24 ∧ t < 2 ^ 64

/-- **sct_findable for X.509 histories — no hypothesis on the final state.** All submissions of the
    history are X.509-shaped (leaf = `encLeaf (.x509 cert) ts`, identity hash `idOf cert` with `idOf`
    injective — CTFE: SHA-256 of the certificate). A certificate `c` is submitted at time `t` (fresh or
    duplicate). Then the stored leaf the SCT is built from is the leaf **of that certificate** at some
    timestamp `t0` (the SCT's): the hash a client computes from `c` and `t0` alone,
    `leafH (encLeaf (.x509 c) t0)`, is the stored leaf's hash; once sequenced it is found at exactly
    one index with a verifying path. -/
theorem sct_findable_x509 (idOf : Bytes → Bytes) (hid : ∀ a b, idOf a = idOf b → a = b)
    (ts : Nat) (ops1 ops2 : List Op) (c : Bytes) (t : Nat) (extra : Bytes)
    (hc : c.length < 2 ^ 24) (ht : t < 2 ^ 64)
    (h1 : ∀ x, Op.submit x ∈ ops1 → ShapedX509 idOf x) (h2 : ∀ x, Op.submit x ∈ ops2 → ShapedX509 idOf x) :
    let cand : Leaf := ⟨encLeaf (.x509 c) t, extra, idOf c⟩
    let b0 := run (Backend.init ts) ops1
    let stored := (b0.queue cand).2
    let b2 := run (b0.queue cand).1 ops2
    ∃ t0, stored.value = encLeaf (.x509 c) t0 ∧ t0 < 2 ^ 64 ∧
      (stored ∈ b2.leaves → b2.leaves.length < 2 ^ 63 →
        (∀ x ∈ b2.all, ∀ y ∈ b2.all, leafH x.value = leafH y.value → x.value = y.value) →
        ∃ i p, b2.leaves[i]? = some stored ∧
          getProofByHash leafH nodeH emptyH b2 (leafH (encLeaf (.x509 c) t0)) b2.leaves.length = some (i, p) ∧
          verifyInclusion nodeH i b2.leaves.length (leafH (encLeaf (.x509 c) t0)) p (b2.root leafH nodeH emptyH) = true ∧
          ∀ j l', b2.leaves[j]? = some l' → leafH l'.value = leafH (encLeaf (.x509 c) t0) → j = i) := by
  intro cand b0 stored b2
  have hcand : ShapedX509 idOf cand := ⟨c, t, rfl, rfl, hc, ht⟩
  -- everything held is X.509-shaped
  have hb0 : ∀ x ∈ b0.all, ShapedX509 idOf x := by
    intro x hx
    rcases mem_all_run ops1 _ x hx with h | h
    · simp [Backend.all, Backend.init] at h
    · exact h1 x h
  have hb1 : ∀ x ∈ (b0.queue cand).1.all, ShapedX509 idOf x := by
    intro x hx
    rcases all_queue b0 cand with ⟨e, _, _⟩ | ⟨e, _, _⟩
    · rw [e] at hx; exact hb0 x hx
    · rw [e, List.mem_append, List.mem_singleton] at hx
      rcases hx with hx | hx
      · exact hb0 x hx
      · rw [hx]; exact hcand
  have hb2 : ∀ x ∈ b2.all, ShapedX509 idOf x := by
    intro x hx
    rcases mem_all_run ops2 _ x hx with h | h
    · exact hb1 x h
    · exact h2 x h
  -- the stored leaf is the leaf of the submitted certificate
  have hst : stored ∈ (b0.queue cand).1.all ∧ stored.idHash = idOf c := by
    rcases all_queue b0 cand with ⟨e, hm, hi⟩ | ⟨e, hs, _⟩
    · exact ⟨by rw [e]; exact hm, hi⟩
    · refine ⟨by rw [e]; show (b0.queue cand).2 ∈ _; rw [hs]; simp, ?_⟩
      show (b0.queue cand).2.idHash = _; rw [hs]
  obtain ⟨c', t0, hv, hi', _, ht0⟩ := hb1 stored hst.1
  have hcc : c' = c := hid c' c (by rw [← hi', hst.2])
  subst hcc
  refine ⟨t0, hv, ht0, ?_⟩
  intro hmem h63 hinj
  have hvi : ValuesIdentify b2 := valuesIdentify_x509 b2 idOf (by
    intro x hx
    obtain ⟨cx, tx, a, b, c1, d⟩ := hb2 x hx
    exact ⟨cx, tx, a, b, c1, d⟩)
  have := (sct_findable_partial leafH nodeH emptyH ts ops1 ops2 cand).2 hmem h63 hinj hvi
  rw [← hv]
  exact this


/-- A duplicate submission is answered from the stored leaf, so its SCT (built from `stored`) is the
    SCT of the original submission and nothing new is queued. -/
theorem duplicate_returns_stored (b : Backend) (cand old : Leaf) (h : b.find cand.idHash = some old) :
    b.queue cand = (b, old) := by
  unfold Backend.queue; rw [h]

end

/-! ## non-vacuity -/

namespace Ex
def h (v : Bytes) : Nat := v.foldl (fun a x => a * 256 + x.toNat) 1
def n (a b : Nat) : Nat := 1000 * a + b + 7
def c1 : Leaf := ⟨[1], [9], [1]⟩
def c2 : Leaf := ⟨[2], [9], [2]⟩
def c1' : Leaf := ⟨[3], [9], [1]⟩   -- same certificate (identity), later timestamp
def hist : List Op := [.submit c1, .submit c2, .sequence 1 5000000, .submit c1', .read, .sequence 5 7000000]
end Ex

/-- a history with a duplicate: the tree ends with two leaves, the duplicate is not stored again -/
example : (run (Backend.init 1) Ex.hist).leaves = [Ex.c1, Ex.c2] := by decide
/-- the duplicate is answered with the stored leaf -/
example : ((run (Backend.init 1) [.submit Ex.c1]).queue Ex.c1').2 = Ex.c1 := by decide
/-- `consistency_links` with the roots exchanged is false already for sizes 1 and 2 -/
example : verifyConsistency Ex.n 1 2 [Ex.h [2]] (Ex.n (Ex.h [1]) (Ex.h [2])) (Ex.h [1]) = false := by
  have h2 : split 2 = 1 := split_unique (a := 0) (by omega) (by omega)
  unfold verifyConsistency rootsFromConsProof
  rw [rootsFromCons]
  simp [h2]
  rw [rootsFromCons]
  simp [Ex.n, Ex.h]

/-! ### the theorems applied to concrete histories (their hypotheses are jointly satisfiable) -/

example := consistency_links Ex0.h Ex0.n 0 (Backend.init 0) Ex.hist [.read] (by decide)
example := inclusion_ok Ex0.h Ex0.n 0 (run (Backend.init 1) Ex.hist) [.read] 1 (by decide) (by decide)
  (by intro l hl; have : (run (run (Backend.init 1) Ex.hist) [.read]).leaves = [Ex.c1, Ex.c2] := by decide
      rw [this] at hl; simp at hl; rcases hl with rfl | rfl <;> simp [Ex.c1, Ex.c2])
example := sct_findable_x509 Ex0.h Ex0.n 0 id (fun _ _ h => h) 0
  [.submit ⟨encLeaf (.x509 [1]) 5, [], [1]⟩] [.sequence 5 9] [2] 7 [] (by decide) (by decide)
  (by intro x hx; simp at hx; subst hx; exact ⟨[1], 5, rfl, rfl, by decide, by decide⟩)
  (by intro x hx; simp at hx)
/-- the duplicate case of `sct_findable_partial`: the second submission of identity `[1]` is answered from the stored leaf -/
example := (sct_findable_partial Ex0.h Ex0.n 0 1 [.submit Ex.c1] [.sequence 1 5] Ex.c1').1

end C06
