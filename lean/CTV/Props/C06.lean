import CTV.Model.FrontEnd
namespace C06
theorem placeholder : True := trivial
end C06
