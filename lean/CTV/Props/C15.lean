import CTV.Model.Config
import CTV.Lemmas.Config
import Mathlib.Tactic.Tauto
/-!
# C15 — Configuration validation is total and the instance matches its configuration

Theorems over `CTV.Model.Config`, whose numeric / boolean comparisons, handler table, deletion
condition, STH-getter selection, mirror `maxTreeSize` argument and EKU table are **regenerated**
from trillian/ctfe/{config,handlers,sth,instance}.go on every run (`CTV.Gen.Config`).
Library decisions (key parsing, `Any.UnmarshalNew`, STH verification, DSN parsing, PEM loading,
signer creation) are oracle fields of the messages; every theorem quantifies over all of them.

"Never panics" is the totality of the model (all functions are total, none has a failure value other than
`Except.error`) together with the panic output class of the correspondence run; the model is the guarded code,
the unguarded places of the unchanged tree are findings (known_findings.d/C15.json).
-/
set_option linter.unusedSimpArgs false
set_option linter.unusedVariables false

namespace C15
open CTV CTV.Model.Config

/-! ## Well-formedness, clause by clause as the property lists them -/

/-- "a usable external-storage connection string": non-empty, `scheme://rest` with exactly one `://`, a scheme of
the validator's (regenerated) scheme switch, and a data source name that scheme's driver parses. -/
def Usable (c : LogConfig) : Prop :=
  c.conn ≠ [] ∧ ∃ scheme rest, splitOnce c.conn sepScheme = some (scheme, rest) ∧ hasInfix rest sepScheme = false ∧
    ((schemeParser scheme = some "mysql" ∧ c.dsnOk = true) ∨ (schemeParser scheme = some "pg" ∧ c.pgOk = true))

/-- the regenerated scheme switch is: `mysql` → MySQL DSN parser; `postgres`, `postgresql` → pgx parser; nothing else -/
theorem scheme_switch (scheme : Bytes) :
    (schemeParser scheme = some "mysql" ↔ scheme = mysqlBytes) ∧
    (schemeParser scheme = some "pg" ↔ (scheme = postgresBytes ∨ scheme = postgresqlBytes)) ∧
    (∀ p, schemeParser scheme = some p → p = "mysql" ∨ p = "pg") := by
  unfold schemeParser Gen.connSchemes
  simp only [List.lookup]
  by_cases h1 : scheme = mysqlBytes
  · subst h1; decide
  by_cases h2 : scheme = postgresBytes
  · subst h2; decide
  by_cases h3 : scheme = postgresqlBytes
  · subst h3; decide
  have e1 : (scheme == [109, 121, 115, 113, 108]) = false := by simpa [mysqlBytes] using h1
  have e2 : (scheme == [112, 111, 115, 116, 103, 114, 101, 115]) = false := by simpa [postgresBytes] using h2
  have e3 : (scheme == [112, 111, 115, 116, 103, 114, 101, 115, 113, 108]) = false := by
    simpa [postgresqlBytes, postgresBytes] using h3
  simp [e1, e2, e3, h1, h2, h3]

/-- The property's notion of a well-formed single log configuration. -/
structure WellFormed (c : LogConfig) : Prop where
  /-- (required by the code, not listed in the property text) the tree id is set -/
  logId : c.logId ≠ 0
  /-- keys present and parseable as the log kind requires: a public key, when present, parses -/
  pubParses : c.pub ≠ .bad
  /-- mirror: public key only -/
  mirrorKeys : c.isMirror = true → c.pub = .good ∧ c.priv = .absent
  /-- log: a private key that unmarshals -/
  logKey : c.isMirror = false → c.priv = .good
  /-- frozen STH: needs the public key … -/
  frozenNeedsPub : c.frozen.isSome = true → c.pub = .good
  /-- … and verifies under it -/
  frozenVerifies : ∀ f, c.frozen = some f → f.verifier = true ∧ f.shape = true ∧ f.sig = true
  /-- NotAfter window: both bounds valid timestamps … -/
  startValid : ∀ s, c.start = some s → s.valid = true
  limitValid : ∀ l, c.limit = some l → l.valid = true
  /-- … and ordered -/
  windowOrdered : ∀ s l, c.start = some s → c.limit = some l → s.ns ≤ l.ns
  /-- merge delays non-negative and ordered -/
  mergeDelays : 0 ≤ c.emd ∧ c.emd ≤ c.mmd
  /-- not rejecting every certificate -/
  notRejectAll : ¬ (c.rejectExpired = true ∧ c.rejectUnexpired = true)
  /-- only known EKU names (keys of the regenerated `stringToKeyUsage` table) -/
  ekusKnown : ∀ n ∈ c.ekus, n ∈ Gen.ekuTable.map Prod.fst
  /-- a usable external-storage connection string when that backend is selected -/
  connUsable : c.storage = Gen.storageBackendCtfe → Usable c

/-- in a usable connection string the scheme and the data source name are what `strings.Split(conn, "://")` yields:
`conn = scheme ++ "://" ++ rest` with no further `://` in `rest` -/
theorem usable_shape (c : LogConfig) (h : Usable c) :
    ∃ scheme rest, c.conn = scheme ++ sepScheme ++ rest ∧ hasInfix rest sepScheme = false ∧
      (scheme = mysqlBytes ∨ scheme = postgresBytes ∨ scheme = postgresqlBytes) := by
  obtain ⟨_, scheme, rest, hs, hi, hk⟩ := h
  refine ⟨scheme, rest, splitOnce_sound _ _ _ _ hs, hi, ?_⟩
  rcases hk with ⟨h, _⟩ | ⟨h, _⟩
  · exact Or.inl ((scheme_switch scheme).1.mp h)
  · exact Or.inr ((scheme_switch scheme).2.1.mp h)

theorem connOk_iff (c : LogConfig) : connOk c = .ok () ↔ Usable c := by
  unfold connOk Usable Gen.cfgConnMissing Gen.cfgConnPartsBad connParts
  by_cases h0 : c.conn = []
  · simp [h0]
  · have hl : ¬ ((c.conn.length : Int) = 0) := by
      intro h; apply h0; exact List.length_eq_zero_iff.mp (by omega)
    simp only [hl, decide_false, Bool.false_eq_true, if_false, ne_eq, h0, not_false_eq_true, true_and]
    cases hs : splitOnce c.conn sepScheme with
    | none => simp
    | some p =>
      obtain ⟨scheme, rest⟩ := p
      simp only [Option.some.injEq, Prod.mk.injEq]
      by_cases hi : hasInfix rest sepScheme = true
      · simp only [hi, if_true]
        constructor
        · intro h; simp at h
        · rintro ⟨s, r, ⟨rfl, rfl⟩, h, _⟩; simp [hi] at h
      · have hi' : hasInfix rest sepScheme = false := by simpa using hi
        simp only [hi', Bool.false_eq_true, if_false]
        have hdec : ¬ (decide ((2 : Int) ≠ 2) = true) := by decide
        have h22 : (decide (((2 : Nat) : Int) ≠ 2)) = false := by decide
        simp only [h22, Bool.false_eq_true, if_false]
        cases hp : schemeParser scheme with
        | none =>
          simp only []
          constructor
          · intro h; cases h
          · rintro ⟨s, r, ⟨rfl, rfl⟩, _, h⟩; rcases h with ⟨h, _⟩ | ⟨h, _⟩ <;> simp [hp] at h
        | some pr =>
          rcases (scheme_switch scheme).2.2 pr hp with rfl | rfl
          · simp only []
            cases hd : c.dsnOk
            · simp only [Bool.false_eq_true, if_false]
              constructor
              · intro h; cases h
              · rintro ⟨s, r, ⟨rfl, rfl⟩, _, h⟩
                rcases h with ⟨_, h⟩ | ⟨h, _⟩
                · cases h
                · rw [hp] at h; simp at h
            · simp only [if_true]
              exact ⟨fun _ => ⟨_, _, ⟨rfl, rfl⟩, hi', Or.inl ⟨hp, trivial⟩⟩, fun _ => trivial⟩
          · simp only []
            cases hg : c.pgOk
            · simp only [Bool.false_eq_true, if_false]
              constructor
              · intro h; cases h
              · rintro ⟨s, r, ⟨rfl, rfl⟩, _, h⟩
                rcases h with ⟨h, _⟩ | ⟨_, h⟩
                · rw [hp] at h; simp at h
                · cases h
            · simp only [if_true]
              exact ⟨fun _ => ⟨_, _, ⟨rfl, rfl⟩, hi', Or.inr ⟨hp, trivial⟩⟩, fun _ => trivial⟩

/-- **validate_iff_wellformed.** `ValidateLogConfig` accepts a configuration exactly when it is well-formed,
for every message and every outcome of the library oracles. -/
theorem validate_iff_wellformed (c : LogConfig) : validate c = .ok () ↔ WellFormed c := by
  unfold validate
  constructor
  · intro h
    cases hf : firstErr (rejections c) with
    | error e => simp [hf] at h
    | ok u =>
      simp only [hf] at h
      have hall := (firstErr_ok _).mp hf
      simp only [rejections, List.mem_cons, List.mem_nil_iff, or_false, forall_eq_or_imp, forall_eq] at hall
      obtain ⟨h1, h2, h3, h4, h5, h6, h7, h8, h9, h10, h11, h12, h13, h14, h15, h16⟩ := hall
      simp only [Gen.cfgEmptyLogId, Gen.cfgRejectsAll, Gen.cfgLimitBeforeStart, Gen.cfgMergeDelayBad] at h1 h8 h12 h13
      refine ⟨?_, ?_, ?_, ?_, ?_, ?_, ?_, ?_, ?_, ?_, ?_, ?_, ?_⟩
      · simpa using h1
      · intro hb; simp [hb] at h2
      · intro hm
        cases hp : c.pub <;> cases hq : c.priv <;> simp [hm, hp, hq] at h2 h3 h7 ⊢
      · intro hm
        cases hq : c.priv <;> simp [hm, hq] at h5 h6 ⊢
      · intro hz
        cases hp : c.pub <;> cases hm : c.isMirror <;> simp [hp, hm, hz] at h2 h3 h4 ⊢
      · intro f hfz
        simp [hfz] at h14 h15 h16
        exact ⟨h14, h15, h16⟩
      · intro s hs; simpa [hs, tsOk] using h10
      · intro l hl; simpa [hl, tsOk] using h11
      · intro s l hs hl
        simp [hs, hl, nsOf] at h12
        omega
      · simp at h13; omega
      · intro ⟨ha, hb⟩; simp [ha, hb] at h8
      · intro n hn
        have : ekuKnown n = true := by
          have := h9; simp [ekusOk] at this; exact this n hn
        exact (ekuKnown_iff n).mp this
      · intro hst
        simp only [hst, if_true] at h
        exact (connOk_iff c).mp h
  · intro w
    have hf : firstErr (rejections c) = .ok () := by
      rw [firstErr_ok]
      simp only [rejections, List.mem_cons, List.mem_nil_iff, or_false, forall_eq_or_imp, forall_eq]
      simp only [Gen.cfgEmptyLogId, Gen.cfgRejectsAll, Gen.cfgLimitBeforeStart, Gen.cfgMergeDelayBad]
      refine ⟨?_, ?_, ?_, ?_, ?_, ?_, ?_, ?_, ?_, ?_, ?_, ?_, ?_, ?_, ?_, ?_⟩
      · simpa using w.logId
      · have := w.pubParses; cases hp : c.pub <;> simp_all
      · cases hm : c.isMirror
        · simp
        · have := (w.mirrorKeys hm).1; simp [this]
      · cases hz : c.frozen.isSome
        · simp
        · have := w.frozenNeedsPub hz; simp [this]
      · cases hm : c.isMirror
        · have := w.logKey hm; simp [this]
        · simp
      · cases hm : c.isMirror
        · have := w.logKey hm; simp [this]
        · simp
      · cases hm : c.isMirror
        · simp
        · have := (w.mirrorKeys hm).2; simp [this]
      · have := w.notRejectAll
        cases ha : c.rejectExpired <;> cases hb : c.rejectUnexpired <;> simp_all
      · have : ekusOk c.ekus = true := by
          simp only [ekusOk, List.all_eq_true]
          intro n hn; exact (ekuKnown_iff n).mpr (w.ekusKnown n hn)
        simp [this]
      · cases hs : c.start with
        | none => simp [tsOk]
        | some s => simp [tsOk, w.startValid s hs]
      · cases hl : c.limit with
        | none => simp [tsOk]
        | some l => simp [tsOk, w.limitValid l hl]
      · cases hs : c.start with
        | none => simp
        | some s =>
          cases hl : c.limit with
          | none => simp
          | some l =>
            have := w.windowOrdered s l hs hl
            have e1 : nsOf (some s) = s.ns := rfl
            have e2 : nsOf (some l) = l.ns := rfl
            simp
            omega
      · have := w.mergeDelays
        simp; omega
      · cases hz : c.frozen with
        | none => simp
        | some f => simp [(w.frozenVerifies f hz).1]
      · cases hz : c.frozen with
        | none => simp
        | some f => simp [(w.frozenVerifies f hz).2.1]
      · cases hz : c.frozen with
        | none => simp
        | some f => simp [(w.frozenVerifies f hz).2.2]
    simp only [hf]
    by_cases hst : c.storage = Gen.storageBackendCtfe
    · simp only [hst, if_true]; exact (connOk_iff c).mpr (w.connUsable hst)
    · simp [hst]

/-! ### Non-vacuity: concrete configurations on both sides of the theorem -/

/-- a plain log: private key, nothing else -/
def exLog : LogConfig :=
  { logId := 1, pfx := [108, 111, 103], pub := .absent, priv := .good, isMirror := false, isReadonly := false,
    rejectExpired := false, rejectUnexpired := true, ekus := ["ServerAuth", "Any"], start := some ⟨1600000000, 0⟩,
    limit := some ⟨1600000000, 1⟩, mmd := 86400, emd := 120, frozen := none, storage := 0, conn := [],
    dsnOk := false, pgOk := false, backend := [97] }
/-- a frozen mirror -/
def exFrozenMirror : LogConfig :=
  { exLog with pub := .good, priv := .absent, isMirror := true, frozen := some ⟨true, true, true, ⟨766, 1538659276115, [1, 2], [4, 3]⟩⟩ }
/-- external chain storage with `mysql://x` -/
def exCtfe : LogConfig :=
  { exLog with storage := 1, conn := [109, 121, 115, 113, 108, 58, 47, 47, 120], dsnOk := true }

example : validate exLog = .ok () := by decide
example : WellFormed exLog := (validate_iff_wellformed _).mp (by decide)
example : WellFormed exFrozenMirror := (validate_iff_wellformed _).mp (by decide)
example : WellFormed exCtfe := (validate_iff_wellformed _).mp (by decide)
example : Usable exCtfe := (connOk_iff _).mp (by decide)
/-- `mysqlfoo` (the F9 input): rejected, not a panic -/
example : validate { exCtfe with conn := [109, 121, 115, 113, 108, 102, 111, 111] } = .error .connDriver := by decide
/-- `mysqlx://x`: not usable -/
example : ¬ WellFormed { exCtfe with conn := [109, 121, 115, 113, 108, 120, 58, 47, 47, 120] } :=
  fun w => absurd ((validate_iff_wellformed _).mpr w) (by decide)
/-- an unknown EKU name after `Any` -/
example : validate { exLog with ekus := ["Any", "Bogus"] } = .error .eku := by decide
example : validate { exLog with limit := some ⟨1599999999, 999999999⟩ } = .error .window := by decide
example : validate { exLog with emd := 86401 } = .error .mergeDelay := by decide
example : validate { exLog with rejectExpired := true } = .error .rejectAll := by decide
example : validate { exFrozenMirror with priv := .good } = .error .mirrorPriv := by decide
example : validate { exFrozenMirror with frozen := some ⟨true, true, false, ⟨766, 0, [], []⟩⟩ } = .error .sthSig := by decide
example : validate { exLog with start := some ⟨0, 1000000000⟩ } = .error .startTs := by decide

/-! ## Configuration sets -/

/-- **ValidateLogConfigs**: every log well-formed, prefixes non-empty and unique, tree ids unique. -/
theorem configs_iff (l : List LogConfig) :
    validateLogConfigs l = .ok () ↔
      (∀ c ∈ l, WellFormed c ∧ c.pfx ≠ []) ∧ (l.map (·.pfx)).Nodup ∧ (l.map (·.logId)).Nodup := by
  unfold validateLogConfigs validateConfigs
  cases hv : validateConfigsAux [] l with
  | error e =>
    simp only []
    constructor
    · intro h; cases h
    · rintro ⟨h1, h2, _⟩
      have : validateConfigsAux [] l = .ok () := by
        rw [validateConfigsAux_ok]
        exact ⟨fun c hc => ⟨(validate_iff_wellformed c).mpr (h1 c hc).1, (h1 c hc).2⟩, h2, fun _ _ => List.not_mem_nil⟩
      rw [hv] at this; cases this
  | ok u =>
    cases u
    obtain ⟨h1, h2, _⟩ := (validateConfigsAux_ok [] l).mp hv
    have h1' : ∀ c ∈ l, WellFormed c ∧ c.pfx ≠ [] := fun c hc => ⟨(validate_iff_wellformed c).mp (h1 c hc).1, (h1 c hc).2⟩
    by_cases hd : dupFree [] (l.map (·.logId)) = true
    · simp only [hd, if_true, true_iff]
      exact ⟨h1', h2, ((dupFree_iff _ _).mp hd).1⟩
    · simp only [hd, Bool.false_eq_true, if_false]
      constructor
      · intro h; cases h
      · rintro ⟨_, _, h3⟩
        exact absurd ((dupFree_iff _ _).mpr ⟨h3, fun _ _ => List.not_mem_nil⟩) hd

/-- the backend-set clause: uniquely named backends with unique non-empty specifications -/
def BackendsOk (bs : List Backend) : Prop :=
  (∀ b ∈ bs, b.name ≠ [] ∧ b.spec ≠ []) ∧ (bs.map (·.name)).Nodup ∧ (bs.map (·.spec)).Nodup

/-- **BuildLogBackendMap** succeeds exactly on such sets, and returns exactly their names. -/
theorem backendMap_iff (bs : List Backend) (r : List Bytes) :
    buildBackendMap bs = .ok r ↔ BackendsOk bs ∧ r = bs.map (·.name) := by
  unfold buildBackendMap BackendsOk
  rw [buildBackendMapAux_ok]
  simp only [List.not_mem_nil, not_false_eq_true, implies_true, and_true, true_and, List.reverse_nil, List.nil_append]
  constructor
  · rintro ⟨⟨h1, h2⟩, h3, h4⟩; exact ⟨⟨h1, h2, h3⟩, h4⟩
  · rintro ⟨⟨h1, h2, h3⟩, h4⟩; exact ⟨⟨h1, h2⟩, h3, h4⟩

/-- **multi_iff.** `ValidateLogMultiConfig` accepts exactly when the backends are uniquely named with unique
non-empty specifications, every log is well-formed with a non-empty unique prefix, every log refers to one of the
backends, and tree ids are unique per backend; the returned map then has exactly the backends' names as keys. -/
theorem multi_iff (bs : List Backend) (l : List LogConfig) (r : List Bytes) :
    validateMulti bs l = .ok r ↔
      BackendsOk bs ∧
      (∀ c ∈ l, WellFormed c ∧ c.pfx ≠ []) ∧ (l.map (·.pfx)).Nodup ∧
      (∀ c ∈ l, c.backend ∈ bs.map (·.name)) ∧
      (l.map fun c => (c.backend, c.logId)).Nodup ∧
      r = bs.map (·.name) := by
  unfold validateMulti
  cases hb : buildBackendMap bs with
  | error e =>
    simp only []
    constructor
    · intro h; cases h
    · rintro ⟨h, _⟩
      have := (backendMap_iff bs _).mpr ⟨h, rfl⟩
      rw [hb] at this; cases this
  | ok names =>
    obtain ⟨hbo, rfl⟩ := (backendMap_iff bs names).mp hb
    simp only []
    unfold validateConfigs
    cases hv : validateConfigsAux [] l with
    | error e =>
      simp only []
      constructor
      · intro h; cases h
      · rintro ⟨_, h1, h2, _⟩
        have : validateConfigsAux [] l = .ok () := by
          rw [validateConfigsAux_ok]
          exact ⟨fun c hc => ⟨(validate_iff_wellformed c).mpr (h1 c hc).1, (h1 c hc).2⟩, h2, fun _ _ => List.not_mem_nil⟩
        rw [hv] at this; cases this
    | ok u =>
      cases u
      obtain ⟨h1, h2, _⟩ := (validateConfigsAux_ok [] l).mp hv
      have h1' : ∀ c ∈ l, WellFormed c ∧ c.pfx ≠ [] := fun c hc => ⟨(validate_iff_wellformed c).mp (h1 c hc).1, (h1 c hc).2⟩
      simp only []
      cases hr : refsAux (bs.map (·.name)) [] l with
      | error e =>
        simp only []
        constructor
        · intro h; cases h
        · rintro ⟨_, _, _, h3, h4, _⟩
          have := (refsAux_ok (bs.map (·.name)) [] l).mpr ⟨h3, h4, fun _ _ => List.not_mem_nil⟩
          rw [hr] at this; cases this
      | ok u =>
        cases u
        obtain ⟨h3, h4, _⟩ := (refsAux_ok _ [] l).mp hr
        simp only [Except.ok.injEq]
        constructor
        · intro h; exact ⟨hbo, h1', h2, h3, h4, h.symm⟩
        · rintro ⟨_, _, _, _, _, h⟩; exact h.symm

example : validateLogConfigs [exLog, { exFrozenMirror with pfx := [109], logId := 2 }] = .ok () := by decide
example : validateLogConfigs [exLog, { exFrozenMirror with logId := 2 }] = .error .dupPrefix := by decide
example : validateLogConfigs [exLog, { exFrozenMirror with pfx := [109] }] = .error .dupTree := by decide
/-- the same tree id under two backends is fine for a multi-backend configuration -/
example : validateMulti [⟨[97], [115]⟩, ⟨[98], [116]⟩] [exLog, { exFrozenMirror with pfx := [109], backend := [98] }] = .ok [[97], [98]] := by decide
example : validateMulti [⟨[97], [115]⟩] [exLog, { exFrozenMirror with pfx := [109], backend := [98] }] = .error .undefinedBackend := by decide
/-- the empty multi-configuration (what an empty file parses to; F9 input) is accepted, with an empty map -/
example : validateMulti [] [] = .ok [] := by decide
example : buildBackendMap [⟨[97], [115]⟩, ⟨[98], [115]⟩] = .error .dupBackendSpec := by decide

/-- The unchanged code's tree-id key `fmt.Sprintf("%s-%d", backend, id)` is not injective (finding): two
different (backend, tree id) pairs with one key. `multi_iff` is stated for the pair key. -/
example : sprintfKey [97] (-5) = sprintfKey [97, 45] 5 ∧ (([97], (-5 : Int)) ≠ ([97, 45], (5 : Int))) := by decide

/-! ## The instance matches its configuration -/

/-- **handlers_iff.** The two submission endpoints are exposed iff the log is neither a mirror nor read-only
(regenerated handler table, regenerated deletion condition and deleted keys). -/
theorem handlers_iff (c : LogConfig) :
    ("/ct/v1/add-chain" ∈ endpoints c ∧ "/ct/v1/add-pre-chain" ∈ endpoints c) ↔ (c.isMirror = false ∧ c.isReadonly = false) := by
  unfold endpoints
  cases c.isMirror <;> cases c.isReadonly <;> decide

/-- never just one of the two -/
theorem handlers_both_or_none (c : LogConfig) :
    "/ct/v1/add-chain" ∈ endpoints c ↔ "/ct/v1/add-pre-chain" ∈ endpoints c := by
  unfold endpoints
  cases c.isMirror <;> cases c.isReadonly <;> decide

/-- the six read endpoints are always there, and nothing else ever is -/
theorem read_endpoints_always (c : LogConfig) :
    ∀ p, p ∈ endpoints c ↔
      (p ∈ ["/ct/v1/get-sth", "/ct/v1/get-sth-consistency", "/ct/v1/get-proof-by-hash", "/ct/v1/get-entries",
            "/ct/v1/get-roots", "/ct/v1/get-entry-and-proof"] ∨
       ((p = "/ct/v1/add-chain" ∨ p = "/ct/v1/add-pre-chain") ∧ c.isMirror = false ∧ c.isReadonly = false)) := by
  intro p
  unfold endpoints
  cases c.isMirror <;> cases c.isReadonly <;>
    simp [Gen.handlerPathsFor, List.filter] <;> tauto

/-- **prefix normalisation** of `Handlers` (`"/" + prefix` unless it already starts with `/`, then `strings.TrimRight(prefix, "/")`):
the result never ends in `/`, starts with `/` unless it is empty, and is the (slash-prefixed) prefix minus trailing
slashes only — so every handler key is `normalised prefix ++ endpoint path`. -/
theorem normPrefix_spec (p : Bytes) :
    (normPrefix p).getLast? ≠ some slash ∧
    (normPrefix p ≠ [] → (normPrefix p).head? = some slash) ∧
    ∃ t, (if hasPrefix p [slash] then p else slash :: p) = normPrefix p ++ t ∧ ∀ x ∈ t, x = slash := by
  unfold normPrefix
  obtain ⟨h1, t, ht, hall⟩ := trimRightByte_spec slash (if hasPrefix p [slash] then p else slash :: p)
  refine ⟨h1, ?_, t, ht, hall⟩
  intro hne
  have hq : (if hasPrefix p [slash] then p else slash :: p).head? = some slash := by
    by_cases hp : hasPrefix p [slash] = true
    · simp only [hp, if_true]
      have := hasPrefix_sound p [slash] hp
      rw [this]; rfl
    · simp [hp]
  rw [ht] at hq
  cases hr : trimRightByte slash (if hasPrefix p [slash] then p else slash :: p) with
  | nil => exact absurd hr hne
  | cons a r => rw [hr] at hq; simpa using hq

theorem handler_keys (c : LogConfig) : handlersOf c = (endpoints c).map fun e => normPrefix c.pfx ++ str e := rfl

/-- what `SetUpInstance` returns is determined by the configuration: handler set, getter kind, frozen STH, and whether
chains go to external storage — for both storage backends -/
theorem setUp_matches (c : LogConfig) (o : SetupOracle) (inst : Instance) (h : setUp c o = some inst) :
    inst.paths = endpoints c ∧ inst.keys = handlersOf c ∧
    inst.getter = Gen.sthGetterSelect c.frozen.isSome c.isMirror ∧
    (∀ f, c.frozen = some f → inst.frozen = f.sth) ∧
    (inst.external = true ↔ c.storage = Gen.storageBackendCtfe) := by
  unfold setUp at h
  repeat (split at h; · cases h)
  simp only at h
  have hne : Gen.storageBackendTrillian ≠ Gen.storageBackendCtfe := by decide
  split at h
  · rename_i ht
    cases h
    refine ⟨rfl, rfl, rfl, ?_, ?_⟩
    · intro f hf; simp [hf]
    · simp only [Bool.false_eq_true, false_iff]; rw [ht]; exact hne
  · split at h
    · rename_i hc
      split at h
      · cases h
        refine ⟨rfl, rfl, rfl, ?_, ?_⟩
        · intro f hf; simp [hf]
        · simp [hc]
      · cases h
    · cases h

/-- a log that is not a mirror cannot be set up without roots; nothing is set up when a file, the signer, the key
consistency check or the OID list fails; external storage needs its database handle and its cache -/
theorem setUp_requires (c : LogConfig) (o : SetupOracle) (inst : Instance) (h : setUp c o = some inst) :
    (c.isMirror = false → o.nRoots ≠ 0 ∧ o.signerOk = true ∧ (c.pub = .good → o.pubConsistent = true)) ∧
    o.rootsLoad = true ∧ o.oidsOk = true ∧
    (c.storage = Gen.storageBackendTrillian ∨ (c.storage = Gen.storageBackendCtfe ∧ o.dbOpens = true ∧ o.cacheOk = true)) := by
  unfold setUp at h
  repeat (split at h; · cases h)
  rename_i h1 h2 h3 h4 h5
  simp only [Gen.setupNeedsRoots, Bool.and_eq_true, Bool.not_eq_true', decide_eq_true_eq, not_and, Bool.not_eq_false] at h1 h2 h3 h4 h5
  refine ⟨fun hm => ⟨?_, ?_, ?_⟩, ?_, ?_, ?_⟩
  · intro hz; exact h1 hm (by simp [hz])
  · cases hs : o.signerOk
    · exact absurd hs (by simpa using h3 hm)
    · rfl
  · intro hp
    cases hc : o.pubConsistent
    · have := h4; simp [hm, hp, hc] at this
    · rfl
  · cases hr : o.rootsLoad
    · simp [hr] at h2
    · rfl
  · cases ho : o.oidsOk
    · simp [ho] at h5
    · rfl
  · simp only at h
    split at h
    · rename_i ht; exact Or.inl ht
    · split at h
      · rename_i hc
        split at h
        · rename_i hb
          simp only [Bool.and_eq_true] at hb
          exact Or.inr ⟨hc, hb.1, hb.2⟩
        · cases h
      · cases h

/-- **frozen_only_frozen.** An instance built from a configuration with a frozen STH serves exactly that STH — size,
timestamp, root hash and signature bytes — whatever the backend, the mirror storage or the signer do, for both
storage backends. -/
theorem frozen_only_frozen (c : LogConfig) (o : SetupOracle) (inst : Instance) (f : FrozenOracle)
    (hf : c.frozen = some f) (h : setUp c o = some inst)
    (backend : Option Sth) (storage : Int → Option Sth) (sign : Option Bytes) :
    serveSth inst backend storage sign = some f.sth := by
  obtain ⟨_, _, hg, hz, _⟩ := setUp_matches c o inst h
  have : inst.getter = 0 := by rw [hg]; simp [hf, Gen.sthGetterSelect]
  unfold serveSth
  rw [this, hz f hf]
  try rfl

/-- **mirror_le_backend.** A (non-frozen) mirror never serves an STH larger than its backend tree, and serves
none without a backend root — provided the STH storage honours `GetMirrorSTH`'s contract
(`TreeSize ≤ maxTreeSize`). Holds for every uint64 tree size, including those ≥ 2^63 where the code's
`int64(currentRoot.TreeSize)` wraps negative; what is served is the storage's STH unchanged. -/
theorem mirror_le_backend (c : LogConfig) (o : SetupOracle) (inst : Instance)
    (hm : c.isMirror = true) (hz : c.frozen = none) (h : setUp c o = some inst)
    (storage : Int → Option Sth) (contract : ∀ m s, storage m = some s → (s.size : Int) ≤ m) (sign : Option Bytes) :
    serveSth inst none storage sign = none ∧
    ∀ b s, serveSth inst (some b) storage sign = some s → s.size ≤ b.size ∧ ∃ m, storage m = some s := by
  obtain ⟨_, _, hg, _, _⟩ := setUp_matches c o inst h
  have hg1 : inst.getter = 1 := by rw [hg]; simp [hz, hm, Gen.sthGetterSelect]
  unfold serveSth
  rw [hg1]
  refine ⟨rfl, ?_⟩
  intro b s hs
  simp only at hs
  have h1 := contract _ _ hs
  have h2 : Gen.mirrorMaxTreeSize (b.size : Int) ≤ b.size := by
    unfold Gen.mirrorMaxTreeSize
    first
      | exact wrap64_le_self _ (by omega)
      | omega
  exact ⟨by omega, _, hs⟩

/- FULL ("a mirror never serves an STH larger than its backend tree"): the statement above without `hz` and without
   `contract`. Two declared gaps. (1) A *frozen mirror* serves its frozen STH whatever the backend holds — the two
   sentences of the property meet; `Gen.sthGetterSelect` tests the frozen STH first (example below). (2)
   `MirrorSTHGetter.GetSTH` has no check of its own (sth.go carries two TODOs): the bound rests on the pluggable
   `MirrorSTHStorage` honouring `GetMirrorSTH(ctx, maxTreeSize)`; with a storage that does not, the mirror serves
   whatever it returns (the harness's `o<k>` storage shows it). -/

example : (setUp exLog ⟨1, true, true, true, true, true, true⟩).map (fun i => (i.paths, i.getter)) = some (endpoints exLog, 2) := by decide
example : "/ct/v1/add-chain" ∈ endpoints exLog ∧ "/ct/v1/add-chain" ∉ endpoints exFrozenMirror := by decide
example : (setUp exFrozenMirror ⟨0, true, false, false, true, true, true⟩).map (·.getter) = some 0 := by decide
example : (setUp { exFrozenMirror with frozen := none } ⟨0, true, false, false, true, true, true⟩).map (·.getter) = some 1 := by decide
example : setUp exLog ⟨0, true, true, true, true, true, true⟩ = none := by decide
/-- an external-storage configuration is set up too (database handle and cache permitting), with the same handlers -/
example : (setUp exCtfe ⟨1, true, true, true, true, true, true⟩).map (fun i => (i.paths, i.external)) = some (endpoints exCtfe, true) ∧
    setUp exCtfe ⟨1, true, true, true, true, true, false⟩ = none ∧
    setUp { exCtfe with storage := 7 } ⟨1, true, true, true, true, true, true⟩ = none := by decide
/-- the frozen STH is served field for field -/
example : (setUp exFrozenMirror ⟨0, true, false, false, true, true, true⟩).bind (fun i => serveSth i none (fun _ => none) none) =
    some ⟨766, 1538659276115, [1, 2], [4, 3]⟩ := by decide
/-- the contract hypothesis of `mirror_le_backend` is satisfiable: an honest storage knowing sizes up to 1000 -/
example : ∀ m (s : Sth), (fun (m : Int) => if m < 0 then none else some ({ size := min m.toNat 1000 } : Sth)) m = some s → (s.size : Int) ≤ m := by
  intro m s h
  by_cases hm : m < 0
  · simp [hm] at h
  · simp [hm] at h; subst h; simp; omega

/-- Observation (the two sentences of the property meet here): a *frozen mirror* serves its frozen STH even when the
backend tree is smaller — `Gen.sthGetterSelect` tests the frozen STH first. -/
example : Gen.sthGetterSelect true true = 0 := by decide

/-- a regular log serves the backend's tree head (size, timestamp, root) under its own signature, or nothing -/
theorem log_serves_backend (c : LogConfig) (o : SetupOracle) (inst : Instance)
    (hm : c.isMirror = false) (hz : c.frozen = none) (h : setUp c o = some inst)
    (backend : Option Sth) (storage : Int → Option Sth) (sign : Option Bytes) (s : Sth)
    (hs : serveSth inst backend storage sign = some s) :
    ∃ b sg, backend = some b ∧ sign = some sg ∧ s = { b with sig := sg } := by
  obtain ⟨_, _, hg, _, _⟩ := setUp_matches c o inst h
  have hg2 : inst.getter = 2 := by rw [hg]; simp [hz, hm, Gen.sthGetterSelect]
  unfold serveSth at hs
  rw [hg2] at hs
  cases backend with
  | none => simp at hs
  | some b =>
    cases sign with
    | none => simp at hs
    | some sg => simp at hs; exact ⟨b, sg, rfl, rfl, hs.symm⟩

/-! ## "never panics": the guards are in the source -/

/-- **panic_guards_present** (regenerated facts; each is `false` on a tree without the corresponding F9 fix, and this
theorem then stops compiling): every `conn[i]` of `ValidateLogConfig` comes after the `len(conn)` guard, which
rejects every length but the one the indices need; `ValidateLogMultiConfig` / `BuildLogBackendMap` reach the optional
sub-messages only through nil-safe getters. "Never panics" beyond these two places is the totality of the model plus
the panic output class of the correspondence run (declared in notes/C15.md). -/
theorem panic_guards_present :
    Gen.connIndexGuarded = true ∧ (∀ n : Int, Gen.cfgConnPartsBad n = false → n = 2) ∧ Gen.multiConfigNilSafe = true := by
  refine ⟨by decide, ?_, by decide⟩
  intro n hn
  simp only [Gen.cfgConnPartsBad] at hn
  by_cases h : n = 2
  · exact h
  · simp [h] at hn

/-! ### the EKU filter of the validated configuration ("the instance matches its configuration") -/

/-- **any_listed_no_filter.** "Any" listed anywhere in `ext_key_usages` — first, in the middle, last, more than once — means the
validated configuration (and the instance built from it) filters on no EKU at all. -/
theorem any_listed_no_filter (names : List String) (n : String) (hn : n ∈ names) (ha : ekuIsAny n = true) :
    ekuFilter names = [] := by
  unfold ekuFilter
  have : names.any ekuIsAny = true := List.any_eq_true.mpr ⟨n, hn, ha⟩
  simp [this]

/-- **no_any_filter_is_list.** Without "Any" the filter is the configured list, name by name in order (for an accepted
configuration every name is known, so nothing is dropped: same length). -/
theorem no_any_filter_is_list (names : List String) (h : ∀ n ∈ names, ekuIsAny n = false) :
    ekuFilter names = names.filterMap (fun n => Gen.ekuTable.lookup n) ∧
    ((∀ n ∈ names, ekuKnown n = true) → (ekuFilter names).length = names.length) := by
  have hany : names.any ekuIsAny = false := by
    rw [List.any_eq_false]; intro n hn; simp [h n hn]
  refine ⟨by simp [ekuFilter, hany], fun hk => ?_⟩
  simp only [ekuFilter, hany, Bool.false_eq_true, if_false]
  clear hany h
  induction names with
  | nil => rfl
  | cons a t ih =>
    have ha : ekuKnown a = true := hk a (List.mem_cons_self ..)
    unfold ekuKnown at ha
    obtain ⟨v, hv⟩ := Option.isSome_iff_exists.mp ha
    simp [List.filterMap_cons, hv, ih (fun n hn => hk n (List.mem_cons_of_mem _ hn))]

example : ekuFilter ["Any", "ServerAuth"] = [] := by decide
example : ekuFilter ["ServerAuth", "Any", "ClientAuth"] = [] := by decide
example : ekuFilter ["ServerAuth", "Any"] = [] := by decide
example : ekuFilter ["Any", "ServerAuth", "Any"] = [] := by decide
example : ekuFilter ["ServerAuth", "ClientAuth"] = ["x509.ExtKeyUsageServerAuth", "x509.ExtKeyUsageClientAuth"] := by decide

/-- the EKU loop looks at every name and rejects an unknown one (regenerated: no `break` / `continue` / early return
in the loop; `false` on the tree before the EKU fix) — what `ekusOk = List.all ekuKnown` models -/
theorem eku_loop_checks_every_name : Gen.ekuLoopChecksEveryName = true ∧ Gen.ekuLoopRejectsUnknown = true := by decide

end C15
