import CTV.Model.Config
/-! # C15 (thin first version; theorems follow) -/
namespace C15
open CTV.Model.Config

/-- add endpoints present ⇔ neither mirror nor read-only (regenerated table and condition). -/
theorem handlers_iff (c : LogConfig) :
    ("/ct/v1/add-chain" ∈ endpoints c ∧ "/ct/v1/add-pre-chain" ∈ endpoints c) ↔ (c.isMirror = false ∧ c.isReadonly = false) := by
  unfold endpoints
  cases c.isMirror <;> cases c.isReadonly <;> decide

end C15
