import CTV.Gen.Migrate
import CTV.Model.Migrate
/-!
# C20: the migration model's gate and pass outcome follow the decision sequences regenerated from controller.go

`Gen.verifyConsistencyChain` is the whole body of `Controller.verifyConsistency`, `Gen.fetchTailHead` the part of `fetchTail` before the
submitters start, `Gen.fetchTailTail` the part after `fetcher.Run`, `Gen.fetchTailTailOrder` the order of the statements of that tail.
-/
set_option linter.unusedSimpArgs false
namespace CTV.Props.C20Tie
open CTV.Model.Migrate

/-- **Gate tie (verifyConsistency).** The body returns nil exactly when the destination is empty, or the operator disabled the check,
or the proof was obtained and verified — in that order of tests (an empty root never asks for a proof; the switch is looked at before
any request). -/
theorem verifyConsistency_tie (t : Nat) (noCheck proofErr proofBad : Bool) :
    (Gen.verifyConsistencyChain t noCheck proofErr proofBad = 0) ↔ (t = 0 ∨ noCheck = true ∨ (proofErr = false ∧ proofBad = false)) := by
  unfold Gen.verifyConsistencyChain
  by_cases h : t = 0
  · simp [h]
  · have h' : ¬ ((t : Int) = 0) := by omega
    cases noCheck <;> cases proofErr <;> cases proofBad <;> simp [h, h']

/-- **Head of `fetchTail` = the model's `gate`.** With a working destination and source (`getRoot`, `Prepare` succeed) and the gate's
verdict being what `verifyConsistency` returns, the code decides exactly as `gate` does: up to date (returns `begin`, nothing fetched),
proceed, or refused (an error, nothing fetched or submitted) — and the up-to-date test comes before any proof is requested. -/
theorem fetchTail_head_tie (noCheck proofErr proofBad : Bool) (t sth begin : Nat) :
    Gen.fetchTailHead false false (decide (Gen.verifyConsistencyChain t noCheck proofErr proofBad ≠ 0)) sth begin =
      (match gate noCheck t sth begin (!proofErr && !proofBad) with
       | .upToDate => 2 | .proceed => 0 | .refused => 1) := by
  unfold Gen.fetchTailHead gate
  by_cases hu : sth ≤ begin
  · have : ((sth : Int) ≤ begin) := by omega
    simp [hu, this]
  · have hu' : ¬ ((sth : Int) ≤ begin) := by omega
    have hv := verifyConsistency_tie t noCheck proofErr proofBad
    by_cases hc : Gen.verifyConsistencyChain t noCheck proofErr proofBad = 0
    · rcases hv.mp hc with h | h | ⟨h1, h2⟩
      · subst h; simp [hu, hu']; simpa using hc
      · subst h; simp [hu, hu', hc]
      · subst h1; subst h2; simp [hu, hu', hc]
    · have hn : ¬ (t = 0 ∨ noCheck = true ∨ (proofErr = false ∧ proofBad = false)) := fun hh => hc (hv.mpr hh)
      have h0 : ¬ t = 0 := fun hh => hn (Or.inl hh)
      have h1 : noCheck = false := by cases noCheck <;> simp_all
      have h2 : (!proofErr && !proofBad) = false := by cases proofErr <;> cases proofBad <;> simp_all
      subst h1
      simp only [hu, hu', hc, h0, h2, if_false, if_true, decide_false, decide_true, ne_eq, not_false_eq_true, Bool.false_eq_true]

/-- a failing `getRoot` or `Prepare` ends the pass with an error before anything else happens -/
theorem fetchTail_head_errors (g : Bool) (sth begin : Int) :
    Gen.fetchTailHead true false g sth begin = 1 ∧ Gen.fetchTailHead false true g sth begin = 1 ∧ Gen.fetchTailHead true true g sth begin = 1 := by
  unfold Gen.fetchTailHead; simp

/-- **Tail of `fetchTail` = the model's `passOk` outcome.** After the fetcher has returned the pass reports success only if `Run` did not
fail and the pass context is not cancelled (a submitter that fails cancels it: `giveUp` sets `failed` and cancels, and `passOk`
requires neither) — and the context is examined only *after* the submitters have been waited for, so a submitter failing late
is still seen. -/
theorem fetchTail_tail_tie (runFails ctxDone : Bool) :
    Gen.fetchTailTail runFails ctxDone = (if runFails || ctxDone then 1 else 0) ∧
    Gen.fetchTailTailOrder = ["fetcher.Run(", "close(batches)", "wg.Wait()", "if err != nil", "cctx.Err()"] := by
  constructor
  · cases runFails <;> cases ctxDone <;> decide
  · decide

/-- a cancelled or failed pass is never `passOk` in the model (the model side of the tail) -/
theorem model_tail (s : PSt) (h : s.f.cancelled = true ∨ s.failed = true) : passOk s = false := by
  rcases h with h | h <;> simp [passOk, h]

example : Gen.verifyConsistencyChain 5 false false true = 1 ∧ Gen.verifyConsistencyChain 0 false true true = 0 := by decide
example : Gen.fetchTailHead false false true 10 3 = 1 ∧ Gen.fetchTailHead false false true 3 3 = 2 ∧ Gen.fetchTailHead false false false 10 3 = 0 := by decide

end CTV.Props.C20Tie
