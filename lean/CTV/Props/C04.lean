import CTV.Lemmas.CtWire
/-!
# C04 — RFC 6962 wire structures, signature inputs and leaf hashes are byte-exact
-/
set_option linter.unusedSimpArgs false
namespace C04
open Tls CTV CtWire

/-! ## encoders: what the regenerated tags make `tls.Marshal` produce = the RFC transcription -/

theorem enc_asn1Cert (c : Bytes) : eo (enc tASN1Cert (asn1CertVal c)) = Rfc.asn1Cert c := by
  rw [ty_ASN1Cert]
  simp [xASN1Cert, asn1CertVal, enc_struct_eo, encFields_plain_eo, encFields_nil_eo, enc_bytes_eo, encPrefixed_iCert,
    Rfc.asn1Cert, allTaken]

theorem enc_preCert (p : Rfc.PreCert) : eo (enc tPreCert (preCertVal p)) = Rfc.preCert p := by
  rw [ty_PreCert]
  simp [xPreCert, preCertVal, enc_struct_eo, encFields_plain_eo, encFields_nil_eo, enc_bytes_eo, enc_arr_eo, encPrefixed_iCert,
    Rfc.preCert, allTaken]

theorem enc_digitallySigned (d : Rfc.DigitallySigned) : eo (enc tDigitallySigned (dsVal d)) = Rfc.digitallySigned d := by
  rw [ty_DigitallySigned]
  simp [xDigitallySigned, dsVal, enc_struct_eo, encFields_plain_eo, encFields_nil_eo, enc_bytes_eo, encPrefixed_iExt,
    i1, enc_enum_eo, Rfc.digitallySigned, allTaken]
  cases Rfc.uintN 1 d.hash <;> cases Rfc.uintN 1 d.sigAlg <;> cases Rfc.varVector 0 65535 d.signature <;> simp

/-- the `EntryType` selector and its variants, inside any struct: `LogEntryType entry_type; select(entry_type) {…}` -/
theorem encFields_entry (env : Env) (men tak : List String) (rest : Fields) (e : Rfc.SignedEntry) (vs : List Val)
    (hm : tak.contains "EntryType" = false) :
    eo (encFields env men tak (xEntryFields rest) (signedEntryVals e ++ vs)) =
      (Rfc.signedEntry e).bind fun x =>
        (eo (encFields (("EntryType", e.entryType) :: env) ("EntryType" :: "EntryType" :: "EntryType" :: men) ("EntryType" :: tak) rest vs)).bind
          fun y => some (x ++ y) := by
  have e1 := enc_asn1Cert
  have e2 := enc_preCert
  rw [ty_ASN1Cert] at e1
  rw [ty_PreCert] at e2
  cases e with
  | x509 c =>
    simp only [xEntryFields, signedEntryVals, List.cons_append, List.nil_append, Rfc.signedEntry, Rfc.SignedEntry.entryType]
    rw [encFields_plain_eo, enc_enum_eo 2 0 (by decide)]
    rw [show envPush env "EntryType" (.enum i2) (.num 0) = ("EntryType", 0) :: env by rfl]
    rw [encFields_chosen_eo _ _ _ _ _ _ _ _ _ _ (by simp [List.lookup]) hm (by simp [asn1CertVal]), e1]
    rw [encFields_unchosen_eo _ _ _ _ _ _ 0 _ _ _ (by simp [List.lookup]) (by decide)]
    rw [encFields_unchosen_eo _ _ _ _ _ _ 0 _ _ _ (by simp [List.lookup]) (by decide)]
    simp [Rfc.uintN, i2]
    cases Rfc.asn1Cert c <;> simp
    cases eo (encFields (("EntryType", 0) :: env) ("EntryType" :: "EntryType" :: "EntryType" :: men) ("EntryType" :: tak) rest vs) <;> simp
  | precert p =>
    simp only [xEntryFields, signedEntryVals, List.cons_append, List.nil_append, Rfc.signedEntry, Rfc.SignedEntry.entryType]
    rw [encFields_plain_eo, enc_enum_eo 2 1 (by decide)]
    rw [show envPush env "EntryType" (.enum i2) (.num 1) = ("EntryType", 1) :: env by rfl]
    rw [encFields_unchosen_eo _ _ _ _ _ _ 1 _ _ _ (by simp [List.lookup]) (by decide)]
    rw [encFields_chosen_eo _ _ _ _ _ _ _ _ _ _ (by simp [List.lookup]) (by simpa using hm) (by simp [preCertVal]), e2]
    rw [encFields_unchosen_eo _ _ _ _ _ _ 1 _ _ _ (by simp [List.lookup]) (by decide)]
    simp [Rfc.uintN, i2]
    cases Rfc.preCert p <;> simp
    cases eo (encFields (("EntryType", 1) :: env) ("EntryType" :: "EntryType" :: "EntryType" :: men) ("EntryType" :: tak) rest vs) <;> simp

theorem enc_timestampedEntry (t : Rfc.TimestampedEntry) :
    eo (enc tTimestampedEntry (teVal t)) = Rfc.timestampedEntry t := by
  rw [ty_TimestampedEntry]
  simp only [xTimestampedEntry, teVal, enc_struct_eo]
  rw [encFields_plain_eo, enc_uint_eo, encFields_entry _ _ _ _ _ _ (by rfl)]
  simp only [encFields_plain_eo, encFields_nil_eo, enc_bytes_eo, encPrefixed_iExt, Rfc.timestampedEntry, Rfc.ctExtensions]
  have ht : allTaken ["EntryType", "EntryType", "EntryType"] ["EntryType"] = true := by decide
  simp only [ht, if_true]
  cases Rfc.uintN 8 t.timestamp <;> cases Rfc.signedEntry t.entry <;> cases Rfc.varVector 0 65535 t.extensions <;> simp

theorem enc_merkleTreeLeaf (l : Rfc.MerkleTreeLeaf) :
    eo (enc tMerkleTreeLeaf (leafVal l)) = Rfc.merkleTreeLeaf l := by
  have e1 := enc_timestampedEntry l.entry
  rw [ty_TimestampedEntry] at e1
  rw [ty_MerkleTreeLeaf]
  simp only [xMerkleTreeLeaf, leafVal, enc_struct_eo]
  rw [encFields_plain_eo, enc_enum_eo 1 _ (by decide), encFields_plain_eo, enc_enum_eo 1 0 (by decide)]
  rw [show envPush (envPush [] "Version" (.enum i1) (.num l.version)) "LeafType" (.enum i1) (.num 0)
        = [("LeafType", 0), ("Version", l.version)] by rfl]
  rw [encFields_chosen_eo _ _ _ _ _ _ _ _ _ _ (by simp [List.lookup]) (by rfl) (by simp [teVal]), e1, encFields_nil_eo]
  have ht : allTaken ["LeafType"] ["LeafType"] = true := by decide
  simp only [ht, if_true, Rfc.merkleTreeLeaf]
  cases Rfc.uintN 1 l.version <;> cases Rfc.timestampedEntry l.entry <;> simp [Rfc.uintN]

theorem enc_sct (s : Rfc.SCT) : eo (enc tSCT (sctVal s)) = Rfc.sct s := by
  have e1 := enc_digitallySigned s.signature
  rw [ty_DigitallySigned] at e1
  rw [ty_SCT]
  simp only [xSCT, sctVal, enc_struct_eo, encFields_plain_eo, encFields_nil_eo, enc_enum_eo 1 _ (by decide : 1 ≤ 7), enc_uint_eo,
    enc_arr_eo, enc_bytes_eo, encPrefixed_iExt, e1, Rfc.sct, Rfc.ctExtensions]
  have ht : allTaken [] [] = true := by decide
  simp only [ht, if_true]
  cases Rfc.uintN 1 s.version <;> cases Rfc.opaqueFixed 32 s.logID <;> cases Rfc.uintN 8 s.timestamp <;>
    cases Rfc.varVector 0 65535 s.extensions <;> cases Rfc.digitallySigned s.signature <;> simp

/-- The bytes under an SCT signature (RFC 6962 §3.2, `signature_type = certificate_timestamp`). -/
theorem enc_sctSigInput (i : Rfc.SctSigInput) :
    eo (enc tCertificateTimestamp (sctSigInputVal i)) = Rfc.sctSigInput i := by
  rw [ty_CertificateTimestamp]
  simp only [xCertificateTimestamp, sctSigInputVal, enc_struct_eo]
  rw [encFields_plain_eo, enc_enum_eo 1 _ (by decide), encFields_plain_eo, enc_enum_eo 1 0 (by decide),
    encFields_plain_eo, enc_uint_eo, encFields_entry _ _ _ _ _ _ (by rfl)]
  simp only [encFields_plain_eo, encFields_nil_eo, enc_bytes_eo, encPrefixed_iExt, Rfc.sctSigInput, Rfc.ctExtensions]
  have ht : allTaken ["EntryType", "EntryType", "EntryType"] ["EntryType"] = true := by decide
  simp only [ht, if_true]
  cases Rfc.uintN 1 i.version <;> cases Rfc.uintN 8 i.timestamp <;> cases Rfc.signedEntry i.entry <;>
    cases Rfc.varVector 0 65535 i.extensions <;> simp [Rfc.uintN]

/-- The bytes under an STH signature (RFC 6962 §3.5, `signature_type = tree_hash`). -/
theorem enc_sthSigInput (s : Rfc.SthSigInput) :
    eo (enc tTreeHeadSignature (sthSigInputVal s)) = Rfc.sthSigInput s := by
  rw [ty_TreeHeadSignature]
  simp only [xTreeHeadSignature, sthSigInputVal, enc_struct_eo, encFields_plain_eo, encFields_nil_eo,
    enc_enum_eo 1 _ (by decide : 1 ≤ 7), enc_uint_eo, enc_arr_eo, Rfc.sthSigInput]
  have ht : allTaken [] [] = true := by decide
  simp only [ht, if_true]
  cases Rfc.uintN 1 s.version <;> cases Rfc.uintN 8 s.timestamp <;> cases Rfc.uintN 8 s.treeSize <;>
    cases Rfc.opaqueFixed 32 s.rootHash <;> simp [Rfc.uintN]

theorem enc_certChain (c : List Bytes) : eo (enc tCertificateChain (chainVal c)) = Rfc.certChain c := by
  have e1 := enc_asn1Cert
  rw [ty_ASN1Cert] at e1
  rw [ty_CertificateChain]
  simp only [xCertificateChain, chainVal, enc_struct_eo, encFields_plain_eo, encFields_nil_eo, enc_vec_eo,
    encListWith_map_eo xASN1Cert asn1CertVal Rfc.asn1Cert e1, encPrefixed_iChain, Rfc.certChain]
  have ht : allTaken [] [] = true := by decide
  simp only [ht, if_true]
  cases Rfc.concatAll Rfc.asn1Cert c <;> simp

theorem enc_precertChainEntry (e : Rfc.PrecertChainEntry) :
    eo (enc tPrecertChainEntry (precertChainVal e)) = Rfc.precertChainEntry e := by
  have e1 := enc_asn1Cert
  rw [ty_ASN1Cert] at e1
  rw [ty_PrecertChainEntry]
  simp only [xPrecertChainEntry, precertChainVal, enc_struct_eo, encFields_plain_eo, encFields_nil_eo, enc_vec_eo, e1,
    encListWith_map_eo xASN1Cert asn1CertVal Rfc.asn1Cert e1, encPrefixed_iChain, Rfc.precertChainEntry, Rfc.certChain]
  have ht : allTaken [] [] = true := by decide
  simp only [ht, if_true]
  cases Rfc.asn1Cert e.preCertificate <;> simp

theorem enc_serializedSCT (s : Bytes) : eo (enc tSerializedSCT (serializedSCTVal s)) = Rfc.serializedSCT s := by
  rw [ty_SerializedSCT]
  simp [xSerializedSCT, serializedSCTVal, enc_struct_eo, encFields_plain_eo, encFields_nil_eo, enc_bytes_eo, encPrefixed_iSct,
    Rfc.serializedSCT, allTaken]

/-- SCT lists (RFC 6962 §3.3): whatever `tls.Marshal` accepts is the RFC encoding, for the bound the tag declares
today — proved for the regenerated tag whether it says `maxlen:65335` (unchanged tree, finding F4) or `maxlen:65535`.
The converse (every RFC list encodes) is `C04SctList.enc_sctList`, which is false for the unchanged tree. -/
theorem enc_sctList_sound (l : List Bytes) (bs : Bytes) (h : enc tSCTList (sctListVal l) = .ok bs) :
    Rfc.sctList l = some bs := by
  have e1 := enc_serializedSCT
  rw [ty_SerializedSCT] at e1
  obtain ⟨hlo, hhi⟩ := sctListMax_le
  have h' : eo (enc tSCTList (sctListVal l)) = some bs := by rw [h]; rfl
  rw [ty_SCTList] at h'
  simp only [xSCTList, sctListVal, enc_struct_eo, encFields_plain_eo, encFields_nil_eo, enc_vec_eo,
    encListWith_map_eo xSerializedSCT serializedSCTVal Rfc.serializedSCT e1] at h'
  have ht : allTaken [] [] = true := by decide
  simp only [ht, if_true] at h'
  simp only [Rfc.sctList]
  cases hb : Rfc.concatAll Rfc.serializedSCT l with
  | none => simp [hb] at h'
  | some body =>
    simp only [hb, Option.bind_some] at h' ⊢
    rw [encPrefixed_eo 2 1 sctListMax body (by decide) (by omega) (by omega)] at h'
    split at h'
    · rename_i hr
      simp at h'
      subst h'
      simp [Rfc.varVector, Rfc.lenWidth]
      omega
    · simp at h'

/-! ## decoders: `tls.Unmarshal` on the regenerated types accepts exactly the RFC byte strings

Each statement: for every byte string `bs`, RFC value `x` and rest `r`, the codec decodes `bs` to (the Go
layout of) `x` leaving `r` **iff** the RFC decoder does. -/

theorem dec_digitallySigned (bs : Bytes) (d : Rfc.DigitallySigned) (r : Bytes) :
    dec tDigitallySigned bs = .ok (dsVal d, r) ↔ Rfc.decDigitallySigned bs = some (d, r) := by
  have hE := enc_digitallySigned; rw [ty_DigitallySigned] at hE ⊢
  exact dec_agree _ wf_DigitallySigned dsVal _ _ hE Rfc.decDigitallySigned_enc Rfc.digitallySigned_dec bs d r

theorem dec_asn1Cert (bs c r : Bytes) : dec tASN1Cert bs = .ok (asn1CertVal c, r) ↔ Rfc.decAsn1Cert bs = some (c, r) := by
  have hE := enc_asn1Cert; rw [ty_ASN1Cert] at hE ⊢
  exact dec_agree _ wf_ASN1Cert asn1CertVal _ _ hE Rfc.decAsn1Cert_enc Rfc.asn1Cert_dec bs c r

theorem dec_preCert (bs : Bytes) (p : Rfc.PreCert) (r : Bytes) :
    dec tPreCert bs = .ok (preCertVal p, r) ↔ Rfc.decPreCert bs = some (p, r) := by
  have hE := enc_preCert; rw [ty_PreCert] at hE ⊢
  exact dec_agree _ wf_PreCert preCertVal _ _ hE Rfc.decPreCert_enc Rfc.preCert_dec bs p r

theorem dec_timestampedEntry (bs : Bytes) (t : Rfc.TimestampedEntry) (r : Bytes) :
    dec tTimestampedEntry bs = .ok (teVal t, r) ↔ Rfc.decTimestampedEntry bs = some (t, r) := by
  have hE := enc_timestampedEntry; rw [ty_TimestampedEntry] at hE ⊢
  exact dec_agree _ wf_TimestampedEntry teVal _ _ hE Rfc.decTimestampedEntry_enc Rfc.timestampedEntry_dec bs t r

theorem dec_merkleTreeLeaf (bs : Bytes) (l : Rfc.MerkleTreeLeaf) (r : Bytes) :
    dec tMerkleTreeLeaf bs = .ok (leafVal l, r) ↔ Rfc.decMerkleTreeLeaf bs = some (l, r) := by
  have hE := enc_merkleTreeLeaf; rw [ty_MerkleTreeLeaf] at hE ⊢
  exact dec_agree _ wf_MerkleTreeLeaf leafVal _ _ hE Rfc.decMerkleTreeLeaf_enc Rfc.merkleTreeLeaf_dec bs l r

theorem dec_sct (bs : Bytes) (s : Rfc.SCT) (r : Bytes) : dec tSCT bs = .ok (sctVal s, r) ↔ Rfc.decSct bs = some (s, r) := by
  have hE := enc_sct; rw [ty_SCT] at hE ⊢
  exact dec_agree _ wf_SCT sctVal _ _ hE Rfc.decSct_enc Rfc.sct_dec bs s r

theorem dec_certChain (bs : Bytes) (c : List Bytes) (r : Bytes) :
    dec tCertificateChain bs = .ok (chainVal c, r) ↔ Rfc.decCertChain bs = some (c, r) := by
  have hE := enc_certChain; rw [ty_CertificateChain] at hE ⊢
  exact dec_agree _ wf_CertificateChain chainVal _ _ hE Rfc.decCertChain_enc Rfc.certChain_dec bs c r

theorem dec_precertChainEntry (bs : Bytes) (e : Rfc.PrecertChainEntry) (r : Bytes) :
    dec tPrecertChainEntry bs = .ok (precertChainVal e, r) ↔ Rfc.decPrecertChainEntry bs = some (e, r) := by
  have hE := enc_precertChainEntry; rw [ty_PrecertChainEntry] at hE ⊢
  exact dec_agree _ wf_PrecertChainEntry precertChainVal _ _ hE Rfc.decPrecertChainEntry_enc Rfc.precertChainEntry_dec bs e r

/-- SCT lists, the direction that holds whatever bound ≤ 65535 the tag declares: what `tls.Unmarshal` accepts is an RFC list. -/
theorem dec_sctList_sound (bs : Bytes) (l : List Bytes) (r : Bytes) (h : dec tSCTList bs = .ok (sctListVal l, r)) :
    Rfc.decSctList bs = some (l, r) :=
  rfc_of_dec tSCTList sctListVal Rfc.sctList Rfc.decSctList (fun x a h => enc_sctList_sound x a h) Rfc.decSctList_enc bs l r h

/-! ### accepted ⇒ RFC: for the structures without variants, *whatever* `tls.Unmarshal` accepts is (the Go layout of) an
RFC value and the RFC decoder accepts the same bytes with the same rest -/

theorem dec_digitallySigned_exact (bs : Bytes) (v : Val) (r : Bytes) (h : dec tDigitallySigned bs = .ok (v, r)) :
    ∃ d, v = dsVal d ∧ Rfc.decDigitallySigned bs = some (d, r) := by
  have hE := enc_digitallySigned; rw [ty_DigitallySigned] at hE h
  exact dec_exact _ dsVal _ _ shape_DigitallySigned (fun x a ha => okOfEo (hE x) ha) Rfc.decDigitallySigned_enc bs v r h

theorem dec_asn1Cert_exact (bs : Bytes) (v : Val) (r : Bytes) (h : dec tASN1Cert bs = .ok (v, r)) :
    ∃ c, v = asn1CertVal c ∧ Rfc.decAsn1Cert bs = some (c, r) := by
  have hE := enc_asn1Cert; rw [ty_ASN1Cert] at hE h
  exact dec_exact _ asn1CertVal _ _ shape_ASN1Cert (fun x a ha => okOfEo (hE x) ha) Rfc.decAsn1Cert_enc bs v r h

theorem dec_preCert_exact (bs : Bytes) (v : Val) (r : Bytes) (h : dec tPreCert bs = .ok (v, r)) :
    ∃ p, v = preCertVal p ∧ Rfc.decPreCert bs = some (p, r) := by
  have hE := enc_preCert; rw [ty_PreCert] at hE h
  exact dec_exact _ preCertVal _ _ shape_PreCert (fun x a ha => okOfEo (hE x) ha) Rfc.decPreCert_enc bs v r h

theorem dec_sct_exact (bs : Bytes) (v : Val) (r : Bytes) (h : dec tSCT bs = .ok (v, r)) :
    ∃ s, v = sctVal s ∧ Rfc.decSct bs = some (s, r) := by
  have hE := enc_sct; rw [ty_SCT] at hE h
  exact dec_exact _ sctVal _ _ shape_SCT (fun x a ha => okOfEo (hE x) ha) Rfc.decSct_enc bs v r h

theorem dec_certChain_exact (bs : Bytes) (v : Val) (r : Bytes) (h : dec tCertificateChain bs = .ok (v, r)) :
    ∃ c, v = chainVal c ∧ Rfc.decCertChain bs = some (c, r) := by
  have hE := enc_certChain; rw [ty_CertificateChain] at hE h
  exact dec_exact _ chainVal _ _ shape_CertificateChain (fun x a ha => okOfEo (hE x) ha) Rfc.decCertChain_enc bs v r h

theorem dec_precertChainEntry_exact (bs : Bytes) (v : Val) (r : Bytes) (h : dec tPrecertChainEntry bs = .ok (v, r)) :
    ∃ e, v = precertChainVal e ∧ Rfc.decPrecertChainEntry bs = some (e, r) := by
  have hE := enc_precertChainEntry; rw [ty_PrecertChainEntry] at hE h
  exact dec_exact _ precertChainVal _ _ shape_PrecertChainEntry (fun x a ha => okOfEo (hE x) ha) Rfc.decPrecertChainEntry_enc bs v r h

/-- SCT lists: whatever is accepted (under today's tag bound, whichever it is) is an RFC list -/
theorem dec_sctList_exact (bs : Bytes) (v : Val) (r : Bytes) (h : dec tSCTList bs = .ok (v, r)) :
    ∃ l, v = sctListVal l ∧ Rfc.decSctList bs = some (l, r) := by
  have hs := enc_sctList_sound
  rw [ty_SCTList] at hs h
  exact dec_exact _ sctListVal _ _ (shape_SCTList _) hs Rfc.decSctList_enc bs v r h

/-! ### the structures with variants: accepted ⇒ RFC value, or the repository's JSON extension (entry type 0x8000)

`ct.TimestampedEntry` carries a third variant `JSONEntry` for entry type `0x8000` (`selector:EntryType,val:32768`), which RFC 6962 does not have; it is
the only way a value accepted by the codec can fail to be an RFC value (`CtWire.IsJsonTE`). -/

/-- Whatever `tls.Marshal` accepts for `ct.TimestampedEntry` — any Go value, not only the layout of an RFC value — is an RFC
entry with the RFC's bytes, or the JSON extension. -/
theorem enc_timestampedEntry_any (v : Val) (bs : Bytes) (h : enc tTimestampedEntry v = .ok bs) :
    (∃ t, v = teVal t ∧ Rfc.timestampedEntry t = some bs) ∨ IsJsonTE v := by
  have hE := enc_timestampedEntry
  rw [ty_TimestampedEntry] at hE h
  rcases shape_TimestampedEntry v bs h with ⟨t, rfl⟩ | hj
  · exact Or.inl ⟨t, rfl, okOfEo (hE t) h⟩
  · exact Or.inr hj

/-- the same for `ct.MerkleTreeLeaf`: in particular leaf type ≠ 0, two bodies, a body under the wrong type are all refused -/
theorem enc_merkleTreeLeaf_any (v : Val) (bs : Bytes) (h : enc tMerkleTreeLeaf v = .ok bs) :
    (∃ l, v = leafVal l ∧ Rfc.merkleTreeLeaf l = some bs) ∨ (∃ ver te, v = .struct [.num ver, .num 0, te] ∧ IsJsonTE te) := by
  have hE := enc_merkleTreeLeaf
  rw [ty_MerkleTreeLeaf] at hE h
  rcases shape_MerkleTreeLeaf v bs h with ⟨l, rfl⟩ | hj
  · exact Or.inl ⟨l, rfl, okOfEo (hE l) h⟩
  · exact Or.inr hj

theorem dec_timestampedEntry_exact (bs : Bytes) (v : Val) (r : Bytes) (h : dec tTimestampedEntry bs = .ok (v, r)) :
    (∃ t, v = teVal t ∧ Rfc.decTimestampedEntry bs = some (t, r)) ∨ IsJsonTE v := by
  obtain ⟨u, _, hu⟩ := Tls.enc_dec _ bs r v h
  rcases enc_timestampedEntry_any v u hu with ⟨t, rfl, _⟩ | hj
  · exact Or.inl ⟨t, rfl, (dec_timestampedEntry bs t r).1 h⟩
  · exact Or.inr hj

theorem dec_merkleTreeLeaf_exact (bs : Bytes) (v : Val) (r : Bytes) (h : dec tMerkleTreeLeaf bs = .ok (v, r)) :
    (∃ l, v = leafVal l ∧ Rfc.decMerkleTreeLeaf bs = some (l, r)) ∨ (∃ ver te, v = .struct [.num ver, .num 0, te] ∧ IsJsonTE te) := by
  obtain ⟨u, _, hu⟩ := Tls.enc_dec _ bs r v h
  rcases enc_merkleTreeLeaf_any v u hu with ⟨l, rfl, _⟩ | hj
  · exact Or.inl ⟨l, rfl, (dec_merkleTreeLeaf bs l r).1 h⟩
  · exact Or.inr hj

/-- An unknown leaf type is an error on the decode side too: whatever `tls.Unmarshal` accepts as a `MerkleTreeLeaf` has
`leaf_type = timestamped_entry(0)`. -/
theorem dec_unknown_leaf_type (bs : Bytes) (v : Val) (r : Bytes) (h : dec tMerkleTreeLeaf bs = .ok (v, r)) :
    ∃ ver te, v = .struct [.num ver, .num 0, te] := by
  rcases dec_merkleTreeLeaf_exact bs v r h with ⟨l, rfl, _⟩ | ⟨ver, te, rfl, _⟩
  · exact ⟨l.version, teVal l.entry, rfl⟩
  · exact ⟨ver, te, rfl⟩

/-! ## the wrappers of serialization.go -/

theorem consts : Gen.v1 = 0 ∧ Gen.x509LogEntryType = 0 ∧ Gen.precertLogEntryType = 1 ∧
    Gen.certificateTimestampSignatureType = 0 ∧ Gen.treeHashSignatureType = 1 ∧ Gen.timestampedEntryLeafType = 0 ∧
    Gen.treeLeafPrefix = 0 ∧ Gen.treeNodePrefix = 1 := by decide

/-- what the Go caller passes for an RFC entry -/
def sctIn (i : Rfc.SctSigInput) : SctIn :=
  match i.entry with
  | .x509 c => ⟨i.version, i.timestamp, i.extensions, 0, some c, none⟩
  | .precert p => ⟨i.version, i.timestamp, i.extensions, 1, none, some p⟩

/-- `SerializeSCTSignatureInput` = the RFC 6962 §3.2 signature input, and only for `sct_version = v1`. -/
theorem sctSigInput_spec (i : Rfc.SctSigInput) : eo (serializeSCTSignatureInput (sctIn i)) = Rfc.sctSigInputV1 i := by
  obtain ⟨c1, c2, c3, c4, _⟩ := consts
  have hE := enc_sctSigInput i
  unfold serializeSCTSignatureInput Rfc.sctSigInputV1
  by_cases hv : i.version = 0
  · cases he : i.entry with
    | x509 c =>
      simp only [sctIn, he, c1, c2, c3, c4, hv] at hE ⊢
      simp only [sctSigInputVal, he, signedEntryVals, hv] at hE
      simpa [optVal] using hE
    | precert p =>
      simp only [sctIn, he, c1, c2, c3, c4, hv] at hE ⊢
      simp only [sctSigInputVal, he, signedEntryVals, hv] at hE
      simpa using hE
  · have : ¬ ((i.version : Int) = 0) := by omega
    cases he : i.entry <;> simp [sctIn, he, c1, hv, this]

/-- unknown SCT versions and unknown entry types are refused -/
theorem sctSigInput_refuses (i : SctIn) (h : i.version ≠ 0 ∨ (i.entryType ≠ 0 ∧ i.entryType ≠ 1)) :
    ∃ e, serializeSCTSignatureInput i = .error e := by
  obtain ⟨c1, c2, c3, _⟩ := consts
  unfold serializeSCTSignatureInput
  rcases h with h | ⟨h0, h1⟩
  · simp [c1, h]
  · have a1 : ¬ ((i.entryType : Int) = 1) := by omega
    by_cases hv : i.version = 0 <;> simp [c1, c2, c3, hv, h0, h1, a1]

/-- `SerializeSTHSignatureInput` = the RFC 6962 §3.5 signature input, and only for `version = v1`. -/
theorem sthSigInput_spec (s : Rfc.SthSigInput) :
    eo (serializeSTHSignatureInput ⟨s.version, s.timestamp, s.treeSize, s.rootHash⟩) = Rfc.sthSigInputV1 s := by
  obtain ⟨c1, _, _, _, c5, _⟩ := consts
  have hE := enc_sthSigInput s
  unfold serializeSTHSignatureInput Rfc.sthSigInputV1
  by_cases hv : s.version = 0
  · simp only [c1, c5, hv, sthSigInputVal] at hE ⊢
    simpa using hE
  · have : ¬ ((s.version : Int) = 0) := by omega
    simp [c1, hv, this]

/-- the Merkle leaf hash input: prefix byte `0x00`, then the RFC leaf (RFC 6962 §2.1) -/
theorem leafHash_prefix (l : Rfc.MerkleTreeLeaf) :
    eo (leafHashInput (leafVal l)) = (Rfc.merkleTreeLeaf l).map Rfc.leafHashInput := by
  have hE := enc_merkleTreeLeaf l
  unfold leafHashInput
  cases h : enc tMerkleTreeLeaf (leafVal l) with
  | error e => rw [h] at hE; simp [eo] at hE ⊢; rw [← hE]; rfl
  | ok bs =>
    rw [h] at hE; simp only [eo_ok] at hE
    rw [← hE]
    simp [Rfc.leafHashInput, consts.2.2.2.2.2.2.1]

/-- `RawLogEntryFromLeaf` parses completely: on success the leaf input and the extra data are, byte for byte, the
encodings of what was returned — trailing bytes are impossible. -/
theorem rawLogEntry_complete (leafInput extraData : Bytes) (rle : RawLogEntry)
    (h : rawLogEntryFromLeaf leafInput extraData = .ok rle) :
    enc tMerkleTreeLeaf rle.leaf = .ok leafInput ∧
      (enc tCertificateChain (.struct [rle.chain]) = .ok extraData ∨
       enc tPrecertChainEntry (.struct [rle.cert, rle.chain]) = .ok extraData) := by
  have hall : ∀ (T : Ty) (bs : Bytes) (v : Val), decAll T bs = .ok v → enc T v = .ok bs := by
    intro T bs v hd
    unfold decAll at hd
    split at hd
    · cases hd
    · rename_i v' hdec
      cases hd
      obtain ⟨u, hu, he⟩ := Tls.enc_dec T bs [] v hdec
      simp at hu; subst hu; exact he
    · cases hd
  unfold rawLogEntryFromLeaf at h
  split at h
  · cases h
  rename_i leaf hl
  split at h
  · cases h
  rename_i et x509 pre het
  split at h
  · split at h
    · cases h
    · rename_i chain hc
      cases h
      exact ⟨hall _ _ _ hl, Or.inl (hall _ _ _ hc)⟩
    · cases h
  · split at h
    · split at h
      · cases h
      · rename_i p chain hc
        cases h
        exact ⟨hall _ _ _ hl, Or.inr (hall _ _ _ hc)⟩
      · cases h
    · cases h

/-- `RawLogEntryFromLeaf` refuses every entry type other than x509_entry(0) and precert_entry(1). -/
theorem rawLogEntry_types (leafInput extraData : Bytes) (rle : RawLogEntry)
    (h : rawLogEntryFromLeaf leafInput extraData = .ok rle) :
    ∃ et a b, entryTypeOf rle.leaf = some (et, a, b) ∧ (et = 0 ∨ et = 1) := by
  obtain ⟨_, c2, c3, _⟩ := consts
  unfold rawLogEntryFromLeaf at h
  split at h
  · cases h
  rename_i leaf hl
  split at h
  · cases h
  rename_i et x509 pre het
  split at h
  · rename_i h0
    split at h
    · cases h
    · cases h; exact ⟨et, x509, pre, het, Or.inl (by rw [c2] at h0; omega)⟩
    · cases h
  · split at h
    · rename_i h1
      split at h
      · cases h
      · cases h; exact ⟨et, x509, pre, het, Or.inr (by rw [c3] at h1; omega)⟩
      · cases h
    · cases h

/-- An RFC 6962 §4.6 entry (leaf input + extra data, both complete) is accepted by `RawLogEntryFromLeaf`, with the
leaf, certificate and chain the RFC decoder finds. -/
theorem rawLogEntry_of_rfc (leafInput extraData : Bytes) (l : Rfc.MerkleTreeLeaf) (x : Rfc.ExtraData)
    (h : Rfc.decLogEntry leafInput extraData = some (l, x)) :
    ∃ rle, rawLogEntryFromLeaf leafInput extraData = .ok rle ∧ rle.leaf = leafVal l ∧
      (match x with
       | .x509 chain => rle.chain = .list (chain.map asn1CertVal)
       | .precert e => rle.cert = asn1CertVal e.preCertificate ∧ rle.chain = .list (e.chain.map asn1CertVal)) := by
  obtain ⟨_, c2, c3, _⟩ := consts
  have hcompl : ∀ {α : Type} (o : Option (α × Bytes)) (a : α), Rfc.complete o = some a → o = some (a, []) := by
    intro α o a hc
    match o, hc with
    | some (x, []), hc => simp [Rfc.complete] at hc; subst hc; rfl
    | some (_, _ :: _), hc => simp [Rfc.complete] at hc
    | none, hc => simp [Rfc.complete] at hc
  simp only [Rfc.decLogEntry, bind, Option.bind_eq_some_iff] at h
  obtain ⟨leaf, hleaf, h⟩ := h
  have hl := (dec_merkleTreeLeaf leafInput leaf []).2 (hcompl _ _ hleaf)
  have hla : decAll tMerkleTreeLeaf leafInput = .ok (leafVal leaf) := by simp [decAll, hl]
  cases he : leaf.entry.entry with
  | x509 c =>
    simp only [he, Option.bind_eq_some_iff, pure, Option.some.injEq, Prod.mk.injEq] at h
    obtain ⟨chain, hch, rfl, rfl⟩ := h
    have hc := (dec_certChain extraData chain []).2 (hcompl _ _ hch)
    have hca : decAll tCertificateChain extraData = .ok (chainVal chain) := by simp [decAll, hc]
    refine ⟨⟨leafVal leaf, asn1CertVal c, .list (chain.map asn1CertVal)⟩, ?_, rfl, rfl⟩
    simp [rawLogEntryFromLeaf, hla, leafVal, teVal, he, signedEntryVals, entryTypeOf, c2, hca, chainVal]
  | precert p =>
    simp only [he, Option.bind_eq_some_iff, pure, Option.some.injEq, Prod.mk.injEq] at h
    obtain ⟨e, hch, rfl, rfl⟩ := h
    have hc := (dec_precertChainEntry extraData e []).2 (hcompl _ _ hch)
    have hca : decAll tPrecertChainEntry extraData = .ok (precertChainVal e) := by simp [decAll, hc]
    refine ⟨⟨leafVal leaf, asn1CertVal e.preCertificate, .list (e.chain.map asn1CertVal)⟩, ?_, rfl, rfl, rfl⟩
    simp [rawLogEntryFromLeaf, hla, leafVal, teVal, he, signedEntryVals, entryTypeOf, c2, c3, hca, precertChainVal]

/-! `wrappers_as_modelled` (the source-text tie of the wrappers' wiring) lives in `CTV/Props/C04Wrappers.lean`, so that modules which
import this file for `rawLogEntry_of_rfc` (C07b) do not depend on the text of `buildLogLeaf`. -/

/-- `ExtraDataForChain` / `BuildLogLeaf`: the stored extra data is RFC 6962 §4.6's — the `certificate_chain` of an X.509 entry (also
for an empty chain: `00 00 00`), the whole `PrecertChainEntry` of a precertificate entry. -/
theorem extraData_spec (isPrecert : Bool) (cert : Bytes) (chain : List Bytes) :
    eo (extraDataForChain isPrecert cert chain) =
      if isPrecert then Rfc.precertChainEntry ⟨cert, chain⟩ else Rfc.certChain chain := by
  cases isPrecert
  · simpa [extraDataForChain, chainVal] using enc_certChain chain
  · simpa [extraDataForChain, precertChainVal] using enc_precertChainEntry ⟨cert, chain⟩

example : Rfc.certChain [] = some [0, 0, 0] := by decide

/-- what `RawLogEntryFromLeaf` returns for an RFC 6962 §4.6 entry: the leaf, `Cert` (the leaf certificate of an X.509 entry, the
submitted pre-certificate of a precert entry) and `Chain` -/
def rleOf (l : Rfc.MerkleTreeLeaf) (x : Rfc.ExtraData) : RawLogEntry :=
  match x with
  | .x509 chain =>
    ⟨leafVal l, (match l.entry.entry with | .x509 c => asn1CertVal c | .precert _ => .absent), .list (chain.map asn1CertVal)⟩
  | .precert e => ⟨leafVal l, asn1CertVal e.preCertificate, .list (e.chain.map asn1CertVal)⟩

theorem decAll_ok (T : Ty) (bs : Bytes) (v : Val) : decAll T bs = .ok v ↔ dec T bs = .ok (v, []) := by
  unfold decAll
  cases h : dec T bs with
  | error e => simp
  | ok p =>
    obtain ⟨v', r⟩ := p
    cases r <;> simp

theorem complete_some {α : Type} (o : Option (α × Bytes)) (a : α) : Rfc.complete o = some a ↔ o = some (a, []) := by
  unfold Rfc.complete
  match o with
  | some (x, []) => simp
  | some (_, _ :: _) => simp
  | none => simp

/-- **`RawLogEntryFromLeaf` accepts exactly the RFC 6962 §4.6 entries**: it succeeds iff leaf input and extra data are a complete
`MerkleTreeLeaf` and the complete extra data of its entry type, and then returns exactly what the RFC decoder finds.  In
particular trailing bytes, unknown leaf types, unknown entry types and the repository's own JSON entry type are all refused. -/
theorem rawLogEntry_iff (leafInput extraData : Bytes) (rle : RawLogEntry) :
    rawLogEntryFromLeaf leafInput extraData = .ok rle ↔
      ∃ l x, Rfc.decLogEntry leafInput extraData = some (l, x) ∧ rle = rleOf l x := by
  obtain ⟨_, c2, c3, _⟩ := consts
  constructor
  · intro h
    unfold rawLogEntryFromLeaf at h
    split at h
    · cases h
    rename_i leaf hl
    have hdl := (decAll_ok _ _ _).1 hl
    rcases dec_merkleTreeLeaf_exact leafInput leaf [] hdl with ⟨l, rfl, hrl⟩ | ⟨ver, te, rfl, ts, d, ext, rfl⟩
    · have hcl : Rfc.complete (Rfc.decMerkleTreeLeaf leafInput) = some l := (complete_some _ _).2 hrl
      cases he : l.entry.entry with
      | x509 c =>
        simp only [leafVal, teVal, he, signedEntryVals, entryTypeOf, List.cons_append, List.nil_append, c2, c3] at h
        simp only [Int.natCast_zero, if_true] at h
        split at h
        · cases h
        · rename_i chain hc
          cases h
          obtain ⟨c', hv, hr⟩ := dec_certChain_exact extraData _ [] ((decAll_ok _ _ _).1 hc)
          simp only [chainVal, Val.struct.injEq, List.cons.injEq, and_true] at hv
          subst hv
          refine ⟨l, .x509 c', ?_, ?_⟩
          · simp [Rfc.decLogEntry, bind, hcl, he, (complete_some _ _).2 hr]
          · simp [rleOf, he, leafVal, teVal, signedEntryVals]
        · cases h
      | precert p =>
        simp only [leafVal, teVal, he, signedEntryVals, entryTypeOf, List.cons_append, List.nil_append, c2, c3] at h
        simp only [Int.natCast_one, show ¬ ((1 : Int) = 0) by decide, if_false, if_true] at h
        split at h
        · cases h
        · rename_i pre chain hc
          cases h
          obtain ⟨e, hv, hr⟩ := dec_precertChainEntry_exact extraData _ [] ((decAll_ok _ _ _).1 hc)
          simp only [precertChainVal, Val.struct.injEq, List.cons.injEq, and_true] at hv
          obtain ⟨rfl, rfl⟩ := hv
          refine ⟨l, .precert e, ?_, ?_⟩
          · simp [Rfc.decLogEntry, bind, hcl, he, (complete_some _ _).2 hr]
          · simp [rleOf, leafVal, teVal, he, signedEntryVals]
        · cases h
    · -- the JSON extension: entry type 0x8000 is neither of the two types the function knows
      simp [entryTypeOf, c2, c3] at h
  · rintro ⟨l, x, h, rfl⟩
    simp only [Rfc.decLogEntry, bind, Option.bind_eq_some_iff] at h
    obtain ⟨leaf, hleaf, h⟩ := h
    have hl := (dec_merkleTreeLeaf leafInput leaf []).2 ((complete_some _ _).1 hleaf)
    have hla : decAll tMerkleTreeLeaf leafInput = .ok (leafVal leaf) := (decAll_ok _ _ _).2 hl
    cases he : leaf.entry.entry with
    | x509 c =>
      simp only [he, Option.bind_eq_some_iff, pure, Option.some.injEq, Prod.mk.injEq] at h
      obtain ⟨chain, hch, rfl, rfl⟩ := h
      have hc := (dec_certChain extraData chain []).2 ((complete_some _ _).1 hch)
      have hca : decAll tCertificateChain extraData = .ok (chainVal chain) := (decAll_ok _ _ _).2 hc
      simp [rawLogEntryFromLeaf, hla, leafVal, teVal, he, signedEntryVals, entryTypeOf, c2, hca, chainVal, rleOf]
    | precert p =>
      simp only [he, Option.bind_eq_some_iff, pure, Option.some.injEq, Prod.mk.injEq] at h
      obtain ⟨e, hch, rfl, rfl⟩ := h
      have hc := (dec_precertChainEntry extraData e []).2 ((complete_some _ _).1 hch)
      have hca : decAll tPrecertChainEntry extraData = .ok (precertChainVal e) := (decAll_ok _ _ _).2 hc
      simp [rawLogEntryFromLeaf, hla, leafVal, teVal, he, signedEntryVals, entryTypeOf, c2, c3, hca, precertChainVal, rleOf]

/-! ## JSON API messages convert without loss (base64 abstracted: `ext` is the decoded string)

`toSCT` / `toSTH` (CTV/Model/CtWire.lean) model `ToSignedCertificateTimestamp` / `ToSignedTreeHead` with `tls.Unmarshal`
on the **regenerated** `ct.DigitallySigned` plus the trailing-data test. -/

/-- the signature field: `tls.Unmarshal` + "no trailing data" on the regenerated type = the RFC's complete `DigitallySigned` parse -/
theorem parseDS_eq_rfc (sig : Bytes) : parseDS sig = Rfc.complete (Rfc.decDigitallySigned sig) := by
  unfold parseDS decAll
  cases hd : dec tDigitallySigned sig with
  | error e =>
    simp only
    cases hr : Rfc.decDigitallySigned sig with
    | none => rfl
    | some p =>
      obtain ⟨d, r⟩ := p
      have := (dec_digitallySigned sig d r).2 hr
      rw [hd] at this; cases this
  | ok p =>
    obtain ⟨v, r⟩ := p
    obtain ⟨d, rfl, hr⟩ := dec_digitallySigned_exact sig v r hd
    rw [hr]
    cases r with
    | nil => simp [Rfc.complete, dsOfVal, dsVal]
    | cons b bs => simp [Rfc.complete]

theorem toSCT_eq_rfc (v : Nat) (id : Bytes) (ts : Nat) (ext sig : Bytes) : toSCT v id ts ext sig = toSCTRfc v id ts ext sig := by
  simp only [toSCT, toSCTRfc, parseDS_eq_rfc]

theorem toSTH_eq_rfc (n ts : Nat) (root sig : Bytes) : toSTH n ts root sig = toSTHRfc n ts root sig := by
  simp only [toSTH, toSTHRfc, parseDS_eq_rfc]

theorem parseDS_some (sig : Bytes) (d : Rfc.DigitallySigned) : parseDS sig = some d ↔ Rfc.digitallySigned d = some sig := by
  rw [parseDS_eq_rfc]
  constructor
  · intro h
    have : Rfc.decDigitallySigned sig = some (d, []) := by
      unfold Rfc.complete at h
      split at h
      · cases h; assumption
      · cases h
    obtain ⟨a, ha, hs⟩ := Rfc.digitallySigned_dec _ _ _ this
    simp at hs; subst hs; exact ha
  · intro h
    have := Rfc.decDigitallySigned_enc d sig [] h
    simp at this
    simp [this, Rfc.complete]

/-- `ToSignedCertificateTimestamp`: every field of the message is in the structure, the signature bytes are exactly
one `DigitallySigned` (nothing trailing), and a wrong id length is refused. -/
theorem toSCT_lossless (v : Nat) (id : Bytes) (ts : Nat) (ext sig : Bytes) (s : Rfc.SCT) (h : toSCT v id ts ext sig = some s) :
    s.version = v ∧ s.logID = id ∧ id.length = 32 ∧ s.timestamp = ts ∧ s.extensions = ext ∧
      Rfc.digitallySigned s.signature = some sig := by
  unfold toSCT at h
  split at h
  · rename_i hid
    split at h
    · rename_i d hd
      cases h
      exact ⟨rfl, rfl, hid, rfl, rfl, (parseDS_some sig d).1 hd⟩
    · cases h
  · cases h

/-- and conversely every RFC SCT comes back from its message form -/
theorem toSCT_complete (s : Rfc.SCT) (sig : Bytes) (hid : s.logID.length = 32) (hs : Rfc.digitallySigned s.signature = some sig) :
    toSCT s.version s.logID s.timestamp s.extensions sig = some s := by
  simp [toSCT, hid, (parseDS_some sig s.signature).2 hs]

theorem toSTH_lossless (n ts : Nat) (root sig : Bytes) (s : STH) (h : toSTH n ts root sig = some s) :
    s.treeSize = n ∧ s.timestamp = ts ∧ s.rootHash = root ∧ root.length = 32 ∧ Rfc.digitallySigned s.signature = some sig := by
  unfold toSTH at h
  split at h
  · rename_i hid
    split at h
    · rename_i d hd
      cases h
      exact ⟨rfl, rfl, rfl, hid, (parseDS_some sig d).1 hd⟩
    · cases h
  · cases h

theorem toSTH_complete (s : STH) (sig : Bytes) (hid : s.rootHash.length = 32) (hs : Rfc.digitallySigned s.signature = some sig) :
    toSTH s.treeSize s.timestamp s.rootHash sig = some s := by
  simp [toSTH, hid, (parseDS_some sig s.signature).2 hs]

/-- **The `json:"…"` tags of the API message structs are the field names of RFC 6962 §4** (regenerated from types.go on every
run), in the RFC's order and with the JSON kind the RFC gives (number / base64 string / array of base64 / array of
entry objects), for all eight messages; `LeafEntry` has exactly `leaf_input`, `extra_data`. -/
theorem api_json_is_rfc :
    (∀ m ∈ Rfc.apiTable, ∃ g, goStructOf.lookup m.1 = some g ∧ jsonShape g = some (m.2.map fun (n, k) => (n, some k))) ∧
    jsonShape "LeafEntry" = some (Rfc.entryFields.map fun (n, k) => (n, some k)) := by
  decide +kernel

/-- the repository's JSON form of a signed tree head (not an RFC message): names as regenerated -/
example : (jsonShape "SignedTreeHead").map (·.map (·.1)) =
    some ["sth_version", "tree_size", "timestamp", "sha256_root_hash", "tree_head_signature", "log_id"] := by decide +kernel

/-! ## non-vacuity: concrete instances -/

def exCert : Bytes := [0x30, 0x03, 0x02, 0x01, 0x05]
def exLeaf : Rfc.MerkleTreeLeaf := ⟨0, ⟨1234, .x509 exCert, []⟩⟩
def exPre : Rfc.MerkleTreeLeaf := ⟨0, ⟨0xffffffffffffffff, .precert ⟨List.replicate 32 0xab, exCert⟩, [1, 2]⟩⟩

example : Rfc.merkleTreeLeaf exLeaf = some [0, 0, 0,0,0,0,0,0,4,0xd2, 0,0, 0,0,5,0x30,3,2,1,5, 0,0] := by decide
example : (Rfc.merkleTreeLeaf exPre).map List.length = some (1 + 1 + 8 + 2 + 32 + 3 + 5 + 2 + 2) := by decide
example : Rfc.decMerkleTreeLeaf [0, 0, 0,0,0,0,0,0,4,0xd2, 0,0, 0,0,5,0x30,3,2,1,5, 0,0, 9] = some (exLeaf, [9]) := by decide
/-- unknown leaf type and unknown entry type have no encoding / are refused -/
example : Rfc.decMerkleTreeLeaf [0, 1, 0,0,0,0,0,0,4,0xd2, 0,0, 0,0,5,0x30,3,2,1,5, 0,0] = none := by decide
example : Rfc.decMerkleTreeLeaf [0, 0, 0,0,0,0,0,0,4,0xd2, 0,2, 0,0,5,0x30,3,2,1,5, 0,0] = none := by decide
example : Rfc.sctSigInputV1 ⟨1, 5, .x509 exCert, []⟩ = none := by decide
example : (Rfc.sctSigInputV1 ⟨0, 5, .x509 exCert, []⟩).isSome = true := by decide
example : Rfc.sthSigInputV1 ⟨0, 1, 2, List.replicate 32 7⟩ = some ([0, 1] ++ [0,0,0,0,0,0,0,1] ++ [0,0,0,0,0,0,0,2] ++ List.replicate 32 7) := by
  decide
example : Rfc.sthSigInputV1 ⟨3, 1, 2, List.replicate 32 7⟩ = none := by decide
example : Rfc.digitallySigned ⟨4, 3, [0xde, 0xad]⟩ = some [4, 3, 0, 2, 0xde, 0xad] := by decide
example : Rfc.digitallySigned ⟨256, 3, []⟩ = none := by decide
example : Rfc.sctList [[1], [2, 3]] = some [0, 7, 0, 1, 1, 0, 2, 2, 3] := by decide
example : Rfc.sctList [] = none := by decide
example : Rfc.decLogEntry [0, 0, 0,0,0,0,0,0,4,0xd2, 0,0, 0,0,5,0x30,3,2,1,5, 0,0] [0, 0, 8, 0,0,5,0x30,3,2,1,5] =
    some (exLeaf, .x509 [exCert]) := by decide
/-- trailing bytes after the leaf or the extra data are refused -/
example : Rfc.decLogEntry [0, 0, 0,0,0,0,0,0,4,0xd2, 0,0, 0,0,5,0x30,3,2,1,5, 0,0, 0] [0, 0, 0] = none := by decide
example : Rfc.decLogEntry [0, 0, 0,0,0,0,0,0,4,0xd2, 0,0, 0,0,5,0x30,3,2,1,5, 0,0] [0, 0, 0, 0] = none := by decide
example : Rfc.leafHashInput [7, 8] = [0, 7, 8] := rfl

end C04
