import CTV.Lemmas.CtWire
/-!
# C04 — RFC 6962 wire structures, signature inputs and leaf hashes are byte-exact
-/
set_option linter.unusedSimpArgs false
namespace C04
open Tls CTV CtWire

/-! ## encoders: what the regenerated tags make `tls.Marshal` produce = the RFC transcription -/

theorem enc_asn1Cert (c : Bytes) : eo (enc tASN1Cert (asn1CertVal c)) = Rfc.asn1Cert c := by
  rw [ty_ASN1Cert]
  simp [xASN1Cert, asn1CertVal, enc_struct_eo, encFields_plain_eo, encFields_nil_eo, enc_bytes_eo, encPrefixed_iCert,
    Rfc.asn1Cert, allTaken]

theorem enc_preCert (p : Rfc.PreCert) : eo (enc tPreCert (preCertVal p)) = Rfc.preCert p := by
  rw [ty_PreCert]
  simp [xPreCert, preCertVal, enc_struct_eo, encFields_plain_eo, encFields_nil_eo, enc_bytes_eo, enc_arr_eo, encPrefixed_iCert,
    Rfc.preCert, allTaken]

theorem enc_digitallySigned (d : Rfc.DigitallySigned) : eo (enc tDigitallySigned (dsVal d)) = Rfc.digitallySigned d := by
  rw [ty_DigitallySigned]
  simp [xDigitallySigned, dsVal, enc_struct_eo, encFields_plain_eo, encFields_nil_eo, enc_bytes_eo, encPrefixed_iExt,
    i1, enc_enum_eo, Rfc.digitallySigned, allTaken]
  cases Rfc.uintN 1 d.hash <;> cases Rfc.uintN 1 d.sigAlg <;> cases Rfc.varVector 0 65535 d.signature <;> simp

/-- the `EntryType` selector and its variants, inside any struct: `LogEntryType entry_type; select(entry_type) {…}` -/
theorem encFields_entry (env : Env) (men tak : List String) (rest : Fields) (e : Rfc.SignedEntry) (vs : List Val)
    (hm : tak.contains "EntryType" = false) :
    eo (encFields env men tak (xEntryFields rest) (signedEntryVals e ++ vs)) =
      (Rfc.signedEntry e).bind fun x =>
        (eo (encFields (("EntryType", e.entryType) :: env) ("EntryType" :: "EntryType" :: "EntryType" :: men) ("EntryType" :: tak) rest vs)).bind
          fun y => some (x ++ y) := by
  have e1 := enc_asn1Cert
  have e2 := enc_preCert
  rw [ty_ASN1Cert] at e1
  rw [ty_PreCert] at e2
  cases e with
  | x509 c =>
    simp only [xEntryFields, signedEntryVals, List.cons_append, List.nil_append, Rfc.signedEntry, Rfc.SignedEntry.entryType]
    rw [encFields_plain_eo, enc_enum_eo 2 0 (by decide)]
    rw [show envPush env "EntryType" (.enum i2) (.num 0) = ("EntryType", 0) :: env by rfl]
    rw [encFields_chosen_eo _ _ _ _ _ _ _ _ _ _ (by simp [List.lookup]) hm (by simp [asn1CertVal]), e1]
    rw [encFields_unchosen_eo _ _ _ _ _ _ 0 _ _ _ (by simp [List.lookup]) (by decide)]
    rw [encFields_unchosen_eo _ _ _ _ _ _ 0 _ _ _ (by simp [List.lookup]) (by decide)]
    simp [Rfc.uintN, i2]
    cases Rfc.asn1Cert c <;> simp
    cases eo (encFields (("EntryType", 0) :: env) ("EntryType" :: "EntryType" :: "EntryType" :: men) ("EntryType" :: tak) rest vs) <;> simp
  | precert p =>
    simp only [xEntryFields, signedEntryVals, List.cons_append, List.nil_append, Rfc.signedEntry, Rfc.SignedEntry.entryType]
    rw [encFields_plain_eo, enc_enum_eo 2 1 (by decide)]
    rw [show envPush env "EntryType" (.enum i2) (.num 1) = ("EntryType", 1) :: env by rfl]
    rw [encFields_unchosen_eo _ _ _ _ _ _ 1 _ _ _ (by simp [List.lookup]) (by decide)]
    rw [encFields_chosen_eo _ _ _ _ _ _ _ _ _ _ (by simp [List.lookup]) (by simpa using hm) (by simp [preCertVal]), e2]
    rw [encFields_unchosen_eo _ _ _ _ _ _ 1 _ _ _ (by simp [List.lookup]) (by decide)]
    simp [Rfc.uintN, i2]
    cases Rfc.preCert p <;> simp
    cases eo (encFields (("EntryType", 1) :: env) ("EntryType" :: "EntryType" :: "EntryType" :: men) ("EntryType" :: tak) rest vs) <;> simp

theorem enc_timestampedEntry (t : Rfc.TimestampedEntry) :
    eo (enc tTimestampedEntry (teVal t)) = Rfc.timestampedEntry t := by
  rw [ty_TimestampedEntry]
  simp only [xTimestampedEntry, teVal, enc_struct_eo]
  rw [encFields_plain_eo, enc_uint_eo, encFields_entry _ _ _ _ _ _ (by rfl)]
  simp only [encFields_plain_eo, encFields_nil_eo, enc_bytes_eo, encPrefixed_iExt, Rfc.timestampedEntry, Rfc.ctExtensions]
  have ht : allTaken ["EntryType", "EntryType", "EntryType"] ["EntryType"] = true := by decide
  simp only [ht, if_true]
  cases Rfc.uintN 8 t.timestamp <;> cases Rfc.signedEntry t.entry <;> cases Rfc.varVector 0 65535 t.extensions <;> simp

theorem enc_merkleTreeLeaf (l : Rfc.MerkleTreeLeaf) :
    eo (enc tMerkleTreeLeaf (leafVal l)) = Rfc.merkleTreeLeaf l := by
  have e1 := enc_timestampedEntry l.entry
  rw [ty_TimestampedEntry] at e1
  rw [ty_MerkleTreeLeaf]
  simp only [xMerkleTreeLeaf, leafVal, enc_struct_eo]
  rw [encFields_plain_eo, enc_enum_eo 1 _ (by decide), encFields_plain_eo, enc_enum_eo 1 0 (by decide)]
  rw [show envPush (envPush [] "Version" (.enum i1) (.num l.version)) "LeafType" (.enum i1) (.num 0)
        = [("LeafType", 0), ("Version", l.version)] by rfl]
  rw [encFields_chosen_eo _ _ _ _ _ _ _ _ _ _ (by simp [List.lookup]) (by rfl) (by simp [teVal]), e1, encFields_nil_eo]
  have ht : allTaken ["LeafType"] ["LeafType"] = true := by decide
  simp only [ht, if_true, Rfc.merkleTreeLeaf]
  cases Rfc.uintN 1 l.version <;> cases Rfc.timestampedEntry l.entry <;> simp [Rfc.uintN]

theorem enc_sct (s : Rfc.SCT) : eo (enc tSCT (sctVal s)) = Rfc.sct s := by
  have e1 := enc_digitallySigned s.signature
  rw [ty_DigitallySigned] at e1
  rw [ty_SCT]
  simp only [xSCT, sctVal, enc_struct_eo, encFields_plain_eo, encFields_nil_eo, enc_enum_eo 1 _ (by decide : 1 ≤ 7), enc_uint_eo,
    enc_arr_eo, enc_bytes_eo, encPrefixed_iExt, e1, Rfc.sct, Rfc.ctExtensions]
  have ht : allTaken [] [] = true := by decide
  simp only [ht, if_true]
  cases Rfc.uintN 1 s.version <;> cases Rfc.opaqueFixed 32 s.logID <;> cases Rfc.uintN 8 s.timestamp <;>
    cases Rfc.varVector 0 65535 s.extensions <;> cases Rfc.digitallySigned s.signature <;> simp

/-- The bytes under an SCT signature (RFC 6962 §3.2, `signature_type = certificate_timestamp`). -/
theorem enc_sctSigInput (i : Rfc.SctSigInput) :
    eo (enc tCertificateTimestamp (sctSigInputVal i)) = Rfc.sctSigInput i := by
  rw [ty_CertificateTimestamp]
  simp only [xCertificateTimestamp, sctSigInputVal, enc_struct_eo]
  rw [encFields_plain_eo, enc_enum_eo 1 _ (by decide), encFields_plain_eo, enc_enum_eo 1 0 (by decide),
    encFields_plain_eo, enc_uint_eo, encFields_entry _ _ _ _ _ _ (by rfl)]
  simp only [encFields_plain_eo, encFields_nil_eo, enc_bytes_eo, encPrefixed_iExt, Rfc.sctSigInput, Rfc.ctExtensions]
  have ht : allTaken ["EntryType", "EntryType", "EntryType"] ["EntryType"] = true := by decide
  simp only [ht, if_true]
  cases Rfc.uintN 1 i.version <;> cases Rfc.uintN 8 i.timestamp <;> cases Rfc.signedEntry i.entry <;>
    cases Rfc.varVector 0 65535 i.extensions <;> simp [Rfc.uintN]

/-- The bytes under an STH signature (RFC 6962 §3.5, `signature_type = tree_hash`). -/
theorem enc_sthSigInput (s : Rfc.SthSigInput) :
    eo (enc tTreeHeadSignature (sthSigInputVal s)) = Rfc.sthSigInput s := by
  rw [ty_TreeHeadSignature]
  simp only [xTreeHeadSignature, sthSigInputVal, enc_struct_eo, encFields_plain_eo, encFields_nil_eo,
    enc_enum_eo 1 _ (by decide : 1 ≤ 7), enc_uint_eo, enc_arr_eo, Rfc.sthSigInput]
  have ht : allTaken [] [] = true := by decide
  simp only [ht, if_true]
  cases Rfc.uintN 1 s.version <;> cases Rfc.uintN 8 s.timestamp <;> cases Rfc.uintN 8 s.treeSize <;>
    cases Rfc.opaqueFixed 32 s.rootHash <;> simp [Rfc.uintN]

theorem enc_certChain (c : List Bytes) : eo (enc tCertificateChain (chainVal c)) = Rfc.certChain c := by
  have e1 := enc_asn1Cert
  rw [ty_ASN1Cert] at e1
  rw [ty_CertificateChain]
  simp only [xCertificateChain, chainVal, enc_struct_eo, encFields_plain_eo, encFields_nil_eo, enc_vec_eo,
    encListWith_map_eo xASN1Cert asn1CertVal Rfc.asn1Cert e1, encPrefixed_iChain, Rfc.certChain]
  have ht : allTaken [] [] = true := by decide
  simp only [ht, if_true]
  cases Rfc.concatAll Rfc.asn1Cert c <;> simp

theorem enc_precertChainEntry (e : Rfc.PrecertChainEntry) :
    eo (enc tPrecertChainEntry (precertChainVal e)) = Rfc.precertChainEntry e := by
  have e1 := enc_asn1Cert
  rw [ty_ASN1Cert] at e1
  rw [ty_PrecertChainEntry]
  simp only [xPrecertChainEntry, precertChainVal, enc_struct_eo, encFields_plain_eo, encFields_nil_eo, enc_vec_eo, e1,
    encListWith_map_eo xASN1Cert asn1CertVal Rfc.asn1Cert e1, encPrefixed_iChain, Rfc.precertChainEntry, Rfc.certChain]
  have ht : allTaken [] [] = true := by decide
  simp only [ht, if_true]
  cases Rfc.asn1Cert e.preCertificate <;> simp

theorem enc_serializedSCT (s : Bytes) : eo (enc tSerializedSCT (serializedSCTVal s)) = Rfc.serializedSCT s := by
  rw [ty_SerializedSCT]
  simp [xSerializedSCT, serializedSCTVal, enc_struct_eo, encFields_plain_eo, encFields_nil_eo, enc_bytes_eo, encPrefixed_iSct,
    Rfc.serializedSCT, allTaken]

/-- SCT lists (RFC 6962 §3.3): whatever `tls.Marshal` accepts is the RFC encoding, for the bound the tag declares
today — proved for the regenerated tag whether it says `maxlen:65335` (unchanged tree, finding F4) or `maxlen:65535`.
The converse (every RFC list encodes) is `C04SctList.enc_sctList`, which is false for the unchanged tree. -/
theorem enc_sctList_sound (l : List Bytes) (bs : Bytes) (h : enc tSCTList (sctListVal l) = .ok bs) :
    Rfc.sctList l = some bs := by
  have e1 := enc_serializedSCT
  rw [ty_SerializedSCT] at e1
  obtain ⟨hlo, hhi⟩ := sctListMax_le
  have h' : eo (enc tSCTList (sctListVal l)) = some bs := by rw [h]; rfl
  rw [ty_SCTList] at h'
  simp only [xSCTList, sctListVal, enc_struct_eo, encFields_plain_eo, encFields_nil_eo, enc_vec_eo,
    encListWith_map_eo xSerializedSCT serializedSCTVal Rfc.serializedSCT e1] at h'
  have ht : allTaken [] [] = true := by decide
  simp only [ht, if_true] at h'
  simp only [Rfc.sctList]
  cases hb : Rfc.concatAll Rfc.serializedSCT l with
  | none => simp [hb] at h'
  | some body =>
    simp only [hb, Option.bind_some] at h' ⊢
    rw [encPrefixed_eo 2 1 sctListMax body (by decide) (by omega) (by omega)] at h'
    split at h'
    · rename_i hr
      simp at h'
      subst h'
      simp [Rfc.varVector, Rfc.lenWidth]
      omega
    · simp at h'

end C04
